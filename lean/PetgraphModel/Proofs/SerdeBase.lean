import PetgraphModel.Model.Serde
/-
Helper definitions and lemmas for C17 (part 1): index lists, linked-list representation predicates, frame lemmas.
-/
namespace PetgraphModel.SerdeProofs
open PetgraphModel.Serde

/-! ### descending index lists -/

/-- does slot `n` exist and satisfy `p`? -/
def hit {α} (p : α → Bool) (l : List α) (n : Nat) : Bool :=
  match l[n]? with
  | some s => p s
  | none => false

theorem hit_iff {α} (p : α → Bool) (l : List α) (n : Nat) :
    hit p l n = true ↔ ∃ s, l[n]? = some s ∧ p s = true := by
  unfold hit; split <;> simp_all

/-- the indices `< n` whose slot satisfies `p`, in descending order -/
def idxDesc {α} (p : α → Bool) (l : List α) : Nat → List Nat
  | 0 => []
  | n+1 => if hit p l n then n :: idxDesc p l n else idxDesc p l n

theorem mem_idxDesc {α} (p : α → Bool) (l : List α) (n e : Nat) :
    e ∈ idxDesc p l n ↔ e < n ∧ ∃ s, l[e]? = some s ∧ p s = true := by
  induction n with
  | zero => simp [idxDesc]
  | succ n ih =>
    unfold idxDesc
    by_cases h : hit p l n = true
    · rw [if_pos h]
      simp only [List.mem_cons, ih]
      constructor
      · rintro (rfl | ⟨h1, h2⟩)
        · exact ⟨Nat.lt_succ_self _, (hit_iff p l _).1 h⟩
        · exact ⟨Nat.lt_succ_of_lt h1, h2⟩
      · rintro ⟨h1, h2⟩
        by_cases he : e = n
        · exact Or.inl he
        · exact Or.inr ⟨by omega, h2⟩
    · rw [if_neg h, ih]
      constructor
      · rintro ⟨h1, h2⟩; exact ⟨Nat.lt_succ_of_lt h1, h2⟩
      · rintro ⟨h1, h2⟩
        by_cases he : e = n
        · subst he; exact absurd ((hit_iff p l _).2 h2) h
        · exact ⟨by omega, h2⟩

theorem idxDesc_lt {α} (p : α → Bool) (l : List α) (n e : Nat) (h : e ∈ idxDesc p l n) : e < n :=
  ((mem_idxDesc p l n e).1 h).1

theorem nodup_idxDesc {α} (p : α → Bool) (l : List α) (n : Nat) : (idxDesc p l n).Nodup := by
  induction n with
  | zero => simp [idxDesc]
  | succ n ih =>
    unfold idxDesc
    by_cases h : hit p l n = true
    · rw [if_pos h]
      refine List.nodup_cons.2 ⟨?_, ih⟩
      intro h'
      exact Nat.lt_irrefl _ (idxDesc_lt p l n n h')
    · rw [if_neg h]; exact ih

theorem idxDesc_congr {α} (p : α → Bool) (l l' : List α) (n : Nat) (h : ∀ e, e < n → l'[e]? = l[e]?) :
    idxDesc p l' n = idxDesc p l n := by
  induction n with
  | zero => rfl
  | succ n ih =>
    unfold idxDesc
    have : hit p l' n = hit p l n := by unfold hit; rw [h n (Nat.lt_succ_self n)]
    rw [this, ih (fun e he => h e (Nat.lt_succ_of_lt he))]

theorem idxDesc_congr_hit {α} (p : α → Bool) (l l' : List α) (n : Nat) (h : ∀ e, e < n → hit p l' e = hit p l e) :
    idxDesc p l' n = idxDesc p l n := by
  induction n with
  | zero => rfl
  | succ n ih =>
    unfold idxDesc
    rw [h n (Nat.lt_succ_self n), ih (fun e he => h e (Nat.lt_succ_of_lt he))]

theorem idxDesc_snoc {α} (p : α → Bool) (l : List α) (x : α) :
    idxDesc p (l ++ [x]) (l.length + 1) = if p x then l.length :: idxDesc p l l.length else idxDesc p l l.length := by
  have hc : idxDesc p (l ++ [x]) l.length = idxDesc p l l.length :=
    idxDesc_congr p l (l ++ [x]) l.length (fun e he => List.getElem?_append_left he)
  have hh : hit p (l ++ [x]) l.length = p x := by unfold hit; simp
  conv => lhs; unfold idxDesc
  rw [hc, hh]

/-! ### edge lists -/

/-- `l` is the list of edge indices visited from `h` along `next[k]` until `END` -/
inductive Chain (edges : List EdgeSlot) (END k : Nat) : Nat → List Nat → Prop
  | nil : Chain edges END k END []
  | cons (e : Nat) (s : EdgeSlot) (l : List Nat) :
      edges[e]? = some s → Chain edges END k (s.next k) l → Chain edges END k e (e :: l)

theorem Chain.congr {edges edges' : List EdgeSlot} {END k h : Nat} {l : List Nat}
    (c : Chain edges END k h l) (hl : ∀ e, e ∈ l → edges'[e]? = edges[e]?) : Chain edges' END k h l := by
  induction c with
  | nil => exact .nil
  | cons e s l hs _ ih =>
    refine .cons e s l ?_ (ih (fun e' he' => hl e' (List.mem_cons_of_mem _ he')))
    rw [hl e (List.mem_cons_self ..)]; exact hs

theorem Chain.lt {edges : List EdgeSlot} {END k h : Nat} {l : List Nat}
    (c : Chain edges END k h l) : ∀ e, e ∈ l → e < edges.length := by
  induction c with
  | nil => simp
  | cons e s l hs _ ih =>
    intro e' he'
    rcases List.mem_cons.1 he' with rfl | h'
    · exact (List.getElem?_eq_some_iff.1 hs).1
    · exact ih e' h'

theorem Chain.snoc {edges : List EdgeSlot} {END k h : Nat} {l : List Nat} (x : EdgeSlot)
    (c : Chain edges END k h l) : Chain (edges ++ [x]) END k h l :=
  c.congr (fun e he => List.getElem?_append_left (c.lt e he))

theorem Chain.push {edges : List EdgeSlot} {END k h : Nat} {l : List Nat} (x : EdgeSlot)
    (c : Chain edges END k h l) (hx : x.next k = h) :
    Chain (edges ++ [x]) END k edges.length (edges.length :: l) :=
  .cons edges.length x l List.getElem?_concat_length (hx ▸ c.snoc x)

/-! ### the doubly linked free-node list -/

/-- `l` is the list of vacant node indices visited from `h` along `next[0]`; every slot's `next[1]` names its
    predecessor (`prev` for the first) — exactly what `check_free_lists` asserts -/
inductive DChain (nodes : List NodeSlot) (END : Nat) : Nat → Nat → List Nat → Prop
  | nil (prev : Nat) : DChain nodes END prev END []
  | cons (prev h : Nat) (s : NodeSlot) (l : List Nat) :
      nodes[h]? = some s → s.w = none → s.n1 = prev → DChain nodes END h s.n0 l → DChain nodes END prev h (h :: l)

theorem DChain.congr {nodes nodes' : List NodeSlot} {END p h : Nat} {l : List Nat}
    (c : DChain nodes END p h l) (hl : ∀ i, i ∈ l → nodes'[i]? = nodes[i]?) : DChain nodes' END p h l := by
  induction c with
  | nil p => exact .nil p
  | cons p h s l hs hw hp _ ih =>
    refine .cons p h s l ?_ hw hp (ih (fun i hi => hl i (List.mem_cons_of_mem _ hi)))
    rw [hl h (List.mem_cons_self ..)]; exact hs

theorem DChain.lt {nodes : List NodeSlot} {END p h : Nat} {l : List Nat}
    (c : DChain nodes END p h l) : ∀ i, i ∈ l → i < nodes.length := by
  induction c with
  | nil p => simp
  | cons p h s l hs _ _ _ ih =>
    intro i hi
    rcases List.mem_cons.1 hi with rfl | h'
    · exact (List.getElem?_eq_some_iff.1 hs).1
    · exact ih i h'

end PetgraphModel.SerdeProofs
