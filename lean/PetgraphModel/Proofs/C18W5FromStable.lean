import PetgraphModel.Proofs.C18W5Built
import PetgraphModel.Theorems.C02
/-
C18 (wave 5) — `StableGraph::from_graph6_string` builds what the decoder answered.

The run `add_node(()) × n; extend_with_edges(edges)` on a new graph never meets a vacancy: `Fresh` describes every state
of it (all node slots live with weight `()`, the pushed edges in order, both free lists empty, exact counters), so
`try_add_node` is the push branch, `ensure_node_exists` is the identity and `try_add_edge` is the push branch, until the
index type is exhausted (`n > Ix::max()` resp. more than `Ix::max()` edges) — then, and only then, the call panics.
The invariant of the result is `C02_all_histories` for the same (deterministic) run.
-/
namespace PetgraphModel.G6V
open PetgraphModel PetgraphModel.Visit

namespace StableW5
open PetgraphModel.SG

structure Fresh (fin : Nat) (noLimit debug : Bool) (s : State) (n : Nat) (es : List (Nat × Nat)) : Prop where
  hdir : s.directed = false
  hfin : s.fin = fin
  hnl : s.noLimit = noLimit
  hdbg : s.debug = debug
  hnodes : s.nodes.map (·.w) = List.replicate n (some 0)
  hnc : s.nodeCount = n
  hedges : s.edges.map (fun e => (e.w, e.a, e.b)) = es.map (fun e => (some (0 : Int), e.1, e.2))
  hec : s.edgeCount = es.length
  hfn : s.freeNode = fin
  hfe : s.freeEdge = fin

theorem Fresh.nlen {fin : Nat} {noLimit debug : Bool} {s : State} {n : Nat} {es : List (Nat × Nat)} (h : Fresh fin noLimit debug s n es) : s.nodes.length = n := by
  have := congrArg List.length h.hnodes
  simpa using this

theorem Fresh.elen {fin : Nat} {noLimit debug : Bool} {s : State} {n : Nat} {es : List (Nat × Nat)} (h : Fresh fin noLimit debug s n es) : s.edges.length = es.length := by
  have := congrArg List.length h.hedges
  simpa using this

theorem fresh_empty (fin : Nat) (noLimit debug : Bool) : Fresh fin noLimit debug (SG.empty false fin noLimit debug) 0 [] := by
  constructor <;> simp [SG.empty]

theorem canPush_lt {s : State} {len : Nat} (h : len < s.fin) : canPush s len = true ∧ mkIx s len = len := by
  unfold canPush mkIx
  by_cases hn : s.noLimit
  · simp [hn, h]
  · have hm : len % (s.fin + 1) = len := Nat.mod_eq_of_lt (by omega)
    simp [hn, hm]; omega

theorem canPush_eq {s : State} {len : Nat} (h : len = s.fin) : canPush s len = false := by
  unfold canPush mkIx
  by_cases hn : s.noLimit
  · simp [hn, h]
  · have hm : len % (s.fin + 1) = len := Nat.mod_eq_of_lt (by omega)
    simp [hn, hm]; omega

theorem addNode_fresh {fin : Nat} {noLimit debug : Bool} {s : State} {n : Nat} {es : List (Nat × Nat)} (h : Fresh fin noLimit debug s n es) (hlt : n < fin) :
    ∃ s', tryAddNode s 0 = .ok (s', .ok n) ∧ Fresh fin noLimit debug s' (n + 1) es := by
  have hl := h.nlen
  have hc := canPush_lt (s := s) (len := s.nodes.length) (by rw [hl, h.hfin]; exact hlt)
  refine ⟨{ s with nodes := s.nodes ++ [{ w := some 0, n0 := s.fin, n1 := s.fin }], nodeCount := s.nodeCount + 1 }, ?_, ?_⟩
  · unfold tryAddNode pushNode
    rw [if_neg (by simp [h.hfn, h.hfin])]
    rw [hl] at hc
    simp only [hl, hc.1, hc.2, if_true]
  · constructor <;> simp [h.hdir, h.hfin, h.hnl, h.hdbg, h.hnodes, h.hnc, h.hedges, h.hec, h.hfn, h.hfe, List.replicate_succ']

theorem addNode_full {fin : Nat} {noLimit debug : Bool} {s : State} {n : Nat} {es : List (Nat × Nat)} (h : Fresh fin noLimit debug s n es) (hlt : n = fin) :
    tryAddNode s 0 = .ok (s, .error .nodeIxLimit) := by
  have hl := h.nlen
  have hc := canPush_eq (s := s) (len := s.nodes.length) (by rw [hl, h.hfin]; exact hlt)
  unfold tryAddNode pushNode
  rw [if_neg (by simp [h.hfn, h.hfin])]
  simp [hc]

theorem map_set_same {α β : Type} (f : α → β) (l : List α) (i : Nat) (x y : α) (hi : l[i]? = some y) (hf : f x = f y) :
    (l.set i x).map f = l.map f := by
  apply List.ext_getElem?
  intro j
  simp only [List.getElem?_map, List.getElem?_set]
  by_cases hj : i = j
  · subst hj
    obtain ⟨hlt, rfl⟩ := List.getElem?_eq_some_iff.1 hi
    simp [hlt, hf]
  · simp [hj]

theorem Fresh.node {fin : Nat} {noLimit debug : Bool} {s : State} {n : Nat} {es : List (Nat × Nat)}
    (h : Fresh fin noLimit debug s n es) {i : Nat} (hi : i < n) : ∃ nd, s.nodes[i]? = some nd ∧ nd.w = some 0 := by
  have h1 := congrArg (fun l => l[i]?) h.hnodes
  simp only [List.getElem?_map, List.getElem?_replicate, hi, if_true] at h1
  cases hn : s.nodes[i]? with
  | none => rw [hn] at h1; cases h1
  | some nd => rw [hn] at h1; exact ⟨nd, rfl, by simpa using h1⟩

theorem addEdge_fresh {fin : Nat} {noLimit debug : Bool} {s : State} {n : Nat} {es : List (Nat × Nat)}
    (h : Fresh fin noLimit debug s n es) {a b : Nat} (hab : a < b) (hb : b < n) (hlt : es.length < fin) :
    ∃ s', tryAddEdge s a b 0 = .ok (s', .ok es.length) ∧ Fresh fin noLimit debug s' n (es ++ [(a, b)]) := by
  have hl := h.elen
  have hnl := h.nlen
  have hc := canPush_lt (s := s) (len := s.edges.length) (by rw [hl, h.hfin]; exact hlt)
  obtain ⟨an, han, haw⟩ := h.node (show a < n by omega)
  obtain ⟨bn, hbn, hbw⟩ := h.node hb
  have hlink : linkNodes s.nodes a b es.length =
      .ok ((s.nodes.set a { an with n0 := es.length }).set b { bn with n1 := es.length }, an.n0, bn.n1) := by
    unfold linkNodes
    rw [if_neg (by rw [hnl]; omega), if_neg (by omega)]
    simp [han, hbn, haw, hbw]
  refine ⟨{ s with nodes := (s.nodes.set a { an with n0 := es.length }).set b { bn with n1 := es.length },
                   edges := s.edges ++ [{ w := some 0, n0 := an.n0, n1 := bn.n1, a := a, b := b }],
                   edgeCount := s.edgeCount + 1 }, ?_, ?_⟩
  · unfold tryAddEdge
    rw [if_neg (by simp [h.hfe, h.hfin])]
    rw [hl] at hc
    simp only [hl, hc.1, hc.2, hlink]
    rfl
  · have hb' : (s.nodes.set a { an with n0 := es.length })[b]? = some bn := by
      rw [List.getElem?_set_ne (by omega)]; exact hbn
    have hnodes' : ((s.nodes.set a { an with n0 := es.length }).set b { bn with n1 := es.length }).map (·.w) =
        List.replicate n (some 0) := by
      rw [map_set_same (fun x : Node => x.w) _ b { bn with n1 := es.length } bn hb' rfl,
        map_set_same (fun x : Node => x.w) _ a { an with n0 := es.length } an han rfl, h.hnodes]
    constructor <;> first | exact hnodes' | simp [h.hdir, h.hfin, h.hnl, h.hdbg, h.hnc, h.hedges, h.hec, h.hfn, h.hfe]

theorem addEdge_full {fin : Nat} {noLimit debug : Bool} {s : State} {n : Nat} {es : List (Nat × Nat)}
    (h : Fresh fin noLimit debug s n es) (a b : Nat) (hlt : es.length = fin) :
    tryAddEdge s a b 0 = .ok (s, .error .edgeIxLimit) := by
  have hl := h.elen
  have hc := canPush_eq (s := s) (len := s.edges.length) (by rw [hl, h.hfin]; exact hlt)
  unfold tryAddEdge
  rw [if_neg (by simp [h.hfe, h.hfin])]
  simp [hc]

theorem ensure_fresh {fin : Nat} {noLimit debug : Bool} {s : State} {n : Nat} {es : List (Nat × Nat)}
    (h : Fresh fin noLimit debug s n es) {i : Nat} (hi : i < n) : ensureNodeExists s i = .ok (s, false) := by
  obtain ⟨nd, hn, hw⟩ := h.node hi
  unfold ensureNodeExists nodeWeight
  simp [hn, hw]

theorem extend_fresh {fin : Nat} {noLimit debug : Bool} {n : Nat} :
    ∀ (l pre : List (Nat × Nat)) (s : State), Fresh fin noLimit debug s n pre →
      (∀ e ∈ l, e.1 < e.2 ∧ e.2 < n) → pre.length + l.length ≤ fin →
      ∃ s', extendWithEdges s (unitEdgesZ l) = .ok (s', false) ∧ Fresh fin noLimit debug s' n (pre ++ l) := by
  intro l
  induction l with
  | nil => intro pre s h _ _; exact ⟨s, rfl, by simpa using h⟩
  | cons e l ih =>
    intro pre s h hes hfit
    obtain ⟨a, b⟩ := e
    have hab := hes (a, b) (by simp)
    simp only at hab
    simp only [List.length_cons] at hfit
    obtain ⟨s1, h1, hf1⟩ := addEdge_fresh h hab.1 hab.2 (by omega)
    obtain ⟨s2, h2, hf2⟩ := ih (pre ++ [(a, b)]) s1 hf1 (fun e he => hes e (by simp [he])) (by simp; omega)
    refine ⟨s2, ?_, by simpa using hf2⟩
    simp only [unitEdgesZ, List.map_cons, extendWithEdges, ensure_fresh h (show a < n by omega), ensure_fresh h hab.2, h1]
    exact h2

theorem extend_panic {fin : Nat} {noLimit debug : Bool} {n : Nat} :
    ∀ (l pre : List (Nat × Nat)) (s : State), Fresh fin noLimit debug s n pre →
      (∀ e ∈ l, e.1 < e.2 ∧ e.2 < n) → pre.length ≤ fin → fin < pre.length + l.length →
      ∃ s', extendWithEdges s (unitEdgesZ l) = .ok (s', true) := by
  intro l
  induction l with
  | nil => intro pre s h _ h1 h2; simp at h2; omega
  | cons e l ih =>
    intro pre s h hes hle hfit
    obtain ⟨a, b⟩ := e
    have hab := hes (a, b) (by simp)
    simp only at hab
    simp only [List.length_cons] at hfit
    by_cases hfull : pre.length = fin
    · refine ⟨s, ?_⟩
      simp only [unitEdgesZ, List.map_cons, extendWithEdges, ensure_fresh h (show a < n by omega), ensure_fresh h hab.2,
        addEdge_full h a b hfull]
    · obtain ⟨s1, h1, hf1⟩ := addEdge_fresh h hab.1 hab.2 (by omega)
      obtain ⟨s2, h2⟩ := ih (pre ++ [(a, b)]) s1 hf1 (fun e he => hes e (by simp [he])) (by simp; omega) (by simp; omega)
      refine ⟨s2, ?_⟩
      simp only [unitEdgesZ, List.map_cons, extendWithEdges, ensure_fresh h (show a < n by omega), ensure_fresh h hab.2, h1]
      exact h2

theorem run_append (l1 l2 : List SG.Op) : ∀ (s : State), run s (l1 ++ l2) =
    match run s l1 with
    | .error x => .error x
    | .ok (s1, o1) =>
      match run s1 l2 with
      | .error x => .error x
      | .ok (s2, o2) => .ok (s2, o1 ++ o2) := by
  induction l1 with
  | nil => intro s; simp only [List.nil_append, run]; cases run s l2 with
    | error x => rfl
    | ok p => rfl
  | cons op l1 ih =>
    intro s
    simp only [List.cons_append, run]
    cases step s op with
    | error x => rfl
    | ok p =>
      obtain ⟨s1, o⟩ := p
      simp only [ih s1]
      cases run s1 l1 with
      | error x => rfl
      | ok q =>
        obtain ⟨s2, o2⟩ := q
        simp only
        cases run s2 l2 with
        | error x => rfl
        | ok r => rfl

theorem runNodes_fresh {fin : Nat} {noLimit debug : Bool} :
    ∀ (m k : Nat) (s : State), Fresh fin noLimit debug s k [] → k + m ≤ fin →
      ∃ s' outs, run s (List.replicate m (.addNode 0)) = .ok (s', outs) ∧ Fresh fin noLimit debug s' (k + m) [] ∧
        outs.any sgPanicked = false := by
  intro m
  induction m with
  | zero => intro k s h _; exact ⟨s, [], rfl, h, rfl⟩
  | succ m ih =>
    intro k s h hfit
    obtain ⟨s1, h1, hf1⟩ := addNode_fresh h (show k < fin by omega)
    obtain ⟨s2, outs, h2, hf2, hp⟩ := ih (k + 1) s1 hf1 (by omega)
    refine ⟨s2, .idx (.ok k) :: outs, ?_, by rw [show k + (m + 1) = k + 1 + m by omega]; exact hf2, ?_⟩
    · simp only [List.replicate_succ, run, step, h1, h2]
    · simp [sgPanicked, hp]

/-- the answer of `from_graph6_string` read off a run -/
def outcome (r : Except Fault (State × List Out)) : Option State :=
  match r with
  | .error _ => none
  | .ok (s, outs) => if outs.any sgPanicked then none else some s

theorem outcome_panic_mid (s s1 s2 : State) (l1 l2 : List SG.Op) (o1 : List Out) (op : SG.Op) (o : Out)
    (h1 : run s l1 = .ok (s1, o1)) (h2 : step s1 op = .ok (s2, o)) (hp : sgPanicked o = true) :
    outcome (run s (l1 ++ op :: l2)) = none := by
  rw [run_append, h1]
  simp only [run, h2]
  cases run s2 l2 with
  | error x => rfl
  | ok q =>
    obtain ⟨s3, o3⟩ := q
    simp [outcome, hp]

theorem liveIdx_replicate {α : Type} (x : α) : ∀ (n i : Nat), liveIdx (List.replicate n (some x)) i = List.range' i n := by
  intro n
  induction n with
  | zero => intro i; rfl
  | succ n ih => intro i; simp [List.replicate_succ, liveIdx, ih, List.range'_succ]

theorem edgeRefs_fresh : ∀ (edges : List Edge) (es : List (Nat × Nat)) (i : Nat),
    edges.map (fun e => (e.w, e.a, e.b)) = es.map (fun e => (some (0 : Int), e.1, e.2)) →
    (edgeRefsFrom edges i).map (fun r => (r.a, r.b)) = es := by
  intro edges
  induction edges with
  | nil => intro es i h; cases es with
    | nil => rfl
    | cons e es => simp at h
  | cons x edges ih =>
    intro es i h
    cases es with
    | nil => simp at h
    | cons e es =>
      simp only [List.map_cons, List.cons.injEq, Prod.mk.injEq] at h
      obtain ⟨⟨hw, ha, hb⟩, hrest⟩ := h
      simp only [edgeRefsFrom, hw, List.map_cons, ih es (i + 1) hrest, ha, hb]

theorem built_of_fresh {fin : Nat} {noLimit debug : Bool} {s : State} {n : Nat} {es : List (Nat × Nat)}
    (h : Fresh fin noLimit debug s n es) (hes : ∀ e ∈ es, e.1 < e.2 ∧ e.2 < n) : Built 1 (stableTable s) n es := by
  refine ⟨h.hdir, ?_, ?_, ?_, ?_⟩
  · show some (nodeIndices s) = _
    rw [nodeIndices, h.hnodes, liveIdx_replicate, List.range_eq_range']
  · show some s.nodeCount = _
    rw [h.hnc]
  · show some s.edgeCount = _
    rw [h.hec]
  · refine ⟨(edgeReferences s).map SGView.eref, rfl, ?_⟩
    have h1 := edgeRefs_fresh s.edges es 0 h.hedges
    have h2 : ((edgeReferences s).map SGView.eref).map (fun e => (min e.src e.tgt, max e.src e.tgt)) =
        ((edgeRefsFrom s.edges 0).map (fun r => (r.a, r.b))).map (fun p => (min p.1 p.2, max p.1 p.2)) := by
      simp [edgeReferences, SGView.eref, List.map_map, Function.comp_def]
    rw [h2, h1]
    have h3 : es.map (fun p => (min p.1 p.2, max p.1 p.2)) = es := by
      conv => rhs; rw [← List.map_id es]
      apply List.map_congr_left
      intro p hp
      have := hes p hp
      simp only [id]
      rw [Nat.min_eq_left (by omega), Nat.max_eq_right (by omega)]
    have h4 : es.flatMap (fun e => List.replicate 1 e) = es := by
      simp
    rw [h3, h4]

end StableW5
open StableW5 in
/-- `from_graph6_string` after a successful decode is the outcome of the construction run -/
theorem fromGraph6Stable_eq (fin : Nat) (noLimit debug : Bool) (str : List Char) (n : Nat) (es : List (Nat × Nat))
    (hd : G6.decode str = some (n, es)) :
    fromGraph6Stable fin noLimit debug str = outcome (SG.run (SG.empty false fin noLimit debug) (stableOps n es)) := by
  unfold fromGraph6Stable outcome
  rw [hd]
  rfl

open StableW5 in
set_option linter.unusedVariables false in
/-- `StableGraph::from_graph6_string`: if the decoder answers `(n, es)` and the index type has room (`fin = Ix::max()`), the
call does not panic and builds the nodes `0..n` (no vacancy) and exactly the decoded edges. -/
theorem fromGraph6Stable_built (fin : Nat) (noLimit debug : Bool) (str : List Char) (n : Nat) (es : List (Nat × Nat))
    (hd : G6.decode str = some (n, es)) (hes : ∀ e ∈ es, e.1 < e.2 ∧ e.2 < n) (hnd : es.Nodup)
    (hfit : n ≤ fin ∧ es.length ≤ fin) :
    ∃ s, fromGraph6Stable fin noLimit debug str = some s ∧ C02T.Inv s ∧ s.directed = false ∧
      Built 1 (stableTable s) n es := by
  obtain ⟨s1, o1, hr1, hf1, hp1⟩ := runNodes_fresh n 0 _ (fresh_empty fin noLimit debug) (by omega)
  rw [Nat.zero_add] at hf1
  obtain ⟨s2, hr2, hf2⟩ := extend_fresh es [] s1 hf1 hes (by simpa using hfit.2)
  rw [List.nil_append] at hf2
  have hrun : SG.run (SG.empty false fin noLimit debug) (stableOps n es) = .ok (s2, o1 ++ [.unit]) := by
    unfold stableOps
    rw [run_append, hr1]
    simp only [SG.run, SG.step, hr2]
  obtain ⟨s', outs, hrun', hinv, _⟩ := C02T.C02_all_histories false fin noLimit debug (stableOps n es)
  rw [hrun] at hrun'
  cases hrun'
  refine ⟨s2, ?_, hinv, hf2.hdir, built_of_fresh hf2 hes⟩
  rw [fromGraph6Stable_eq fin noLimit debug str n es hd, hrun]
  simp [outcome, hp1, sgPanicked]

open StableW5 in
/-- … and panics exactly when the index type is too small -/
theorem fromGraph6Stable_panics (fin : Nat) (noLimit debug : Bool) (str : List Char) (n : Nat) (es : List (Nat × Nat))
    (hd : G6.decode str = some (n, es)) (hes : ∀ e ∈ es, e.1 < e.2 ∧ e.2 < n)
    (hfit : ¬ (n ≤ fin ∧ es.length ≤ fin)) : fromGraph6Stable fin noLimit debug str = none := by
  rw [fromGraph6Stable_eq fin noLimit debug str n es hd]
  by_cases hn : n ≤ fin
  · have he : fin < es.length := by omega
    obtain ⟨s1, o1, hr1, hf1, hp1⟩ := runNodes_fresh n 0 _ (fresh_empty fin noLimit debug) (by omega)
    rw [Nat.zero_add] at hf1
    obtain ⟨s2, hr2⟩ := extend_panic es [] s1 hf1 hes (by simp) (by simpa using he)
    unfold stableOps
    exact outcome_panic_mid _ s1 s2 _ [] o1 _ .panic hr1 (by simp only [SG.step, hr2]) rfl
  · obtain ⟨s1, o1, hr1, hf1, hp1⟩ := runNodes_fresh fin 0 _ (fresh_empty fin noLimit debug) (by omega)
    rw [Nat.zero_add] at hf1
    have hsplit : stableOps n es = List.replicate fin (.addNode 0) ++
        (.addNode 0 :: (List.replicate (n - fin - 1) (.addNode 0) ++ [.extendWithEdges (unitEdgesZ es)])) := by
      unfold stableOps
      rw [← List.cons_append, ← List.replicate_succ, ← List.append_assoc, List.replicate_append_replicate]
      congr 2
      omega
    rw [hsplit]
    exact outcome_panic_mid _ s1 s1 _ _ o1 _ (.idx (.error .nodeIxLimit)) hr1
      (by simp only [SG.step, addNode_full hf1 rfl]) rfl

/-- the decoder's panics are the call's panics -/
theorem fromGraph6Stable_decode_none (fin : Nat) (noLimit debug : Bool) (str : List Char) (hd : G6.decode str = none) :
    fromGraph6Stable fin noLimit debug str = none := by
  unfold fromGraph6Stable
  rw [hd]

/-! non-vacuity: the path `0-1-2` (`"Bg"`) with `u8` indices; an index type with two valid indices is too small for 3 nodes -/
example : (fromGraph6Stable 255 false true ['B', 'g']).map (fun s => (SG.nodeIndices s, (SG.edgeReferences s).map SGView.eref)) =
    some ([0, 1, 2], [⟨0, 0, 1, 0⟩, ⟨1, 1, 2, 0⟩]) ∧ fromGraph6Stable 2 false true ['B', 'g'] = none := by decide

end PetgraphModel.G6V
