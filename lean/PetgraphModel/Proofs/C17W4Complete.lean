import PetgraphModel.Proofs.C17W4Iter
import PetgraphModel.Proofs.C17W4Judge
import PetgraphModel.Proofs.C17W4Check
/-
C17 wave 4 — the observation judge raises no false alarm: the observation of every mirror-model state that satisfies
the structural invariant (`StableInv` / `GraphInv`) is accepted by `obsConsistent`, and shows the abstract graph the state
denotes.  (So a SPECFAIL of the observation judge can only be caused by an implementation answer that differs from the
mirror model's.)
-/
namespace PetgraphModel.SerdeProofs
open PetgraphModel PetgraphModel.Serde PetgraphModel.SerdeSpec PetgraphModel.SerdeCheck

/-! ### enumerations -/

section enum
variable {α γ : Type}

theorem enum_filterMap_ids (F : Nat × α → Option (Nat × γ)) (hF : ∀ i a y, F (i, a) = some y → y.1 = i) (l : List α) :
    ∀ j, (∀ y, y ∈ (enumFrom j l).filterMap F → j ≤ y.1) ∧
      (((enumFrom j l).filterMap F).map (·.1)).Pairwise (· < ·) := by
  induction l with
  | nil => intro j; simp [enumFrom]
  | cons x xs ih =>
    intro j
    obtain ⟨h1, h2⟩ := ih (j + 1)
    simp only [enumFrom, List.filterMap_cons]
    cases hx : F (j, x) with
    | none =>
      simp only
      exact ⟨fun y hy => Nat.le_of_succ_le (h1 y hy), h2⟩
    | some y0 =>
      simp only
      have hy0 := hF j x y0 hx
      refine ⟨?_, ?_⟩
      · intro y hy
        rcases List.mem_cons.1 hy with rfl | hy
        · omega
        · exact Nat.le_of_succ_le (h1 y hy)
      · simp only [List.map_cons]
        refine List.pairwise_cons.2 ⟨?_, h2⟩
        intro i hi
        obtain ⟨y, hy, rfl⟩ := List.mem_map.1 hi
        have := h1 y hy
        omega

theorem enum_filterMap_length (F : Nat × α → Option (Nat × γ)) (live : α → Bool)
    (hlive : ∀ i a, (F (i, a)).isSome = live a) (l : List α) :
    ∀ j, ((enumFrom j l).filterMap F).length = (l.filter live).length := by
  induction l with
  | nil => intro j; rfl
  | cons x xs ih =>
    intro j
    have := hlive j x
    simp only [enumFrom, List.filterMap_cons, List.filter_cons]
    cases hx : F (j, x) with
    | none => rw [hx] at this; simp only [Option.isSome_none] at this; simp [← this, ih (j + 1)]
    | some y => rw [hx] at this; simp only [Option.isSome_some] at this; simp [← this, ih (j + 1)]

theorem enum_filterMap_getLast (F : Nat × α → Option (Nat × γ)) (hF : ∀ i a y, F (i, a) = some y → y.1 = i)
    (live : α → Bool) (hlive : ∀ i a, (F (i, a)).isSome = live a) (l : List α) :
    ∀ j, (((enumFrom j l).filterMap F).map (·.1)).getLast? =
      if boundOf live l = 0 then none else some (j + boundOf live l - 1) := by
  induction l with
  | nil => intro j; simp [enumFrom, boundOf]
  | cons x xs ih =>
    intro j
    have ihj := ih (j + 1)
    have hl := hlive j x
    simp only [enumFrom, List.filterMap_cons, boundOf]
    cases ht : ((enumFrom (j + 1) xs).filterMap F).map (·.1) with
    | nil =>
      rw [ht] at ihj
      have hb : boundOf live xs = 0 := by
        by_cases hb : boundOf live xs = 0
        · exact hb
        · rw [if_neg hb] at ihj; simp at ihj
      have hnil : (enumFrom (j + 1) xs).filterMap F = [] := by simpa using ht
      simp only [hb, Nat.lt_irrefl, if_false]
      cases hx : F (j, x) with
      | none =>
        rw [hx] at hl
        simp only [Option.isSome_none] at hl
        simp [hnil, ← hl]
      | some y =>
        rw [hx] at hl
        simp only [Option.isSome_some] at hl
        have := hF j x y hx
        simp [hnil, ← hl, this]
    | cons i0 t =>
      rw [ht] at ihj
      have hb : boundOf live xs ≠ 0 := by
        intro hb
        rw [if_pos hb] at ihj
        simp at ihj
      rw [if_neg hb] at ihj
      have hpos : boundOf live xs > 0 := Nat.pos_of_ne_zero hb
      simp only [hpos, if_true]
      rw [if_neg (by omega)]
      cases hx : F (j, x) with
      | none =>
        simp only [ht]
        rw [ihj]
        congr 1
        omega
      | some y =>
        simp only [List.map_cons, ht, List.getLast?_cons_cons]
        rw [ihj]
        congr 1
        omega

end enum

def nodeF : Nat × NodeSlot → Option (Nat × Int) := fun (i, n) => n.w.map fun w => (i, w)
def edgeF : Nat × EdgeSlot → Option (Nat × Nat × Nat × Int) := fun (i, e) => e.w.map fun w => (i, e.src, e.tgt, w)

theorem liveNodes_def (g : Raw) : liveNodes g = (enumFrom 0 g.nodes).filterMap nodeF := rfl
theorem liveEdges_def (g : Raw) : liveEdges g = (enumFrom 0 g.edges).filterMap edgeF := rfl

theorem nodeF_fst (i : Nat) (a : NodeSlot) (y : Nat × Int) (h : nodeF (i, a) = some y) : y.1 = i := by
  cases hw : a.w with
  | none => simp [nodeF, hw] at h
  | some w => simp [nodeF, hw] at h; rw [← h]

theorem edgeF_fst (i : Nat) (a : EdgeSlot) (y : Nat × Nat × Nat × Int) (h : edgeF (i, a) = some y) : y.1 = i := by
  cases hw : a.w with
  | none => simp [edgeF, hw] at h
  | some w => simp [edgeF, hw] at h; rw [← h]

theorem nodeF_live (i : Nat) (a : NodeSlot) : (nodeF (i, a)).isSome = nlive a := by
  cases hw : a.w <;> simp [nodeF, nlive, hw]

theorem edgeF_live (i : Nat) (a : EdgeSlot) : (edgeF (i, a)).isSome = elive a := by
  cases hw : a.w <;> simp [edgeF, elive, hw]

theorem liveNodes_ids (g : Raw) : ((liveNodes g).map (·.1)).Pairwise (· < ·) :=
  (enum_filterMap_ids nodeF nodeF_fst g.nodes 0).2

theorem liveEdges_ids (g : Raw) : ((liveEdges g).map (·.1)).Pairwise (· < ·) :=
  (enum_filterMap_ids edgeF edgeF_fst g.edges 0).2

theorem liveNodes_length (g : Raw) : (liveNodes g).length = (g.nodes.filter nlive).length :=
  enum_filterMap_length nodeF nlive nodeF_live g.nodes 0

theorem liveEdges_length (g : Raw) : (liveEdges g).length = (g.edges.filter elive).length :=
  enum_filterMap_length edgeF elive edgeF_live g.edges 0

theorem liveNodes_getLast (g : Raw) :
    ((liveNodes g).map (·.1)).getLast? =
      if boundOf nlive g.nodes = 0 then none else some (boundOf nlive g.nodes - 1) := by
  have := enum_filterMap_getLast nodeF nodeF_fst nlive nodeF_live g.nodes 0
  simpa [liveNodes_def] using this

theorem liveEdges_getLast (g : Raw) :
    ((liveEdges g).map (·.1)).getLast? =
      if boundOf elive g.edges = 0 then none else some (boundOf elive g.edges - 1) := by
  have := enum_filterMap_getLast edgeF edgeF_fst elive edgeF_live g.edges 0
  simpa [liveEdges_def] using this

/-! ### the adjacency part -/

theorem adjOf_spec (g : Raw) : ∀ (l : List (Nat × Int)) (a : List (Nat × List (Nat × Nat × Nat) × List (Nat × Nat × Nat) × List Nat)),
    adjOf g l = .ok a →
      a.map (·.1) = l.map (·.1) ∧
      ∀ x, x ∈ a → (∃ w, (x.1, w) ∈ l) ∧ g.edgesDirected x.1 true = .ok x.2.1 ∧
        g.edgesDirected x.1 false = .ok x.2.2.1 ∧ g.neighborsUndirected x.1 = .ok x.2.2.2 := by
  intro l
  induction l with
  | nil =>
    intro a h
    simp only [adjOf, Except.ok.injEq] at h
    subst h
    simp
  | cons p t ih =>
    intro a h
    obtain ⟨i, w⟩ := p
    unfold adjOf at h
    cases h1 : g.edgesDirected i true with
    | error f => simp [h1] at h
    | ok o =>
      cases h2 : g.edgesDirected i false with
      | error f => simp [h1, h2] at h
      | ok n =>
        cases h3 : g.neighborsUndirected i with
        | error f => simp [h1, h2, h3] at h
        | ok u =>
          cases h4 : adjOf g t with
          | error f => simp [h1, h2, h3, h4] at h
          | ok r =>
            simp only [h1, h2, h3, h4, Except.ok.injEq] at h
            subst h
            obtain ⟨k1, k2⟩ := ih r h4
            refine ⟨by simp [k1], ?_⟩
            intro x hx
            rcases List.mem_cons.1 hx with rfl | hx
            · exact ⟨⟨w, List.mem_cons_self ..⟩, h1, h2, h3⟩
            · obtain ⟨⟨w', hw'⟩, r1, r2, r3⟩ := k2 x hx
              exact ⟨⟨w', List.mem_cons_of_mem _ hw'⟩, r1, r2, r3⟩

/-- the ids of the live edges that satisfy `Q` on (source, target), read off the abstract edge list -/
def idsOf (E : List (Nat × Nat × Nat × Int)) (Q : Nat → Nat → Bool) : List Nat :=
  (E.filter (fun x => Q x.2.1 x.2.2.1)).map (·.1)

theorem exact_perm_ids (g : Raw) (l : List Nat) (Q : Nat → Nat → Bool)
    (hx : ExactList g.edges (fun s => s.w.isSome = true ∧ Q s.src s.tgt = true) l) :
    l.Perm (idsOf (liveEdges g) Q) := by
  have hnd : (idsOf (liveEdges g) Q).Nodup := by
    have hp := liveEdges_ids g
    have hsub : List.Sublist (idsOf (liveEdges g) Q) ((liveEdges g).map (·.1)) :=
      List.Sublist.map _ List.filter_sublist
    exact (hp.sublist hsub).imp (fun h => Nat.ne_of_lt h)
  refine (List.perm_ext_iff_of_nodup hx.1 hnd).2 (fun e => ?_)
  rw [hx.2 e]
  constructor
  · rintro ⟨s, hs, hw, hq⟩
    obtain ⟨w, hw'⟩ := Option.isSome_iff_exists.1 hw
    refine List.mem_map.2 ⟨(e, s.src, s.tgt, w), List.mem_filter.2 ⟨?_, hq⟩, rfl⟩
    exact (mem_liveEdges g e s.src s.tgt w).2 ⟨s, hs, hw', rfl, rfl⟩
  · intro he
    obtain ⟨⟨e', a, b, w⟩, hm, rfl⟩ := List.mem_map.1 he
    obtain ⟨hm1, hm2⟩ := List.mem_filter.1 hm
    obtain ⟨s, hs, hw, rfl, rfl⟩ := (mem_liveEdges g e' a b w).1 hm1
    exact ⟨s, hs, by rw [hw]; rfl, hm2⟩

theorem map_ids_perm {β : Type} (E : List (Nat × Nat × Nat × Int)) (Q : Nat → Nat → Bool) (l : List Nat)
    (hl : l.Perm (idsOf E Q)) (φ : Nat → β) (ψ : (Nat × Nat × Nat × Int) → β) (h : ∀ x, x ∈ E → φ x.1 = ψ x) :
    (l.map φ).Perm ((E.filter (fun x => Q x.2.1 x.2.2.1)).map ψ) := by
  refine (hl.map φ).trans ?_
  unfold idsOf
  rw [List.map_map]
  exact List.Perm.of_eq (List.map_congr_left (fun x hx => h x ((List.mem_filter.1 hx).1)))

theorem srcTgt_of_live (g : Raw) (x : Nat × Nat × Nat × Int) (hx : x ∈ liveEdges g) :
    srcOf g.edges x.1 = x.2.1 ∧ tgtOf g.edges x.1 = x.2.2.1 := by
  obtain ⟨e, a, b, w⟩ := x
  obtain ⟨s, hs, _, rfl, rfl⟩ := (mem_liveEdges g e a b w).1 hx
  simp [srcOf, tgtOf, hs]

theorem exact_filter_src {edges : List EdgeSlot} {P : EdgeSlot → Prop} {l : List Nat} (i : Nat)
    (hx : ExactList edges P l) :
    ExactList edges (fun s => P s ∧ s.src ≠ i) (l.filter (fun e => !(srcOf edges e == i))) := by
  refine ⟨hx.1.filter _, fun e => ?_⟩
  rw [List.mem_filter, hx.2 e]
  constructor
  · rintro ⟨⟨s, hs, hp⟩, hne⟩
    refine ⟨s, hs, hp, ?_⟩
    simpa [srcOf, hs] using hne
  · rintro ⟨s, hs, hp, hne⟩
    exact ⟨⟨s, hs, hp⟩, by simpa [srcOf, hs] using hne⟩

theorem filterMap_split_perm {α β : Type} (p q : α → Bool) (f g : α → β) (l : List α) :
    (l.filterMap (fun x => if p x then some (f x) else if q x then some (g x) else none)).Perm
      ((l.filter p).map f ++ (l.filter (fun x => !p x && q x)).map g) := by
  induction l with
  | nil => exact List.Perm.nil
  | cons x xs ih =>
    simp only [List.filterMap_cons, List.filter_cons]
    by_cases hp : p x = true
    · simp only [hp, if_true, Bool.not_true, Bool.false_and, Bool.false_eq_true, if_false, List.map_cons,
        List.cons_append]
      exact ih.cons _
    · have hp' : p x = false := by simpa using hp
      by_cases hq : q x = true
      · simp only [hp', Bool.false_eq_true, if_false, hq, if_true, Bool.not_false, Bool.and_self, List.map_cons]
        exact (ih.cons _).trans List.perm_middle.symm
      · have hq' : q x = false := by simpa using hq
        simp only [hp', Bool.false_eq_true, if_false, hq', Bool.not_false, Bool.and_false]
        exact ih

theorem filterMap_ite {α β : Type} (p : α → Bool) (f : α → β) (l : List α) :
    l.filterMap (fun x => if p x then some (f x) else none) = (l.filter p).map f := by
  induction l with
  | nil => rfl
  | cons x xs ih =>
    simp only [List.filterMap_cons, List.filter_cons]
    by_cases hp : p x = true
    · simp [hp, ih]
    · have : p x = false := by simpa using hp
      simp [this, ih]

abbrev E4 := Nat × Nat × Nat × Int
def tA (x : E4) : Nat × Nat × Nat := (x.1, x.2.1, x.2.2.1)
def tB (x : E4) : Nat × Nat × Nat := (x.1, x.2.2.1, x.2.1)
def pS (a : Nat) (x : E4) : Bool := x.2.1 == a
def pT (a : Nat) (x : E4) : Bool := x.2.2.1 == a
def pTS (a : Nat) (x : E4) : Bool := x.2.2.1 == a && !(x.2.1 == a)

theorem expectedOut_dir (E : List E4) (a : Nat) : expectedOut true E a = (E.filter (pS a)).map tA := by
  rw [← filterMap_ite]
  unfold expectedOut
  congr 1
  funext x
  obtain ⟨e, s, t, w⟩ := x
  by_cases h : s = a <;> simp [pS, tA, h]

theorem expectedIn_dir (E : List E4) (a : Nat) : expectedIn true E a = (E.filter (pT a)).map tA := by
  rw [← filterMap_ite]
  unfold expectedIn
  congr 1
  funext x
  obtain ⟨e, s, t, w⟩ := x
  by_cases h : t = a <;> simp [pT, tA, h]

theorem filter_pTS (E : List E4) (a : Nat) :
    E.filter (fun x => !pS a x && pT a x) = E.filter (pTS a) := by
  apply List.filter_congr
  intro x _
  simp only [pS, pT, pTS, Bool.and_comm]

theorem expectedOut_und (E : List E4) (a : Nat) :
    (expectedOut false E a).Perm ((E.filter (pS a)).map tA ++ (E.filter (pTS a)).map tB) := by
  have h1 : expectedOut false E a =
      E.filterMap (fun x => if pS a x then some ((x.1, a, x.2.2.1) : Nat × Nat × Nat)
        else if pT a x then some (x.1, a, x.2.1) else none) := by
    unfold expectedOut
    congr 1
    funext x
    obtain ⟨e, s, t, w⟩ := x
    by_cases h : s = a <;> by_cases h' : t = a <;> simp [pS, pT, h, h']
  rw [h1]
  refine (filterMap_split_perm _ _ _ _ E).trans ?_
  rw [filter_pTS]
  apply List.Perm.of_eq
  congr 1
  · apply List.map_congr_left
    intro x hx
    have := (List.mem_filter.1 hx).2
    simp only [pS, beq_iff_eq] at this
    simp [tA, this]
  · apply List.map_congr_left
    intro x hx
    have := (List.mem_filter.1 hx).2
    simp only [pTS, Bool.and_eq_true, beq_iff_eq] at this
    simp [tB, this.1]

theorem expectedIn_und (E : List E4) (a : Nat) :
    (expectedIn false E a).Perm ((E.filter (pS a)).map tB ++ (E.filter (pTS a)).map tA) := by
  have h1 : expectedIn false E a =
      E.filterMap (fun x => if pS a x then some ((x.1, x.2.2.1, a) : Nat × Nat × Nat)
        else if pT a x then some (x.1, x.2.1, a) else none) := by
    unfold expectedIn
    congr 1
    funext x
    obtain ⟨e, s, t, w⟩ := x
    by_cases h : s = a <;> by_cases h' : t = a <;> simp [pS, pT, h, h']
  rw [h1]
  refine (filterMap_split_perm _ _ _ _ E).trans ?_
  rw [filter_pTS]
  apply List.Perm.of_eq
  congr 1
  · apply List.map_congr_left
    intro x hx
    have := (List.mem_filter.1 hx).2
    simp only [pS, beq_iff_eq] at this
    simp [tB, this]
  · apply List.map_congr_left
    intro x hx
    have := (List.mem_filter.1 hx).2
    simp only [pTS, Bool.and_eq_true, beq_iff_eq] at this
    simp [tA, this.1]

theorem expectedNbrs_eq (E : List E4) (a : Nat) :
    expectedNbrs E a = (E.filter (pS a)).map (fun x => x.2.2.1) ++ (E.filter (pTS a)).map (fun x => x.2.1) := by
  rw [← filterMap_ite, ← filterMap_ite]
  unfold expectedNbrs
  congr 1
  · congr 1
    funext x
    obtain ⟨e, s, t, w⟩ := x
    by_cases h : s = a <;> simp [pS, h]
  · congr 1
    funext x
    obtain ⟨e, s, t, w⟩ := x
    by_cases h : s = a <;> by_cases h' : t = a <;> simp [pTS, h, h']

/-- on a consistent structure the iterators of a live node return, up to order, exactly what the judge expects -/
theorem node_iterators_expected (g : Raw) (hI : RawInv g) (i : Nat) (nd : NodeSlot)
    (hi : g.nodes[i]? = some nd) (hl : nd.w.isSome = true) :
    ∃ o n u, g.edgesDirected i true = .ok o ∧ g.edgesDirected i false = .ok n ∧ g.neighborsUndirected i = .ok u ∧
      o.Perm (expectedOut g.directed (liveEdges g) i) ∧ n.Perm (expectedIn g.directed (liveEdges g) i) ∧
      u.Perm (expectedNbrs (liveEdges g) i) := by
  obtain ⟨l0, c0, x0⟩ := hI.out i nd hi hl
  obtain ⟨l1, c1, x1⟩ := hI.inn i nd hi hl
  have a0 := exactList_allLive x0
  have a1 := exactList_allLive x1
  have n0 := exactList_length x0
  have n1 := exactList_length x1
  have hlen := hI.lenE
  have x1' := exact_filter_src i x1
  -- the three index lists against the abstract edge list
  have p0 : l0.Perm ((liveEdges g).filter (pS i) |>.map (·.1)) :=
    exact_perm_ids g l0 (fun s _ => s == i) (ExactList.congr x0 (fun s => by simp))
  have p1 : l1.Perm ((liveEdges g).filter (pT i) |>.map (·.1)) :=
    exact_perm_ids g l1 (fun _ t => t == i) (ExactList.congr x1 (fun s => by simp))
  have p1' : (l1.filter (fun e => !(srcOf g.edges e == i))).Perm ((liveEdges g).filter (pTS i) |>.map (·.1)) :=
    exact_perm_ids g _ (fun s t => t == i && !(s == i)) (ExactList.congr x1' (fun s => by
      simp only [Bool.and_eq_true, beq_iff_eq, Bool.not_eq_true', beq_eq_false_iff_ne, ne_eq]
      constructor
      · rintro ⟨⟨h1, h2⟩, h3⟩; exact ⟨h1, h2, h3⟩
      · rintro ⟨h1, h2, h3⟩; exact ⟨⟨h1, h2⟩, h3⟩))
  have st := srcTgt_of_live g
  have mA : ∀ (Q : E4 → Bool) (l : List Nat), l.Perm ((liveEdges g).filter Q |>.map (·.1)) →
      (l.map (tripleOf g.edges false)).Perm (((liveEdges g).filter Q).map tA) := by
    intro Q l hp
    refine (hp.map _).trans ?_
    rw [List.map_map]
    apply List.Perm.of_eq
    apply List.map_congr_left
    intro x hx
    obtain ⟨h1, h2⟩ := st x (List.mem_filter.1 hx).1
    simp [tripleOf, tA, h1, h2]
  have mB : ∀ (Q : E4 → Bool) (l : List Nat), l.Perm ((liveEdges g).filter Q |>.map (·.1)) →
      (l.map (tripleOf g.edges true)).Perm (((liveEdges g).filter Q).map tB) := by
    intro Q l hp
    refine (hp.map _).trans ?_
    rw [List.map_map]
    apply List.Perm.of_eq
    apply List.map_congr_left
    intro x hx
    obtain ⟨h1, h2⟩ := st x (List.mem_filter.1 hx).1
    simp [tripleOf, tB, h1, h2]
  have o_out := fun swap => edgesOut_chain g.edges g.END swap hlen c0 a0 (g.edges.length + 1) (by omega)
  have o_in := fun swap skip => edgesIn_chain g.edges g.END swap skip hlen c1 a1 (g.edges.length + 1) (by omega)
  have b_out := nbrsOut_chain g.edges g.END hlen c0 a0 (g.edges.length + 1) (by omega)
  have b_in := nbrsIn_chain g.edges g.END i hlen c1 a1 (g.edges.length + 1) (by omega)
  have fnone : l1.filter (fun e => !((none : Option Nat) == some (srcOf g.edges e))) = l1 := by
    rw [List.filter_eq_self]
    intro e _
    rfl
  have fsome : l1.filter (fun e => !(some i == some (srcOf g.edges e))) = l1.filter (fun e => !(srcOf g.edges e == i)) := by
    apply List.filter_congr
    intro e _
    have : (some i == some (srcOf g.edges e)) = (srcOf g.edges e == i) := by
      rw [Bool.eq_iff_iff]
      simp only [beq_iff_eq, Option.some.injEq]
      exact eq_comm
    rw [this]
  have hu : (l0.map (tgtOf g.edges) ++ (l1.filter (fun e => !(srcOf g.edges e == i))).map (srcOf g.edges)).Perm
      (expectedNbrs (liveEdges g) i) := by
    rw [expectedNbrs_eq]
    refine List.Perm.append ?_ ?_
    · refine (p0.map _).trans ?_
      rw [List.map_map]
      apply List.Perm.of_eq
      apply List.map_congr_left
      intro x hx
      exact (st x (List.mem_filter.1 hx).1).2
    · refine (p1'.map _).trans ?_
      rw [List.map_map]
      apply List.Perm.of_eq
      apply List.map_congr_left
      intro x hx
      exact (st x (List.mem_filter.1 hx).1).1
  have hnb : g.neighborsUndirected i = .ok (l0.map (tgtOf g.edges) ++
      (l1.filter (fun e => !(srcOf g.edges e == i))).map (srcOf g.edges)) := by
    unfold Raw.neighborsUndirected
    simp only [hi, hl, if_true, b_out, b_in]
  cases hdir : g.directed with
  | true =>
    refine ⟨l0.map (tripleOf g.edges false),
      (l1.filter (fun e => !((none : Option Nat) == some (srcOf g.edges e)))).map (tripleOf g.edges false), _,
      ?_, ?_, hnb, ?_, ?_, hu⟩
    · unfold Raw.edgesDirected; simp only [hi, hl, if_true, hdir]; exact o_out false
    · unfold Raw.edgesDirected; simp only [hi, hl, if_true, hdir, Bool.false_eq_true, if_false]; exact o_in false none
    · rw [expectedOut_dir]; exact mA _ _ p0
    · rw [expectedIn_dir, fnone]; exact mA _ _ p1
  | false =>
    refine ⟨l0.map (tripleOf g.edges (!true)) ++
        (l1.filter (fun e => !(some i == some (srcOf g.edges e)))).map (tripleOf g.edges true),
      l0.map (tripleOf g.edges (!false)) ++
        (l1.filter (fun e => !(some i == some (srcOf g.edges e)))).map (tripleOf g.edges false), _,
      ?_, ?_, hnb, ?_, ?_, hu⟩
    · unfold Raw.edgesDirected; simp only [hi, hl, if_true, hdir, Bool.false_eq_true, if_false, o_out, o_in]
    · unfold Raw.edgesDirected; simp only [hi, hl, if_true, hdir, Bool.false_eq_true, if_false, o_out, o_in]
    · refine List.Perm.trans ?_ (expectedOut_und _ _).symm
      simp only [Bool.not_true, fsome]
      exact (mA _ _ p0).append (mB _ _ p1')
    · refine List.Perm.trans ?_ (expectedIn_und _ _).symm
      simp only [Bool.not_false, fsome]
      exact (mB _ _ p0).append (mA _ _ p1')

theorem enum_ids_all_live {α γ : Type} (F : Nat × α → Option (Nat × γ)) (hF : ∀ i a y, F (i, a) = some y → y.1 = i)
    (l : List α) (hall : ∀ i a, a ∈ l → (F (i, a)).isSome = true) :
    ∀ j, ((enumFrom j l).filterMap F).map (·.1) = List.range' j l.length := by
  induction l with
  | nil => intro j; rfl
  | cons x xs ih =>
    intro j
    obtain ⟨y, hy⟩ := Option.isSome_iff_exists.1 (hall j x (List.mem_cons_self ..))
    have := hF j x y hy
    simp only [enumFrom, List.filterMap_cons, hy, List.map_cons, this, List.length_cons, List.range'_succ,
      ih (fun i a ha => hall i a (List.mem_cons_of_mem _ ha)) (j + 1)]

/-- the observation of a consistent structure passes every check of `obsConsistent` -/
theorem obsConsistent_of_inv (kind : Kind) (g : Raw) (hI : RawInv g)
    (a : List (Nat × List (Nat × Nat × Nat) × List (Nat × Nat × Nat) × List Nat))
    (ha : adjOf g (liveNodes g) = .ok a) (nc ec : Nat)
    (hnc : nc = (liveNodes g).length) (hec : ec = (liveEdges g).length)
    (hk : kind = .graph → (∀ n, n ∈ g.nodes → nlive n = true) ∧ (∀ e, e ∈ g.edges → elive e = true)) :
    obsConsistent kind g.END g.directed
      { nc := nc, ec := ec, nb := boundOf nlive g.nodes, eb := boundOf elive g.edges,
        nodes := liveNodes g, edges := liveEdges g, adj := a } = none := by
  unfold obsConsistent
  rw [firstFalse_none]
  obtain ⟨ka, kb⟩ := adjOf_spec g _ a ha
  simp only [obsConds, List.all_cons, List.all_nil, id, Bool.and_true, Bool.and_eq_true, beq_iff_eq,
    decide_eq_true_eq]
  refine ⟨hnc, hec, (strictlyIncreasing_pairwise _).2 (liveNodes_ids g), (strictlyIncreasing_pairwise _).2 (liveEdges_ids g),
    ?_, ?_, ?_, ?_, ?_, ?_, ?_, ?_⟩
  · -- compact indices of a `Graph`
    cases kind with
    | graph =>
      obtain ⟨h1, h2⟩ := hk rfl
      have e1 : (liveNodes g).map (·.1) = List.range g.nodes.length := by
        rw [liveNodes_def, enum_ids_all_live nodeF nodeF_fst g.nodes (fun i a ha => by rw [nodeF_live]; exact h1 a ha) 0,
          List.range_eq_range']
      have e2 : (liveEdges g).map (·.1) = List.range g.edges.length := by
        rw [liveEdges_def, enum_ids_all_live edgeF edgeF_fst g.edges (fun i a ha => by rw [edgeF_live]; exact h2 a ha) 0,
          List.range_eq_range']
      have l1 : nc = g.nodes.length := by
        rw [hnc]; have := congrArg List.length e1; simpa using this
      have l2 : ec = g.edges.length := by
        rw [hec]; have := congrArg List.length e2; simpa using this
      simp [e1, e2, l1, l2]
    | stable => rfl
    | map => rfl
  · rw [liveNodes_getLast]
    by_cases h : boundOf nlive g.nodes = 0
    · rw [if_pos h]; exact h
    · rw [if_neg h]; show boundOf nlive g.nodes = boundOf nlive g.nodes - 1 + 1; omega
  · rw [liveEdges_getLast]
    by_cases h : boundOf elive g.edges = 0
    · rw [if_pos h]; exact h
    · rw [if_neg h]; show boundOf elive g.edges = boundOf elive g.edges - 1 + 1; omega
  · exact Nat.le_trans (boundOf_le nlive g.nodes) hI.lenN
  · exact Nat.le_trans (boundOf_le elive g.edges) hI.lenE
  · rw [List.all_eq_true]
    rintro ⟨e, s, t, w⟩ hm
    obtain ⟨x, hx, hw, rfl, rfl⟩ := (mem_liveEdges g e s t w).1 hm
    obtain ⟨⟨an, ha1, ha2⟩, ⟨bn, hb1, hb2⟩⟩ := hI.endpoints e x hx (by rw [hw]; rfl)
    obtain ⟨wa, hwa⟩ := Option.isSome_iff_exists.1 ha2
    obtain ⟨wb, hwb⟩ := Option.isSome_iff_exists.1 hb2
    have m1 : x.src ∈ (liveNodes g).map (·.1) :=
      List.mem_map.2 ⟨(x.src, wa), (mem_liveNodes g _ _).2 ⟨an, ha1, hwa⟩, rfl⟩
    have m2 : x.tgt ∈ (liveNodes g).map (·.1) :=
      List.mem_map.2 ⟨(x.tgt, wb), (mem_liveNodes g _ _).2 ⟨bn, hb1, hwb⟩, rfl⟩
    simp only [List.contains_eq_mem, Bool.and_eq_true, decide_eq_true_eq]
    exact ⟨m1, m2⟩
  · rw [ka]
    exact perm_sameMultiset _ _ (List.Perm.refl _)
  · rw [List.all_eq_true]
    rintro ⟨i, o, n, u⟩ hm
    obtain ⟨⟨w, hw⟩, r1, r2, r3⟩ := kb _ hm
    obtain ⟨nd, hnd, hndw⟩ := (mem_liveNodes g i w).1 hw
    obtain ⟨o', n', u', q1, q2, q3, p1, p2, p3⟩ := node_iterators_expected g hI i nd hnd (by rw [hndw]; rfl)
    simp only at r1 r2 r3
    rw [q1] at r1; rw [q2] at r2; rw [q3] at r3
    cases r1; cases r2; cases r3
    simp only [Bool.and_eq_true]
    exact ⟨⟨perm_sameMultiset _ _ p1, perm_sameMultiset _ _ p2⟩, perm_sameMultiset _ _ p3⟩

/-- the abstract graph a storage state denotes (for the judge) -/
def absOfRaw (kind : Kind) (g : Raw) : AGraph :=
  { kind := kind, END := g.END, directed := g.directed, nodes := liveNodes g, edges := liveEdges g }

/-- **no false alarm, `StableGraph`**: the observation of every mirror-model state that satisfies `StableInv` is
accepted by the observation judge, against the abstract graph the state denotes. -/
theorem judgeObs_of_stableInv (s : Stable) (hI : StableInv s) (o : Obs) (h : s.obs = .ok o) :
    ∃ a', judgeObs (absOfRaw .stable s.g) o = .ok a' := by
  unfold Stable.obs at h
  cases ha : adjOf s.g (liveNodes s.g) with
  | error f => simp [ha] at h
  | ok a =>
    simp only [ha, Except.ok.injEq] at h
    subst h
    have hc := obsConsistent_of_inv .stable s.g hI.toRawInv a ha s.nodeCount s.edgeCount
      (by rw [hI.nodeCount, liveNodes_length]; rfl) (by rw [hI.edgeCount, liveEdges_length]; rfl)
      (fun hk => by cases hk)
    unfold judgeObs
    simp only [absOfRaw]
    rw [show s.nodeBound = boundOf nlive s.g.nodes from rfl, show s.edgeBound = boundOf elive s.g.edges from rfl, hc]
    simp only [obsMatches, perm_sameMultiset _ _ (List.Perm.refl _), Bool.not_true, Bool.false_eq_true, if_false]
    exact ⟨_, rfl⟩

/-- **no false alarm, `Graph`**. -/
theorem judgeObs_of_graphInv (g : Raw) (hI : GraphInv g) (o : Obs) (h : g.obs = .ok o) :
    ∃ a', judgeObs (absOfRaw .graph g) o = .ok a' := by
  unfold Raw.obs at h
  cases ha : adjOf g (liveNodes g) with
  | error f => simp [ha] at h
  | ok a =>
    simp only [ha, Except.ok.injEq] at h
    subst h
    have hnl : ∀ n, n ∈ g.nodes → nlive n = true := by
      intro n hn; obtain ⟨i, hi⟩ := List.getElem?_of_mem hn; exact hI.allNodes i n hi
    have hel : ∀ e, e ∈ g.edges → elive e = true := by
      intro e he; obtain ⟨i, hi⟩ := List.getElem?_of_mem he; exact hI.allEdges i e hi
    have hc := obsConsistent_of_inv .graph g hI.toRawInv a ha g.nodes.length g.edges.length
      (by rw [liveNodes_length, List.filter_eq_self.2 hnl]) (by rw [liveEdges_length, List.filter_eq_self.2 hel])
      (fun _ => ⟨hnl, hel⟩)
    rw [boundOf_all_live nlive g.nodes hnl, boundOf_all_live elive g.edges hel] at hc
    unfold judgeObs
    simp only [absOfRaw]
    rw [hc]
    simp only [obsMatches, perm_sameMultiset _ _ (List.Perm.refl _), Bool.not_true, Bool.false_eq_true, if_false]
    exact ⟨_, rfl⟩

end PetgraphModel.SerdeProofs
