import PetgraphModel.Proofs.C15W2JoinBridge
/-
C15 wave 2 — `find_join` preserves the invariant of the search.
-/
namespace PetgraphModel.C15W2
open PetgraphModel PetgraphModel.C15 PetgraphModel.C15M PetgraphModel.C15P

/-- the part of a path before the pair whose inner vertex is `x`, and the outer vertex of that pair -/
def cutAt (x : Nat) : PL → PL × Nat
  | [] => ([], 0)
  | (p, u) :: r => if u = x then ([], p) else ((p, u) :: (cutAt x r).1, (cutAt x r).2)

theorem cutAt_spec (x : Nat) : ∀ (pre : PL) (z0 : Nat) (post : PL), (∀ p u, (p, u) ∈ pre → u ≠ x) →
    cutAt x (pre ++ (z0, x) :: post) = (pre, z0)
  | [], z0, post, _ => by simp [cutAt]
  | (p, u) :: r, z0, post, h => by
    have hu : u ≠ x := h p u (List.mem_cons_self ..)
    have ih := cutAt_spec x r z0 post (fun p' u' hm => h p' u' (List.mem_cons_of_mem _ hm))
    simp [cutAt, hu, ih]

/-- the new path of a vertex labelled by a blossom step -/
def newPath (x : Nat) (pre0 tail : PL) : PL :=
  (x, (cutAt x pre0).2) :: revswap (cutAt x pre0).1 ++ tail

theorem findJoin_same (v : View) (k : Key) (a b : Nat) (s : GS) (ha : v.toIndex a < s.fi.length)
    (hb : v.toIndex b < s.fi.length) (h : fiI s.fi (v.toIndex a) = fiI s.fi (v.toIndex b)) :
    findJoin v k a b s = (s, []) := by
  rw [findJoin_eq]
  unfold findJoin'
  rw [getFi_eq s _ ha, getFi_eq s _ hb]
  simp [h, flt_false]

/-- outer-ness of a node in a concrete state -/
def outerAt (c : Ctx) (s : GS) (x : Nat) : Bool := (labI s.label (c.v.toIndex x)).isOuter

/-- the new ghost paths after a blossom step -/
def blossomP (A : AS) (a b : Nat) (preA preB : PL) (x : Nat) : PL :=
  if x ∈ innerNodes A preA then newPath x preA (A.P b)
  else if x ∈ innerNodes A preB then newPath x preB (A.P a)
  else A.P x

section
variable {c : Ctx} {s : GS} {P : Nat → PL} {ord : List Nat}

theorem findJoin_SInv_ne (hv : VHyp c.v c.mode) (n0 : Nat) (hm : MateInv c.v c.m0 n0) (I : SInv c s P ord)
    (a b eid : Nat) (hab : (b, eid) ∈ c.v.outOf a) (hne : a ≠ b)
    (hoa : outerAt c s a = true) (hob : outerAt c s b = true)
    (hF : fiI s.fi (c.v.toIndex a) ≠ fiI s.fi (c.v.toIndex b)) :
    ∃ P' ord', SInv c (findJoin c.v (edgeKey c.mode eid a b) a b s).1 P' ord' ∧
      (∀ x ∈ c.v.g.nodes, outerAt c s x = true →
        outerAt c (findJoin c.v (edgeKey c.mode eid a b) a b s).1 x = true) ∧
      (∀ q ∈ (findJoin c.v (edgeKey c.mode eid a b) a b s).2, q ∈ c.v.g.nodes ∧
        outerAt c (findJoin c.v (edgeKey c.mode eid a b) a b s).1 q = true) := by
  obtain ⟨han, hbn, hJ⟩ := hv.out a b eid hab
  have hJab : c.J a b := hJ hne
  have hoa' : (absOf c s.label s.fi P ord).out a = true := hoa
  have hob' : (absOf c s.label s.fi P ord).out b = true := hob
  have hA := I.abs
  have hpa := hA.path a han hoa'
  have hpb := hA.path b hbn hob'
  obtain ⟨hUaOK, ra, hUa0⟩ := innerSeq_chainOK hv n0 hm I a han hoa'
  obtain ⟨hUbOK, rb, hUb0⟩ := innerSeq_chainOK hv n0 hm I b hbn hob'
  have hnoflag : ∀ j, labI s.label j ≠ Label.flag (edgeKey c.mode eid a b) := by
    intro j hj
    obtain ⟨a', b', eid', h1, h2, _, _, h5⟩ := I.flags j _ hj
    rcases hv.key a b eid a' b' eid' hab h1 h2 with ⟨e1, e2⟩ | ⟨e1, e2⟩
    · exact hF (by rw [e1, e2]; exact h5)
    · exact hF (by rw [e1, e2]; exact h5.symm)
  have post := findJoin_arrays c (edgeKey c.mode eid a b) a b s (hm.dummy hv) hm.len I.mate I.fault I.labLen I.fiLen
    _ _ ra rb hUaOK hUbOK hUa0 hUb0 (by have := hv.ix.lt a han; omega) (by have := hv.ix.lt b hbn; omega)
    hoa hob hF hnoflag I.fiBound
  generalize findJoin c.v (edgeKey c.mode eid a b) a b s = r at post ⊢
  obtain ⟨join, LA, LB, R, labA, hUaS, hUbS, hdis, hlabAo, hlabAf, hlabAj, rmate, rfault, rlabLen, rfiLen,
    rlab, rfi, rcalls⟩ := post.ex
  -- decompose the two paths at the join
  obtain ⟨preA, sufA, hPa, hLA, hjA⟩ := split_path c (absOf c s.label s.fi P ord)
    (fun u hu => hv.idx_ne_nb hu) (P a) LA R join hpa.mem hUaS
  obtain ⟨preB, sufB, hPb, hLB, hjB⟩ := split_path c (absOf c s.label s.fi P ord)
    (fun u hu => hv.idx_ne_nb hu) (P b) LB R join hpb.mem hUbS
  have hNAn : ∀ u ∈ innerNodes (absOf c s.label s.fi P ord) preA, u ∈ c.v.g.nodes := by
    intro u hu
    obtain ⟨⟨p, hp⟩, _⟩ := (mem_innerNodes _ preA u).mp hu
    exact hpa.mem u (by
      show u ∈ verts (P a)
      rw [hPa, verts_append]; exact List.mem_append_left _ (mem_verts_of_mem hp).2)
  have hNBn : ∀ u ∈ innerNodes (absOf c s.label s.fi P ord) preB, u ∈ c.v.g.nodes := by
    intro u hu
    obtain ⟨⟨p, hp⟩, _⟩ := (mem_innerNodes _ preB u).mp hu
    exact hpb.mem u (by
      show u ∈ verts (P b)
      rw [hPb, verts_append]; exact List.mem_append_left _ (mem_verts_of_mem hp).2)
  have hLAiff : ∀ x ∈ c.v.g.nodes, (c.v.toIndex x ∈ LA ↔ x ∈ innerNodes (absOf c s.label s.fi P ord) preA) := by
    intro x hx
    rw [← hLA, List.mem_map]
    constructor
    · rintro ⟨u, hu, e⟩
      rw [← hv.ix.inj u (hNAn u hu) x hx e]; exact hu
    · intro h; exact ⟨x, h, rfl⟩
  have hLBiff : ∀ x ∈ c.v.g.nodes, (c.v.toIndex x ∈ LB ↔ x ∈ innerNodes (absOf c s.label s.fi P ord) preB) := by
    intro x hx
    rw [← hLB, List.mem_map]
    constructor
    · rintro ⟨u, hu, e⟩
      rw [← hv.ix.inj u (hNBn u hu) x hx e]; exact hu
    · intro h; exact ⟨x, h, rfl⟩
  have hLAnode : ∀ j ∈ LA, ∃ u ∈ innerNodes (absOf c s.label s.fi P ord) preA, c.v.toIndex u = j := by
    intro j hj; rw [← hLA] at hj; exact List.mem_map.mp hj
  have hLBnode : ∀ j ∈ LB, ∃ u ∈ innerNodes (absOf c s.label s.fi P ord) preB, c.v.toIndex u = j := by
    intro j hj; rw [← hLB] at hj; exact List.mem_map.mp hj
  -- the data of the blossom step
  have D : BD c (absOf c s.label s.fi P ord) a b preA sufA preB sufB join := by
    refine ⟨han, hbn, hoa', hob', hJab, hPa, hPb, ?_, ?_⟩
    · rcases hjA with ⟨e1, e2⟩ | ⟨pj, uj, r1, e1, e2, e3⟩
      · rcases hjB with ⟨f1, _⟩ | ⟨pj', uj', r1', f1, _, f3⟩
        · exact Or.inl ⟨e1, f1, e2⟩
        · exfalso
          have hujn : uj' ∈ c.v.g.nodes := hpb.mem uj' (by
            show uj' ∈ verts (P b); rw [hPb, f1, verts_append]; exact List.mem_append_right _ (by simp))
          exact hv.idx_ne_nb hujn (f3.symm.trans e2)
      · rcases hjB with ⟨_, f2⟩ | ⟨pj', uj', r1', f1, _, f3⟩
        · exfalso
          have hujn : uj ∈ c.v.g.nodes := hpa.mem uj (by
            show uj ∈ verts (P a); rw [hPa, e1, verts_append]; exact List.mem_append_right _ (by simp))
          exact hv.idx_ne_nb hujn (e3.symm.trans f2)
        · have hujn : uj ∈ c.v.g.nodes := hpa.mem uj (by
            show uj ∈ verts (P a); rw [hPa, e1, verts_append]; exact List.mem_append_right _ (by simp))
          have hujn' : uj' ∈ c.v.g.nodes := hpb.mem uj' (by
            show uj' ∈ verts (P b); rw [hPb, f1, verts_append]; exact List.mem_append_right _ (by simp))
          have hu : uj = uj' := hv.ix.inj uj hujn uj' hujn' (e3.symm.trans f3)
          subst hu
          obtain ⟨hp, hr⟩ := suffix_det hA han hoa' hbn hob' (by rw [show (absOf c s.label s.fi P ord).P a = P a from rfl, hPa, e1])
            (by rw [show (absOf c s.label s.fi P ord).P b = P b from rfl, hPb, f1]) e2
          exact Or.inr ⟨pj, uj, r1, e1, by rw [f1, hp, hr], e2, e3⟩
    · intro u hu hu'
      exact hdis _ ((hLAiff u (hNAn u hu)).mpr hu) ((hLBiff u (hNAn u hu)).mpr hu')
  -- the new state
  have S : BS c (absOf c s.label s.fi P ord)
      (absOf c r.1.label r.1.fi (blossomP (absOf c s.label s.fi P ord) a b preA preB)
        (ord ++ (innerNodes (absOf c s.label s.fi P ord) preA ++ innerNodes (absOf c s.label s.fi P ord) preB)))
      (fun x => x ∈ innerNodes (absOf c s.label s.fi P ord) preA ∨ x ∈ innerNodes (absOf c s.label s.fi P ord) preB)
      preA preB join := by
    have hnew_idx : ∀ x ∈ c.v.g.nodes, ((c.v.toIndex x ∈ LA ∨ c.v.toIndex x ∈ LB) ↔
        (x ∈ innerNodes (absOf c s.label s.fi P ord) preA ∨ x ∈ innerNodes (absOf c s.label s.fi P ord) preB)) := by
      intro x hx; rw [hLAiff x hx, hLBiff x hx]
    have hnew_in : ∀ x, (x ∈ innerNodes (absOf c s.label s.fi P ord) preA ∨ x ∈ innerNodes (absOf c s.label s.fi P ord) preB) →
        x ∈ c.v.g.nodes ∧ (absOf c s.label s.fi P ord).out x = false := by
      rintro x (h | h)
      · exact ⟨hNAn x h, ((mem_innerNodes _ preA x).mp h).2⟩
      · exact ⟨hNBn x h, ((mem_innerNodes _ preB x).mp h).2⟩
    have hlabA_outer : ∀ j, (labA j).isOuter = (labI s.label j).isOuter := by
      intro j
      rcases hlabAf j with e | ⟨e1, e2⟩
      · rw [e]
      · rw [e1, e2]; rfl
    have hold_idx : ∀ x ∈ c.v.g.nodes, (absOf c s.label s.fi P ord).out x = true →
        ¬ (c.v.toIndex x ∈ LA ∨ c.v.toIndex x ∈ LB) := by
      intro x hx hox h
      have := (hnew_in x ((hnew_idx x hx).mp h)).2
      rw [hox] at this; cases this
    refine ⟨fun _ => Iff.rfl, ?_, ?_, ?_, ?_, ?_, ?_, ⟨_, rfl⟩⟩
    · intro x hx
      show (labI r.1.label (c.v.toIndex x)).isOuter = true ↔ _
      rw [rlab]
      by_cases h : (c.v.toIndex x ∈ LA ∨ c.v.toIndex x ∈ LB)
      · rw [if_pos h]
        exact ⟨fun _ => Or.inr ((hnew_idx x hx).mp h), fun _ => rfl⟩
      · rw [if_neg h, hlabA_outer]
        exact ⟨fun h' => Or.inl h', fun h' => by
          rcases h' with h' | h'
          · exact h'
          · exact absurd ((hnew_idx x hx).mpr h') h⟩
    · intro x hx hox
      show labI r.1.label (c.v.toIndex x) = labI s.label (c.v.toIndex x)
      rw [rlab, if_neg (hold_idx x hx hox)]
      exact hlabAo _ hox
    · intro x hNx
      have hx := (hnew_in x hNx).1
      show fiI r.1.fi (c.v.toIndex x) = join
      rw [rfi]
      have h := (hnew_idx x hx).mpr hNx
      simp only [if_pos h]
      split <;> rfl
    · intro x hx hox u hNu hFu
      have hun := (hnew_in u hNu).1
      show fiI r.1.fi (c.v.toIndex x) = join
      rw [rfi]
      have hF' : fiI s.fi (c.v.toIndex x) = c.v.toIndex u := hFu
      simp only [if_neg (hold_idx x hx hox), hF']
      rw [if_pos]
      refine ⟨hv.idx_ne_nb hx, ?_, ?_⟩
      · rw [rlab, if_neg (hold_idx x hx hox), hlabA_outer]; exact hox
      · rw [rlab, if_pos ((hnew_idx u hun).mpr hNu)]; rfl
    · intro x hx hox hno
      show fiI r.1.fi (c.v.toIndex x) = fiI s.fi (c.v.toIndex x)
      rw [rfi]
      simp only [if_neg (hold_idx x hx hox)]
      rw [if_neg]
      rintro ⟨_, _, h3⟩
      -- the first inner vertex of `x` is not outer in the new state
      have hpx := hA.path x hx hox
      have hFx : fiI s.fi (c.v.toIndex x) = (absOf c s.label s.fi P ord).fin c (P x) := hpx.fiHead
      rw [rlab] at h3
      by_cases h : (fiI s.fi (c.v.toIndex x) ∈ LA ∨ fiI s.fi (c.v.toIndex x) ∈ LB)
      · rcases h with h | h
        · obtain ⟨u, hu, e⟩ := hLAnode _ h
          exact hno u (Or.inl hu) e.symm
        · obtain ⟨u, hu, e⟩ := hLBnode _ h
          exact hno u (Or.inr hu) e.symm
      · rw [if_neg h, hlabA_outer] at h3
        rcases fin_mem c (absOf c s.label s.fi P ord) (P x) with e | ⟨l1, p, u, rest, _, e2, e3, _⟩
        · rw [hFx, e, I.dummyLab] at h3; cases h3
        · rw [hFx, e3] at h3
          have : (absOf c s.label s.fi P ord).out u = true := h3
          rw [e2] at this; cases this
    · intro x hNx
      show blossomP _ a b preA preB x = P x
      unfold blossomP
      rw [if_neg (fun h => hNx (Or.inl h)), if_neg (fun h => hNx (Or.inr h))]
      rfl
  -- the abstract invariant
  have hA' := AInv.blossomStep hv hA D (edgeKey c.mode eid a b) S
    (by
      intro x hNx
      have hx : x ∈ c.v.g.nodes := by
        rcases hNx with h | h
        · exact hNAn x h
        · exact hNBn x h
      show labI r.1.label (c.v.toIndex x) = _
      rw [rlab, if_pos]
      rcases hNx with h | h
      · exact Or.inl ((hLAiff x hx).mpr h)
      · exact Or.inr ((hLBiff x hx).mpr h))
    (by
      intro x pre z0 post hpre hox
      have hxA : x ∈ innerNodes (absOf c s.label s.fi P ord) preA :=
        (mem_innerNodes _ preA x).mpr ⟨⟨z0, by rw [hpre]; simp⟩, hox⟩
      have hcut : ∀ p u, (p, u) ∈ pre → u ≠ x := by
        intro p u hpu hux
        subst hux
        have hnd := hpa.nodup
        rw [show (absOf c s.label s.fi P ord).P a = P a from rfl, hPa, hpre] at hnd
        have e : pre ++ (z0, u) :: post ++ sufA = pre ++ ((z0, u) :: post ++ sufA) := by simp
        rw [e, verts_append] at hnd
        exact disj_of_nodup_append (List.nodup_append.mp hnd).1 (mem_verts_of_mem hpu).2 (by simp)
      show blossomP _ a b preA preB x = _
      unfold blossomP newPath
      rw [if_pos hxA, hpre, cutAt_spec x pre z0 post hcut])
    (by
      intro x pre z0 post hpre hox
      have hxB : x ∈ innerNodes (absOf c s.label s.fi P ord) preB :=
        (mem_innerNodes _ preB x).mpr ⟨⟨z0, by rw [hpre]; simp⟩, hox⟩
      have hxA : x ∉ innerNodes (absOf c s.label s.fi P ord) preA := fun h => D.hdisj x h hxB
      have hcut : ∀ p u, (p, u) ∈ pre → u ≠ x := by
        intro p u hpu hux
        subst hux
        have hnd := hpb.nodup
        rw [show (absOf c s.label s.fi P ord).P b = P b from rfl, hPb, hpre] at hnd
        have e : pre ++ (z0, u) :: post ++ sufB = pre ++ ((z0, u) :: post ++ sufB) := by simp
        rw [e, verts_append] at hnd
        exact disj_of_nodup_append (List.nodup_append.mp hnd).1 (mem_verts_of_mem hpu).2 (by simp)
      show blossomP _ a b preA preB x = _
      unfold blossomP newPath
      rw [if_neg hxA, if_pos hxB, hpre, cutAt_spec x pre z0 post hcut])
    rfl
  have hjoin_le : join ≤ c.v.nb := hUaOK.le join (by rw [hUaS]; simp)
  have hlabA_outer : ∀ j, (labA j).isOuter = (labI s.label j).isOuter := by
    intro j
    rcases hlabAf j with e | ⟨e1, e2⟩
    · rw [e]
    · rw [e1, e2]; rfl
  have hmono : ∀ x ∈ c.v.g.nodes, outerAt c s x = true → outerAt c r.1 x = true :=
    fun x hx hox => (S.out' x hx).mpr (Or.inl hox)
  have hFab : fiI r.1.fi (c.v.toIndex a) = join ∧ fiI r.1.fi (c.v.toIndex b) = join := by
    have h1 := (hA'.path a han (hmono a han hoa)).fiHead
    have h2 := (hA'.path b hbn (hmono b hbn hob)).fiHead
    have e1 : (absOf c r.1.label r.1.fi (blossomP (absOf c s.label s.fi P ord) a b preA preB)
        (ord ++ (innerNodes (absOf c s.label s.fi P ord) preA ++ innerNodes (absOf c s.label s.fi P ord) preB))).P a = P a :=
      S.Pold a (S.old_not_new hA D hoa')
    have e2 : (absOf c r.1.label r.1.fi (blossomP (absOf c s.label s.fi P ord) a b preA preB)
        (ord ++ (innerNodes (absOf c s.label s.fi P ord) preA ++ innerNodes (absOf c s.label s.fi P ord) preB))).P b = P b :=
      S.Pold b (S.old_not_new hA D hob')
    rw [e1, hPa, S.fin'_join hv hA D [] preA rfl] at h1
    rw [e2, hPb, S.swap.fin'_join hv hA D.swap [] preB rfl] at h2
    exact ⟨h1, h2⟩
  refine ⟨_, _, ⟨rmate, rfault, rlabLen, rfiLen, hA', ?_, ?_, ?_⟩, hmono, ?_⟩
  · -- the dummy is not outer
    rw [rlab, if_neg, hlabA_outer]
    · exact I.dummyLab
    · rintro (h | h)
      · obtain ⟨u, hu, e⟩ := hLAnode _ h; exact hv.idx_ne_nb (hNAn u hu) e
      · obtain ⟨u, hu, e⟩ := hLBnode _ h; exact hv.idx_ne_nb (hNBn u hu) e
  · -- first-inner entries of outer indices are in range
    intro i hi
    rw [rfi]
    by_cases hin : (i ∈ LA ∨ i ∈ LB)
    · simp only [if_pos hin]
      split <;> exact hjoin_le
    · simp only [if_neg hin]
      split
      · exact hjoin_le
      · rw [rlab, if_neg hin, hlabA_outer] at hi
        exact I.fiBound i hi
  · -- flags
    intro i k' hi
    rw [rlab] at hi
    by_cases hin : (i ∈ LA ∨ i ∈ LB)
    · rw [if_pos hin] at hi; cases hi
    · rw [if_neg hin] at hi
      rcases hlabAf i with e | ⟨e, _⟩
      · rw [e] at hi
        obtain ⟨a', b', eid', h1, h2, h3, h4, h5⟩ := I.flags i k' hi
        obtain ⟨ha'n, hb'n, _⟩ := hv.out a' b' eid' h1
        refine ⟨a', b', eid', h1, h2, hmono a' ha'n h3, hmono b' hb'n h4, ?_⟩
        have hoa2 : (absOf c s.label s.fi P ord).out a' = true := h3
        have hob2 : (absOf c s.label s.fi P ord).out b' = true := h4
        by_cases hN : ∃ u, (u ∈ innerNodes (absOf c s.label s.fi P ord) preA ∨ u ∈ innerNodes (absOf c s.label s.fi P ord) preB) ∧
            fiI s.fi (c.v.toIndex a') = c.v.toIndex u
        · obtain ⟨u, hu, e⟩ := hN
          have r1 := S.Fold1 a' ha'n hoa2 u hu e
          have r2 := S.Fold1 b' hb'n hob2 u hu (by show fiI s.fi (c.v.toIndex b') = _; rw [← h5]; exact e)
          exact r1.trans r2.symm
        · have hno : ∀ u, (u ∈ innerNodes (absOf c s.label s.fi P ord) preA ∨ u ∈ innerNodes (absOf c s.label s.fi P ord) preB) →
              fiI s.fi (c.v.toIndex a') ≠ c.v.toIndex u := fun u hu e => hN ⟨u, hu, e⟩
          have r1 := S.Fold2 a' ha'n hoa2 hno
          have r2 := S.Fold2 b' hb'n hob2 (fun u hu e => hno u hu (by rw [h5]; exact e))
          exact (r1.trans h5).trans r2.symm
      · rw [e] at hi
        have hk : k' = edgeKey c.mode eid a b := by cases hi; rfl
        exact ⟨a, b, eid, hab, hk, hmono a han hoa, hmono b hbn hob, hFab.1.trans hFab.2.symm⟩
  · -- the vertices handed to the visitor are outer now
    intro q hq
    rw [rcalls, List.map_append, List.mem_append] at hq
    rcases hq with hq | hq
    · obtain ⟨j, hj, e⟩ := List.mem_map.mp hq
      obtain ⟨u, hu, e2⟩ := hLAnode j hj
      have hun := hNAn u hu
      have : q = u := by rw [← e, ← e2]; exact hv.ix.from_to u hun
      subst this
      exact ⟨hun, (S.out' q hun).mpr (Or.inr (Or.inl hu))⟩
    · obtain ⟨j, hj, e⟩ := List.mem_map.mp hq
      obtain ⟨u, hu, e2⟩ := hLBnode j hj
      have hun := hNBn u hu
      have : q = u := by rw [← e, ← e2]; exact hv.ix.from_to u hun
      subst this
      exact ⟨hun, (S.out' q hun).mpr (Or.inr (Or.inr hu))⟩

/-- **`find_join` preserves the invariant of the search** -/
theorem findJoin_SInv (hv : VHyp c.v c.mode) (n0 : Nat) (hm : MateInv c.v c.m0 n0) (I : SInv c s P ord)
    (a b eid : Nat) (hab : (b, eid) ∈ c.v.outOf a) (hne : a ≠ b)
    (hoa : outerAt c s a = true) (hob : outerAt c s b = true) :
    ∃ P' ord', SInv c (findJoin c.v (edgeKey c.mode eid a b) a b s).1 P' ord' ∧
      (∀ x ∈ c.v.g.nodes, outerAt c s x = true →
        outerAt c (findJoin c.v (edgeKey c.mode eid a b) a b s).1 x = true) ∧
      (∀ q ∈ (findJoin c.v (edgeKey c.mode eid a b) a b s).2, q ∈ c.v.g.nodes ∧
        outerAt c (findJoin c.v (edgeKey c.mode eid a b) a b s).1 q = true) := by
  by_cases hF : fiI s.fi (c.v.toIndex a) = fiI s.fi (c.v.toIndex b)
  · obtain ⟨han, hbn, _⟩ := hv.out a b eid hab
    rw [findJoin_same c.v _ a b s (by rw [I.fiLen]; have := hv.ix.lt a han; omega)
      (by rw [I.fiLen]; have := hv.ix.lt b hbn; omega) hF]
    exact ⟨P, ord, I, fun _ _ h => h, fun q hq => by cases hq⟩
  · exact findJoin_SInv_ne hv n0 hm I a b eid hab hne hoa hob hF

end

end PetgraphModel.C15W2
