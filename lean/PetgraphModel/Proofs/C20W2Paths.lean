import PetgraphModel.Proofs.C20PathsModel
import PetgraphModel.Proofs.C20Paths
/-
C20 (wave 2) — the mirrored `all_simple_paths` iterator is COMPLETE: run to exhaustion it yields every
simple path within the bounds, and on a simple graph every path exactly once.

* completeness: `Pend p rvis stack` = "`p` is still to come": some level of the stack holds a child `c`
  such that `p` starts with that level's visited prefix followed by `c`.  Every call of `next` keeps
  "yielded or still pending" for every specified path; an exhausted iterator has an empty stack, where
  nothing is pending.
* exactly once: pending-ness only shrinks; a yielded path was pending before and is not pending after
  (the remaining children of a level are duplicate-free on a simple graph and never contain the child
  that was descended into).
-/
namespace PetgraphModel.C20.Paths
open PetgraphModel PetgraphModel.MGraph

/-- `p` is still to come -/
def Pend (p : List Nat) : List Nat → List (List Nat) → Prop
  | _, [] => False
  | [], _ :: _ => False
  | v :: t, cs :: rest => (∃ c ∈ cs, (c :: v :: t).reverse <+: p) ∨ Pend p t rest

theorem pend_nil_left (p : List Nat) (stack : List (List Nat)) : ¬ Pend p [] stack := by
  cases stack <;> simp [Pend]

/-! ### facts about specified paths -/

theorem isWalk_adj_of_append (g : MGraph) : ∀ (l : List Nat) (x y : Nat) (s : List Nat),
    IsWalk g (l ++ x :: y :: s) → g.Adj x y := by
  intro l
  induction l with
  | nil => intro x y s h; exact h.1
  | cons a t ih =>
    intro x y s h
    cases t with
    | nil => exact h.2.1
    | cons b t' => exact ih x y s h.2

/-- a specified path that starts with `… , to` is exactly that -/
theorem top_to {g : MGraph} {a to lo : Nat} {hi : Option Nat} {p r : List Nat}
    (hp : IsSimplePathIn g a to lo hi p) (hpre : (to :: r).reverse <+: p) : p = (to :: r).reverse := by
  obtain ⟨s, hs⟩ := hpre
  cases s with
  | nil => simpa using hs.symm
  | cons x s' =>
    exfalso
    have hnd : p.Nodup := hp.1
    have hlast : p.getLast? = some to := hp.2.2.1
    rw [← hs] at hnd hlast
    have hmem : to ∈ x :: s' := by
      rw [List.getLast?_append] at hlast
      have : (x :: s').getLast? = some ((x :: s').getLast (by simp)) := List.getLast?_eq_some_getLast (by simp)
      rw [this] at hlast
      simp only [Option.some_or, Option.some.injEq] at hlast
      rw [← hlast]
      exact List.getLast_mem _
    exact (List.nodup_append.mp hnd).2.2 to (by simp) to hmem rfl

/-- a specified path that starts with `… , c` for `c ≠ to` goes on to a successor of `c` -/
theorem top_extend {g : MGraph} {a to lo : Nat} {hi : Option Nat} {p r : List Nat} {c : Nat}
    (hp : IsSimplePathIn g a to lo hi p) (hne : c ≠ to) (hpre : (c :: r).reverse <+: p) :
    ∃ c' ∈ g.succ c, (c' :: c :: r).reverse <+: p := by
  obtain ⟨s, hs⟩ := hpre
  cases s with
  | nil =>
    exfalso
    have hlast : p.getLast? = some to := hp.2.2.1
    rw [← hs] at hlast
    simp at hlast
    exact hne hlast
  | cons x s' =>
    refine ⟨x, ?_, ⟨s', by rw [← hs]; simp⟩⟩
    have hw : IsWalk g p := hp.2.2.2.1
    rw [← hs] at hw
    have : (c :: r).reverse ++ x :: s' = r.reverse ++ c :: x :: s' := by simp
    rw [this] at hw
    exact MGraph.mem_succ.mpr (isWalk_adj_of_append g _ _ _ _ hw)

/-- at full depth a specified path can only end right here -/
theorem top_full {g : MGraph} {a to lo : Nat} {hi : Option Nat} {maxLen : Nat} {p r : List Nat} {c : Nat}
    (hmax : ∀ p, IsSimplePathIn g a to lo hi p → p.length ≤ maxLen + 1)
    (hp : IsSimplePathIn g a to lo hi p) (hfull : maxLen ≤ r.length) (hpre : (c :: r).reverse <+: p) :
    c = to ∧ p = (to :: r).reverse := by
  have hlen := hmax p hp
  have heq : (c :: r).reverse = p := hpre.eq_of_length_le (by simp; omega)
  have hlast : p.getLast? = some to := hp.2.2.1
  rw [← heq] at hlast
  simp at hlast
  subst hlast
  exact ⟨rfl, heq.symm⟩

/-- `max_length + 1` bounds the number of nodes of every specified path -/
theorem valid_length_le {g : MGraph} (hg : EndpointsOk g) {a to lo : Nat} {hi : Option Nat}
    (ha : a ∈ g.nodes) {p : List Nat} (hp : IsSimplePathIn g a to lo hi p) :
    p.length ≤ maxLenOf g.nodes.length hi + 1 := by
  cases hi with
  | some h => have := hp.2.2.2.2.2 h rfl; simp only [maxLenOf]; omega
  | none =>
    simp only [maxLenOf]
    have hpos : 0 < g.nodes.length := List.length_pos_of_mem ha
    have hsub : p ⊆ g.nodes := fun x hx => isWalk_mem_nodes hg p hp.2.2.2.1 (by have := hp.2.2.2.2.1; omega) x hx
    have := List.Nodup.length_le_of_subset hp.1 hsub
    omega

/-! ### completeness of one call of `next` -/

theorem next_complete (g : MGraph) (a to lo : Nat) (hi : Option Nat) (maxLen : Nat)
    (hmax : ∀ p, IsSimplePathIn g a to lo hi p → p.length ≤ maxLen + 1) :
    ∀ (f : Nat) (st st' : St) (r : Option (List Nat)),
      next g.succ to (lo + 1) maxLen f st = some (r, st') →
      (∀ p, IsSimplePathIn g a to lo hi p → Pend p st.rvis st.stack → r = some p ∨ Pend p st'.rvis st'.stack) ∧
      (r = none → st'.stack = []) := by
  intro f
  induction f with
  | zero => intro st st' r h; simp [next] at h
  | succ f ih =>
    intro st st' r h
    obtain ⟨rvis, stack⟩ := st
    unfold next at h
    simp only at h
    split at h
    · -- empty stack: exhausted
      simp only [Option.some.injEq, Prod.mk.injEq] at h
      obtain ⟨hr, hs⟩ := h
      subst hr; subst hs
      exact ⟨fun p _ hpend => by simp [Pend] at hpend, fun _ => rfl⟩
    · -- a finished level
      rename_i _ rest
      have := ih _ st' r h
      refine ⟨fun p hp hpend => this.1 p hp ?_, this.2⟩
      cases rvis with
      | nil => simp [Pend] at hpend
      | cons v t =>
        simp only [Pend] at hpend
        rcases hpend with ⟨c, hc, _⟩ | hdeep
        · cases hc
        · exact hdeep
    · rename_i _ child cs rest
      cases rvis with
      | nil =>
        -- nothing is pending with an empty visited list
        have hnp : ∀ p, ¬ Pend p [] ((child :: cs) :: rest) := fun p => by simp [Pend]
        split at h
        · split at h
          · split at h
            · simp only [Option.some.injEq, Prod.mk.injEq] at h
              obtain ⟨hr, hs⟩ := h
              subst hr; subst hs
              exact ⟨fun p _ hpend => absurd hpend (hnp p), fun h0 => by simp at h0⟩
            · have := ih _ st' r h
              exact ⟨fun p _ hpend => absurd hpend (hnp p), this.2⟩
          · split at h
            · have := ih _ st' r h
              exact ⟨fun p _ hpend => absurd hpend (hnp p), this.2⟩
            · have := ih _ st' r h
              exact ⟨fun p _ hpend => absurd hpend (hnp p), this.2⟩
        · split at h
          · simp only [Option.some.injEq, Prod.mk.injEq] at h
            obtain ⟨hr, hs⟩ := h
            subst hr; subst hs
            exact ⟨fun p _ hpend => absurd hpend (hnp p), fun h0 => by simp at h0⟩
          · have := ih _ st' r h
            exact ⟨fun p _ hpend => absurd hpend (hnp p), this.2⟩
      | cons v t =>
        split at h
        · rename_i hlt
          split at h
          · rename_i hct
            have hct' : child = to := by simpa using hct
            subst hct'
            split at h
            · -- yield
              simp only [Option.some.injEq, Prod.mk.injEq] at h
              obtain ⟨hr, hs⟩ := h
              subst hr; subst hs
              refine ⟨fun p hp hpend => ?_, fun h0 => by simp at h0⟩
              simp only [Pend] at hpend ⊢
              rcases hpend with ⟨c, hc, hpre⟩ | hdeep
              · cases List.mem_cons.mp hc with
                | inl e => subst e; exact Or.inl (congrArg some (top_to hp hpre).symm)
                | inr e => exact Or.inr (Or.inl ⟨c, e, hpre⟩)
              · exact Or.inr (Or.inr hdeep)
            · -- too short
              rename_i hmin
              have := ih _ st' r h
              refine ⟨fun p hp hpend => this.1 p hp ?_, this.2⟩
              simp only [Pend] at hpend ⊢
              rcases hpend with ⟨c, hc, hpre⟩ | hdeep
              · cases List.mem_cons.mp hc with
                | inl e =>
                  subst e
                  have hpe := top_to hp hpre
                  have hlen := hp.2.2.2.2.1
                  rw [hpe] at hlen
                  simp at hlen hmin
                  omega
                | inr e => exact Or.inl ⟨c, e, hpre⟩
              · exact Or.inr hdeep
          · rename_i hct
            have hne : child ≠ to := by simpa using hct
            split at h
            · -- descend
              have := ih _ st' r h
              refine ⟨fun p hp hpend => this.1 p hp ?_, this.2⟩
              simp only [Pend] at hpend ⊢
              rcases hpend with ⟨c, hc, hpre⟩ | hdeep
              · cases List.mem_cons.mp hc with
                | inl e =>
                  subst e
                  obtain ⟨c', hc', hpre'⟩ := top_extend hp hne hpre
                  exact Or.inl ⟨c', hc', hpre'⟩
                | inr e => exact Or.inr (Or.inl ⟨c, e, hpre⟩)
              · exact Or.inr (Or.inr hdeep)
            · -- already visited
              rename_i hvis
              have hvis' : child ∈ v :: t := Classical.byContradiction fun hn => hvis (by simpa using hn)
              have := ih _ st' r h
              refine ⟨fun p hp hpend => this.1 p hp ?_, this.2⟩
              simp only [Pend] at hpend ⊢
              rcases hpend with ⟨c, hc, hpre⟩ | hdeep
              · cases List.mem_cons.mp hc with
                | inl e =>
                  subst e
                  exfalso
                  have hnd : ((c :: v :: t).reverse).Nodup := List.Nodup.sublist hpre.sublist hp.1
                  rw [(List.reverse_perm _).nodup_iff] at hnd
                  exact (List.nodup_cons.mp hnd).1 hvis'
                | inr e => exact Or.inl ⟨c, e, hpre⟩
              · exact Or.inr hdeep
        · rename_i hge
          have hfull : maxLen ≤ (v :: t).length := by omega
          split at h
          · -- yield at full depth
            simp only [Option.some.injEq, Prod.mk.injEq] at h
            obtain ⟨hr, hs⟩ := h
            subst hr; subst hs
            refine ⟨fun p hp hpend => ?_, fun h0 => by simp at h0⟩
            simp only [Pend] at hpend ⊢
            rcases hpend with ⟨c, hc, hpre⟩ | hdeep
            · exact Or.inl (congrArg some (top_full hmax hp hfull hpre).2.symm)
            · exact Or.inr (Or.inr hdeep)
          · rename_i hnf
            have := ih _ st' r h
            refine ⟨fun p hp hpend => this.1 p hp ?_, this.2⟩
            simp only [Pend] at hpend
            rcases hpend with ⟨c, hc, hpre⟩ | hdeep
            · exfalso
              obtain ⟨hcto, hpe⟩ := top_full hmax hp hfull hpre
              subst hcto
              apply hnf
              have hfound : (child == c || cs.contains c) = true := by
                cases List.mem_cons.mp hc with
                | inl e => simp [e]
                | inr e => simp [e]
              have hlen := hp.2.2.2.2.1
              rw [hpe] at hlen
              simp only [List.length_reverse, List.length_cons] at hlen
              simp only [hfound, Bool.true_and, decide_eq_true_eq, List.length_cons]
              omega
            · exact hdeep

theorem collect_complete (g : MGraph) (a to lo : Nat) (hi : Option Nat) (maxLen fuel : Nat)
    (hmax : ∀ p, IsSimplePathIn g a to lo hi p → p.length ≤ maxLen + 1) :
    ∀ (k : Nat) (st : St) (acc out : List (List Nat)),
      (∀ p, IsSimplePathIn g a to lo hi p → p ∈ acc ∨ Pend p st.rvis st.stack) →
      collect g.succ to (lo + 1) maxLen fuel k st acc = some out →
      ∀ p, IsSimplePathIn g a to lo hi p → p ∈ out := by
  intro k
  induction k with
  | zero => intro st acc out _ h; simp [collect] at h
  | succ k ih =>
    intro st acc out hinv h
    simp only [collect] at h
    split at h
    · simp at h
    · rename_i st' hn
      simp only [Option.some.injEq] at h
      subst h
      have hc := next_complete g a to lo hi maxLen hmax fuel st st' none hn
      have hempty := hc.2 rfl
      intro p hp
      cases hinv p hp with
      | inl e => exact List.mem_reverse.mpr e
      | inr e =>
        cases hc.1 p hp e with
        | inl e' => simp at e'
        | inr e' => rw [hempty] at e'; simp [Pend] at e'
    · rename_i q st' hn
      have hc := next_complete g a to lo hi maxLen hmax fuel st st' (some q) hn
      apply ih st' (q :: acc) out _ h
      intro p hp
      cases hinv p hp with
      | inl e => exact Or.inl (List.mem_cons_of_mem _ e)
      | inr e =>
        cases hc.1 p hp e with
        | inl e' =>
          simp only [Option.some.injEq] at e'
          exact Or.inl (e' ▸ List.mem_cons_self)
        | inr e' => exact Or.inr e'

/-! ### every path at most once on a simple graph -/

/-- the remaining children of every level are duplicate-free and do not contain the child that was
descended into -/
def Good : List Nat → List (List Nat) → Prop
  | _, [] => True
  | [], _ :: _ => False
  | v :: t, cs :: rest => cs.Nodup ∧ (∀ cs2, rest.head? = some cs2 → v ∉ cs2) ∧ Good t rest

theorem good_shrink {v : Nat} {t cs cs' : List Nat} {rest : List (List Nat)} (h : Good (v :: t) (cs :: rest))
    (hsub : cs'.Sublist cs) : Good (v :: t) (cs' :: rest) :=
  ⟨List.Nodup.sublist hsub h.1, h.2.1, h.2.2⟩

/-- a path through `v` is not pending below the level `v` was taken from -/
theorem not_pend_deep : ∀ (t : List Nat) (rest : List (List Nat)) (v : Nat) (X : List Nat),
    (∀ cs2, rest.head? = some cs2 → v ∉ cs2) → Good t rest → ¬ Pend (X ++ v :: t).reverse t rest := by
  intro t
  induction t with
  | nil => intro rest v X _ _ h; exact pend_nil_left _ _ h
  | cons w t' ih =>
    intro rest v X hv hg hpend
    cases rest with
    | nil => simp [Pend] at hpend
    | cons cs2 rest' =>
      simp only [Pend] at hpend
      rcases hpend with ⟨c, hc, hpre⟩ | hdeep
      · have h1 : (c :: w :: t').reverse = (w :: t').reverse ++ [c] := by simp
        have h2 : (X ++ v :: w :: t').reverse = (w :: t').reverse ++ (v :: X.reverse) := by simp
        rw [h1, h2, List.prefix_append_right_inj] at hpre
        obtain ⟨s, hs⟩ := hpre
        have : c = v := by simpa using (List.cons.inj hs).1
        subst this
        exact hv cs2 rfl hc
      · have := ih rest' w (X ++ [v]) hg.2.1 hg.2.2
        apply this
        simpa using hdeep

theorem prefix_same_length_head {c d : Nat} {r : List Nat} (h : (c :: r).reverse <+: (d :: r).reverse) : c = d := by
  have := h.eq_of_length (by simp)
  have := List.reverse_inj.mp this
  exact (List.cons.inj this).1

theorem dropWhile_tail_not_mem {cs : List Nat} {to : Nat} (hnd : cs.Nodup) :
    to ∉ (cs.dropWhile (· != to)).tail := by
  induction cs with
  | nil => simp
  | cons x t ih =>
    have hnd' := List.nodup_cons.mp hnd
    by_cases hx : x = to
    · subst hx
      simp only [List.dropWhile_cons, bne_self_eq_false, Bool.false_eq_true, if_false, List.tail_cons]
      exact hnd'.1
    · have : (x != to) = true := by simpa using hx
      simp only [List.dropWhile_cons, this, if_true]
      exact ih hnd'.2

/-- one call of `next`: the invariant is kept, pending-ness only shrinks, a yielded path was pending
before and is not pending afterwards -/
theorem next_once (succ : Nat → List Nat) (hs : ∀ v, (succ v).Nodup) (to minLen maxLen : Nat) :
    ∀ (f : Nat) (st st' : St) (r : Option (List Nat)),
      next succ to minLen maxLen f st = some (r, st') → Good st.rvis st.stack →
      Good st'.rvis st'.stack ∧ (∀ q, Pend q st'.rvis st'.stack → Pend q st.rvis st.stack) ∧
        ∀ p, r = some p → Pend p st.rvis st.stack ∧ ¬ Pend p st'.rvis st'.stack := by
  intro f
  induction f with
  | zero => intro st st' r h; simp [next] at h
  | succ f ih =>
    intro st st' r h hg
    obtain ⟨rvis, stack⟩ := st
    unfold next at h
    simp only at h hg
    -- composition with a recursive call from an intermediate state
    have compose : ∀ (st1 : St), next succ to minLen maxLen f st1 = some (r, st') →
        Good st1.rvis st1.stack → (∀ q, Pend q st1.rvis st1.stack → Pend q rvis stack) →
        Good st'.rvis st'.stack ∧ (∀ q, Pend q st'.rvis st'.stack → Pend q rvis stack) ∧
          ∀ p, r = some p → Pend p rvis stack ∧ ¬ Pend p st'.rvis st'.stack := by
      intro st1 h1 hgood hmono
      have := ih st1 st' r h1 hgood
      exact ⟨this.1, fun q hq => hmono q (this.2.1 q hq),
        fun p hp => ⟨hmono p (this.2.2 p hp).1, (this.2.2 p hp).2⟩⟩
    split at h
    · simp only [Option.some.injEq, Prod.mk.injEq] at h
      obtain ⟨hr, hs'⟩ := h
      subst hr; subst hs'
      exact ⟨hg, fun q hq => hq, fun p hp => by simp at hp⟩
    · rename_i _ rest
      cases rvis with
      | nil => exact absurd hg (by simp [Good])
      | cons v t => exact compose _ h hg.2.2 (fun q hq => Or.inr hq)
    · rename_i _ child cs rest
      cases rvis with
      | nil => exact absurd hg (by simp [Good])
      | cons v t =>
        -- dropping children of the top level
        have mono_shrink : ∀ (cs' : List Nat), (∀ c ∈ cs', c ∈ child :: cs) →
            ∀ q, Pend q (v :: t) (cs' :: rest) → Pend q (v :: t) ((child :: cs) :: rest) := by
          intro cs' hsub q hq
          simp only [Pend] at hq ⊢
          rcases hq with ⟨c, hc, hpre⟩ | hdeep
          · exact Or.inl ⟨c, hsub c hc, hpre⟩
          · exact Or.inr hdeep
        -- yielding `to` from the top level, with `cs'` left
        have yield_ok : ∀ (cs' : List Nat), cs'.Sublist (child :: cs) → to ∈ child :: cs → to ∉ cs' →
            Good (v :: t) (cs' :: rest) ∧
            (∀ q, Pend q (v :: t) (cs' :: rest) → Pend q (v :: t) ((child :: cs) :: rest)) ∧
              ∀ p, some (to :: v :: t).reverse = some p →
                Pend p (v :: t) ((child :: cs) :: rest) ∧ ¬ Pend p (v :: t) (cs' :: rest) := by
          intro cs' hsub hto hnot
          refine ⟨good_shrink hg hsub, mono_shrink cs' (fun c hc => hsub.subset hc), ?_⟩
          intro p hp
          simp only [Option.some.injEq] at hp
          subst hp
          refine ⟨Or.inl ⟨to, hto, List.prefix_refl _⟩, ?_⟩
          intro hpend
          simp only [Pend] at hpend
          rcases hpend with ⟨c, hc, hpre⟩ | hdeep
          · have := prefix_same_length_head hpre
            subst this
            exact hnot hc
          · exact not_pend_deep t rest v [to] hg.2.1 hg.2.2 (by simpa using hdeep)
        have hndc := List.nodup_cons.mp hg.1
        split at h
        · rename_i hlt
          split at h
          · rename_i hct
            have hct' : child = to := by simpa using hct
            split at h
            · simp only [Option.some.injEq, Prod.mk.injEq] at h
              obtain ⟨hr, hs'⟩ := h
              subst hr; subst hs'
              exact yield_ok cs (List.sublist_cons_self _ _) (by simp [hct']) (hct' ▸ hndc.1)
            · exact compose _ h (good_shrink hg (List.sublist_cons_self _ _))
                (mono_shrink cs (fun c hc => List.mem_cons_of_mem _ hc))
          · split at h
            · -- descend
              apply compose _ h
              · refine ⟨hs child, ?_, good_shrink hg (List.sublist_cons_self _ _)⟩
                intro cs2 hcs2
                simp only [List.head?_cons, Option.some.injEq] at hcs2
                subst hcs2
                exact hndc.1
              · intro q hq
                simp only [Pend] at hq ⊢
                rcases hq with ⟨c, hc, hpre⟩ | ⟨c, hc, hpre⟩ | hdeep
                · refine Or.inl ⟨child, by simp, ?_⟩
                  have : (child :: v :: t).reverse <+: (c :: child :: v :: t).reverse := by
                    simp only [List.reverse_cons]
                    exact List.prefix_append _ _
                  exact this.trans hpre
                · exact Or.inl ⟨c, List.mem_cons_of_mem _ hc, hpre⟩
                · exact Or.inr hdeep
            · exact compose _ h (good_shrink hg (List.sublist_cons_self _ _))
                (mono_shrink cs (fun c hc => List.mem_cons_of_mem _ hc))
        · split at h
          · rename_i hfound
            simp only [Bool.and_eq_true, Bool.or_eq_true, beq_iff_eq, decide_eq_true_eq] at hfound
            simp only [Option.some.injEq, Prod.mk.injEq] at h
            obtain ⟨hr, hs'⟩ := h
            subst hr; subst hs'
            have hto : to ∈ child :: cs := by
              cases hfound.1 with
              | inl e => simp [e]
              | inr e => exact List.mem_cons_of_mem _ (by simpa using e)
            apply yield_ok _ _ hto
            · split
              · rename_i hct
                have hct' : child = to := by simpa using hct
                exact hct' ▸ hndc.1
              · exact dropWhile_tail_not_mem hndc.2
            · split
              · exact List.sublist_cons_self _ _
              · exact ((List.tail_sublist _).trans (List.dropWhile_sublist _)).trans (List.sublist_cons_self _ _)
          · exact compose _ h hg.2.2 (fun q hq => Or.inr hq)

theorem collect_nodup (succ : Nat → List Nat) (hs : ∀ v, (succ v).Nodup) (to minLen maxLen fuel : Nat) :
    ∀ (k : Nat) (st : St) (acc out : List (List Nat)),
      Good st.rvis st.stack → acc.Nodup → (∀ q ∈ acc, ¬ Pend q st.rvis st.stack) →
      collect succ to minLen maxLen fuel k st acc = some out → out.Nodup := by
  intro k
  induction k with
  | zero => intro st acc out _ _ _ h; simp [collect] at h
  | succ k ih =>
    intro st acc out hg hnd hnp h
    simp only [collect] at h
    split at h
    · simp at h
    · simp only [Option.some.injEq] at h
      subst h
      exact (List.reverse_perm _).nodup_iff.mpr hnd
    · rename_i p st' hn
      have hc := next_once succ hs to minLen maxLen fuel st st' (some p) hn hg
      have hp := hc.2.2 p rfl
      apply ih st' (p :: acc) out hc.1 _ _ h
      · exact List.nodup_cons.mpr ⟨fun hm => hnp p hm hp.1, hnd⟩
      · intro q hq
        cases List.mem_cons.mp hq with
        | inl e => exact e ▸ hp.2
        | inr e => exact fun hpend => hnp q e (hc.2.1 q hpend)

theorem succ_nodup_of_simple (g : MGraph) (hd : g.directed = true) (hsimple : simpleB g = true) (v : Nat) :
    (g.succ v).Nodup := by
  have hnd : (g.edges.map fun e => (e.src, e.tgt)).Nodup := by simpa [simpleB] using hsimple
  unfold MGraph.succ
  revert hnd
  generalize g.edges = es
  intro hnd
  induction es with
  | nil => simp
  | cons e t ih =>
    simp only [List.map_cons] at hnd
    have hnd' := List.nodup_cons.mp hnd
    simp only [List.filterMap_cons, hd, Bool.true_eq_false, false_and, if_false]
    have ih' := ih hnd'.2
    simp only [hd, Bool.true_eq_false, false_and, if_false] at ih'
    by_cases h : e.src = v
    · simp only [h, if_true]
      refine List.nodup_cons.mpr ⟨?_, ih'⟩
      intro hm
      obtain ⟨e', he', hh⟩ := List.mem_filterMap.mp hm
      by_cases h' : e'.src = v
      · simp only [h', if_true, Option.some.injEq] at hh
        apply hnd'.1
        exact List.mem_map.mpr ⟨e', he', by rw [h', hh, h]⟩
      · simp [h'] at hh
    · simp only [h, if_false]
      exact ih'

/-- **completeness of the mirrored iterator**: run to exhaustion, it yields every simple path from `a`
to `b` whose number of intermediate nodes is within the bounds — each exactly once on a simple graph -/
theorem allSimplePaths_complete (g : MGraph) (a b lo : Nat) (hi : Option Nat) (fuel : Nat) (out : List (List Nat))
    (hd : g.directed = true) (hg : EndpointsOk g) (hab : a ≠ b) (ha : a ∈ g.nodes)
    (h : allSimplePaths g.succ g.nodes.length a b lo hi fuel = some out) :
    (∀ p, IsSimplePathIn g a b lo hi p → p ∈ out) ∧ (simpleB g = true → out.Nodup) := by
  unfold allSimplePaths at h
  constructor
  · apply collect_complete g a b lo hi _ fuel (fun p hp => valid_length_le hg ha hp) fuel _ [] out _ h
    intro p hp
    right
    -- the path starts `a, c, …` with `c` a successor of `a`
    have hpre : ([a] : List Nat) <+: p := by
      obtain ⟨_, hhead, _⟩ := hp
      cases p with
      | nil => simp at hhead
      | cons x t =>
        have : x = a := by simpa using hhead
        subst this
        exact ⟨t, rfl⟩
    obtain ⟨c', hc', hpre'⟩ := top_extend (r := []) hp hab (by simpa using hpre)
    exact Or.inl ⟨c', hc', hpre'⟩
  · intro hsimple
    apply collect_nodup g.succ (succ_nodup_of_simple g hd hsimple) b (lo + 1) _ fuel fuel _ [] out _ (by simp)
      (by simp) h
    exact ⟨succ_nodup_of_simple g hd hsimple a, by simp, trivial⟩

end PetgraphModel.C20.Paths
