import PetgraphModel.Proofs.C15W2Blossom
/-
C15 wave 2 — blossom step, part 2: the new state, first inner vertices in the new state, and the
paths of the vertices that were outer before.
-/
namespace PetgraphModel.C15W2
open PetgraphModel PetgraphModel.C15 PetgraphModel.C15M PetgraphModel.C15P

/-- the state `A'` after the blossom step (the part that is symmetric in the two sides);
`N` = "newly labelled" -/
structure BS (c : Ctx) (A A' : AS) (N : Nat → Prop) (preA preB : PL) (join : Nat) : Prop where
  hN : ∀ x, N x ↔ (x ∈ innerNodes A preA ∨ x ∈ innerNodes A preB)
  out' : ∀ x ∈ c.v.g.nodes, (A'.out x = true ↔ (A.out x = true ∨ N x))
  Lold : ∀ x ∈ c.v.g.nodes, A.out x = true → A'.L x = A.L x
  Fnew : ∀ x, N x → A'.F x = join
  Fold1 : ∀ x ∈ c.v.g.nodes, A.out x = true → ∀ u, N u → A.F x = c.v.toIndex u → A'.F x = join
  Fold2 : ∀ x ∈ c.v.g.nodes, A.out x = true → (∀ u, N u → A.F x ≠ c.v.toIndex u) → A'.F x = A.F x
  Pold : ∀ x, ¬ N x → A'.P x = A.P x
  ordExt : ∃ ext, A'.ord = A.ord ++ ext

theorem BS.swap {c : Ctx} {A A' : AS} {N : Nat → Prop} {preA preB : PL} {join : Nat}
    (S : BS c A A' N preA preB join) : BS c A A' N preB preA join :=
  ⟨fun x => (S.hN x).trans Or.comm, S.out', S.Lold, S.Fnew, S.Fold1, S.Fold2, S.Pold, S.ordExt⟩

section
variable {c : Ctx} {A A' : AS} {a b : Nat} {preA sufA preB sufB : PL} {join : Nat} {N : Nat → Prop}

theorem BS.new_node (hA : AInv c A) (D : BD c A a b preA sufA preB sufB join)
    (S : BS c A A' N preA preB join) {u : Nat} (hu : N u) : u ∈ c.v.g.nodes ∧ A.out u = false := by
  rcases (S.hN u).mp hu with h | h
  · exact ⟨(D.newA_node hA h).1, ((mem_innerNodes A preA u).mp h).2⟩
  · exact ⟨(D.swap.newA_node hA h).1, ((mem_innerNodes A preB u).mp h).2⟩

/-- an old outer vertex is not new -/
theorem BS.old_not_new (hA : AInv c A) (D : BD c A a b preA sufA preB sufB join)
    (S : BS c A A' N preA preB join) {x : Nat} (hox : A.out x = true) : ¬ N x := by
  intro h
  have := (S.new_node hA D h).2
  rw [hox] at this; cases this

/-- outer-ness of the second components of a piece of `preA` in the new state -/
theorem BS.preA_out' (hA : AInv c A) (D : BD c A a b preA sufA preB sufB join)
    (S : BS c A A' N preA preB join) {p u : Nat} (h : (p, u) ∈ preA) : A'.out u = true := by
  have hun : u ∈ c.v.g.nodes := by
    apply (hA.path a D.ha D.hoa).mem
    rw [D.hPa, verts_append]
    exact List.mem_append_left _ (mem_verts_of_mem h).2
  rw [S.out' u hun]
  by_cases hou : A.out u = true
  · exact Or.inl hou
  · right
    rw [S.hN]
    exact Or.inl ((mem_innerNodes A preA u).mpr ⟨⟨p, h⟩, by simpa using hou⟩)

/-- the first inner vertex, in the new state, of a piece of `P a` that ends with `sufA`, is the join -/
theorem BS.fin'_join (_hv : VHyp c.v c.mode) (hA : AInv c A) (D : BD c A a b preA sufA preB sufB join)
    (S : BS c A A' N preA preB join) (l0 l : PL) (hl : preA = l0 ++ l) : A'.fin c (l ++ sufA) = join := by
  unfold AS.fin
  rw [firstInner_append_outer]
  · rcases D.hjoin with ⟨h1, _, h3⟩ | ⟨pj, uj, r, h1, h2, h3, h4⟩
    · rw [h1, h3]; rfl
    · rw [h1]
      have hujn : uj ∈ c.v.g.nodes := by
        apply (hA.path a D.ha D.hoa).mem
        rw [D.hPa, h1, verts_append]
        exact List.mem_append_right _ (by simp)
      have : A'.out uj = false := by
        cases hh : A'.out uj with
        | false => rfl
        | true =>
          exfalso
          rcases (S.out' uj hujn).mp hh with e | e
          · rw [h3] at e; cases e
          · rcases (S.hN uj).mp e with e | e
            · exact D.join_not_new hA h1 e
            · exact D.swap.join_not_new hA h2 e
      simp [firstInner, this, h4]
  · intro p u hm
    exact S.preA_out' hA D (by rw [hl]; exact List.mem_append_right _ hm)

/-- (★) first inner vertices of the pieces of old paths, in the new state -/
theorem BS.fin'_old (hv : VHyp c.v c.mode) (hA : AInv c A) (D : BD c A a b preA sufA preB sufB join)
    (S : BS c A A' N preA preB join) (x : Nat) (hx : x ∈ c.v.g.nodes) (hox : A.out x = true)
    (pre l : PL) (hP : A.P x = pre ++ l) :
    (∀ u, N u → A.fin c l = c.v.toIndex u → A'.fin c l = join) ∧
    ((∀ u, N u → A.fin c l ≠ c.v.toIndex u) → A'.fin c l = A.fin c l) := by
  have hpx := hA.path x hx hox
  have hlmem : ∀ p u, (p, u) ∈ l → u ∈ c.v.g.nodes := by
    intro p u hm
    apply hpx.mem
    rw [hP, verts_append]
    exact List.mem_append_right _ (mem_verts_of_mem hm).2
  rcases fin_mem c A l with h | ⟨l1, p, u, rest, h1, h2, h3, h4⟩
  · -- no inner vertex at all
    have hall : ∀ p u, (p, u) ∈ l → A'.out u = true := by
      intro p u hm
      rw [S.out' u (hlmem p u hm)]
      left
      -- all second components are outer: otherwise `fin` would not be the dummy
      cases hou : A.out u with
      | true => rfl
      | false =>
        exfalso
        unfold AS.fin at h
        rcases firstInner_split c.v.nb c.v.toIndex A.out l with h' | ⟨l1, p1, u1, rest, e1, e2, e3, _⟩
        · have := h'.2 p u hm; rw [hou] at this; cases this
        · rw [h] at e3
          have hu1 : u1 ∈ c.v.g.nodes := hlmem p1 u1 (by rw [e1]; simp)
          exact hv.idx_ne_nb hu1 e3.symm
    have hfin' : A'.fin c l = c.v.nb := by
      unfold AS.fin
      have := firstInner_append_outer c.v.nb c.v.toIndex A'.out l [] hall
      simpa [firstInner] using this
    refine ⟨?_, fun _ => by rw [hfin', h]⟩
    intro u hu e
    exfalso
    rw [h] at e
    exact hv.idx_ne_nb (S.new_node hA D hu).1 e.symm
  · have hun : u ∈ c.v.g.nodes := hlmem p u (by rw [h1]; simp)
    have hl1' : ∀ p' u', (p', u') ∈ l1 → A'.out u' = true := by
      intro p' u' hm
      rw [S.out' u' (hlmem p' u' (by rw [h1]; exact List.mem_append_left _ hm))]
      exact Or.inl (h4 p' u' hm)
    have hstep : A'.fin c l = if A'.out u then A'.fin c rest else c.v.toIndex u := by
      unfold AS.fin
      rw [h1, firstInner_append_outer _ _ _ l1 _ hl1']
      rfl
    constructor
    · intro u' hu' e
      rw [h3] at e
      have : u = u' := hv.ix.inj u hun u' (S.new_node hA D hu').1 e
      subst this
      have hou' : A'.out u = true := (S.out' u hun).mpr (Or.inr hu')
      rw [hstep, hou', if_pos rfl]
      -- the rest of the path after the new vertex `u`
      have hdec : A.P x = (pre ++ l1) ++ (p, u) :: rest := by rw [hP, h1]; simp
      rcases (S.hN u).mp hu' with hnA | hnB
      · obtain ⟨_, pA1, z0, pA2, e1⟩ := D.newA_split hnA
        have hPa : A.P a = pA1 ++ (z0, u) :: (pA2 ++ sufA) := by rw [D.hPa, e1]; simp
        obtain ⟨_, er⟩ := suffix_det hA hx hox D.ha D.hoa hdec hPa h2
        rw [er]
        exact S.fin'_join hv hA D (pA1 ++ [(z0, u)]) pA2 (by rw [e1]; simp)
      · obtain ⟨_, pB1, z0, pB2, e1⟩ := D.swap.newA_split hnB
        have hPb : A.P b = pB1 ++ (z0, u) :: (pB2 ++ sufB) := by rw [D.hPb, e1]; simp
        obtain ⟨_, er⟩ := suffix_det hA hx hox D.hb D.hob hdec hPb h2
        rw [er]
        exact S.swap.fin'_join hv hA D.swap (pB1 ++ [(z0, u)]) pB2 (by rw [e1]; simp)
    · intro hno
      have hou' : A'.out u = false := by
        cases hh : A'.out u with
        | false => rfl
        | true =>
          exfalso
          rcases (S.out' u hun).mp hh with e | e
          · rw [h2] at e; cases e
          · exact hno u e h3
      rw [hstep, hou', h3]
      rfl

/-- the new `first_inner` entry of an old outer vertex, from the old one -/
theorem BS.F'_old (hv : VHyp c.v c.mode) (hA : AInv c A) (D : BD c A a b preA sufA preB sufB join)
    (S : BS c A A' N preA preB join) (x : Nat) (hx : x ∈ c.v.g.nodes) (hox : A.out x = true)
    (y : Nat) (hy : y ∈ c.v.g.nodes) (hoy : A.out y = true)
    (pre l : PL) (hP : A.P x = pre ++ l) (hF : A.F y = A.fin c l) : A'.F y = A'.fin c l := by
  obtain ⟨f1, f2⟩ := S.fin'_old hv hA D x hx hox pre l hP
  by_cases h : ∃ u, N u ∧ A.F y = c.v.toIndex u
  · obtain ⟨u, hu, e⟩ := h
    rw [S.Fold1 y hy hoy u hu e, f1 u hu (by rw [← hF]; exact e)]
  · have hno : ∀ u, N u → A.F y ≠ c.v.toIndex u := fun u hu e => h ⟨u, hu, e⟩
    rw [S.Fold2 y hy hoy hno, f2 (by rw [← hF]; exact hno), hF]

/-- after a new vertex on an old path the first inner vertex (new state) is the join -/
theorem BS.fin'_after_new (hv : VHyp c.v c.mode) (hA : AInv c A) (D : BD c A a b preA sufA preB sufB join)
    (S : BS c A A' N preA preB join) (x : Nat) (hx : x ∈ c.v.g.nodes) (hox : A.out x = true)
    (pre rest : PL) (p u : Nat) (hdec : A.P x = pre ++ (p, u) :: rest) (hu : N u) :
    A'.fin c rest = join := by
  have h2 := (S.new_node hA D hu).2
  rcases (S.hN u).mp hu with hnA | hnB
  · obtain ⟨_, pA1, z0, pA2, e1⟩ := D.newA_split hnA
    have hPa : A.P a = pA1 ++ (z0, u) :: (pA2 ++ sufA) := by rw [D.hPa, e1]; simp
    obtain ⟨_, er⟩ := suffix_det hA hx hox D.ha D.hoa hdec hPa h2
    rw [er]
    exact S.fin'_join hv hA D (pA1 ++ [(z0, u)]) pA2 (by rw [e1]; simp)
  · obtain ⟨_, pB1, z0, pB2, e1⟩ := D.swap.newA_split hnB
    have hPb : A.P b = pB1 ++ (z0, u) :: (pB2 ++ sufB) := by rw [D.hPb, e1]; simp
    obtain ⟨_, er⟩ := suffix_det hA hx hox D.hb D.hob hdec hPb h2
    rw [er]
    exact S.swap.fin'_join hv hA D.swap (pB1 ++ [(z0, u)]) pB2 (by rw [e1]; simp)

/-- the path of a vertex that was outer before is still good -/
theorem BS.pathOK_old (hv : VHyp c.v c.mode) (hA : AInv c A) (D : BD c A a b preA sufA preB sufB join)
    (S : BS c A A' N preA preB join) (x : Nat) (hx : x ∈ c.v.g.nodes) (hox : A.out x = true) :
    PathOK c A' x := by
  have hpx := hA.path x hx hox
  have hPold : ∀ y, A.out y = true → A'.P y = A.P y := fun y hy => S.Pold y (S.old_not_new hA D hy)
  have hPx := hPold x hox
  have hout'old : ∀ y ∈ c.v.g.nodes, A.out y = true → A'.out y = true :=
    fun y hy h => (S.out' y hy).mpr (Or.inl h)
  obtain ⟨ext, hext⟩ := S.ordExt
  have hxo : x ∈ A.ord := (hA.ordMem x).mpr ⟨hx, hox⟩
  have hLx : A'.L x = A.L x := S.Lold x hx hox
  refine ⟨hpx.svMem, by rw [hPx]; exact hpx.hd, by rw [hPx]; exact hpx.alt, by rw [hPx]; exact hpx.nodup,
    by rw [hPx]; exact hpx.mem, ?_, ?_, ?_, ?_, ?_, ?_, ?_⟩
  · intro p u hpu
    rw [hPx] at hpu
    exact hout'old p (hpx.mem p (mem_verts_of_mem hpu).1) (hpx.fstOuter p u hpu)
  · intro pre p u rest hdec hu
    rw [hPx] at hdec
    have hpu : (p, u) ∈ A.P x := by rw [hdec]; simp
    have hv' := mem_verts_of_mem hpu
    have hou : A.out u = false := by
      cases hh : A.out u with
      | false => rfl
      | true => rw [hout'old u (hpx.mem u hv'.2) hh] at hu; cases hu
    obtain ⟨y, hy1, hy2⟩ := hpx.inner pre p u rest hdec hou
    have hpn := hpx.mem p hv'.1
    have hop := hpx.fstOuter p u hpu
    have hyo := ((hA.path p hpn hop).labVertex y hy1).2.1
    exact ⟨y, by rw [S.Lold p hpn hop]; exact hy1, by rw [hPold y hyo]; exact hy2⟩
  · rw [hPx]
    exact S.F'_old hv hA D x hx hox x hx hox [] (A.P x) rfl hpx.fiHead
  · intro pre p u rest hdec
    rw [hPx] at hdec
    have hpu : (p, u) ∈ A.P x := by rw [hdec]; simp
    have hv' := mem_verts_of_mem hpu
    have hpn := hpx.mem p hv'.1
    have hun := hpx.mem u hv'.2
    have hop := hpx.fstOuter p u hpu
    obtain ⟨f1, f2⟩ := hpx.fi pre p u rest hdec
    refine ⟨S.F'_old hv hA D x hx hox p hpn hop pre _ hdec f1, ?_⟩
    intro hu'
    rcases (S.out' u hun).mp hu' with hou | hnu
    · exact S.F'_old hv hA D x hx hox u hun hou (pre ++ [(p, u)]) rest (by rw [hdec]; simp) (f2 hou)
    · rw [S.Fnew u hnu, S.fin'_after_new hv hA D x hx hox pre rest p u hdec hnu]
  · intro h; rw [hLx] at h; exact hpx.labStart h
  · intro y h
    rw [hLx] at h
    obtain ⟨h1, h2, ⟨u, h3⟩, h4⟩ := hpx.labVertex y h
    exact ⟨h1, hout'old y h1 h2, ⟨u, by rw [hPx, hPold y h2]; exact h3⟩, tau_lt_mono hext hxo h4⟩
  · intro k s t h
    rw [hLx] at h
    obtain ⟨c', d', hor, hc', hd', hoc, hod, hj, t1, t2, pre, z0, post, e1, e2, e3⟩ := hpx.labEdge k s t h
    exact ⟨c', d', hor, hc', hd', hout'old c' hc' hoc, hout'old d' hd' hod, hj, tau_lt_mono hext hxo t1,
      tau_lt_mono hext hxo t2, pre, z0, post, by rw [hPold c' hoc]; exact e1,
      by rw [hPx, hPold d' hod]; exact e2, fun w hw => tau_lt_mono hext hxo (e3 w hw)⟩

end

end PetgraphModel.C15W2
