import PetgraphModel.Driver.C10
import PetgraphModel.Proofs.C10W4Bounded
import PetgraphModel.Proofs.C10W4Oracle
import PetgraphModel.Proofs.C10W4RefDist
import PetgraphModel.Proofs.C10Astar
import PetgraphModel.Proofs.C10AstarTerm
/-
Run-time checks of the C10 driver (wave 4): each executable Boolean the driver evaluates implies the
hypothesis of the model theorems it stands for.
-/
namespace PetgraphModel.C10P
open PetgraphModel PetgraphModel.MGraph PetgraphModel.Oracle PetgraphModel.C10 PetgraphModel.SP

theorem nonNegB_sound (g : MGraph) (h : nonNegB g = true) : NonNeg g := by
  unfold nonNegB at h
  simp only [List.all_eq_true, decide_eq_true_eq] at h
  intro a b w harc
  exact h (a, b, w) harc

theorem srcOkB_sound (v : View) (s : Nat) (h : srcOkB v s = true) : s ∈ v.g.nodes := by
  unfold srcOkB at h
  simpa using h

/-- `viewOkB` contains: both endpoints of every arc are nodes -/
theorem viewOkB_arcsIn (v : View) (h : viewOkB v = true) : ArcsIn v.g := by
  unfold viewOkB at h
  simp only [Bool.and_eq_true, List.all_eq_true] at h
  obtain ⟨⟨_, hends⟩, _⟩ := h
  intro a b w harc
  have := hends (a, b, w) harc
  simp at this
  exact this.2

theorem oracleFuel_ge (v : View) (k : Nat) : kspFuel v k + 1 ≤ oracleFuel v k := Nat.le_max_right _ _

/-! ### walks of the reversed graph -/

theorem reverse_arc {g : MGraph} {a b : Nat} {w : Int} (h : (a, b, w) ∈ g.arcs) : (b, a, w) ∈ g.reverse.arcs := by
  obtain ⟨e, he, hw, hor⟩ := DistProofs.mem_arcs.mp h
  apply DistProofs.mem_arcs.mpr
  refine ⟨{ e with src := e.tgt, tgt := e.src }, ?_, hw, ?_⟩
  · simp only [reverse]
    exact List.mem_map.mpr ⟨e, he, rfl⟩
  · rcases hor with ⟨h1, h2⟩ | ⟨h0, h1, h2⟩
    · exact Or.inl ⟨h2, h1⟩
    · exact Or.inr ⟨h0, h2, h1⟩

theorem reverse_walk {g : MGraph} {a b : Nat} {c : Int} (h : WalkCost g a b c) : WalkCost g.reverse b a c := by
  induction h with
  | nil => exact WalkCost.nil _
  | snoc _ harc ih =>
    rename_i b' x c1 w
    have := walk_cons (reverse_arc harc) ih
    rw [Int.add_comm] at this
    exact this

theorem reverse_arc_inv {g : MGraph} {a b : Nat} {w : Int} (h : (a, b, w) ∈ g.reverse.arcs) : (b, a, w) ∈ g.arcs := by
  obtain ⟨e', he', hw, hor⟩ := DistProofs.mem_arcs.mp h
  simp only [reverse] at he'
  obtain ⟨e, he, rfl⟩ := List.mem_map.mp he'
  apply DistProofs.mem_arcs.mpr
  refine ⟨e, he, hw, ?_⟩
  rcases hor with ⟨h1, h2⟩ | ⟨h0, h1, h2⟩
  · exact Or.inl ⟨h2, h1⟩
  · exact Or.inr ⟨h0, h2, h1⟩

/-- on a checked view the reference labellings of the REVERSED graph (used by `admissible`) are
certified too: `admissibleB` can fail only for a heuristic that is really inadmissible or negative -/
theorem certDist_reverse_total (v : View) (h : viewOkB v = true) (t : Nat) : ∃ d, certDist v.g.reverse t = some d := by
  have hw : NonNeg v.g := (viewOkB_sound v h).2
  unfold viewOkB at h
  simp only [Bool.and_eq_true, List.all_eq_true] at h
  obtain ⟨⟨_, hends⟩, _⟩ := h
  apply certDist_total
  · intro a b w harc
    exact hw _ _ _ (reverse_arc_inv harc)
  · intro a b w harc
    have := hends (b, a, w) (reverse_arc_inv harc)
    simp at this
    exact this.1

/-- **the admissibility check of the driver**: a heuristic table accepted by `admissibleB` is, as the
function `hFun` the model is run with, admissible and non-negative in the sense of the astar theorems -/
theorem admissibleB_sound (g : MGraph) (hw : NonNeg g) (goals : List Nat) (hl : List (Nat × Int))
    (h : admissibleB g goals hl = true) : Admissible g (fun x => goals.contains x) (hFun hl) := by
  unfold admissibleB at h
  simp only [Bool.and_eq_true, List.all_eq_true, decide_eq_true_eq] at h
  obtain ⟨hnn, hadm⟩ := h
  have h0 : ∀ x, 0 ≤ hFun hl x := by
    intro x
    unfold hFun
    cases hx : hl.lookup x with
    | none => simp
    | some y => simpa using hnn (x, y) (mem_of_lookup hl x y hx)
  refine ⟨h0, ?_⟩
  intro x t c ht hwalk
  have htm : t ∈ goals := by simpa using ht
  unfold admissible at hadm
  simp only [List.all_eq_true] at hadm
  have hat := hadm t htm
  cases hd : certDist g.reverse t with
  | none => rw [hd] at hat; cases hat
  | some d =>
    rw [hd] at hat
    simp only [List.all_eq_true] at hat
    have e := exact_of_check (certDist_ok hd)
    have hrw := reverse_walk hwalk
    cases hlx : labelOf d x with
    | none =>
      exact absurd ((DistProofs.walk_iff_reach g.reverse t x).mp ⟨c, hrw⟩) ((e.none_iff x).mp hlx)
    | some y =>
      have hy := (e.exact x y hlx).2 c hrw
      have := hat (x, y) (mem_of_lookup d x y hlx)
      simp only at this
      unfold hFun
      cases hx : hl.lookup x with
      | none =>
        have := walk_nonneg hw hwalk
        simpa using this
      | some hx' =>
        have hlab : labelOf hl x = some hx' := hx
        rw [hlab] at this
        have : hx' ≤ y := by simpa using this
        simp only [Option.getD_some]
        omega

end PetgraphModel.C10P
