import PetgraphModel.Proofs.C06W2Base
import PetgraphModel.Proofs.C06W2Graph
import PetgraphModel.Proofs.C06W3Stable
/-
C06 wave 3 — a STRONGER statement for views that have no `node_identifiers` / `edge_references` of their own
(`Frozen<'_, G>` over the owned graph type).

`TableConsistent` (Spec/VisitSpec.lean) states the index, count, edge-index and adjacency clauses relative to the
view's own `ids` / `erefs` fields, so for a view without them those clauses are vacuous (audit finding: the old
`C06_frozenOwned` was provable without its hypothesis).  Here (Spec-level definitions, no change of the old ones):

* `TableConsistentS qs t` = `TableConsistent qs t` ∧ the clauses that can be judged from the data every table has —
  the query nodes `qs` (the live nodes of the base graph), `node_count`, `node_bound`, `to_index`, `from_index`,
  the compact flag, the `EdgeIndexable` round trips, `edge_count`, the shape and symmetry of the adjacency rows —
  WITHOUT reference to `ids` / `erefs`;
* `groundedIn inner t` judges `t` with the identifiers and edge references of the graph it is a view OF wherever it
  has none of its own: the clauses that need a ground truth (`edge_count`, `EdgeIndexable` on every edge,
  `is_adjacent`) are then stated against the inner table.
-/
namespace PetgraphModel.Visit
open PetgraphModel

/-! ### Spec-level definitions -/

/-- `to_index` below `node_bound`, injective and inverted by `from_index` — on every query node -/
def indexOkS (qs : List Nat) (t : Table) : Prop :=
  (∀ a ∈ qs, optBelow (t.toIx.lookup a) t.nodeBound) ∧
  (qs.map fun a => t.toIx.lookup a).Nodup ∧
  (∀ a ∈ qs, t.fromIx.lookup a = some a)

/-- compact-indexable: the indices of the query nodes are exactly `0..node_bound` -/
def compactOkS (qs : List Nat) (t : Table) : Prop :=
  t.compact = true → (qs.map fun a => (t.toIx.lookup a).getD t.nodeBound).Perm (List.range t.nodeBound)

/-- `EdgeIndexable` on every queried edge id (the base graph's edge ids): each once, `to_index` below `edge_bound`,
`from_index` its inverse; `edge_count` is the number of queried ids -/
def eixOkS (t : Table) : Prop :=
  whenSome t.eix fun l =>
    (l.map (·.1)).Nodup ∧
    (whenSome t.edgeBound fun eb => ∀ x ∈ l, x.2.1 < eb ∧ x.2.2 = x.1) ∧
    (whenSome t.edgeCount fun n => l.length = n)

/-- the adjacency rows are given for exactly the query nodes, and symmetric for an undirected view -/
def adjOkS (qs : List Nat) (t : Table) : Prop :=
  whenSome t.adj fun r =>
    r.map (·.1) = qs ∧ (t.directed = false → ∀ a ∈ qs, ∀ b ∈ qs, (b ∈ rowOf r a ↔ a ∈ rowOf r b))

/-- the property statement for one view, including the clauses that do not depend on the view having
`node_identifiers` / `edge_references` of its own -/
structure TableConsistentS (qs : List Nat) (t : Table) : Prop where
  base : TableConsistent qs t
  qsNodup : qs.Nodup
  /-- `node_count` (where implemented — not by `NodeFiltered`) is the number of live nodes -/
  count : whenSome t.nodeCount fun n => n = qs.length
  index : indexOkS qs t
  compact : compactOkS qs t
  eix : eixOkS t
  adj : adjOkS qs t

/-- `t` judged with the node identifiers and edge references of `inner` (the graph `t` is a view OF) as ground truth
wherever `t` has none of its own -/
def groundedIn (inner t : Table) : Table :=
  { t with ids := t.ids.orElse fun _ => inner.ids, erefs := t.erefs.orElse fun _ => inner.erefs }

/-! ### `Frozen<'_, G>` over the owned graph type -/

/-- `Frozen` forwards the `&self` traits unchanged: every field it has is the inner graph's -/
theorem frozenOwned_forwards (t : Table) :
    (frozenOwned t).directed = t.directed ∧ (frozenOwned t).nodeCount = t.nodeCount ∧
    (frozenOwned t).nodeBound = t.nodeBound ∧ (frozenOwned t).toIx = t.toIx ∧ (frozenOwned t).fromIx = t.fromIx ∧
    (frozenOwned t).compact = t.compact ∧ (frozenOwned t).edgeCount = t.edgeCount ∧
    (frozenOwned t).edgeBound = t.edgeBound ∧ (frozenOwned t).eix = t.eix ∧ (frozenOwned t).adj = t.adj :=
  ⟨rfl, rfl, rfl, rfl, rfl, rfl, rfl, rfl, rfl, rfl⟩

/-- judged against the INNER table the frozen view satisfies every clause of the property — none vacuously when the
inner graph has identifiers and edge references -/
theorem frozenOwned_grounded {qs : List Nat} {t : Table} (h : TableConsistent qs t) :
    TableConsistent qs (groundedIn t (frozenOwned t)) := by
  refine ⟨h.ids, ?_, h.index, h.compact, h.erefs, h.eix, ?_, ?_, ?_, ?_, ?_, ?_, h.adj⟩
  · intro ids _ r hr; cases hr
  all_goals (intro er _ r hr; cases hr)

/-- … spelled out: with `ids` / `er` the identifiers and edge references of the inner graph -/
theorem frozenOwned_explicit {qs : List Nat} {t : Table} {ids : List Nat} {er : List ERef}
    (h : TableConsistent qs t) (hids : t.ids = some ids) (her : t.erefs = some er) :
    let f := frozenOwned t
    (∀ n, f.nodeCount = some n → ids.length = n) ∧
    (∀ a ∈ ids, optBelow (f.toIx.lookup a) f.nodeBound) ∧
    (ids.map fun a => f.toIx.lookup a).Nodup ∧
    (∀ a ∈ ids, f.fromIx.lookup a = some a) ∧
    (f.compact = true → (ids.map fun a => (f.toIx.lookup a).getD f.nodeBound).Perm (List.range f.nodeBound)) ∧
    (∀ n, f.edgeCount = some n → er.length = n) ∧
    (∀ l eb, f.eix = some l → f.edgeBound = some eb → ∀ e ∈ er, optRound (l.lookup e.id) e.id eb) ∧
    (∀ r, f.adj = some r →
      r.map (·.1) = qs ∧ ∀ a ∈ qs, ∀ b ∈ qs, (b ∈ rowOf r a ↔ expAdj f.directed er a b = true)) := by
  intro f
  obtain ⟨i1, i2, i3⟩ := h.index ids hids
  exact ⟨fun n hn => (h.ids ids hids).2.2 n hn, i1, i2, i3, fun hc => h.compact hc ids hids,
    fun n hn => (h.erefs er her).2.1 n hn, fun l eb hl heb => h.eix er her l hl eb heb,
    fun r hr => h.adj er her r hr⟩

/-- the strengthened predicate is kept by `Frozen` over the owned type (its extra clauses are about fields `Frozen`
forwards), and it is not vacuous there: `C06_consistentS_not_vacuous` (Theorems/C06.lean) -/
theorem frozenOwned_consistentS {qs : List Nat} {t : Table} (h : TableConsistentS qs t) :
    TableConsistentS qs (frozenOwned t) := by
  refine ⟨?_, h.qsNodup, h.count, h.index, h.compact, h.eix, h.adj⟩
  refine ⟨?_, ?_, ?_, ?_, ?_, ?_, ?_, ?_, ?_, ?_, ?_, ?_, ?_⟩
  · intro ids hids; cases hids
  · intro ids hids; cases hids
  · intro ids hids; cases hids
  · intro _ ids hids; cases hids
  all_goals (intro er her; cases her)

/-! ### from `TableConsistent` to `TableConsistentS` for a base table -/

theorem lookup_of_mem_nodup_keys {β : Type} : ∀ (l : List (Nat × β)), (l.map (·.1)).Nodup → ∀ x ∈ l,
    l.lookup x.1 = some x.2
  | [], _, x, h => by simp at h
  | (k, v) :: t, hn, x, h => by
    simp only [List.map_cons, List.nodup_cons] at hn
    rcases List.mem_cons.1 h with rfl | hx
    · simp
    · have hne : x.1 ≠ k := fun e => hn.1 (e ▸ List.mem_map.2 ⟨x, hx, rfl⟩)
      have : (x.1 == k) = false := by simpa using hne
      simp only [List.lookup_cons, this]
      exact lookup_of_mem_nodup_keys t hn.2 x hx

theorem expAdj_und_symm (er : List ERef) (a b : Nat) : expAdj false er a b = expAdj false er b a := by
  unfold expAdj
  congr 1
  funext e
  simp only [Bool.not_false, Bool.true_and]
  rw [Bool.or_comm]

/-- a table that lists its query nodes as `node_identifiers`, has `edge_references`, and whose `EdgeIndexable`
queries are about exactly the listed edges, satisfies the strengthened predicate as soon as it satisfies the old one -/
theorem consistentS_of_consistent {qs : List Nat} {t : Table} {er : List ERef} (h : TableConsistent qs t)
    (hids : t.ids = some qs) (her : t.erefs = some er)
    (heix : ∀ l, t.eix = some l → l.map (·.1) = er.map (·.id)) : TableConsistentS qs t := by
  obtain ⟨i1, i2, i3⟩ := h.index qs hids
  obtain ⟨e1, e2, _⟩ := h.erefs er her
  refine ⟨h, (h.ids qs hids).1, fun n hn => ((h.ids qs hids).2.2 n hn).symm, ⟨i1, i2, i3⟩,
    fun hc => h.compact hc qs hids, ?_, ?_⟩
  · intro l hl
    have hk := heix l hl
    have hnd : (l.map (·.1)).Nodup := hk ▸ e1
    refine ⟨hnd, ?_, ?_⟩
    · intro eb heb x hx
      have hxe : x.1 ∈ er.map (·.id) := hk ▸ List.mem_map.2 ⟨x, hx, rfl⟩
      obtain ⟨e, he, hid⟩ := List.mem_map.1 hxe
      have := h.eix er her l hl eb heb e he
      rw [hid, lookup_of_mem_nodup_keys l hnd x hx] at this
      exact this
    · intro n hn
      have := congrArg List.length hk
      simp only [List.length_map] at this
      rw [this]; exact e2 n hn
  · intro r hr
    obtain ⟨hk, hadj⟩ := h.adj er her r hr
    refine ⟨hk, fun hd a ha b hb => ?_⟩
    rw [hadj a ha b hb, hadj b hb a ha, hd, expAdj_und_symm]

/-- `Graph`: the strengthened predicate in every state satisfying the C01 invariant -/
theorem graphTable_consistentS (s : G.State) (h : GProofs.Inv s) :
    TableConsistentS (List.range s.nodes.length) (graphTable s) :=
  consistentS_of_consistent (er := gERefs s) (graphTable_consistent s h) rfl rfl (by
    intro l hl
    simp only [graphTable, Option.some.injEq] at hl
    subst hl
    rw [gERefs_ids]
    simp [List.map_map, Function.comp_def])

/-- `StableGraph`: the strengthened predicate in every state satisfying the C02 invariant -/
theorem stableTable_consistentS (s : SG.State) (h : SGProofs.Inv s) :
    TableConsistentS (SG.nodeIndices s) (stableTable s) :=
  consistentS_of_consistent (er := SGW3.sERefs s) (SGW3.stableTable_consistent s h) rfl rfl (by
    intro l hl
    simp only [stableTable, Option.some.injEq] at hl
    subst hl
    rw [SGW3.sERefs_ids]
    simp [List.map_map, Function.comp_def])

end PetgraphModel.Visit
