import PetgraphModel.Proofs.C07W2Base
import PetgraphModel.Proofs.C11
/-
C07, wave 2 — `NegCycleReachable` / `NegCycle` (C11) under a change of presentation and under an
injective relabeling; exact-table characterisation used by the C11 corollaries.
-/
namespace PetgraphModel.C07W2
open PetgraphModel PetgraphModel.MGraph PetgraphModel.C11P

theorem negCycleReachable_congr {g1 g2 : MGraph} (h : SameArcs g1 g2) (s : Nat) :
    NegCycleReachable g1 s ↔ NegCycleReachable g2 s := by
  unfold NegCycleReachable
  constructor
  · rintro ⟨u, c0, c, h1, h2, h3⟩
    exact ⟨u, c0, c, (walkCost_congr h).mp h1, (walkCost_congr h).mp h2, h3⟩
  · rintro ⟨u, c0, c, h1, h2, h3⟩
    exact ⟨u, c0, c, (walkCost_congr h).mpr h1, (walkCost_congr h).mpr h2, h3⟩

theorem negCycle_congr {g1 g2 : MGraph} (h : SameArcs g1 g2) : NegCycle g1 ↔ NegCycle g2 := by
  unfold NegCycle
  constructor
  · rintro ⟨u, c, h2, h3⟩; exact ⟨u, c, (walkCost_congr h).mp h2, h3⟩
  · rintro ⟨u, c, h2, h3⟩; exact ⟨u, c, (walkCost_congr h).mpr h2, h3⟩

theorem negCycleReachable_relabel_iff {φ : Nat → Nat} (hφ : Inj φ) (g : MGraph) (s : Nat) :
    NegCycleReachable (relabel φ g) (φ s) ↔ NegCycleReachable g s := by
  unfold NegCycleReachable
  constructor
  · rintro ⟨u', c0, c, h1, h2, h3⟩
    obtain ⟨u, rfl, hu⟩ := walkCost_relabel_inv g hφ h1
    exact ⟨u, c0, c, hu, (walkCost_relabel_iff g hφ).mp h2, h3⟩
  · rintro ⟨u, c0, c, h1, h2, h3⟩
    exact ⟨φ u, c0, c, walkCost_relabel φ g h1, walkCost_relabel φ g h2, h3⟩

/-- the start of a non-empty walk of the relabeled graph is an image -/
theorem walkCost_relabel_start (φ : Nat → Nat) (g : MGraph) {x y : Nat} {c : Int}
    (h : WalkCost (relabel φ g) x y c) : (x = y ∧ c = 0) ∨ ∃ a, x = φ a := by
  induction h with
  | nil => exact Or.inl ⟨rfl, rfl⟩
  | snoc _ harc ih =>
    rcases ih with ⟨rfl, _⟩ | h
    · obtain ⟨a, _, h1, _, _⟩ := (mem_arcs_relabel φ g).mp harc
      exact Or.inr ⟨a, h1⟩
    · exact Or.inr h

theorem negCycle_relabel_iff {φ : Nat → Nat} (hφ : Inj φ) (g : MGraph) :
    NegCycle (relabel φ g) ↔ NegCycle g := by
  unfold NegCycle
  constructor
  · rintro ⟨u', c, h2, h3⟩
    rcases walkCost_relabel_start φ g h2 with ⟨_, h0⟩ | ⟨u, rfl⟩
    · omega
    · exact ⟨u, c, (walkCost_relabel_iff g hφ).mp h2, h3⟩
  · rintro ⟨u, c, h2, h3⟩
    exact ⟨φ u, c, walkCost_relabel φ g h2, h3⟩

/-- a table whose entries are shortest-walk costs and that has an entry for every node with a walk is
*exactly* the table of shortest-walk costs -/
theorem exact_of_sound_total {g : MGraph} {s : Nat} {get : Nat → Option Int}
    (h1 : ∀ x y, get x = some y → IsShortest g s x y)
    (h2 : ∀ x, get x = none ↔ ¬ ∃ c, WalkCost g s x c) :
    ∀ x y, get x = some y ↔ IsShortest g s x y := by
  intro x y
  refine ⟨h1 x y, fun hs => ?_⟩
  cases hx : get x with
  | none => exact absurd ⟨y, hs.1⟩ ((h2 x).mp hx)
  | some y' => rw [isShortest_unique (h1 x y' hx) hs]

end PetgraphModel.C07W2
