import PetgraphModel.Proofs.C08W2Dfsv
/-
C08 (wave 2): every edge of a node that was not pruned is reported, once, in neighbour order:
between `Discover(u)` (not answered `Prune`) and `Finish(u)` the targets of the edge events with
source `u` are exactly `v.succ u`.
-/
namespace PetgraphModel.TravProofs
open PetgraphModel PetgraphModel.Trav

/-- the neighbours the open call for `u` still has to examine -/
def remOf (u : Nat) : List (Nat × List Nat) → List Nat
  | [] => []
  | (a, ws) :: rest => if a = u then ws else remOf u rest

/-- targets of the edge events with source `u`, in order -/
def uEdges (u : Nat) (l : List Ev) : List Nat :=
  l.filterMap fun e => match edgeOf e with
    | some (a, w) => if a = u then some w else none
    | none => none

theorem uEdges_cons (u : Nat) (e : Ev) (l : List Ev) : uEdges u (e :: l) = uEdges u [e] ++ uEdges u l := by
  simp only [uEdges, List.filterMap_cons, List.filterMap_nil]
  split <;> simp

theorem remOf_edge {u a w : Nat} {ws : List Nat} {rest : List (Nat × List Nat)} {e : Ev}
    (he : edgeOf e = some (a, w)) :
    remOf u ((a, w :: ws) :: rest) = uEdges u [e] ++ remOf u ((a, ws) :: rest) := by
  simp only [remOf, uEdges, List.filterMap_cons, List.filterMap_nil, he]
  by_cases hau : a = u <;> simp [hau]

theorem rem_step {v : View} {starts : List Nat} {c : Ctl} {m m' : MS} {L : List Ev} {e : Ev} {u : Nat}
    (inv : Inv v m L) (h : step v starts c m e = some m')
    (hu : u ∈ m.stack.map Prod.fst) (hu' : u ∈ m'.stack.map Prod.fst) :
    remOf u m.stack = uEdges u [e] ++ remOf u m'.stack := by
  cases e with
  | discover n t =>
    obtain ⟨_, hn, _, rfl⟩ := step_discover h
    have hne : n ≠ u := fun hnu => hn (hnu ▸ ((inv.stackOpen u).mp hu).1)
    simp [remOf, uEdges, edgeOf, hne]
  | finish n t =>
    obtain ⟨ws, rest, hst, _, _, rfl⟩ := step_finish h
    have hnd := inv.stackNodup
    rw [hst] at hnd
    simp only [List.map_cons, List.nodup_cons] at hnd
    have hne : n ≠ u := fun hnu => hnd.1 (hnu ▸ hu')
    rw [hst]
    simp [remOf, uEdges, edgeOf, hne]
  | tree a w =>
    obtain ⟨ws, rest, hst, _, _, rfl⟩ := step_tree h
    rw [hst]; exact remOf_edge rfl
  | back a w =>
    obtain ⟨ws, rest, hst, _, _, _, rfl⟩ := step_back h
    rw [hst]; exact remOf_edge rfl
  | cross a w =>
    obtain ⟨ws, rest, hst, _, _, _, rfl⟩ := step_cross h
    rw [hst]; exact remOf_edge rfl

theorem run_snoc {v : View} {starts : List Nat} {script : List Ctl} {m1 m1' : MS} {pre : List Ev} {e : Ev}
    (h1 : run v starts script MS.init 0 pre = some m1)
    (h2 : step v starts (ctlAt script pre.length) m1 e = some m1') :
    run v starts script MS.init 0 (pre ++ [e]) = some m1' := by
  rw [run_append, h1]
  simp [run, h2]

theorem finOf_sub_append {x : Nat} {a b : List Ev} (h : x ∈ finOf a) : x ∈ finOf (a ++ b) := by
  simp only [finOf, List.filterMap_append, List.mem_append] at h ⊢
  exact Or.inl h

theorem discOf_sub_append {x : Nat} {a b : List Ev} (h : x ∈ discOf a) : x ∈ discOf (a ++ b) := by
  simp only [discOf, List.filterMap_append, List.mem_append] at h ⊢
  exact Or.inl h

theorem mem_stack_of {v : View} {m : MS} {L : List Ev} {u : Nat} (inv : Inv v m L)
    (hd : u ∈ discOf L) (hf : u ∉ finOf L) : u ∈ m.stack.map Prod.fst :=
  (inv.stackOpen u).mpr ⟨(mem_rev_iff inv.discEq).mpr hd, fun h => hf ((mem_rev_iff inv.finEq).mp h)⟩

theorem rem_run {v : View} {starts : List Nat} {script : List Ctl} {u : Nat} :
    ∀ (mid pre : List Ev) (m1 m2 : MS), run v starts script MS.init 0 pre = some m1 →
      run v starts script m1 pre.length mid = some m2 → u ∈ discOf pre → u ∉ finOf (pre ++ mid) →
      remOf u m1.stack = uEdges u mid ++ remOf u m2.stack := by
  intro mid
  induction mid with
  | nil =>
    intro pre m1 m2 _ h2 _ _
    have := run_nil_eq h2
    subst this
    simp [uEdges]
  | cons e mid ih =>
    intro pre m1 m2 h1 h2 hd hf
    obtain ⟨m1', hs, hr⟩ := run_cons h2
    have h1' := run_snoc h1 hs
    have hassoc : pre ++ e :: mid = (pre ++ [e]) ++ mid := by simp
    rw [hassoc] at hf
    have hlen : (pre ++ [e]).length = pre.length + 1 := by simp
    have ih' := ih (pre ++ [e]) m1' m2 h1' (by rw [hlen]; exact hr) (discOf_sub_append hd) hf
    have inv1 := inv_of_run h1
    have inv1' := inv_of_run h1'
    have hu : u ∈ m1.stack.map Prod.fst :=
      mem_stack_of inv1 hd (fun h => hf (by rw [List.append_assoc]; exact finOf_sub_append h))
    have hu' : u ∈ m1'.stack.map Prod.fst :=
      mem_stack_of inv1' (discOf_sub_append hd) (fun h => hf (finOf_sub_append h))
    rw [rem_step inv1 hs hu hu', ih', uEdges_cons u e mid, List.append_assoc]

theorem modeAfter_expectFin {c : Ctl} {e : Ev} :
    modeAfter c e = .expectFin ↔ c = .prune ∧ ∃ n t, e = .discover n t := by
  cases e <;> cases c <;> simp [modeAfter, afterDiscover, afterFinish, afterTree, afterEdge]

/-- between `Discover(u)` — not answered `Prune` — and `Finish(u)`, the edge events with source `u`
report exactly the successors of `u`, each once, in neighbour order -/
theorem dfsv_edges_complete {v : View} {script : List Ctl} {fuel : Nat} {starts : List Nat} {s' : VS}
    {r : Res} (h : dfsSearch v script fuel starts {} = (s', r)) {pre mid post : List Ev} {u t t' : Nat}
    (hL : s'.evs.reverse = pre ++ .discover u t :: (mid ++ .finish u t' :: post))
    (hc : ctlAt script pre.length ≠ .prune) : uEdges u mid = v.succ u := by
  have hL2 : s'.evs.reverse = (pre ++ .discover u t :: mid) ++ .finish u t' :: post := by
    rw [hL]; simp
  obtain ⟨m3, m4, m, h3, inv3, hs3, _, _⟩ := dfsv_at h hL2
  have hfin := (dfsv_finish h hL2).2.2
  obtain ⟨ws, rest, hst3, _, hmd3, _⟩ := step_finish hs3
  -- split the run to the state right after `Discover(u)`
  have hsplit : pre ++ .discover u t :: mid = (pre ++ [.discover u t]) ++ mid := by simp
  obtain ⟨m1, m2, h1, hs1, h2⟩ := run_split h3
  obtain ⟨_, hund, _, hm2⟩ := step_discover hs1
  have h12 := run_snoc h1 hs1
  have hlen : (pre ++ [Ev.discover u t]).length = pre.length + 1 := by simp
  have hdu : u ∈ discOf (pre ++ [Ev.discover u t]) := by
    simp [discOf, List.filterMap_append]
  have hrem := rem_run (u := u) mid (pre ++ [.discover u t]) m2 m3 h12 (by rw [hlen]; exact h2) hdu
    (by rw [← hsplit]; exact hfin)
  have hrem2 : remOf u m2.stack = v.succ u := by rw [hm2]; simp [remOf]
  have hrem3 : remOf u m3.stack = ws := by rw [hst3]; simp [remOf]
  rw [hrem2, hrem3] at hrem
  have hws : ws = [] := by
    rcases hmd3 with hmd3 | hmd3
    · exact hmd3.2
    · exfalso
      obtain ⟨pre', e', hpe, hm⟩ := last_step h3 (by rw [hmd3]; simp)
      rw [hmd3] at hm
      obtain ⟨hcp, n, tn, he'⟩ := modeAfter_expectFin.mp hm.symm
      subst he'
      rcases List.eq_nil_or_concat mid with hmid | ⟨mid', e2, hmid⟩
      · subst hmid
        have : pre ++ [Ev.discover u t] = pre' ++ [Ev.discover n tn] := by simpa using hpe
        have hpp := List.append_inj' this rfl
        rw [← hpp.1] at hcp
        exact hc hcp
      · rw [List.concat_eq_append] at hmid
        subst hmid
        have : (pre ++ Ev.discover u t :: mid') ++ [e2] = pre' ++ [Ev.discover n tn] := by
          rw [← hpe]; simp
        have hpp := List.append_inj' this rfl
        have he2 : e2 = Ev.discover n tn := by simpa using hpp.2
        subst he2
        -- the state before this last `Discover(n)` already has `u` discovered, and `n = u`
        have h3' : run v starts script MS.init 0 ((pre ++ Ev.discover u t :: mid') ++ Ev.discover n tn :: []) = some m3 := by
          rw [← h3]; simp
        obtain ⟨m5, m6, h5, hs5, h6⟩ := run_split h3'
        have := run_nil_eq h6
        subst this
        obtain ⟨_, hnd5, _, hm6⟩ := step_discover hs5
        have inv5 := inv_of_run h5
        rw [hm6] at hst3
        simp only [List.cons.injEq, Prod.mk.injEq] at hst3
        have hnu : n = u := hst3.1.1
        subst hnu
        apply hnd5
        rw [inv5.discEq, List.mem_reverse]
        simp [discOf, List.filterMap_append]
  rw [hws, List.append_nil] at hrem
  exact hrem.symm

end PetgraphModel.TravProofs
