import PetgraphModel.Proofs.StableGraphFilterMap
import PetgraphModel.Proofs.StableGraphExtend
import PetgraphModel.Proofs.StableGraphCompact
/-
C02 helper lemmas, part 6: the reference machine `SpecStep` and the refinement of whole histories.
-/
namespace PetgraphModel.SGProofs
open PetgraphModel PetgraphModel.SG PetgraphModel.SGSpec

/-! ### the reference machine and the refinement of whole histories -/

/-- `try_add_edge a b w` answering `r` in reference state `sp`, leading to `sp'` -/
def SpecAddEdge (fin : Nat) (sp : Spec) (a b : Nat) (w : Int) (r : Except GErr Nat) (sp' : Spec) : Prop :=
  match r with
  | .ok e => sp.nodeLive a = true ∧ sp.nodeLive b = true ∧ sp.freshEdge fin e = true ∧ sp' = sp.addEdgeAt e a b w
  | .error err => sp' = sp ∧ (err = .edgeIxLimit → sp.edgeCount = fin) ∧
      (∀ i, err = .nodeMissed i → (i = a ∨ i = b) ∧ sp.nodeLive i = false) ∧ err ≠ .nodeIxLimit

/-- One transition of the reference machine (`StableGraphSpec` of DESIGN §3.1): in reference state `sp` the call `op` may
answer `out` and then leads to `sp'`.  The machine is nondeterministic exactly where the property is: an insertion may
hand out ANY valid index that is not live (and, for the bulk calls, in how the result is laid out beyond what is
documented). -/
def SpecStep (fin : Nat) (sp : Spec) : Op → Out → Spec → Prop
  | .addNode w, .idx (.ok i), sp' => sp.freshNode fin i = true ∧ sp' = sp.addNodeAt i w
  | .addNode _, .idx (.error e), sp' => e = .nodeIxLimit ∧ sp.nodeCount = fin ∧ sp' = sp
  | .addEdge a b w, .idx r, sp' => SpecAddEdge fin sp a b w r sp'
  | .updateEdge a b w, .idx r, sp' =>
    (∃ e x, r = .ok e ∧ sp.edge e = some x ∧ sp.connects x a b = true ∧ sp' = sp.setEdgeWeight e w) ∨
    ((∀ e x, sp.edge e = some x → sp.connects x a b = false) ∧ SpecAddEdge fin sp a b w r sp')
  | .removeNode a, .weight r, sp' => r = sp.node a ∧ sp' = sp.removeNode a
  | .removeEdge e, .weight r, sp' => r = (sp.edge e).map (·.w) ∧ sp' = sp.removeEdge e
  | .setNodeWeight a w, .flag b, sp' => b = sp.nodeLive a ∧ sp' = sp.setNodeWeight a w
  | .setEdgeWeight e w, .flag b, sp' => b = sp.edgeLive e ∧ sp' = sp.setEdgeWeight e w
  | .reverse, .unit, sp' => sp' = sp.reverse
  | .clear, .unit, sp' => sp' = sp.clear
  | .clearEdges, .unit, sp' => sp' = sp.clearEdges
  | .retainNodes rm, .visited vn ve, sp' =>
    ve = [] ∧ vn = (List.range sp.nodeBound).filter (fun i => sp.nodeLive i) ∧ sp' = sp.retainNodes rm
  | .retainEdges rm, .visited vn ve, sp' =>
    vn = [] ∧ ve = (List.range sp.edgeBound).filter (fun i => sp.edgeLive i) ∧ sp' = sp.retainEdges rm
  | .map cn ce, .visited vn ve, sp' => vn = sp.nodeIds ∧ ve = sp.edgeIds ∧ sp' = sp.mapWeights cn ce
  | .clone, .unit, sp' => sp' = sp
  | .filterMap dn de cn ce, .visited vn ve, sp' =>
    vn = sp.nodeIds ∧ ve = sp.filterMapEdgeCalls dn ∧ sp'.equiv (sp.filterMap dn de cn ce)
  | .extendWithEdges l, .unit, sp' => SpecExtend fin sp l sp'
  | .extendWithEdges l, .panic, sp' =>
    -- only when the request exceeds the index type; nothing that existed is lost
    ¬ ((∀ x ∈ l, x.1 < fin ∧ x.2.1 < fin) ∧ sp.edgeCount + l.length ≤ fin) ∧ SpecMono sp sp'
  | .compact, .unit, sp' => sp' = sp.compact
  | _, _, _ => False

/-- a run of the reference machine along a history with the given answers -/
inductive SpecRun (fin : Nat) : Spec → List Op → List Out → Spec → Prop
  | nil (sp : Spec) : SpecRun fin sp [] [] sp
  | cons {sp sp1 sp2 : Spec} {op : Op} {out : Out} {ops : List Op} {outs : List Out} :
      SpecStep fin sp op out sp1 → SpecRun fin sp1 ops outs sp2 → SpecRun fin sp (op :: ops) (out :: outs) sp2

theorem abs_edge_some {s : State} {e : Nat} {x : Edge} {w : Int} (hx : s.edges[e]? = some x) (hw : x.w = some w) :
    (abs s).edge e = some ⟨x.a, x.b, w⟩ := by
  unfold Spec.edge; rw [abs_edges, List.getElem?_map, hx]; simp [absEdge, hw]

theorem abs_edge_rev {s : State} {e : Nat} {y : SEdge} (h : (abs s).edge e = some y) :
    ∃ x, s.edges[e]? = some x ∧ x.w = some y.w ∧ x.a = y.a ∧ x.b = y.b := by
  unfold Spec.edge at h; rw [abs_edges, List.getElem?_map] at h
  cases hx : s.edges[e]? with
  | none => rw [hx] at h; simp at h
  | some x =>
    rw [hx] at h
    simp only [Option.map_some, Option.join_some, absEdge] at h
    cases hw : x.w with
    | none => rw [hw] at h; simp at h
    | some w => rw [hw] at h; simp at h; subst h; exact ⟨x, rfl, by simp [hw], rfl, rfl⟩

theorem addEdge_spec_step {s s' : State} {a b : Nat} {w : Int} {r : Except GErr Nat} (hinv : Inv s)
    (h : tryAddEdge s a b w = .ok (s', r)) : SpecAddEdge s.fin (abs s) a b w r (abs s') := by
  obtain ⟨_, hok, herr⟩ := addEdge_refines hinv h
  cases r with
  | ok e => exact hok e rfl
  | error err =>
    obtain ⟨g1, g2, g3, g4⟩ := herr err rfl
    exact ⟨by rw [g1], g2, g3, g4⟩

/-- every core call refines the reference machine -/
theorem step_refines {s s' : State} {op : Op} {out : Out} (hinv : Inv s)
    (h : step s op = .ok (s', out)) : SpecStep s.fin (abs s) op out (abs s') := by
  cases op with
  | addNode w =>
    simp only [step] at h
    cases h1 : tryAddNode s w with
    | error x => rw [h1] at h; cases h
    | ok p =>
      obtain ⟨s1, r⟩ := p
      rw [h1] at h; simp only [Except.ok.injEq, Prod.mk.injEq] at h
      obtain ⟨rfl, rfl⟩ := h
      cases r with
      | ok i => obtain ⟨g1, g2, _⟩ := addNode_refines hinv h1; exact ⟨g1, g2⟩
      | error e => obtain ⟨g1, g2, g3⟩ := addNode_error hinv h1; exact ⟨g2, g3, by rw [g1]⟩
  | addEdge a b w =>
    simp only [step] at h
    cases h1 : tryAddEdge s a b w with
    | error x => rw [h1] at h; cases h
    | ok p =>
      obtain ⟨s1, r⟩ := p
      rw [h1] at h; simp only [Except.ok.injEq, Prod.mk.injEq] at h
      obtain ⟨rfl, rfl⟩ := h
      exact addEdge_spec_step hinv h1
  | updateEdge a b w =>
    simp only [step] at h
    cases h1 : tryUpdateEdge s a b w with
    | error x => rw [h1] at h; cases h
    | ok p =>
      obtain ⟨s1, r⟩ := p
      rw [h1] at h; simp only [Except.ok.injEq, Prod.mk.injEq] at h
      obtain ⟨rfl, rfl⟩ := h
      obtain ⟨_, hcase⟩ := updateEdge_refines hinv h1
      rcases hcase with ⟨e, x, rfl, hx, hxl, hconn, habs⟩ | ⟨hno, hadd⟩
      · left
        obtain ⟨w0, hw0⟩ := Option.isSome_iff_exists.1 hxl
        exact ⟨e, _, rfl, abs_edge_some hx hw0, (connects_abs s x w0 a b).2 hconn, habs⟩
      · right
        refine ⟨fun e y hy => ?_, addEdge_spec_step hinv hadd⟩
        obtain ⟨x, hx, hxw, hxa, hxb⟩ := abs_edge_rev hy
        have := hno e x hx (by rw [hxw]; rfl)
        cases hc : (abs s).connects y a b with
        | false => rfl
        | true =>
          exfalso; apply this
          have hy' : y = ⟨x.a, x.b, y.w⟩ := by cases y; simp_all
          rw [hy'] at hc
          exact (connects_abs s x y.w a b).1 hc
  | removeNode a =>
    simp only [step] at h
    cases h1 : removeNode s a with
    | error x => rw [h1] at h; cases h
    | ok p =>
      obtain ⟨s1, r⟩ := p
      rw [h1] at h; simp only [Except.ok.injEq, Prod.mk.injEq] at h
      obtain ⟨rfl, rfl⟩ := h
      obtain ⟨_, g1, g2⟩ := removeNode_refines hinv h1
      exact ⟨g1, g2⟩
  | removeEdge e =>
    simp only [step] at h
    cases h1 : removeEdge s e with
    | error x => rw [h1] at h; cases h
    | ok p =>
      obtain ⟨s1, r⟩ := p
      rw [h1] at h; simp only [Except.ok.injEq, Prod.mk.injEq] at h
      obtain ⟨rfl, rfl⟩ := h
      obtain ⟨_, g1, g2⟩ := removeEdge_refines hinv h1
      exact ⟨g1, g2⟩
  | setNodeWeight a w =>
    simp only [step, Except.ok.injEq, Prod.mk.injEq] at h
    obtain ⟨rfl, rfl⟩ := h
    exact ⟨(setNodeWeight_refines s a w).2, (setNodeWeight_refines s a w).1⟩
  | setEdgeWeight e w =>
    simp only [step, Except.ok.injEq, Prod.mk.injEq] at h
    obtain ⟨rfl, rfl⟩ := h
    exact ⟨(setEdgeWeight_refines s e w).2, (setEdgeWeight_refines s e w).1⟩
  | reverse =>
    simp only [step, Except.ok.injEq, Prod.mk.injEq] at h
    obtain ⟨rfl, rfl⟩ := h
    exact reverse_refines s
  | clear =>
    simp only [step, Except.ok.injEq, Prod.mk.injEq] at h
    obtain ⟨rfl, rfl⟩ := h
    exact clear_refines s
  | clearEdges =>
    simp only [step, Except.ok.injEq, Prod.mk.injEq] at h
    obtain ⟨rfl, rfl⟩ := h
    exact clearEdges_refines s
  | retainNodes rm =>
    simp only [step] at h
    cases h1 : retainNodes s rm with
    | error x => rw [h1] at h; cases h
    | ok p =>
      obtain ⟨s1, vis⟩ := p
      rw [h1] at h; simp only [Except.ok.injEq, Prod.mk.injEq] at h
      obtain ⟨rfl, rfl⟩ := h
      obtain ⟨g1, g2⟩ := retainNodes_refines hinv h1
      exact ⟨rfl, g2, g1⟩
  | retainEdges rm =>
    simp only [step] at h
    cases h1 : retainEdges s rm with
    | error x => rw [h1] at h; cases h
    | ok p =>
      obtain ⟨s1, vis⟩ := p
      rw [h1] at h; simp only [Except.ok.injEq, Prod.mk.injEq] at h
      obtain ⟨rfl, rfl⟩ := h
      obtain ⟨g1, g2⟩ := retainEdges_refines hinv h1
      exact ⟨rfl, g2, g1⟩
  | map cn ce =>
    simp only [step, Except.ok.injEq, Prod.mk.injEq] at h
    obtain ⟨rfl, rfl⟩ := h
    obtain ⟨g1, g2, g3⟩ := mapGraph_refines s cn ce
    exact ⟨g2, g3, g1⟩
  | filterMap dn de cn ce =>
    simp only [step] at h
    cases h1 : filterMap s dn de cn ce with
    | error x => rw [h1] at h; cases h
    | ok p =>
      obtain ⟨s1, vn, ve⟩ := p
      rw [h1] at h; simp only [Except.ok.injEq, Prod.mk.injEq] at h
      obtain ⟨rfl, rfl⟩ := h
      obtain ⟨_, g1, g2, g3⟩ := filterMap_refines hinv h1
      exact ⟨g2, g3, g1⟩
  | extendWithEdges l =>
    simp only [step] at h
    cases h1 : extendWithEdges s l with
    | error x => rw [h1] at h; cases h
    | ok p =>
      obtain ⟨s1, q⟩ := p
      rw [h1] at h
      cases q with
      | false =>
        simp only [Except.ok.injEq, Prod.mk.injEq] at h
        obtain ⟨rfl, rfl⟩ := h
        exact (extendWithEdges_refines l hinv h1).1
      | true =>
        simp only [Except.ok.injEq, Prod.mk.injEq] at h
        obtain ⟨rfl, rfl⟩ := h
        refine ⟨?_, extendWithEdges_mono l hinv h1⟩
        rw [← (counts_abs hinv).2]
        exact extendWithEdges_panic_legit hinv h1
  | compact =>
    simp only [step, compact] at h
    cases h1 : toGraph s with
    | error x => rw [h1] at h; cases h
    | ok g =>
      rw [h1] at h
      simp only [Except.ok.injEq, Prod.mk.injEq] at h
      obtain ⟨rfl, rfl⟩ := h
      exact (toGraph_refines hinv h1).1
  | clone =>
    simp only [step, Except.ok.injEq, Prod.mk.injEq] at h
    obtain ⟨rfl, rfl⟩ := h
    rfl


theorem removeNode_fin {s s' : State} {a : Nat} {r : Option Int} (hinv : Inv s) (h : removeNode s a = .ok (s', r)) :
    s'.fin = s.fin := by
  cases hw : nodeWeight s a with
  | none => rw [removeNode_absent hw] at h; cases h; rfl
  | some w =>
    unfold nodeWeight at hw
    cases hn : s.nodes[a]? with
    | none => rw [hn] at hw; cases hw
    | some n =>
      rw [hn] at hw
      obtain ⟨s1, hrun, _, hok⟩ := removeNode_spec hinv hn hw
      rw [hrun] at h; cases h
      exact hok.fin

theorem removeEdge_fin {s s' : State} {e : Nat} {r : Option Int} (hinv : Inv s) (h : removeEdge s e = .ok (s', r)) :
    s'.fin = s.fin := by
  cases hw : edgeWeight s e with
  | none => rw [removeEdge_absent hw] at h; cases h; rfl
  | some w =>
    unfold edgeWeight at hw
    cases hx : s.edges[e]? with
    | none => rw [hx] at hw; cases hw
    | some x =>
      rw [hx] at hw
      obtain ⟨s1, hrun, _, hrf⟩ := removeEdge_spec (d := none) (fn := s.freeNode) hinv hx hw
      rw [hrun] at h; cases h
      have := congrArg State.fin hrf.rest; simpa using this

theorem retainNodesLoop_fin (rm : List Nat) : ∀ (is : List Nat) {s s' : State} {vis : List Nat}, Inv s →
    retainNodesLoop rm is s = .ok (s', vis) → s'.fin = s.fin := by
  intro is
  induction is with
  | nil => intro s s' vis _ h; simp [retainNodesLoop] at h; rw [h.1]
  | cons i is ih =>
    intro s s' vis hinv h
    simp only [retainNodesLoop] at h
    split at h
    · split at h
      · cases hrm : removeNode s (mkIx s i) with
        | error x => rw [hrm] at h; cases h
        | ok p =>
          obtain ⟨s1, r1⟩ := p
          rw [hrm] at h
          simp only at h
          obtain ⟨hinv1, _⟩ := removeNode_refines hinv hrm
          cases hrest : retainNodesLoop rm is s1 with
          | error x => rw [hrest] at h; cases h
          | ok q =>
            obtain ⟨s2, vis2⟩ := q
            rw [hrest] at h
            simp only [Except.ok.injEq, Prod.mk.injEq] at h
            rw [← h.1, ih hinv1 hrest, removeNode_fin hinv hrm]
      · cases hrest : retainNodesLoop rm is s with
        | error x => rw [hrest] at h; cases h
        | ok q =>
          obtain ⟨s2, vis2⟩ := q
          rw [hrest] at h
          simp only [Except.ok.injEq, Prod.mk.injEq] at h
          rw [← h.1, ih hinv hrest]
    · exact ih hinv h

theorem retainEdgesLoop_fin (rm : List Nat) : ∀ (is : List Nat) {s s' : State} {vis : List Nat}, Inv s →
    retainEdgesLoop rm is s = .ok (s', vis) → s'.fin = s.fin := by
  intro is
  induction is with
  | nil => intro s s' vis _ h; simp [retainEdgesLoop] at h; rw [h.1]
  | cons i is ih =>
    intro s s' vis hinv h
    simp only [retainEdgesLoop] at h
    split at h
    · split at h
      · cases hrm : removeEdge s (mkIx s i) with
        | error x => rw [hrm] at h; cases h
        | ok p =>
          obtain ⟨s1, r1⟩ := p
          rw [hrm] at h
          simp only at h
          obtain ⟨hinv1, _⟩ := removeEdge_refines hinv hrm
          cases hrest : retainEdgesLoop rm is s1 with
          | error x => rw [hrest] at h; cases h
          | ok q =>
            obtain ⟨s2, vis2⟩ := q
            rw [hrest] at h
            simp only [Except.ok.injEq, Prod.mk.injEq] at h
            rw [← h.1, ih hinv1 hrest, removeEdge_fin hinv hrm]
      · cases hrest : retainEdgesLoop rm is s with
        | error x => rw [hrest] at h; cases h
        | ok q =>
          obtain ⟨s2, vis2⟩ := q
          rw [hrest] at h
          simp only [Except.ok.injEq, Prod.mk.injEq] at h
          rw [← h.1, ih hinv hrest]
    · exact ih hinv h

theorem setNodeWeight_fin (s : State) (a : Nat) (w : Int) : (setNodeWeight s a w).1.fin = s.fin := by
  unfold setNodeWeight
  split
  · split <;> rfl
  · rfl

theorem setEdgeWeight_fin (s : State) (a : Nat) (w : Int) : (setEdgeWeight s a w).1.fin = s.fin := by
  unfold setEdgeWeight
  split
  · split <;> rfl
  · rfl

/-- the index type does not change along a history of core calls -/
theorem step_fin {s s' : State} {op : Op} {out : Out} (hinv : Inv s)
    (h : step s op = .ok (s', out)) : s'.fin = s.fin := by
  cases op with
  | addNode w =>
    simp only [step] at h
    rcases tryAddNode_spec (d := none) (fe := s.freeEdge) w hinv with ⟨s1, i1, h1, _, _, _, _, _, hf, _⟩ | ⟨h1, _⟩
    · rw [h1] at h; simp only [Except.ok.injEq, Prod.mk.injEq] at h; rw [← h.1]; exact hf
    · rw [h1] at h; simp only [Except.ok.injEq, Prod.mk.injEq] at h; rw [← h.1]
  | addEdge a b w =>
    simp only [step] at h
    obtain ⟨s1, r1, h1, _, herr, hok⟩ := tryAddEdge_inv hinv a b w
    rw [h1] at h; simp only [Except.ok.injEq, Prod.mk.injEq] at h
    rw [← h.1]
    cases r1 with
    | ok e => have := congrArg State.fin (hok e rfl).rest; simpa using this
    | error err => rw [(herr err rfl).1]
  | updateEdge a b w =>
    simp only [step] at h
    cases h1 : tryUpdateEdge s a b w with
    | error x => rw [h1] at h; cases h
    | ok p =>
      obtain ⟨s1, r⟩ := p
      rw [h1] at h; simp only [Except.ok.injEq, Prod.mk.injEq] at h
      rw [← h.1]
      obtain ⟨r0, hr0, hsome, _⟩ := findEdge_spec hinv a b
      cases r0 with
      | none =>
        have h2 : tryAddEdge s a b w = .ok (s1, r) := by simpa [tryUpdateEdge, hr0] using h1
        obtain ⟨s2, r2, h3, _, herr, hok⟩ := tryAddEdge_inv hinv a b w
        rw [h2] at h3; cases h3
        cases r with
        | ok e => have := congrArg State.fin (hok e rfl).rest; simpa using this
        | error err => rw [(herr err rfl).1]
      | some ix =>
        obtain ⟨x, hx, hxl, _⟩ := hsome ix rfl
        have hn : x.w.isNone = false := by cases hw : x.w <;> simp_all
        have : tryUpdateEdge s a b w = .ok ((setEdgeWeight s ix w).1, .ok ix) := by
          simp [tryUpdateEdge, hr0, hx, hn, setEdgeWeight, hxl]
        rw [this] at h1; cases h1
        exact setEdgeWeight_fin s ix w
  | removeNode a =>
    simp only [step] at h
    cases h1 : removeNode s a with
    | error x => rw [h1] at h; cases h
    | ok p =>
      obtain ⟨s1, r⟩ := p
      rw [h1] at h; simp only [Except.ok.injEq, Prod.mk.injEq] at h
      rw [← h.1]; exact removeNode_fin hinv h1
  | removeEdge e =>
    simp only [step] at h
    cases h1 : removeEdge s e with
    | error x => rw [h1] at h; cases h
    | ok p =>
      obtain ⟨s1, r⟩ := p
      rw [h1] at h; simp only [Except.ok.injEq, Prod.mk.injEq] at h
      rw [← h.1]; exact removeEdge_fin hinv h1
  | setNodeWeight a w =>
    simp only [step, Except.ok.injEq, Prod.mk.injEq] at h
    rw [← h.1]; exact setNodeWeight_fin s a w
  | setEdgeWeight e w =>
    simp only [step, Except.ok.injEq, Prod.mk.injEq] at h
    rw [← h.1]; exact setEdgeWeight_fin s e w
  | reverse => simp only [step, Except.ok.injEq, Prod.mk.injEq] at h; rw [← h.1]; rfl
  | clear => simp only [step, Except.ok.injEq, Prod.mk.injEq] at h; rw [← h.1]; rfl
  | clearEdges => simp only [step, Except.ok.injEq, Prod.mk.injEq] at h; rw [← h.1]; rfl
  | retainNodes rm =>
    simp only [step, retainNodes] at h
    cases hloop : retainNodesLoop rm (List.range (nodeBound s)) s with
    | error x => rw [hloop] at h; cases h
    | ok q =>
      obtain ⟨s1, vis1⟩ := q
      rw [hloop] at h
      simp only at h
      cases hchk : checkFreeLists s1 with
      | error x => rw [hchk] at h; cases h
      | ok u =>
        rw [hchk] at h
        simp only [Except.ok.injEq, Prod.mk.injEq] at h
        rw [← h.1]; exact retainNodesLoop_fin rm _ hinv hloop
  | retainEdges rm =>
    simp only [step, retainEdges] at h
    cases hloop : retainEdgesLoop rm (List.range (edgeBound s)) s with
    | error x => rw [hloop] at h; cases h
    | ok q =>
      obtain ⟨s1, vis1⟩ := q
      rw [hloop] at h
      simp only at h
      cases hchk : checkFreeLists s1 with
      | error x => rw [hchk] at h; cases h
      | ok u =>
        rw [hchk] at h
        simp only [Except.ok.injEq, Prod.mk.injEq] at h
        rw [← h.1]; exact retainEdgesLoop_fin rm _ hinv hloop
  | map cn ce => simp only [step, Except.ok.injEq, Prod.mk.injEq] at h; rw [← h.1]; rfl
  | filterMap dn de cn ce =>
    simp only [step] at h
    obtain ⟨s1, vn1, ve1, r1, hrun, _, _, _, _, _, _, _, hfin⟩ := filterMap_content_fin hinv dn de cn ce
    rw [hrun] at h; simp only [Except.ok.injEq, Prod.mk.injEq] at h
    rw [← h.1]; exact hfin
  | extendWithEdges l =>
    simp only [step] at h
    cases h1 : extendWithEdges s l with
    | error x => rw [h1] at h; cases h
    | ok p =>
      obtain ⟨s1, q⟩ := p
      rw [h1] at h
      have := extendWithEdges_fin l hinv h1
      cases q <;> (simp only [Except.ok.injEq, Prod.mk.injEq] at h; rw [← h.1]; exact this)
  | compact =>
    simp only [step, compact] at h
    cases h1 : toGraph s with
    | error x => rw [h1] at h; cases h
    | ok g =>
      rw [h1] at h
      simp only [Except.ok.injEq, Prod.mk.injEq] at h
      rw [← h.1]; exact (toGraph_refines hinv h1).2.2
  | clone => simp only [step, Except.ok.injEq, Prod.mk.injEq] at h; rw [← h.1]

/-- **refinement of whole histories**: along any history of core calls the model's answers and states are a run of the
reference machine -/
theorem run_refines : ∀ (ops : List Op) {s s' : State} {outs : List Out}, Inv s →
    run s ops = .ok (s', outs) → SpecRun s.fin (abs s) ops outs (abs s') ∧ Inv s' := by
  intro ops
  induction ops with
  | nil =>
    intro s s' outs hinv h
    simp only [run, Except.ok.injEq, Prod.mk.injEq] at h
    obtain ⟨rfl, rfl⟩ := h
    exact ⟨.nil _, hinv⟩
  | cons op ops ih =>
    intro s s' outs hinv h
    simp only [run] at h
    cases h1 : step s op with
    | error x => rw [h1] at h; cases h
    | ok p =>
      obtain ⟨s1, o⟩ := p
      rw [h1] at h
      simp only at h
      cases h2 : run s1 ops with
      | error x => rw [h2] at h; cases h
      | ok q =>
        obtain ⟨s2, os⟩ := q
        rw [h2] at h
        simp only [Except.ok.injEq, Prod.mk.injEq] at h
        obtain ⟨rfl, rfl⟩ := h
        obtain ⟨s1', o', h1', hinv1⟩ := step_inv_all hinv op
        rw [h1] at h1'; cases h1'
        have hfin := step_fin hinv h1
        obtain ⟨hrun, hinv2⟩ := ih hinv1 h2
        rw [hfin] at hrun
        exact ⟨.cons (step_refines hinv h1) hrun, hinv2⟩

end PetgraphModel.SGProofs
