import PetgraphModel.Proofs.SerdeRound
/-
Helper lemmas for C17 (part 6): the wire value serialization produces, the four round trips, and the observables
that a round trip preserves.
-/
namespace PetgraphModel.SerdeProofs
open PetgraphModel.Serde

def nlive (n : NodeSlot) : Bool := n.w.isSome
def elive (e : EdgeSlot) : Bool := e.w.isSome

/-! ### what `ser` produces -/

theorem enum_holes (ns : List NodeSlot) : ∀ j,
    (enumFrom j ns).filterMap (fun (x : Nat × NodeSlot) => if x.2.w.isNone then some x.1 else none)
      = holesW j (ns.map (fun (n : NodeSlot) => n.w)) := by
  induction ns with
  | nil => intro j; rfl
  | cons n ns ih =>
    intro j
    cases hw : n.w with
    | none => simp only [enumFrom, List.filterMap_cons, hw, Option.isNone_none, if_true, List.map_cons, holesW, ih]
    | some x => simp only [enumFrom, List.filterMap_cons, hw, Option.isNone_some, Bool.false_eq_true, if_false, List.map_cons, holesW, ih]

theorem filterMap_w (ns : List NodeSlot) :
    ns.filterMap (fun (n : NodeSlot) => n.w) = somesW (ns.map (fun (n : NodeSlot) => n.w)) := by
  unfold somesW
  rw [List.filterMap_map]
  rfl

theorem somesW_length (ns : List NodeSlot) :
    (somesW (ns.map (fun (n : NodeSlot) => n.w))).length = (ns.filter nlive).length := by
  induction ns with
  | nil => rfl
  | cons n ns ih =>
    cases hw : n.w with
    | none => simp [somesW, List.filter_cons, nlive, hw] at ih ⊢; exact ih
    | some x => simp [somesW, List.filter_cons, nlive, hw] at ih ⊢; exact ih

/-- the stream `Serialize for StableGraph` writes, given only that `node_count` is right -/
theorem serStable_eq (s : Stable) (hc : s.nodeCount = (s.g.nodes.filter nlive).length) :
    serStable s = some
      { nodes := somesW ((s.g.nodes.take s.nodeBound).map (fun (n : NodeSlot) => n.w)),
        holes := holesW 0 ((s.g.nodes.take s.nodeBound).map (fun (n : NodeSlot) => n.w)),
        prop := some s.g.directed,
        edges := (s.g.edges.take s.edgeBound).map liveSkel } := by
  unfold serStable
  have h1 : ((s.g.nodes.take s.nodeBound).filterMap (fun (n : NodeSlot) => n.w)).length = s.nodeCount := by
    rw [filterMap_w, somesW_length, hc]
    unfold Stable.nodeBound
    have := filter_take_bound nlive s.g.nodes
    unfold nlive at this ⊢
    rw [this]
  have h2 : ((enumFrom 0 (s.g.nodes.take s.nodeBound)).filterMap
      (fun (x : Nat × NodeSlot) => if x.2.w.isNone then some x.1 else none)).length
      = (s.g.nodes.take s.nodeBound).length - s.nodeCount := by
    rw [enum_holes]
    have := somes_holes_length ((s.g.nodes.take s.nodeBound).map (fun (n : NodeSlot) => n.w)) 0
    rw [← filterMap_w, h1] at this
    simp only [List.length_map] at this
    omega
  simp only []
  rw [if_neg (by
    intro h
    rcases h with h | h
    · exact h h1
    · exact h h2)]
  rw [filterMap_w, enum_holes]
  rfl

theorem holesW_all_some (ws : List (Option Int)) (h : ∀ o, o ∈ ws → o.isSome = true) : ∀ j, holesW j ws = [] := by
  induction ws with
  | nil => intro j; rfl
  | cons o ws ih =>
    intro j
    cases o with
    | none => have := h none (List.mem_cons_self ..); simp at this
    | some x => simp only [holesW]; exact ih (fun y hy => h y (List.mem_cons_of_mem _ hy)) _

theorem map_eq_map_some_filterMap {α β} (f : α → Option β) (l : List α) (h : ∀ x, x ∈ l → (f x).isSome = true) :
    l.map f = (l.filterMap f).map some := by
  induction l with
  | nil => rfl
  | cons x xs ih =>
    have hx := h x (List.mem_cons_self ..)
    cases hf : f x with
    | none => simp [hf] at hx
    | some y =>
      simp only [List.map_cons, List.filterMap_cons, hf]
      rw [ih (fun z hz => h z (List.mem_cons_of_mem _ hz))]

/-! ### observables of a graph in terms of what serialization keeps -/

theorem enum_filterMap_map {α β γ} (f : α → β) (G : Nat × β → Option γ) (l : List α) :
    ∀ j, (enumFrom j (l.map f)).filterMap G = (enumFrom j l).filterMap (fun x => G (x.1, f x.2)) := by
  induction l with
  | nil => intro j; rfl
  | cons x xs ih => intro j; simp only [List.map_cons, enumFrom, List.filterMap_cons, ih]

theorem liveNodes_eq (g : Raw) :
    liveNodes g = (enumFrom 0 (g.nodes.map (fun (n : NodeSlot) => n.w))).filterMap
      (fun (x : Nat × Option Int) => x.2.map fun w => (x.1, w)) := by
  rw [enum_filterMap_map]
  rfl

theorem liveEdges_eq (g : Raw) :
    liveEdges g = (enumFrom 0 (g.edges.map liveSkel)).filterMap
      (fun (x : Nat × Option (Nat × Nat × Int)) => x.2.map fun t => (x.1, t.1, t.2.1, t.2.2)) := by
  rw [enum_filterMap_map]
  unfold liveEdges
  congr 1
  funext x
  obtain ⟨i, e⟩ := x
  cases hw : e.w <;> simp [liveSkel, hw]

/-- the observables that do not depend on list order: live nodes with weights, live edges with endpoints and
    weights, the two bounds, the two counts of live slots -/
structure SameObs (g g' : Raw) : Prop where
  nodes : liveNodes g' = liveNodes g
  edges : liveEdges g' = liveEdges g
  nodeBound : boundOf nlive g'.nodes = boundOf nlive g.nodes
  edgeBound : boundOf elive g'.edges = boundOf elive g.edges
  nodeCount : (g'.nodes.filter nlive).length = (g.nodes.filter nlive).length
  edgeCount : (g'.edges.filter elive).length = (g.edges.filter elive).length

theorem filter_length_map {α β} (f : α → β) (pa : α → Bool) (pb : β → Bool) (h : ∀ x, pb (f x) = pa x) (l : List α) :
    (l.filter pa).length = ((l.map f).filter pb).length := by
  induction l with
  | nil => rfl
  | cons x xs ih =>
    simp only [List.map_cons, List.filter_cons, h]
    split <;> simp [ih]

theorem sameObs_of_skel (g g' : Raw)
    (hn : g'.nodes.map (fun (n : NodeSlot) => n.w) = (g.nodes.take (boundOf nlive g.nodes)).map (fun (n : NodeSlot) => n.w))
    (he : g'.edges.map liveSkel = (g.edges.take (boundOf elive g.edges)).map liveSkel) : SameObs g g' := by
  have hnl : ∀ n : NodeSlot, Option.isSome ((fun (n : NodeSlot) => n.w) n) = nlive n := fun _ => rfl
  have hel : ∀ e : EdgeSlot, Option.isSome (liveSkel e) = elive e := by
    intro e; cases hw : e.w <;> simp [liveSkel, elive, hw]
  constructor
  · rw [liveNodes_eq, hn, liveNodes_eq, enum_filterMap_map, enum_filterMap_map]
    exact filterMap_take_bound nlive (fun (x : Nat × NodeSlot) => x.2.w.map fun w => (x.1, w))
      (by intro i x hx; cases hw : x.w <;> simp_all [nlive]) g.nodes 0
  · rw [liveEdges_eq, he, liveEdges_eq, enum_filterMap_map, enum_filterMap_map]
    exact filterMap_take_bound elive
      (fun (x : Nat × EdgeSlot) => (liveSkel x.2).map fun t => (x.1, t.1, t.2.1, t.2.2))
      (by intro i x hx; cases hw : x.w <;> simp_all [elive, liveSkel]) g.edges 0
  · rw [← boundOf_map (fun (n : NodeSlot) => n.w) nlive Option.isSome hnl g'.nodes, hn,
        boundOf_map (fun (n : NodeSlot) => n.w) nlive Option.isSome hnl, boundOf_take_bound]
  · rw [← boundOf_map liveSkel elive Option.isSome hel g'.edges, he,
        boundOf_map liveSkel elive Option.isSome hel, boundOf_take_bound]
  · rw [filter_length_map (fun (n : NodeSlot) => n.w) nlive Option.isSome hnl g'.nodes, hn,
        ← filter_length_map (fun (n : NodeSlot) => n.w) nlive Option.isSome hnl, filter_take_bound]
  · rw [filter_length_map liveSkel elive Option.isSome hel g'.edges, he,
        ← filter_length_map liveSkel elive Option.isSome hel, filter_take_bound]


/-! ### the round trips -/

theorem boundOf_all_live {α} (live : α → Bool) (l : List α) (h : ∀ x, x ∈ l → live x = true) :
    boundOf live l = l.length := by
  induction l with
  | nil => rfl
  | cons x xs ih =>
    have ihx := ih (fun y hy => h y (List.mem_cons_of_mem _ hy))
    simp only [boundOf, ihx, List.length_cons, h x (List.mem_cons_self ..)]
    split
    · rfl
    · rename_i h0
      have : xs.length = 0 := by omega
      simp [this]

/-- endpoints of a serialized live edge are present positions of the serialized node sequence -/
theorem endpoints_in_ws (g : Raw) (hI : RawInv g) (k : Nat) (a b : Nat) (x : Int)
    (h : some (a, b, x) ∈ (g.edges.take k).map liveSkel) :
    (∃ wa, ((g.nodes.take (boundOf nlive g.nodes)).map (fun (n : NodeSlot) => n.w))[a]? = some (some wa)) ∧
    (∃ wb, ((g.nodes.take (boundOf nlive g.nodes)).map (fun (n : NodeSlot) => n.w))[b]? = some (some wb)) := by
  obtain ⟨e, he, hs⟩ := List.mem_map.1 h
  have he' : e ∈ g.edges := List.mem_of_mem_take he
  obtain ⟨i, hi⟩ := List.getElem?_of_mem he'
  cases hw : e.w with
  | none => simp [liveSkel, hw] at hs
  | some w =>
    simp only [liveSkel, hw, Option.map_some, Option.some.injEq, Prod.mk.injEq] at hs
    obtain ⟨rfl, rfl, rfl⟩ := hs
    obtain ⟨⟨an, ha1, ha2⟩, ⟨bn, hb1, hb2⟩⟩ := hI.endpoints i e hi (by simp [hw])
    have key : ∀ (j : Nat) (nd : NodeSlot), g.nodes[j]? = some nd → nd.w.isSome = true →
        ∃ wj, ((g.nodes.take (boundOf nlive g.nodes)).map (fun (n : NodeSlot) => n.w))[j]? = some (some wj) := by
      intro j nd hj hl
      have hlt := lt_boundOf nlive g.nodes j nd hj hl
      rw [List.getElem?_map, List.getElem?_take_of_lt hlt, hj]
      cases hw' : nd.w with
      | none => simp [hw'] at hl
      | some wj => exact ⟨wj, by simp [hw']⟩
    exact ⟨key _ an ha1 ha2, key _ bn hb1 hb2⟩

/-- `StableGraph` → stream → `StableGraph` -/
theorem roundtrip_stable_stable (s : Stable) (hI : StableInv s) (order : List Field) (ho : FullOrder order)
    (hcN : s.nodeBound < s.g.END) (hcE : s.edgeBound < s.g.END) :
    ∃ w s', serStable s = some w ∧ deStable s.g.END s.g.directed order w = .ok s' ∧
      StableDe s.g.END s.g.directed s' ∧ SameObs s.g s'.g ∧
      s'.nodeCount = s.nodeCount ∧ s'.edgeCount = s.edgeCount := by
  have hser := serStable_eq s hI.nodeCount
  obtain ⟨s', hde, hn, he⟩ := deStable_complete s.g.END s.g.directed order
    ((s.g.nodes.take s.nodeBound).map (fun (n : NodeSlot) => n.w)) ((s.g.edges.take s.edgeBound).map liveSkel) ho
    (by
      rw [List.length_map, List.length_take]
      exact Nat.lt_of_le_of_lt (Nat.min_le_left _ _) hcN)
    (by
      rw [List.length_map, List.length_take]
      exact Nat.lt_of_le_of_lt (Nat.min_le_left _ _) hcE)
    (fun a b x hx => endpoints_in_ws s.g hI.toRawInv _ a b x hx)
  have D := deStable_de hde
  have O := sameObs_of_skel s.g s'.g hn he
  refine ⟨_, s', hser, hde, D, O, ?_, ?_⟩
  · rw [D.nodeCount, hI.nodeCount]; exact O.nodeCount
  · rw [D.edgeCount, hI.edgeCount]; exact O.edgeCount

theorem serGraph_eq (g : Raw) (hI : GraphInv g) :
    serGraph g = { nodes := somesW (g.nodes.map (fun (n : NodeSlot) => n.w)),
                   holes := holesW 0 (g.nodes.map (fun (n : NodeSlot) => n.w)),
                   prop := some g.directed, edges := g.edges.map liveSkel } := by
  unfold serGraph
  rw [filterMap_w, holesW_all_some]
  · rfl
  · intro o ho
    obtain ⟨n, hn, rfl⟩ := List.mem_map.1 ho
    obtain ⟨i, hi⟩ := List.getElem?_of_mem hn
    exact hI.allNodes i n hi

theorem take_bound_all {α} (live : α → Bool) (l : List α) (h : ∀ x, x ∈ l → live x = true) :
    l.take (boundOf live l) = l := by
  rw [boundOf_all_live live l h, List.take_length]

/-- `Graph` → stream → `StableGraph` -/
theorem roundtrip_graph_stable (g : Raw) (hI : GraphInv g) (order : List Field) (ho : FullOrder order)
    (hcN : g.nodes.length < g.END) (hcE : g.edges.length < g.END) :
    ∃ s', deStable g.END g.directed order (serGraph g) = .ok s' ∧ StableDe g.END g.directed s' ∧ SameObs g s'.g := by
  have hnl : ∀ x, x ∈ g.nodes → nlive x = true := by
    intro n hn; obtain ⟨i, hi⟩ := List.getElem?_of_mem hn; exact hI.allNodes i n hi
  have hel : ∀ x, x ∈ g.edges → elive x = true := by
    intro e he; obtain ⟨i, hi⟩ := List.getElem?_of_mem he; exact hI.allEdges i e hi
  rw [serGraph_eq g hI]
  obtain ⟨s', hde, hn, he⟩ := deStable_complete g.END g.directed order
    (g.nodes.map (fun (n : NodeSlot) => n.w)) (g.edges.map liveSkel) ho (by simpa using hcN) (by simpa using hcE)
    (by
      intro a b x hx
      have := endpoints_in_ws g hI.toRawInv g.edges.length a b x (by simpa using hx)
      rwa [take_bound_all nlive g.nodes hnl] at this)
  refine ⟨s', hde, deStable_de hde, sameObs_of_skel g s'.g ?_ ?_⟩
  · rw [take_bound_all nlive g.nodes hnl]; exact hn
  · rw [take_bound_all elive g.edges hel]; exact he

/-- `Graph` → stream → `Graph` -/
theorem roundtrip_graph_graph (g : Raw) (hI : GraphInv g) (order : List Field)
    (ho : Field.n ∈ order ∧ Field.p ∈ order ∧ Field.e ∈ order)
    (hcN : g.nodes.length < g.END) (hcE : g.edges.length < g.END) :
    ∃ g', deGraph g.END g.directed order (serGraph g) = .ok g' ∧ GraphDe g.END g.directed g' ∧ SameObs g g' := by
  have hnl : ∀ x, x ∈ g.nodes → nlive x = true := by
    intro n hn; obtain ⟨i, hi⟩ := List.getElem?_of_mem hn; exact hI.allNodes i n hi
  have hel : ∀ x, x ∈ g.edges → elive x = true := by
    intro e he; obtain ⟨i, hi⟩ := List.getElem?_of_mem he; exact hI.allEdges i e hi
  have hls : ∀ x, x ∈ g.edges → (liveSkel x).isSome = true := by
    intro e he
    have := hel e he
    cases hw : e.w <;> simp_all [liveSkel, elive]
  have hser : serGraph g = { nodes := g.nodes.filterMap (fun (n : NodeSlot) => n.w), holes := [], prop := some g.directed,
                             edges := (g.edges.filterMap liveSkel).map some } := by
    unfold serGraph
    rw [← map_eq_map_some_filterMap liveSkel g.edges hls]
    rfl
  rw [hser]
  obtain ⟨g', hde, hn, he⟩ := deGraph_complete g.END g.directed order (g.nodes.filterMap (fun (n : NodeSlot) => n.w))
    (g.edges.filterMap liveSkel) ho
    (by rw [filterMap_w, somesW_length]
        have : (g.nodes.filter nlive).length ≤ g.nodes.length := List.length_filter_le _ _
        omega)
    (by have : (g.edges.filterMap liveSkel).length ≤ g.edges.length := List.length_filterMap_le _ _
        omega)
    (by
      intro a b x hx
      have hmem : some (a, b, x) ∈ (g.edges.take g.edges.length).map liveSkel := by
        rw [List.take_length, map_eq_map_some_filterMap liveSkel g.edges hls]
        exact List.mem_map.2 ⟨_, hx, rfl⟩
      obtain ⟨⟨wa, h1⟩, ⟨wb, h2⟩⟩ := endpoints_in_ws g hI.toRawInv g.edges.length a b x hmem
      rw [take_bound_all nlive g.nodes hnl] at h1 h2
      have h1' := (List.getElem?_eq_some_iff.1 h1).1
      have h2' := (List.getElem?_eq_some_iff.1 h2).1
      simp only [List.length_map] at h1' h2'
      have hlen : (g.nodes.filterMap (fun (n : NodeSlot) => n.w)).length = g.nodes.length := by
        have := congrArg List.length (map_eq_map_some_filterMap (fun (n : NodeSlot) => n.w) g.nodes hnl)
        simpa using this.symm
      omega)
  refine ⟨g', hde, deGraph_de hde, sameObs_of_skel g g' ?_ ?_⟩
  · rw [take_bound_all nlive g.nodes hnl, hn]
    exact (map_eq_map_some_filterMap (fun (n : NodeSlot) => n.w) g.nodes hnl).symm
  · rw [take_bound_all elive g.edges hel, he]
    exact (map_eq_map_some_filterMap liveSkel g.edges hls).symm


/-- `StableGraph` without a vacancy below its bounds → stream → `Graph` -/
theorem roundtrip_stable_graph (s : Stable) (hI : StableInv s) (order : List Field)
    (ho : Field.n ∈ order ∧ Field.p ∈ order ∧ Field.e ∈ order)
    (hvN : ∀ n, n ∈ s.g.nodes.take s.nodeBound → nlive n = true)
    (hvE : ∀ e, e ∈ s.g.edges.take s.edgeBound → elive e = true)
    (hcN : s.nodeBound < s.g.END) (hcE : s.edgeBound < s.g.END) :
    ∃ w g', serStable s = some w ∧ deGraph s.g.END s.g.directed order w = .ok g' ∧
      GraphDe s.g.END s.g.directed g' ∧ SameObs s.g g' := by
  have hser := serStable_eq s hI.nodeCount
  have hws : ∀ o, o ∈ (s.g.nodes.take s.nodeBound).map (fun (n : NodeSlot) => n.w) → o.isSome = true := by
    intro o ho'
    obtain ⟨n, hn, rfl⟩ := List.mem_map.1 ho'
    exact hvN n hn
  have hls : ∀ x, x ∈ s.g.edges.take s.edgeBound → (liveSkel x).isSome = true := by
    intro e he
    have := hvE e he
    cases hw : e.w <;> simp_all [liveSkel, elive]
  have hwsm : (s.g.nodes.take s.nodeBound).map (fun (n : NodeSlot) => n.w)
      = (somesW ((s.g.nodes.take s.nodeBound).map (fun (n : NodeSlot) => n.w))).map some := by
    have := map_eq_map_some_filterMap id _ hws
    simpa [somesW] using this
  rw [holesW_all_some _ hws, map_eq_map_some_filterMap liveSkel _ hls] at hser
  have hwlen : (somesW ((s.g.nodes.take s.nodeBound).map (fun (n : NodeSlot) => n.w))).length
      = ((s.g.nodes.take s.nodeBound).map (fun (n : NodeSlot) => n.w)).length := by
    have := congrArg List.length hwsm
    simpa using this.symm
  obtain ⟨g', hde, hn, he⟩ := deGraph_complete s.g.END s.g.directed order
    (somesW ((s.g.nodes.take s.nodeBound).map (fun (n : NodeSlot) => n.w)))
    ((s.g.edges.take s.edgeBound).filterMap liveSkel) ho
    (by rw [hwlen, List.length_map, List.length_take]
        exact Nat.lt_of_le_of_lt (Nat.min_le_left _ _) hcN)
    (by have : ((s.g.edges.take s.edgeBound).filterMap liveSkel).length ≤ (s.g.edges.take s.edgeBound).length :=
          List.length_filterMap_le _ _
        rw [List.length_take] at this
        have := Nat.min_le_left s.edgeBound s.g.edges.length
        omega)
    (by
      intro a b x hx
      have hmem : some (a, b, x) ∈ (s.g.edges.take s.edgeBound).map liveSkel := by
        rw [map_eq_map_some_filterMap liveSkel _ hls]
        exact List.mem_map.2 ⟨_, hx, rfl⟩
      obtain ⟨⟨wa, h1⟩, ⟨wb, h2⟩⟩ := endpoints_in_ws s.g hI.toRawInv _ a b x hmem
      have h1' := (List.getElem?_eq_some_iff.1 h1).1
      have h2' := (List.getElem?_eq_some_iff.1 h2).1
      refine ⟨?_, ?_⟩
      · rw [hwlen]; exact h1'
      · rw [hwlen]; exact h2')
  refine ⟨_, g', hser, hde, deGraph_de hde, sameObs_of_skel s.g g' ?_ ?_⟩
  · rw [hn]; exact hwsm.symm
  · rw [he]; exact (map_eq_map_some_filterMap liveSkel _ hls).symm

/-- a stream that declares a hole or carries a vacant edge never loads as a `Graph` -/
theorem deGraph_rejects_vacancies (END : Nat) (directed : Bool) (order : List Field) (w : Wire)
    (h : (w.holes ≠ [] ∧ Field.h ∈ order) ∨ (none ∈ w.edges ∧ Field.e ∈ order)) :
    ∃ e, deGraph END directed order w = .error e := by
  have hps : parseStage false (END + 1) w order ≠ none := by
    intro hn
    unfold parseStage at hn
    split at hn
    · simp at hn
    · rename_i hf
      rw [List.findSome?_eq_none_iff] at hf
      rcases h with ⟨hh, ho⟩ | ⟨he, ho⟩
      · have := hf _ ho
        simp only [parseField] at this
        cases hw : w.holes with
        | nil => exact hh hw
        | cons x xs =>
          rw [hw] at this
          unfold parseHoles at this
          split at this <;> simp at this
      · have := hf _ ho
        simp only [parseField] at this
        have key : ∀ l : List (Option (Nat × Nat × Int)), none ∈ l → parseEdges false (END + 1) l ≠ none := by
          intro l
          induction l with
          | nil => intro h'; simp at h'
          | cons x xs ih =>
            intro h'
            cases x with
            | none => simp [parseEdges]
            | some t =>
              obtain ⟨a, b, c⟩ := t
              unfold parseEdges
              split
              · simp
              · exact ih (by simpa using h')
        exact key _ he this
  unfold deGraph
  cases hp : parseStage false (END + 1) w order with
  | none => exact absurd hp hps
  | some e => exact ⟨e, rfl⟩

end PetgraphModel.SerdeProofs
