import PetgraphModel.Theorems.C06
import PetgraphModel.Theorems.C02
import PetgraphModel.Extracted.Scratch
/-
C07 wave 3, item 2 — from "the scratch container is sized by `node_bound`" to "no access through `to_index` is
out of bounds".

`Extracted/Scratch.lean` (regenerated from the source) says by which size function every scratch container of
`src/algo/*.rs` is allocated; `Theorems/C06.lean` proves, for the table computed from every storage model, the
clause `indexOk` of `TableConsistent`: `to_index a < node_bound` for every live `a`.  The lemmas here put the
two together.  `StableGraph` has no C06 table; its `to_index` is the identity on `NodeIndex::index()` and the
bound fact comes from `C02_bounds`.
-/
namespace PetgraphModel.C07W3
open PetgraphModel PetgraphModel.Visit PetgraphModel.Extracted

/-- every live node's `to_index` is recorded and is below `len` -/
def ToIndexBelow (t : Table) (len : Nat) : Prop :=
  ∀ ids, t.ids = some ids → ∀ a ∈ ids, ∃ i, t.toIx.lookup a = some i ∧ i < len

theorem toIndexBelow_of_indexOk {t : Table} (h : indexOk t) : ToIndexBelow t t.nodeBound := by
  intro ids hids a ha
  have hb := (h ids hids).1 a ha
  unfold optBelow at hb
  cases hl : t.toIx.lookup a with
  | none => rw [hl] at hb; exact hb.elim
  | some i => rw [hl] at hb; exact ⟨i, rfl, hb⟩

theorem toIndexBelow_of_consistent {qs : List Nat} {t : Table} (h : TableConsistent qs t) :
    ToIndexBelow t t.nodeBound :=
  toIndexBelow_of_indexOk h.index

/-- every listed edge's `EdgeIndexable::to_index` is recorded and is below `len` -/
def EdgeToIndexBelow (t : Table) (len : Nat) : Prop :=
  ∀ er l, t.erefs = some er → t.eix = some l → ∀ e ∈ er, ∃ x, l.lookup e.id = some x ∧ x.1 < len

theorem edgeToIndexBelow_of_consistent {qs : List Nat} {t : Table} (h : TableConsistent qs t) (eb : Nat)
    (heb : t.edgeBound = some eb) : EdgeToIndexBelow t eb := by
  intro er l her hl e he
  have hr := h.eix er her l hl eb heb e he
  unfold optRound at hr
  cases hx : l.lookup e.id with
  | none => rw [hx] at hr; exact hr.elim
  | some x => rw [hx] at hr; exact ⟨x, rfl, hr.1⟩

/-- on a compact-indexable view `node_count = node_bound` -/
theorem nodeCount_eq_bound_of_compact {qs : List Nat} {t : Table} (h : TableConsistent qs t)
    (hc : t.compact = true) (ids : List Nat) (hids : t.ids = some ids) (n : Nat) (hn : t.nodeCount = some n) :
    n = t.nodeBound := by
  have hp := h.compact hc ids hids
  have hl := hp.length_eq
  have hi := (h.ids ids hids).2.2 n hn
  simp only [List.length_map, List.length_range] at hl
  omega

/-- the length of a scratch container allocated with the size function `src` on the view `t`
(`none`: the view does not implement the trait, or the size is only a hint) -/
def scratchLen (t : Table) : SizeSrc → Option Nat
  | .nodeBound => some t.nodeBound
  | .nodeCount => t.nodeCount
  | .edgeBound => t.edgeBound
  | .edgeCount => t.edgeCount
  | .sizeHint => none

/-- the tables proved consistent in `Theorems/C06.lean`, one constructor per `C06_consistent_<Type>` theorem, with
that theorem's hypotheses (the `< 100` / `Bounded` side conditions are kept for compatibility; the C06 theorems
no longer need them since the pair code became `pcode`) -/
inductive StorageTable : Table → Prop
  | graph (s : G.State) (h : C01T.Inv s) : StorageTable (graphTable s)
  | graphMap (s : GM.State) (h : GMProofs.Inv s) (hb : Visit.GMBounded s) : StorageTable (graphMapTable s)
  | csrDirected (s : CsrM.State) (h : C05T.Inv s) (hf : C06T.CsrIxFits s) (hd : s.directed = true) :
      StorageTable (csrTable s)
  | csrUndirected (s : CsrM.State) (h : C05T.Inv s) (hf : C06T.CsrIxFits s) (hd : s.directed = false)
      (h100 : s.nodeCount ≤ 100) (hcount : C06T.CsrEdgeCountOk s) : StorageTable (repairD7 (csrTable s))
  | list (s : AdjM.State) (h : C06T.ListWF s) (hb : C06T.ListBounded s) : StorageTable (adjListTable s)
  | matrixUndirected (s : Matrix.State) (g : MatrixSpec.G) (h : C04T.Inv s) (r : C04T.R s g)
      (hb : ∀ a ∈ s.nodes.ids, a < 100) (hd : s.dir = false) : StorageTable (matrixTable s)
  | matrixDirected (s : Matrix.State) (g : MatrixSpec.G) (h : C04T.Inv s) (r : C04T.R s g)
      (hb : ∀ a ∈ s.nodes.ids, a < 100) (hd : s.dir = true) : StorageTable (repairD6 (matrixTable s))

theorem StorageTable.consistent {t : Table} (h : StorageTable t) : ∃ qs, TableConsistent qs t := by
  cases h with
  | graph s h => exact ⟨_, C06T.C06_consistent_Graph s h⟩
  | graphMap s h hb => exact ⟨_, C06T.C06_consistent_GraphMap s h⟩
  | csrDirected s h hf hd => exact ⟨_, C06T.C06_consistent_Csr s h hf hd⟩
  | csrUndirected s h hf hd h100 hc => exact ⟨_, C06T.C06_consistent_Csr_undirected_repairD7 s h hf hd hc⟩
  | list s h hb => exact ⟨_, C06T.C06_consistent_List s h⟩
  | matrixUndirected s g h r hb hd => exact ⟨_, C06T.C06_consistent_MatrixGraph_undirected h r hd⟩
  | matrixDirected s g h r hb hd => exact ⟨_, C06T.C06_consistent_MatrixGraph_directed_repairD6 h r hd⟩

/-- the two repairs (findings D6, D7) touch edge fields only: ids, indices, bounds and counts of nodes are those of
the table as it stands -/
theorem repair_node_fields (t : Table) :
    ((repairD6 t).ids = t.ids ∧ (repairD6 t).toIx = t.toIx ∧ (repairD6 t).nodeBound = t.nodeBound ∧
      (repairD6 t).nodeCount = t.nodeCount ∧ (repairD6 t).compact = t.compact) ∧
    ((repairD7 t).ids = t.ids ∧ (repairD7 t).toIx = t.toIx ∧ (repairD7 t).nodeBound = t.nodeBound ∧
      (repairD7 t).nodeCount = t.nodeCount ∧ (repairD7 t).compact = t.compact) :=
  ⟨⟨rfl, rfl, rfl, rfl, rfl⟩, ⟨rfl, rfl, rfl, rfl, rfl⟩⟩

/-- an access `c[to_index a]` of a live `a` into a container of length `len` -/
def AccessInBounds {α : Type} (t : Table) (c : List α) : Prop :=
  ∀ ids, t.ids = some ids → ∀ a ∈ ids, ∃ i, t.toIx.lookup a = some i ∧ ∃ x, c[i]? = some x

theorem accessInBounds_of_below {α : Type} {t : Table} {c : List α} (h : ToIndexBelow t c.length) :
    AccessInBounds t c := by
  intro ids hids a ha
  obtain ⟨i, hi, hlt⟩ := h ids hids a ha
  exact ⟨i, hi, c[i], List.getElem?_eq_getElem hlt⟩

/-- `StableGraph` (no C06 table): `to_index(a) = a.index()` and no live node is at or above `node_bound` -/
theorem stable_live_lt_bound (s : SG.State) (a : Nat) (h : (SG.nodeWeight s a).isSome = true) :
    a < SG.nodeBound s := by
  refine Nat.lt_of_not_le fun hle => ?_
  rw [(C02T.C02_bounds s).2.1 a hle] at h
  cases h

theorem stable_edge_live_lt_bound (s : SG.State) (e : Nat) (h : (SG.edgeWeight s e).isSome = true) :
    e < SG.edgeBound s := by
  refine Nat.lt_of_not_le fun hle => ?_
  have := SGProofs.boundOf_above' (s.edges.map (·.w)) e (by unfold SG.edgeBound at hle; exact hle)
  unfold SG.edgeWeight at h
  rw [List.getElem?_map] at this
  cases he : s.edges[e]? with
  | none => rw [he] at h; cases h
  | some x =>
    rw [he] at h this
    simp at this
    simp [this] at h

end PetgraphModel.C07W3
