import PetgraphModel.Model.C02W6Debug
import PetgraphModel.Proofs.StableGraph
/-
C02, wave 6 — the `Iterator` / `DoubleEndedIterator` contract of the whole-graph slice iterators of `StableGraph`
(`NodeIndices`, `EdgeIndices`, `NodeReferences`, `EdgeReferences`), proved on their mirror `SG.Win`
(`Model/C02W6Debug.lean`): whatever mixture of `next` and `next_back` consumes the iterator, the items come out as one and
the same sequence `Win.items` — the live indices of the window, ascending —, `size_hint` brackets what remains at every
point, and a fresh iterator's sequence is `node_indices` / `edge_indices` of the model (hence, by
`C02_counts_bounds_iterators`, the live elements of the reference).  These are the laws `harness/src/iterlaws.rs` checks on
the implementation.
-/
namespace PetgraphModel.SG

theorem Win.items_nil (b : Nat) : Win.items ⟨b, []⟩ = [] := rfl

theorem Win.items_true (b : Nat) (r : List Bool) : Win.items ⟨b, true :: r⟩ = b :: Win.items ⟨b + 1, r⟩ := rfl

theorem Win.items_false (b : Nat) (r : List Bool) : Win.items ⟨b, false :: r⟩ = Win.items ⟨b + 1, r⟩ := rfl

theorem Win.next_nil (b : Nat) : Win.next ⟨b, []⟩ = (none, ⟨b, []⟩) := rfl

theorem Win.next_true (b : Nat) (r : List Bool) : Win.next ⟨b, true :: r⟩ = (some b, ⟨b + 1, r⟩) := rfl

theorem Win.next_false (b : Nat) (r : List Bool) : Win.next ⟨b, false :: r⟩ = Win.next ⟨b + 1, r⟩ := rfl

/-- `next`: `None` exactly when nothing is left (and then the iterator stays exhausted: it is fused); otherwise the head of the
remaining sequence, and the rest remains -/
theorem Win.next_spec (l : List Bool) (b : Nat) :
    match Win.next ⟨b, l⟩ with
    | (none, w') => Win.items ⟨b, l⟩ = [] ∧ Win.items w' = [] ∧ w'.slots = []
    | (some i, w') => Win.items ⟨b, l⟩ = i :: Win.items w' ∧ w'.slots.length < l.length := by
  induction l generalizing b with
  | nil => rw [Win.next_nil]; exact ⟨Win.items_nil b, Win.items_nil b, rfl⟩
  | cons x r ih =>
    cases x with
    | true => rw [Win.next_true, Win.items_true]; exact ⟨rfl, by simp⟩
    | false =>
      rw [Win.next_false, Win.items_false]
      have := ih (b + 1)
      cases h : Win.next ⟨b + 1, r⟩ with
      | mk o w' =>
        rw [h] at this
        cases o with
        | none => exact this
        | some i => exact ⟨this.1, by have := this.2; simp only [List.length_cons]; omega⟩

theorem Win.items_append (l₁ l₂ : List Bool) (b : Nat) :
    Win.items ⟨b, l₁ ++ l₂⟩ = Win.items ⟨b, l₁⟩ ++ Win.items ⟨b + l₁.length, l₂⟩ := by
  induction l₁ generalizing b with
  | nil => simp [Win.items_nil]
  | cons x r ih =>
    cases x with
    | true =>
      rw [List.cons_append, Win.items_true, Win.items_true, ih (b + 1)]
      simp only [List.length_cons, List.cons_append]
      rw [show b + 1 + r.length = b + (r.length + 1) by omega]
    | false =>
      rw [List.cons_append, Win.items_false, Win.items_false, ih (b + 1)]
      simp only [List.length_cons]
      rw [show b + 1 + r.length = b + (r.length + 1) by omega]

/-- what `dropBack` does to a slot list: it cuts the list behind the last live slot -/
theorem dropBack_spec (l : List Bool) :
    match dropBack l with
    | (none, r) => (∀ x ∈ l, x = false) ∧ r = []
    | (some i, r) => ∃ tail, l = r ++ true :: tail ∧ (∀ x ∈ tail, x = false) ∧ i = r.length := by
  induction l with
  | nil => simp [dropBack]
  | cons x r ih =>
    unfold dropBack
    cases h : dropBack r with
    | mk o r' =>
      rw [h] at ih
      cases o with
      | some i =>
        obtain ⟨tail, hl, ht, hi⟩ := ih
        simp only
        exact ⟨tail, by rw [hl]; rfl, ht, by simp [hi]⟩
      | none =>
        simp only
        cases x with
        | true => exact ⟨r, by simp, ih.1, rfl⟩
        | false =>
          simp only [Bool.false_eq_true, if_false]
          exact ⟨fun y hy => by
            rcases List.mem_cons.1 hy with rfl | hy
            · rfl
            · exact ih.1 y hy, trivial⟩

theorem Win.items_all_false (l : List Bool) (b : Nat) (h : ∀ x ∈ l, x = false) : Win.items ⟨b, l⟩ = [] := by
  induction l generalizing b with
  | nil => exact Win.items_nil b
  | cons x r ih =>
    have hx : x = false := h x (by simp)
    subst hx
    rw [Win.items_false]
    exact ih (b + 1) fun y hy => h y (by simp [hy])

/-- `next_back`: `None` exactly when nothing is left (and the iterator is exhausted afterwards); otherwise the LAST item of the
remaining sequence, and everything before it remains -/
theorem Win.nextBack_spec (w : Win) :
    match w.nextBack with
    | (none, w') => w.items = [] ∧ w'.items = [] ∧ w'.slots = []
    | (some i, w') => w.items = w'.items ++ [i] ∧ w'.slots.length < w.slots.length := by
  obtain ⟨b, l⟩ := w
  unfold Win.nextBack
  have := dropBack_spec l
  cases h : dropBack l with
  | mk o r =>
    rw [h] at this
    cases o with
    | none =>
      simp only
      exact ⟨Win.items_all_false l b this.1, Win.items_nil _, trivial⟩
    | some i =>
      obtain ⟨tail, hl, ht, hi⟩ := this
      simp only
      refine ⟨?_, ?_⟩
      · rw [hl, Win.items_append, Win.items_true, Win.items_all_false tail _ ht, hi]
      · rw [hl]; simp

/-- `size_hint` brackets the number of items still to come — at every point of the iteration, since every state of the iterator
is a `Win` -/
theorem Win.sizeHint_spec (w : Win) : w.sizeHint.1 ≤ w.items.length ∧ w.items.length ≤ w.sizeHint.2 := by
  obtain ⟨b, l⟩ := w
  refine ⟨Nat.zero_le _, ?_⟩
  show (Win.items ⟨b, l⟩).length ≤ l.length
  induction l generalizing b with
  | nil => simp [Win.items_nil]
  | cons x r ih =>
    cases x with
    | true => rw [Win.items_true]; simp only [List.length_cons]; have := ih (b + 1); omega
    | false => rw [Win.items_false]; simp only [List.length_cons]; have := ih (b + 1); omega

/-- a consumer: any mixture of `next` (`false`) and `next_back` (`true`) calls; the items obtained from the front, those obtained
from the back, the iterator that is left -/
def Win.drive : List Bool → Win → List Nat × List Nat × Win
  | [], w => ([], [], w)
  | false :: ds, w =>
    match w.next with
    | (some i, w') => let (f, k, w'') := Win.drive ds w'; (i :: f, k, w'')
    | (none, w') => Win.drive ds w'
  | true :: ds, w =>
    match w.nextBack with
    | (some i, w') => let (f, k, w'') := Win.drive ds w'; (f, k ++ [i], w'')
    | (none, w') => Win.drive ds w'

/-- **meet in the middle**: however the iterator is consumed, front items, what is left, and the back items (in reverse order of
their arrival) together are exactly the one sequence `items` -/
theorem Win.drive_spec (ds : List Bool) (w : Win) :
    let r := Win.drive ds w
    w.items = r.1 ++ r.2.2.items ++ r.2.1 := by
  induction ds generalizing w with
  | nil => simp [Win.drive]
  | cons d ds ih =>
    cases d with
    | false =>
      have hs := Win.next_spec w.slots w.base
      simp only [Win.drive]
      cases h : w.next with
      | mk o w' =>
        have hw : Win.next ⟨w.base, w.slots⟩ = (o, w') := h
        rw [hw] at hs
        cases o with
        | some i =>
          simp only
          have := ih w'
          simp only at this
          have e : w.items = i :: w'.items := hs.1
          rw [e, this]; simp
        | none =>
          simp only
          have := ih w'
          simp only at this
          have e : w.items = [] := hs.1
          rw [e, ← this, hs.2.1]
    | true =>
      have hs := Win.nextBack_spec w
      simp only [Win.drive]
      cases h : w.nextBack with
      | mk o w' =>
        rw [h] at hs
        cases o with
        | some i =>
          simp only
          have := ih w'
          simp only at this
          rw [hs.1, this]; simp
        | none =>
          simp only
          have := ih w'
          simp only at this
          rw [hs.1, ← this, hs.2.1]

theorem Win.items_eq_liveIdx {α : Type} (l : List (Option α)) (b : Nat) :
    Win.items ⟨b, l.map Option.isSome⟩ = liveIdx l b := by
  induction l generalizing b with
  | nil => simp [Win.items_nil, liveIdx]
  | cons x r ih =>
    cases x with
    | none => simp only [List.map_cons, Option.isSome_none, Win.items_false, liveIdx, Bool.false_eq_true, if_false]; exact ih (b + 1)
    | some a => simp only [List.map_cons, Option.isSome_some, Win.items_true, liveIdx, if_true]; rw [ih (b + 1)]

/-- the sequence of a fresh `node_indices()` / `edge_indices()` (and of the index components of `node_references()` /
`edge_references()`) is the model's `nodeIndices` / `edgeIndices` -/
theorem Win.items_nodeIndices (s : State) : (Win.ofSlots (s.nodes.map (·.w))).items = nodeIndices s :=
  Win.items_eq_liveIdx _ 0

theorem Win.items_edgeIndices (s : State) : (Win.ofSlots (s.edges.map (·.w))).items = edgeIndices s :=
  Win.items_eq_liveIdx _ 0

end PetgraphModel.SG
