import PetgraphModel.Proofs.C20Base
import PetgraphModel.Model.C20
/-
C20 — the mirrored `all_simple_paths` iterator is sound: whatever it yields is a simple path from
`a` to `to` whose number of intermediate nodes is within the bounds.
-/
namespace PetgraphModel.C20.Paths
open PetgraphModel PetgraphModel.MGraph

/-- a walk written most recent node first -/
def RChain (g : MGraph) : List Nat → Prop
  | [] => True
  | [_] => True
  | x :: y :: t => g.Adj y x ∧ RChain g (y :: t)

theorem isWalk_concat (g : MGraph) : ∀ (m : List Nat) (x : Nat), IsWalk g m →
    (∀ z, m.getLast? = some z → g.Adj z x) → IsWalk g (m ++ [x]) := by
  intro m
  induction m with
  | nil => intro x _ _; exact trivial
  | cons a t ih =>
    intro x hw hl
    cases t with
    | nil => exact ⟨hl a (by simp), trivial⟩
    | cons b t' =>
      refine ⟨hw.1, ?_⟩
      have := ih x hw.2 (fun z hz => hl z (by simpa [List.getLast?_cons_cons] using hz))
      simpa using this

theorem rchain_walk (g : MGraph) : ∀ (l : List Nat), RChain g l → IsWalk g l.reverse := by
  intro l
  induction l with
  | nil => intro _; exact trivial
  | cons x t ih =>
    intro h
    cases t with
    | nil => exact trivial
    | cons y t' =>
      have hw := ih h.2
      rw [List.reverse_cons]
      apply isWalk_concat g _ x hw
      intro z hz
      rw [List.getLast?_reverse] at hz
      simp at hz
      exact hz ▸ h.1

theorem rchain_tail (g : MGraph) {l : List Nat} (h : RChain g l) : RChain g l.tail := by
  cases l with
  | nil => exact trivial
  | cons x t =>
    cases t with
    | nil => exact trivial
    | cons y t' => exact h.2

/-- level `i` of the stack holds successors of the `i`-th most recent node -/
def Aligned (g : MGraph) : List Nat → List (List Nat) → Prop
  | _, [] => True
  | [], _ :: _ => False
  | v :: t, cs :: rest => (∀ c ∈ cs, g.Adj v c) ∧ Aligned g t rest

structure PInv (g : MGraph) (a to : Nat) (hi : Option Nat) (st : St) : Prop where
  nodup : st.rvis.Nodup
  noTo : to ∉ st.rvis
  chain : RChain g st.rvis
  first : st.rvis = [] ∨ st.rvis.getLast? = some a
  aligned : Aligned g st.rvis st.stack
  bound : ∀ h, hi = some h → st.rvis.length ≤ h + 1

theorem getLast?_tail_of {l : List Nat} {a : Nat} (h : l = [] ∨ l.getLast? = some a) :
    l.tail = [] ∨ l.tail.getLast? = some a := by
  cases l with
  | nil => left; rfl
  | cons x t =>
    cases t with
    | nil => left; rfl
    | cons y t' =>
      right
      cases h with
      | inl e => cases e
      | inr e => simpa [List.getLast?_cons_cons] using e

theorem pinv_pop {g : MGraph} {a to : Nat} {hi : Option Nat} {rvis : List Nat} {cs : List Nat} {rest : List (List Nat)}
    (h : PInv g a to hi { rvis := rvis, stack := cs :: rest }) :
    PInv g a to hi { rvis := rvis.tail, stack := rest } := by
  obtain ⟨h1, h2, h3, h4, h5, h6⟩ := h
  simp only at h1 h2 h3 h4 h5 h6
  cases rvis with
  | nil => exact absurd h5 (by simp [Aligned])
  | cons v t =>
    refine ⟨(List.nodup_cons.mp h1).2, fun hm => h2 (List.mem_cons_of_mem _ hm), rchain_tail g h3,
      getLast?_tail_of h4, h5.2, fun h hh => ?_⟩
    have := h6 h hh
    simp at this ⊢
    omega

theorem pinv_shrink {g : MGraph} {a to : Nat} {hi : Option Nat} {rvis : List Nat} {cs cs' : List Nat}
    {rest : List (List Nat)} (h : PInv g a to hi { rvis := rvis, stack := cs :: rest })
    (hsub : ∀ c ∈ cs', c ∈ cs) : PInv g a to hi { rvis := rvis, stack := cs' :: rest } := by
  obtain ⟨h1, h2, h3, h4, h5, h6⟩ := h
  refine ⟨h1, h2, h3, h4, ?_, h6⟩
  simp only at h5 ⊢
  cases rvis with
  | nil => exact absurd h5 (by simp [Aligned])
  | cons v t => exact ⟨fun c hc => h5.1 c (hsub c hc), h5.2⟩

theorem emit_ok {g : MGraph} {a to lo : Nat} {hi : Option Nat} {rvis cs : List Nat} {rest : List (List Nat)}
    (h : PInv g a to hi { rvis := rvis, stack := cs :: rest }) (hto : to ∈ cs) (hmin : lo + 1 ≤ rvis.length) :
    IsSimplePathIn g a to lo hi (to :: rvis).reverse := by
  obtain ⟨h1, h2, h3, h4, h5, h6⟩ := h
  simp only at h1 h2 h3 h4 h5 h6
  cases rvis with
  | nil => exact absurd h5 (by simp [Aligned])
  | cons v t =>
    have hadj : g.Adj v to := h5.1 to hto
    refine ⟨?_, ?_, ?_, ?_, ?_, ?_⟩
    · exact (List.reverse_perm _).nodup_iff.mpr (List.nodup_cons.mpr ⟨h2, h1⟩)
    · rw [List.head?_reverse]
      cases h4 with
      | inl e => cases e
      | inr e => simpa [List.getLast?_cons_cons] using e
    · rw [List.getLast?_reverse]; simp
    · exact rchain_walk g _ ⟨hadj, h3⟩
    · simp at hmin ⊢; omega
    · intro hh hhi
      have := h6 hh hhi
      simp at this ⊢; omega

/-- one call of `next`: a yielded path meets the specification and the invariant is kept -/
theorem next_sound (g : MGraph) (a to lo : Nat) (hi : Option Nat) (count : Nat) :
    ∀ (f : Nat) (st st' : St) (p : List Nat), PInv g a to hi st →
      next g.succ to (lo + 1) (maxLenOf count hi) f st = some (some p, st') →
      IsSimplePathIn g a to lo hi p ∧ PInv g a to hi st' := by
  intro f
  induction f with
  | zero => intro st st' p _ h; simp [next] at h
  | succ f ih =>
    intro st st' p hinv h
    obtain ⟨rvis, stack⟩ := st
    unfold next at h
    simp only at h
    split at h
    · simp at h
    · rename_i rest
      exact ih _ st' p (pinv_pop hinv) h
    · rename_i child cs rest
      split at h
      · rename_i hlt
        split at h
        · rename_i hct
          have hct' : child = to := by simpa using hct
          split at h
          · rename_i hmin
            simp only [Option.some.injEq, Prod.mk.injEq] at h
            obtain ⟨hp, hs⟩ := h
            subst hp; subst hs
            exact ⟨emit_ok hinv (by simp [hct']) hmin, pinv_shrink hinv (fun c hc => List.mem_cons_of_mem _ hc)⟩
          · exact ih _ st' p (pinv_shrink hinv (fun c hc => List.mem_cons_of_mem _ hc)) h
        · rename_i hct
          have hne : child ≠ to := by simpa using hct
          split at h
          · rename_i hnew
            have hnew' : child ∉ rvis := by simpa using hnew
            apply ih _ st' p _ h
            obtain ⟨h1, h2, h3, h4, h5, h6⟩ := hinv
            simp only at h1 h2 h3 h4 h5 h6
            cases rvis with
            | nil => exact absurd h5 (by simp [Aligned])
            | cons v t =>
              have hadj : g.Adj v child := h5.1 child (by simp)
              refine ⟨List.nodup_cons.mpr ⟨hnew', h1⟩, ?_, ⟨hadj, h3⟩, ?_, ?_, ?_⟩
              · intro hm
                cases List.mem_cons.mp hm with
                | inl e => exact hne e.symm
                | inr e => exact h2 e
              · right
                cases h4 with
                | inl e => cases e
                | inr e => simpa [List.getLast?_cons_cons] using e
              · exact ⟨fun c hc => MGraph.mem_succ.mp hc, fun c hc => h5.1 c (List.mem_cons_of_mem _ hc), h5.2⟩
              · intro hh hhi
                simp only [maxLenOf, hhi] at hlt
                simp at hlt ⊢
                omega
          · exact ih _ st' p (pinv_shrink hinv (fun c hc => List.mem_cons_of_mem _ hc)) h
      · split at h
        · rename_i hfound
          simp only [Bool.and_eq_true, Bool.or_eq_true, beq_iff_eq, decide_eq_true_eq] at hfound
          simp only [Option.some.injEq, Prod.mk.injEq] at h
          obtain ⟨hp, hs⟩ := h
          subst hp; subst hs
          have hto : to ∈ child :: cs := by
            cases hfound.1 with
            | inl e => simp [e]
            | inr e => exact List.mem_cons_of_mem _ (by simpa using e)
          refine ⟨emit_ok hinv hto hfound.2, pinv_shrink hinv ?_⟩
          intro c hc
          split at hc
          · exact List.mem_cons_of_mem _ hc
          · exact List.mem_cons_of_mem _ ((List.dropWhile_sublist _).subset (List.mem_of_mem_tail hc))
        · exact ih _ st' p (pinv_pop hinv) h

theorem collect_sound (g : MGraph) (a to lo : Nat) (hi : Option Nat) (count fuel : Nat) :
    ∀ (k : Nat) (st : St) (acc out : List (List Nat)), PInv g a to hi st →
      (∀ p ∈ acc, IsSimplePathIn g a to lo hi p) →
      collect g.succ to (lo + 1) (maxLenOf count hi) fuel k st acc = some out →
      ∀ p ∈ out, IsSimplePathIn g a to lo hi p := by
  intro k
  induction k with
  | zero => intro st acc out _ _ h; simp [collect] at h
  | succ k ih =>
    intro st acc out hinv hacc h
    simp only [collect] at h
    split at h
    · simp at h
    · simp only [Option.some.injEq] at h
      subst h
      intro p hp
      exact hacc p (List.mem_reverse.mp hp)
    · rename_i p st' hn
      have := next_sound g a to lo hi count fuel st st' p hinv hn
      apply ih st' (p :: acc) out this.2 _ h
      intro q hq
      cases List.mem_cons.mp hq with
      | inl e => exact e ▸ this.1
      | inr e => exact hacc q e

/-- **soundness of the mirrored iterator** (`a ≠ to`): everything it yields is a simple path from `a`
to `to` within the bounds -/
theorem allSimplePaths_sound (g : MGraph) (a b lo : Nat) (hi : Option Nat) (hab : a ≠ b) (count fuel : Nat)
    (out : List (List Nat)) (h : allSimplePaths g.succ count a b lo hi fuel = some out) :
    ∀ p ∈ out, IsSimplePathIn g a b lo hi p := by
  unfold allSimplePaths at h
  apply collect_sound g a b lo hi count fuel fuel _ [] out _ (by simp) h
  refine ⟨by simp, by simpa using fun e => hab e.symm, trivial, Or.inr (by simp), ?_, ?_⟩
  · exact ⟨fun c hc => MGraph.mem_succ.mp hc, trivial⟩
  · intro h _; simp

end PetgraphModel.C20.Paths
