import PetgraphModel.Spec.Graph
import PetgraphModel.Spec.C13Iso
import PetgraphModel.Oracle.Dist
import PetgraphModel.Proofs.Dist
/-
C07, wave 2 — the shared part: how the specification notions of the shared graph foundation
(`Adj`, `Reach`, `Reach1`, `arcs`, `WalkCost`, `IsShortest`, `WellFormed`) behave

* under a change of the *presentation* of the abstract graph (`SameAdj`, `SameArcs`: the same
  adjacency relation / the same set of weighted arcs — order of the edge list, edge ids, multiplicity
  of equal arcs and the orientation in which an undirected edge is stored are all irrelevant), and
* under a *relabeling* of the nodes by an injective `φ : Nat → Nat` (`C13.relabel`, the same
  definition as `C07T.relabel` and `PR.relabel`).
-/
namespace PetgraphModel.C07W2
open PetgraphModel PetgraphModel.MGraph PetgraphModel.DistProofs

/-- the renaming used everywhere (definitionally `C07T.relabel`) -/
abbrev relabel (φ : Nat → Nat) (g : MGraph) : MGraph := C13.relabel φ g

/-- injectivity, in the form the C20 vertical uses -/
abbrev Inj (φ : Nat → Nat) : Prop := ∀ x y, φ x = φ y → x = y

/-- the two graphs have the same adjacency relation -/
def SameAdj (g1 g2 : MGraph) : Prop := ∀ a b, g1.Adj a b ↔ g2.Adj a b

/-- the two graphs have the same set of weighted arcs -/
def SameArcs (g1 g2 : MGraph) : Prop := ∀ a b w, (a, b, w) ∈ g1.arcs ↔ (a, b, w) ∈ g2.arcs

theorem SameAdj.refl (g : MGraph) : SameAdj g g := fun _ _ => Iff.rfl
theorem SameAdj.symm {g1 g2 : MGraph} (h : SameAdj g1 g2) : SameAdj g2 g1 := fun a b => (h a b).symm
theorem SameArcs.refl (g : MGraph) : SameArcs g g := fun _ _ _ => Iff.rfl
theorem SameArcs.symm {g1 g2 : MGraph} (h : SameArcs g1 g2) : SameArcs g2 g1 :=
  fun a b w => (h a b w).symm

theorem adj_iff_arc {g : MGraph} {a b : Nat} : g.Adj a b ↔ ∃ w, (a, b, w) ∈ g.arcs := by
  constructor
  · rintro ⟨e, he, hor⟩
    exact ⟨e.w, mem_arcs.mpr ⟨e, he, rfl, hor⟩⟩
  · rintro ⟨w, hw⟩
    obtain ⟨e, he, _, hor⟩ := mem_arcs.mp hw
    exact ⟨e, he, hor⟩

theorem SameArcs.sameAdj {g1 g2 : MGraph} (h : SameArcs g1 g2) : SameAdj g1 g2 := by
  intro a b
  rw [adj_iff_arc, adj_iff_arc]
  exact ⟨fun ⟨w, hw⟩ => ⟨w, (h a b w).mp hw⟩, fun ⟨w, hw⟩ => ⟨w, (h a b w).mpr hw⟩⟩

/-! ### presentation independence -/

theorem reach_congr {g1 g2 : MGraph} (h : SameAdj g1 g2) {a b : Nat} : Reach g1 a b ↔ Reach g2 a b := by
  have key : ∀ {g1 g2 : MGraph}, SameAdj g1 g2 → ∀ {a b}, Reach g1 a b → Reach g2 a b := by
    intro g1 g2 h a b hr
    induction hr with
    | refl => exact Reach.refl _
    | step _ hc ih => exact Reach.step ih ((h _ _).mp hc)
  exact ⟨key h, key h.symm⟩

theorem reach1_congr {g1 g2 : MGraph} (h : SameAdj g1 g2) {a b : Nat} : Reach1 g1 a b ↔ Reach1 g2 a b := by
  have key : ∀ {g1 g2 : MGraph}, SameAdj g1 g2 → ∀ {a b}, Reach1 g1 a b → Reach1 g2 a b := by
    intro g1 g2 h a b hr
    induction hr with
    | single hc => exact Reach1.single ((h _ _).mp hc)
    | step _ hc ih => exact Reach1.step ih ((h _ _).mp hc)
  exact ⟨key h, key h.symm⟩

theorem walkCost_congr {g1 g2 : MGraph} (h : SameArcs g1 g2) {a b : Nat} {c : Int} :
    WalkCost g1 a b c ↔ WalkCost g2 a b c := by
  have key : ∀ {g1 g2 : MGraph}, SameArcs g1 g2 → ∀ {a b c}, WalkCost g1 a b c → WalkCost g2 a b c := by
    intro g1 g2 h a b c hw
    induction hw with
    | nil => exact WalkCost.nil _
    | snoc _ harc ih => exact WalkCost.snoc ih ((h _ _ _).mp harc)
  exact ⟨key h, key h.symm⟩

theorem isShortest_congr {g1 g2 : MGraph} (h : SameArcs g1 g2) {s v : Nat} {d : Int} :
    IsShortest g1 s v d ↔ IsShortest g2 s v d := by
  unfold IsShortest
  constructor
  · rintro ⟨h1, h2⟩
    exact ⟨(walkCost_congr h).mp h1, fun c hc => h2 c ((walkCost_congr h).mpr hc)⟩
  · rintro ⟨h1, h2⟩
    exact ⟨(walkCost_congr h).mpr h1, fun c hc => h2 c ((walkCost_congr h).mp hc)⟩

/-- the shortest-walk cost is unique -/
theorem isShortest_unique {g : MGraph} {s v : Nat} {d d' : Int} (h : IsShortest g s v d)
    (h' : IsShortest g s v d') : d = d' := by
  have h1 := h.2 d' h'.1
  have h2 := h'.2 d h.1
  omega

/-! ### relabeling -/

section Relabel
variable (φ : Nat → Nat) (g : MGraph)

@[simp] theorem relabel_directed : (relabel φ g).directed = g.directed := rfl
@[simp] theorem relabel_nodes : (relabel φ g).nodes = g.nodes.map φ := rfl
theorem relabel_edges :
    (relabel φ g).edges = g.edges.map fun e => { e with src := φ e.src, tgt := φ e.tgt } := rfl

theorem mem_relabel_edges {e' : Edge} :
    e' ∈ (relabel φ g).edges ↔ ∃ e ∈ g.edges, e' = { e with src := φ e.src, tgt := φ e.tgt } := by
  rw [relabel_edges, List.mem_map]
  exact ⟨fun ⟨e, he, h⟩ => ⟨e, he, h.symm⟩, fun ⟨e, he, h⟩ => ⟨e, he, h.symm⟩⟩

/-- the arcs of the relabeled graph are the relabeled arcs (no injectivity needed) -/
theorem mem_arcs_relabel {x y : Nat} {w : Int} :
    (x, y, w) ∈ (relabel φ g).arcs ↔ ∃ a b, x = φ a ∧ y = φ b ∧ (a, b, w) ∈ g.arcs := by
  constructor
  · intro h
    obtain ⟨e', he', hw, hor⟩ := mem_arcs.mp h
    obtain ⟨e, he, rfl⟩ := (mem_relabel_edges φ g).mp he'
    rcases hor with ⟨h1, h2⟩ | ⟨h0, h1, h2⟩
    · exact ⟨e.src, e.tgt, h1.symm, h2.symm, mem_arcs.mpr ⟨e, he, hw, Or.inl ⟨rfl, rfl⟩⟩⟩
    · exact ⟨e.tgt, e.src, h2.symm, h1.symm, mem_arcs.mpr ⟨e, he, hw, Or.inr ⟨h0, rfl, rfl⟩⟩⟩
  · rintro ⟨a, b, rfl, rfl, h⟩
    obtain ⟨e, he, hw, hor⟩ := mem_arcs.mp h
    refine mem_arcs.mpr ⟨{ e with src := φ e.src, tgt := φ e.tgt },
      (mem_relabel_edges φ g).mpr ⟨e, he, rfl⟩, hw, ?_⟩
    rcases hor with ⟨h1, h2⟩ | ⟨h0, h1, h2⟩
    · exact Or.inl ⟨by simp [h1], by simp [h2]⟩
    · exact Or.inr ⟨h0, by simp [h1], by simp [h2]⟩

theorem adj_relabel_iff {x y : Nat} :
    (relabel φ g).Adj x y ↔ ∃ a b, x = φ a ∧ y = φ b ∧ g.Adj a b := by
  rw [adj_iff_arc]
  constructor
  · rintro ⟨w, hw⟩
    obtain ⟨a, b, h1, h2, h3⟩ := (mem_arcs_relabel φ g).mp hw
    exact ⟨a, b, h1, h2, adj_iff_arc.mpr ⟨w, h3⟩⟩
  · rintro ⟨a, b, h1, h2, h3⟩
    obtain ⟨w, hw⟩ := adj_iff_arc.mp h3
    exact ⟨w, (mem_arcs_relabel φ g).mpr ⟨a, b, h1, h2, hw⟩⟩

theorem adj_relabel {a b : Nat} (h : g.Adj a b) : (relabel φ g).Adj (φ a) (φ b) :=
  (adj_relabel_iff φ g).mpr ⟨a, b, rfl, rfl, h⟩

theorem reach_relabel {a b : Nat} (h : Reach g a b) : Reach (relabel φ g) (φ a) (φ b) := by
  induction h with
  | refl => exact Reach.refl _
  | step _ hc ih => exact Reach.step ih (adj_relabel φ g hc)

theorem reach1_relabel {a b : Nat} (h : Reach1 g a b) : Reach1 (relabel φ g) (φ a) (φ b) := by
  induction h with
  | single hc => exact Reach1.single (adj_relabel φ g hc)
  | step _ hc ih => exact Reach1.step ih (adj_relabel φ g hc)

theorem walkCost_relabel {a b : Nat} {c : Int} (h : WalkCost g a b c) :
    WalkCost (relabel φ g) (φ a) (φ b) c := by
  induction h with
  | nil => exact WalkCost.nil _
  | snoc _ harc ih => exact WalkCost.snoc ih ((mem_arcs_relabel φ g).mpr ⟨_, _, rfl, rfl, harc⟩)

variable {φ} (hφ : Inj φ)
include hφ

theorem adj_relabel_inj {a b : Nat} : (relabel φ g).Adj (φ a) (φ b) ↔ g.Adj a b := by
  constructor
  · intro h
    obtain ⟨a', b', h1, h2, h3⟩ := (adj_relabel_iff φ g).mp h
    rw [hφ _ _ h1, hφ _ _ h2]; exact h3
  · exact adj_relabel φ g

/-- a walk of the relabeled graph that starts at an image stays inside the image -/
theorem reach_relabel_inv {a y : Nat} (h : Reach (relabel φ g) (φ a) y) : ∃ b, y = φ b ∧ Reach g a b := by
  generalize hx : φ a = x at h
  induction h with
  | refl => exact ⟨a, hx.symm, Reach.refl _⟩
  | step _ hc ih =>
    obtain ⟨b, rfl, hb⟩ := ih
    obtain ⟨a', b', h1, h2, h3⟩ := (adj_relabel_iff φ g).mp hc
    rw [← hφ _ _ h1] at h3
    exact ⟨b', h2, Reach.step hb h3⟩

theorem reach_relabel_iff {a b : Nat} : Reach (relabel φ g) (φ a) (φ b) ↔ Reach g a b := by
  constructor
  · intro h
    obtain ⟨b', hb', hr⟩ := reach_relabel_inv g hφ h
    rw [hφ _ _ hb']; exact hr
  · exact reach_relabel φ g

theorem reach1_relabel_inv {a y : Nat} (h : Reach1 (relabel φ g) (φ a) y) :
    ∃ b, y = φ b ∧ Reach1 g a b := by
  generalize hx : φ a = x at h
  induction h with
  | single hc =>
    subst hx
    obtain ⟨a', b', h1, h2, h3⟩ := (adj_relabel_iff φ g).mp hc
    rw [← hφ _ _ h1] at h3
    exact ⟨b', h2, Reach1.single h3⟩
  | step _ hc ih =>
    obtain ⟨b, rfl, hb⟩ := ih
    obtain ⟨a', b', h1, h2, h3⟩ := (adj_relabel_iff φ g).mp hc
    rw [← hφ _ _ h1] at h3
    exact ⟨b', h2, Reach1.step hb h3⟩

theorem reach1_relabel_iff {a b : Nat} : Reach1 (relabel φ g) (φ a) (φ b) ↔ Reach1 g a b := by
  constructor
  · intro h
    obtain ⟨b', hb', hr⟩ := reach1_relabel_inv g hφ h
    rw [hφ _ _ hb']; exact hr
  · exact reach1_relabel φ g

theorem walkCost_relabel_inv {a y : Nat} {c : Int} (h : WalkCost (relabel φ g) (φ a) y c) :
    ∃ b, y = φ b ∧ WalkCost g a b c := by
  generalize hx : φ a = x at h
  induction h with
  | nil => exact ⟨a, hx.symm, WalkCost.nil _⟩
  | snoc _ harc ih =>
    obtain ⟨b, rfl, hb⟩ := ih
    obtain ⟨a', b', h1, h2, h3⟩ := (mem_arcs_relabel φ g).mp harc
    rw [← hφ _ _ h1] at h3
    exact ⟨b', h2, WalkCost.snoc hb h3⟩

theorem walkCost_relabel_iff {a b : Nat} {c : Int} :
    WalkCost (relabel φ g) (φ a) (φ b) c ↔ WalkCost g a b c := by
  constructor
  · intro h
    obtain ⟨b', hb', hr⟩ := walkCost_relabel_inv g hφ h
    rw [hφ _ _ hb']; exact hr
  · exact walkCost_relabel φ g

theorem isShortest_relabel_iff {s v : Nat} {d : Int} :
    IsShortest (relabel φ g) (φ s) (φ v) d ↔ IsShortest g s v d := by
  unfold IsShortest
  constructor
  · rintro ⟨h1, h2⟩
    exact ⟨(walkCost_relabel_iff g hφ).mp h1, fun c hc => h2 c (walkCost_relabel φ g hc)⟩
  · rintro ⟨h1, h2⟩
    exact ⟨walkCost_relabel φ g h1, fun c hc => h2 c ((walkCost_relabel_iff g hφ).mp hc)⟩

theorem wellFormed_relabel (h : g.WellFormed) : (relabel φ g).WellFormed := by
  refine ⟨?_, ?_⟩
  · rw [relabel_nodes]
    exact List.pairwise_map.mpr (List.Pairwise.imp (fun hab hφab => hab (hφ _ _ hφab)) h.1)
  · intro e' he'
    obtain ⟨e, he, rfl⟩ := (mem_relabel_edges φ g).mp he'
    obtain ⟨h1, h2⟩ := h.2 e he
    exact ⟨List.mem_map.mpr ⟨_, h1, rfl⟩, List.mem_map.mpr ⟨_, h2, rfl⟩⟩

theorem mem_relabel_nodes {a : Nat} : φ a ∈ (relabel φ g).nodes ↔ a ∈ g.nodes := by
  rw [relabel_nodes, List.mem_map]
  constructor
  · rintro ⟨x, hx, hxa⟩; rw [← hφ _ _ hxa]; exact hx
  · intro h; exact ⟨a, h, rfl⟩

end Relabel

/-! ### node sets, the undirected reading, and a few list facts -/

/-- the two graphs have the same set of nodes -/
def SameNodes (g1 g2 : MGraph) : Prop := ∀ x, x ∈ g1.nodes ↔ x ∈ g2.nodes

theorem SameNodes.refl (g : MGraph) : SameNodes g g := fun _ => Iff.rfl
theorem SameNodes.symm {g1 g2 : MGraph} (h : SameNodes g1 g2) : SameNodes g2 g1 := fun x => (h x).symm

theorem mem_relabel_nodes_iff (φ : Nat → Nat) (g : MGraph) {y : Nat} :
    y ∈ (relabel φ g).nodes ↔ ∃ x ∈ g.nodes, y = φ x := by
  rw [relabel_nodes, List.mem_map]
  exact ⟨fun ⟨x, hx, h⟩ => ⟨x, hx, h.symm⟩, fun ⟨x, hx, h⟩ => ⟨x, hx, h.symm⟩⟩

theorem adj_undirect {g : MGraph} {a b : Nat} : g.undirect.Adj a b ↔ g.Adj a b ∨ g.Adj b a := by
  unfold MGraph.Adj MGraph.undirect
  constructor
  · rintro ⟨e, he, h | ⟨_, h⟩⟩
    · exact Or.inl ⟨e, he, Or.inl h⟩
    · exact Or.inr ⟨e, he, Or.inl h⟩
  · rintro (⟨e, he, h | ⟨_, h⟩⟩ | ⟨e, he, h | ⟨_, h⟩⟩)
    · exact ⟨e, he, Or.inl h⟩
    · exact ⟨e, he, Or.inr ⟨rfl, h⟩⟩
    · exact ⟨e, he, Or.inr ⟨rfl, h⟩⟩
    · exact ⟨e, he, Or.inl h⟩

theorem SameAdj.undirect {g1 g2 : MGraph} (h : SameAdj g1 g2) : SameAdj g1.undirect g2.undirect := by
  intro a b
  rw [adj_undirect, adj_undirect, h a b, h b a]

theorem relabel_undirect (φ : Nat → Nat) (g : MGraph) : (relabel φ g).undirect = relabel φ g.undirect := rfl

theorem SameAdj.trans {g1 g2 g3 : MGraph} (h : SameAdj g1 g2) (h' : SameAdj g2 g3) : SameAdj g1 g3 :=
  fun a b => (h a b).trans (h' a b)

/-- the first node of a non-empty walk of the relabeled graph is an image -/
theorem reach1_relabel_start (φ : Nat → Nat) (g : MGraph) {x y : Nat} (h : Reach1 (relabel φ g) x y) :
    ∃ a, x = φ a := by
  induction h with
  | single hc =>
    obtain ⟨a, _, h1, _, _⟩ := (adj_relabel_iff φ g).mp hc
    exact ⟨a, h1⟩
  | step _ _ ih => exact ih

theorem nodup_map_inj {φ : Nat → Nat} (hφ : Inj φ) {l : List Nat} (h : l.Nodup) : (l.map φ).Nodup :=
  List.pairwise_map.mpr (List.Pairwise.imp (fun hab hφab => hab (hφ _ _ hφab)) h)

theorem mem_map_inj {φ : Nat → Nat} (hφ : Inj φ) {l : List Nat} {a : Nat} : φ a ∈ l.map φ ↔ a ∈ l := by
  rw [List.mem_map]
  constructor
  · rintro ⟨x, hx, hxa⟩; rw [← hφ _ _ hxa]; exact hx
  · intro h; exact ⟨a, h, rfl⟩

theorem idxOf_map_inj {φ : Nat → Nat} (hφ : Inj φ) (l : List Nat) (a : Nat) :
    (l.map φ).idxOf (φ a) = l.idxOf a := by
  induction l with
  | nil => rfl
  | cons x r ih =>
    simp only [List.map_cons, List.idxOf_cons, ih]
    by_cases h : x = a
    · subst h; simp
    · have : φ x ≠ φ a := fun h' => h (hφ _ _ h')
      have e1 : (φ x == φ a) = false := by simpa using this
      have e2 : (x == a) = false := by simpa using h
      rw [e1, e2]

/-- a list inside the image of `l` under `φ` is the image of a list inside `l` -/
theorem exists_preimage_list (φ : Nat → Nat) (l : List Nat) :
    ∀ l' : List Nat, (∀ y ∈ l', y ∈ l.map φ) → ∃ r : List Nat, (∀ x ∈ r, x ∈ l) ∧ r.map φ = l' := by
  intro l'
  induction l' with
  | nil => intro _; exact ⟨[], by simp, rfl⟩
  | cons y t ih =>
    intro h
    obtain ⟨r, hr, hrt⟩ := ih fun z hz => h z (List.mem_cons_of_mem _ hz)
    obtain ⟨x, hx, hxy⟩ := List.mem_map.mp (h y (List.mem_cons_self ..))
    refine ⟨x :: r, ?_, by simp [hxy, hrt]⟩
    intro z hz
    rcases List.mem_cons.mp hz with rfl | hz
    · exact hx
    · exact hr z hz

end PetgraphModel.C07W2
