import PetgraphModel.Model.AcyclicGraph
import PetgraphModel.Proofs.Graph
import PetgraphModel.Proofs.GraphRemove
import PetgraphModel.Proofs.C14W4Checks
import PetgraphModel.Proofs.C14W4Range
/-
C14 (wave 4, goal 1): the inner-graph contracts instantiated with the C01 storage model.

`Acyclic<DiGraph>` = the C01 mirror model `G.State` (hand-written mirror of `graph_impl/mod.rs`,
`Model/Graph.lean`) + the C14 bookkeeping `Acy.AState`.  `gView s` is what the generic code of
`Acyclic<G>` sees of a `Graph`: `node_identifiers()` = `0 .. node_count`, `node_bound()` = `node_count`,
`neighbors_directed(a, dir)` = the model's `G.neighborsDirected` (the walk along the `next` links).

* `gView_checked`   under the C01 invariant (`GProofs.Inv`, proved for every reachable state of the C01
                    model) a directed `Graph` presents a well-formed view: `ViewOk`, `Closed`, sources
                    live, indices below `node_bound`, and the neighbour lists fit both fuels
                    (each edge is listed once: `Σ |succ| ≤ |E|`);
* `contract_*`      `add_node`, `add_edge` / `update_edge`, `remove_edge`, `remove_node` of the C01 model
                    satisfy `Call.InnerOk` and `EdgesOk` — `remove_node` through `C01`'s `swap_remove`
                    theorem: the last node moves into the freed index (`RemoveContract`, `rho`).
-/
namespace PetgraphModel.AcyG
open PetgraphModel PetgraphModel.MGraph PetgraphModel.Dag PetgraphModel.Acy
open PetgraphModel.AcyProofs PetgraphModel.AcyPK PetgraphModel.AcyNP PetgraphModel.AcyTS PetgraphModel.AcyW2
open PetgraphModel.AcyW4 PetgraphModel.GProofs

/-! ### the view of a `Graph` -/

/-- the edge relation of a state -/
def GE (s : G.State) (x y : Nat) : Prop := ∃ (e : Nat) (ed : G.Edge), s.edges[e]? = some ed ∧ ed.src = x ∧ ed.tgt = y

theorem lookup_tab {α : Type} (f : Nat → α) : ∀ (l : List Nat) (x : Nat),
    (l.map fun a => (a, f a)).lookup x = if x ∈ l then some (f x) else none := by
  intro l
  induction l with
  | nil => intro x; rfl
  | cons a t ih =>
    intro x
    simp only [List.map_cons, List.lookup]
    by_cases hxa : x = a
    · subst hxa; simp
    · have : (x == a) = false := beq_false_of_ne hxa
      simp only [this, ih x, List.mem_cons, hxa, false_or]

theorem gView_nodes (s : G.State) : (gView s).g.nodes = List.range s.nodes.length := rfl
theorem mem_gView_nodes {s : G.State} {a : Nat} : a ∈ (gView s).g.nodes ↔ a < s.nodes.length := by
  simp [gView]

theorem gView_succ (s : G.State) (a : Nat) :
    (gView s).succ a = if a < s.nodes.length then (nbRow s false a).map (·.1) else [] := by
  simp only [View.succ, View.outOf, gView, lookup_tab, List.mem_range]
  split <;> simp

theorem gView_pred (s : G.State) (a : Nat) :
    (gView s).pred a = if a < s.nodes.length then (nbRow s true a).map (·.1) else [] := by
  simp only [View.pred, View.innOf, gView, lookup_tab, List.mem_range]
  split <;> simp

/-- the chain behind a row: for a live node of a directed graph satisfying the C01 invariant,
`neighbors_directed(a, k)` is the fault-free walk over exactly the edges whose `node[k]` is `a` -/
theorem nbRow_chain {s : G.State} (h : Inv s) (hd : s.directed = true) (k : Bool) {a : Nat} {nd : G.Node}
    (hnd : s.nodes[a]? = some nd) :
    ∃ c, ChainSpec s k a c ∧ nbRow s k a = c.map fun p => (p.2.node (!k), p.1) := by
  obtain ⟨c, hc, hspec⟩ := h.chain_spec k a nd hnd
  refine ⟨c, hspec, ?_⟩
  have hend : ∀ k', G.chain s.edges k' s.fuel s.endv = .ok [] := fun k' => h.chain_end k' s.edges.length
  unfold nbRow G.neighborsDirected G.heads
  simp only [hnd, hd, if_true]
  cases k with
  | false =>
    simp only [Bool.false_eq_true, if_false, G.nbrIter]
    have hc' : G.chain s.edges false s.fuel nd.next0 = .ok c := by simpa [G.Node.next] using hc
    rw [hc', hend true]
    simp [G.Edge.node, Function.comp_def]
  | true =>
    simp only [if_true, G.nbrIter]
    have hc' : G.chain s.edges true s.fuel nd.next1 = .ok c := by simpa [G.Node.next] using hc
    rw [hc', hend false]
    have hfil : c.filter (fun p => p.2.src != s.endv) = c := by
      apply List.filter_eq_self.mpr
      intro p hp
      have := (h.ends p.1 p.2 (hspec.slots p hp)).1
      have := h.szN
      simp only [bne_iff_ne, ne_eq]
      omega
    simp [hfil, G.Edge.node, Function.comp_def]

theorem mem_succ_iff {s : G.State} (h : Inv s) (hd : s.directed = true) (x y : Nat) :
    y ∈ (gView s).succ x ↔ GE s x y := by
  rw [gView_succ]
  by_cases hx : x < s.nodes.length
  · simp only [hx, if_true]
    obtain ⟨c, hspec, hrow⟩ := nbRow_chain h hd false (List.getElem?_eq_getElem hx)
    rw [hrow]
    simp only [List.map_map, List.mem_map, Function.comp]
    constructor
    · rintro ⟨p, hp, rfl⟩
      have hinc := (hspec.mem p.1).mp (List.mem_map.mpr ⟨p, hp, rfl⟩)
      obtain ⟨ed, hed, hk⟩ := hinc
      have := hspec.slots p hp
      rw [hed] at this; cases this
      exact ⟨p.1, p.2, hed, by simpa [G.Edge.node] using hk, by simp [G.Edge.node]⟩
    · rintro ⟨e, ed, hed, hsrc, htgt⟩
      have hinc : Incident s false x e := ⟨ed, hed, by simpa [G.Edge.node] using hsrc⟩
      obtain ⟨p, hp, hpe⟩ := List.mem_map.mp ((hspec.mem e).mpr hinc)
      refine ⟨p, hp, ?_⟩
      have := hspec.slots p hp
      rw [hpe, hed] at this; cases this
      simpa [G.Edge.node] using htgt
  · simp only [hx, if_false]
    constructor
    · intro hm; cases hm
    · rintro ⟨e, ed, hed, hsrc, _⟩
      exact absurd (hsrc ▸ (h.ends e ed hed).1) hx

theorem mem_pred_iff {s : G.State} (h : Inv s) (hd : s.directed = true) (x y : Nat) :
    y ∈ (gView s).pred x ↔ GE s y x := by
  rw [gView_pred]
  by_cases hx : x < s.nodes.length
  · simp only [hx, if_true]
    obtain ⟨c, hspec, hrow⟩ := nbRow_chain h hd true (List.getElem?_eq_getElem hx)
    rw [hrow]
    simp only [List.map_map, List.mem_map, Function.comp]
    constructor
    · rintro ⟨p, hp, rfl⟩
      have hinc := (hspec.mem p.1).mp (List.mem_map.mpr ⟨p, hp, rfl⟩)
      obtain ⟨ed, hed, hk⟩ := hinc
      have := hspec.slots p hp
      rw [hed] at this; cases this
      exact ⟨p.1, p.2, hed, by simp [G.Edge.node], by simpa [G.Edge.node] using hk⟩
    · rintro ⟨e, ed, hed, hsrc, htgt⟩
      have hinc : Incident s true x e := ⟨ed, hed, by simpa [G.Edge.node] using htgt⟩
      obtain ⟨p, hp, hpe⟩ := List.mem_map.mp ((hspec.mem e).mpr hinc)
      refine ⟨p, hp, ?_⟩
      have := hspec.slots p hp
      rw [hpe, hed] at this; cases this
      simpa [G.Edge.node] using hsrc
  · simp only [hx, if_false]
    constructor
    · intro hm; cases hm
    · rintro ⟨e, ed, hed, _, htgt⟩
      exact absurd (htgt ▸ (h.ends e ed hed).2) hx

theorem mem_allERefs {s : G.State} {r : G.ERef} :
    r ∈ G.allERefs s ↔ ∃ ed, s.edges[r.ix]? = some ed ∧ r.src = ed.src ∧ r.tgt = ed.tgt ∧ r.weight = ed.weight := by
  unfold G.allERefs
  rw [List.mem_iff_getElem?]
  constructor
  · rintro ⟨i, hi⟩
    rw [List.getElem?_zipWith] at hi
    cases h1 : (List.range s.edges.length)[i]? with
    | none => simp [h1] at hi
    | some j =>
      cases h2 : s.edges[i]? with
      | none => simp [h1, h2] at hi
      | some ed =>
        simp only [h1, h2, Option.map_some, Option.bind_some, Option.some.injEq] at hi
        have hj : j = i := by
          have := List.getElem?_eq_some_iff.mp h1
          obtain ⟨hlt, he⟩ := this
          simpa using he.symm
        subst hi
        exact ⟨ed, by simpa [hj] using h2, rfl, rfl, rfl⟩
  · rintro ⟨ed, hed, h1, h2, h3⟩
    refine ⟨r.ix, ?_⟩
    have hlt := lt_of_getElem? hed
    rw [List.getElem?_zipWith]
    have : (List.range s.edges.length)[r.ix]? = some r.ix := by
      rw [List.getElem?_eq_getElem (by simpa using hlt)]; simp
    simp only [this, hed, Option.map_some, Option.bind_some, Option.some.injEq]
    cases r; simp_all

theorem adj_iff {s : G.State} (x y : Nat) : (gView s).g.Adj x y ↔ GE s x y := by
  unfold MGraph.Adj GE
  simp only [gView, gEdges, List.mem_map]
  constructor
  · rintro ⟨e, ⟨r, hr, rfl⟩, h | h⟩
    · obtain ⟨ed, hed, h1, h2, _⟩ := mem_allERefs.mp hr
      exact ⟨r.ix, ed, hed, by rw [← h1]; exact h.1, by rw [← h2]; exact h.2⟩
    · cases h.1
  · rintro ⟨e, ed, hed, h1, h2⟩
    refine ⟨⟨e, ed.src, ed.tgt, (ed.weight : Int)⟩, ⟨⟨e, ed.src, ed.tgt, ed.weight⟩, ?_, rfl⟩, Or.inl ⟨h1, h2⟩⟩
    exact mem_allERefs.mpr ⟨ed, hed, rfl, rfl, rfl⟩

/-! ### each edge is listed once: the neighbour lists fit the fuel -/

theorem nodup_flatMap_range (f : Nat → List Nat) (hn : ∀ a, (f a).Nodup)
    (hdisj : ∀ a b e, e ∈ f a → e ∈ f b → a = b) : ∀ n, ((List.range n).flatMap f).Nodup := by
  intro n
  induction n with
  | zero => simp
  | succ n ih =>
    rw [List.range_succ, List.flatMap_append, List.nodup_append]
    refine ⟨ih, by simpa using hn n, ?_⟩
    intro x hx y hy hxy
    subst hxy
    obtain ⟨a, ha, hxa⟩ := List.mem_flatMap.mp hx
    have hy' : x ∈ f n := by simpa using hy
    have := hdisj a n x hxa hy'
    rw [List.mem_range] at ha
    omega

/-- `Σ_{a<n} |f a| ≤ E` when the `f a` are duplicate-free, pairwise disjoint lists of numbers `< E` -/
theorem sum_lengths_le (f : Nat → List Nat) (E : Nat) (hn : ∀ a, (f a).Nodup)
    (hdisj : ∀ a b e, e ∈ f a → e ∈ f b → a = b) (hlt : ∀ a e, e ∈ f a → e < E) (n : Nat) :
    ((List.range n).map fun a => (f a).length).sum ≤ E := by
  rw [← List.length_flatMap]
  apply nodup_length_le (nodup_flatMap_range f hn hdisj n)
  intro e he
  obtain ⟨a, _, hea⟩ := List.mem_flatMap.mp he
  exact hlt a e hea

/-- the edge ids of a row -/
def rowIds (s : G.State) (k : Bool) (a : Nat) : List Nat :=
  if a < s.nodes.length then (nbRow s k a).map (·.2) else []

theorem rowIds_spec {s : G.State} (h : Inv s) (hd : s.directed = true) (k : Bool) (a : Nat) :
    (rowIds s k a).Nodup ∧ ∀ e, e ∈ rowIds s k a → Incident s k a e := by
  unfold rowIds
  by_cases ha : a < s.nodes.length
  · simp only [ha, if_true]
    obtain ⟨c, hspec, hrow⟩ := nbRow_chain h hd k (List.getElem?_eq_getElem ha)
    have : (nbRow s k a).map (·.2) = c.map Prod.fst := by rw [hrow]; simp [Function.comp_def]
    rw [this]
    exact ⟨hspec.nodup, fun e he => (hspec.mem e).mp he⟩
  · simp [ha]

theorem sum_rows_le {s : G.State} (h : Inv s) (hd : s.directed = true) (k : Bool) :
    ((List.range s.nodes.length).map fun a => (rowIds s k a).length).sum ≤ s.edges.length := by
  apply sum_lengths_le (rowIds s k) s.edges.length
  · exact fun a => (rowIds_spec h hd k a).1
  · intro a b e ha hb
    obtain ⟨ed, hed, hk⟩ := (rowIds_spec h hd k a).2 e ha
    obtain ⟨ed', hed', hk'⟩ := (rowIds_spec h hd k b).2 e hb
    rw [hed] at hed'; cases hed'
    rw [← hk, ← hk']
  · intro a e he
    obtain ⟨ed, hed, _⟩ := (rowIds_spec h hd k a).2 e he
    exact lt_of_getElem? hed

theorem gEdges_length (s : G.State) : (gView s).g.edges.length = s.edges.length := by
  simp [gView, gEdges, G.allERefs]

theorem nbrs_length (s : G.State) (dir : Dir) (a : Nat) :
    (nbrs dir (gView s) a).length = (rowIds s (match dir with | .fut => false | .past => true) a).length := by
  cases dir with
  | fut => simp only [nbrs, gView_succ, rowIds]; split <;> simp
  | past => simp only [nbrs, gView_pred, rowIds]; split <;> simp

/-- what a directed `Graph` satisfying the C01 invariant presents to `Acyclic<G>` -/
structure ViewGood (v : View) : Prop where
  directed : v.g.directed = true
  edgesLive : ∀ e ∈ v.g.edges, e.src ∈ v.g.nodes ∧ e.tgt ∈ v.g.nodes
  viewOk : ViewOk v
  closed : Closed v
  srcLive : ∀ x y, y ∈ v.succ x → x ∈ v.g.nodes
  index : ∀ x ∈ v.g.nodes, x < v.nb
  dfsFuelOk : ∀ dir, needL (fun x => (nbrs dir v x).length) [] v.g.nodes + 1 ≤ dfsFuel v
  topoFuelOk : needL (fun x => (v.succ x).length) [] v.g.nodes + 2 ≤ tsFuel v

theorem ViewGood.of_checked {v : View} (c : ViewChecked v) : ViewGood v :=
  ⟨c.directed, c.edgesLive, c.viewOk, c.closed, c.srcLive, c.index, c.dfsFuelOk, c.topoFuelOk⟩

theorem ge_live {s : G.State} (h : Inv s) {x y : Nat} (hg : GE s x y) : x < s.nodes.length ∧ y < s.nodes.length := by
  obtain ⟨e, ed, hed, h1, h2⟩ := hg
  exact ⟨h1 ▸ (h.ends e ed hed).1, h2 ▸ (h.ends e ed hed).2⟩

/-- **a directed `Graph` satisfying the C01 invariant presents a well-formed view** -/
theorem gView_good {s : G.State} (h : Inv s) (hd : s.directed = true) : ViewGood (gView s) := by
  have hvo : ViewOk (gView s) :=
    ⟨fun x y => (mem_succ_iff h hd x y).trans (adj_iff x y).symm,
     fun x y => (mem_pred_iff h hd x y).trans (adj_iff y x).symm⟩
  have hfuel : ∀ dir, needL (fun x => (nbrs dir (gView s) x).length) [] (gView s).g.nodes ≤
      s.nodes.length + s.edges.length := by
    intro dir
    rw [needL_nil_eq, gView_nodes, List.length_range]
    have := sum_rows_le h hd (match dir with | .fut => false | .past => true)
    simp only [nbrs_length]
    omega
  refine ⟨rfl, ?_, hvo, ?_, ?_, ?_, ?_, ?_⟩
  · intro e he
    have hadj : (gView s).g.Adj e.src e.tgt := ⟨e, he, Or.inl ⟨rfl, rfl⟩⟩
    have := ge_live h ((adj_iff _ _).mp hadj)
    exact ⟨mem_gView_nodes.mpr this.1, mem_gView_nodes.mpr this.2⟩
  · intro x _
    exact ⟨fun y hy => mem_gView_nodes.mpr (ge_live h ((mem_succ_iff h hd x y).mp hy)).2,
      fun y hy => mem_gView_nodes.mpr (ge_live h ((mem_pred_iff h hd x y).mp hy)).1⟩
  · intro x y hy
    exact mem_gView_nodes.mpr (ge_live h ((mem_succ_iff h hd x y).mp hy)).1
  · intro x hx
    exact mem_gView_nodes.mp hx
  · intro dir
    have := hfuel dir
    have hE := gEdges_length s
    have hN : (gView s).g.nodes.length = s.nodes.length := by simp [gView]
    have hnb : (gView s).nb = s.nodes.length := rfl
    unfold dfsFuel
    rw [hE, hN, hnb]
    omega
  · have := hfuel .fut
    have hE := gEdges_length s
    have hN : (gView s).g.nodes.length = s.nodes.length := by simp [gView]
    simp only [nbrs] at this
    unfold tsFuel
    rw [hE, hN]
    omega

/-- a good view and an order-map state accepted by the invariant give `Safe` -/
theorem ViewGood.safe {v : View} {s : AState} (g : ViewGood v) (h : Inv2 v s) : Safe v s :=
  ⟨h, g.index, g.dfsFuelOk⟩

/-! ### the contracts of the inner graph, call by call -/

theorem ge_of_edges_eq {s s' : G.State} (he : s'.edges.map edgeEnds = s.edges.map edgeEnds) {x y : Nat}
    (hg : GE s' x y) : GE s x y := by
  obtain ⟨e, ed, hed, h1, h2⟩ := hg
  obtain ⟨ed0, hed0, hends⟩ := map_eq_getElem? he e hed
  simp only [edgeEnds, Prod.mk.injEq] at hends
  exact ⟨e, ed0, hed0, by rw [← hends.1]; exact h1, by rw [← hends.2.1]; exact h2⟩

/-- `GE` through the `(src, tgt, weight)` content -/
theorem ge_iff_mem {s : G.State} {x y : Nat} :
    GE s x y ↔ ∃ t ∈ s.edges.map edgeEnds, t.1 = x ∧ t.2.1 = y := by
  constructor
  · rintro ⟨e, ed, hed, h1, h2⟩
    exact ⟨edgeEnds ed, List.mem_map.mpr ⟨ed, List.mem_of_getElem? hed, rfl⟩, h1, h2⟩
  · rintro ⟨t, ht, h1, h2⟩
    obtain ⟨ed, hed, rfl⟩ := List.mem_map.mp ht
    obtain ⟨e, he⟩ := List.getElem?_of_mem hed
    exact ⟨e, ed, he, h1, h2⟩

/-- `add_node`: the new index is `node_count`, nothing else changes -/
theorem contract_addNode {s s' : G.State} {w i : Nat} (h : Inv s) (hd : s.directed = true)
    (hs : G.tryAddNode s w = (s', some i)) :
    Inv s' ∧ s'.directed = true ∧ i = s.nodes.length ∧
    (Call.addNode i (gView s')).InnerOk (gView s) ∧ EdgesOk (gView s) (.addNode i (gView s')) := by
  have hinv' : Inv s' := by have := inv_tryAddNode h w; rw [hs] at this; exact this
  have hd' : s'.directed = true := by have := tryAddNode_directed s w; rw [hs] at this; rw [this]; exact hd
  unfold G.tryAddNode at hs
  simp only at hs
  split at hs
  · simp only [Prod.mk.injEq, Option.some.injEq] at hs
    obtain ⟨hs', hi⟩ := hs
    have hlen : s'.nodes.length = s.nodes.length + 1 := by rw [← hs']; simp
    have hedges : s'.edges = s.edges := by rw [← hs']
    have g' := gView_good hinv' hd'
    refine ⟨hinv', hd', hi.symm, ⟨?_, ?_, g'.closed⟩, ⟨?_, g'.viewOk, g'.srcLive⟩⟩
    · rw [mem_gView_nodes]; omega
    · intro x
      rw [mem_gView_nodes, mem_gView_nodes, hlen]; omega
    · intro x y hy
      rw [mem_succ_iff h hd]
      have := (mem_succ_iff hinv' hd' x y).mp hy
      exact ge_of_edges_eq (by rw [hedges]) this
  · simp at hs

/-- `add_edge(a, b, w)` on live endpoints: one new adjacency `a → b` -/
theorem contract_addEdge {s s' : G.State} {a b w e : Nat} (h : Inv s) (hd : s.directed = true)
    (hs : G.tryAddEdge s a b w = (s', .ok e)) :
    Inv s' ∧ s'.directed = true ∧
    (Call.edge a b (gView s')).InnerOk (gView s) ∧ EdgesOk (gView s) (.edge a b (gView s')) := by
  have hinv' : Inv s' := by have := inv_tryAddEdge h a b w; rw [hs] at this; exact this
  have hd' : s'.directed = true := by have := tryAddEdge_directed s a b w; rw [hs] at this; rw [this]; exact hd
  obtain ⟨an, bn, han, hbn, _, _, _, _, hedges, hlen, _⟩ := tryAddEdge_ok hs
  have g' := gView_good hinv' hd'
  refine ⟨hinv', hd', ⟨mem_gView_nodes.mpr (lt_of_getElem? han), mem_gView_nodes.mpr (lt_of_getElem? hbn), ?_, g'.closed⟩,
    ⟨?_, g'.viewOk, g'.srcLive⟩⟩
  · simp only [gView_nodes, hlen]
  · intro x y hy
    rw [mem_succ_iff h hd]
    obtain ⟨e', ed, hed, h1, h2⟩ := (mem_succ_iff hinv' hd' x y).mp hy
    rw [hedges, List.getElem?_append] at hed
    split at hed
    · exact Or.inl ⟨e', ed, hed, h1, h2⟩
    · right
      have : ed = ⟨w, an.next0, bn.next1, a, b⟩ := by
        cases hq : e' - s.edges.length with
        | zero => simp [hq] at hed; exact hed.symm
        | succ q => simp [hq] at hed
      subst this
      exact ⟨h1.symm, h2.symm⟩

/-- `update_edge(a, b, w)` on live endpoints: a weight is overwritten or `a → b` is added -/
theorem contract_updateEdge {s s' : G.State} {a b w e : Nat} (h : Inv s) (hd : s.directed = true)
    (ha : a < s.nodes.length) (hb : b < s.nodes.length)
    (hs : G.tryUpdateEdge s a b w = .ok (s', .ok e)) :
    Inv s' ∧ s'.directed = true ∧
    (Call.edge a b (gView s')).InnerOk (gView s) ∧ EdgesOk (gView s) (.edge a b (gView s')) := by
  have hinv' : Inv s' := inv_tryUpdateEdge h a b w hs
  unfold G.tryUpdateEdge at hs
  split at hs
  · cases hs
  · rename_i ix _
    split at hs
    · rename_i ed hed
      simp only [Except.ok.injEq, Prod.mk.injEq] at hs
      obtain ⟨hs', _⟩ := hs
      have hd' : s'.directed = true := by rw [← hs']; exact hd
      have hlen : s'.nodes.length = s.nodes.length := by rw [← hs']
      have hcontent : ∀ x y, GE s' x y → GE s x y := by
        intro x y hg
        obtain ⟨e', ed', hed', h1, h2⟩ := hg
        rw [← hs'] at hed'
        simp only [List.getElem?_set] at hed'
        split at hed'
        · rename_i heq
          split at hed'
          · simp only [Option.some.injEq] at hed'
            subst hed'
            exact ⟨ix, ed, hed, h1, h2⟩
          · cases hed'
        · exact ⟨e', ed', hed', h1, h2⟩
      have g' := gView_good hinv' hd'
      refine ⟨hinv', hd', ⟨mem_gView_nodes.mpr ha, mem_gView_nodes.mpr hb, by simp only [gView_nodes, hlen], g'.closed⟩,
        ⟨?_, g'.viewOk, g'.srcLive⟩⟩
      intro x y hy
      left
      rw [mem_succ_iff h hd]
      exact hcontent x y ((mem_succ_iff hinv' hd' x y).mp hy)
    · simp only [Except.ok.injEq] at hs
      exact contract_addEdge h hd hs
  · simp only [Except.ok.injEq] at hs
    exact contract_addEdge h hd hs

theorem rho_gView (s s' : G.State) (a z : Nat) :
    rho (gView s) (gView s') a z = if z = a ∧ a < s'.nodes.length then s.nodes.length - 1 else z := by
  unfold rho
  have hnb : (gView s).nb = s.nodes.length := rfl
  by_cases h1 : z = a <;> by_cases h2 : a < s'.nodes.length <;> simp [h1, h2, hnb, mem_gView_nodes]

theorem mem_swapRemove {α : Type} {l : List α} {i : Nat} {x : α} (hi : i < l.length) (hx : x ∈ G.swapRemove l i) :
    x ∈ l := by
  obtain ⟨j, hj⟩ := List.getElem?_of_mem hx
  rw [swapRemove_get l i hi] at hj
  split at hj
  · split at hj
    · exact List.mem_of_getElem? hj
    · exact List.mem_of_getElem? hj
  · cases hj

/-- `remove_edge(e)` of a live edge: no adjacency appears, the nodes stay -/
theorem contract_removeEdge {s : G.State} {e : Nat} {ed : G.Edge} (h : Inv s) (hd : s.directed = true)
    (hed : s.edges[e]? = some ed) :
    ∃ s', G.removeEdge s e = .ok (s', some ed.weight) ∧ Inv s' ∧ s'.directed = true ∧
      (Call.removeEdge (gView s')).InnerOk (gView s) ∧ EdgesOk (gView s) (.removeEdge (gView s')) := by
  obtain ⟨s', hs', hinv', hrem⟩ := removeEdge_spec h hed
  have hd' : s'.directed = true := by rw [hrem.directed]; exact hd
  have hlen : s'.nodes.length = s.nodes.length := by
    have := congrArg List.length hrem.nodes
    simpa using this
  have g' := gView_good hinv' hd'
  refine ⟨s', hs', hinv', hd', ⟨by simp only [gView_nodes, hlen], g'.closed⟩, ⟨?_, g'.viewOk, g'.srcLive⟩⟩
  intro x y hy
  rw [mem_succ_iff h hd]
  obtain ⟨t, ht, h1, h2⟩ := ge_iff_mem.mp ((mem_succ_iff hinv' hd' x y).mp hy)
  rw [hrem.edges] at ht
  exact ge_iff_mem.mpr ⟨t, mem_swapRemove (by simpa using lt_of_getElem? hed) ht, h1, h2⟩

/-- `remove_node(a)` of a live node: `swap_remove` — the last node `node_count - 1` moves into index
`a` (unless `a` is the last), the edges at `a` vanish, every other adjacency survives up to that
renaming: exactly `RemoveContract` and the `rho` clause of `EdgesOk`. -/
theorem contract_removeNode {s : G.State} {a : Nat} {nd : G.Node} (h : Inv s) (hd : s.directed = true)
    (hnd : s.nodes[a]? = some nd) :
    ∃ s', G.removeNode s a = .ok (s', some nd.weight) ∧ Inv s' ∧ s'.directed = true ∧
      s'.nodes.length = s.nodes.length - 1 ∧
      (Call.removeNode a (gView s')).InnerOk (gView s) ∧ EdgesOk (gView s) (.removeNode a (gView s')) := by
  obtain ⟨s', hs', hinv', hnodes, _, hdir, hperm⟩ := removeNode_spec h hnd
  have ha := lt_of_getElem? hnd
  have hd' : s'.directed = true := by rw [hdir]; exact hd
  have hlen : s'.nodes.length = s.nodes.length - 1 := by
    have := congrArg List.length hnodes
    rw [swapRemove_length _ _ (by simpa using ha)] at this
    simpa using this
  have g' := gView_good hinv' hd'
  refine ⟨s', hs', hinv', hd', hlen, ⟨fun _ => ?_, g'.closed⟩, ⟨?_, g'.viewOk, g'.srcLive⟩⟩
  · -- RemoveContract
    unfold RemoveContract
    simp only [mem_gView_nodes, hlen]
    have hnb : (gView s).nb = s.nodes.length := rfl
    rw [hnb]
    by_cases hlast : a = s.nodes.length - 1
    · left
      refine ⟨by omega, fun x => by omega⟩
    · right
      refine ⟨by omega, by omega, fun hh => hlast hh.symm, fun x => by omega⟩
  · intro x y hy
    rw [mem_succ_iff h hd]
    obtain ⟨t, ht, h1, h2⟩ := ge_iff_mem.mp ((mem_succ_iff hinv' hd' x y).mp hy)
    have ht' := (hperm.mem_iff).mp ht
    obtain ⟨t0, ht0, rfl⟩ := List.mem_map.mp ht'
    obtain ⟨hmem0, hnot⟩ := List.mem_filter.mp ht0
    simp only [notAt, Bool.and_eq_true, bne_iff_ne, ne_eq] at hnot
    refine ge_iff_mem.mpr ⟨t0, hmem0, ?_, ?_⟩
    · -- source
      rw [rho_gView, hlen, ← h1]
      simp only [renT]
      have hlive : t0.1 < s.nodes.length := by
        obtain ⟨ed0, hed0, rfl⟩ := List.mem_map.mp hmem0
        obtain ⟨j, hj⟩ := List.getElem?_of_mem hed0
        exact (h.ends j ed0 hj).1
      by_cases hm : t0.1 = s.nodes.length - 1
      · simp only [hm, if_true]
        have : a < s.nodes.length - 1 := by
          have := hnot.1; omega
        simp [this]
      · simp only [hm, if_false]
        have : ¬ (t0.1 = a ∧ a < s.nodes.length - 1) := fun hh => hnot.1 hh.1
        simp [this]
    · rw [rho_gView, hlen, ← h2]
      simp only [renT]
      have hlive : t0.2.1 < s.nodes.length := by
        obtain ⟨ed0, hed0, rfl⟩ := List.mem_map.mp hmem0
        obtain ⟨j, hj⟩ := List.getElem?_of_mem hed0
        exact (h.ends j ed0 hj).2
      by_cases hm : t0.2.1 = s.nodes.length - 1
      · simp only [hm, if_true]
        have : a < s.nodes.length - 1 := by
          have := hnot.2; omega
        simp [this]
      · simp only [hm, if_false]
        have : ¬ (t0.2.1 = a ∧ a < s.nodes.length - 1) := fun hh => hnot.2 hh.1
        simp [this]

/-! ### `Acyclic<DiGraph>` as one machine: C01 storage model + C14 bookkeeping -/

/-- the invariant of the combined machine: the C01 invariant of the inner graph, and the C14
invariant (order-map bijection, clear scratch sets, valid order) over the view it presents -/
def AGInv (x : AG) : Prop := GProofs.Inv x.g ∧ x.g.directed = true ∧ Inv2 (gView x.g) x.a

theorem inv2_congr {v : View} {s s' : AState} (h : Inv2 v s) (h1 : s'.om = s.om) (h2 : s'.disc = s.disc)
    (h3 : s'.fin = s.fin) : Inv2 v s' := by
  obtain ⟨⟨hom, hclr, hcl⟩, hov, hvo, hsrc⟩ := h
  exact ⟨⟨h1 ▸ hom, ⟨by rw [h2]; exact hclr.1, by rw [h3]; exact hclr.2⟩, hcl⟩, h1 ▸ hov, hvo, hsrc⟩

theorem accepted_live {v : View} {s s' : AState} {a b : Nat} (h : Acy.tryAddEdge v s a b = .ok (s', .accepted)) :
    a ∈ v.g.nodes ∧ b ∈ v.g.nodes := by
  apply Classical.byContradiction
  intro hn
  have : a ∉ v.g.nodes ∨ b ∉ v.g.nodes := by
    by_cases ha : a ∈ v.g.nodes
    · right; intro hb; exact hn ⟨ha, hb⟩
    · left; exact ha
  exact (absent_never_accepted this h).1 rfl

/-- `is_valid_edge` keeps the invariant (it touches neither the order map nor, observably, the scratch sets) -/
theorem isValid_inv2 {v : View} {s s' : AState} {a b : Nat} {r : Bool} (h2 : Inv2 v s)
    (hv : Acy.isValidEdge v s a b = .ok (s', r)) : Inv2 v s' := by
  unfold Acy.isValidEdge at hv
  split at hv
  · cases hv; exact h2
  split at hv
  · cases hv
  split at hv
  · cases hv
  split at hv
  · cases hv; exact h2
  split at hv
  · cases hv
  · rename_i s1 c hcc
    cases hv
    obtain ⟨h1, _, h3, _⟩ := causalCones_unchanged hcc
    exact inv2_congr h2 h1 (by rw [h3.1, h2.1.2.1.1]) (by rw [h3.2, h2.1.2.1.2])

/-- `remove_node` of a live node answers `Some(weight)` in the bookkeeping model -/
theorem removeNode_live_flag {v v' : View} {s s' : AState} {n : Nat} {fl : Bool} (hn : n ∈ v.g.nodes)
    (h : Acy.removeNode v v' s n = .ok (s', fl)) : fl = true := by
  have hlive : live v n = true := (live_iff _ _).mpr hn
  unfold Acy.removeNode at h
  simp only [hlive, Bool.not_true, Bool.false_eq_true, if_false] at h
  split at h
  · cases h
  · split at h
    · split at h
      · cases h
      · split at h
        · cases h
        · cases h; rfl
    · cases h; rfl

theorem ag_inv_new (endv cap : Nat) : AGInv (AG.new endv cap) := by
  have hi : GProofs.Inv (G.empty endv true) := inv_empty endv true
  have g := gView_good hi rfl
  refine ⟨hi, rfl, ⟨⟨inv_empty, ⟨rfl, rfl⟩, g.closed⟩, ?_, g.viewOk, g.srcLive⟩⟩
  intro a b hb
  have := g.srcLive a b hb
  simp [gView, G.empty] at this

/-- an accepted edge insertion, either flavour -/
theorem ag_edge_accepted {x : AG} {a b : Nat} {a' : AState} {g' : G.State} (hx : AGInv x)
    (hacc : Acy.tryAddEdge (gView x.g) x.a a b = .ok (a', .accepted))
    (hc : GProofs.Inv g' ∧ g'.directed = true ∧
      (Call.edge a b (gView g')).InnerOk (gView x.g) ∧ EdgesOk (gView x.g) (.edge a b (gView g'))) :
    AGInv ⟨g', a'⟩ := by
  obtain ⟨hi', hd', hin, hed⟩ := hc
  refine ⟨hi', hd', ?_⟩
  have hstep : stepCall (gView x.g) x.a (.edge a b (gView g')) = .ok (gView g', a') := by
    simp only [stepCall, hacc]
  exact inv2_step hx.2.2 hin hed hstep

/-- **every call preserves the invariant of `Acyclic<DiGraph>`** — with arbitrary (also absent)
arguments, whenever the call returns -/
theorem ag_inv_step {x x' : AG} {op : AOp} (hx : AGInv x) (h : x.step op = .ok x') : AGInv x' := by
  obtain ⟨hi, hd, h2⟩ := hx
  cases op with
  | addNode w =>
    simp only [AG.step] at h
    split at h
    · rename_i g' i hg
      split at h
      · rename_i a' ha'
        cases h
        obtain ⟨hi', hd', _, hin, hed⟩ := contract_addNode hi hd hg
        refine ⟨hi', hd', ?_⟩
        have hstep : stepCall (gView x.g) x.a (.addNode i (gView g')) = .ok (gView g', a') := by
          simp only [stepCall, ha']
        exact inv2_step h2 hin hed hstep
      · cases h
    · cases h
  | tryAddEdge a b w =>
    simp only [AG.step] at h
    split at h
    · cases h
    · rename_i a' hacc
      split at h
      · rename_i g' e hg
        cases h
        exact ag_edge_accepted ⟨hi, hd, h2⟩ hacc (contract_addEdge hi hd hg)
      · cases h
    · rename_i a' r hne hres
      cases h
      have hr : r ≠ .accepted := fun hr => hne (by subst hr; rfl)
      obtain ⟨h1, h3, h4, _⟩ := reject_unchanged_any hres hr
      exact ⟨hi, hd, inv2_congr h2 h1 h3 h4⟩
  | tryUpdateEdge a b w =>
    simp only [AG.step] at h
    split at h
    · cases h
    · rename_i a' hacc
      have hl := accepted_live hacc
      split at h
      · rename_i g' e hg
        cases h
        exact ag_edge_accepted ⟨hi, hd, h2⟩ hacc
          (contract_updateEdge hi hd (mem_gView_nodes.mp hl.1) (mem_gView_nodes.mp hl.2) hg)
      · cases h
      · cases h
    · rename_i a' r hne hres
      cases h
      have hr : r ≠ .accepted := fun hr => hne (by subst hr; rfl)
      obtain ⟨h1, h3, h4, _⟩ := reject_unchanged_any hres hr
      exact ⟨hi, hd, inv2_congr h2 h1 h3 h4⟩
  | removeEdge e =>
    simp only [AG.step] at h
    split at h
    · rename_i g' r hg
      cases h
      cases hed : x.g.edges[e]? with
      | none =>
        simp only [G.removeEdge, hed] at hg
        cases hg
        exact ⟨hi, hd, h2⟩
      | some ed =>
        obtain ⟨s', hs', hi', hd', hin, hedg⟩ := contract_removeEdge hi hd hed
        rw [hs'] at hg
        cases hg
        refine ⟨hi', hd', ?_⟩
        have hstep : stepCall (gView x.g) x.a (.removeEdge (gView g')) = .ok (gView g', x.a) := rfl
        exact inv2_step h2 hin hedg hstep
    · cases h
  | removeNode n =>
    simp only [AG.step] at h
    split at h
    · rename_i g' r hg
      split at h
      · rename_i a' fl ha'
        cases h
        cases hnd : x.g.nodes[n]? with
        | none =>
          simp only [G.removeNode, hnd] at hg
          cases hg
          have hn : n ∉ (gView x.g).g.nodes := by
            rw [mem_gView_nodes]
            intro hlt
            rw [List.getElem?_eq_getElem hlt] at hnd
            cases hnd
          rw [removeNode_absent _ _ _ _ hn] at ha'
          cases ha'
          exact ⟨hi, hd, h2⟩
        | some nd =>
          obtain ⟨s', hs', hi', hd', _, hin, hedg⟩ := contract_removeNode hi hd hnd
          rw [hs'] at hg
          cases hg
          refine ⟨hi', hd', ?_⟩
          have hfl : fl = true := removeNode_live_flag (mem_gView_nodes.mpr (lt_of_getElem? hnd)) ha'
          subst hfl
          have hstep : stepCall (gView x.g) x.a (.removeNode n (gView g')) = .ok (gView g', a') := by
            simp only [stepCall, ha']
          exact inv2_step h2 hin hedg hstep
      · cases h
    · cases h
  | isValidEdge a b =>
    simp only [AG.step] at h
    split at h
    · rename_i a' r hv
      cases h
      exact ⟨hi, hd, isValid_inv2 h2 hv⟩
    · cases h

/-- **all histories** of `Acyclic<DiGraph>`: after any finite sequence of calls with arbitrary
arguments that does not panic, the invariant holds -/
theorem ag_inv_run : ∀ (ops : List AOp) (x x' : AG), AGInv x → AG.run x ops = .ok x' → AGInv x' := by
  intro ops
  induction ops with
  | nil => intro x x' hx h; simp only [AG.run] at h; cases h; exact hx
  | cons op ops ih =>
    intro x x' hx h
    simp only [AG.run] at h
    split at h
    · rename_i x1 hs
      exact ih x1 x' (ag_inv_step hx hs) h
    · cases h

/-- what the invariant means: `Safe`, no directed cycle, and the order lists exactly the node
indices `0 .. node_count`, each once -/
theorem ag_inv_meaning {x : AG} (hx : AGInv x) :
    Safe (gView x.g) x.a ∧ Dag.Acyclic (gView x.g).g ∧
    x.a.om.nodesIter.Nodup ∧ (∀ n, n ∈ x.a.om.nodesIter ↔ n < x.g.nodes.length) := by
  have g := gView_good hx.1 hx.2.1
  refine ⟨g.safe hx.2.2, inv2_acyclic hx.2.2 g.directed g.edgesLive, hx.2.2.1.1.nodesIter.1, fun n => ?_⟩
  rw [hx.2.2.1.1.nodesIter.2 n, mem_gView_nodes]

/-- **a rejected insertion changes nothing**: the inner graph is the SAME storage state (not merely
an equal graph) and the order map and scratch sets are equal -/
theorem ag_reject_unchanged {x x' : AG} {a b w : Nat} {a' : AState} {r : EdgeRes}
    (hres : Acy.tryAddEdge (gView x.g) x.a a b = .ok (a', r)) (hr : r ≠ .accepted) :
    (x.step (.tryAddEdge a b w) = .ok x' → x'.g = x.g ∧ x'.a.om = x.a.om ∧ x'.a.disc = x.a.disc ∧ x'.a.fin = x.a.fin) ∧
    (x.step (.tryUpdateEdge a b w) = .ok x' → x'.g = x.g ∧ x'.a.om = x.a.om ∧ x'.a.disc = x.a.disc ∧ x'.a.fin = x.a.fin) := by
  obtain ⟨h1, h2, h3, _⟩ := reject_unchanged_any hres hr
  constructor
  · intro h
    simp only [AG.step, hres] at h
    cases r with
    | accepted => exact absurd rfl hr
    | selfLoop => cases h; exact ⟨rfl, h1, h2, h3⟩
    | cycle n => cases h; exact ⟨rfl, h1, h2, h3⟩
  · intro h
    simp only [AG.step, hres] at h
    cases r with
    | accepted => exact absurd rfl hr
    | selfLoop => cases h; exact ⟨rfl, h1, h2, h3⟩
    | cycle n => cases h; exact ⟨rfl, h1, h2, h3⟩

/-- **no panic except the documented ones**: under the invariant, `try_add_edge` / `try_update_edge`
on live endpoints return unless the inner graph is at its edge-index limit; `remove_edge`,
`remove_node` (any argument) and `is_valid_edge` (live arguments) always return; `add_node` returns
unless the graph is at its node-index limit. -/
theorem ag_no_panic {x : AG} (hx : AGInv x) :
    (∀ w, x.g.nodes.length ≠ x.g.endv → ∃ x', x.step (.addNode w) = .ok x') ∧
    (∀ a b w, a < x.g.nodes.length → b < x.g.nodes.length → x.g.edges.length ≠ x.g.endv →
      (∃ x', x.step (.tryAddEdge a b w) = .ok x') ∧ (∃ x', x.step (.tryUpdateEdge a b w) = .ok x')) ∧
    (∀ e, ∃ x', x.step (.removeEdge e) = .ok x') ∧
    (∀ n, ∃ x', x.step (.removeNode n) = .ok x') ∧
    (∀ a b, a < x.g.nodes.length → b < x.g.nodes.length → ∃ x', x.step (.isValidEdge a b) = .ok x') := by
  obtain ⟨hi, hd, h2⟩ := hx
  have g := gView_good hi hd
  have hsafe := g.safe h2
  refine ⟨?_, ?_, ?_, ?_, ?_⟩
  · intro w hroom
    have hs := tryAddNode_room w hroom
    have hinv' : GProofs.Inv (G.tryAddNode x.g w).1 := inv_tryAddNode hi w
    obtain ⟨a', ha'⟩ := addNode_total (v' := gView (G.tryAddNode x.g w).1) (s := x.a) (i := x.g.nodes.length)
      (by rw [hs]; simp [gView])
    refine ⟨⟨(G.tryAddNode x.g w).1, a'⟩, ?_⟩
    simp only [AG.step]
    rw [hs] at ha' ⊢
    simp only [ha']
  · intro a b w ha hb hroom
    obtain ⟨⟨a', r⟩, hres⟩ := tryAddEdge_total hsafe (mem_gView_nodes.mpr ha) (mem_gView_nodes.mpr hb)
    obtain ⟨s', hs'⟩ := tryAddEdge_room a b w hroom ha hb
    constructor
    · cases r with
      | accepted => exact ⟨⟨s', a'⟩, by simp only [AG.step, hres, hs']⟩
      | selfLoop => exact ⟨⟨x.g, a'⟩, by simp only [AG.step, hres]⟩
      | cycle n => exact ⟨⟨x.g, a'⟩, by simp only [AG.step, hres]⟩
    · cases r with
      | accepted =>
        obtain ⟨o, ho, _, _⟩ := hi.findEdge_spec a b
        cases o with
        | none =>
          exact ⟨⟨s', a'⟩, by simp only [AG.step, hres, G.tryUpdateEdge, ho, hs']⟩
        | some ix =>
          cases hed : x.g.edges[ix]? with
          | none => exact ⟨⟨s', a'⟩, by simp only [AG.step, hres, G.tryUpdateEdge, ho, hed, hs']⟩
          | some ed => exact ⟨⟨_, a'⟩, by simp only [AG.step, hres, G.tryUpdateEdge, ho, hed]; rfl⟩
      | selfLoop => exact ⟨⟨x.g, a'⟩, by simp only [AG.step, hres]⟩
      | cycle n => exact ⟨⟨x.g, a'⟩, by simp only [AG.step, hres]⟩
  · intro e
    cases hed : x.g.edges[e]? with
    | none => exact ⟨⟨x.g, x.a⟩, by simp only [AG.step, G.removeEdge, hed]⟩
    | some ed =>
      obtain ⟨s', hs', _⟩ := contract_removeEdge hi hd hed
      exact ⟨⟨s', x.a⟩, by simp only [AG.step, hs']⟩
  · intro n
    cases hnd : x.g.nodes[n]? with
    | none =>
      have hn : n ∉ (gView x.g).g.nodes := by
        rw [mem_gView_nodes]
        intro hlt
        rw [List.getElem?_eq_getElem hlt] at hnd
        cases hnd
      exact ⟨⟨x.g, x.a⟩, by simp only [AG.step, G.removeNode, hnd, removeNode_absent _ _ _ _ hn]⟩
    | some nd =>
      obtain ⟨s', hs', _, _, _, hin, _⟩ := contract_removeNode hi hd hnd
      obtain ⟨⟨a', fl⟩, ha'⟩ := removeNode_total (v := gView x.g) (v' := gView s') (s := x.a) (n := n) h2.1.1
        (by intro hn; exact hin.1 hn)
      exact ⟨⟨s', a'⟩, by simp only [AG.step, hs', ha']⟩
  · intro a b ha hb
    obtain ⟨⟨a', r⟩, hres⟩ := isValidEdge_total hsafe (mem_gView_nodes.mpr ha) (mem_gView_nodes.mpr hb)
    exact ⟨⟨x.g, a'⟩, by simp only [AG.step, hres]⟩

/-! ### `try_from_graph` / `TryFrom<DiGraph>` -/

/-- **`try_from_graph` accepts exactly the acyclic `DiGraph`s** — no fuel hypothesis: a real `Graph`
lists every edge once, so `TopoFuelOk` holds (`gView_good`).  An accepted graph is wrapped unchanged
and the invariant holds; the call never panics. -/
theorem ag_tryFromGraph {g : G.State} (hi : GProofs.Inv g) (hd : g.directed = true) :
    ((∃ x, AG.tryFromGraph g = .ok (.inr x)) ↔ Dag.Acyclic (gView g).g) ∧
    (∀ x, AG.tryFromGraph g = .ok (.inr x) → x.g = g ∧ AGInv x) ∧
    (∀ n, AG.tryFromGraph g = .ok (.inl n) → ¬ Dag.Acyclic (gView g).g) ∧
    (Dag.Acyclic (gView g).g → ∃ x, AG.tryFromGraph g = .ok (.inr x)) := by
  have vg := gView_good hi hd
  have hsound : ∀ a, Acy.tryFromGraph (gView g) = .ok (.inr a) → Inv2 (gView g) a :=
    fun a ha => tryFromGraph_sound vg.closed vg.viewOk vg.srcLive ha
  have hcomplete : Dag.Acyclic (gView g).g → ∃ a, Acy.tryFromGraph (gView g) = .ok (.inr a) :=
    fun hac => tryFromGraph_complete vg.closed vg.viewOk vg.srcLive vg.index hac vg.topoFuelOk
  have hacc : ∀ x, AG.tryFromGraph g = .ok (.inr x) → x.g = g ∧ Acy.tryFromGraph (gView g) = .ok (.inr x.a) := by
    intro x hx
    unfold AG.tryFromGraph at hx
    split at hx
    · cases hx
    · rename_i a ha; cases hx; exact ⟨rfl, ha⟩
    · cases hx
  refine ⟨⟨?_, ?_⟩, ?_, ?_, ?_⟩
  · rintro ⟨x, hx⟩
    obtain ⟨_, ha⟩ := hacc x hx
    exact inv2_acyclic (hsound _ ha) vg.directed vg.edgesLive
  · intro hac
    obtain ⟨a, ha⟩ := hcomplete hac
    exact ⟨⟨g, a⟩, by simp only [AG.tryFromGraph, ha]⟩
  · intro x hx
    obtain ⟨hg, ha⟩ := hacc x hx
    refine ⟨hg, ?_⟩
    unfold AGInv
    rw [hg]
    exact ⟨hi, hd, hsound _ ha⟩
  · intro n hn hac
    obtain ⟨a, ha⟩ := hcomplete hac
    simp only [AG.tryFromGraph, ha] at hn
    cases hn
  · intro hac
    obtain ⟨a, ha⟩ := hcomplete hac
    exact ⟨⟨g, a⟩, by simp only [AG.tryFromGraph, ha]⟩

end PetgraphModel.AcyG
