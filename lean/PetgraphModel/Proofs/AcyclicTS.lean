import PetgraphModel.Proofs.AcyclicPK
/-
`try_from_graph` / `TryFrom` (soundness): whatever graph the mirror model of
`OrderMap::try_from_graph` (= `algo::toposort` + positions 0,1,2,…) ACCEPTS, it accepts with an
order map that satisfies the invariant and in which every edge goes forward — so accepted graphs
are acyclic.  (The converse — acyclic graphs are accepted — is kept as a statement.)
-/
namespace PetgraphModel.AcyTS
open PetgraphModel PetgraphModel.MGraph PetgraphModel.Oracle PetgraphModel.Dag PetgraphModel.Acy
open PetgraphModel.AcyProofs PetgraphModel.AcyPK

/-! ### first phase: the finish stack lists every node once, and no discovered node has a self-loop -/

structure TSInv (v : View) (t : TS) : Prop where
  finEq : t.finStack = t.fin
  finNodup : t.fin.Nodup
  finDisc : ∀ x, x ∈ t.fin → x ∈ t.disc
  gray : ∀ x, x ∈ t.disc → x ∈ t.fin ∨ x ∈ t.stack
  stackLive : ∀ x, x ∈ t.stack → x ∈ v.g.nodes
  discLive : ∀ x, x ∈ t.disc → x ∈ v.g.nodes
  noLoop : ∀ x, x ∈ t.disc → x ∉ v.succ x

theorem tsPush_spec (nx : Nat) (disc : List Nat) : ∀ (ys st : List Nat) (st' : List Nat),
    tsPush nx disc ys st = (none, st') →
    nx ∉ ys ∧ (∀ x, x ∈ st → x ∈ st') ∧ (∀ x, x ∈ st' → x ∈ st ∨ x ∈ ys) := by
  intro ys
  induction ys with
  | nil => intro st st' h; simp only [tsPush] at h; cases h; exact ⟨by simp, fun _ h => h, fun _ h => Or.inl h⟩
  | cons y ys ih =>
    intro st st' h
    simp only [tsPush] at h
    split at h
    · cases h
    rename_i hy
    split at h
    · obtain ⟨h1, h2, h3⟩ := ih st st' h
      refine ⟨?_, h2, fun x hx => ?_⟩
      · intro hm
        rcases List.mem_cons.mp hm with h' | h'
        · exact hy h'.symm
        · exact h1 h'
      · rcases h3 x hx with h' | h'
        · exact Or.inl h'
        · exact Or.inr (List.mem_cons_of_mem _ h')
    · obtain ⟨h1, h2, h3⟩ := ih (y :: st) st' h
      refine ⟨?_, fun x hx => h2 x (List.mem_cons_of_mem _ hx), fun x hx => ?_⟩
      · intro hm
        rcases List.mem_cons.mp hm with h' | h'
        · exact hy h'.symm
        · exact h1 h'
      · rcases h3 x hx with h' | h'
        · rcases List.mem_cons.mp h' with rfl | h''
          · exact Or.inr (List.mem_cons_self ..)
          · exact Or.inl h''
        · exact Or.inr (List.mem_cons_of_mem _ h')

theorem tsLoop_inv (v : View) (hc : Closed v) : ∀ (f : Nat) (t t' : TS), TSInv v t →
    tsLoop v f t = some (.inr t') →
    TSInv v t' ∧ t'.stack = [] ∧ (∀ x, x ∈ t.disc → x ∈ t'.disc) := by
  intro f
  induction f with
  | zero => intro t t' _ h; simp [tsLoop] at h
  | succ f ih =>
    intro t t' hinv h
    simp only [tsLoop] at h
    split at h
    · rename_i hst
      cases h
      exact ⟨hinv, hst, fun _ h => h⟩
    rename_i nx rest hst
    have hnxl : nx ∈ v.g.nodes := hinv.stackLive nx (by rw [hst]; exact List.mem_cons_self ..)
    split at h
    · rename_i hnd
      have hnd' : nx ∉ t.disc := by simpa using hnd
      split at h
      · cases h
      rename_i st hpush
      obtain ⟨hself, hsub, hsup⟩ := tsPush_spec nx (nx :: t.disc) (v.succ nx) t.stack st hpush
      have hinv1 : TSInv v { t with disc := nx :: t.disc, stack := st } := by
        refine ⟨hinv.finEq, hinv.finNodup, fun x hx => List.mem_cons_of_mem _ (hinv.finDisc x hx), ?_, ?_, ?_, ?_⟩
        · intro x hx
          rcases List.mem_cons.mp hx with rfl | hx
          · exact Or.inr (hsub _ (by rw [hst]; exact List.mem_cons_self ..))
          · rcases hinv.gray x hx with h' | h'
            · exact Or.inl h'
            · exact Or.inr (hsub x h')
        · intro x hx
          rcases hsup x hx with h' | h'
          · exact hinv.stackLive x h'
          · exact (hc nx hnxl).1 x h'
        · intro x hx
          rcases List.mem_cons.mp hx with rfl | hx
          · exact hnxl
          · exact hinv.discLive x hx
        · intro x hx
          rcases List.mem_cons.mp hx with rfl | hx
          · exact hself
          · exact hinv.noLoop x hx
      obtain ⟨h1, h2, h3⟩ := ih _ t' hinv1 h
      exact ⟨h1, h2, fun x hx => h3 x (List.mem_cons_of_mem _ hx)⟩
    rename_i hd
    have hd' : nx ∈ t.disc := by simpa using hd
    split at h
    · rename_i hnf
      have hnf' : nx ∉ t.fin := by simpa using hnf
      have hinv1 : TSInv v { t with stack := rest, fin := nx :: t.fin, finStack := nx :: t.finStack } := by
        refine ⟨by simp [hinv.finEq], List.nodup_cons.mpr ⟨hnf', hinv.finNodup⟩, ?_, ?_, ?_, hinv.discLive, hinv.noLoop⟩
        · intro x hx
          rcases List.mem_cons.mp hx with rfl | hx
          · exact hd'
          · exact hinv.finDisc x hx
        · intro x hx
          rcases hinv.gray x hx with h' | h'
          · exact Or.inl (List.mem_cons_of_mem _ h')
          · rw [hst] at h'
            rcases List.mem_cons.mp h' with rfl | h''
            · exact Or.inl (List.mem_cons_self ..)
            · exact Or.inr h''
        · intro x hx
          exact hinv.stackLive x (by rw [hst]; exact List.mem_cons_of_mem _ hx)
      exact ih { t with stack := rest, fin := nx :: t.fin, finStack := nx :: t.finStack } t' hinv1 h
    · rename_i hf
      have hf' : nx ∈ t.fin := by simpa using hf
      have hinv1 : TSInv v { t with stack := rest } := by
        refine ⟨hinv.finEq, hinv.finNodup, hinv.finDisc, ?_, ?_, hinv.discLive, hinv.noLoop⟩
        · intro x hx
          rcases hinv.gray x hx with h' | h'
          · exact Or.inl h'
          · rw [hst] at h'
            rcases List.mem_cons.mp h' with rfl | h''
            · exact Or.inl hf'
            · exact Or.inr h''
        · intro x hx
          exact hinv.stackLive x (by rw [hst]; exact List.mem_cons_of_mem _ hx)
      exact ih { t with stack := rest } t' hinv1 h

theorem tsPhase1_inv (v : View) (hc : Closed v) (fuel : Nat) : ∀ (is : List Nat) (t t' : TS), TSInv v t →
    t.stack = [] → (∀ i, i ∈ is → i ∈ v.g.nodes) → tsPhase1 v fuel is t = some (.inr t') →
    TSInv v t' ∧ t'.stack = [] ∧ (∀ x, x ∈ t.disc → x ∈ t'.disc) ∧ (∀ i, i ∈ is → i ∈ t'.disc) := by
  intro is
  induction is with
  | nil =>
    intro t t' hinv hst _ h
    simp only [tsPhase1] at h
    cases h
    exact ⟨hinv, hst, fun _ h => h, by intro i hi; cases hi⟩
  | cons i is ih =>
    intro t t' hinv hst hl h
    have hil : i ∈ v.g.nodes := hl i (List.mem_cons_self ..)
    have hl' : ∀ j, j ∈ is → j ∈ v.g.nodes := fun j hj => hl j (List.mem_cons_of_mem _ hj)
    simp only [tsPhase1] at h
    split at h
    · rename_i hd
      obtain ⟨h1, h2, h3, h4⟩ := ih t t' hinv hst hl' h
      refine ⟨h1, h2, h3, ?_⟩
      intro j hj
      rcases List.mem_cons.mp hj with rfl | hj
      · exact h3 _ (by simpa using hd)
      · exact h4 j hj
    · rename_i hnd
      have hnd' : i ∉ t.disc := by simpa using hnd
      split at h
      · rename_i t1 hloop
        have hinv0 : TSInv v { t with stack := i :: t.stack } := by
          refine ⟨hinv.finEq, hinv.finNodup, hinv.finDisc, ?_, ?_, hinv.discLive, hinv.noLoop⟩
          · intro x hx
            rcases hinv.gray x hx with h' | h'
            · exact Or.inl h'
            · exact Or.inr (List.mem_cons_of_mem _ h')
          · intro x hx
            rcases List.mem_cons.mp hx with rfl | hx
            · exact hil
            · exact hinv.stackLive x hx
        obtain ⟨hinv1, hst1, hmono1⟩ := tsLoop_inv v hc fuel _ t1 hinv0 hloop
        -- `i` was discovered by the loop: it is on the stack and cannot stay gray
        have hi1 : i ∈ t1.disc := by
          -- unfold one step of the loop: the first iteration discovers `i`
          cases fuel with
          | zero => simp [tsLoop] at hloop
          | succ f =>
            simp only [tsLoop, hst] at hloop
            have : (!t.disc.contains i) = true := by simpa using hnd'
            simp only [this, ↓reduceIte] at hloop
            split at hloop
            · cases hloop
            · rename_i st hpush
              have hinvX : TSInv v { t with disc := i :: t.disc, stack := st } := by
                obtain ⟨hself, hsub, hsup⟩ := tsPush_spec i (i :: t.disc) (v.succ i) [i] st hpush
                refine ⟨hinv.finEq, hinv.finNodup, fun x hx => List.mem_cons_of_mem _ (hinv.finDisc x hx), ?_, ?_, ?_, ?_⟩
                · intro x hx
                  rcases List.mem_cons.mp hx with rfl | hx
                  · exact Or.inr (hsub _ (List.mem_cons_self ..))
                  · rcases hinv.gray x hx with h' | h'
                    · exact Or.inl h'
                    · rw [hst] at h'; cases h'
                · intro x hx
                  rcases hsup x hx with h' | h'
                  · rcases List.mem_cons.mp h' with rfl | h''
                    · exact hil
                    · cases h''
                  · exact (hc i hil).1 x h'
                · intro x hx
                  rcases List.mem_cons.mp hx with rfl | hx
                  · exact hil
                  · exact hinv.discLive x hx
                · intro x hx
                  rcases List.mem_cons.mp hx with rfl | hx
                  · exact hself
                  · exact hinv.noLoop x hx
              exact (tsLoop_inv v hc f _ t1 hinvX hloop).2.2 i (List.mem_cons_self ..)
        obtain ⟨h1, h2, h3, h4⟩ := ih t1 t' hinv1 hst1 hl' h
        refine ⟨h1, h2, fun x hx => h3 x (hmono1 x hx), ?_⟩
        intro j hj
        rcases List.mem_cons.mp hj with rfl | hj
        · exact h3 _ hi1
        · exact h4 j hj
      · rename_i r hne
        cases hr : tsLoop v fuel { t with stack := i :: t.stack } with
        | none => rw [hr] at h; cases h
        | some x =>
          cases x with
          | inl y => rw [hr] at h; cases h
          | inr t1 => exact absurd hr (hne t1)

/-! ### second phase: every predecessor of a node is the node itself or comes earlier in the order -/

theorem tsPhase2_spec (rv : View) (fuel : Nat) : ∀ (is : List Nat) (d : Trav.Dfs), (is).Nodup →
    (∀ x, x ∈ is → x ∉ d.disc) → tsPhase2 rv fuel is d = some none →
    List.Pairwise (fun _ _ => True) is ∧
    ∀ (pre post : List Nat) (i : Nat), is = pre ++ i :: post → ∀ p, p ∈ rv.succ i → p = i ∨ p ∈ d.disc ∨ p ∈ pre := by
  intro is
  induction is with
  | nil =>
    intro d _ _ _
    refine ⟨List.Pairwise.nil, ?_⟩
    intro pre post i h
    cases pre <;> cases h
  | cons i is ih =>
    intro d hnd hdisj h
    have hnd' := List.nodup_cons.mp hnd
    have hi : i ∉ d.disc := hdisj i (List.mem_cons_self ..)
    cases fuel with
    | zero => simp [tsPhase2, Trav.dfsNext] at h
    | succ f =>
      simp only [tsPhase2, Trav.Dfs.moveTo, Trav.dfsNext, hi, ↓reduceIte] at h
      -- the second `next`
      generalize hpush : ((rv.succ i).filter fun y => !(i :: d.disc).contains y) = pushes at h
      cases hrev : pushes.reverse with
      | nil =>
        simp only [hrev, List.nil_append] at h
        have hp : pushes = [] := by simpa using hrev
        have hpred : ∀ p, p ∈ rv.succ i → p ∈ i :: d.disc := by
          intro p hpm
          apply Classical.byContradiction
          intro hn
          have : p ∈ pushes := by
            rw [← hpush]
            exact List.mem_filter.mpr ⟨hpm, by simpa using hn⟩
          rw [hp] at this; cases this
        have hdisj' : ∀ x, x ∈ is → x ∉ (i :: d.disc) := by
          intro x hx hm
          rcases List.mem_cons.mp hm with rfl | hm
          · exact hnd'.1 hx
          · exact hdisj x (List.mem_cons_of_mem _ hx) hm
        obtain ⟨_, hrest⟩ := ih { stack := [], disc := i :: d.disc } hnd'.2 hdisj' h
        refine ⟨List.pairwise_cons.mpr ⟨fun _ _ => trivial, by
          exact List.Pairwise.imp (fun _ => trivial) (List.pairwise_of_forall (l := is) (R := fun _ _ => True) (fun _ _ => trivial))⟩, ?_⟩
        intro pre post j hsplit p hpm
        cases pre with
        | nil =>
          simp only [List.nil_append, List.cons.injEq] at hsplit
          obtain ⟨rfl, _⟩ := hsplit
          rcases List.mem_cons.mp (hpred p hpm) with h' | h'
          · exact Or.inl h'
          · exact Or.inr (Or.inl h')
        | cons q pre' =>
          simp only [List.cons_append, List.cons.injEq] at hsplit
          obtain ⟨rfl, hsplit'⟩ := hsplit
          rcases hrest pre' post j hsplit' p hpm with h' | h' | h'
          · exact Or.inl h'
          · rcases List.mem_cons.mp h' with rfl | h''
            · exact Or.inr (Or.inr (List.mem_cons_self ..))
            · exact Or.inr (Or.inl h'')
          · exact Or.inr (Or.inr (List.mem_cons_of_mem _ h'))
      | cons x st =>
        exfalso
        have hx : x ∈ pushes := by
          have : x ∈ pushes.reverse := by rw [hrev]; exact List.mem_cons_self ..
          simpa using this
        have hxnd : x ∉ i :: d.disc := by
          rw [← hpush] at hx
          have := (List.mem_filter.mp hx).2
          simpa using this
        simp only [hrev, List.cons_append] at h
        have : ¬ (x ∈ i :: d.disc) := hxnd
        simp only [this, ↓reduceIte] at h
        cases h

/-! ### positions `0, 1, 2, …` along the order -/

theorem mem_enumFrom {l : List Nat} : ∀ {k0 k x : Nat},
    (k, x) ∈ enumFrom k0 l ↔ ∃ pre post, l = pre ++ x :: post ∧ k = k0 + pre.length := by
  induction l with
  | nil => intro k0 k x; simp [enumFrom]
  | cons y ys ih =>
    intro k0 k x
    simp only [enumFrom, List.mem_cons, Prod.mk.injEq]
    constructor
    · rintro (⟨rfl, rfl⟩ | h)
      · exact ⟨[], ys, rfl, rfl⟩
      · obtain ⟨pre, post, h1, h2⟩ := ih.mp h
        exact ⟨y :: pre, post, by rw [h1]; rfl, by simp only [List.length_cons]; omega⟩
    · rintro ⟨pre, post, h1, h2⟩
      cases pre with
      | nil =>
        simp only [List.nil_append, List.cons.injEq] at h1
        exact Or.inl ⟨by simpa using h2, h1.1.symm⟩
      | cons q pre' =>
        simp only [List.cons_append, List.cons.injEq] at h1
        exact Or.inr (ih.mpr ⟨pre', post, h1.2, by simp only [List.length_cons] at h2; omega⟩)

theorem enumFrom_ge {l : List Nat} {k0 k x : Nat} (h : (k, x) ∈ enumFrom k0 l) : k0 ≤ k := by
  obtain ⟨_, _, _, h2⟩ := mem_enumFrom.mp h
  omega

theorem sorted_enumFrom : ∀ (l : List Nat) (k0 : Nat), Sorted (enumFrom k0 l) := by
  intro l
  induction l with
  | nil => intro k0; exact sorted_nil
  | cons y ys ih =>
    intro k0
    simp only [enumFrom]
    refine List.pairwise_cons.mpr ⟨?_, ih (k0 + 1)⟩
    intro e he
    have := enumFrom_ge (k := e.1) (x := e.2) he
    simp only
    omega

theorem snd_enumFrom : ∀ (l : List Nat) (k0 : Nat), (enumFrom k0 l).map (·.2) = l := by
  intro l
  induction l with
  | nil => intro k0; rfl
  | cons y ys ih => intro k0; simp [enumFrom, ih]

theorem setAll_spec : ∀ (l : List (Nat × Nat)) (a b : List Nat), setAll a l = some b →
    b = assignN a l ∧ ∀ e, e ∈ l → e.2 < a.length := by
  intro l
  induction l with
  | nil => intro a b h; simp only [setAll] at h; cases h; exact ⟨rfl, by intro e he; cases he⟩
  | cons e r ih =>
    intro a b h
    obtain ⟨p, i⟩ := e
    simp only [setAll] at h
    split at h
    · rename_i hi
      obtain ⟨h1, h2⟩ := ih _ _ h
      refine ⟨by rw [h1]; rfl, ?_⟩
      intro e he
      rcases List.mem_cons.mp he with rfl | he
      · exact hi
      · have := h2 e he; simpa using this
    · cases h

/-- **`try_from_graph` soundness**: an accepted graph gets an order map satisfying the invariant in
which every edge goes forward (so it is acyclic), with clear scratch sets -/
theorem tryFromGraph_sound {v : View} (hc : Closed v) (hv : ViewOk v)
    (hsrc : ∀ x y, y ∈ v.succ x → x ∈ v.g.nodes) {s : AState} (h : tryFromGraph v = .ok (.inr s)) :
    Inv2 v s := by
  unfold tryFromGraph at h
  split at h
  · cases h
  · cases h
  rename_i order hto
  simp only at h
  split at h
  · cases h
  rename_i n2p hset
  cases h
  -- toposort
  unfold toposort at hto
  split at hto
  · cases hto
  · cases hto
  rename_i t hp1
  simp only at hto
  split at hto
  · cases hto
  · cases hto
  rename_i hp2
  cases hto
  have hinv0 : TSInv v {} :=
    ⟨rfl, List.nodup_nil, (by intro x hx; cases hx), (by intro x hx; cases hx), (by intro x hx; cases hx),
      (by intro x hx; cases hx), (by intro x hx; cases hx)⟩
  obtain ⟨hti, hst, _, hall⟩ := tsPhase1_inv v hc (tsFuel v) v.g.nodes {} t hinv0 rfl (fun i hi => hi) hp1
  have hfin : ∀ x, x ∈ t.disc → x ∈ t.fin := by
    intro x hx
    rcases hti.gray x hx with h' | h'
    · exact h'
    · rw [hst] at h'; cases h'
  have hord : t.finStack = t.fin := hti.finEq
  have hnodup : t.finStack.Nodup := hord ▸ hti.finNodup
  have hcover : ∀ x, x ∈ v.g.nodes → x ∈ t.finStack := fun x hx => hord ▸ hfin x (hall x hx)
  have hlive : ∀ x, x ∈ t.finStack → x ∈ v.g.nodes := fun x hx => hti.discLive x (hti.finDisc x (hord ▸ hx))
  have hnoloop : ∀ x, x ∈ v.g.nodes → x ∉ v.succ x := fun x hx => hti.noLoop x (hall x hx)
  obtain ⟨_, hpred⟩ := tsPhase2_spec (reversedView v) (tsFuel v) t.finStack {} hnodup
    (by intro x _ hx; cases hx) hp2
  obtain ⟨hn2p, hbound⟩ := setAll_spec _ _ _ hset
  have hsndnd : ((enumFrom 0 t.finStack).map (·.2)).Nodup := by rw [snd_enumFrom]; exact hnodup
  -- position of a node = length of the prefix before it
  have hposOf : ∀ pre post x, t.finStack = pre ++ x :: post → n2p[x]? = some pre.length := by
    intro pre post x hsplit
    have hm : (pre.length, x) ∈ enumFrom 0 t.finStack := mem_enumFrom.mpr ⟨pre, post, hsplit, by omega⟩
    rw [hn2p]
    exact assignN_mem hsndnd hm (hbound _ hm)
  have hom : OMInv v.g.nodes { p2n := enumFrom 0 t.finStack, n2p := n2p } := by
    refine ⟨sorted_enumFrom _ _, ?_, ?_⟩
    · intro k x hm
      obtain ⟨pre, post, hsplit, hk⟩ := mem_enumFrom.mp hm
      refine ⟨hlive x (by rw [hsplit]; simp), ?_⟩
      have := hposOf pre post x hsplit
      simp only [Nat.zero_add] at hk
      rw [hk]; exact this
    · intro x hx
      obtain ⟨pre, post, hsplit⟩ := List.append_of_mem (hcover x hx)
      exact ⟨pre.length, hposOf pre post x hsplit, mem_enumFrom.mpr ⟨pre, post, hsplit, by omega⟩⟩
  refine ⟨⟨hom, ⟨rfl, rfl⟩, hc⟩, ?_, hv, hsrc⟩
  intro x y hxy px py hpx hpy
  have hxl : x ∈ v.g.nodes := hsrc x y hxy
  have hyl : y ∈ v.g.nodes := (hc x hxl).1 y hxy
  have hxp : x ∈ v.pred y := (hv.2 y x).mpr ((hv.1 x y).mp hxy)
  obtain ⟨pre, post, hsplit⟩ := List.append_of_mem (hcover y hyl)
  have hxy' : x = y ∨ x ∈ ([] : List Nat) ∨ x ∈ pre := hpred pre post y hsplit x hxp
  have hpy' := hposOf pre post y hsplit
  simp only [OrderMap.getPos] at hpx hpy
  rw [hpy'] at hpy
  cases hpy
  rcases hxy' with rfl | h' | h'
  · exact absurd hxy (hnoloop x hxl)
  · cases h'
  · obtain ⟨pre1, post1, hsplit1⟩ := List.append_of_mem h'
    have hsplit2 : t.finStack = pre1 ++ x :: (post1 ++ y :: post) := by
      rw [hsplit, hsplit1]; simp
    have hpx' := hposOf pre1 _ x hsplit2
    rw [hpx'] at hpx
    cases hpx
    rw [hsplit1]
    simp only [List.length_append, List.length_cons]
    omega

theorem reach1_head {g : MGraph} {a c : Nat} (h : Reach1 g a c) : ∃ b, Adj g a b ∧ Reach g b c := by
  induction h with
  | single hadj => exact ⟨_, hadj, Reach.refl _⟩
  | step _ hadj ih =>
    obtain ⟨b, h1, h2⟩ := ih
    exact ⟨b, h1, Reach.step h2 hadj⟩

/-- the invariant with a valid order makes the inner graph acyclic -/
theorem inv2_acyclic {v : View} {s : AState} (h : Inv2 v s) (hd : v.g.directed = true)
    (hwf : ∀ e ∈ v.g.edges, e.src ∈ v.g.nodes ∧ e.tgt ∈ v.g.nodes) : Dag.Acyclic v.g := by
  obtain ⟨⟨hom, _, hc⟩, hov, hv, _⟩ := h
  intro x hx
  obtain ⟨z, hadj, hzx⟩ := reach1_head hx
  obtain ⟨e, he, h1, h2⟩ := adj_directed hd hadj
  have hxl : x ∈ v.g.nodes := h1 ▸ (hwf e he).1
  have hzl : z ∈ v.g.nodes := h2 ▸ (hwf e he).2
  obtain ⟨px, hpx, _⟩ := hom.getPos hxl
  obtain ⟨pz, hpz, _⟩ := hom.getPos hzl
  have h3 := hov x z ((hv.1 x z).mpr hadj) px pz hpx hpz
  rcases (reach_pos hv hc hom hov hzl hzx).2 with h4 | h4
  · subst h4; rw [hpx] at hpz; cases hpz; omega
  · have := h4 pz px hpz hpx; omega

end PetgraphModel.AcyTS
