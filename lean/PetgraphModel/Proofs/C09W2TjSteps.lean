import PetgraphModel.Proofs.C09W2TjBase
/-
`TarjanScc` (Pearce's variant), part 2: the invariant is preserved by the elementary transitions
(enter a node, lower a `rootindex`, push a non-root, pop a component).  Core Lean only.
-/
namespace PetgraphModel.C09P
open PetgraphModel PetgraphModel.MGraph PetgraphModel.C09J PetgraphModel.C09M PetgraphModel.Trav

variable {v : View} {i0 c0 : Nat} {num : Nat → Nat} {G : List Nat} {t : TJ}

/-- the state of the `for w in g.neighbors(x)` loop: `new` = what was pushed since `x` was entered,
`rx` = the current `rootindex` of `x`, `pre` = the neighbours already handled, `lr` = `v_is_local_root` -/
structure TjLoop (v : View) (num : Nat → Nat) (x : Nat) (G stack0 new : List Nat) (lr : Bool)
    (pre : List Nat) (t : TJ) (rx : Nat) : Prop where
  stk : t.stack = new ++ stack0
  reach : ∀ s ∈ new, Reach v.g x s
  rootx : t.get v x = some rx
  low : ∀ s ∈ new, ∃ r, t.get v s = some r ∧ rx ≤ r
  lrT : lr = true → rx = num x
  lrF : lr = false → rx < num x
  edges : ∀ w ∈ pre, w ∈ t.out.flatten ∨ (w ∈ (x :: G) ++ t.stack ∧ rx ≤ num w)

/-- entering `x`: `rootindex[x] := index; index += 1` -/
theorem TjInv.enter (inv : TjInv v i0 c0 num G t) {x : Nat} (hx : x ∈ v.g.nodes) (hfresh : t.get v x = none)
    {t1 : TJ} (hi : t1.index = t.index + 1) (hc : t1.cc = t.cc) (hs : t1.stack = t.stack) (ho : t1.out = t.out)
    (hg : ∀ y ∈ v.g.nodes, t1.get v y = if y = x then some t.index else t.get v y) :
    TjInv v i0 c0 (fun y => if y = x then t.index else num y) (x :: G) t1 := by
  have hnx := inv.fresh hfresh
  have hne : ∀ y ∈ G ++ t.stack ++ t.out.flatten, y ≠ x := fun y hy h => hnx (h ▸ hy)
  have hneA : ∀ y ∈ G ++ t.stack, y ≠ x := fun y hy => hne y (List.mem_append_left _ hy)
  have hgo : ∀ y ∈ G ++ t.stack ++ t.out.flatten, t1.get v y = t.get v y := by
    intro y hy
    rw [hg y (inv.sub y hy), if_neg (hne y hy)]
  refine ⟨?_, ?_, ?_, ?_, ?_, ?_, ?_, ?_, ?_, ?_, ?_, ?_, ?_, ?_⟩
  · rw [hs, ho]
    simp only [List.cons_append]
    exact List.nodup_cons.mpr ⟨hnx, inv.nd⟩
  · rw [hs, ho]
    intro y hy
    simp only [List.cons_append] at hy
    cases List.mem_cons.mp hy with
    | inl h => exact h ▸ hx
    | inr h => exact inv.sub y h
  · rw [hs, ho]
    intro y hy hsome
    simp only [List.cons_append]
    by_cases hyx : y = x
    · exact hyx ▸ List.mem_cons_self ..
    · rw [hg y hy, if_neg hyx] at hsome
      exact List.mem_cons_of_mem _ (inv.vis y hy hsome)
  · rw [hi, hs, inv.idx]; simp only [List.length_cons]; omega
  · rw [hc, ho]; exact inv.ccv
  · rw [ho]; exact inv.ne
  · rw [ho]
    intro j c hj y hy
    have hyf := mem_flatten_of_getElem? hj hy
    rw [hgo y (List.mem_append_right _ hyf)]
    exact inv.doneRoot j c hj y hy
  · rw [hs]
    intro y hy
    simp only [List.cons_append] at hy
    cases List.mem_cons.mp hy with
    | inl h =>
      subst h
      refine ⟨y, by simp, ?_, Nat.le_refl _, Reach.refl _⟩
      rw [hg y hx]; simp
    | inr h =>
      obtain ⟨z, hz, h1, h2, h3⟩ := inv.actRoot y h
      refine ⟨z, by simp only [List.cons_append]; exact List.mem_cons_of_mem _ hz, ?_, ?_, h3⟩
      · rw [hgo y (List.mem_append_left _ h), h1]; simp [hneA z hz]
      · simp only [hneA z hz, hneA y h, if_false]; exact h2
  · rw [hs, hi]
    intro y hy
    simp only [List.cons_append] at hy
    cases List.mem_cons.mp hy with
    | inl h => simp [h]
    | inr h =>
      have := inv.numLt y h
      simp only [hneA y h, if_false]; omega
  · rw [hs]
    intro y hy r hr
    have hyA : y ∈ G ++ t.stack := List.mem_append_right _ hy
    rw [hgo y (List.mem_append_left _ hyA)] at hr
    simp only [hneA y hyA, if_false]
    exact inv.stackLt y hy r hr
  · rw [ho]; exact inv.closed
  · rw [hs, ho]
    intro y hy w hw
    have hyA : y ∈ G ++ t.stack := List.mem_append_right _ hy
    cases inv.stackEdges y hy w hw with
    | inl h => exact Or.inl h
    | inr h =>
      refine Or.inr ⟨by simp only [List.cons_append]; exact List.mem_cons_of_mem _ h.1, ?_⟩
      intro r hr
      rw [hgo y (List.mem_append_left _ hyA)] at hr
      simp only [hneA w h.1, if_false]
      exact h.2 r hr
  · rw [ho]; exact inv.classes
  · rw [ho]; exact inv.order

theorem TjLoop.enter {x : Nat} (hx : x ∈ v.g.nodes)
    {t1 : TJ} (hs : t1.stack = t.stack)
    (hg : ∀ y ∈ v.g.nodes, t1.get v y = if y = x then some t.index else t.get v y) :
    TjLoop v (fun y => if y = x then t.index else num y) x G t.stack [] true [] t1 t.index := by
  refine ⟨by simpa using hs, by simp, by rw [hg x hx]; simp, by simp, by simp, by simp, by simp⟩

theorem TjInv.head_fresh {x : Nat} (inv : TjInv v i0 c0 num (x :: G) t) : x ∉ G ++ t.stack ++ t.out.flatten := by
  have := inv.nd
  simp only [List.cons_append] at this
  exact (List.nodup_cons.mp this).1

/-- lowering `rootindex[x]` to the entry number of an active node `z` that `x` reaches -/
theorem TjInv.setRoot {x : Nat} (inv : TjInv v i0 c0 num (x :: G) t) {z : Nat} (hz : z ∈ (x :: G) ++ t.stack)
    (hle : num z ≤ num x) (hr : Reach v.g x z)
    {t1 : TJ} (hi : t1.index = t.index) (hc : t1.cc = t.cc) (hs : t1.stack = t.stack) (ho : t1.out = t.out)
    (hg : ∀ y ∈ v.g.nodes, t1.get v y = if y = x then some (num z) else t.get v y) :
    TjInv v i0 c0 num (x :: G) t1 := by
  have hxn := inv.head_fresh
  have hxs : ∀ y ∈ t.stack, y ≠ x := fun y hy h =>
    hxn (List.mem_append_left _ (List.mem_append_right _ (h ▸ hy)))
  have hxo : ∀ y ∈ t.out.flatten, y ≠ x := fun y hy h => hxn (List.mem_append_right _ (h ▸ hy))
  have hxN : x ∈ v.g.nodes := inv.sub x (by simp)
  refine ⟨by rw [hs, ho]; exact inv.nd, by rw [hs, ho]; exact inv.sub, ?_, by rw [hi, hs]; exact inv.idx,
    by rw [hc, ho]; exact inv.ccv, by rw [ho]; exact inv.ne, ?_, ?_, by rw [hs, hi]; exact inv.numLt, ?_,
    by rw [ho]; exact inv.closed, ?_, by rw [ho]; exact inv.classes, by rw [ho]; exact inv.order⟩
  · rw [hs, ho]
    intro y hy hsome
    by_cases hyx : y = x
    · subst hyx; simp
    · rw [hg y hy, if_neg hyx] at hsome
      exact inv.vis y hy hsome
  · rw [ho]
    intro j c hj y hy
    have hyf := mem_flatten_of_getElem? hj hy
    rw [hg y (inv.sub y (List.mem_append_right _ hyf)), if_neg (hxo y hyf)]
    exact inv.doneRoot j c hj y hy
  · rw [hs]
    intro y hy
    by_cases hyx : y = x
    · subst hyx
      exact ⟨z, hz, by rw [hg y hxN]; simp, hle, hr⟩
    · obtain ⟨z', hz', h1, h2, h3⟩ := inv.actRoot y hy
      refine ⟨z', hz', ?_, h2, h3⟩
      rw [hg y (inv.sub y (List.mem_append_left _ hy)), if_neg hyx]
      exact h1
  · rw [hs]
    intro y hy r hr'
    rw [hg y (inv.sub y (List.mem_append_left _ (List.mem_append_right _ hy))), if_neg (hxs y hy)] at hr'
    exact inv.stackLt y hy r hr'
  · rw [hs, ho]
    intro y hy w hw
    cases inv.stackEdges y hy w hw with
    | inl h => exact Or.inl h
    | inr h =>
      refine Or.inr ⟨h.1, ?_⟩
      intro r hr'
      rw [hg y (inv.sub y (List.mem_append_left _ (List.mem_append_right _ hy))), if_neg (hxs y hy)] at hr'
      exact h.2 r hr'

/-- the comparison after neighbour `w`, case `rootindex[w] < rootindex[x]` -/
theorem compare_lt (hB : i0 + v.g.nodes.length ≤ c0) {x : Nat} (inv : TjInv v i0 c0 num (x :: G) t) {w : Nat}
    (hadj : v.g.Adj x w) {stack0 newW newA pre : List Nat} {rx rw : Nat}
    (hstk : t.stack = (newW ++ newA) ++ stack0)
    (hreach : ∀ s ∈ newW ++ newA, Reach v.g x s)
    (hrootx : t.get v x = some rx) (hrootw : t.get v w = some rw)
    (hlowA : ∀ s ∈ newA, ∃ r, t.get v s = some r ∧ rx ≤ r)
    (hlowW : ∀ s ∈ newW, ∃ r, t.get v s = some r ∧ rw ≤ r)
    (hedges : ∀ w' ∈ pre, w' ∈ t.out.flatten ∨ (w' ∈ (x :: G) ++ t.stack ∧ rx ≤ num w'))
    (hstat : w ∈ t.out.flatten ∨ w ∈ (x :: G) ++ t.stack)
    (hlt : rw < rx)
    {t1 : TJ} (hi : t1.index = t.index) (hc : t1.cc = t.cc) (hs : t1.stack = t.stack) (ho : t1.out = t.out)
    (hg : ∀ y ∈ v.g.nodes, t1.get v y = if y = x then some rw else t.get v y) :
    TjInv v i0 c0 num (x :: G) t1 ∧ TjLoop v num x G stack0 (newW ++ newA) false (pre ++ [w]) t1 rw := by
  have hxA : x ∈ (x :: G) ++ t.stack := by simp
  have hxN : x ∈ v.g.nodes := inv.sub x (by simp)
  have hxn := inv.head_fresh
  -- `w` is active
  have hwA : w ∈ (x :: G) ++ t.stack := by
    cases hstat with
    | inr h => exact h
    | inl h =>
      obtain ⟨ry, rw', h1, h2, h3⟩ := inv.done_gt_act hB hxA h
      rw [hrootx] at h1; rw [hrootw] at h2
      cases h1; cases h2
      omega
  obtain ⟨z, hz, h1, h2, h3⟩ := inv.actRoot w hwA
  rw [hrootw] at h1
  have hrw : rw = num z := by cases h1; rfl
  obtain ⟨rx', hx1, hx2, _⟩ := inv.get_act hxA
  rw [hrootx] at hx1
  have hrx : rx ≤ num x := by cases hx1; exact hx2
  subst hrw
  have inv1 := inv.setRoot hz (by omega) (Reach.step (Reach.refl x) hadj |> fun h => reach_trans h h3) hi hc hs ho hg
  refine ⟨inv1, ⟨by rw [hs]; exact hstk, hreach, by rw [hg x hxN]; simp, ?_, by simp, fun _ => by omega, ?_⟩⟩
  · intro s hs'
    have hsS : s ∈ t.stack := by rw [hstk]; exact List.mem_append_left _ hs'
    have hsx : s ≠ x := fun h => hxn (List.mem_append_left _ (List.mem_append_right _ (h ▸ hsS)))
    have hsN : s ∈ v.g.nodes := inv.sub s (List.mem_append_left _ (List.mem_append_right _ hsS))
    rw [hg s hsN, if_neg hsx]
    cases List.mem_append.mp hs' with
    | inl h => exact hlowW s h
    | inr h =>
      obtain ⟨r, hr1, hr2⟩ := hlowA s h
      exact ⟨r, hr1, by omega⟩
  · rw [hs, ho]
    intro w' hw'
    cases List.mem_append.mp hw' with
    | inl h =>
      cases hedges w' h with
      | inl h' => exact Or.inl h'
      | inr h' => exact Or.inr ⟨h'.1, by omega⟩
    | inr h =>
      have : w' = w := by simpa using h
      subst this
      exact Or.inr ⟨hwA, h2⟩

/-- the comparison after neighbour `w`, case `¬ rootindex[w] < rootindex[x]` -/
theorem compare_ge {x : Nat} (inv : TjInv v i0 c0 num (x :: G) t) {w : Nat}
    {stack0 newW newA pre : List Nat} {lr : Bool} {rx rw : Nat}
    (hstk : t.stack = (newW ++ newA) ++ stack0)
    (hreach : ∀ s ∈ newW ++ newA, Reach v.g x s)
    (hrootx : t.get v x = some rx) (hrootw : t.get v w = some rw)
    (hlowA : ∀ s ∈ newA, ∃ r, t.get v s = some r ∧ rx ≤ r)
    (hlowW : ∀ s ∈ newW, ∃ r, t.get v s = some r ∧ rw ≤ r)
    (hlrT : lr = true → rx = num x) (hlrF : lr = false → rx < num x)
    (hedges : ∀ w' ∈ pre, w' ∈ t.out.flatten ∨ (w' ∈ (x :: G) ++ t.stack ∧ rx ≤ num w'))
    (hstat : w ∈ t.out.flatten ∨ w ∈ (x :: G) ++ t.stack)
    (hge : ¬ rw < rx) :
    TjLoop v num x G stack0 (newW ++ newA) lr (pre ++ [w]) t rx := by
  refine ⟨hstk, hreach, hrootx, ?_, hlrT, hlrF, ?_⟩
  · intro s hs'
    cases List.mem_append.mp hs' with
    | inl h =>
      obtain ⟨r, hr1, hr2⟩ := hlowW s h
      exact ⟨r, hr1, by omega⟩
    | inr h => exact hlowA s h
  · intro w' hw'
    cases List.mem_append.mp hw' with
    | inl h => exact hedges w' h
    | inr h =>
      have : w' = w := by simpa using h
      subst this
      cases hstat with
      | inl h' => exact Or.inl h'
      | inr h' =>
        obtain ⟨r, hr1, hr2, _⟩ := inv.get_act h'
        rw [hrootw] at hr1
        cases hr1
        exact Or.inr ⟨h', by omega⟩

/-- `x` is not a local root: it is pushed on the stack -/
theorem push_step {x : Nat} (inv : TjInv v i0 c0 num (x :: G) t) {stack0 new pre : List Nat} {rx : Nat}
    (lp : TjLoop v num x G stack0 new false pre t rx) (hall : ∀ w, v.g.Adj x w → w ∈ pre)
    {t1 : TJ} (hi : t1.index = t.index) (hc : t1.cc = t.cc) (hs : t1.stack = x :: t.stack) (ho : t1.out = t.out)
    (hg : ∀ y ∈ v.g.nodes, t1.get v y = t.get v y) :
    TjInv v i0 c0 num G t1 := by
  have hm : ∀ y, y ∈ G ++ x :: t.stack ↔ y ∈ (x :: G) ++ t.stack := by
    intro y; simp only [List.mem_append, List.mem_cons]; grind
  have hm3 : ∀ y, y ∈ G ++ x :: t.stack ++ t.out.flatten ↔ y ∈ (x :: G) ++ t.stack ++ t.out.flatten := by
    intro y
    rw [List.mem_append, List.mem_append (s := (x :: G) ++ t.stack), hm]
  have hperm : ((x :: G) ++ t.stack ++ t.out.flatten).Perm (G ++ (x :: t.stack) ++ t.out.flatten) := by
    apply List.perm_iff_count.mpr
    intro a
    simp only [List.count_append, List.count_cons]
    omega
  have hgA : ∀ y ∈ (x :: G) ++ t.stack, t1.get v y = t.get v y := fun y hy =>
    hg y (inv.sub y (List.mem_append_left _ hy))
  refine ⟨?_, ?_, ?_, ?_, by rw [hc, ho]; exact inv.ccv, by rw [ho]; exact inv.ne, ?_, ?_, ?_, ?_,
    by rw [ho]; exact inv.closed, ?_, by rw [ho]; exact inv.classes, by rw [ho]; exact inv.order⟩
  · rw [hs, ho]; exact inv.nd.perm hperm
  · rw [hs, ho]; intro y hy; exact inv.sub y ((hm3 y).mp hy)
  · rw [hs, ho]; intro y hy hsome
    rw [hg y hy] at hsome
    exact (hm3 y).mpr (inv.vis y hy hsome)
  · rw [hi, hs, inv.idx]; simp only [List.length_cons]; omega
  · rw [ho]
    intro j c hj y hy
    rw [hg y (inv.sub y (List.mem_append_right _ (mem_flatten_of_getElem? hj hy)))]
    exact inv.doneRoot j c hj y hy
  · rw [hs]
    intro y hy
    have hy' := (hm y).mp hy
    obtain ⟨z, hz, h1, h2, h3⟩ := inv.actRoot y hy'
    exact ⟨z, (hm z).mpr hz, by rw [hgA y hy']; exact h1, h2, h3⟩
  · rw [hs, hi]
    intro y hy
    exact inv.numLt y ((hm y).mp hy)
  · rw [hs]
    intro y hy r hr
    cases List.mem_cons.mp hy with
    | inl h =>
      subst h
      rw [hgA y (by simp), lp.rootx] at hr
      cases hr
      exact lp.lrF rfl
    | inr h =>
      rw [hgA y (List.mem_append_right _ h)] at hr
      exact inv.stackLt y h r hr
  · rw [hs, ho]
    intro y hy w hw
    cases List.mem_cons.mp hy with
    | inl h =>
      subst h
      cases lp.edges w (hall w hw) with
      | inl h' => exact Or.inl h'
      | inr h' =>
        refine Or.inr ⟨(hm w).mpr h'.1, ?_⟩
        intro r hr
        rw [hgA y (by simp), lp.rootx] at hr
        cases hr
        exact h'.2
    | inr h =>
      cases inv.stackEdges y h w hw with
      | inl h' => exact Or.inl h'
      | inr h' =>
        refine Or.inr ⟨(hm w).mpr h'.1, ?_⟩
        intro r hr
        rw [hgA y (List.mem_append_right _ h)] at hr
        exact h'.2 r hr

/-- `rposition`: what is popped is exactly what was pushed since `x` was entered -/
theorem pop_shape {x : Nat} {t0 : TJ} {num0 : Nat → Nat}
    (inv0 : TjInv v i0 c0 num0 G t0) (inv : TjInv v i0 c0 num (x :: G) t)
    {new pre : List Nat} {rx : Nat} (lp : TjLoop v num x G t0.stack new true pre t rx)
    (hnumx : num x = t0.index) (hfr : ∀ y ∈ G ++ t0.stack, t.get v y = t0.get v y ∧ num y = num0 y) :
    t.stack.takeWhile (fun w => !(optLt (t.get v w) (t.get v x))) = new ∧
      t.stack.drop new.length = t0.stack := by
  have hrx : rx = num x := lp.lrT rfl
  rw [lp.stk]
  refine ⟨takeWhile_boundary _ _ _ ?_ ?_, List.drop_left' rfl⟩
  · intro a ha
    obtain ⟨r, hr1, hr2⟩ := lp.low a ha
    rw [hr1, lp.rootx]
    simp only [optLt, Bool.not_eq_true', decide_eq_false_iff_not]
    omega
  · intro a ha
    have haS : a ∈ t0.stack := List.mem_of_mem_head? (by rw [ha]; rfl)
    have haA : a ∈ G ++ t0.stack := List.mem_append_right _ haS
    have haA' : a ∈ (x :: G) ++ t.stack := by
      rw [lp.stk]
      exact List.mem_append_right _ (List.mem_append_right _ haS)
    obtain ⟨r, hr1, hr2, _⟩ := inv.get_act haA'
    have h0 := inv0.numLt a haA
    rw [← (hfr a haA).2] at h0
    rw [hr1, lp.rootx]
    simp only [optLt, Bool.not_eq_false', decide_eq_true_eq]
    omega

/-- `x` is a local root: the stack is popped down to the nodes entered before `x`, and what was popped
plus `x` is a strongly connected component.  `t0`/`num0` = the state when `x` was entered. -/
theorem pop_step (hB : i0 + v.g.nodes.length ≤ c0) {x : Nat} {t0 : TJ} {num0 : Nat → Nat}
    (inv0 : TjInv v i0 c0 num0 G t0) (inv : TjInv v i0 c0 num (x :: G) t)
    {new pre : List Nat} {rx : Nat} (lp : TjLoop v num x G t0.stack new true pre t rx)
    (hall : ∀ w, v.g.Adj x w → w ∈ pre) (hnumx : num x = t0.index)
    (hfr : ∀ y ∈ G ++ t0.stack, t.get v y = t0.get v y ∧ num y = num0 y)
    (hout : ∀ y ∈ t0.out.flatten, y ∈ t.out.flatten)
    {t1 : TJ} (hi : t1.index = t.index - (new.length + 1)) (hc : t1.cc = t.cc - 1) (hs : t1.stack = t0.stack)
    (ho : t1.out = t.out ++ [new.reverse ++ [x]])
    (hg : ∀ y ∈ v.g.nodes, t1.get v y = if y ∈ new ++ [x] then some t.cc else t.get v y) :
    TjInv v i0 c0 num G t1 := by
  have hrx : rx = num x := lp.lrT rfl
  have hstk := lp.stk
  have hxN : x ∈ v.g.nodes := inv.sub x (by simp)
  have hflat : t1.out.flatten = t.out.flatten ++ (new.reverse ++ [x]) := by rw [ho]; simp
  -- membership bookkeeping
  have hnd := inv.nd
  rw [hstk] at hnd
  have hperm : ((x :: G) ++ (new ++ t0.stack) ++ t.out.flatten).Perm
      (G ++ t0.stack ++ (t.out.flatten ++ (new.reverse ++ [x]))) := by
    apply List.perm_iff_count.mpr
    intro a
    simp only [List.count_append, List.count_cons, List.count_reverse, List.count_nil]
    omega
  have hmemAll : ∀ y, y ∈ G ++ t0.stack ++ (t.out.flatten ++ (new.reverse ++ [x])) ↔
      y ∈ (x :: G) ++ t.stack ++ t.out.flatten := by
    intro y; rw [hstk]; exact hperm.mem_iff.symm
  have hnd1 : (G ++ t0.stack ++ (t.out.flatten ++ (new.reverse ++ [x]))).Nodup := hnd.perm hperm
  have hC : ∀ y, y ∈ new.reverse ++ [x] ↔ y ∈ new ++ [x] := by intro y; simp
  have hCact : ∀ y ∈ new ++ [x], y ∈ (x :: G) ++ t.stack := by
    intro y hy
    rw [hstk]
    simp only [List.mem_append, List.mem_cons, List.not_mem_nil, or_false] at hy ⊢
    grind
  have hdisj1 : ∀ y ∈ G ++ t0.stack, y ∉ new ++ [x] := by
    intro y hy hy'
    have h1 := (List.nodup_append.mp hnd1).2.2 y hy y
      (List.mem_append_right _ ((hC y).mpr hy'))
    exact h1 rfl
  have hdisj2 : ∀ y ∈ t.out.flatten, y ∉ new ++ [x] := by
    intro y hy hy'
    have h1 := (List.nodup_append.mp (List.nodup_append.mp hnd1).2.1).2.2 y hy y ((hC y).mpr hy')
    exact h1 rfl
  have holdA : ∀ y ∈ G ++ t0.stack, y ∈ (x :: G) ++ t.stack := by
    intro y hy
    rw [hstk]
    simp only [List.mem_append, List.mem_cons] at hy ⊢
    grind
  have holdN : ∀ y ∈ G ++ t0.stack, y ∈ v.g.nodes := fun y hy =>
    inv.sub y (List.mem_append_left _ (holdA y hy))
  have hgold : ∀ y ∈ G ++ t0.stack, t1.get v y = t0.get v y := by
    intro y hy
    rw [hg y (holdN y hy), if_neg (hdisj1 y hy)]
    exact (hfr y hy).1
  have hnumOld : ∀ y ∈ G ++ t0.stack, num y < num x := by
    intro y hy
    rw [(hfr y hy).2, hnumx]
    exact inv0.numLt y hy
  have hactSplit : ∀ y ∈ (x :: G) ++ t.stack, y ∈ new ++ [x] ∨ y ∈ G ++ t0.stack := by
    intro y hy
    rw [hstk] at hy
    simp only [List.mem_append, List.mem_cons, List.not_mem_nil, or_false] at hy ⊢
    grind
  have hccpos : 1 ≤ t.cc := by
    have h1 := inv.bound hB
    have h2 := inv.ccv
    have h3 := inv.idx
    simp only [List.length_cons] at h3
    omega
  -- every node of the new component reaches `x`
  have hback : ∀ n, ∀ s ∈ new, num s = n → Reach v.g s x := by
    intro n
    induction n using Nat.strongRecOn with
    | _ n ih =>
      intro s hs' hn
      have hsS : s ∈ t.stack := by rw [hstk]; exact List.mem_append_left _ hs'
      obtain ⟨z, hz, h1, _, h3⟩ := inv.actRoot s (List.mem_append_right _ hsS)
      obtain ⟨r, hr1, hr2⟩ := lp.low s hs'
      rw [h1] at hr1
      have hzr : num z = r := by cases hr1; rfl
      have hlt := inv.stackLt s hsS _ h1
      cases hactSplit z hz with
      | inr hzo => have := hnumOld z hzo; omega
      | inl hzc =>
        cases List.mem_append.mp hzc with
        | inr hzx =>
          have : z = x := by simpa using hzx
          exact this ▸ h3
        | inl hzn => exact reach_trans h3 (ih (num z) (by omega) z hzn rfl)
  have hSC : ∀ s ∈ new ++ [x], SC v.g x s := by
    intro s hs'
    cases List.mem_append.mp hs' with
    | inl h => exact ⟨lp.reach s h, hback _ s h rfl⟩
    | inr h =>
      have : s = x := by simpa using h
      subst this
      exact sc_refl _ _
  -- the finished nodes plus the new component are closed under edges
  have hclosed : ∀ y ∈ t.out.flatten ++ (new.reverse ++ [x]), ∀ w, v.g.Adj y w →
      w ∈ t.out.flatten ++ (new.reverse ++ [x]) := by
    intro y hy w hw
    cases List.mem_append.mp hy with
    | inl h => exact List.mem_append_left _ (inv.closed y h w hw)
    | inr h =>
      have hyC := (hC y).mp h
      have key : w ∈ t.out.flatten ∨ (w ∈ (x :: G) ++ t.stack ∧ num x ≤ num w) := by
        cases List.mem_append.mp hyC with
        | inl hyn =>
          have hyS : y ∈ t.stack := by rw [hstk]; exact List.mem_append_left _ hyn
          cases inv.stackEdges y hyS w hw with
          | inl h' => exact Or.inl h'
          | inr h' =>
            obtain ⟨r, hr1, hr2⟩ := lp.low y hyn
            have := h'.2 r hr1
            exact Or.inr ⟨h'.1, by omega⟩
        | inr hyx =>
          have : y = x := by simpa using hyx
          subst this
          cases lp.edges w (hall w hw) with
          | inl h' => exact Or.inl h'
          | inr h' => exact Or.inr ⟨h'.1, by omega⟩
      cases key with
      | inl h' => exact List.mem_append_left _ h'
      | inr h' =>
        cases hactSplit w h'.1 with
        | inl hwc => exact List.mem_append_right _ ((hC w).mpr hwc)
        | inr hwo => have := hnumOld w hwo; omega
  have hxC : x ∈ t.out.flatten ++ (new.reverse ++ [x]) := by simp
  refine ⟨?_, ?_, ?_, ?_, ?_, ?_, ?_, ?_, ?_, ?_, ?_, ?_, ?_, ?_⟩
  · rw [hs, hflat]; exact hnd1
  · rw [hs, hflat]; intro y hy; exact inv.sub y ((hmemAll y).mp hy)
  · rw [hs, hflat]
    intro y hy hsome
    rw [hg y hy] at hsome
    by_cases hyc : y ∈ new ++ [x]
    · exact List.mem_append_right _ (List.mem_append_right _ ((hC y).mpr hyc))
    · rw [if_neg hyc] at hsome
      exact (hmemAll y).mpr (inv.vis y hy hsome)
  · rw [hi, hs, inv.idx, hstk]
    simp only [List.length_cons, List.length_append]
    omega
  · rw [hc, ho]
    have := inv.ccv
    simp only [List.length_append, List.length_cons, List.length_nil]
    omega
  · rw [ho]
    intro c hc'
    cases List.mem_append.mp hc' with
    | inl h => exact inv.ne c h
    | inr h =>
      have : c = new.reverse ++ [x] := by simpa using h
      rw [this]; simp
  · rw [ho]
    intro j c hj y hy
    rw [List.getElem?_append] at hj
    split at hj
    · have hyf := mem_flatten_of_getElem? hj hy
      rw [hg y (inv.sub y (List.mem_append_right _ hyf)), if_neg (hdisj2 y hyf)]
      exact inv.doneRoot j c hj y hy
    · rename_i hjl
      have hj0 : j - t.out.length = 0 := by
        apply Classical.byContradiction
        intro hne
        have : j - t.out.length = (j - t.out.length - 1) + 1 := by omega
        rw [this] at hj
        simp at hj
      rw [hj0] at hj
      have hcC : c = new.reverse ++ [x] := by simpa using hj.symm
      have hyC : y ∈ new ++ [x] := (hC y).mp (hcC ▸ hy)
      rw [hg y (inv.sub y (List.mem_append_left _ (hCact y hyC))), if_pos hyC]
      have := inv.ccv
      congr 1
      omega
  · rw [hs]
    intro y hy
    obtain ⟨z, hz, h1, h2, h3⟩ := inv0.actRoot y hy
    refine ⟨z, hz, ?_, ?_, h3⟩
    · rw [hgold y hy, h1, (hfr z hz).2]
    · rw [(hfr z hz).2, (hfr y hy).2]; exact h2
  · rw [hs]
    intro y hy
    have h0 := inv0.numLt y hy
    have h1 := inv0.idx
    have h2 := inv.idx
    rw [(hfr y hy).2, hi, h2, hstk]
    simp only [List.length_cons, List.length_append]
    omega
  · rw [hs]
    intro y hy r hr
    have hyA : y ∈ G ++ t0.stack := List.mem_append_right _ hy
    rw [hgold y hyA] at hr
    rw [(hfr y hyA).2]
    exact inv0.stackLt y hy r hr
  · rw [hflat]; exact hclosed
  · rw [hs, hflat]
    intro y hy w hw
    have hyA : y ∈ G ++ t0.stack := List.mem_append_right _ hy
    cases inv0.stackEdges y hy w hw with
    | inl h => exact Or.inl (List.mem_append_left _ (hout w h))
    | inr h =>
      refine Or.inr ⟨h.1, ?_⟩
      intro r hr
      rw [hgold y hyA] at hr
      rw [(hfr w h.1).2]
      exact h.2 r hr
  · rw [ho]
    intro c hc' a ha y
    cases List.mem_append.mp hc' with
    | inl h => exact inv.classes c h a ha y
    | inr h =>
      have hcC : c = new.reverse ++ [x] := by simpa using h
      subst hcC
      have haC := (hC a).mp ha
      constructor
      · intro hy
        exact sc_trans (sc_symm (hSC a haC)) (hSC y ((hC y).mp hy))
      · intro hay
        have hxy : SC v.g x y := sc_trans (hSC a haC) hay
        have hyD : y ∈ t.out.flatten ++ (new.reverse ++ [x]) :=
          reach_closed (S := fun y => y ∈ t.out.flatten ++ (new.reverse ++ [x])) hclosed hxy.1 hxC
        cases List.mem_append.mp hyD with
        | inr h' => exact h'
        | inl h' =>
          have hxD := inv.closedReach hxy.2 h'
          exact absurd (List.mem_append_right _ (List.mem_singleton_self x)) (hdisj2 x hxD)
  · rw [ho]
    refine List.pairwise_append.mpr ⟨inv.order, List.pairwise_singleton _ _, ?_⟩
    intro ci hci cj hcj a ha y hy hr
    have hcC : cj = new.reverse ++ [x] := by simpa using hcj
    subst hcC
    have haD : a ∈ t.out.flatten := List.mem_flatten.mpr ⟨ci, hci, ha⟩
    exact hdisj2 y (inv.closedReach hr haD) ((hC y).mp hy)

end PetgraphModel.C09P
