import PetgraphModel.Proofs.C09Models
/-
`is_cyclic_directed` (mirror model `C09M.cyclicDirected`) decides `CyclicD`.

* `true` is right: a `BackEdge(u, w)` is only reported when `w` is an unfinished ancestor of `u`, so
  `w` reaches `u` and the edge `u → w` closes a cycle.
* `false` is right: when no `BackEdge` is reported, every successor of a node is finished before the
  node itself, so the finishing order is a reverse topological order and there is no cycle.
Core Lean only.
-/
namespace PetgraphModel.C09P
open PetgraphModel PetgraphModel.MGraph PetgraphModel.C09J PetgraphModel.C09M PetgraphModel.Trav

theorem emit_nil (s : VS) (e : Ev) : emit [] s e = ({ s with evs := e :: s.evs }, Ctl.cont) := by
  simp [emit, ctlAt]

/-- discovered and not finished: on the recursion stack -/
def Grey (s : VS) (x : Nat) : Prop := x ∈ s.disc ∧ x ∉ s.fin

def NoBack (s : VS) : Prop := ∀ a b, Ev.back a b ∉ s.evs

structure EvInv (g : MGraph) (s : VS) : Prop where
  good : ∀ a b, Ev.back a b ∈ s.evs → CyclicD g
  finSub : ∀ x ∈ s.fin, x ∈ s.disc
  finNodup : s.fin.Nodup
  /-- `fin` has the most recently finished node first: without back edges, every successor of a
  finished node was finished earlier -/
  finOrd : NoBack s → ∀ l1 x l2, s.fin = l1 ++ x :: l2 → ∀ y, g.Adj x y → y ∈ l2

/-- `s'` extends `s`: more finished nodes in front, more events -/
structure Ext (s s' : VS) : Prop where
  finSuffix : ∃ l, s'.fin = l ++ s.fin
  evsMono : ∀ e ∈ s.evs, e ∈ s'.evs

theorem Ext.refl (s : VS) : Ext s s := ⟨⟨[], rfl⟩, fun _ h => h⟩
theorem Ext.trans {a b c : VS} (h1 : Ext a b) (h2 : Ext b c) : Ext a c := by
  obtain ⟨l1, e1⟩ := h1.finSuffix
  obtain ⟨l2, e2⟩ := h2.finSuffix
  exact ⟨⟨l2 ++ l1, by rw [e2, e1, List.append_assoc]⟩, fun e he => h2.evsMono e (h1.evsMono e he)⟩
theorem Ext.finMem {a b : VS} (h : Ext a b) {x : Nat} (hx : x ∈ a.fin) : x ∈ b.fin := by
  obtain ⟨l, e⟩ := h.finSuffix
  rw [e]; exact List.mem_append_right _ hx
theorem Ext.noBack {a b : VS} (h : Ext a b) (hb : NoBack b) : NoBack a :=
  fun x y hxy => hb x y (h.evsMono _ hxy)

/-- recording one event (that is not an unjustified `BackEdge`) and discovering nodes keeps the invariant -/
theorem evInv_event {g : MGraph} {s s1 : VS} (e : Ev) (inv : EvInv g s) (hfin : s1.fin = s.fin)
    (hdisc : ∀ x ∈ s.disc, x ∈ s1.disc) (hevs : s1.evs = e :: s.evs)
    (hgood : ∀ a b, e = Ev.back a b → CyclicD g) : EvInv g s1 ∧ Ext s s1 := by
  have hext : Ext s s1 := ⟨⟨[], by rw [hfin]; rfl⟩, fun x hx => by rw [hevs]; exact List.mem_cons_of_mem _ hx⟩
  refine ⟨⟨?_, ?_, ?_, ?_⟩, hext⟩
  · intro a b hab
    rw [hevs] at hab
    cases List.mem_cons.mp hab with
    | inl h => exact hgood a b h.symm
    | inr h => exact inv.good a b h
  · intro x hx; rw [hfin] at hx; exact hdisc x (inv.finSub x hx)
  · rw [hfin]; exact inv.finNodup
  · intro hnb; rw [hfin]; exact inv.finOrd (hext.noBack hnb)

/-- joint contract of `dfs_visitor` and its neighbour loop (no visitor control: script `[]`) -/
theorem dfsVisitor_contract (v : View) (hv : ViewOk v) : ∀ (f : Nat),
    (∀ (u : Nat) (s s' : VS) (r : Res), dfsVisitor v [] f u s = (s', r) → EvInv v.g s →
      (∀ x, Grey s x → Reach v.g x u) → r = .cont →
      EvInv v.g s' ∧ (∀ x, Grey s' x ↔ Grey s x) ∧ Ext s s' ∧ (u ∉ s.disc → u ∈ s'.fin)) ∧
    (∀ (u : Nat) (ws : List Nat) (s s' : VS) (r : Res), neighLoop v [] f u ws s = (s', r) → EvInv v.g s →
      Grey s u → (∀ x, Grey s x → Reach v.g x u) → (∀ w ∈ ws, v.g.Adj u w) → r = .cont →
      EvInv v.g s' ∧ (∀ x, Grey s' x ↔ Grey s x) ∧ Ext s s' ∧ (NoBack s' → ∀ w ∈ ws, w ∈ s'.fin)) := by
  intro f
  induction f with
  | zero =>
    constructor
    · intro u s s' r h _ _ hr
      simp [dfsVisitor] at h
      rw [← h.2] at hr; cases hr
    · intro u ws s s' r h _ _ _ _ hr
      simp [neighLoop] at h
      rw [← h.2] at hr; cases hr
  | succ f ih =>
    obtain ⟨ihV, ihN⟩ := ih
    constructor
    · intro u s s' r h inv hgrey hr
      simp only [dfsVisitor] at h
      split at h
      · rename_i hud
        simp at h
        obtain ⟨h1, _⟩ := h
        subst h1
        exact ⟨inv, fun _ => Iff.rfl, Ext.refl _, fun hn => absurd (by simpa using hud) hn⟩
      · rename_i hud
        have hud' : u ∉ s.disc := by simpa using hud
        simp only [emit_nil] at h
        simp only [show (Ctl.cont = Ctl.prune) = False by simp, if_false] at h
        obtain ⟨s1, hs1⟩ : ∃ s1 : VS, ({ disc := u :: s.disc, fin := s.fin, time := s.time + 1, evs := Ev.discover u s.time :: s.evs } : VS) = s1 := ⟨_, rfl⟩
        rw [hs1] at h
        have hg1 : ∀ x, Grey s1 x ↔ (Grey s x ∨ x = u) := by
          intro x
          subst hs1
          simp only [Grey, List.mem_cons]
          constructor
          · rintro ⟨h1 | h1, h2⟩
            · exact Or.inr h1
            · exact Or.inl ⟨h1, h2⟩
          · rintro (⟨h1, h2⟩ | h1)
            · exact ⟨Or.inr h1, h2⟩
            · subst h1
              exact ⟨Or.inl rfl, fun hf => hud' (inv.finSub _ hf)⟩
        obtain ⟨inv1, ext1⟩ : EvInv v.g s1 ∧ Ext s s1 := by
          apply evInv_event (Ev.discover u s.time) inv
          · subst hs1; rfl
          · subst hs1; intro x hx; exact List.mem_cons_of_mem _ hx
          · subst hs1; rfl
          · intro a b hab; cases hab
        have hdisc1 : ∀ x, Grey s1 x → Reach v.g x u := by
          intro x hx
          cases (hg1 x).mp hx with
          | inl h => exact hgrey x h
          | inr h => exact h ▸ Reach.refl _
        cases hn : neighLoop v [] f u (v.succ u) s1 with
        | mk s2 r2 =>
          rw [hn] at h
          cases r2 with
          | cont =>
            simp at h
            obtain ⟨h1, _⟩ := h
            obtain ⟨inv2, hg2, ext2, hfin2⟩ := ihN u (v.succ u) s1 s2 .cont hn inv1 ((hg1 u).mpr (Or.inr rfl)) hdisc1
              (fun w hw => (hv u w).mp hw) rfl
            subst h1
            have hu2 : Grey s2 u := (hg2 u).mpr ((hg1 u).mpr (Or.inr rfl))
            have ext12 : Ext s s2 := ext1.trans ext2
            have ext3 : Ext s2 { disc := s2.disc, fin := u :: s2.fin, time := s2.time + 1, evs := Ev.finish u s2.time :: s2.evs } :=
              ⟨⟨[u], rfl⟩, fun e he => List.mem_cons_of_mem _ he⟩
            refine ⟨⟨?_, ?_, ?_, ?_⟩, ?_, ext12.trans ext3, fun _ => List.mem_cons_self ..⟩
            · intro a b hab
              simp only [List.mem_cons] at hab
              cases hab with
              | inl h => cases h
              | inr h => exact inv2.good a b h
            · intro x hx
              simp only [List.mem_cons] at hx
              cases hx with
              | inl h => exact h ▸ hu2.1
              | inr h => exact inv2.finSub x h
            · exact List.nodup_cons.mpr ⟨hu2.2, inv2.finNodup⟩
            · intro hnb l1 x l2 hsplit y hxy
              have hnb2 : NoBack s2 := ext3.noBack hnb
              cases l1 with
              | nil =>
                simp only [List.nil_append, List.cons.injEq] at hsplit
                obtain ⟨hx, hl⟩ := hsplit
                subst hx; subst hl
                exact hfin2 hnb2 y ((hv u y).mpr hxy)
              | cons z l1' =>
                simp only [List.cons_append, List.cons.injEq] at hsplit
                exact inv2.finOrd hnb2 l1' x l2 hsplit.2 y hxy
            · intro x
              simp only [Grey, List.mem_cons, not_or]
              constructor
              · rintro ⟨h1, h2, h3⟩
                have : Grey s2 x := ⟨h1, h3⟩
                cases (hg1 x).mp ((hg2 x).mp this) with
                | inl h => exact h
                | inr h => exact absurd h h2
              · intro hx
                have h2 : Grey s2 x := (hg2 x).mpr ((hg1 x).mpr (Or.inl hx))
                exact ⟨h2.1, fun hxu => hud' (hxu ▸ hx.1), h2.2⟩
          | brk => simp at h; rw [← h.2] at hr; cases hr
          | panicPruneFinish => simp at h; rw [← h.2] at hr; cases hr
          | fuel => simp at h; rw [← h.2] at hr; cases hr
    · intro u ws s s' r h inv hu hgrey hadj hr
      cases ws with
      | nil =>
        simp [neighLoop] at h
        obtain ⟨h1, _⟩ := h
        subst h1
        exact ⟨inv, fun _ => Iff.rfl, Ext.refl _, fun _ w hw => by cases hw⟩
      | cons w ws =>
        have hadj' : ∀ z ∈ ws, v.g.Adj u z := fun z hz => hadj z (List.mem_cons_of_mem _ hz)
        have huw : v.g.Adj u w := hadj w (List.mem_cons_self ..)
        simp only [neighLoop] at h
        split at h
        · -- tree edge
          rename_i hwd
          have hwd' : w ∉ s.disc := by simpa using hwd
          simp only [emit_nil] at h
          obtain ⟨s1, hs1⟩ : ∃ s1 : VS, ({ s with evs := Ev.tree u w :: s.evs } : VS) = s1 := ⟨_, rfl⟩
          rw [hs1] at h
          have hg1 : ∀ x, Grey s1 x ↔ Grey s x := by intro x; subst hs1; rfl
          obtain ⟨inv1, ext1⟩ : EvInv v.g s1 ∧ Ext s s1 := by
            apply evInv_event (Ev.tree u w) inv
            · subst hs1; rfl
            · subst hs1; intro x hx; exact hx
            · subst hs1; rfl
            · intro a b hab; cases hab
          have hwd1 : w ∉ s1.disc := by subst hs1; exact hwd'
          cases hd : dfsVisitor v [] f w s1 with
          | mk s2 r2 =>
            rw [hd] at h
            cases r2 with
            | cont =>
              simp only at h
              obtain ⟨inv2, hg2, ext2, hw2⟩ := ihV w s1 s2 .cont hd inv1
                (fun x hx => Reach.step (hgrey x ((hg1 x).mp hx)) huw) rfl
              have hg12 : ∀ x, Grey s2 x ↔ Grey s x := fun x => (hg2 x).trans (hg1 x)
              obtain ⟨inv3, hg3, ext3, hfin3⟩ := ihN u ws s2 s' r h inv2 ((hg12 u).mpr hu)
                (fun x hx => hgrey x ((hg12 x).mp hx)) hadj' hr
              refine ⟨inv3, fun x => (hg3 x).trans (hg12 x), (ext1.trans ext2).trans ext3, ?_⟩
              intro hnb z hz
              cases List.mem_cons.mp hz with
              | inl h => exact h ▸ ext3.finMem (hw2 hwd1)
              | inr h => exact hfin3 hnb z h
            | brk => simp at h; rw [← h.2] at hr; cases hr
            | panicPruneFinish => simp at h; rw [← h.2] at hr; cases hr
            | fuel => simp at h; rw [← h.2] at hr; cases hr
        · -- back or cross/forward edge
          rename_i hwd
          have hwd' : w ∈ s.disc := by simpa using hwd
          simp only [emit_nil] at h
          obtain ⟨s1, hs1⟩ : ∃ s1 : VS, ({ s with evs := (if !s.fin.contains w then Ev.back u w else Ev.cross u w) :: s.evs } : VS) = s1 := ⟨_, rfl⟩
          rw [hs1] at h
          have hg1 : ∀ x, Grey s1 x ↔ Grey s x := by intro x; subst hs1; rfl
          obtain ⟨inv1, ext1⟩ : EvInv v.g s1 ∧ Ext s s1 := by
            apply evInv_event (if !s.fin.contains w then Ev.back u w else Ev.cross u w) inv
            · subst hs1; rfl
            · subst hs1; intro x hx; exact hx
            · subst hs1; rfl
            · intro a b hab
              split at hab
              · rename_i hwf
                have hwf' : w ∉ s.fin := by simpa using hwf
                cases hab
                exact ⟨u, reach1_of_adj_reach huw (hgrey w ⟨hwd', hwf'⟩)⟩
              · cases hab
          obtain ⟨inv3, hg3, ext3, hfin3⟩ := ihN u ws s1 s' r h inv1 ((hg1 u).mpr hu)
            (fun x hx => hgrey x ((hg1 x).mp hx)) hadj' hr
          refine ⟨inv3, fun x => (hg3 x).trans (hg1 x), ext1.trans ext3, ?_⟩
          intro hnb z hz
          cases List.mem_cons.mp hz with
          | inr h => exact hfin3 hnb z h
          | inl h =>
            subst h
            by_cases hwf : z ∈ s.fin
            · exact (ext1.trans ext3).finMem hwf
            · exfalso
              have hc : (!s.fin.contains z) = true := by simpa using hwf
              have : Ev.back u z ∈ s1.evs := by subst hs1; rw [if_pos hc]; exact List.mem_cons_self ..
              exact hnb u z (ext3.evsMono _ this)

theorem dfsSearch_contract (v : View) (hv : ViewOk v) (f : Nat) : ∀ (starts : List Nat) (s s' : VS),
    dfsSearch v [] f starts s = (s', .cont) → EvInv v.g s → (∀ x, ¬ Grey s x) →
    EvInv v.g s' ∧ (∀ x, ¬ Grey s' x) ∧ Ext s s' ∧ ∀ x ∈ starts, x ∈ s'.fin := by
  intro starts
  induction starts with
  | nil =>
    intro s s' h inv hng
    simp [dfsSearch] at h
    subst h
    exact ⟨inv, hng, Ext.refl _, by simp⟩
  | cons st rest ih =>
    intro s s' h inv hng
    simp only [dfsSearch] at h
    cases hd : dfsVisitor v [] f st s with
    | mk s1 r1 =>
      rw [hd] at h
      cases r1 with
      | cont =>
        simp only at h
        obtain ⟨inv1, hg1, ext1, hst⟩ := (dfsVisitor_contract v hv f).1 st s s1 .cont hd inv
          (fun x hx => absurd hx (hng x)) rfl
        have hng1 : ∀ x, ¬ Grey s1 x := fun x hx => hng x ((hg1 x).mp hx)
        obtain ⟨inv2, hng2, ext2, hrest⟩ := ih s1 s' h inv1 hng1
        refine ⟨inv2, hng2, ext1.trans ext2, ?_⟩
        intro x hx
        cases List.mem_cons.mp hx with
        | inr h => exact hrest x h
        | inl h =>
          subst h
          by_cases hxd : x ∈ s.disc
          · have : x ∈ s.fin := Classical.byContradiction fun hnf => hng x ⟨hxd, hnf⟩
            exact (ext1.trans ext2).finMem this
          · exact ext2.finMem (hst hxd)
      | brk => simp at h
      | panicPruneFinish => simp at h
      | fuel => simp at h

theorem idxOf_split_lt {l l1 l2 : List Nat} {x y : Nat} (hnd : l.Nodup) (hl : l = l1 ++ x :: l2)
    (hy : y ∈ l2) : l.idxOf x < l.idxOf y := by
  subst hl
  have hnd' := List.nodup_append.mp hnd
  have hx1 : x ∉ l1 := fun h => hnd'.2.2 x h x (List.mem_cons_self ..) rfl
  have hy1 : y ∉ l1 := fun h => hnd'.2.2 y h y (List.mem_cons_of_mem _ hy) rfl
  have hyx : y ≠ x := fun h => (List.nodup_cons.mp hnd'.2.1).1 (h ▸ hy)
  have hpos : 0 < List.idxOf y (x :: l2) := by
    rw [List.idxOf_cons]
    have : (x == y) = false := by simpa using fun e : x = y => hyx e.symm
    simp [this]
  rw [List.idxOf_append, List.idxOf_append, if_neg hx1, if_neg hy1, List.idxOf_cons_self]
  omega

/-- **`is_cyclic_directed` decides whether the graph has a directed cycle** (mirror model, every view
whose neighbour iteration describes the graph; "no cycle" needs every edge endpoint to be a node). -/
theorem cyclicDirected_spec (v : View) (hv : ViewOk v) (b : Bool) (h : cyclicDirected v = some b) :
    (b = true → CyclicD v.g) ∧ (b = false → v.g.WellFormed → ¬ CyclicD v.g) := by
  unfold cyclicDirected at h
  split at h
  · rename_i s hs
    simp at h
    obtain ⟨inv, _, _, hall⟩ := dfsSearch_contract v hv _ v.g.nodes {} s hs
      ⟨by intro a b hab; simp at hab, by intro x hx; simp at hx, by simp, by
        intro _ l1 x l2 hsplit
        have : ([] : List Nat) = l1 ++ x :: l2 := hsplit
        simp at this⟩
      (by intro x hx; simp [Grey] at hx)
    constructor
    · intro hb
      rw [hb] at h
      obtain ⟨e, he, hbk⟩ := List.any_eq_true.mp h
      cases e with
      | back a b => exact inv.good a b he
      | _ => simp [isBack] at hbk
    · intro hb hwf
      rw [hb] at h
      have hnb : NoBack s := by
        intro a c hac
        have : s.evs.any isBack = true := List.any_eq_true.mpr ⟨_, hac, rfl⟩
        rw [h] at this; cases this
      -- every edge goes from a finished node to one finished earlier
      have hstep : ∀ x y, x ∈ s.fin → v.g.Adj x y → y ∈ s.fin ∧ s.fin.idxOf x < s.fin.idxOf y := by
        intro x y hx hxy
        obtain ⟨l1, l2, hsplit⟩ := List.append_of_mem hx
        have hy := inv.finOrd hnb l1 x l2 hsplit y hxy
        exact ⟨by rw [hsplit]; exact List.mem_append_right _ (List.mem_cons_of_mem _ hy),
          idxOf_split_lt inv.finNodup hsplit hy⟩
      have hreach : ∀ x y, Reach1 v.g x y → x ∈ s.fin → y ∈ s.fin ∧ s.fin.idxOf x < s.fin.idxOf y := by
        intro x y hxy
        induction hxy with
        | single hadj => exact fun hx => hstep _ _ hx hadj
        | step _ hadj ih =>
          intro hx
          obtain ⟨h1, h2⟩ := ih hx
          obtain ⟨h3, h4⟩ := hstep _ _ h1 hadj
          exact ⟨h3, Nat.lt_trans h2 h4⟩
      rintro ⟨x, hx⟩
      obtain ⟨y, hxy, _⟩ := reach1_head hx
      have hxn : x ∈ v.g.nodes := by
        obtain ⟨e, he, hc⟩ := hxy
        rcases hc with ⟨h1, _⟩ | ⟨_, _, h2⟩
        · exact h1 ▸ (hwf.2 e he).1
        · exact h2 ▸ (hwf.2 e he).2
      exact Nat.lt_irrefl _ (hreach x x hx (hall x hxn)).2
  · cases h

end PetgraphModel.C09P
