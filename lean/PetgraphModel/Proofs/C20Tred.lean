import PetgraphModel.Proofs.C20Base
/-
C20 — soundness of the judges for the transitive reduction/closure and for maximal cliques.
-/
namespace PetgraphModel.C20
open PetgraphModel PetgraphModel.MGraph PetgraphModel.Oracle

/-- the covering relation of the reachability order -/
def Covers (g : MGraph) (u v : Nat) : Prop := Reach1 g u v ∧ ¬ ∃ w, Reach1 g u w ∧ Reach1 g w v

theorem coverB_spec {g : MGraph} (hg : EndpointsOk g) {u v : Nat} {r : Bool} (h : coverB g u v = some r) :
    r = true ↔ Covers g u v := by
  unfold coverB at h
  split at h
  · simp at h
  · rename_i h1
    simp only [Option.some.injEq] at h
    subst h
    have := reach1B_spec h1
    simp only [Bool.false_eq_true, false_iff] at this
    simp [Covers, this]
  · rename_i h1
    have hr1 : Reach1 g u v := (reach1B_spec h1).mp rfl
    split at h
    · rename_i hall
      simp only [Option.some.injEq] at h
      subst h
      rw [List.all_eq_true]
      constructor
      · intro hno
        refine ⟨hr1, ?_⟩
        rintro ⟨w, hw1, hw2⟩
        have hwn := (reach1_nodes hg hw1).2
        have := hno w hwn
        have hs := List.all_eq_true.mp hall w hwn
        simp only [Bool.and_eq_true] at hs
        cases ha : reach1B g u w with
        | none => simp [ha] at hs
        | some ba =>
          cases hb : reach1B g w v with
          | none => simp [hb] at hs
          | some bb =>
            have ea := (reach1B_spec ha).mpr hw1
            have eb := (reach1B_spec hb).mpr hw2
            subst ea; subst eb
            simp [ha, hb] at this
      · rintro ⟨_, hno⟩ w hwn
        have hs := List.all_eq_true.mp hall w hwn
        simp only [Bool.and_eq_true] at hs
        cases ha : reach1B g u w with
        | none => simp [ha] at hs
        | some ba =>
          cases hb : reach1B g w v with
          | none => simp [hb] at hs
          | some bb =>
            cases ba with
            | false => simp
            | true =>
              cases bb with
              | false => simp
              | true =>
                exact absurd ⟨w, (reach1B_spec ha).mp rfl, (reach1B_spec hb).mp rfl⟩ hno
    · simp at h

theorem judgeTred_sound (g : MGraph) (topo : List Nat) (a : TredAnswer) (h : judgeTred g topo a = none) :
    (∀ u v, (u, v) ∈ cloPairs topo a ↔ Reach1 g u v) ∧
    (∀ u v, (u, v) ∈ redPairs topo a ↔ Covers g u v) ∧
    (simpleB g = true → (cloPairs topo a).Nodup ∧ (redPairs topo a).Nodup) := by
  unfold judgeTred at h
  have hg : EndpointsOk g := clause_holds h (by mem_lit)
  have c1 : ∀ p ∈ cloPairs topo a, reach1B g p.1 p.2 = some true := clause_holds h (by mem_lit)
  have c2 : ∀ u ∈ g.nodes, ∀ v ∈ g.nodes, reach1B g u v = some false ∨ (u, v) ∈ cloPairs topo a :=
    clause_holds h (by mem_lit)
  have c3 : ∀ p ∈ redPairs topo a, coverB g p.1 p.2 = some true := clause_holds h (by mem_lit)
  have c4 : ∀ u ∈ g.nodes, ∀ v ∈ g.nodes, coverB g u v = some false ∨ (u, v) ∈ redPairs topo a :=
    clause_holds h (by mem_lit)
  have c5 : simpleB g = true → (cloPairs topo a).Nodup ∧ (redPairs topo a).Nodup := clause_holds h (by mem_lit)
  refine ⟨?_, ?_, c5⟩
  · intro u v
    constructor
    · intro hm; exact (reach1B_spec (c1 _ hm)).mp rfl
    · intro hr
      have hn := reach1_nodes hg hr
      cases c2 u hn.1 v hn.2 with
      | inl hf => have := (reach1B_spec hf).mpr hr; simp at this
      | inr hm => exact hm
  · intro u v
    constructor
    · intro hm; exact (coverB_spec hg (c3 _ hm)).mp rfl
    · intro hc
      have hn := reach1_nodes hg hc.1
      cases c4 u hn.1 v hn.2 with
      | inl hf => have := (coverB_spec hg hf).mpr hc; simp at this
      | inr hm => exact hm

/-! ### maximal cliques -/

theorem judgeCliques_sound (g : MGraph) (out : List (List Nat)) (h : judgeCliques g out = none) :
    (∀ c ∈ out, c.Nodup ∧ ∀ x ∈ c, x ∈ g.nodes) ∧ (out.map (canon g)).Nodup ∧
    ∀ S, S.Sublist g.nodes → (S ∈ out.map (canon g) ↔ IsMaxClique g S) := by
  unfold judgeCliques at h
  have c1 : ∀ c ∈ out, c.Nodup ∧ ∀ x ∈ c, x ∈ g.nodes := clause_holds h (by mem_lit)
  have c2 : (out.map (canon g)).Nodup := clause_holds h (by mem_lit)
  have c3 : ∀ c ∈ out.map (canon g), IsMaxClique g c := clause_holds h (by mem_lit)
  have c4 : ∀ S ∈ maxCliques g, S ∈ out.map (canon g) := clause_holds h (by mem_lit)
  refine ⟨c1, c2, fun S hS => ⟨c3 S, fun hm => c4 S ?_⟩⟩
  unfold maxCliques
  rw [List.mem_filter]
  exact ⟨mem_subsets.mpr hS, by simpa using hm⟩

end PetgraphModel.C20
