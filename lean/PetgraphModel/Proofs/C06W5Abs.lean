import PetgraphModel.Proofs.C06W2Matrix
import PetgraphModel.Proofs.C06W2Csr
import PetgraphModel.Proofs.C06W2List
/-
C06 wave 5 — `abs (<type>Table s)` IS the abstract graph of the storage specification, for the three types wave 3 left
out: `MatrixGraph` (C04 simple graph `MatrixSpec.G`, relation `R`), `Csr` (C05 simple graph `AppendSpec.SG`, relation
`Abs`), `adj::List` (C05 insertion log `AppendSpec.ML`, relation `LAbs`).  With the wave-3 theorems for `Graph`,
`GraphMap`, `StableGraph`: the six tables cannot agree with each other on a wrong graph.
-/
namespace PetgraphModel.Visit
open PetgraphModel

/-! ### `MatrixGraph` against the C04 simple graph -/

section matrix
open PetgraphModel.Matrix PetgraphModel.MatrixSpec PetgraphModel.MatrixProofs PetgraphModel.Visit.MXView

/-- the abstract multigraph `ag` with node references `refs` IS the C04 simple graph `g`: same kind; the node list
enumerates the live ids once and the references carry their weights; the edge list has one reference per ordered pair
(per unordered pair when undirected, in either orientation) carrying the pair's weight -/
structure DenotesMG (ag : AGraph) (refs : List (Nat × Int)) (g : MatrixSpec.G) : Prop where
  directed : ag.directed = g.directed
  nodesNodup : ag.nodes.Nodup
  nodes : ∀ n, n ∈ ag.nodes ↔ g.live n = true
  refs : ∀ n w, (n, w) ∈ refs ↔ g.nodeWeight n = some w
  onePerPair : (ag.edges.map fun e => MatrixSpec.key g.directed e.src e.tgt).Nodup
  edges : ∀ a b w, g.weight a b = some w ↔
    ∃ e ∈ ag.edges, e.w = w ∧ ((e.src = a ∧ e.tgt = b) ∨ (g.directed = false ∧ e.src = b ∧ e.tgt = a))

theorem mem_nodeRefs {s : State} (h : Inv s) (n : Nat) (w : Int) :
    (n, w) ∈ nodeRefs s ↔ s.nodes.get n = some w := by
  unfold nodeRefs
  simp only [List.mem_filterMap, Option.map_eq_some_iff, Prod.mk.injEq]
  constructor
  · rintro ⟨i, _, w', hw, rfl, rfl⟩; exact hw
  · intro hw
    exact ⟨n, (Ids.mem_ids_iff_live h.ids n).2 (by simp [hw]), w, hw, rfl, rfl⟩

theorem matrixTable_abs {s : State} {g : MatrixSpec.G} (h : Inv s) (r : R s g) :
    DenotesMG (abs (matrixTable s)) (nodeRefs s) g ∧ (matrixTable s).refs = some (nodeRefs s) := by
  refine ⟨?_, rfl⟩
  have habs : abs (matrixTable s) = ⟨s.dir, s.nodes.ids, (edgeRefs s).map (eref s)⟩ := rfl
  rw [habs]
  refine ⟨r.dir.symm, Ids.ids_nodup _, fun n => ?_, fun n w => ?_, ?_, fun a b w => ?_⟩
  · show n ∈ s.nodes.ids ↔ _
    rw [Ids.mem_ids_iff_live h.ids, live_eq r]
  · rw [mem_nodeRefs h, r.nodes]
  · show (((edgeRefs s).map (eref s)).map fun e => MatrixSpec.key g.directed e.src e.tgt).Nodup
    rw [List.map_map]
    have e1 : (edgeRefs s).map ((fun e => MatrixSpec.key g.directed e.src e.tgt) ∘ eref s) =
        (edgeRefs s).map fun t => (t.1, t.2.1) := by
      apply List.map_congr_left
      rintro ⟨a, b, w⟩ hm
      have hm' := (mem_edgeRefs s _).1 hm
      simp only [Function.comp, eref, MatrixSpec.key, r.dir]
      cases hd : s.dir
      · have hba : b ≤ a := by
          rcases hm'.1 with h1 | h1
          · rw [hd] at h1; cases h1
          · exact h1
        simp [Nat.max_eq_left hba, Nat.min_eq_right hba]
      · simp
    rw [e1]
    have hp := edgeRefs_pairwise s
    rw [List.Nodup, List.pairwise_map]
    exact hp.imp fun {t t'} hne e => hne ⟨by rw [Prod.mk.injEq] at e; exact e.1, by rw [Prod.mk.injEq] at e; exact e.2⟩
  · show g.weight a b = some w ↔ ∃ e ∈ (edgeRefs s).map (eref s), _
    rw [r.edges]
    constructor
    · intro hg
      by_cases hc : s.dir = true ∨ b ≤ a
      · exact ⟨eref s (a, b, w), List.mem_map.2 ⟨_, (mem_edgeRefs s _).2 ⟨hc, hg⟩, rfl⟩, rfl, .inl ⟨rfl, rfl⟩⟩
      · have hd : s.dir = false := by
          cases hdd : s.dir
          · rfl
          · exact absurd (.inl hdd) hc
        have hlt : a ≤ b := by
          have : ¬ b ≤ a := fun hle => hc (.inr hle)
          omega
        have hg' : getEdgeWeight s b a = some w := by rw [getEdgeWeight_symm hd b a]; exact hg
        exact ⟨eref s (b, a, w), List.mem_map.2 ⟨_, (mem_edgeRefs s _).2 ⟨.inr hlt, hg'⟩, rfl⟩, rfl,
          .inr ⟨by rw [r.dir]; exact hd, rfl, rfl⟩⟩
    · rintro ⟨e, he, hw, hor⟩
      obtain ⟨⟨a', b', w'⟩, hm, rfl⟩ := List.mem_map.1 he
      have hm' := (mem_edgeRefs s _).1 hm
      simp only [eref] at hw hor
      subst hw
      rcases hor with ⟨rfl, rfl⟩ | ⟨hd, rfl, rfl⟩
      · exact hm'.2
      · rw [r.dir] at hd
        rw [getEdgeWeight_symm hd]; exact hm'.2

end matrix

/-! ### `Csr` against the C05 simple graph -/

section csr
open PetgraphModel.CsrM PetgraphModel.CsrProofs PetgraphModel.Visit.CsrView PetgraphModel.AppendSpec
open CsrW2

/-- the abstract multigraph `ag` with node references `refs` IS the C05 simple graph `g`: same kind; nodes `0..n` with
the weights of `g`; a reference `a → b` with weight `w` is listed exactly when `g` has the edge with that weight (for an
undirected `Csr` therefore in BOTH orientations, as the code stands: finding D7), at most once per ordered pair -/
structure DenotesCsr (ag : AGraph) (refs : List (Nat × Int)) (g : AppendSpec.SG) : Prop where
  directed : ag.directed = g.directed
  nodes : ag.nodes = List.range g.n
  refIds : refs.map (·.1) = List.range g.n
  refWeights : refs.map (·.2) = g.nodes
  edges : ∀ a b w, g.lookup a b = some w ↔ ∃ e ∈ ag.edges, e.src = a ∧ e.tgt = b ∧ e.w = w
  onePerOrderedPair : ∀ e1 ∈ ag.edges, ∀ e2 ∈ ag.edges, e1.src = e2.src → e1.tgt = e2.tgt → e1 = e2

theorem csrTable_abs {s : CsrM.State} {R : List Row} {g : AppendSpec.SG} (good : Good s R) (ab : Abs s R g)
    (hf : IxFits s) :
    DenotesCsr (abs (csrTable s)) (nodeReferences s) g ∧ (csrTable s).refs = some (nodeReferences s) := by
  refine ⟨?_, rfl⟩
  have hn : g.n = s.nodeCount := by rw [Abs.n good ab, good.rep.nodeCount]
  have hnw : s.nodeWeights.length = s.nodeCount := by rw [good.rep.nw, good.rep.nodeCount]
  have habs : abs (csrTable s) = ⟨s.directed, nodeIdentifiers s, vall s.modulus 0 0 R⟩ := by
    simp only [abs, csrTable, Option.getD_some, csr_erefs_eq good]
  rw [habs]
  refine ⟨ab.dir.symm, by rw [hn]; exact nodeIdentifiers_eq hf, ?_, ?_, fun a b w => ?_, fun e1 h1 e2 h2 => ?_⟩
  · unfold nodeReferences
    rw [hn, ← hnw]
    apply List.ext_getElem
    · simp
    · intro i h1 h2
      simp only [List.length_map, List.length_zipWith, List.length_range, Nat.min_self] at h1
      simp only [List.getElem_map, List.getElem_zipWith, List.getElem_range]
      exact mkIx_of_lt hf (by rw [← hnw]; exact h1)
  · unfold nodeReferences
    rw [ab.nodes]
    apply List.ext_getElem
    · simp
    · intro i h1 h2
      simp
  · show g.lookup a b = some w ↔ ∃ e ∈ vall s.modulus 0 0 R, _
    rw [← ab.look, ← vall_has good hf a b w]
    constructor
    · rintro ⟨i, hi⟩; exact ⟨_, hi, rfl, rfl, rfl⟩
    · rintro ⟨⟨i, a', b', w'⟩, he, rfl, rfl, rfl⟩; exact ⟨i, he⟩
  · exact vall_unique good hf e1 e2 h1 h2

end csr

/-! ### `adj::List` against the C05 insertion log -/

section list
open PetgraphModel.AdjM PetgraphModel.Visit.ALView PetgraphModel.AppendSpec

/-- the reference of a logged edge in the table's identifier code -/
def erefOfMEdge (m : MEdge) : ERef := ⟨pcode m.id.1 m.id.2, m.src, m.tgt, m.w⟩

/-- the abstract multigraph `ag` IS the C05 insertion log `g` (a multigraph: parallel edges are different entries):
directed, nodes `0..n`, and the edge references are exactly the logged edges — each once (the id codes are pairwise
different) -/
structure DenotesML (ag : AGraph) (g : ML) : Prop where
  directed : ag.directed = true
  nodes : ag.nodes = List.range g.n
  idsNodup : (ag.edges.map (·.id)).Nodup
  edges : ∀ e, e ∈ ag.edges ↔ ∃ m ∈ g.edges, e = erefOfMEdge m

theorem mem_rowRefs_iff (f : Nat) : ∀ (k : Nat) (row : Row) (r : AdjM.ERef),
    r ∈ rowRefs f k row ↔ r.1 = f ∧ k ≤ r.2.1 ∧ row[r.2.1 - k]? = some (r.2.2.1, r.2.2.2)
  | _, [], r => by simp [rowRefs]
  | k, x :: xs, r => by
    simp only [rowRefs, List.mem_cons, mem_rowRefs_iff f (k + 1) xs r]
    obtain ⟨f', j, t, w⟩ := r
    constructor
    · rintro (h | ⟨h1, h2, h3⟩)
      · injection h with h1 h; injection h with h2 h; injection h with h3 h4
        subst h1 h2 h3 h4; simp
      · refine ⟨h1, by omega, ?_⟩
        have : j - k = (j - (k + 1)) + 1 := by simp only at h2; omega
        simp only at h3 ⊢
        rw [this, List.getElem?_cons_succ]; exact h3
    · rintro ⟨h1, h2, h3⟩
      simp only at h1 h2 h3
      by_cases hj : j = k
      · left
        subst hj h1
        simp only [Nat.sub_self, List.getElem?_cons_zero, Option.some.injEq] at h3
        rw [h3]
      · right
        refine ⟨h1, by simp only; omega, ?_⟩
        have : j - k = (j - (k + 1)) + 1 := by omega
        rw [this, List.getElem?_cons_succ] at h3
        exact h3

theorem mem_plainRefs_iff : ∀ (i : Nat) (rows : List Row) (r : AdjM.ERef),
    r ∈ plainRefs i rows ↔ i ≤ r.1 ∧ ∃ row, rows[r.1 - i]? = some row ∧ row[r.2.1]? = some (r.2.2.1, r.2.2.2)
  | _, [], r => by simp [plainRefs]
  | i, row :: rows, r => by
    simp only [plainRefs, List.mem_append, mem_rowRefs_iff, mem_plainRefs_iff (i + 1) rows r, Nat.sub_zero, Nat.zero_le,
      true_and]
    constructor
    · rintro (⟨h1, h2⟩ | ⟨h1, row', h2, h3⟩)
      · exact ⟨by omega, row, by simp [h1], h2⟩
      · refine ⟨by omega, row', ?_, h3⟩
        have : r.1 - i = (r.1 - (i + 1)) + 1 := by omega
        rw [this, List.getElem?_cons_succ]; exact h2
    · rintro ⟨h1, row', h2, h3⟩
      by_cases hj : r.1 = i
      · left
        rw [hj, Nat.sub_self, List.getElem?_cons_zero] at h2
        cases h2
        exact ⟨hj, h3⟩
      · right
        refine ⟨by omega, row', ?_, h3⟩
        have : r.1 - i = (r.1 - (i + 1)) + 1 := by omega
        rw [this, List.getElem?_cons_succ] at h2
        exact h2

theorem adjListTable_abs (s : AdjM.State) (g : ML) (h : ListWF s) (ab : AdjProofs.LAbs s g) :
    DenotesML (abs (adjListTable s)) g := by
  have habs : abs (adjListTable s) = ⟨true, nodeIndices s, alERefs s⟩ := rfl
  rw [habs]
  refine ⟨rfl, by rw [ab.n]; exact nodeIndices_eq s h, alERefs_ids_nodup s h, fun e => ?_⟩
  show e ∈ alERefs s ↔ _
  unfold alERefs
  rw [edgeReferences_eq s h]
  constructor
  · intro he
    obtain ⟨r, hr, rfl⟩ := List.mem_map.1 he
    obtain ⟨_, row, h1, h2⟩ := (mem_plainRefs_iff 0 s.suc r).1 hr
    rw [Nat.sub_zero] at h1
    have ha : r.1 < g.n := by rw [ab.n]; exact (List.getElem?_eq_some_iff.1 h1).1
    rw [ab.rows r.1 ha] at h1
    cases h1
    unfold AdjProofs.rowOf at h2
    rw [List.getElem?_map] at h2
    cases hm : (g.outOf r.1)[r.2.1]? with
    | none => rw [hm] at h2; cases h2
    | some m =>
      rw [hm] at h2
      simp only [Option.map_some, Option.some.injEq, Prod.mk.injEq] at h2
      have hmem : m ∈ g.outOf r.1 := List.mem_of_getElem? hm
      have hmem' := List.mem_filter.1 hmem
      have hsrc : m.src = r.1 := by simpa using hmem'.2
      have hid : m.id = (r.1, r.2.1) := by
        have := congrArg (fun l => l[r.2.1]?) (ab.ids r.1)
        simp only [List.getElem?_map, hm, Option.map_some] at this
        have hlt : r.2.1 < (g.outOf r.1).length := (List.getElem?_eq_some_iff.1 hm).1
        rw [List.getElem?_range hlt] at this
        simpa using this
      refine ⟨m, hmem'.1, ?_⟩
      obtain ⟨f, j, t, w⟩ := r
      simp only at h2 hsrc hid
      simp only [erefOfMEdge, eref, eidCode, hid, hsrc, h2.1, h2.2]
  · rintro ⟨m, hm, rfl⟩
    have hsrc := ab.src m hm
    have hout : m ∈ g.outOf m.src := List.mem_filter.2 ⟨hm, by simp⟩
    obtain ⟨k, hk⟩ := List.mem_iff_getElem?.1 hout
    have hid : m.id = (m.src, k) := by
      have := congrArg (fun l => l[k]?) (ab.ids m.src)
      simp only [List.getElem?_map, hk, Option.map_some] at this
      have hlt : k < (g.outOf m.src).length := (List.getElem?_eq_some_iff.1 hk).1
      rw [List.getElem?_range hlt] at this
      simpa using this
    refine List.mem_map.2 ⟨(m.src, k, m.tgt, m.w), ?_, ?_⟩
    · rw [mem_plainRefs_iff]
      refine ⟨Nat.zero_le _, AdjProofs.rowOf g m.src, ?_, ?_⟩
      · rw [Nat.sub_zero]; exact ab.rows m.src hsrc
      · unfold AdjProofs.rowOf
        rw [List.getElem?_map, hk]; rfl
    · simp only [erefOfMEdge, eref, eidCode, hid]

end list

end PetgraphModel.Visit
