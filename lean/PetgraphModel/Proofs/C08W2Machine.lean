import PetgraphModel.Proofs.Traversal
/-
C08 (wave 2): a reference machine for the event stream of `depth_first_search`.

`step` validates one event against a small abstract state (the stack of open calls with the
neighbours each still has to examine, the discovered / finished sets, the clock and a `Mode` that
records what the visitor's last control value obliges the traversal to do next).  `replay` folds it
over an event history (newest first, as `VS.evs` is kept).  `dfsSearch_rep` shows that every run of
the model `dfsSearch` produces a history the machine accepts, ending in a state that matches the
returned `Res`.  All the clause theorems `C08_dfsv_*` are read off this single simulation result.
-/
namespace PetgraphModel.TravProofs
open PetgraphModel PetgraphModel.Trav

/-! ### clean unfolding equations for the mirror model -/

/-- the `Finish` part of `dfs_visitor` -/
def finishStep (script : List Ctl) (u : Nat) (s : VS) : VS × Res :=
  match ctlAt script s.evs.length with
  | .brk => ({ disc := s.disc, fin := u :: s.fin, time := s.time + 1, evs := .finish u s.time :: s.evs }, .brk)
  | .prune => ({ disc := s.disc, fin := u :: s.fin, time := s.time + 1, evs := .finish u s.time :: s.evs }, .panicPruneFinish)
  | .cont => ({ disc := s.disc, fin := u :: s.fin, time := s.time + 1, evs := .finish u s.time :: s.evs }, .cont)

/-- continue with `k` when the first part returned `Continue`, else propagate -/
def thenRes (p : VS × Res) (k : VS → VS × Res) : VS × Res :=
  match p.2 with
  | .cont => k p.1
  | r => (p.1, r)

theorem dfsVisitor_zero (v : View) (script : List Ctl) (u : Nat) (s : VS) :
    dfsVisitor v script 0 u s = (s, .fuel) := by rw [dfsVisitor]

theorem dfsVisitor_succ_old (v : View) (script : List Ctl) (f u : Nat) (s : VS) (h : u ∈ s.disc) :
    dfsVisitor v script (f + 1) u s = (s, .cont) := by
  rw [dfsVisitor]; simp [h]

theorem dfsVisitor_succ_new (v : View) (script : List Ctl) (f u : Nat) (s : VS) (h : u ∉ s.disc) :
    dfsVisitor v script (f + 1) u s =
      match ctlAt script s.evs.length with
      | .brk => ({ disc := u :: s.disc, fin := s.fin, time := s.time + 1, evs := .discover u s.time :: s.evs }, .brk)
      | .prune => finishStep script u
          { disc := u :: s.disc, fin := s.fin, time := s.time + 1, evs := .discover u s.time :: s.evs }
      | .cont => thenRes (neighLoop v script f u (v.succ u)
          { disc := u :: s.disc, fin := s.fin, time := s.time + 1, evs := .discover u s.time :: s.evs })
          (finishStep script u) := by
  rw [dfsVisitor]
  simp only [h, List.contains_eq_mem, decide_false, Bool.false_eq_true, ↓reduceIte, emit]
  cases hc : ctlAt script s.evs.length with
  | brk => rfl
  | prune =>
    simp only [finishStep, ↓reduceIte]
    split <;> simp_all
  | cont =>
    simp only [thenRes, finishStep, reduceCtorEq, ↓reduceIte]
    generalize neighLoop v script f u (v.succ u) _ = p
    obtain ⟨s2, r2⟩ := p
    cases r2 <;> simp only
    split <;> simp_all

theorem neighLoop_zero (v : View) (script : List Ctl) (u : Nat) (ws : List Nat) (s : VS) :
    neighLoop v script 0 u ws s = (s, .fuel) := by rw [neighLoop]

theorem neighLoop_nil (v : View) (script : List Ctl) (f u : Nat) (s : VS) :
    neighLoop v script (f + 1) u [] s = (s, .cont) := by
  rw [neighLoop]; exact fun h => Nat.succ_ne_zero _ h

theorem neighLoop_cons_new (v : View) (script : List Ctl) (f u w : Nat) (ws : List Nat) (s : VS)
    (h : w ∉ s.disc) :
    neighLoop v script (f + 1) u (w :: ws) s =
      match ctlAt script s.evs.length with
      | .brk => ({ s with evs := .tree u w :: s.evs }, .brk)
      | .prune => neighLoop v script f u ws { s with evs := .tree u w :: s.evs }
      | .cont => thenRes (dfsVisitor v script f w { s with evs := .tree u w :: s.evs })
          (neighLoop v script f u ws) := by
  rw [neighLoop]
  simp only [h, List.contains_eq_mem, decide_false, Bool.not_false, ↓reduceIte, emit]
  cases hc : ctlAt script s.evs.length with
  | brk => rfl
  | prune => rfl
  | cont =>
    simp only [thenRes]
    generalize dfsVisitor v script f w _ = p
    obtain ⟨s2, r2⟩ := p
    cases r2 <;> rfl

theorem neighLoop_cons_old (v : View) (script : List Ctl) (f u w : Nat) (ws : List Nat) (s : VS)
    (h : w ∈ s.disc) :
    neighLoop v script (f + 1) u (w :: ws) s =
      match ctlAt script s.evs.length with
      | .brk => ({ s with evs := (if w ∉ s.fin then Ev.back u w else Ev.cross u w) :: s.evs }, .brk)
      | _ => neighLoop v script f u ws
          { s with evs := (if w ∉ s.fin then Ev.back u w else Ev.cross u w) :: s.evs } := by
  rw [neighLoop]
  simp only [h, List.contains_eq_mem, decide_true, Bool.not_true, Bool.false_eq_true, ↓reduceIte, emit]
  have : (if (!decide (w ∈ s.fin)) = true then Ev.back u w else Ev.cross u w) =
      (if w ∉ s.fin then Ev.back u w else Ev.cross u w) := by
    by_cases hf : w ∈ s.fin <;> simp [hf]
  rw [this]
  cases hc : ctlAt script s.evs.length <;> rfl


/-! ### the reference machine -/

/-- what the last control value obliges the traversal to do next -/
inductive Mode where
  | run                      -- free: examine the next neighbour of the top call / finish it / next root
  | expectDisc (w : Nat)     -- a `TreeEdge(_, w)` answered `Continue`: `Discover(w)` must follow
  | expectFin                -- a `Discover` answered `Prune`: its `Finish` must follow
  | dead                     -- `Break`: nothing may follow
  | panic                    -- `Prune` on `Finish`: the documented panic, nothing may follow
  deriving DecidableEq, Repr, Inhabited

structure MS where
  /-- open calls (top at the head), each with the neighbours it still has to examine -/
  stack : List (Nat × List Nat)
  disc : List Nat
  fin : List Nat
  time : Nat
  mode : Mode
  deriving Repr, Inhabited

def MS.init : MS := ⟨[], [], [], 0, .run⟩

def afterDiscover : Ctl → Mode
  | .cont => .run | .prune => .expectFin | .brk => .dead
def afterFinish : Ctl → Mode
  | .cont => .run | .prune => .panic | .brk => .dead
def afterTree (w : Nat) : Ctl → Mode
  | .cont => .expectDisc w | .prune => .run | .brk => .dead
def afterEdge : Ctl → Mode
  | .brk => .dead | _ => .run

/-- one event `e`, answered by the visitor with `c`, from machine state `m` -/
def step (v : View) (starts : List Nat) (c : Ctl) (m : MS) : Ev → Option MS
  | .discover n t =>
    if t = m.time ∧ n ∉ m.disc ∧
        (m.mode = .expectDisc n ∨ (m.mode = .run ∧ m.stack = [] ∧ n ∈ starts)) then
      some { stack := (n, v.succ n) :: m.stack, disc := n :: m.disc, fin := m.fin,
             time := m.time + 1, mode := afterDiscover c }
    else none
  | .finish n t =>
    match m.stack with
    | (u, ws) :: rest =>
      if t = m.time ∧ n = u ∧ ((m.mode = .run ∧ ws = []) ∨ m.mode = .expectFin) then
        some { stack := rest, disc := m.disc, fin := n :: m.fin, time := m.time + 1,
               mode := afterFinish c }
      else none
    | [] => none
  | .tree a w =>
    match m.stack with
    | (u, x :: ws) :: rest =>
      if a = u ∧ w = x ∧ m.mode = .run ∧ w ∉ m.disc then
        some { m with stack := (u, ws) :: rest, mode := afterTree w c }
      else none
    | _ => none
  | .back a w =>
    match m.stack with
    | (u, x :: ws) :: rest =>
      if a = u ∧ w = x ∧ m.mode = .run ∧ w ∈ m.disc ∧ w ∉ m.fin then
        some { m with stack := (u, ws) :: rest, mode := afterEdge c }
      else none
    | _ => none
  | .cross a w =>
    match m.stack with
    | (u, x :: ws) :: rest =>
      if a = u ∧ w = x ∧ m.mode = .run ∧ w ∈ m.disc ∧ w ∈ m.fin then
        some { m with stack := (u, ws) :: rest, mode := afterEdge c }
      else none
    | _ => none

/-- replay a history (newest event first); the `k`-th event (0-based) is answered `ctlAt script k` -/
def replay (v : View) (starts : List Nat) (script : List Ctl) : List Ev → Option MS
  | [] => some MS.init
  | e :: l => (replay v starts script l).bind fun m => step v starts (ctlAt script l.length) m e

/-- the history of `s` is accepted and leads to the machine state with `s`'s sets and clock -/
def Rep (v : View) (starts : List Nat) (script : List Ctl) (s : VS) (stk : List (Nat × List Nat))
    (md : Mode) : Prop :=
  replay v starts script s.evs = some ⟨stk, s.disc, s.fin, s.time, md⟩

/-- what a returned `(state, result)` guarantees, `stk` being the stack to be restored on `Continue` -/
def Post (v : View) (starts : List Nat) (script : List Ctl) (p : VS × Res)
    (stk : List (Nat × List Nat)) : Prop :=
  match p.2 with
  | .cont => Rep v starts script p.1 stk .run
  | .brk => ∃ stk', Rep v starts script p.1 stk' .dead
  | .panicPruneFinish => ∃ stk', Rep v starts script p.1 stk' .panic
  | .fuel => ∃ stk' md, Rep v starts script p.1 stk' md ∧ (md = .run ∨ ∃ w, md = .expectDisc w)

theorem Post.thenRes {v : View} {starts : List Nat} {script : List Ctl} {p : VS × Res}
    {k : VS → VS × Res} {stk stk' : List (Nat × List Nat)}
    (hp : Post v starts script p stk)
    (hk : Rep v starts script p.1 stk .run → Post v starts script (k p.1) stk') :
    Post v starts script (thenRes p k) stk' := by
  obtain ⟨s, r⟩ := p
  cases r with
  | cont => exact hk hp
  | brk => exact hp
  | panicPruneFinish => exact hp
  | fuel => exact hp

theorem finishStep_post (v : View) (starts : List Nat) (script : List Ctl) (u : Nat) (s : VS)
    (ws : List Nat) (stk : List (Nat × List Nat)) (md : Mode)
    (h : Rep v starts script s ((u, ws) :: stk) md) (hmd : (md = .run ∧ ws = []) ∨ md = .expectFin) :
    Post v starts script (finishStep script u s) stk := by
  unfold Rep at h
  unfold finishStep
  cases hc : ctlAt script s.evs.length <;>
    simp [Post, Rep, replay, h, step, hmd, hc, afterFinish]

theorem dfsv_rep (v : View) (starts : List Nat) (script : List Ctl) :
    ∀ f : Nat,
      (∀ u s stk md, Rep v starts script s stk md → u ∉ s.disc →
        (md = .expectDisc u ∨ (md = .run ∧ stk = [] ∧ u ∈ starts)) →
        Post v starts script (dfsVisitor v script f u s) stk) ∧
      (∀ u ws s rest, Rep v starts script s ((u, ws) :: rest) .run →
        Post v starts script (neighLoop v script f u ws s) ((u, []) :: rest)) := by
  intro f
  induction f with
  | zero =>
    constructor
    · intro u s stk md h _ hmd
      rw [dfsVisitor_zero]
      refine ⟨stk, md, h, ?_⟩
      rcases hmd with h1 | h1
      · exact Or.inr ⟨u, h1⟩
      · exact Or.inl h1.1
    · intro u ws s rest h
      rw [neighLoop_zero]
      exact ⟨_, _, h, Or.inl rfl⟩
  | succ f ih =>
    obtain ⟨ihV, ihN⟩ := ih
    constructor
    · intro u s stk md h hu hmd
      rw [dfsVisitor_succ_new v script f u s hu]
      have h1 : Rep v starts script
          { disc := u :: s.disc, fin := s.fin, time := s.time + 1, evs := .discover u s.time :: s.evs }
          ((u, v.succ u) :: stk) (afterDiscover (ctlAt script s.evs.length)) := by
        unfold Rep at h ⊢
        simp [replay, h, step, hu, hmd]
      cases hc : ctlAt script s.evs.length with
      | brk =>
        rw [hc] at h1
        exact ⟨_, h1⟩
      | prune =>
        rw [hc] at h1
        exact finishStep_post v starts script u _ _ stk _ h1 (Or.inr rfl)
      | cont =>
        rw [hc] at h1
        refine Post.thenRes (ihN u (v.succ u) _ stk h1) ?_
        intro h2
        exact finishStep_post v starts script u _ _ stk _ h2 (Or.inl ⟨rfl, rfl⟩)
    · intro u ws s rest h
      cases ws with
      | nil => rw [neighLoop_nil]; exact h
      | cons w ws =>
        by_cases hw : w ∈ s.disc
        · rw [neighLoop_cons_old v script f u w ws s hw]
          have h1 : Rep v starts script
              { s with evs := (if w ∉ s.fin then Ev.back u w else Ev.cross u w) :: s.evs }
              ((u, ws) :: rest) (afterEdge (ctlAt script s.evs.length)) := by
            unfold Rep at h ⊢
            by_cases hf : w ∈ s.fin <;> simp [replay, h, step, hw, hf]
          cases hc : ctlAt script s.evs.length with
          | brk => rw [hc] at h1; exact ⟨_, h1⟩
          | prune => rw [hc] at h1; exact ihN u ws _ rest h1
          | cont => rw [hc] at h1; exact ihN u ws _ rest h1
        · rw [neighLoop_cons_new v script f u w ws s hw]
          have h1 : Rep v starts script { s with evs := .tree u w :: s.evs }
              ((u, ws) :: rest) (afterTree w (ctlAt script s.evs.length)) := by
            unfold Rep at h ⊢
            simp [replay, h, step, hw]
          cases hc : ctlAt script s.evs.length with
          | brk => rw [hc] at h1; exact ⟨_, h1⟩
          | prune => rw [hc] at h1; exact ihN u ws _ rest h1
          | cont =>
            rw [hc] at h1
            refine Post.thenRes (ihV w _ ((u, ws) :: rest) _ h1 hw (Or.inl rfl)) ?_
            intro h2
            exact ihN u ws _ rest h2

theorem dfsSearch_cons (v : View) (script : List Ctl) (fuel st : Nat) (rest : List Nat) (s : VS) :
    dfsSearch v script fuel (st :: rest) s =
      thenRes (dfsVisitor v script fuel st s) (dfsSearch v script fuel rest) := by
  rw [dfsSearch]
  generalize dfsVisitor v script fuel st s = p
  obtain ⟨s2, r2⟩ := p
  cases r2 <;> rfl

theorem dfsSearch_rep (v : View) (starts : List Nat) (script : List Ctl) (fuel : Nat) :
    ∀ (l : List Nat) (s : VS), (∀ x, x ∈ l → x ∈ starts) → Rep v starts script s [] .run →
      Post v starts script (dfsSearch v script fuel l s) [] := by
  intro l
  induction l with
  | nil => intro s _ h; exact h
  | cons st rest ih =>
    intro s hl h
    have hv : Post v starts script (dfsVisitor v script fuel st s) [] := by
      by_cases hst : st ∈ s.disc
      · cases fuel with
        | zero => rw [dfsVisitor_zero]; exact ⟨_, _, h, Or.inl rfl⟩
        | succ f => rw [dfsVisitor_succ_old v script f st s hst]; exact h
      · exact (dfsv_rep v starts script fuel).1 st s [] .run h hst
          (Or.inr ⟨rfl, rfl, hl st (List.mem_cons_self ..)⟩)
    rw [dfsSearch_cons]
    exact Post.thenRes hv (fun h2 => ih _ (fun x hx => hl x (List.mem_cons_of_mem _ hx)) h2)

/-- **Simulation.**  The event history of any run of `depth_first_search` is accepted by the
reference machine, and the final machine state matches the result. -/
theorem dfsSearch_post (v : View) (script : List Ctl) (fuel : Nat) (starts : List Nat) :
    Post v starts script (dfsSearch v script fuel starts {}) [] :=
  dfsSearch_rep v starts script fuel starts {} (fun _ h => h) rfl

end PetgraphModel.TravProofs
