import PetgraphModel.Proofs.C13W3Relabel
/-
C13, wave 4 — the fuel-REPORTING wrappers (`Model/C13Vf2Side.lean`: `tryMatchR`, `isoModelR`, `subModelR`,
`iterLoopR`, `iterModelR`) the driver runs.

* a reported answer (`some _`) is the answer of the fuel-generic wrapper for EVERY larger fuel (fuel
  monotonicity), in particular for a fuel `≥ explicitBound I` — so the exactness theorems apply to every answer
  the driver compares, whatever the size of the graphs;
* `none` is returned exactly when a `next()` call really ran out of fuel (`fuelOk` / `isSome`), and never when
  `explicitBound I ≤ fuel`;
* a reported answer is the answer of the model's own (non-reporting) wrappers.
-/
namespace PetgraphModel.C13.Vf2
open PetgraphModel PetgraphModel.C13

/-! ### `try_match` -/

theorem tryMatchR_eq_none {I : Inst} {sub : Bool} {fuel : Nat} :
    tryMatchR I sub fuel = none ↔ isomorphisms I sub fuel (M.init I) = none := by
  unfold tryMatchR
  cases isomorphisms I sub fuel (M.init I) with
  | none => simp
  | some pr =>
    obtain ⟨m', r⟩ := pr
    cases r <;> simp

theorem tryMatchR_some {I : Inst} {sub : Bool} {fuel : Nat} {b : Bool} (h : tryMatchR I sub fuel = some b) :
    (isomorphisms I sub fuel (M.init I)).isSome = true ∧ ∀ F, fuel ≤ F → tryMatchF I sub F = b := by
  unfold tryMatchR at h
  cases hiso : isomorphisms I sub fuel (M.init I) with
  | none => rw [hiso] at h; cases h
  | some pr =>
    obtain ⟨m', r⟩ := pr
    refine ⟨rfl, fun F hF => ?_⟩
    have hF' := isomorphisms_mono hiso hF
    rw [hiso] at h
    unfold tryMatchF
    rw [hF']
    cases r with
    | none => simpa using h
    | some mp => simpa using h

theorem isoModelR_some {I : Inst} {fuel : Nat} {b : Bool} (h : isoModelR I fuel = some b) :
    ∀ F, fuel ≤ F → isoModelF I F = b := by
  intro F hF
  unfold isoModelR at h
  unfold isoModelF
  by_cases hc : (I.g0.n != I.g1.n || I.g0.ecount != I.g1.ecount) = true
  · rw [if_pos hc] at h ⊢
    exact Option.some.inj h
  · rw [if_neg hc] at h ⊢
    exact (tryMatchR_some h).2 F hF

theorem subModelR_some {I : Inst} {fuel : Nat} {b : Bool} (h : subModelR I fuel = some b) :
    ∀ F, fuel ≤ F → subModelF I F = b := by
  intro F hF
  unfold subModelR at h
  unfold subModelF
  by_cases hc : (decide (I.g0.n > I.g1.n) || decide (I.g0.ecount > I.g1.ecount)) = true
  · rw [if_pos hc] at h ⊢
    exact Option.some.inj h
  · rw [if_neg hc] at h ⊢
    exact (tryMatchR_some h).2 F hF

/-! ### the drained iterator -/

theorem iterLoopR_some {I : Inst} {fuel : Nat} : ∀ (k : Nat) (m : M) (acc : List (List Nat))
    (r : List (List Nat) × Bool), iterLoopR I fuel k m acc = some r →
    ∀ F, fuel ≤ F → iterLoopF I F k m acc = r := by
  intro k
  induction k with
  | zero =>
    intro m acc r h F hF
    unfold iterLoopR at h
    unfold iterLoopF
    cases hiso : isomorphisms I true fuel m with
    | none => rw [hiso] at h; cases h
    | some pr =>
      obtain ⟨m', r'⟩ := pr
      rw [isomorphisms_mono hiso hF]
      rw [hiso] at h
      cases r' with
      | none => simpa using h
      | some mp => simpa using h
  | succ k ih =>
    intro m acc r h F hF
    unfold iterLoopR at h
    unfold iterLoopF
    cases hiso : isomorphisms I true fuel m with
    | none => rw [hiso] at h; cases h
    | some pr =>
      obtain ⟨m', r'⟩ := pr
      rw [isomorphisms_mono hiso hF]
      rw [hiso] at h
      cases r' with
      | none => simpa using h
      | some mp => exact ih m' _ r h F hF

theorem iterModelR_some {I : Inst} {fuel : Nat} {r : Option (List (List Nat) × Bool)}
    (h : iterModelR I fuel = some r) : ∀ F, fuel ≤ F → iterModelF I F = r := by
  intro F hF
  unfold iterModelR at h
  unfold iterModelF
  by_cases hc : (decide (I.g0.n > I.g1.n) || decide (I.g0.ecount > I.g1.ecount)) = true
  · rw [if_pos hc] at h ⊢
    exact Option.some.inj h
  · rw [if_neg hc] at h ⊢
    cases hl : iterLoopR I fuel (fallingFact I.g1.n I.g0.n + 2) (M.init I) [] with
    | none => rw [hl] at h; cases h
    | some x =>
      rw [hl] at h
      rw [iterLoopR_some _ _ _ _ hl F hF]
      exact Option.some.inj h

/-! ### a reported answer stays the same with more fuel -/

theorem tryMatchR_mono {I : Inst} {sub : Bool} {fuel F : Nat} {b : Bool} (h : tryMatchR I sub fuel = some b)
    (hF : fuel ≤ F) : tryMatchR I sub F = some b := by
  unfold tryMatchR at h ⊢
  cases hiso : isomorphisms I sub fuel (M.init I) with
  | none => rw [hiso] at h; cases h
  | some pr =>
    rw [isomorphisms_mono hiso hF]
    rw [hiso] at h
    exact h

theorem isoModelR_mono {I : Inst} {fuel F : Nat} {b : Bool} (h : isoModelR I fuel = some b) (hF : fuel ≤ F) :
    isoModelR I F = some b := by
  unfold isoModelR at h ⊢
  by_cases hc : (I.g0.n != I.g1.n || I.g0.ecount != I.g1.ecount) = true
  · rw [if_pos hc] at h ⊢; exact h
  · rw [if_neg hc] at h ⊢; exact tryMatchR_mono h hF

theorem subModelR_mono {I : Inst} {fuel F : Nat} {b : Bool} (h : subModelR I fuel = some b) (hF : fuel ≤ F) :
    subModelR I F = some b := by
  unfold subModelR at h ⊢
  by_cases hc : (decide (I.g0.n > I.g1.n) || decide (I.g0.ecount > I.g1.ecount)) = true
  · rw [if_pos hc] at h ⊢; exact h
  · rw [if_neg hc] at h ⊢; exact tryMatchR_mono h hF

theorem iterLoopR_mono {I : Inst} {fuel F : Nat} (hF : fuel ≤ F) : ∀ (k : Nat) (m : M) (acc : List (List Nat))
    (r : List (List Nat) × Bool), iterLoopR I fuel k m acc = some r → iterLoopR I F k m acc = some r := by
  intro k
  induction k with
  | zero =>
    intro m acc r h
    unfold iterLoopR at h ⊢
    cases hiso : isomorphisms I true fuel m with
    | none => rw [hiso] at h; cases h
    | some pr =>
      rw [isomorphisms_mono hiso hF]
      rw [hiso] at h
      exact h
  | succ k ih =>
    intro m acc r h
    unfold iterLoopR at h ⊢
    cases hiso : isomorphisms I true fuel m with
    | none => rw [hiso] at h; cases h
    | some pr =>
      obtain ⟨m', r'⟩ := pr
      rw [isomorphisms_mono hiso hF]
      rw [hiso] at h
      cases r' with
      | none => exact h
      | some mp => exact ih m' _ r h

theorem iterModelR_mono {I : Inst} {fuel F : Nat} {r : Option (List (List Nat) × Bool)}
    (h : iterModelR I fuel = some r) (hF : fuel ≤ F) : iterModelR I F = some r := by
  unfold iterModelR at h ⊢
  by_cases hc : (decide (I.g0.n > I.g1.n) || decide (I.g0.ecount > I.g1.ecount)) = true
  · rw [if_pos hc] at h ⊢; exact h
  · rw [if_neg hc] at h ⊢
    cases hl : iterLoopR I fuel (fallingFact I.g1.n I.g0.n + 2) (M.init I) [] with
    | none => rw [hl] at h; cases h
    | some x =>
      rw [hl] at h
      rw [iterLoopR_mono hF _ _ _ _ hl]
      exact h

/-- the reporting drain loop returns `none` exactly when `fuelOk` fails, i.e. when one of its `next()` calls runs
out of `bigFuel`; otherwise it returns what the model's `iterLoop` returns -/
theorem iterLoopR_fuelOk {I : Inst} : ∀ (k : Nat) (m : M) (acc : List (List Nat)),
    (fuelOk I k m = true → iterLoopR I bigFuel k m acc = some (iterLoop I k m acc)) ∧
    (fuelOk I k m = false → iterLoopR I bigFuel k m acc = none) := by
  intro k
  induction k with
  | zero =>
    intro m acc
    unfold fuelOk iterLoopR iterLoop
    cases isomorphisms I true bigFuel m with
    | none => simp
    | some pr =>
      obtain ⟨m', r'⟩ := pr
      cases r' <;> simp
  | succ k ih =>
    intro m acc
    unfold fuelOk iterLoopR iterLoop
    cases isomorphisms I true bigFuel m with
    | none => simp
    | some pr =>
      obtain ⟨m', r'⟩ := pr
      cases r' with
      | none => simp
      | some mp => exact ih m' _

/-- `iterModelR` at the model's fuel: `none` exactly when the early size tests pass and `iterFuelOk` fails -/
theorem iterModelR_bigFuel (I : Inst) :
    (iterModel I = none → iterModelR I bigFuel = some none) ∧
    (iterModel I ≠ none → iterFuelOk I = true → iterModelR I bigFuel = some (iterModel I)) ∧
    (iterModel I ≠ none → iterFuelOk I = false → iterModelR I bigFuel = none) := by
  unfold iterModel iterModelR iterFuelOk
  by_cases hc : (decide (I.g0.n > I.g1.n) || decide (I.g0.ecount > I.g1.ecount)) = true
  · rw [if_pos hc, if_pos hc]
    exact ⟨fun _ => rfl, fun h => absurd rfl h, fun h => absurd rfl h⟩
  · rw [if_neg hc, if_neg hc]
    have := iterLoopR_fuelOk (I := I) (fallingFact I.g1.n I.g0.n + 2) (M.init I) []
    refine ⟨fun h => (by cases h), fun _ h => ?_, fun _ h => ?_⟩
    · rw [this.1 h]; rfl
    · rw [this.2 h]; rfl

/-- a reported answer is the answer of the model's own wrapper -/
theorem reported_eq_model (I : Inst) :
    (∀ b, isoModelR I bigFuel = some b → isoModel I = b) ∧
    (∀ b, subModelR I bigFuel = some b → subModel I = b) ∧
    (∀ r, iterModelR I bigFuel = some r → iterModel I = r) := by
  refine ⟨fun b h => ?_, fun b h => ?_, fun r h => ?_⟩
  · rw [isoModel_eq_F]; exact isoModelR_some h _ (Nat.le_refl _)
  · rw [subModel_eq_F]; exact subModelR_some h _ (Nat.le_refl _)
  · rw [iterModel_eq_F]; exact iterModelR_some h _ (Nat.le_refl _)

/-! ### no `FUEL` report below the explicit bound -/

theorem iterLoopR_of_bound {I : Inst} (ok0 : CGOk I.g0) (ok1 : CGOk I.g1) (hd : I.g0.directed = I.g1.directed)
    {fuel : Nat} : ∀ (k : Nat) (m : M) (acc : List (List Nat)), Inv I m → Phi I m.stack < fuel →
      (iterLoopR I fuel k m acc).isSome = true := by
  intro k
  induction k with
  | zero =>
    intro m acc hinv hlt
    obtain ⟨m', r, hiso, _⟩ := isomorphisms_terminates ok0 ok1 hd true hinv hlt
    unfold iterLoopR
    rw [hiso]
    cases r <;> rfl
  | succ k ih =>
    intro m acc hinv hlt
    obtain ⟨m', r, hiso, hle⟩ := isomorphisms_terminates ok0 ok1 hd true hinv hlt
    unfold iterLoopR
    rw [hiso]
    cases r with
    | none => rfl
    | some mp =>
      exact ih m' _ (isomorphisms_sound ok0 ok1 hd true fuel m m' (some mp) hinv hiso).1 (by omega)

/-- with `explicitBound I ≤ fuel` no wrapper reports `FUEL` -/
theorem never_reported {I : Inst} (ok0 : CGOk I.g0) (ok1 : CGOk I.g1) (hd : I.g0.directed = I.g1.directed)
    {fuel : Nat} (hb : explicitBound I ≤ fuel) :
    (isoModelR I fuel).isSome = true ∧ (subModelR I fuel).isSome = true ∧ (iterModelR I fuel).isSome = true := by
  have tm : ∀ sub, (tryMatchR I sub fuel).isSome = true := by
    intro sub
    have := isomorphisms_init_terminates ok0 ok1 hd sub hb
    cases h : tryMatchR I sub fuel with
    | some b => rfl
    | none => rw [tryMatchR_eq_none.mp h] at this; cases this
  refine ⟨?_, ?_, ?_⟩
  · unfold isoModelR; split
    · rfl
    · exact tm false
  · unfold subModelR; split
    · rfl
    · exact tm true
  · unfold iterModelR; split
    · rfl
    · have hphi := Phi_init I
      have := iterLoopR_of_bound ok0 ok1 hd (fuel := fuel) (fallingFact I.g1.n I.g0.n + 2) (M.init I) []
        (init_inv I) (by omega)
      cases h : iterLoopR I fuel (fallingFact I.g1.n I.g0.n + 2) (M.init I) [] with
      | none => rw [h] at this; cases this
      | some x => rfl

/-! ### the bundled side conditions -/

theorem eCountOkB_iff (g : CG) : eCountOkB g = true ↔ ECountOk g := by
  simp [eCountOkB]

theorem absPermB_iff (g : CG) : absPermB g = true ↔ g.abs.Perm (List.range g.n) := by
  simp [absPermB]

/-- what a passed `sideFail` gives: `InstOk` and both reporting vectors are permutations -/
theorem sideFail_none {I : Inst} (h : sideFail I = none) :
    InstOk I ∧ I.g0.abs.Perm (List.range I.g0.n) ∧ I.g1.abs.Perm (List.range I.g1.n) := by
  unfold sideFail at h
  by_cases c0 : cgOkB I.g0 = true
  · by_cases c1 : cgOkB I.g1 = true
    · by_cases cd : I.g0.directed = I.g1.directed
      · by_cases ce0 : eCountOkB I.g0 = true
        · by_cases ce1 : eCountOkB I.g1 = true
          · by_cases ci : inNodupB I.g0 = true
            · by_cases cp0 : absPermB I.g0 = true
              · by_cases cp1 : absPermB I.g1 = true
                · exact ⟨⟨c0, c1, cd, (eCountOkB_iff _).mp ce0, (eCountOkB_iff _).mp ce1, ci⟩,
                    (absPermB_iff _).mp cp0, (absPermB_iff _).mp cp1⟩
                · simp [c0, c1, cd, ce0, ce1, ci, cp0, cp1] at h
              · simp [c0, c1, cd, ce0, ce1, ci, cp0] at h
            · simp [c0, c1, cd, ce0, ce1, ci] at h
          · simp [c0, c1, cd, ce0, ce1] at h
        · simp [c0, c1, cd, ce0] at h
      · simp [c0, c1, cd] at h
    · simp [c0, c1] at h
  · simp [c0] at h

/-- conversely every failure names a side condition that really fails -/
theorem sideFail_some {I : Inst} {w : String} (h : sideFail I = some w) :
    ¬ (InstOk I ∧ I.g0.abs.Perm (List.range I.g0.n) ∧ I.g1.abs.Perm (List.range I.g1.n)) := by
  rintro ⟨ok, p0, p1⟩
  have e0 := (eCountOkB_iff _).mpr ok.e0
  have e1 := (eCountOkB_iff _).mpr ok.e1
  have q0 := (absPermB_iff _).mpr p0
  have q1 := (absPermB_iff _).mpr p1
  have hd : (I.g0.directed != I.g1.directed) = false := by simp [ok.hd]
  unfold sideFail at h
  simp [ok.h0, ok.h1, hd, e0, e1, ok.hin, q0, q1] at h

end PetgraphModel.C13.Vf2
