import PetgraphModel.Proofs.C15W2BlossomPath
/-
C15 wave 2 — blossom step, part 5: the search invariant holds in the new state.
-/
namespace PetgraphModel.C15W2
open PetgraphModel PetgraphModel.C15 PetgraphModel.C15M PetgraphModel.C15P

theorem innerNodes_sublist (A : AS) : ∀ (l : PL), (innerNodes A l).Sublist (verts l)
  | [] => List.Sublist.slnil
  | (p, u) :: r => by
    unfold innerNodes
    split
    · exact ((innerNodes_sublist A r).cons _).cons _
    · exact ((innerNodes_sublist A r).cons_cons _).cons _

theorem idxOf_lt_of_split {l l1 l2 : List Nat} {w x : Nat} (h : l = l1 ++ x :: l2) (hw : w ∈ l1)
    (hx : x ∉ l1) : l.idxOf w < l.idxOf x := by
  rw [h, List.idxOf_append, List.idxOf_append]
  simp only [hw, hx, if_true, if_false, List.idxOf_cons_self]
  have := List.idxOf_lt_length_of_mem hw
  omega

theorem idxOf_prefix {pfx l : List Nat} {w : Nat} (hw : w ∉ pfx) :
    (pfx ++ l).idxOf w = l.idxOf w + pfx.length := by
  rw [List.idxOf_append]; simp [hw]

section
variable {c : Ctx} {A A' : AS} {a b : Nat} {preA sufA preB sufB : PL} {join : Nat} {N : Nat → Prop}

theorem BD.newA_nodup (hA : AInv c A) (D : BD c A a b preA sufA preB sufB join) :
    (innerNodes A preA).Nodup := by
  have := (hA.path a D.ha D.hoa).nodup
  rw [D.hPa, verts_append] at this
  exact ((List.nodup_append.mp (List.nodup_append.mp this).1).1).sublist (innerNodes_sublist A preA)

/-- the order of the new vertices of one side -/
theorem BD.tau_side (hA : AInv c A) (D : BD c A a b preA sufA preB sufB join) (pfx : List Nat)
    (hpfx : ∀ u ∈ innerNodes A preA, u ∉ pfx) (sfx : List Nat)
    (hord : A'.ord = pfx ++ innerNodes A preA ++ sfx)
    {x z0 : Nat} {pre post : PL} (hpre : preA = pre ++ (z0, x) :: post) (hox : A.out x = false) :
    ∀ w ∈ innerNodes A pre, A'.tau w < A'.tau x := by
  intro w hw
  have hsplit : innerNodes A preA = innerNodes A pre ++ x :: innerNodes A post := by
    rw [hpre, innerNodes_append]
    simp [innerNodes, hox]
  have hnd := D.newA_nodup hA
  have hxn : x ∉ innerNodes A pre := by
    intro h
    rw [hsplit] at hnd
    exact (List.nodup_append.mp hnd).2.2 x h x (by simp) rfl
  have hwA : w ∈ innerNodes A preA := by rw [hsplit]; exact List.mem_append_left _ hw
  have hxA : x ∈ innerNodes A preA := by rw [hsplit]; simp
  unfold AS.tau
  rw [hord, List.append_assoc, idxOf_prefix (hpfx w hwA), idxOf_prefix (hpfx x hxA),
    List.idxOf_append, List.idxOf_append]
  simp only [hwA, hxA, if_true]
  have := idxOf_lt_of_split hsplit hw hxn
  omega

theorem AInv.blossomStep (hv : VHyp c.v c.mode) (hA : AInv c A)
    (D : BD c A a b preA sufA preB sufB join) (k : Key) (S : BS c A A' N preA preB join)
    (hLnew : ∀ x, N x → A'.L x = .edge k a b)
    (hPA : ∀ x pre z0 post, preA = pre ++ (z0, x) :: post → A.out x = false →
      A'.P x = (x, z0) :: revswap pre ++ A.P b)
    (hPB : ∀ x pre z0 post, preB = pre ++ (z0, x) :: post → A.out x = false →
      A'.P x = (x, z0) :: revswap pre ++ A.P a)
    (hord : A'.ord = A.ord ++ (innerNodes A preA ++ innerNodes A preB)) : AInv c A' := by
  have hnewA_ord : ∀ u ∈ innerNodes A preA, u ∉ A.ord := by
    intro u hu h
    have := ((hA.ordMem u).mp h).2
    rw [((mem_innerNodes A preA u).mp hu).2] at this; cases this
  have hnewB_ord : ∀ u ∈ innerNodes A preB, u ∉ A.ord := by
    intro u hu h
    have := ((hA.ordMem u).mp h).2
    rw [((mem_innerNodes A preB u).mp hu).2] at this; cases this
  refine ⟨?_, ?_, ?_, ?_⟩
  · rw [hord]
    refine List.nodup_append.mpr ⟨hA.ordNodup, ?_, ?_⟩
    · exact List.nodup_append.mpr ⟨D.newA_nodup hA, D.swap.newA_nodup hA,
        fun u hu w hw e => D.hdisj u hu (e ▸ hw)⟩
    · intro u hu w hw e
      subst e
      cases List.mem_append.mp hw with
      | inl h => exact hnewA_ord u h hu
      | inr h => exact hnewB_ord u h hu
  · intro x
    rw [hord, List.mem_append, List.mem_append, hA.ordMem x]
    constructor
    · rintro (⟨h1, h2⟩ | h)
      · exact ⟨h1, (S.out' x h1).mpr (Or.inl h2)⟩
      · have hN : N x := (S.hN x).mpr h
        have := S.new_node hA D hN
        exact ⟨this.1, (S.out' x this.1).mpr (Or.inr hN)⟩
    · rintro ⟨h1, h2⟩
      rcases (S.out' x h1).mp h2 with h | h
      · exact Or.inl ⟨h1, h⟩
      · exact Or.inr ((S.hN x).mp h)
  · intro h
    exact ⟨(S.out' c.sv h).mpr (Or.inl (hA.svFree h).1), (hA.svFree h).2⟩
  · intro x hx hox'
    rcases (S.out' x hx).mp hox' with hox | hNx
    · exact S.pathOK_old hv hA D x hx hox
    · rcases (S.hN x).mp hNx with hxA | hxB
      · obtain ⟨hox, pre, z0, post, hpre⟩ := D.newA_split hxA
        exact S.pathOK_new hv hA D x z0 pre post hpre hox (hPA x pre z0 post hpre hox) k a b
          (hLnew x hNx) (Or.inl ⟨rfl, rfl⟩)
          (D.tau_side hA A.ord hnewA_ord (innerNodes A preB) (by rw [hord]; simp) hpre hox)
      · obtain ⟨hox, pre, z0, post, hpre⟩ := D.swap.newA_split hxB
        exact S.swap.pathOK_new hv hA D.swap x z0 pre post hpre hox (hPB x pre z0 post hpre hox) k a b
          (hLnew x hNx) (Or.inr ⟨rfl, rfl⟩)
          (D.swap.tau_side hA (A.ord ++ innerNodes A preA)
            (fun u hu h => by
              cases List.mem_append.mp h with
              | inl h' => exact hnewB_ord u hu h'
              | inr h' => exact D.hdisj u h' hu) [] (by rw [hord]; simp) hpre hox)

end

end PetgraphModel.C15W2
