import PetgraphModel.Proofs.C16Accessors
import PetgraphModel.Proofs.C16Judge
/-
C16, second wave — once `dominators(b)` is known to be exactly the path-based dominator set
(`C16_simple_fast`), the other accessors of the `Dominators` value follow: `strict_dominators`,
`immediate_dominator` (= the closest strict dominator, `IsIdom`) and `immediately_dominated_by`.
-/
namespace PetgraphModel.C16P.W2Acc
open PetgraphModel MGraph C16S C16M C16P

theorem chain_mono (d : Doms) : ∀ (F : Nat) (o : Option Nat) (x : Nat), x ∈ d.chain F o → x ∈ d.chain (F + 1) o := by
  intro F
  induction F with
  | zero => intro o x h; simp [Doms.chain] at h
  | succ F ih =>
    intro o x h
    cases o with
    | none => simp [Doms.chain] at h
    | some n =>
      simp only [Doms.chain, List.mem_cons] at h ⊢
      rcases h with h | h
      · exact Or.inl h
      · exact Or.inr (ih _ x h)

/-- `d` reports exactly the path-based dominators -/
structure Exact (g : MGraph) (root : Nat) (d : Doms) : Prop where
  hroot : d.root = root
  hnone : ∀ b, d.dominators b = none ↔ ¬ Reach g root b
  hsome : ∀ b l, d.dominators b = some l → l.Nodup ∧ ∀ a, a ∈ l ↔ Dominates g root a b

variable {g : MGraph} {root : Nat} {d : Doms}

theorem strict_none (h : Exact g root d) (b : Nat) : d.strictDominators b = none ↔ ¬ Reach g root b := by
  rw [strict_none_iff, ← dominators_none_iff]; exact h.hnone b

theorem strict_some (h : Exact g root d) (b : Nat) (l : List Nat) (hl : d.strictDominators b = some l) :
    l.Nodup ∧ ∀ a, a ∈ l ↔ StrictlyDominates g root a b := by
  have hd : d.dominators b = some (b :: l) := by rw [dominators_eq_cons, hl]; rfl
  obtain ⟨hn, hm⟩ := h.hsome b (b :: l) hd
  obtain ⟨hb, hn'⟩ := List.nodup_cons.mp hn
  refine ⟨hn', fun a => ⟨fun ha => ⟨fun e => hb (e ▸ ha), (hm a).mp (List.mem_cons_of_mem _ ha)⟩, fun ha => ?_⟩⟩
  cases List.mem_cons.mp ((hm a).mpr ha.2) with
  | inl e => exact (ha.1 e).elim
  | inr e => exact e

theorem lookup_some_of_reach (h : Exact g root d) (b : Nat) (hr : Reach g root b) :
    (d.map.lookup b).isSome = true := by
  cases hl : d.map.lookup b with
  | some _ => rfl
  | none => exact ((h.hnone b).mp ((dominators_none_iff d b).mpr hl) hr).elim

theorem idom_some_sound (h : Exact g root d) (b a : Nat) (hi : d.immediateDominator b = some a) :
    IsIdom g root a b := by
  have hlk : b ≠ d.root ∧ d.map.lookup b = some a := by
    unfold Doms.immediateDominator at hi
    split at hi
    · cases hi
    · rename_i hne; exact ⟨hne, hi⟩
  have hrb : Reach g root b := by
    apply Classical.byContradiction
    intro hn
    have := (dominators_none_iff d b).mp ((h.hnone b).mpr hn)
    rw [hlk.2] at this; cases this
  have hs : d.strictDominators b = some (d.chain d.chainFuel (some a)) := by
    unfold Doms.strictDominators
    simp [hlk.2, hi]
  obtain ⟨_, hm⟩ := strict_some h b _ hs
  have hab : StrictlyDominates g root a b := (hm a).mp (by simp [Doms.chain, Doms.chainFuel])
  refine ⟨hrb, hab, fun c hc => ?_⟩
  have hc1 := chain_mono d _ _ c ((hm c).mpr hc)
  have hra : Reach g root a := dominates_reach hrb hab.2
  have hda : d.dominators a = some (d.chain (d.chainFuel + 1) (some a)) := by
    unfold Doms.dominators
    rw [if_pos (lookup_some_of_reach h a hra)]
  exact ((h.hsome a _ hda).2 c).mp hc1

theorem idom_iff (h : Exact g root d) (b a : Nat) :
    d.immediateDominator b = some a ↔ IsIdom g root a b := by
  refine ⟨idom_some_sound h b a, fun hi => ?_⟩
  have hne : b ≠ d.root := by
    intro e
    rw [h.hroot] at e
    subst e
    exact root_no_idom hi
  have hl := lookup_some_of_reach h b hi.1
  cases hlk : d.map.lookup b with
  | none => rw [hlk] at hl; cases hl
  | some a' =>
    have hi' : d.immediateDominator b = some a' := by
      unfold Doms.immediateDominator
      rw [if_neg hne, hlk]
    rw [hi', isIdom_unique hi (idom_some_sound h b a' hi')]

theorem idom_none_iff (h : Exact g root d) (b : Nat) :
    d.immediateDominator b = none ↔ b = root ∨ ¬ Reach g root b := by
  unfold Doms.immediateDominator
  rw [h.hroot]
  constructor
  · intro hi
    split at hi
    · rename_i e; exact Or.inl e
    · exact Or.inr ((h.hnone b).mp ((dominators_none_iff d b).mpr hi))
  · rintro (e | hn)
    · rw [if_pos e]
    · split
      · rfl
      · exact (dominators_none_iff d b).mp ((h.hnone b).mpr hn)

theorem idb_iff (h : Exact g root d) (hwf : DomsWF d) (n m : Nat) :
    m ∈ d.immediatelyDominatedBy n ↔ IsIdom g root n m := by
  rw [idb_inverse d hwf n m, idom_iff h]

end PetgraphModel.C16P.W2Acc
