import PetgraphModel.Proofs.C20W3Dsatur
/-
C20 (wave 3) — sanity check of the heap model against the seeded change `C20-dsatur-saturation-lags`
(/verif/seeded): the SAME model with the two lines of the neighbour loop swapped (the neighbour is
queued with the size of its colour set BEFORE the colour is inserted) uses 3 colours on a bipartite
graph, the "double broom" of the seeded change's demo; the model as it mirrors the real code uses 2.
So `dsatur_heap_model` (its saturation clause and `k ≤ 2`) really depends on the order of those lines.
-/
namespace PetgraphModel.C20.DsaturHeap
open PetgraphModel PetgraphModel.MGraph

/-- the seeded change: `queue.push(..adj_color.len()..)` BEFORE `adj_color.insert(color)` -/
def visitNbrLag (g : MGraph) (color : Nat) (st : St) (nbor : Nat) : St :=
  let s0 := adjOf st.adjCol nbor
  { st with queue := st.queue ++ [(s0.length, degOf g nbor, nbor)], adjCol := (nbor, setInsert s0 color) :: st.adjCol }

def bodyLag (g : MGraph) (st : St) (e : Entry) : St :=
  let node := e.2.2
  if st.seen.contains node then st
  else
    let color := Dsatur.leastFree (adjOf st.adjCol node)
    let st := { st with seen := node :: st.seen, colored := (node, color) :: st.colored,
                        maxColor := max st.maxColor color }
    (g.succ node).foldl (visitNbrLag g color) st

def runLag (g : MGraph) (o : Oracle) : Nat → Nat → St → Option St
  | 0, _, _ => none
  | f+1, t, st =>
    if st.queue.isEmpty then some st
    else
      let e := o.choose t st.queue
      runLag g o f (t + 1) (bodyLag g { st with queue := st.queue.erase e } e)

def dsaturLag (g : MGraph) (o : Oracle) (fuel : Nat) : Option (List (Nat × Nat) × Nat) :=
  (runLag g o fuel 0 (init g)).map fun st => (st.colored, st.maxColor + 1)

/-- two hubs `0`, `3` with three leaves each, joined by the path `0 - 1 - 2 - 3`: a tree -/
def doubleBroom : MGraph :=
  ⟨false, [0, 1, 2, 3, 4, 5, 6, 7, 8, 9],
    [⟨0, 0, 1, 1⟩, ⟨1, 1, 2, 1⟩, ⟨2, 2, 3, 1⟩, ⟨3, 0, 4, 1⟩, ⟨4, 0, 5, 1⟩, ⟨5, 0, 6, 1⟩, ⟨6, 3, 7, 1⟩, ⟨7, 3, 8, 1⟩, ⟨8, 3, 9, 1⟩]⟩

theorem lag_uses_three_colours :
    ((dsaturLag doubleBroom firstMax (fuelBound doubleBroom)).map (·.2) = some 3) ∧
    ((dsaturLag doubleBroom lastMax (fuelBound doubleBroom)).map (·.2) = some 3) ∧
    ((dsatur doubleBroom firstMax (fuelBound doubleBroom)).map (·.2) = some 2) ∧
    ((dsatur doubleBroom lastMax (fuelBound doubleBroom)).map (·.2) = some 2) := by
  decide +kernel

end PetgraphModel.C20.DsaturHeap
