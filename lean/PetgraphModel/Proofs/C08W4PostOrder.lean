import PetgraphModel.Proofs.C08W3MoveTo
/-
C08 (wave 4): the ORDER clause of `DfsPostOrder` for a used walker.

`C08_postorder_order` covers the fresh walker.  Here the walker was used before and every earlier
segment was run to exhaustion (or it was reset): its `discovered` and `finished` maps are the same set
`D` (`C08_postorder_moveTo`: after exhaustion `disc = fin`).  After `move_to(s)` and a run to exhaustion
every emitted node `x` comes after each successor `y` that cannot reach it back through nodes outside
`D` (a fortiori after each successor that cannot reach it back at all): `y` was finished before the
`move_to`, or it is emitted earlier in this segment.
-/
namespace PetgraphModel.TravProofs
open PetgraphModel PetgraphModel.Trav PetgraphModel.MGraph

structure POInv (g : MGraph) (D : List Nat) (stack disc fin : List Nat) : Prop where
  dFin : ∀ x, x ∈ D → x ∈ fin
  finDisc : ∀ x, x ∈ fin → x ∈ disc
  grayStack : ∀ x, x ∈ disc → x ∉ fin → x ∈ stack
  grayAbove : ∀ z, z ∈ disc → z ∉ fin → ∀ w, w ∈ above z stack → ReachAvoid g D z w
  grayAdj : ∀ z, z ∈ disc → z ∉ fin → ∀ y, g.Adj z y → y ∈ disc ∨ y ∈ above z stack

theorem po_push (v : View) (hv : ViewOk v) (D : List Nat) (x : Nat) (st disc fin : List Nat)
    (inv : POInv v.g D (x :: st) disc fin) (hx : x ∉ disc) :
    POInv v.g D (((v.succ x).filter (fun y => !(x :: disc).contains y)).reverse ++ (x :: st))
      (x :: disc) fin := by
  have hDd : ∀ a, a ∈ D → a ∈ disc := fun a ha => inv.finDisc a (inv.dFin a ha)
  have hxD : x ∉ D := fun h => hx (hDd x h)
  have hP : ∀ w, w ∈ ((v.succ x).filter (fun y => !(x :: disc).contains y)).reverse ↔
      v.g.Adj x w ∧ w ∉ x :: disc := by
    intro w
    rw [List.mem_reverse, List.mem_filter, not_contains, hv x w]
  have habove : ∀ z, z ∈ x :: disc →
      above z (((v.succ x).filter (fun y => !(x :: disc).contains y)).reverse ++ (x :: st)) =
        ((v.succ x).filter (fun y => !(x :: disc).contains y)).reverse ++ above z (x :: st) := by
    intro z hz
    apply above_append
    intro h
    exact ((hP z).mp h).2 hz
  generalize ((v.succ x).filter (fun y => !(x :: disc).contains y)).reverse = P at hP habove ⊢
  have hPD : ∀ w, w ∈ P → w ∉ D := fun w hw hd => ((hP w).mp hw).2 (List.mem_cons_of_mem _ (hDd w hd))
  refine ⟨inv.dFin, ?_, ?_, ?_, ?_⟩
  · intro a ha; exact List.mem_cons_of_mem _ (inv.finDisc a ha)
  · intro a ha hafin
    rcases List.mem_cons.mp ha with h | h
    · subst h; simp
    · exact List.mem_append_right _ (inv.grayStack a h hafin)
  · intro z hz hzfin w hw
    rw [habove z hz] at hw
    rcases List.mem_cons.mp hz with h | h
    · subst h
      rw [above_cons_self, List.append_nil] at hw
      exact ReachAvoid.step (ReachAvoid.refl hxD) ((hP w).mp hw).1 (hPD w hw)
    · have hzx : x ≠ z := fun e => hx (e ▸ h)
      rcases List.mem_append.mp hw with hw | hw
      · have : ReachAvoid v.g D z x := inv.grayAbove z h hzfin x (by rw [above_cons_ne _ hzx]; simp)
        exact ReachAvoid.step this ((hP w).mp hw).1 (hPD w hw)
      · exact inv.grayAbove z h hzfin w hw
  · intro z hz hzfin y hy
    rw [habove z hz]
    rcases List.mem_cons.mp hz with h | h
    · subst h
      by_cases hyd : y ∈ z :: disc
      · exact Or.inl hyd
      · exact Or.inr (List.mem_append_left _ ((hP y).mpr ⟨hy, hyd⟩))
    · rcases inv.grayAdj z h hzfin y hy with h' | h'
      · exact Or.inl (List.mem_cons_of_mem _ h')
      · exact Or.inr (List.mem_append_right _ h')

theorem po_pop (g : MGraph) (D : List Nat) (x : Nat) (st disc fin fin' : List Nat)
    (inv : POInv g D (x :: st) disc fin) (hx : x ∈ disc) (hfin' : ∀ a, a ∈ fin' ↔ a = x ∨ a ∈ fin) :
    POInv g D st disc fin' := by
  have hmono : ∀ z, z ∉ fin' → z ∉ fin ∧ x ≠ z := fun z hz =>
    ⟨fun h => hz ((hfin' z).mpr (Or.inr h)), fun h => hz ((hfin' z).mpr (Or.inl h.symm))⟩
  refine ⟨fun a ha => (hfin' a).mpr (Or.inr (inv.dFin a ha)), ?_, ?_, ?_, ?_⟩
  · intro a ha
    rcases (hfin' a).mp ha with h | h
    · exact h ▸ hx
    · exact inv.finDisc a h
  · intro a ha hafin
    obtain ⟨h1, h2⟩ := hmono a hafin
    rcases List.mem_cons.mp (inv.grayStack a ha h1) with h | h
    · exact absurd h.symm h2
    · exact h
  · intro z hz hzfin w hw
    obtain ⟨h1, h2⟩ := hmono z hzfin
    apply inv.grayAbove z hz h1 w
    rw [above_cons_ne _ h2]; exact List.mem_cons_of_mem _ hw
  · intro z hz hzfin y hy
    obtain ⟨h1, h2⟩ := hmono z hzfin
    rcases inv.grayAdj z hz h1 y hy with h' | h'
    · exact Or.inl h'
    · rw [above_cons_ne _ h2] at h'
      rcases List.mem_cons.mp h' with h'' | h''
      · exact Or.inl (h'' ▸ hx)
      · exact Or.inr h''

/-- when the top of the stack is emitted, every successor that cannot reach it back through nodes
outside `D` is already finished -/
theorem po_finish (g : MGraph) (D : List Nat) (x : Nat) (st disc fin : List Nat)
    (inv : POInv g D (x :: st) disc fin) (hx : x ∈ disc) (hxfin : x ∉ fin) :
    ∀ y, g.Adj x y → ¬ ReachAvoid g D y x → y ∈ fin := by
  intro y hy hback
  have hyd : y ∈ disc := by
    rcases inv.grayAdj x hx hxfin y hy with h | h
    · exact h
    · rw [above_cons_self] at h; cases h
  apply Classical.byContradiction
  intro hyfin
  apply hback
  by_cases hxy : x = y
  · subst hxy
    exact ReachAvoid.refl (fun hd => hxfin (inv.dFin x hd))
  · apply inv.grayAbove y hyd hyfin x
    rw [above_cons_ne _ hxy]; simp

theorem postNext_po (v : View) (hv : ViewOk v) (D : List Nat) :
    ∀ (f : Nat) (d : Trav.Post) (r : Option Nat) (d' : Trav.Post), POInv v.g D d.stack d.disc d.fin →
      postNext v f d = some (r, d') →
      POInv v.g D d'.stack d'.disc d'.fin ∧
      (r = none → d'.fin = d.fin) ∧
      (∀ x, r = some x → d'.fin = x :: d.fin ∧ x ∉ d.fin ∧
        ∀ y, v.g.Adj x y → ¬ ReachAvoid v.g D y x → y ∈ d.fin) := by
  intro f
  induction f with
  | zero => intro d r d' _ h; simp [postNext] at h
  | succ f ih =>
    intro d r d' inv h
    rw [postNext] at h
    split at h
    · simp only [Option.some.injEq, Prod.mk.injEq] at h
      obtain ⟨rfl, rfl⟩ := h
      exact ⟨inv, fun _ => rfl, fun x hx => by cases hx⟩
    · rename_i x st hst
      rw [hst] at inv
      split at h
      · rename_i hx
        have hx' : x ∉ d.disc := not_contains.mp hx
        refine ih ⟨((v.succ x).filter (fun y => !(x :: d.disc).contains y)).reverse ++ (x :: st),
          x :: d.disc, d.fin⟩ r d' ?_ h
        exact po_push v hv D x st d.disc d.fin inv hx'
      · rename_i hx
        have hx' : x ∈ d.disc := by simpa using hx
        split at h
        · rename_i hxf
          have hxf' : x ∉ d.fin := not_contains.mp hxf
          simp only [Option.some.injEq, Prod.mk.injEq] at h
          obtain ⟨rfl, rfl⟩ := h
          refine ⟨po_pop v.g D x st d.disc d.fin _ inv hx' (by simp), fun h => (by cases h), ?_⟩
          intro x' hx''
          simp only [Option.some.injEq] at hx''
          subst hx''
          exact ⟨rfl, hxf', po_finish v.g D x st d.disc d.fin inv hx' hxf'⟩
        · rename_i hxf
          have hxf' : x ∈ d.fin := by simpa using hxf
          refine ih ⟨st, d.disc, d.fin⟩ r d' ?_ h
          exact po_pop v.g D x st d.disc d.fin d.fin inv hx' (by
            intro a; constructor
            · exact Or.inr
            · rintro (h | h)
              · exact h ▸ hxf'
              · exact h)

structure AccInvD (g : MGraph) (D F : List Nat) (acc fin : List Nat) : Prop where
  nodup : acc.Nodup
  finEq : ∀ x, x ∈ fin ↔ x ∈ F ∨ x ∈ acc
  disj : ∀ x, x ∈ acc → x ∉ F
  order : ∀ x, x ∈ acc → ∀ y, g.Adj x y → ¬ ReachAvoid g D y x →
    y ∈ F ∨ (y ∈ acc ∧ acc.idxOf y < acc.idxOf x)

theorem postAll_po (v : View) (hv : ViewOk v) (D F : List Nat) (inner : Nat) :
    ∀ (k : Nat) (d : Trav.Post) (acc out : List Nat) (d' : Trav.Post), POInv v.g D d.stack d.disc d.fin →
      AccInvD v.g D F acc d.fin → postAll v inner k d acc = some (out, d') →
      AccInvD v.g D F out d'.fin := by
  intro k
  induction k with
  | zero => intro d acc out d' _ _ h; simp [postAll] at h
  | succ k ih =>
    intro d acc out d' inv ainv h
    rw [postAll] at h
    split at h
    · cases h
    · rename_i d1 hn
      simp only [Option.some.injEq, Prod.mk.injEq] at h
      obtain ⟨rfl, rfl⟩ := h
      obtain ⟨_, h2, _⟩ := postNext_po v hv D inner d none _ inv hn
      rw [h2 rfl]
      exact ainv
    · rename_i x d1 hn
      obtain ⟨h1, _, h2⟩ := postNext_po v hv D inner d (some x) _ inv hn
      obtain ⟨h3, h4, h5⟩ := h2 x rfl
      have hxa : x ∉ acc := fun h => h4 ((ainv.finEq x).mpr (Or.inr h))
      have hxF : x ∉ F := fun h => h4 ((ainv.finEq x).mpr (Or.inl h))
      apply ih d1 _ out d' h1 _ h
      rw [h3]
      refine ⟨nodup_snoc ainv.nodup hxa, ?_, ?_, ?_⟩
      · intro a
        simp only [List.mem_append, List.mem_cons, List.not_mem_nil, or_false, ainv.finEq a]
        constructor
        · rintro (h | h | h)
          · exact Or.inr (Or.inr h)
          · exact Or.inl h
          · exact Or.inr (Or.inl h)
        · rintro (h | h | h)
          · exact Or.inr (Or.inl h)
          · exact Or.inr (Or.inr h)
          · exact Or.inl h
      · intro a ha
        rcases List.mem_append.mp ha with ha | ha
        · exact ainv.disj a ha
        · simp at ha; subst ha; exact hxF
      · intro a ha y hy hback
        rcases List.mem_append.mp ha with ha | ha
        · rcases ainv.order a ha y hy hback with h | ⟨h, hlt⟩
          · exact Or.inl h
          · refine Or.inr ⟨List.mem_append_left _ h, ?_⟩
            rw [idxOf_snoc_mem h, idxOf_snoc_mem ha]; exact hlt
        · simp at ha; subst ha
          rcases (ainv.finEq y).mp (h5 y hy hback) with h | h
          · exact Or.inl h
          · refine Or.inr ⟨List.mem_append_left _ h, ?_⟩
            rw [idxOf_snoc_mem h, idxOf_snoc_new hxa]
            exact List.idxOf_lt_length_of_mem h

/-- **order clause of `DfsPostOrder::move_to` on a used walker** whose earlier segments were all run to
exhaustion (`D` and `F` are the same set) -/
theorem post_moveTo_order (v : View) (hv : ViewOk v) (s : Nat) (D F : List Nat)
    (hFD : ∀ x, x ∈ F → x ∈ D) (hDF : ∀ x, x ∈ D → x ∈ F)
    (inner outer : Nat) (out : List Nat) (d' : Trav.Post)
    (h : postAll v inner outer { stack := [s], disc := D, fin := F } [] = some (out, d'))
    (x y : Nat) (hx : x ∈ out) (hxy : v.g.Adj x y) (hback : ¬ ReachAvoid v.g D y x) :
    y ∈ F ∨ (y ∈ out ∧ out.idxOf y < out.idxOf x) := by
  have inv0 : POInv v.g D [s] D F :=
    ⟨hDF, hFD, fun a ha haf => absurd (hDF a ha) haf, fun z hz hzf => absurd (hDF z hz) hzf,
      fun z hz hzf => absurd (hDF z hz) hzf⟩
  have a0 : AccInvD v.g D F [] F :=
    ⟨List.nodup_nil, by simp, by simp, by simp⟩
  exact (postAll_po v hv D F inner outer _ [] out d' inv0 a0 h).order x hx y hxy hback


/-! ### a walker used for several segments, each run to exhaustion -/

/-- `move_to(s)` and iterate to exhaustion, for each `s` of `ss` in turn; the emitted segments -/
def postSegs (v : View) (inner outer : Nat) : List Nat → Trav.Post → Option (List (List Nat) × Trav.Post)
  | [], d => some ([], d)
  | s :: ss, d =>
    match postAll v inner outer (d.moveTo s) [] with
    | none => none
    | some (out, d') =>
      match postSegs v inner outer ss d' with
      | none => none
      | some (segs, d'') => some (out :: segs, d'')

theorem reachAvoid_of_closed {g : MGraph} {D : List Nat} (hcl : ∀ x, x ∈ D → ∀ y, g.Adj x y → y ∈ D)
    {s x : Nat} (h : Reach g s x) : x ∉ D → ReachAvoid g D s x := by
  induction h with
  | refl => intro hx; exact ReachAvoid.refl hx
  | @step b c _ hadj ih =>
    intro hc
    have hb : b ∉ D := fun hb => hc (hcl b hb c hadj)
    exact ReachAvoid.step (ih hb) hadj hc

theorem reachAvoid_reach' {g : MGraph} {D : List Nat} {s x : Nat} (h : ReachAvoid g D s x) : Reach g s x := by
  induction h with
  | refl _ => exact Reach.refl _
  | step _ hadj _ ih => exact Reach.step ih hadj

theorem idxOf_append_mem {l1 l2 : List Nat} {a : Nat} (h : a ∈ l1) : (l1 ++ l2).idxOf a = l1.idxOf a := by
  rw [List.idxOf_append]; simp [h]

theorem idxOf_append_not_mem {l1 l2 : List Nat} {a : Nat} (h : a ∉ l1) :
    (l1 ++ l2).idxOf a = l1.length + l2.idxOf a := by
  rw [List.idxOf_append]; simp [h]; omega

/-- the state of affairs between two segments: everything emitted so far (`E`) is what the walker has
discovered and finished, it is closed under successors, and it is in post-order -/
structure SegsInv (g : MGraph) (E : List Nat) (d : Trav.Post) : Prop where
  nodup : E.Nodup
  disc : ∀ x, x ∈ d.disc ↔ x ∈ E
  fin : ∀ x, x ∈ d.fin ↔ x ∈ E
  closed : ∀ x, x ∈ E → ∀ y, g.Adj x y → y ∈ E
  order : ∀ x, x ∈ E → ∀ y, g.Adj x y → ¬ Reach g y x → E.idxOf y < E.idxOf x

theorem postSegs_spec (v : View) (hv : ViewOk v) (inner outer : Nat) :
    ∀ (ss : List Nat) (d : Trav.Post) (E : List Nat) (segs : List (List Nat)) (d' : Trav.Post),
      SegsInv v.g E d → postSegs v inner outer ss d = some (segs, d') →
      SegsInv v.g (E ++ segs.flatten) d' ∧ segs.length = ss.length ∧
      ∀ x, x ∈ E ++ segs.flatten ↔ x ∈ E ∨ ∃ s, s ∈ ss ∧ Reach v.g s x := by
  intro ss
  induction ss with
  | nil =>
    intro d E segs d' inv h
    simp only [postSegs, Option.some.injEq, Prod.mk.injEq] at h
    obtain ⟨rfl, rfl⟩ := h
    simp only [List.flatten_nil, List.append_nil]
    exact ⟨inv, rfl, fun x => ⟨Or.inl, fun h => h.elim id (fun ⟨_, hs, _⟩ => by cases hs)⟩⟩
  | cons s ss ih =>
    intro d E segs d' inv h
    simp only [postSegs] at h
    split at h
    · cases h
    rename_i out d1 hrun
    split at h
    · cases h
    rename_i segs1 d2 hrest
    simp only [Option.some.injEq, Prod.mk.injEq] at h
    obtain ⟨rfl, rfl⟩ := h
    have hrun' : postAll v inner outer { stack := [s], disc := d.disc, fin := d.fin } [] = some (out, d1) := hrun
    have hFD : ∀ x, x ∈ d.fin → x ∈ d.disc := fun x hx => (inv.disc x).mpr ((inv.fin x).mp hx)
    have hDF : ∀ x, x ∈ d.disc → x ∈ d.fin := fun x hx => (inv.fin x).mpr ((inv.disc x).mp hx)
    obtain ⟨hnd, hout, hdisc, hfin⟩ := post_moveTo v hv s d.disc d.fin hFD inner outer out d1 hrun'
    have hclD : ∀ x, x ∈ d.disc → ∀ y, v.g.Adj x y → y ∈ d.disc :=
      fun x hx y hy => (inv.disc y).mpr (inv.closed x ((inv.disc x).mp hx) y hy)
    have hout' : ∀ x, x ∈ out ↔ Reach v.g s x ∧ x ∉ E := by
      intro x
      rw [hout x]
      constructor
      · rintro (h1 | ⟨_, h2, h3⟩)
        · exact ⟨reachAvoid_reach' h1, fun hx => h1.not_mem ((inv.disc x).mpr hx)⟩
        · exact absurd (hDF s h2) h3
      · rintro ⟨h1, h2⟩
        exact Or.inl (reachAvoid_of_closed hclD h1 (fun hx => h2 ((inv.disc x).mp hx)))
    have inv1 : SegsInv v.g (E ++ out) d1 := by
      refine ⟨?_, ?_, ?_, ?_, ?_⟩
      · rw [List.nodup_append]
        exact ⟨inv.nodup, hnd, fun a ha b hb hab => ((hout' b).mp hb).2 (hab ▸ ha)⟩
      · intro x
        rw [hdisc x, List.mem_append, hout x, inv.disc x]
        constructor
        · rintro (h1 | h1)
          · exact Or.inl h1
          · exact Or.inr (Or.inl h1)
        · rintro (h1 | h1 | ⟨_, h2, h3⟩)
          · exact Or.inl h1
          · exact Or.inr h1
          · exact absurd (hDF s h2) h3
      · intro x
        rw [hfin x, List.mem_append, inv.fin x]
      · intro x hx y hy
        rcases List.mem_append.mp hx with h1 | h1
        · exact List.mem_append_left _ (inv.closed x h1 y hy)
        · by_cases hyE : y ∈ E
          · exact List.mem_append_left _ hyE
          · exact List.mem_append_right _ ((hout' y).mpr ⟨Reach.step ((hout' x).mp h1).1 hy, hyE⟩)
      · intro x hx y hy hback
        rcases List.mem_append.mp hx with h1 | h1
        · have hyE := inv.closed x h1 y hy
          rw [idxOf_append_mem hyE, idxOf_append_mem h1]
          exact inv.order x h1 y hy hback
        · have hxE : x ∉ E := ((hout' x).mp h1).2
          rw [idxOf_append_not_mem hxE]
          rcases post_moveTo_order v hv s d.disc d.fin hFD hDF inner outer out d1 hrun' x y h1 hy
            (fun hra => hback (reachAvoid_reach' hra)) with h2 | ⟨h2, h3⟩
          · have hyE : y ∈ E := (inv.fin y).mp h2
            rw [idxOf_append_mem hyE]
            have := List.idxOf_lt_length_of_mem hyE
            omega
          · have hyE : y ∉ E := ((hout' y).mp h2).2
            rw [idxOf_append_not_mem hyE]
            omega
    obtain ⟨i1, i2, i3⟩ := ih d1 (E ++ out) segs1 d2 inv1 hrest
    simp only [List.flatten_cons, ← List.append_assoc]
    refine ⟨i1, by simp [i2], ?_⟩
    intro x
    rw [i3 x, List.mem_append, hout' x]
    constructor
    · rintro ((h1 | ⟨h1, _⟩) | ⟨s', hs', hr⟩)
      · exact Or.inl h1
      · exact Or.inr ⟨s, List.mem_cons_self .., h1⟩
      · exact Or.inr ⟨s', List.mem_cons_of_mem _ hs', hr⟩
    · rintro (h1 | ⟨s', hs', hr⟩)
      · exact Or.inl (Or.inl h1)
      · rcases List.mem_cons.mp hs' with h2 | h2
        · subst h2
          by_cases hxE : x ∈ E
          · exact Or.inl (Or.inl hxE)
          · exact Or.inl (Or.inr ⟨hr, hxE⟩)
        · exact Or.inr ⟨s', h2, hr⟩

/-- **`DfsPostOrder` used for several start nodes** (fresh or reset walker; `move_to` each start and run
to exhaustion): all that is emitted, in order, lists exactly the nodes reachable from the start nodes,
each once, every node after each of its successors that cannot reach it back. -/
theorem post_segs (v : View) (hv : ViewOk v) (inner outer : Nat) (ss : List Nat) (segs : List (List Nat))
    (d' : Trav.Post) (h : postSegs v inner outer ss {} = some (segs, d')) :
    segs.flatten.Nodup ∧ (∀ x, x ∈ segs.flatten ↔ ∃ s, s ∈ ss ∧ Reach v.g s x) ∧
    ∀ x, x ∈ segs.flatten → ∀ y, v.g.Adj x y → ¬ Reach v.g y x →
      segs.flatten.idxOf y < segs.flatten.idxOf x := by
  have inv0 : SegsInv v.g [] ({} : Trav.Post) :=
    ⟨List.nodup_nil, fun x => Iff.rfl, fun x => Iff.rfl, (fun x hx => by cases hx), (fun x hx => by cases hx)⟩
  obtain ⟨i1, _, i3⟩ := postSegs_spec v hv inner outer ss {} [] segs d' inv0 h
  simp only [List.nil_append] at i1 i3
  refine ⟨i1.nodup, ?_, i1.order⟩
  intro x
  rw [i3 x]
  exact ⟨fun h => h.elim (fun h => by cases h) id, Or.inr⟩

end PetgraphModel.TravProofs
