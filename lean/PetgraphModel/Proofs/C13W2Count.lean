import PetgraphModel.Proofs.C13Vf2
import PetgraphModel.Model.C13Vf2Side
/-
C13, wave 2 — counting facts about valid complete mappings (`Final`):

* the early `edge_count()` rejection of `is_isomorphic_subgraph*` / `subgraph_isomorphisms_iter` loses
  nothing: a valid complete mapping forces `g0.ecount ≤ g1.ecount` (given that the `edge_count()` fields
  describe the neighbour lists, `ECountOk`);
* `toAbstract` (concrete mapping ↦ reported vector over abstract ids) is injective on valid complete
  mappings, provided the index labelings are permutations of `0..n-1`.
-/
namespace PetgraphModel.C13.Vf2
open PetgraphModel

/- `CG.arcs`, `CG.loops`, `ECountOk` (and its `Decidable` instance) are defined in `Model/C13Vf2Side.lean`
(core Lean only), because the driver evaluates them at run time. -/

/-! ### generic list facts -/

theorem sum_map_le_of_sublist (f : Nat → Nat) {l₁ l₂ : List Nat} (h : l₁.Sublist l₂) :
    (l₁.map f).sum ≤ (l₂.map f).sum := by
  induction h with
  | slnil => exact Nat.le_refl _
  | cons a _ ih =>
    simp only [List.map_cons, List.sum_cons]
    exact Nat.le_trans ih (Nat.le_add_left _ _)
  | cons_cons a _ ih =>
    simp only [List.map_cons, List.sum_cons]
    exact Nat.add_le_add_left ih _

theorem sum_map_le_of_subperm (f : Nat → Nat) {l₁ l₂ : List Nat} (h : l₁.Subperm l₂) :
    (l₁.map f).sum ≤ (l₂.map f).sum := by
  obtain ⟨l, hp, hs⟩ := h
  rw [← (hp.map f).sum_nat]
  exact sum_map_le_of_sublist f hs

theorem sum_map_le_sum_map {f g : Nat → Nat} {l : List Nat} (h : ∀ x ∈ l, f x ≤ g x) :
    (l.map f).sum ≤ (l.map g).sum := by
  induction l with
  | nil => exact Nat.le_refl _
  | cons a l ih =>
    simp only [List.map_cons, List.sum_cons]
    exact Nat.add_le_add (h a (List.mem_cons_self ..)) (ih fun x hx => h x (List.mem_cons_of_mem _ hx))

/-! ### the node map of a valid complete mapping -/

/-- the node map `i ↦ mp[i]` as a total function -/
def phi (mp : List (Option Nat)) (i : Nat) : Nat := ((mp[i]?).getD none).getD 0

theorem Final.phi_spec {I : Inst} {mp : List (Option Nat)} (f : Final I mp) {i : Nat} (hi : i < I.g0.n) :
    mp[i]? = some (some (phi mp i)) ∧ phi mp i < I.g1.n := by
  obtain ⟨j, hj, hlt⟩ := f.total i hi
  have : phi mp i = j := by simp [phi, hj]
  rw [this]; exact ⟨hj, hlt⟩

theorem Final.phi_inj {I : Inst} {mp : List (Option Nat)} (f : Final I mp) {i i' : Nat}
    (hi : i < I.g0.n) (hi' : i' < I.g0.n) (h : phi mp i = phi mp i') : i = i' := by
  have h1 := (f.phi_spec hi).1
  have h2 := (f.phi_spec hi').1
  rw [h] at h1
  exact f.inj i i' _ h1 h2

theorem Final.phi_adj {I : Inst} {mp : List (Option Nat)} (f : Final I mp) {i i' : Nat}
    (hi : i < I.g0.n) (hi' : i' < I.g0.n) : I.g0.adj i i' = I.g1.adj (phi mp i) (phi mp i') := by
  apply f.ok.adj i (phi mp i) i' (phi mp i')
  · show (mp[i]?).getD none = _
    rw [(f.phi_spec hi).1]; rfl
  · show (mp[i']?).getD none = _
    rw [(f.phi_spec hi').1]; rfl

/-- the image of `0..n0-1` is a duplicate-free sub-multiset of `0..n1-1` -/
theorem Final.phi_range_subperm {I : Inst} {mp : List (Option Nat)} (f : Final I mp) :
    ((List.range I.g0.n).map (phi mp)).Subperm (List.range I.g1.n) := by
  apply List.subperm_of_subset
  · refine List.Nodup.map_on ?_ List.nodup_range
    intro i hi i' hi' h
    exact f.phi_inj (List.mem_range.mp hi) (List.mem_range.mp hi') h
  · intro j hj
    obtain ⟨i, hi, rfl⟩ := List.mem_map.mp hj
    exact List.mem_range.mpr (f.phi_spec (List.mem_range.mp hi)).2

/-! ### Part 1: the edge-count rejection loses nothing -/

/-- out-degrees can only grow along a valid complete mapping -/
theorem Final.outN_length_le {I : Inst} (ok0 : CGOk I.g0) {mp : List (Option Nat)} (f : Final I mp)
    {i : Nat} (hi : i < I.g0.n) : (I.g0.outN i).length ≤ (I.g1.outN (phi mp i)).length := by
  have hnd : ((I.g0.outN i).map (phi mp)).Nodup := by
    refine List.Nodup.map_on ?_ (ok0.simple i)
    intro a ha b hb h
    exact f.phi_inj (ok0.outLt i a ha).2 (ok0.outLt i b hb).2 h
  have hsub : (I.g0.outN i).map (phi mp) ⊆ I.g1.outN (phi mp i) := by
    intro j hj
    obtain ⟨a, ha, rfl⟩ := List.mem_map.mp hj
    have h := f.phi_adj hi (ok0.outLt i a ha).2
    rw [(adj_iff _ _ _).mpr ha] at h
    exact (adj_iff _ _ _).mp h.symm
  have := (List.subperm_of_subset hnd hsub).length_le
  simpa using this

theorem Final.arcs_le {I : Inst} (ok0 : CGOk I.g0) (ok1 : CGOk I.g1) {mp : List (Option Nat)} (f : Final I mp) :
    I.g0.arcs ≤ I.g1.arcs := by
  have _ := ok1
  unfold CG.arcs
  have h1 : ((List.range I.g0.n).map fun i => (I.g0.outN i).length).sum
      ≤ ((List.range I.g0.n).map fun i => (I.g1.outN (phi mp i)).length).sum :=
    sum_map_le_sum_map fun i hi => f.outN_length_le ok0 (List.mem_range.mp hi)
  have h2 := sum_map_le_of_subperm (fun j => (I.g1.outN j).length) f.phi_range_subperm
  rw [List.map_map] at h2
  exact Nat.le_trans h1 h2

theorem Final.loops_le {I : Inst} {mp : List (Option Nat)} (f : Final I mp) : I.g0.loops ≤ I.g1.loops := by
  unfold CG.loops
  have hnd : (((List.range I.g0.n).filter fun i => I.g0.adj i i).map (phi mp)).Nodup := by
    refine List.Nodup.map_on ?_ (List.nodup_range.filter _)
    intro a ha b hb h
    exact f.phi_inj (List.mem_range.mp (List.mem_filter.mp ha).1) (List.mem_range.mp (List.mem_filter.mp hb).1) h
  have hsub : ((List.range I.g0.n).filter fun i => I.g0.adj i i).map (phi mp)
      ⊆ (List.range I.g1.n).filter fun j => I.g1.adj j j := by
    intro j hj
    obtain ⟨a, ha, rfl⟩ := List.mem_map.mp hj
    obtain ⟨ha1, ha2⟩ := List.mem_filter.mp ha
    have ha1 := List.mem_range.mp ha1
    refine List.mem_filter.mpr ⟨List.mem_range.mpr (f.phi_spec ha1).2, ?_⟩
    rw [← f.phi_adj ha1 ha1]; exact ha2
  have := (List.subperm_of_subset hnd hsub).length_le
  simpa using this

theorem Final.ecount_le {I : Inst} (ok0 : CGOk I.g0) (ok1 : CGOk I.g1) (hd : I.g0.directed = I.g1.directed)
    (e0 : ECountOk I.g0) (e1 : ECountOk I.g1) {mp : List (Option Nat)} (f : Final I mp) :
    I.g0.ecount ≤ I.g1.ecount := by
  have ha := f.arcs_le ok0 ok1
  have hl := f.loops_le
  unfold ECountOk at e0 e1
  rw [← hd] at e1
  cases hdir : I.g0.directed with
  | true =>
    simp only [hdir, if_true] at e0 e1
    omega
  | false =>
    simp only [hdir, Bool.false_eq_true, if_false] at e0 e1
    omega

/-! ### Part 2: `toAbstract` is injective on valid complete mappings -/

theorem toAbstract_inj {I : Inst} (p0 : I.g0.abs.Perm (List.range I.g0.n)) (p1 : I.g1.abs.Perm (List.range I.g1.n))
    {mp mp' : List (Option Nat)} (f : Final I mp) (f' : Final I mp') (h : toAbstract I mp = toAbstract I mp') :
    mp = mp' := by
  have nd0 : I.g0.abs.Nodup := p0.nodup_iff.mpr List.nodup_range
  have nd1 : I.g1.abs.Nodup := p1.nodup_iff.mpr List.nodup_range
  have l0 : I.g0.abs.length = I.g0.n := by simpa using p0.length_eq
  have l1 : I.g1.abs.length = I.g1.n := by simpa using p1.length_eq
  apply List.ext_getElem?
  intro i
  by_cases hi : i < I.g0.n
  · obtain ⟨hj, hjlt⟩ := f.phi_spec hi
    obtain ⟨hj', hjlt'⟩ := f'.phi_spec hi
    rw [hj, hj']
    have hia : i < I.g0.abs.length := by rw [l0]; exact hi
    have ha : I.g0.abs[i] < I.g0.n := List.mem_range.mp (p0.subset (List.getElem_mem hia))
    have hidx : I.g0.abs.idxOf I.g0.abs[i] = i := nd0.idxOf_getElem i hia
    have hh := congrArg (fun L => L[I.g0.abs[i]]?) h
    simp only [toAbstract, List.getElem?_map, List.getElem?_range ha, Option.map_some, hidx, hj, hj',
      Option.getD_some, Option.some.injEq] at hh
    have q : phi mp i < I.g1.abs.length := by rw [l1]; exact hjlt
    have q' : phi mp' i < I.g1.abs.length := by rw [l1]; exact hjlt'
    rw [List.getElem?_eq_getElem q, List.getElem?_eq_getElem q', Option.getD_some, Option.getD_some] at hh
    rw [(nd1.getElem_inj_iff).mp hh]
  · have hi := Nat.le_of_not_lt hi
    rw [List.getElem?_eq_none (by rw [f.len]; exact hi), List.getElem?_eq_none (by rw [f'.len]; exact hi)]

end PetgraphModel.C13.Vf2
