import PetgraphModel.Oracle.C15Matching
/-
C15 — soundness of the matching judges: `checkMate` accepts only valid matchings, and the
exhaustive-search number `maxMatchingSize` is exactly the size of a maximum matching (upper bound
for every matching — the enumerator's completeness — and attained by some matching).
-/
namespace PetgraphModel.C15P
open PetgraphModel PetgraphModel.C15

theorem nodupB_nodup : ∀ (l : List Nat), nodupB l = true → l.Nodup
  | [], _ => List.nodup_nil
  | x :: xs, h => by
    simp only [nodupB, Bool.and_eq_true, Bool.not_eq_true', List.contains_eq_mem,
      decide_eq_false_iff_not] at h
    exact List.nodup_cons.mpr ⟨h.1, nodupB_nodup xs h.2⟩

theorem joinedInB_iff (es : List Edge) (a b : Nat) : joinedInB es a b = true ↔ JoinedIn es a b := by
  unfold joinedInB JoinedIn
  simp only [Bool.and_eq_true, bne_iff_ne, ne_eq, List.any_eq_true, Bool.or_eq_true, beq_iff_eq]

theorem checkMate_sound (g : MGraph) (mate : List (Nat × Nat)) (h : checkMate g mate = true) :
    MateValid g mate := by
  unfold checkMate at h
  simp only [Bool.and_eq_true, List.all_eq_true] at h
  obtain ⟨⟨h1, h2⟩, h3⟩ := h
  refine ⟨nodupB_nodup _ h1, ?_, ?_⟩
  · intro a b hab
    have := h2 (a, b) hab
    simpa using this
  · intro a b hab
    exact (joinedInB_iff ..).mp (h3 (a, b) hab)

theorem checkMate_complete (g : MGraph) (mate : List (Nat × Nat)) (h : MateValid g mate) :
    checkMate g mate = true := by
  unfold checkMate
  simp only [Bool.and_eq_true, List.all_eq_true]
  refine ⟨⟨?_, ?_⟩, ?_⟩
  · have : ∀ l : List Nat, l.Nodup → nodupB l = true := by
      intro l hl
      induction l with
      | nil => rfl
      | cons x xs ih =>
        have := List.nodup_cons.mp hl
        simp [nodupB, this.1, ih this.2]
    exact this _ h.functional
  · intro p hp
    have := h.symmetric p.1 p.2 hp
    simpa using this
  · intro p hp
    exact (joinedInB_iff ..).mpr (h.joined p.1 p.2 hp)

/-- a table whose keys are distinct is a function -/
theorem functional_of_nodup : ∀ (mate : List (Nat × Nat)), (mate.map (·.1)).Nodup →
    ∀ a b c, (a, b) ∈ mate → (a, c) ∈ mate → b = c
  | [], _, _, _, _, h, _ => by cases h
  | p :: rest, hn, a, b, c, hb, hc => by
    simp only [List.map_cons, List.nodup_cons, List.mem_map, not_exists, not_and] at hn
    cases List.mem_cons.mp hb with
    | inl h1 =>
      cases List.mem_cons.mp hc with
      | inl h2 => rw [← h1] at h2; exact (Prod.mk.inj h2).2.symm ▸ rfl
      | inr h2 => exact absurd (by rw [← h1]) (hn.1 (a, c) h2)
    | inr h1 =>
      cases List.mem_cons.mp hc with
      | inl h2 => exact absurd (by rw [← h2]) (hn.1 (a, b) h1)
      | inr h2 => exact functional_of_nodup rest hn.2 a b c h1 h2

/-- **a valid `mate` table is a matching**: its pairs are joined by non-loop edges and pairwise
share no node -/
theorem mateValid_isMatching (g : MGraph) (mate : List (Nat × Nat)) (h : MateValid g mate) :
    IsMatching g (pairsOf mate) := by
  have hfun := functional_of_nodup mate h.functional
  constructor
  · intro p hp
    have hm : p ∈ mate := (List.mem_filter.mp hp).1
    exact h.joined p.1 p.2 hm
  · have h1 : mate.Pairwise (fun p q => p.1 ≠ q.1) := by
      have := h.functional
      unfold List.Nodup at this
      exact List.pairwise_map.mp this
    have h2 : (pairsOf mate).Pairwise (fun p q => p.1 ≠ q.1) := h1.sublist List.filter_sublist
    refine h2.imp_of_mem ?_
    intro p q hp hq hne
    obtain ⟨hpm, hplt⟩ := List.mem_filter.mp hp
    obtain ⟨hqm, hqlt⟩ := List.mem_filter.mp hq
    simp only [decide_eq_true_eq] at hplt hqlt
    have hp' : (p.1, p.2) ∈ mate := hpm
    have hq' : (q.1, q.2) ∈ mate := hqm
    refine ⟨hne, ?_, ?_, ?_⟩
    · intro e
      have hs := h.symmetric q.1 q.2 hq'
      rw [← e] at hs
      have := hfun p.1 p.2 q.1 hp' hs
      omega
    · intro e
      have hs := h.symmetric p.1 p.2 hp'
      rw [e] at hs
      have := hfun q.1 q.2 p.1 hq' hs
      omega
    · intro e
      have hs1 := h.symmetric p.1 p.2 hp'
      have hs2 := h.symmetric q.1 q.2 hq'
      rw [← e] at hs2
      exact hne (hfun p.2 p.1 q.1 hs1 hs2)

theorem disjoint2_symm {p q : Nat × Nat} (h : Disjoint2 p q) : Disjoint2 q p :=
  ⟨fun e => h.1 e.symm, fun e => h.2.2.1 e.symm, fun e => h.2.1 e.symm, fun e => h.2.2.2 e.symm⟩

theorem joinedIn_mono {es : List Edge} {e : Edge} {a b : Nat} (h : JoinedIn es a b) :
    JoinedIn (e :: es) a b :=
  ⟨h.1, let ⟨x, hx, hh⟩ := h.2; ⟨x, List.mem_cons_of_mem _ hx, hh⟩⟩

/-- **completeness of the enumeration**: no matching that uses only edges of `es` and avoids `used`
is larger than what the search finds -/
theorem maxMatch_upper : ∀ (es : List Edge) (used : List Nat) (M : List (Nat × Nat)),
    (∀ p ∈ M, JoinedIn es p.1 p.2) → M.Pairwise Disjoint2 → (∀ p ∈ M, p.1 ∉ used ∧ p.2 ∉ used) →
    M.length ≤ maxMatch es used
  | [], _, M, hj, _, _ => by
    cases M with
    | nil => simp
    | cons p M =>
      obtain ⟨_, e, he, _⟩ := hj p (List.mem_cons_self ..)
      cases he
  | e :: es, used, M, hj, hd, hu => by
    by_cases hex : ∃ p ∈ M, (e.src = p.1 ∧ e.tgt = p.2) ∨ (e.src = p.2 ∧ e.tgt = p.1)
    · obtain ⟨p, hp, hpe⟩ := hex
      obtain ⟨M1, M2, rfl⟩ := List.append_of_mem hp
      -- every other pair is disjoint from `p`
      have hdis : ∀ q ∈ M1 ++ M2, Disjoint2 p q := by
        intro q hq
        rw [List.pairwise_append] at hd
        obtain ⟨_, hd2, hd3⟩ := hd
        cases List.mem_append.mp hq with
        | inl h1 => exact disjoint2_symm (hd3 q h1 p (List.mem_cons_self ..))
        | inr h2 => exact (List.pairwise_cons.mp hd2).1 q h2
      have hpne : p.1 ≠ p.2 := (hj p hp).1
      have hpu := hu p hp
      have hsub : ∀ q ∈ M1 ++ M2, q ∈ M1 ++ p :: M2 := by
        intro q hq
        cases List.mem_append.mp hq with
        | inl h1 => exact List.mem_append.mpr (Or.inl h1)
        | inr h2 => exact List.mem_append.mpr (Or.inr (List.mem_cons_of_mem _ h2))
      have hcond : e.src ≠ e.tgt ∧ e.src ∉ used ∧ e.tgt ∉ used := by
        rcases hpe with ⟨h1, h2⟩ | ⟨h1, h2⟩
        · rw [h1, h2]; exact ⟨hpne, hpu.1, hpu.2⟩
        · rw [h1, h2]; exact ⟨fun h => hpne h.symm, hpu.2, hpu.1⟩
      have ih := maxMatch_upper es (e.src :: e.tgt :: used) (M1 ++ M2) ?_ ?_ ?_
      · simp only [maxMatch, if_pos hcond]
        have hl : (M1 ++ p :: M2).length = (M1 ++ M2).length + 1 := by simp; omega
        rw [hl]
        have := Nat.le_max_right (maxMatch es used) (1 + maxMatch es (e.src :: e.tgt :: used))
        omega
      · intro q hq
        have hjq := hj q (hsub q hq)
        refine ⟨hjq.1, ?_⟩
        obtain ⟨x, hx, hxq⟩ := hjq.2
        cases List.mem_cons.mp hx with
        | inr h => exact ⟨x, h, hxq⟩
        | inl h =>
          exfalso
          subst h
          have hd' := hdis q hq
          rcases hpe with ⟨h1, h2⟩ | ⟨h1, h2⟩ <;> rcases hxq with ⟨h3, h4⟩ | ⟨h3, h4⟩
          · exact hd'.1 (h1.symm.trans h3)
          · exact hd'.2.1 (h1.symm.trans h3)
          · exact hd'.2.2.1 (h1.symm.trans h3)
          · exact hd'.2.2.2 (h1.symm.trans h3)
      · rw [List.pairwise_append] at hd ⊢
        obtain ⟨hd1, hd2, hd3⟩ := hd
        exact ⟨hd1, (List.pairwise_cons.mp hd2).2, fun a ha b hb => hd3 a ha b (List.mem_cons_of_mem _ hb)⟩
      · intro q hq
        have hd' := hdis q hq
        have hqu := hu q (hsub q hq)
        simp only [List.mem_cons, not_or]
        rcases hpe with ⟨h1, h2⟩ | ⟨h1, h2⟩
        · rw [h1, h2]
          exact ⟨⟨fun h => hd'.1 h.symm, fun h => hd'.2.2.1 h.symm, hqu.1⟩,
                 ⟨fun h => hd'.2.1 h.symm, fun h => hd'.2.2.2 h.symm, hqu.2⟩⟩
        · rw [h1, h2]
          exact ⟨⟨fun h => hd'.2.2.1 h.symm, fun h => hd'.1 h.symm, hqu.1⟩,
                 ⟨fun h => hd'.2.2.2 h.symm, fun h => hd'.2.1 h.symm, hqu.2⟩⟩
    · have hj' : ∀ p ∈ M, JoinedIn es p.1 p.2 := by
        intro p hp
        have hjp := hj p hp
        refine ⟨hjp.1, ?_⟩
        obtain ⟨x, hx, hxp⟩ := hjp.2
        cases List.mem_cons.mp hx with
        | inr h => exact ⟨x, h, hxp⟩
        | inl h => subst h; exact absurd ⟨p, hp, hxp⟩ hex
      have ih := maxMatch_upper es used M hj' hd hu
      simp only [maxMatch]
      split
      · have := Nat.le_max_left (maxMatch es used) (1 + maxMatch es (e.src :: e.tgt :: used))
        omega
      · exact ih

/-- the search result is attained by a matching -/
theorem maxMatch_attained : ∀ (es : List Edge) (used : List Nat), ∃ M : List (Nat × Nat),
    (∀ p ∈ M, JoinedIn es p.1 p.2) ∧ M.Pairwise Disjoint2 ∧ (∀ p ∈ M, p.1 ∉ used ∧ p.2 ∉ used) ∧
    M.length = maxMatch es used
  | [], _ => ⟨[], by simp, List.Pairwise.nil, by simp, by simp [maxMatch]⟩
  | e :: es, used => by
    obtain ⟨M0, h01, h02, h03, h04⟩ := maxMatch_attained es used
    have skip : ∃ M : List (Nat × Nat), (∀ p ∈ M, JoinedIn (e :: es) p.1 p.2) ∧ M.Pairwise Disjoint2 ∧
        (∀ p ∈ M, p.1 ∉ used ∧ p.2 ∉ used) ∧ M.length = maxMatch es used :=
      ⟨M0, fun p hp => joinedIn_mono (h01 p hp), h02, h03, h04⟩
    simp only [maxMatch]
    split
    · rename_i hcond
      obtain ⟨M1, h11, h12, h13, h14⟩ := maxMatch_attained es (e.src :: e.tgt :: used)
      by_cases hle : maxMatch es used ≤ 1 + maxMatch es (e.src :: e.tgt :: used)
      · rw [Nat.max_eq_right hle]
        refine ⟨(e.src, e.tgt) :: M1, ?_, ?_, ?_, by simp [h14]; omega⟩
        · intro p hp
          cases List.mem_cons.mp hp with
          | inl h => subst h; exact ⟨hcond.1, e, List.mem_cons_self .., Or.inl ⟨rfl, rfl⟩⟩
          | inr h => exact joinedIn_mono (h11 p h)
        · refine List.pairwise_cons.mpr ⟨?_, h12⟩
          intro q hq
          have := h13 q hq
          simp only [List.mem_cons, not_or] at this
          exact ⟨fun h => this.1.1 h.symm, fun h => this.2.1 h.symm,
                 fun h => this.1.2.1 h.symm, fun h => this.2.2.1 h.symm⟩
        · intro p hp
          cases List.mem_cons.mp hp with
          | inl h => subst h; exact ⟨hcond.2.1, hcond.2.2⟩
          | inr h =>
            have := h13 p h
            simp only [List.mem_cons, not_or] at this
            exact ⟨this.1.2.2, this.2.2.2⟩
      · rw [Nat.max_eq_left (by omega)]
        exact skip
    · exact skip

/-- every matching of `g` has at most `maxMatchingSize g` pairs -/
theorem maxMatchingSize_upper (g : MGraph) (M : List (Nat × Nat)) (h : IsMatching g M) :
    M.length ≤ maxMatchingSize g :=
  maxMatch_upper g.edges [] M h.1 h.2 (by simp)

/-- some matching of `g` has exactly `maxMatchingSize g` pairs -/
theorem maxMatchingSize_attained (g : MGraph) : ∃ M, IsMatching g M ∧ M.length = maxMatchingSize g := by
  obtain ⟨M, h1, h2, _, h4⟩ := maxMatch_attained g.edges []
  exact ⟨M, ⟨h1, h2⟩, h4⟩

end PetgraphModel.C15P
