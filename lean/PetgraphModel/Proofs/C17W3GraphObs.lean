import PetgraphModel.Proofs.C17W3Graph
import PetgraphModel.Proofs.C17W3Obs
/-
Helper lemmas for C17, wave 3 (part 5): for `Graph`s (no vacancies) `SameObs` is slot-by-slot equality of weights and
endpoints, hence equality of the C01 content (`nodes.map weight`, `edges.map edgeEnds`) of the embedded states.
-/
namespace PetgraphModel.SerdeProofs
open PetgraphModel PetgraphModel.Serde

theorem sameObs_content (g g' : Raw) (hI : GraphInv g) (hI' : GraphInv g') (O : SameObs g g') :
    g'.nodes.map (fun (n : NodeSlot) => n.w) = g.nodes.map (fun (n : NodeSlot) => n.w) ∧
    g'.edges.map skel = g.edges.map skel := by
  have keyN : ∀ (a b : Raw), GraphInv a → liveNodes a = liveNodes b → ∀ (i : Nat) (n : NodeSlot),
      a.nodes[i]? = some n → ∃ n', b.nodes[i]? = some n' ∧ n'.w = n.w := by
    intro a b ha hab i n hn
    have hl := ha.allNodes i n hn
    cases hw : n.w with
    | none => simp [hw] at hl
    | some w =>
      have : (i, w) ∈ liveNodes a := (mem_liveNodes a i w).2 ⟨n, hn, hw⟩
      rw [hab] at this
      exact (mem_liveNodes b i w).1 this
  have keyE : ∀ (a b : Raw), GraphInv a → liveEdges a = liveEdges b → ∀ (i : Nat) (e : EdgeSlot),
      a.edges[i]? = some e → ∃ e', b.edges[i]? = some e' ∧ skel e' = skel e := by
    intro a b ha hab i e he
    have hl := ha.allEdges i e he
    cases hw : e.w with
    | none => simp [hw] at hl
    | some w =>
      have : (i, e.src, e.tgt, w) ∈ liveEdges a := (mem_liveEdges a i e.src e.tgt w).2 ⟨e, he, hw, rfl, rfl⟩
      rw [hab] at this
      obtain ⟨e', h1, h2, h3, h4⟩ := (mem_liveEdges b i e.src e.tgt w).1 this
      exact ⟨e', h1, by simp [skel, h2, h3, h4, hw]⟩
  constructor
  · apply List.ext_getElem?
    intro i
    rw [List.getElem?_map, List.getElem?_map]
    cases h' : g'.nodes[i]? with
    | some n' =>
      obtain ⟨n, hn, hw⟩ := keyN g' g hI' O.nodes i n' h'
      simp [hn, hw]
    | none =>
      cases h : g.nodes[i]? with
      | none => rfl
      | some n =>
        obtain ⟨n', hn', _⟩ := keyN g g' hI O.nodes.symm i n h
        rw [h'] at hn'; cases hn'
  · apply List.ext_getElem?
    intro i
    rw [List.getElem?_map, List.getElem?_map]
    cases h' : g'.edges[i]? with
    | some e' =>
      obtain ⟨e, he, hw⟩ := keyE g' g hI' O.edges i e' h'
      simp [he, hw]
    | none =>
      cases h : g.edges[i]? with
      | none => rfl
      | some e =>
        obtain ⟨e', he', _⟩ := keyE g g' hI O.edges.symm i e h
        rw [h'] at he'; cases he'

/-- the C01 content of an embedded graph is a function of its weights and endpoints -/
theorem embedGraph_content (g : Raw) :
    (embedGraph g).nodes.map (·.weight) = (g.nodes.map (fun (n : NodeSlot) => n.w)).map (fun o => encW (o.getD 0)) ∧
    (embedGraph g).edges.map GProofs.edgeEnds =
      (g.edges.map skel).map (fun (t : Option Int × Nat × Nat) => (t.2.1, t.2.2, encW (t.1.getD 0))) := by
  simp [embedGraph, embNG, embEG, GProofs.edgeEnds, skel, List.map_map, Function.comp_def]

/-- identical observables of two `Graph`s = identical C01 content of their embeddings -/
theorem sameObs_c01 (g g' : Raw) (hI : GraphInv g) (hI' : GraphInv g') (O : SameObs g g') :
    (embedGraph g').nodes.map (·.weight) = (embedGraph g).nodes.map (·.weight) ∧
    (embedGraph g').edges.map GProofs.edgeEnds = (embedGraph g).edges.map GProofs.edgeEnds := by
  obtain ⟨h1, h2⟩ := sameObs_content g g' hI hI' O
  rw [(embedGraph_content g').1, (embedGraph_content g').2, (embedGraph_content g).1, (embedGraph_content g).2, h1, h2]
  exact ⟨rfl, rfl⟩

end PetgraphModel.SerdeProofs
