import PetgraphModel.Driver.C03
import PetgraphModel.Proofs.GraphMap
import PetgraphModel.Proofs.C03W4Checks
/-
C03 (wave 6) — `from_elements` on an arbitrary element sequence.

* `fromElemsModel`: `data.rs::from_elements_indexable` transcribed on the mirror model (a node element is
  `add_node`; an edge element looks both endpoints up with `from_index` — out of bounds = the `assert!` fires, the
  call panics — and calls `Build::add_edge`);
* `fromElemsGo_model`: the call list the driver computes from the element list ALONE (`C03.fromElemsGo`, positions
  resolved in the list of distinct node weights seen so far) is exactly that loop: panic for panic, state for state,
  for every element list (no side condition);
* `fromElemsDoc`: the reading the documentation of `Element` gives ("nodes are implicitly given the index of their
  appearance in the sequence": position = the i-th NODE ELEMENT) — what the default `FromElements::from_elements`
  does with its `map` vector;  `fromElemsGo_doc`: for distinct node weights both readings are the same calls
  (this is the side condition the driver checks: `nodupB (elemNodes el)`), and `doc_differs_witness`: with a
  repeated node weight they are NOT (positions shift because the repeated node is not inserted again).
-/
namespace PetgraphModel.C03W6
open PetgraphModel PetgraphModel.GM PetgraphModel.GMProofs
open PetgraphModel.C03 (Elem fromElemsGo fromElemsOps elemNodes)

/-- `from_elements_indexable` on the mirror model; `none` = `from_index` panics -/
def fromElemsModel (s : State) : List Elem → Option State
  | [] => some s
  | .node w :: t => fromElemsModel (addNode s w) t
  | .edge i j w :: t =>
    match s.nodes[i]?, s.nodes[j]? with
    | some a, some b => fromElemsModel (buildAddEdge s a.1 b.1 w).1 t
    | _, _ => none

theorem contains_eq_nodesOf (s : State) (n : Nat) : IMap.contains s.nodes n = (nodesOf s).contains n := by
  rw [Bool.eq_iff_iff]
  simp only [IMap.contains, List.contains_iff_mem, nodesOf]
  exact get?_isSome_iff s.nodes n

theorem nodesOf_addNode (s : State) (w : Nat) :
    nodesOf (addNode s w) = if (nodesOf s).contains w then nodesOf s else nodesOf s ++ [w] := by
  unfold addNode
  rw [contains_eq_nodesOf]
  split
  · rfl
  · simp [nodesOf, IMap.keys]

theorem keys_pushAdj_of_mem (nodes : IMap Nat Adj) (a : Nat) (e : Nat × Dir) (h : a ∈ IMap.keys nodes) :
    IMap.keys (pushAdj nodes a e) = IMap.keys nodes := by
  unfold pushAdj
  have := (get?_isSome_iff nodes a).2 h
  cases hg : IMap.get? nodes a with
  | none => rw [hg] at this; cases this
  | some l => simp only [hg] at this ⊢; exact keys_set _ _ _

theorem nodesOf_addEdge_of_mem (s : State) (a b w : Nat) (ha : a ∈ nodesOf s) (hb : b ∈ nodesOf s) :
    nodesOf (addEdge s a b w).1 = nodesOf s := by
  unfold addEdge
  cases hi : IMap.insert s.edges (edgeKey s.directed a b) w with
  | mk edges' old =>
    cases old with
    | some o => rfl
    | none =>
      simp only [nodesOf]
      have h1 : IMap.keys (pushAdj s.nodes a (b, .out)) = IMap.keys s.nodes := keys_pushAdj_of_mem _ _ _ ha
      split
      · rw [keys_pushAdj_of_mem _ _ _ (by rw [h1]; exact hb), h1]
      · exact h1

theorem nodesOf_buildAddEdge_of_mem (s : State) (a b w : Nat) (ha : a ∈ nodesOf s) (hb : b ∈ nodesOf s) :
    nodesOf (buildAddEdge s a b w).1 = nodesOf s := by
  unfold buildAddEdge
  split
  · rfl
  · exact nodesOf_addEdge_of_mem s a b w ha hb

theorem nodesOf_getElem? (s : State) (i : Nat) : (nodesOf s)[i]? = s.nodes[i]?.map (·.1) := by
  simp [nodesOf, IMap.keys]

/-- the driver's call list is the indexable loop on the mirror model: same panic, same final state -/
theorem fromElemsGo_model (s : State) (el : List Elem) :
    (fromElemsGo (nodesOf s) el).map (fun ops => (run s ops).1) = fromElemsModel s el := by
  induction el generalizing s with
  | nil => rfl
  | cons e t ih =>
    cases e with
    | node w =>
      simp only [fromElemsGo, fromElemsModel]
      rw [← nodesOf_addNode, ← ih (addNode s w)]
      simp only [Option.map_map]
      congr 1
    | edge i j w =>
      simp only [fromElemsGo, fromElemsModel, nodesOf_getElem?]
      cases hi : s.nodes[i]? with
      | none => simp
      | some a =>
        cases hj : s.nodes[j]? with
        | none => simp
        | some b =>
          simp only [Option.map_some]
          have ha : a.1 ∈ nodesOf s := by
            have := List.mem_of_getElem? hi
            exact List.mem_map.2 ⟨a, this, rfl⟩
          have hb : b.1 ∈ nodesOf s := by
            have := List.mem_of_getElem? hj
            exact List.mem_map.2 ⟨b, this, rfl⟩
          rw [← ih (buildAddEdge s a.1 b.1 w).1, nodesOf_buildAddEdge_of_mem s a.1 b.1 w ha hb]
          simp only [Option.map_map]
          congr 1

/-- … from any state of the same edge type (the call list starts with the fresh graph) -/
theorem fromElemsOps_model (s : State) (el : List Elem) :
    (fromElemsOps el).map (fun ops => (run s ops).1) = fromElemsModel (State.empty s.directed) el := by
  have h := fromElemsGo_model (State.empty s.directed) el
  rw [← h]
  simp only [fromElemsOps, Option.map_map]
  congr 1

/-! ### the documented reading: position = the i-th node element -/

/-- `map` = the node weights of the node elements so far (the default `FromElements::from_elements`) -/
def fromElemsDoc : List Nat → List Elem → Option (List Op)
  | _, [] => some []
  | map, .node w :: t => (fromElemsDoc (map ++ [w]) t).map (.addNode w :: ·)
  | map, .edge i j w :: t =>
    match map[i]?, map[j]? with
    | some a, some b => (fromElemsDoc map t).map (.buildAddEdge a b w :: ·)
    | _, _ => none

theorem fromElemsGo_doc_aux (seen : List Nat) (el : List Elem) (h : (seen ++ elemNodes el).Nodup) :
    fromElemsGo seen el = fromElemsDoc seen el := by
  induction el generalizing seen with
  | nil => rfl
  | cons e t ih =>
    cases e with
    | node w =>
      simp only [fromElemsGo, fromElemsDoc]
      have hw : w ∉ seen := by
        intro hm
        have := List.nodup_append.1 h
        exact this.2.2 w hm w (by simp [elemNodes]) rfl
      have : seen.contains w = false := by simpa using hw
      rw [this]
      simp only [Bool.false_eq_true, if_false]
      rw [ih (seen ++ [w]) (by simpa [elemNodes, List.append_assoc] using h)]
    | edge i j w =>
      have := ih seen (by simpa [elemNodes] using h)
      simp only [fromElemsGo, fromElemsDoc, this]
      cases seen[i]? <;> cases seen[j]? <;> rfl

/-- for distinct node weights the indexable loop makes the calls the documentation of `Element` describes -/
theorem fromElemsGo_doc (el : List Elem) (h : (elemNodes el).Nodup) : fromElemsGo [] el = fromElemsDoc [] el :=
  fromElemsGo_doc_aux [] el (by simpa using h)

/-- … and with a repeated node weight it does not: node #1 (a second `5`) is not inserted again, so "position 1"
is the `7` and "position 2" the `9`: the edge element `1 → 2` becomes `7 → 9` instead of `5 → 7` -/
theorem doc_differs_witness :
    fromElemsGo [] [.node 5, .node 5, .node 7, .node 9, .edge 1 2 1]
      = some [.addNode 5, .addNode 5, .addNode 7, .addNode 9, .buildAddEdge 7 9 1] ∧
    fromElemsDoc [] [.node 5, .node 5, .node 7, .node 9, .edge 1 2 1]
      = some [.addNode 5, .addNode 5, .addNode 7, .addNode 9, .buildAddEdge 5 7 1] := by
  decide

/-! ### the nodes-first form of waves 1–5 is a special case -/

theorem elemNodes_nodes (ws : List Nat) : elemNodes (ws.map Elem.node) = ws := by
  induction ws with
  | nil => rfl
  | cons w t ih => simp [elemNodes, ih]

theorem fromElemsDoc_nodes (map ws : List Nat) (rest : List Elem) :
    fromElemsDoc map (ws.map Elem.node ++ rest) = (fromElemsDoc (map ++ ws) rest).map (ws.map Op.addNode ++ ·) := by
  induction ws generalizing map with
  | nil => simp
  | cons w t ih =>
    simp only [List.map_cons, List.cons_append, fromElemsDoc]
    rw [ih (map ++ [w])]
    simp [List.append_assoc, Option.map_map, Function.comp_def]

theorem fromElemsDoc_edges (map : List Nat) (es : List (Nat × Nat × Nat))
    (h : ∀ e ∈ es, e.1 < map.length ∧ e.2.1 < map.length) :
    fromElemsDoc map (es.map fun e => Elem.edge e.1 e.2.1 e.2.2) =
      some (es.filterMap fun e => match map[e.1]?, map[e.2.1]? with
        | some a, some b => some (Op.buildAddEdge a b e.2.2)
        | _, _ => none) := by
  induction es with
  | nil => rfl
  | cons e t ih =>
    have he := h e (by simp)
    have ht := ih (fun x hx => h x (by simp [hx]))
    simp only [List.map_cons, fromElemsDoc, List.filterMap_cons]
    rw [List.getElem?_eq_getElem he.1, List.getElem?_eq_getElem he.2]
    simp only [ht, Option.map_some]

theorem elemNodes_append (a b : List Elem) : elemNodes (a ++ b) = elemNodes a ++ elemNodes b := by
  induction a with
  | nil => rfl
  | cons e t ih => cases e <;> simp [elemNodes, ih]

theorem elemNodes_edges (es : List (Nat × Nat × Nat)) :
    elemNodes (es.map fun e => Elem.edge e.1 e.2.1 e.2.2) = [] := by
  induction es with
  | nil => rfl
  | cons e t ih => simp [elemNodes, ih]

/-- all node elements first, distinct weights, valid positions: the call list of waves 1–5 (`fromElementsOps`) -/
theorem fromElemsOps_nodes_first (ws : List Nat) (es : List (Nat × Nat × Nat)) (hn : ws.Nodup)
    (h : ∀ e ∈ es, e.1 < ws.length ∧ e.2.1 < ws.length) :
    fromElemsOps (ws.map Elem.node ++ es.map fun e => Elem.edge e.1 e.2.1 e.2.2) = some (C03.fromElementsOps ws es) := by
  unfold fromElemsOps
  rw [fromElemsGo_doc _ (by rw [elemNodes_append, elemNodes_nodes, elemNodes_edges]; simpa using hn),
    fromElemsDoc_nodes, List.nil_append, fromElemsDoc_edges ws es h]
  simp only [Option.map_some, C03.fromElementsOps, Option.some.injEq, List.cons.injEq, true_and,
    List.append_cancel_left_eq]
  congr 1

/-! ### the `law` / `instances` lines never move the machines and have one acceptable answer -/

theorem law_line (d : C03.DState) (r : List String) (impl : String) :
    (C03.step d ("law" :: r) impl).1 = d ∧
    (impl = "ok" → (C03.step d ("law" :: r) impl).2 = "ok") ∧
    (impl ≠ "ok" → ∃ why, (C03.step d ("law" :: r) impl).2 = C03.verdict (some why) "ok" impl) := by
  refine ⟨rfl, ?_, ?_⟩
  · intro h; subst h; rfl
  · intro h
    have hb : (impl == "ok") = false := by simpa using h
    refine ⟨s!"law violated [{String.intercalate " " ("law" :: r)}]: {impl}", ?_⟩
    show C03.verdict (if impl == "ok" then none else some _) "ok" impl = _
    rw [hb]; rfl

theorem instances_line (d : C03.DState) (impl : String) :
    C03.step d ["instances"] impl = (d, cmpExact "same" impl) := rfl

end PetgraphModel.C03W6
