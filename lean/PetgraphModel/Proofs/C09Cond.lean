import PetgraphModel.Proofs.C09Kosaraju
/-
`condensation(g, false)` (mirror model): one node per strongly connected component holding exactly its
members, and every original edge mapped to its components — on top of `kosaraju_spec`.
Core Lean only.
-/
namespace PetgraphModel.C09P
open PetgraphModel PetgraphModel.MGraph PetgraphModel.C09J PetgraphModel.C09M PetgraphModel.Trav

theorem flatten_nodup_disjoint : ∀ (L : List (List Nat)), L.flatten.Nodup → ∀ (j i : Nat) (hj : j < L.length)
    (hi : i < L.length), j < i → ∀ x, x ∈ L[j] → x ∈ L[i] → False := by
  intro L
  induction L with
  | nil => intro _ j i hj; simp at hj
  | cons c L' ih =>
    intro hnd j i hj hi hji x hxj hxi
    rw [List.flatten_cons] at hnd
    have hnd' := List.nodup_append.mp hnd
    cases i with
    | zero => omega
    | succ i' =>
      have hi' : i' < L'.length := by simpa using hi
      have hxi' : x ∈ L'[i'] := by simpa using hxi
      cases j with
      | zero =>
        have hxc : x ∈ c := by simpa using hxj
        exact hnd'.2.2 x hxc x (List.mem_flatten.mpr ⟨_, List.getElem_mem hi', hxi'⟩) rfl
      | succ j' =>
        have hj' : j' < L'.length := by simpa using hj
        have hxj' : x ∈ L'[j'] := by simpa using hxj
        exact ih hnd'.2.1 j' i' hj' hi' (by omega) x hxj' hxi'

theorem compOf_of_mem {g : MGraph} {sccs : List (List Nat)} (hs : SccSpec g sccs) {ci : Nat}
    (h : ci < sccs.length) {x : Nat} (hx : x ∈ sccs[ci]) : compOf sccs x = ci := by
  unfold compOf
  rw [List.findIdx_eq h]
  refine ⟨by simpa using hx, ?_⟩
  intro j hji
  apply Classical.byContradiction
  intro hc
  have hxj : x ∈ sccs[j] := by simpa using hc
  exact flatten_nodup_disjoint sccs hs.nodup j ci (by omega) h hji x hxj hx

theorem compOf_lt {g : MGraph} {sccs : List (List Nat)} (hs : SccSpec g sccs) {x : Nat} (hx : x ∈ g.nodes) :
    ∃ h : compOf sccs x < sccs.length, x ∈ sccs[compOf sccs x] := by
  obtain ⟨c, hc, hxc⟩ := List.mem_flatten.mp ((hs.cover x).mpr hx)
  have hlt : List.findIdx (fun c => c.contains x) sccs < sccs.length :=
    List.findIdx_lt_length.mpr ⟨c, hc, by simpa using hxc⟩
  refine ⟨hlt, ?_⟩
  have := @List.findIdx_getElem _ (fun c => c.contains x) sccs hlt
  have h2 : x ∈ sccs[List.findIdx (fun c => c.contains x) sccs] := by simpa using this
  exact h2

/-- the members of condensed node `ci` -/
def condNode (v : View) (sccs : List (List Nat)) (ci : Nat) : List Nat :=
  v.g.nodes.filter fun x => compOf sccs x == ci

theorem mem_condNode_iff {v : View} {sccs : List (List Nat)} (hs : SccSpec v.g sccs) {ci : Nat}
    (h : ci < sccs.length) (x : Nat) : x ∈ condNode v sccs ci ↔ x ∈ sccs[ci] := by
  unfold condNode
  rw [List.mem_filter]
  constructor
  · rintro ⟨hx, hc⟩
    have hc' : compOf sccs x = ci := by simpa using hc
    obtain ⟨hlt, hmem⟩ := compOf_lt hs hx
    subst hc'
    exact hmem
  · intro hx
    have hxn : x ∈ v.g.nodes := (hs.cover x).mp (List.mem_flatten.mpr ⟨_, List.getElem_mem h, hx⟩)
    exact ⟨hxn, by simpa using compOf_of_mem hs h hx⟩

theorem nodup_flatMap_filter (l : List Nat) (hl : l.Nodup) (f : Nat → Nat) : ∀ (ks : List Nat), ks.Nodup →
    (ks.map fun ci => l.filter fun x => f x == ci).flatten.Nodup := by
  intro ks
  induction ks with
  | nil => intro _; simp
  | cons k ks ih =>
    intro hnd
    have hnd' := List.nodup_cons.mp hnd
    rw [List.map_cons, List.flatten_cons]
    refine List.nodup_append.mpr ⟨(List.filter_sublist).nodup hl, ih hnd'.2, ?_⟩
    intro a ha b hb hab
    subst hab
    have hak : f a = k := by simpa using (List.mem_filter.mp ha).2
    obtain ⟨c, hc, hac⟩ := List.mem_flatten.mp hb
    obtain ⟨ci, hci, rfl⟩ := List.mem_map.mp hc
    have : f a = ci := by simpa using (List.mem_filter.mp hac).2
    exact hnd'.1 (hak ▸ this ▸ hci)

theorem condNodes_part {v : View} (hwf : v.g.WellFormed) {sccs : List (List Nat)} (hs : SccSpec v.g sccs) :
    PartSpec v.g ((List.range sccs.length).map (condNode v sccs)) := by
  refine ⟨?_, ?_, ?_, ?_⟩
  · intro c hc
    obtain ⟨ci, hci, rfl⟩ := List.mem_map.mp hc
    have hlt : ci < sccs.length := List.mem_range.mp hci
    have hne := hs.nonempty _ (List.getElem_mem hlt)
    obtain ⟨x, hx⟩ := List.exists_mem_of_ne_nil _ hne
    exact List.ne_nil_of_mem ((mem_condNode_iff hs hlt x).mpr hx)
  · exact nodup_flatMap_filter v.g.nodes hwf.1 (compOf sccs) _ List.nodup_range
  · intro x
    rw [List.mem_flatten]
    constructor
    · rintro ⟨c, hc, hxc⟩
      obtain ⟨ci, _, rfl⟩ := List.mem_map.mp hc
      exact (List.mem_filter.mp hxc).1
    · intro hx
      obtain ⟨hlt, _⟩ := compOf_lt hs hx
      exact ⟨_, List.mem_map.mpr ⟨compOf sccs x, List.mem_range.mpr hlt, rfl⟩,
        List.mem_filter.mpr ⟨hx, by simp⟩⟩
  · intro c hc x hx y
    obtain ⟨ci, hci, rfl⟩ := List.mem_map.mp hc
    have hlt : ci < sccs.length := List.mem_range.mp hci
    rw [mem_condNode_iff hs hlt] at hx ⊢
    exact hs.classes _ (List.getElem_mem hlt) x hx y

theorem compIdx_condNodes {v : View} {sccs : List (List Nat)} (hs : SccSpec v.g sccs) {x : Nat}
    (hx : x ∈ v.g.nodes) :
    compIdx ((List.range sccs.length).map (condNode v sccs)) x = compOf sccs x := by
  obtain ⟨hlt, _⟩ := compOf_lt hs hx
  unfold compIdx
  rw [List.findIdx_eq (by simpa using hlt)]
  constructor
  · simp only [List.getElem_map, List.getElem_range]
    have : x ∈ condNode v sccs (compOf sccs x) := List.mem_filter.mpr ⟨hx, by simp⟩
    simpa using this
  · intro j hj
    simp only [List.getElem_map, List.getElem_range]
    have : x ∉ condNode v sccs j := by
      intro hmem
      have : compOf sccs x = j := by simpa using (List.mem_filter.mp hmem).2
      omega
    simpa using this

theorem condEdge_fold (v : View) (comp : Nat → Nat) : ∀ (l : List Nat) (es : List (Nat × Nat × Int)),
    l.foldl (condEdgeStep v comp false) es =
      es ++ (l.filterMap v.edge?).map fun e => (comp e.src, comp e.tgt, e.w) := by
  intro l
  induction l with
  | nil => intro es; simp
  | cons k l ih =>
    intro es
    rw [List.foldl_cons, ih]
    unfold condEdgeStep
    cases hek : v.edge? k with
    | none => simp [hek]
    | some e => simp [hek]

/-- **`condensation(g, false)`** (mirror model, on top of `kosaraju_spec`; `eo` enumerates the edges):
one node per class of mutual reachability holding exactly its members, and the edges are exactly the
original edges mapped to their components. -/
theorem condensation_spec (v : View) (hv : ViewOk v) (hp : ∀ a b, b ∈ v.pred a ↔ v.g.Adj b a)
    (hwf : v.g.WellFormed) (eo : List Nat) (heo : (eo.filterMap v.edge?).Perm v.g.edges) (c : Cond)
    (h : condensation v eo false = some c) : CondSpec v.g c.nodes c.edges := by
  unfold condensation at h
  cases hk : kosaraju v with
  | none => rw [hk] at h; cases h
  | some sccs =>
    rw [hk] at h
    cases h
    have hs := kosaraju_spec v hv hp hwf sccs hk
    have hnodes : ((List.range sccs.length).map fun ci => v.g.nodes.filter fun x => compOf sccs x == ci) =
        (List.range sccs.length).map (condNode v sccs) := rfl
    refine ⟨?_, ?_⟩
    · show PartSpec v.g ((List.range sccs.length).map fun ci => v.g.nodes.filter fun x => compOf sccs x == ci)
      rw [hnodes]
      exact condNodes_part hwf hs
    · show (v.g.edges.map fun e => normE v.g.directed (mapE _ e)).Perm
        ((eo.foldl (condEdgeStep v (compOf sccs) false) []).map (normE v.g.directed))
      rw [condEdge_fold, List.nil_append, hnodes]
      have hmap : (eo.filterMap v.edge?).map (fun e => (compOf sccs e.src, compOf sccs e.tgt, e.w)) =
          (eo.filterMap v.edge?).map (mapE ((List.range sccs.length).map (condNode v sccs))) := by
        apply List.map_congr_left
        intro e he
        have heg : e ∈ v.g.edges := heo.subset he
        unfold mapE
        rw [compIdx_condNodes hs (hwf.2 e heg).1, compIdx_condNodes hs (hwf.2 e heg).2]
      rw [hmap, List.map_map]
      have := (heo.map (fun e => normE v.g.directed (mapE ((List.range sccs.length).map (condNode v sccs)) e))).symm
      exact this

end PetgraphModel.C09P
