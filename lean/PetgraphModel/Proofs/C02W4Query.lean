import PetgraphModel.Model.C02W4Calls
import PetgraphModel.Proofs.C02W4Lists
import PetgraphModel.Proofs.StableGraphQuery
import PetgraphModel.Proofs.StableGraphHistory
/-
C02 wave 4, part 2: every query of the mirror model answers what the reference multigraph `abs s` admits
(`SpecQuery (abs s) q out`) — the adjacency iterators included, through `abs`, not through model-side projections.
-/
namespace PetgraphModel.SGProofs
open PetgraphModel PetgraphModel.SG PetgraphModel.SGSpec

theorem abs_edge_eq (s : State) (e : Nat) : (abs s).edge e = (s.edges[e]?).bind absEdge := by
  unfold Spec.edge
  rw [abs_edges, List.getElem?_map]
  cases s.edges[e]? <;> simp

/-- both endpoints of a live edge are live nodes (and therefore valid indices) -/
theorem endpoints_live {s : State} (hinv : Inv s) {e : Nat} {x : Edge} (hx : s.edges[e]? = some x) (hl : x.w.isSome) :
    (nodeWeight s x.a).isSome ∧ (nodeWeight s x.b).isSome ∧ x.a < s.fin ∧ x.b < s.fin := by
  obtain ⟨n0, hn0, hact0⟩ := hinv.endp e x hx hl 0 (by omega)
  obtain ⟨n1, hn1, hact1⟩ := hinv.endp e x hx hl 1 (by omega)
  simp only [Edge.node, if_true] at hn0 hact0
  have e1 : x.node 1 = x.b := by simp [Edge.node]
  rw [e1] at hn1 hact1
  have l0 := (List.getElem?_eq_some_iff.1 hn0).1
  have l1 := (List.getElem?_eq_some_iff.1 hn1).1
  have := hinv.lenN
  refine ⟨?_, ?_, by omega, by omega⟩
  · unfold nodeWeight; rw [hn0]
    rcases hact0 with h | h
    · exact h
    · cases h
  · unfold nodeWeight; rw [hn1]
    rcases hact1 with h | h
    · exact h
    · cases h

/-- the incoming-side item of the modes that walk BOTH lists: an edge whose source is `a` has been reported from the outgoing
list already -/
def incIn' (a : Nat) (id : Nat) (e : SEdge) : Option IncItem := if e.a = a then none else incItem a .inn id e

theorem incItem_out_some {a id : Nat} {x : SEdge} (h : (incItem a .out id x).isSome) : x.a = a := by
  by_cases hx : x.a = a
  · exact hx
  · simp [incItem, hx] at h

theorem incItem_inn_some {a id : Nat} {x : SEdge} (h : (incItem a .inn id x).isSome) : x.b = a := by
  by_cases hx : x.b = a
  · exact hx
  · simp [incItem, hx] at h

theorem incIn'_some {a id : Nat} {x : SEdge} (h : (incIn' a id x).isSome) : x.b = a := by
  unfold incIn' at h
  split at h
  · simp at h
  · exact incItem_inn_some h

namespace AdjLists
variable {s : State} {a : Nat} {l0 l1 : List Nat}

theorem facts0 (h : AdjLists s a l0 l1) {e : Nat} (he : e ∈ l0) :
    ∃ x w, s.edges[e]? = some x ∧ x.w = some w ∧ x.a = a ∧ (abs s).edge e = some ⟨a, x.b, w⟩ := by
  obtain ⟨_, x, hx, hl, ha⟩ := (h.m0 e).1 he
  obtain ⟨w, hw⟩ := Option.isSome_iff_exists.1 hl
  exact ⟨x, w, hx, hw, ha, by rw [abs_edge_some hx hw, ha]⟩

theorem facts1 (h : AdjLists s a l0 l1) (hinv : Inv s) {e : Nat} (he : e ∈ l1) :
    ∃ x w, s.edges[e]? = some x ∧ x.w = some w ∧ x.b = a ∧ (abs s).edge e = some ⟨x.a, a, w⟩ ∧ x.a ≠ s.fin := by
  obtain ⟨_, x, hx, hl, hb⟩ := (h.m1 e).1 he
  obtain ⟨w, hw⟩ := Option.isSome_iff_exists.1 hl
  have := (endpoints_live hinv hx hl).2.2.1
  exact ⟨x, w, hx, hw, hb, by rw [abs_edge_some hx hw, hb], by omega⟩

/-- coverage of the outgoing list -/
theorem cover0 (h : AdjLists s a l0 l1) (hinv : Inv s) {e : Nat} {x : SEdge} (hx : (abs s).edge e = some x) (ha : x.a = a) :
    e ∈ l0 := by
  obtain ⟨xe, hxe, hw, hxa, _⟩ := abs_edge_rev hx
  have hl : xe.w.isSome := by rw [hw]; rfl
  have := (endpoints_live hinv hxe hl).1
  exact (h.m0 e).2 ⟨by rw [hxa, ha] at this; exact this, xe, hxe, hl, by rw [hxa]; exact ha⟩

theorem cover1 (h : AdjLists s a l0 l1) (hinv : Inv s) {e : Nat} {x : SEdge} (hx : (abs s).edge e = some x) (hb : x.b = a) :
    e ∈ l1 := by
  obtain ⟨xe, hxe, hw, _, hxb⟩ := abs_edge_rev hx
  have hl : xe.w.isSome := by rw [hw]; rfl
  have := (endpoints_live hinv hxe hl).2.1
  exact (h.m1 e).2 ⟨by rw [hxb, hb] at this; exact this, xe, hxe, hl, by rw [hxb]; exact hb⟩

/-- the model-side item lists, through `abs` -/
def raw0 (s : State) (a : Nat) (l0 : List Nat) : List IncItem := l0.filterMap fun e => ((abs s).edge e).bind (incItem a .out e)
def raw1 (s : State) (a : Nat) (l1 : List Nat) : List IncItem := l1.filterMap fun e => ((abs s).edge e).bind (incItem a .inn e)
def raw1' (s : State) (a : Nat) (l1 : List Nat) : List IncItem := l1.filterMap fun e => ((abs s).edge e).bind (incIn' a e)

theorem perm_out (h : AdjLists s a l0 l1) (hinv : Inv s) : (raw0 s a l0).Perm ((abs s).incRaw a .out) := by
  unfold raw0 Spec.incRaw
  exact edgeRefs_filterMap_perm (abs s) (incItem a .out) h.c0.nodup fun e x hx hs => h.cover0 hinv hx (incItem_out_some hs)

theorem perm_inn (h : AdjLists s a l0 l1) (hinv : Inv s) : (raw1 s a l1).Perm ((abs s).incRaw a .inn) := by
  unfold raw1 Spec.incRaw
  exact edgeRefs_filterMap_perm (abs s) (incItem a .inn) h.c1.nodup fun e x hx hs => h.cover1 hinv hx (incItem_inn_some hs)

theorem perm_both (h : AdjLists s a l0 l1) (hinv : Inv s) : (raw0 s a l0 ++ raw1' s a l1).Perm ((abs s).incRaw a .both) := by
  have hsplit : ((abs s).incRaw a .both).Perm
      (((abs s).edgeRefs.filterMap fun p => incItem a .out p.1 p.2) ++ ((abs s).edgeRefs.filterMap fun p => incIn' a p.1 p.2)) := by
    unfold Spec.incRaw
    apply filterMap_split_perm
    intro p _
    unfold incItem incIn' incItem
    by_cases h1 : p.2.a = a
    · left; simp [h1]
    · right; simp [h1]
  refine (List.Perm.append (h.perm_out hinv) ?_).trans hsplit.symm
  unfold raw1'
  exact edgeRefs_filterMap_perm (abs s) (incIn' a) h.c1.nodup fun e x hx hs => h.cover1 hinv hx (incIn'_some hs)

/-! #### the items of the three iterators as images of the raw items -/

theorem nb0 (h : AdjLists s a l0 l1) : l0.filterMap (nbOut s.edges) = (raw0 s a l0).map IncItem.other := by
  unfold raw0
  rw [List.map_filterMap]
  apply filterMap_congr'
  intro e he
  obtain ⟨x, w, hx, hw, ha, habs⟩ := h.facts0 he
  simp [nbOut, hx, habs, incItem, IncItem.other]

theorem nb1 (h : AdjLists s a l0 l1) (hinv : Inv s) : l1.filterMap (nbIn s.edges s.fin) = (raw1 s a l1).map IncItem.other := by
  unfold raw1
  rw [List.map_filterMap]
  apply filterMap_congr'
  intro e he
  obtain ⟨x, w, hx, hw, hb, habs, hne⟩ := h.facts1 hinv he
  simp [nbIn, hx, habs, incItem, IncItem.other, hne]

theorem nb1' (h : AdjLists s a l0 l1) (hinv : Inv s) : l1.filterMap (nbIn s.edges a) = (raw1' s a l1).map IncItem.other := by
  unfold raw1'
  rw [List.map_filterMap]
  apply filterMap_congr'
  intro e he
  obtain ⟨x, w, hx, hw, hb, habs, hne⟩ := h.facts1 hinv he
  by_cases hxa : x.a = a
  · simp [nbIn, hx, habs, incIn', hxa]
  · simp [nbIn, hx, habs, incIn', incItem, IncItem.other, hxa]

theorem wk0 (h : AdjLists s a l0 l1) : l0.filterMap (wkOut s.edges) = (raw0 s a l0).map fun it => (it.1, it.other) := by
  unfold raw0
  rw [List.map_filterMap]
  apply filterMap_congr'
  intro e he
  obtain ⟨x, w, hx, hw, ha, habs⟩ := h.facts0 he
  simp [wkOut, hx, habs, incItem, IncItem.other]

theorem wk1 (h : AdjLists s a l0 l1) (hinv : Inv s) :
    l1.filterMap (wkIn s.edges s.fin) = (raw1 s a l1).map fun it => (it.1, it.other) := by
  unfold raw1
  rw [List.map_filterMap]
  apply filterMap_congr'
  intro e he
  obtain ⟨x, w, hx, hw, hb, habs, hne⟩ := h.facts1 hinv he
  simp [wkIn, hx, habs, incItem, IncItem.other, hne]

theorem wk1' (h : AdjLists s a l0 l1) (hinv : Inv s) :
    l1.filterMap (wkIn s.edges a) = (raw1' s a l1).map fun it => (it.1, it.other) := by
  unfold raw1'
  rw [List.map_filterMap]
  apply filterMap_congr'
  intro e he
  obtain ⟨x, w, hx, hw, hb, habs, hne⟩ := h.facts1 hinv he
  by_cases hxa : x.a = a
  · simp [wkIn, hx, habs, incIn', hxa]
  · simp [wkIn, hx, habs, incIn', incItem, IncItem.other, hxa]

/-- the orientation of an `Edges` item in the reference -/
def orient (directed : Bool) (a : Nat) (dirIn : Bool) (it : IncItem) : ERefT :=
  if directed then (it.1, it.2.1.a, it.2.1.b, it.2.1.w)
  else if dirIn then (it.1, it.other, a, it.2.1.w) else (it.1, a, it.other, it.2.1.w)

theorem er0 (h : AdjLists s a l0 l1) (directed dirIn : Bool) :
    (l0.filterMap (erOut s.edges directed dirIn)).map erefT = (raw0 s a l0).map (orient directed a dirIn) := by
  unfold raw0
  rw [List.map_filterMap, List.map_filterMap]
  apply filterMap_congr'
  intro e he
  obtain ⟨x, w, hx, hw, ha, habs⟩ := h.facts0 he
  cases directed <;> cases dirIn <;> simp [erOut, hx, hw, habs, incItem, IncItem.other, orient, erefT, ha]

theorem er1 (h : AdjLists s a l0 l1) (hinv : Inv s) :
    (l1.filterMap (erIn s.edges true true a)).map erefT = (raw1 s a l1).map (orient true a true) := by
  unfold raw1
  rw [List.map_filterMap, List.map_filterMap]
  apply filterMap_congr'
  intro e he
  obtain ⟨x, w, hx, hw, hb, habs, hne⟩ := h.facts1 hinv he
  simp [erIn, hx, hw, habs, incItem, orient, erefT, hb]

theorem er1' (h : AdjLists s a l0 l1) (hinv : Inv s) (dirIn : Bool) :
    (l1.filterMap (erIn s.edges false dirIn a)).map erefT = (raw1' s a l1).map (orient false a dirIn) := by
  unfold raw1'
  rw [List.map_filterMap, List.map_filterMap]
  apply filterMap_congr'
  intro e he
  obtain ⟨x, w, hx, hw, hb, habs, hne⟩ := h.facts1 hinv he
  by_cases hxa : x.a = a
  · simp [erIn, hx, habs, incIn', hxa]
  · cases dirIn <;> simp [erIn, hx, hw, habs, incIn', incItem, IncItem.other, orient, erefT, hxa, hb]

end AdjLists

/-- the model-side raw items of mode `m` -/
def rawOf (s : State) (a : Nat) (l0 l1 : List Nat) : Mode → List IncItem
  | .out => AdjLists.raw0 s a l0
  | .inn => AdjLists.raw1 s a l1
  | .both => AdjLists.raw0 s a l0 ++ AdjLists.raw1' s a l1

theorem rawOf_perm {s : State} {a : Nat} {l0 l1 : List Nat} (h : AdjLists s a l0 l1) (hinv : Inv s) (m : Mode) :
    (rawOf s a l0 l1 m).Perm ((abs s).incRaw a m) := by
  cases m
  · exact h.perm_out hinv
  · exact h.perm_inn hinv
  · exact h.perm_both hinv

theorem abs_directed (s : State) : (abs s).directed = s.directed := rfl

/-- `neighbors_directed(a, k)`, `k ∈ {0, 1}`, and `neighbors_undirected(a)` (`k = 2`) -/
theorem neighbors_refines {s : State} (hinv : Inv s) (a : Nat) :
    (∃ l, neighborsDirected s a 0 = .ok l ∧ l.Perm ((abs s).neighborsOf a 0)) ∧
    (∃ l, neighborsDirected s a 1 = .ok l ∧ l.Perm ((abs s).neighborsOf a 1)) ∧
    (∃ l, neighborsUndirected s a = .ok l ∧ l.Perm ((abs s).neighborsOf a 2)) := by
  obtain ⟨l0, l1, h⟩ := adjLists_exist hinv a
  have hboth : (l0.filterMap (nbOut s.edges) ++ l1.filterMap (nbIn s.edges a)).Perm
      (((abs s).incRaw a .both).map IncItem.other) := by
    rw [h.nb0, h.nb1' hinv, ← List.map_append]
    exact (rawOf_perm h hinv .both).map _
  obtain ⟨h0, h1⟩ := neighborsDirected_spec hinv h
  refine ⟨⟨_, h0, ?_⟩, ⟨_, h1, ?_⟩, ⟨_, neighborsUndirected_spec hinv h, ?_⟩⟩
  · unfold Spec.neighborsOf Spec.modeOf
    rw [abs_directed]
    cases hd : s.directed
    · simpa using hboth
    · simp only [if_true]
      rw [h.nb0]; exact (rawOf_perm h hinv .out).map _
  · unfold Spec.neighborsOf Spec.modeOf
    rw [abs_directed]
    cases hd : s.directed
    · simpa using hboth
    · simp only [if_true]
      rw [h.nb1 hinv]; exact (rawOf_perm h hinv .inn).map _
  · unfold Spec.neighborsOf Spec.modeOf
    rw [abs_directed]
    cases hd : s.directed <;> simpa using hboth

theorem walker_refines {s : State} (hinv : Inv s) (a k : Nat) :
    ∃ l, walker s a k = .ok l ∧ l.Perm ((abs s).walkOf a k) := by
  obtain ⟨l0, l1, h⟩ := adjLists_exist hinv a
  have hboth : (l0.filterMap (wkOut s.edges) ++ l1.filterMap (wkIn s.edges a)).Perm
      (((abs s).incRaw a .both).map fun it => (it.1, it.other)) := by
    rw [h.wk0, h.wk1' hinv, ← List.map_append]
    exact (rawOf_perm h hinv .both).map _
  refine ⟨_, walker_spec hinv h k, ?_⟩
  unfold Spec.walkOf Spec.modeOf
  rw [abs_directed]
  cases hd : s.directed
  · simpa using hboth
  · rcases k with _ | _ | n
    · have e1 : (true && decide (0 < 2)) = true := by decide
      simp only [e1, if_true]
      rw [h.wk0]; exact (rawOf_perm h hinv .out).map _
    · have e1 : (true && decide (0 + 1 < 2)) = true := by decide
      have e2 : (if (0 + 1 : Nat) = 0 then Mode.out else if (0 + 1 : Nat) = 1 then Mode.inn else Mode.both) = Mode.inn := by decide
      simp only [e1, if_true, e2, show ¬ ((0 + 1 : Nat) = 0) by omega, if_false]
      rw [h.wk1 hinv]; exact (rawOf_perm h hinv .inn).map _
    · have e1 : (true && decide (n + 1 + 1 < 2)) = false := by simp
      have e2 : (if (n + 1 + 1 : Nat) = 0 then Mode.out else if (n + 1 + 1 : Nat) = 1 then Mode.inn else Mode.both) = Mode.both := by
        simp
      simp only [e1, Bool.false_eq_true, if_false, if_true, e2]
      exact hboth

theorem edgesOf_eq (sp : Spec) (a : Nat) (dirIn : Bool) :
    sp.edgesOf a dirIn = (sp.incRaw a (sp.modeOf (dirK dirIn))).map (AdjLists.orient sp.directed a dirIn) := rfl

theorem edgesDirected_refines {s : State} (hinv : Inv s) (a : Nat) (dirIn : Bool) :
    ∃ l, edgesDirected s a dirIn = .ok l ∧ (l.map erefT).Perm ((abs s).edgesOf a dirIn) := by
  obtain ⟨l0, l1, h⟩ := adjLists_exist hinv a
  refine ⟨_, edgesDirected_spec hinv h dirIn, ?_⟩
  rw [edgesOf_eq]
  unfold Spec.modeOf dirK
  rw [abs_directed]
  cases hd : s.directed
  · simp only [Bool.false_eq_true, if_false, List.map_append]
    rw [h.er0, h.er1' hinv, ← List.map_append]
    exact (rawOf_perm h hinv .both).map _
  · cases dirIn
    · simp only [if_true, Bool.false_eq_true, if_false]
      rw [h.er0]; exact (rawOf_perm h hinv .out).map _
    · simp only [if_true, Nat.succ_ne_self, if_false]
      rw [h.er1 hinv]; exact (rawOf_perm h hinv .inn).map _

/-! ### `edges_connecting` -/

theorem connecting_eq (sp : Spec) (a b : Nat) :
    (sp.edgesOf a false).filter (fun r => r.2.2.1 == b) = sp.connecting a b := by
  unfold Spec.edgesOf Spec.connecting Spec.incRaw Spec.modeOf dirK
  rw [List.map_filterMap, List.filter_filterMap, ← List.filterMap_eq_filter, List.map_filterMap]
  apply filterMap_congr'
  intro p _
  unfold Spec.connects incItem IncItem.other Option.guard
  cases hd : sp.directed <;> by_cases h1 : p.2.a = a <;> by_cases h2 : p.2.b = b <;> by_cases h3 : p.2.b = a <;>
    by_cases h4 : p.2.a = b <;> simp [h1, h2, h3, h4, Option.filter] <;> grind

theorem edgesConnecting_refines {s : State} (hinv : Inv s) (a b : Nat) :
    ∃ l, edgesConnecting s a b = .ok l ∧ (l.map erefT).Perm ((abs s).connecting a b) := by
  obtain ⟨l, hl, hp⟩ := edgesDirected_refines hinv a false
  refine ⟨l.filter (fun r => r.b == b), by simp [edgesConnecting, hl], ?_⟩
  rw [← connecting_eq]
  have : (l.filter (fun r => r.b == b)).map erefT = (l.map erefT).filter (fun r => r.2.2.1 == b) := by
    rw [List.filter_map]; rfl
  rw [this]
  exact hp.filter _

/-! ### `externals` -/

theorem externalsFrom_ge (directed : Bool) (fin k : Nat) (ns : List Node) : ∀ o, ∀ i ∈ externalsFrom directed fin k ns o, o ≤ i := by
  induction ns with
  | nil => intro o i hi; simp [externalsFrom] at hi
  | cons n t ih =>
    intro o i hi
    simp only [externalsFrom] at hi
    split at hi
    · rcases List.mem_cons.1 hi with rfl | hi
      · exact Nat.le_refl _
      · have := ih (o + 1) i hi; omega
    · have := ih (o + 1) i hi; omega

theorem externalsFrom_sorted (directed : Bool) (fin k : Nat) (ns : List Node) :
    ∀ o, (externalsFrom directed fin k ns o).Pairwise (· < ·) := by
  induction ns with
  | nil => intro o; simp [externalsFrom]
  | cons n t ih =>
    intro o
    simp only [externalsFrom]
    split
    · rw [List.pairwise_cons]
      exact ⟨fun i hi => by have := externalsFrom_ge directed fin k t (o + 1) i hi; omega, ih (o + 1)⟩
    · exact ih (o + 1)

theorem incRaw_nil_iff (sp : Spec) (i : Nat) (m : Mode) :
    sp.incRaw i m = [] ↔ ∀ e x, sp.edge e = some x → incItem i m e x = none := by
  unfold Spec.incRaw
  rw [List.filterMap_eq_nil_iff]
  constructor
  · intro h e x hx; exact h (e, x) ((mem_edgeRefs sp e x).2 hx)
  · intro h p hp; exact h p.1 p.2 ((mem_edgeRefs sp p.1 p.2).1 hp)

theorem externals_refines {s : State} (hinv : Inv s) (dirIn : Bool) :
    (externals s (dirK dirIn)).Perm ((abs s).externalsOf dirIn) := by
  have hk : dirK dirIn < 2 := by unfold dirK; split <;> omega
  refine (List.perm_ext_iff_of_nodup (l₁ := externals s (dirK dirIn)) (l₂ := (abs s).externalsOf dirIn)
    (nodup_of_pairwise_lt (externalsFrom_sorted _ _ _ _ _)) (nodup_filter _ (nodeIds_nodup _))).2 ?_
  intro i
  rw [externals_spec hinv _ hk i]
  unfold Spec.externalsOf
  simp only [List.mem_filter, List.isEmpty_iff, mem_nodeIds]
  rw [incRaw_nil_iff]
  have hlive : (nodeWeight s i).isSome = (abs s).nodeLive i := by unfold Spec.nodeLive; rw [abs_node]
  rw [hlive]
  apply and_congr_right
  intro _
  unfold Spec.modeOf
  rw [abs_directed]
  -- both sides: no live edge touches `i` on the relevant side(s)
  constructor
  · rintro ⟨h1, h2⟩ e x hx
    obtain ⟨xe, hxe, hw, hxa, hxb⟩ := abs_edge_rev hx
    have hl : xe.w.isSome := by rw [hw]; rfl
    have g1 := h1 e xe hxe hl
    cases hd : s.directed
    · have g2 := h2 hd e xe hxe hl
      cases dirIn <;> simp [dirK, Edge.node] at g1 g2 <;> simp [incItem, ← hxa, ← hxb, g1, g2]
    · cases dirIn <;> simp [dirK, Edge.node] at g1 <;> simp [incItem, dirK, ← hxa, ← hxb, g1]
  · intro h
    refine ⟨fun e xe hxe hl => ?_, fun hd e xe hxe hl => ?_⟩
    · obtain ⟨w, hw⟩ := Option.isSome_iff_exists.1 hl
      have := h e _ (abs_edge_some hxe hw)
      cases hd : s.directed <;> cases dirIn <;> simp [hd, dirK, incItem] at this <;> simp [dirK, Edge.node] <;> grind
    · obtain ⟨w, hw⟩ := Option.isSome_iff_exists.1 hl
      have := h e _ (abs_edge_some hxe hw)
      cases dirIn <;> simp [hd, dirK, incItem] at this <;> simp [dirK, Edge.node] <;> grind

/-! ### `find_edge`, `find_edge_undirected` -/

theorem findEdge_refines {s : State} (hinv : Inv s) (a b : Nat) :
    ∃ r, findEdge s a b = .ok r ∧ SpecQuery (abs s) (.findEdge a b) (.optNat r) ∧
      SpecQuery (abs s) (.containsEdge a b) (.bool r.isSome) := by
  obtain ⟨r, hr, h1, h2⟩ := findEdge_spec hinv a b
  have hnone : r = none → ∀ p ∈ (abs s).edgeRefs, (abs s).connects p.2 a b = false := by
    intro hn p hp
    have hx := (mem_edgeRefs _ _ _).1 hp
    obtain ⟨xe, hxe, hw, hxa, hxb⟩ := abs_edge_rev hx
    have := h2 hn p.1 xe hxe (by rw [hw]; rfl)
    cases hc : (abs s).connects p.2 a b with
    | false => rfl
    | true =>
      exfalso; apply this
      have hy' : p.2 = ⟨xe.a, xe.b, p.2.w⟩ := by cases h : p.2; simp_all
      rw [hy'] at hc
      exact (connects_abs s xe p.2.w a b).1 hc
  have hsome : ∀ e, r = some e → ∃ x, (abs s).edge e = some x ∧ (abs s).connects x a b = true := by
    intro e he
    obtain ⟨xe, hxe, hl, hc⟩ := h1 e he
    obtain ⟨w, hw⟩ := Option.isSome_iff_exists.1 hl
    exact ⟨_, abs_edge_some hxe hw, (connects_abs s xe w a b).2 hc⟩
  refine ⟨r, hr, ?_, ?_⟩
  · cases r with
    | none => exact hnone rfl
    | some e => exact hsome e rfl
  · show r.isSome = (abs s).edgeRefs.any fun p => (abs s).connects p.2 a b
    cases r with
    | none =>
      symm
      simp only [Option.isSome_none, List.any_eq_false]
      intro p hp; simp [hnone rfl p hp]
    | some e =>
      obtain ⟨x, hx, hc⟩ := hsome e rfl
      symm
      simp only [Option.isSome_some, List.any_eq_true]
      exact ⟨(e, x), (mem_edgeRefs _ _ _).2 hx, hc⟩

theorem findEdgeUndirected_refines {s : State} (hinv : Inv s) (a b : Nat) :
    ∃ r, findEdgeUndirected s a b = .ok r ∧
      SpecQuery (abs s) (.findEdgeUndirected a b) (.optDir (r.map fun p => (p.1, p.2 != 0))) := by
  have hnoneGen : (∀ (e : Nat) (xe : Edge), s.edges[e]? = some xe → xe.w.isSome →
      ¬ (xe.a = a ∧ xe.b = b) ∧ ¬ (xe.a = b ∧ xe.b = a)) →
      ∀ p ∈ (abs s).edgeRefs, ¬ (p.2.a = a ∧ p.2.b = b) ∧ ¬ (p.2.a = b ∧ p.2.b = a) := by
    intro h p hp
    have hx := (mem_edgeRefs _ _ _).1 hp
    obtain ⟨xe, hxe, hw, hxa, hxb⟩ := abs_edge_rev hx
    have := h p.1 xe hxe (by rw [hw]; rfl)
    rw [hxa, hxb] at this; exact this
  cases hg : getNode s a with
  | none =>
    have hwn := getNode_none.1 hg
    refine ⟨none, by simp [findEdgeUndirected, hg], ?_⟩
    apply hnoneGen
    intro e xe hxe hl
    obtain ⟨la, lb, _, _⟩ := endpoints_live hinv hxe hl
    constructor
    · rintro ⟨h1, _⟩; rw [h1, hwn] at la; simp at la
    · rintro ⟨_, h1⟩; rw [h1, hwn] at lb; simp at lb
  | some n =>
    obtain ⟨hn, hnl⟩ := getNode_some.1 hg
    obtain ⟨l0, hl0, hm0⟩ := hinv.adj 0 (by omega) a n hn (.inl hnl)
    obtain ⟨l1, hl1, hm1⟩ := hinv.adj 1 (by omega) a n hn (.inl hnl)
    obtain ⟨r0, hr0, hr0a, hr0b⟩ := findLoop_spec (b := b) hinv.lenE hl0 (s.edges.length + 1) (chain_len_lt hl0)
    obtain ⟨r1, hr1, hr1a, hr1b⟩ := findLoop_spec (b := b) hinv.lenE hl1 (s.edges.length + 1) (chain_len_lt hl1)
    simp only [Node.next_zero, Node.next_one] at hr0 hr1
    cases hr0v : r0 with
    | some e0 =>
      subst hr0v
      refine ⟨some (e0, 0), by simp [findEdgeUndirected, hg, hr0], ?_⟩
      obtain ⟨g1, x, hx, hxb⟩ := hr0a e0 rfl
      obtain ⟨_, x', hx', hxl, hxa⟩ := (hm0 e0).1 g1
      rw [hx] at hx'; cases hx'
      obtain ⟨w, hw⟩ := Option.isSome_iff_exists.1 hxl
      show ∃ y, (abs s).edge e0 = some y ∧ (abs s).between y a b false = true
      have k1 : x.a = a := by simpa [Edge.node] using hxa
      have k2 : x.b = b := by simpa [Edge.node] using hxb
      exact ⟨_, abs_edge_some hx hw, by unfold Spec.between; cases (abs s).directed <;> simp [k1, k2]⟩
    | none =>
      subst hr0v
      cases hr1v : r1 with
      | some e1 =>
        subst hr1v
        refine ⟨some (e1, 1), by simp [findEdgeUndirected, hg, hr0, hr1], ?_⟩
        obtain ⟨g1, x, hx, hxb⟩ := hr1a e1 rfl
        obtain ⟨_, x', hx', hxl, hxa⟩ := (hm1 e1).1 g1
        rw [hx] at hx'; cases hx'
        obtain ⟨w, hw⟩ := Option.isSome_iff_exists.1 hxl
        show ∃ y, (abs s).edge e1 = some y ∧ (abs s).between y a b true = true
        have k1 : x.a = b := by simpa [Edge.node] using hxb
        have k2 : x.b = a := by simpa [Edge.node] using hxa
        exact ⟨_, abs_edge_some hx hw, by unfold Spec.between; cases (abs s).directed <;> simp [k1, k2]⟩
      | none =>
        subst hr1v
        refine ⟨none, by simp [findEdgeUndirected, hg, hr0, hr1], ?_⟩
        apply hnoneGen
        intro e xe hxe hl
        constructor
        · rintro ⟨h1, h2⟩
          have := (hm0 e).2 ⟨by simp, xe, hxe, hl, by simpa [Edge.node] using h1⟩
          exact hr0b rfl e this xe hxe (by simpa [Edge.node] using h2)
        · rintro ⟨h1, h2⟩
          have := (hm1 e).2 ⟨by simp, xe, hxe, hl, by simpa [Edge.node] using h2⟩
          exact hr1b rfl e this xe hxe (by simpa [Edge.node] using h1)

/-! ### all queries -/

theorem edgeReferences_allRefs (s : State) : (edgeReferences s).map erefT = (abs s).allRefs := by
  unfold Spec.allRefs
  rw [← edgeReferences_abs, List.map_map]
  rfl

theorem edgeEndpoints_abs (s : State) (e : Nat) : edgeEndpoints s e = ((abs s).edge e).map fun x => (x.a, x.b) := by
  rw [abs_edge_eq]
  unfold edgeEndpoints
  cases hx : s.edges[e]? with
  | none => rfl
  | some x => cases hw : x.w <;> simp [absEdge, hw]

/-- **every query answers what the reference multigraph admits** -/
theorem query_refines {s : State} (hinv : Inv s) (q : Query) :
    ∃ out, query s q = .ok out ∧ SpecQuery (abs s) q out := by
  cases q with
  | nodeCount => exact ⟨_, rfl, (counts_abs hinv).1⟩
  | edgeCount => exact ⟨_, rfl, (counts_abs hinv).2⟩
  | nodeBound => exact ⟨_, rfl, nodeBound_abs s⟩
  | edgeBound => exact ⟨_, rfl, edgeBound_abs s⟩
  | nodeIndices => exact ⟨_, rfl, by show (nodeIndices s).Perm _; rw [nodeIndices_abs]⟩
  | edgeIndices => exact ⟨_, rfl, by show (edgeIndices s).Perm _; rw [edgeIndices_abs]⟩
  | nodeReferences => exact ⟨_, rfl, by show (nodeReferences s).Perm _; rw [nodeReferences_abs]⟩
  | edgeReferences =>
    exact ⟨_, rfl, by show (((edgeReferences s).map erefT).map _).Perm _; rw [edgeReferences_allRefs]⟩
  | nodeWeight a => exact ⟨_, rfl, (abs_node s a).symm⟩
  | containsNode a => exact ⟨_, rfl, containsNode_abs s a⟩
  | edgeWeight e => exact ⟨_, rfl, (abs_edge_w s e).symm⟩
  | edgeEndpoints e =>
    refine ⟨_, rfl, ?_⟩
    show (edgeEndpoints s e).map _ = _
    rw [edgeEndpoints_abs]; simp [Option.map_map, Function.comp_def]
  | neighbors a =>
    obtain ⟨l, hl, hp⟩ := (neighbors_refines hinv a).1
    exact ⟨.nats l, by simp [query, neighbors, hl, mapOk], hp⟩
  | neighborsDirected a d =>
    cases d
    · obtain ⟨l, hl, hp⟩ := (neighbors_refines hinv a).1
      exact ⟨.nats l, by simp [query, dirK, hl, mapOk], hp⟩
    · obtain ⟨l, hl, hp⟩ := (neighbors_refines hinv a).2.1
      exact ⟨.nats l, by simp [query, dirK, hl, mapOk], hp⟩
  | neighborsUndirected a =>
    obtain ⟨l, hl, hp⟩ := (neighbors_refines hinv a).2.2
    exact ⟨.nats l, by simp [query, hl, mapOk], hp⟩
  | edges a =>
    obtain ⟨l, hl, hp⟩ := edgesDirected_refines hinv a false
    exact ⟨.erefs (l.map erefT), by simp [query, hl, mapOk], hp⟩
  | edgesDirected a d =>
    obtain ⟨l, hl, hp⟩ := edgesDirected_refines hinv a d
    exact ⟨.erefs (l.map erefT), by simp [query, hl, mapOk], hp⟩
  | walker a k =>
    obtain ⟨l, hl, hp⟩ := walker_refines hinv a k
    exact ⟨.pairs l, by simp [query, hl, mapOk], hp⟩
  | externals d => exact ⟨_, rfl, externals_refines hinv d⟩
  | findEdge a b =>
    obtain ⟨r, hr, h1, _⟩ := findEdge_refines hinv a b
    exact ⟨.optNat r, by simp [query, hr, mapOk], h1⟩
  | containsEdge a b =>
    obtain ⟨r, hr, _, h2⟩ := findEdge_refines hinv a b
    exact ⟨.bool r.isSome, by simp [query, hr, mapOk], h2⟩
  | findEdgeUndirected a b =>
    obtain ⟨r, hr, h1⟩ := findEdgeUndirected_refines hinv a b
    exact ⟨_, by simp only [query, hr, mapOk], h1⟩
  | edgesConnecting a b =>
    obtain ⟨l, hl, hp⟩ := edgesConnecting_refines hinv a b
    exact ⟨.erefs (l.map erefT), by simp [query, hl, mapOk], hp⟩

/-! ### the executable judge is the specification -/

theorem specQueryB_iff (sp : Spec) (q : Query) (out : QOut) : specQueryB sp q out = true ↔ SpecQuery sp q out := by
  cases q <;> cases out <;>
    simp only [specQueryB, SpecQuery, List.isPerm_iff, beq_iff_eq, Bool.false_eq_true]
  case findEdge.optNat a b o =>
    cases o with
    | none => simp
    | some e => cases h : sp.edge e <;> simp [h]
  case findEdgeUndirected.optDir a b o =>
    cases o with
    | none =>
      simp only [List.all_eq_true, Bool.and_eq_true, Bool.not_eq_true', Bool.and_eq_false_iff, beq_eq_false_iff_ne, ne_eq]
      constructor <;> intro h p hp <;> have := h p hp <;> omega
    | some p =>
      obtain ⟨e, d⟩ := p
      cases h : sp.edge e <;> simp [h]

end PetgraphModel.SGProofs
