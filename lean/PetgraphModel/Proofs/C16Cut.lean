import PetgraphModel.Proofs.C16Judge
/-
C16 — the component-counting definition of a cut vertex (`Spec/C16.lean`) agrees with the textbook
characterisation on undirected graphs: `x` is a cut vertex iff two other nodes that are connected
in `g` are no longer connected in `g − x`.  In particular the definition does not depend on the
order of the node list (the counting picks the first node of every class as its representative).
-/
namespace PetgraphModel.C16P
open PetgraphModel MGraph C16S

/-! ### counting classes of an arbitrary relation -/

open Classical in
/-- `countClasses` for an arbitrary relation -/
noncomputable def cnt (r : Nat → Nat → Prop) : List Nat → List Nat → Nat
  | _, [] => 0
  | E, x :: rest => (if ∃ y ∈ E, r y x then 0 else 1) + cnt r (x :: E) rest

theorem countClasses_eq_cnt (g : MGraph) : ∀ (rest E : List Nat), countClasses g E rest = cnt (Reach g) E rest := by
  intro rest
  induction rest with
  | nil => intro E; simp [countClasses, cnt]
  | cons x rest ih => intro E; simp only [countClasses, cnt, ih]

theorem cnt_congr (r : Nat → Nat → Prop) : ∀ (L E E' : List Nat), (∀ z, z ∈ E ↔ z ∈ E') → cnt r E L = cnt r E' L := by
  intro L
  induction L with
  | nil => intro _ _ _; rfl
  | cons x L ih =>
    intro E E' h
    simp only [cnt]
    have h1 : (∃ y ∈ E, r y x) ↔ (∃ y ∈ E', r y x) :=
      ⟨fun ⟨y, hy, hr⟩ => ⟨y, (h y).mp hy, hr⟩, fun ⟨y, hy, hr⟩ => ⟨y, (h y).mpr hy, hr⟩⟩
    rw [ih (x :: E) (x :: E') (by intro z; simp [h z])]
    by_cases hc : ∃ y ∈ E, r y x
    · rw [if_pos hc, if_pos (h1.mp hc)]
    · rw [if_neg hc, if_neg (fun h' => hc (h1.mpr h'))]

theorem cnt_append (r : Nat → Nat → Prop) : ∀ (A E L : List Nat), cnt r E (A ++ L) = cnt r E A + cnt r (A ++ E) L := by
  intro A
  induction A with
  | nil => intro E L; simp [cnt]
  | cons a A ih =>
    intro E L
    simp only [List.cons_append, cnt, ih (a :: E) L]
    rw [cnt_congr r L (A ++ a :: E) (a :: (A ++ E)) (by intro z; simp [or_left_comm])]
    omega

/-- a finer relation has at least as many classes -/
theorem cnt_mono (r r' : Nat → Nat → Prop) (hsub : ∀ a b, r' a b → r a b) :
    ∀ (L E : List Nat), cnt r E L ≤ cnt r' E L := by
  intro L
  induction L with
  | nil => intro E; simp [cnt]
  | cons x L ih =>
    intro E
    simp only [cnt]
    have := ih (x :: E)
    by_cases h' : ∃ y ∈ E, r' y x
    · have h : ∃ y ∈ E, r y x := by obtain ⟨y, hy, hr⟩ := h'; exact ⟨y, hy, hsub _ _ hr⟩
      rw [if_pos h', if_pos h]; omega
    · by_cases h : ∃ y ∈ E, r y x
      · rw [if_neg h', if_pos h]; omega
      · rw [if_neg h', if_neg h]; omega

theorem mem_shift (a x : Nat) (E L : List Nat) : a ∈ E ++ x :: L ↔ a ∈ x :: E ++ L := by
  simp [or_left_comm]

structure IsEquiv (r : Nat → Nat → Prop) : Prop where
  refl : ∀ a, r a a
  symm : ∀ a b, r a b → r b a
  trans : ∀ a b c, r a b → r b c → r a c

/-- equal counts iff the two equivalences agree on the list -/
theorem cnt_eq_iff (r r' : Nat → Nat → Prop) (hr : IsEquiv r) (hr' : IsEquiv r')
    (hsub : ∀ a b, r' a b → r a b) :
    ∀ (L E : List Nat), (∀ a ∈ E, ∀ b ∈ E, r a b → r' a b) →
      (cnt r' E L = cnt r E L ↔ ∀ a ∈ E ++ L, ∀ b ∈ E ++ L, r a b → r' a b) := by
  intro L
  induction L with
  | nil => intro E hE; simp only [cnt, List.append_nil, true_iff]; exact hE
  | cons x L ih =>
    intro E hE
    simp only [cnt]
    have hm := cnt_mono r r' hsub L (x :: E)
    constructor
    · intro heq
      -- the indicators agree and the tails agree
      have hind : (∃ y ∈ E, r y x) → (∃ y ∈ E, r' y x) := by
        intro h
        apply Classical.byContradiction
        intro h'
        rw [if_neg h', if_pos h] at heq
        omega
      have htail : cnt r' (x :: E) L = cnt r (x :: E) L := by
        by_cases h : ∃ y ∈ E, r y x
        · rw [if_pos (hind h), if_pos h] at heq; omega
        · have h' : ¬ ∃ y ∈ E, r' y x := fun ⟨y, hy, hyr⟩ => h ⟨y, hy, hsub _ _ hyr⟩
          rw [if_neg h', if_neg h] at heq; omega
      have hE' : ∀ a ∈ x :: E, ∀ b ∈ x :: E, r a b → r' a b := by
        have key : ∀ u ∈ E, r u x → r' u x := by
          intro u hu hux
          obtain ⟨e, he, hex⟩ := hind ⟨u, hu, hux⟩
          have : r e u := hr.trans _ _ _ (hsub _ _ hex) (hr.symm _ _ hux)
          exact hr'.trans _ _ _ (hr'.symm _ _ (hE e he u hu this)) hex
        intro a ha b hb hab
        cases List.mem_cons.mp ha with
        | inl h1 =>
          cases List.mem_cons.mp hb with
          | inl h2 => subst h1; subst h2; exact hr'.refl _
          | inr h2 => subst h1; exact hr'.symm _ _ (key b h2 (hr.symm _ _ hab))
        | inr h1 =>
          cases List.mem_cons.mp hb with
          | inl h2 => subst h2; exact key a h1 hab
          | inr h2 => exact hE a h1 b h2 hab
      have := (ih (x :: E) hE').mp htail
      intro a ha b hb
      exact this a ((mem_shift a x E L).mp ha) b ((mem_shift b x E L).mp hb)
    · intro hall
      have hin : ∀ a, a ∈ x :: E → a ∈ E ++ x :: L := by
        intro a ha
        cases List.mem_cons.mp ha with
        | inl h => subst h; simp
        | inr h => simp [h]
      have hE' : ∀ a ∈ x :: E, ∀ b ∈ x :: E, r a b → r' a b := fun a ha b hb =>
        hall a (hin a ha) b (hin b hb)
      have htail := (ih (x :: E) hE').mpr (fun a ha b hb =>
        hall a ((mem_shift a x E L).mpr ha) b ((mem_shift b x E L).mpr hb))
      rw [htail]
      by_cases h : ∃ y ∈ E, r y x
      · have h' : ∃ y ∈ E, r' y x := by
          obtain ⟨y, hy, hyx⟩ := h
          exact ⟨y, hy, hall y (by simp [hy]) x (by simp) hyx⟩
        rw [if_pos h', if_pos h]
      · have h' : ¬ ∃ y ∈ E, r' y x := fun ⟨y, hy, hyr⟩ => h ⟨y, hy, hsub _ _ hyr⟩
        rw [if_neg h', if_neg h]

open Classical in
/-- taking `x` out of the "earlier" set changes the count by one exactly when `x`'s class is new
and met by the list -/
theorem cnt_drop_earlier (r : Nat → Nat → Prop) (hr : IsEquiv r) (x : Nat) :
    ∀ (B A : List Nat), cnt r A B =
      cnt r (x :: A) B + (if (¬ ∃ a ∈ A, r a x) ∧ (∃ y ∈ B, r x y) then 1 else 0) := by
  intro B
  induction B with
  | nil => intro A; simp [cnt]
  | cons y B ih =>
    intro A
    simp only [cnt]
    rw [ih (y :: A), cnt_congr r B (y :: x :: A) (x :: y :: A) (by intro z; simp [or_left_comm])]
    by_cases hxy : r x y
    · have hiff : (∃ a ∈ A, r a y) ↔ (∃ a ∈ A, r a x) :=
        ⟨fun ⟨a, ha, h⟩ => ⟨a, ha, hr.trans _ _ _ h (hr.symm _ _ hxy)⟩,
         fun ⟨a, ha, h⟩ => ⟨a, ha, hr.trans _ _ _ h hxy⟩⟩
      have h1 : ∃ a ∈ x :: A, r a y := ⟨x, by simp, hxy⟩
      have h2 : ¬ ((¬ ∃ a ∈ y :: A, r a x) ∧ ∃ z ∈ B, r x z) :=
        fun h => h.1 ⟨y, by simp, hr.symm _ _ hxy⟩
      have h3 : ∃ z ∈ y :: B, r x z := ⟨y, by simp, hxy⟩
      rw [if_pos h1, if_neg h2]
      by_cases hA : ∃ a ∈ A, r a y
      · rw [if_pos hA, if_neg (fun h => h.1 (hiff.mp hA))]; omega
      · rw [if_neg hA, if_pos ⟨fun h => hA (hiff.mpr h), h3⟩]; omega
    · have h1 : (∃ a ∈ x :: A, r a y) ↔ (∃ a ∈ A, r a y) := by
        constructor
        · rintro ⟨a, ha, h⟩
          cases List.mem_cons.mp ha with
          | inl h' => subst h'; exact (hxy h).elim
          | inr h' => exact ⟨a, h', h⟩
        · rintro ⟨a, ha, h⟩; exact ⟨a, List.mem_cons_of_mem _ ha, h⟩
      have h2 : ((¬ ∃ a ∈ y :: A, r a x) ∧ ∃ z ∈ B, r x z) ↔ ((¬ ∃ a ∈ A, r a x) ∧ ∃ z ∈ y :: B, r x z) := by
        constructor
        · rintro ⟨ha, z, hz, hxz⟩
          exact ⟨fun ⟨a, haA, h⟩ => ha ⟨a, List.mem_cons_of_mem _ haA, h⟩, z, List.mem_cons_of_mem _ hz, hxz⟩
        · rintro ⟨ha, z, hz, hxz⟩
          refine ⟨?_, ?_⟩
          · rintro ⟨a, haA, h⟩
            cases List.mem_cons.mp haA with
            | inl h' => subst h'; exact hxy (hr.symm _ _ h)
            | inr h' => exact ha ⟨a, h', h⟩
          · cases List.mem_cons.mp hz with
            | inl h' => subst h'; exact (hxy hxz).elim
            | inr h' => exact ⟨z, h', hxz⟩
      by_cases hA : ∃ a ∈ A, r a y
      · rw [if_pos hA, if_pos (h1.mpr hA)]
        by_cases hc : (¬ ∃ a ∈ y :: A, r a x) ∧ ∃ z ∈ B, r x z
        · rw [if_pos hc, if_pos (h2.mp hc)]; omega
        · rw [if_neg hc, if_neg (fun h => hc (h2.mpr h))]; omega
      · rw [if_neg hA, if_neg (fun h => hA (h1.mp h))]
        by_cases hc : (¬ ∃ a ∈ y :: A, r a x) ∧ ∃ z ∈ B, r x z
        · rw [if_pos hc, if_pos (h2.mp hc)]; omega
        · rw [if_neg hc, if_neg (fun h => hc (h2.mpr h))]; omega

open Classical in
/-- removing one element `x` from the list lowers the count by one exactly when `x` is related to
no other element -/
theorem cnt_remove (r : Nat → Nat → Prop) (hr : IsEquiv r) (x : Nat) (A B : List Nat) :
    cnt r [] (A ++ x :: B) = cnt r [] (A ++ B) + (if ∃ u ∈ A ++ B, r u x then 0 else 1) := by
  rw [cnt_append, cnt_append]
  simp only [cnt, List.append_nil]
  rw [cnt_drop_earlier r hr x B A]
  by_cases hA : ∃ a ∈ A, r a x
  · have h1 : ∃ u ∈ A ++ B, r u x := by obtain ⟨a, ha, h⟩ := hA; exact ⟨a, by simp [ha], h⟩
    rw [if_pos hA, if_pos h1, if_neg (fun h => h.1 hA)]; omega
  · rw [if_neg hA]
    by_cases hB : ∃ y ∈ B, r x y
    · have h1 : ∃ u ∈ A ++ B, r u x := by obtain ⟨y, hy, h⟩ := hB; exact ⟨y, by simp [hy], hr.symm _ _ h⟩
      rw [if_pos ⟨hA, hB⟩, if_pos h1]; omega
    · have h1 : ¬ ∃ u ∈ A ++ B, r u x := by
        rintro ⟨u, hu, h⟩
        cases List.mem_append.mp hu with
        | inl h' => exact hA ⟨u, h', h⟩
        | inr h' => exact hB ⟨u, h', hr.symm _ _ h⟩
      rw [if_neg (fun h => hB h.2), if_neg h1]; omega

/-! ### reachability in undirected graphs -/

theorem adj_symm {g : MGraph} (hu : g.directed = false) {a b : Nat} (h : g.Adj a b) : g.Adj b a := by
  obtain ⟨e, he, h⟩ := h
  refine ⟨e, he, ?_⟩
  rcases h with ⟨h1, h2⟩ | ⟨_, h1, h2⟩
  · exact Or.inr ⟨hu, h1, h2⟩
  · exact Or.inl ⟨h1, h2⟩

theorem reach_head {g : MGraph} {a b c : Nat} (h1 : g.Adj a b) (h2 : Reach g b c) : Reach g a c :=
  reach_trans (Reach.step (Reach.refl a) h1) h2

theorem reach_symm {g : MGraph} (hu : g.directed = false) {a b : Nat} (h : Reach g a b) : Reach g b a := by
  induction h with
  | refl => exact Reach.refl _
  | step _ hadj ih => exact reach_head (adj_symm hu hadj) ih

theorem reach_isEquiv {g : MGraph} (hu : g.directed = false) : IsEquiv (Reach g) :=
  ⟨Reach.refl, fun _ _ => reach_symm hu, fun _ _ _ => reach_trans⟩

theorem reach_removeNode_sub {g : MGraph} {x a b : Nat} (h : Reach (g.removeNode x) a b) : Reach g a b := by
  induction h with
  | refl => exact Reach.refl _
  | step _ hadj ih => exact Reach.step ih (adj_removeNode.mp hadj).1

theorem filter_split (x : Nat) : ∀ (N : List Nat), N.Nodup → x ∈ N →
    ∃ A B, N = A ++ x :: B ∧ N.filter (· ≠ x) = A ++ B := by
  intro N
  induction N with
  | nil => intro _ h; cases h
  | cons y N ih =>
    intro hn hx
    simp only [List.nodup_cons] at hn
    by_cases hyx : y = x
    · subst hyx
      refine ⟨[], N, rfl, ?_⟩
      simp only [ne_eq, not_true_eq_false, decide_false, List.nil_append, List.filter_cons_of_neg,
        Bool.false_eq_true, not_false_eq_true]
      rw [List.filter_eq_self]
      intro a ha
      simp only [decide_eq_true_eq]
      exact fun h => hn.1 (h ▸ ha)
    · have hx' : x ∈ N := by
        cases List.mem_cons.mp hx with
        | inl h => exact (hyx h.symm).elim
        | inr h => exact h
      obtain ⟨A, B, h1, h2⟩ := ih hn.2 hx'
      refine ⟨y :: A, B, by rw [h1]; rfl, ?_⟩
      rw [List.filter_cons_of_pos (by simpa using hyx), h2]; rfl

open Classical in
/-- **the textbook characterisation of a cut vertex** (undirected graph, duplicate-free node list):
removing `x` increases the number of connected components iff two other nodes that are connected in
`g` are disconnected in `g − x`. -/
theorem cutVertex_iff_separates (g : MGraph) (hu : g.directed = false) (hn : g.nodes.Nodup) (x : Nat) :
    CutVertex g x ↔ x ∈ g.nodes ∧ ∃ u v, u ∈ g.nodes ∧ v ∈ g.nodes ∧ u ≠ x ∧ v ≠ x ∧
      Reach g u v ∧ ¬ Reach (g.removeNode x) u v := by
  unfold CutVertex
  constructor <;> rintro ⟨hx, hrest⟩ <;> refine ⟨hx, ?_⟩
  all_goals
    obtain ⟨A, B, hN, hN'⟩ := filter_split x g.nodes hn hx
    have hr := reach_isEquiv hu
    have hr' : IsEquiv (Reach (g.removeNode x)) := reach_isEquiv (g := g.removeNode x) hu
    have hsub : ∀ a b, Reach (g.removeNode x) a b → Reach g a b := fun _ _ => reach_removeNode_sub
    have hc1 : numComponents g = cnt (Reach g) [] (A ++ B) + (if ∃ u ∈ A ++ B, Reach g u x then 0 else 1) := by
      unfold numComponents
      rw [countClasses_eq_cnt, hN, cnt_remove _ hr]
    have hc2 : numComponents (g.removeNode x) = cnt (Reach (g.removeNode x)) [] (A ++ B) := by
      unfold numComponents
      rw [countClasses_eq_cnt]
      show cnt _ [] (g.nodes.filter (· ≠ x)) = _
      rw [hN']
    have hmem : ∀ u, u ∈ A ++ B ↔ u ∈ g.nodes ∧ u ≠ x := by
      intro u
      rw [← hN']
      simp [List.mem_filter]
    have hle := cnt_mono (Reach g) (Reach (g.removeNode x)) hsub (A ++ B) []
    have hiff := cnt_eq_iff (Reach g) (Reach (g.removeNode x)) hr hr' hsub (A ++ B) [] (by simp)
    simp only [List.nil_append] at hiff
  · -- counting ⇒ a separated pair
    rw [hc1, hc2] at hrest
    have hne : ¬ cnt (Reach (g.removeNode x)) [] (A ++ B) = cnt (Reach g) [] (A ++ B) := by
      intro h; rw [h] at hrest; omega
    rw [hiff] at hne
    apply Classical.byContradiction
    intro hno
    apply hne
    intro a ha b hb hab
    apply Classical.byContradiction
    intro hnab
    exact hno ⟨a, b, ((hmem a).mp ha).1, ((hmem b).mp hb).1, ((hmem a).mp ha).2, ((hmem b).mp hb).2, hab, hnab⟩
  · -- a separated pair ⇒ counting
    obtain ⟨u, v, hun, hvn, hux, hvx, huv, hnuv⟩ := hrest
    rw [hc1, hc2]
    have hstrict : cnt (Reach g) [] (A ++ B) < cnt (Reach (g.removeNode x)) [] (A ++ B) := by
      have : ¬ cnt (Reach (g.removeNode x)) [] (A ++ B) = cnt (Reach g) [] (A ++ B) := by
        rw [hiff]
        intro hall
        exact hnuv (hall u ((hmem u).mpr ⟨hun, hux⟩) v ((hmem v).mpr ⟨hvn, hvx⟩) huv)
      omega
    have hconn : ∃ w ∈ A ++ B, Reach g w x := by
      -- the walk from u to v must pass through x, so u reaches x
      obtain ⟨p, hp⟩ := reach_walk huv
      have hxp : x ∈ p := by
        apply Classical.byContradiction
        intro hxp
        exact hnuv (walk_avoid_reach_removeNode hp hxp)
      exact ⟨u, (hmem u).mpr ⟨hun, hux⟩, walk_mem_reach hp x hxp⟩
    rw [if_pos hconn]
    omega

end PetgraphModel.C16P
