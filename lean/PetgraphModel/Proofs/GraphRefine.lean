import PetgraphModel.Proofs.Graph
import PetgraphModel.Spec.CompactGraphAccepts
/-
Refinement of the mirror model to the compact-multigraph specification for histories without
removals (stage 1): there the insertion stamp of an edge is its index, every `next` pointer points
to a smaller index (`Desc`), so every adjacency chain is the descending-index enumeration of the
incident edges — exactly `CGS.select`.
-/
namespace PetgraphModel.GProofs
open PetgraphModel PetgraphModel.G

/-- abstraction: forget the links; the stamp of an edge is its index -/
def abs (s : State) : CGS.Spec :=
  { cap := s.endv, directed := s.directed, nodes := s.nodes.map (·.weight),
    edges := List.zipWith (fun i (e : Edge) => (⟨e.src, e.tgt, e.weight, i⟩ : CGS.SEdge)) (List.range s.edges.length) s.edges,
    clock := s.edges.length }

def absEdge (i : Nat) (e : Edge) : CGS.SEdge := ⟨e.src, e.tgt, e.weight, i⟩

theorem abs_edges_length (s : State) : (abs s).edges.length = s.edges.length := by simp [abs]

theorem abs_nodes_length (s : State) : (abs s).nodes.length = s.nodes.length := by simp [abs]

theorem abs_edges_get (s : State) (i : Nat) : (abs s).edges[i]? = (s.edges[i]?).map (absEdge i) := by
  simp only [abs, List.getElem?_zipWith]
  by_cases hi : i < s.edges.length
  · simp [List.getElem?_eq_getElem hi, List.getElem?_range hi, absEdge]
  · have : s.edges[i]? = none := List.getElem?_eq_none (by omega)
    simp [this]

/-- every stored edge-to-edge link points to a smaller index (or is `END`): chains run in
descending index order — true as long as nothing was removed -/
def Desc (s : State) : Prop :=
  ∀ (e : Nat) (ed : Edge), s.edges[e]? = some ed → ∀ k, ed.next k = s.endv ∨ ed.next k < e

theorem IsList.head_lt_or_end {edges k endv h l} (hl : IsList edges k endv h l) : h = endv ∨ h < edges.length := by
  cases hl with
  | nil => exact Or.inl rfl
  | cons ed he _ => exact Or.inr (lt_of_getElem? he)

theorem IsList.sorted_of_desc {edges : List Edge} {k endv h l} (hsz : edges.length ≤ endv)
    (hd : ∀ (e : Nat) (ed : Edge), edges[e]? = some ed → ed.next k = endv ∨ ed.next k < e)
    (hl : IsList edges k endv h l) : l.Pairwise (· > ·) ∧ ∀ x ∈ l, x ≤ h := by
  induction hl with
  | nil => exact ⟨List.Pairwise.nil, by simp⟩
  | @cons e l ed he htl ih =>
    obtain ⟨ihp, ihb⟩ := ih
    have hlt : ∀ x ∈ l, x < e := by
      intro x hx
      have h1 := ihb x hx
      rcases hd e ed he with h2 | h2
      · -- next = endv: then the tail is empty
        rw [h2] at htl
        cases htl with
        | nil => cases hx
        | cons ed' he' _ => have := lt_of_getElem? he'; omega
      · omega
    refine ⟨List.pairwise_cons.mpr ⟨fun x hx => hlt x hx, ihp⟩, ?_⟩
    intro x hx
    rcases List.mem_cons.mp hx with rfl | hx
    · exact Nat.le_refl _
    · exact Nat.le_of_lt (hlt x hx)

/-- descending enumeration of the edges whose `node[k]` is `i` -/
def adj1 (s : State) (k : Bool) (i : Nat) : List Nat :=
  (List.range s.edges.length).reverse.filter fun e =>
    match s.edges[e]? with
    | some ed => ed.node k == i
    | none => false

theorem adj1_pairwise (s : State) (k : Bool) (i : Nat) : (adj1 s k i).Pairwise (· > ·) := by
  unfold adj1
  apply List.Pairwise.filter
  rw [List.pairwise_reverse]
  exact List.pairwise_lt_range

theorem mem_adj1 (s : State) (k : Bool) (i e : Nat) :
    e ∈ adj1 s k i ↔ ∃ ed, s.edges[e]? = some ed ∧ ed.node k = i := by
  unfold adj1
  simp only [List.mem_filter, List.mem_reverse, List.mem_range]
  constructor
  · rintro ⟨_, h⟩
    split at h
    · rename_i ed hed; exact ⟨ed, hed, by simpa using h⟩
    · cases h
  · rintro ⟨ed, hed, hk⟩
    exact ⟨lt_of_getElem? hed, by simp [hed, hk]⟩

/-- under `Inv` and `Desc` the walk from a node head is the descending enumeration -/
theorem Inv.chain_desc {s : State} (h : Inv s) (hd : Desc s) (k : Bool) (i : Nat) (nd : Node)
    (hnd : s.nodes[i]? = some nd) :
    ∃ c, chain s.edges k s.fuel (nd.next k) = .ok c ∧ c.map Prod.fst = adj1 s k i ∧
      ∀ p ∈ c, s.edges[p.1]? = some p.2 := by
  obtain ⟨adj, hl, hn, hm⟩ := h.lists
  have hlen : (adj k i).length < s.fuel := by
    have : (adj k i).length ≤ s.edges.length :=
      nodup_length_le (hn k i) (fun e he => by
        obtain ⟨ed, hed, _⟩ := (hm k i e).mp he; exact lt_of_getElem? hed)
    simp [State.fuel]; omega
  obtain ⟨c, hc, hmap, hslots⟩ := chain_of_isList h.szE s.fuel _ _ (hl k i nd hnd) hlen
  refine ⟨c, hc, ?_, hslots⟩
  rw [hmap]
  have hsorted := ((hl k i nd hnd).sorted_of_desc h.szE (fun e ed he => hd e ed he k)).1
  apply List.Perm.eq_of_pairwise (le := (· > ·)) _ hsorted (adj1_pairwise s k i)
  · apply (List.perm_ext_iff_of_nodup (hn k i) ?_).mpr
    · intro e; rw [hm k i e, mem_adj1]
    · exact (adj1_pairwise s k i).imp (fun h => Nat.ne_of_gt h)
  · intro a b _ _ h1 h2; omega

/-! ### the specification's selections on `abs s` -/

theorem select_abs (s : State) (p : CGS.SEdge → Bool) :
    CGS.select (abs s) p = (List.range s.edges.length).reverse.filter (fun i =>
      match s.edges[i]? with
      | some e => p (absEdge i e)
      | none => false) := by
  unfold CGS.select
  simp only [abs_edges_length]
  rw [List.mergeSort_of_pairwise]
  · apply List.filter_congr
    intro i _
    rw [abs_edges_get]
    cases s.edges[i]? <;> rfl
  · apply List.Pairwise.filter
    rw [List.pairwise_reverse]
    refine List.pairwise_lt_range.imp ?_
    intro a b hab
    rw [abs_edges_get, abs_edges_get]
    cases s.edges[a]? <;> cases s.edges[b]? <;> simp [absEdge]
    omega

theorem outEdges_abs (s : State) (a : Nat) : CGS.outEdges (abs s) a = adj1 s false a := by
  unfold CGS.outEdges adj1
  rw [select_abs]
  apply List.filter_congr
  intro i _
  cases s.edges[i]? <;> simp [absEdge, Edge.node]

theorem inEdges_abs (s : State) (a : Nat) : CGS.inEdges (abs s) a = adj1 s true a := by
  unfold CGS.inEdges adj1
  rw [select_abs]
  apply List.filter_congr
  intro i _
  cases s.edges[i]? <;> simp [absEdge, Edge.node]

theorem edgeAt_abs {s : State} {e : Nat} {ed : Edge} (he : s.edges[e]? = some ed) :
    CGS.edgeAt (abs s) e = absEdge e ed := by
  simp [CGS.edgeAt, abs_edges_get, he]

/-- a slot list mapped through `f` equals the index list mapped through the spec's view of the slot -/
theorem map_slots {β : Type} {s : State} {c : List (Nat × Edge)} (hs : ∀ p ∈ c, s.edges[p.1]? = some p.2)
    (f : Nat × Edge → β) (g : Nat → β) (hfg : ∀ (e : Nat) (ed : Edge), s.edges[e]? = some ed → f (e, ed) = g e) :
    c.map f = (c.map Prod.fst).map g := by
  rw [List.map_map]
  apply List.map_congr_left
  intro p hp
  exact hfg p.1 p.2 (hs p hp)

/-! ### `Desc` is preserved by every operation that removes nothing -/

theorem desc_empty (endv : Nat) (d : Bool) : Desc (empty endv d) := by
  intro e ed he; simp [empty] at he

theorem desc_of_sameLinks {s s' : State} (h : Desc s) (hs : SameLinks s s') : Desc s' := by
  intro e ed' he k
  obtain ⟨ed, hed, hf⟩ := map_eq_getElem? hs.edges e he
  simp only [edgeLinks, Prod.mk.injEq] at hf
  have := h e ed hed k
  rw [hs.endv]
  cases k <;> simp [Edge.next, hf.1, hf.2.1] at this ⊢ <;> exact this

theorem desc_tryAddNode {s : State} (h : Desc s) (w : Nat) : Desc (tryAddNode s w).1 := by
  unfold tryAddNode; dsimp only; split
  · exact h
  · exact h

theorem desc_tryAddEdge {s : State} (hi : Inv s) (h : Desc s) (a b w : Nat) : Desc (tryAddEdge s a b w).1 := by
  rcases hr : tryAddEdge s a b w with ⟨s', r⟩
  cases r with
  | error e => rw [tryAddEdge_err hr]; exact h
  | ok e =>
    obtain ⟨an, bn, han, hbn, _, _, hend, _, hedges, _, _⟩ := tryAddEdge_ok hr
    obtain ⟨adj, hl, _, _⟩ := hi.lists
    intro x xd hx k
    rw [hend]
    by_cases hxm : x < s.edges.length
    · rw [hedges, List.getElem?_append_left hxm] at hx
      exact h x xd hx k
    · have hxm' : x = s.edges.length := by
        have := lt_of_getElem? hx; rw [hedges] at this; simp at this; omega
      subst hxm'
      rw [hedges] at hx
      simp at hx
      subst hx
      cases k with
      | false =>
        have := (hl false a an han).head_lt_or_end
        simpa [Edge.next, Node.next] using this
      | true =>
        have := (hl true b bn hbn).head_lt_or_end
        simpa [Edge.next, Node.next] using this

theorem desc_reverse {s : State} (h : Desc s) : Desc (reverse s) := by
  intro e ed he k
  simp only [reverse, List.getElem?_map, Option.map_eq_some_iff] at he
  obtain ⟨x, hx, rfl⟩ := he
  have := h e x hx (!k)
  cases k <;> simpa [Edge.next, reverse] using this

theorem desc_clearEdges (s : State) : Desc (clearEdges s) := by
  intro e ed he; simp [clearEdges] at he

/-- stage-1 invariant -/
def Inv1 (s : State) : Prop := Inv s ∧ Desc s

theorem inv1_tryAddNode {s : State} (h : Inv1 s) (w : Nat) : Inv1 (tryAddNode s w).1 :=
  ⟨inv_tryAddNode h.1 w, desc_tryAddNode h.2 w⟩

theorem inv1_tryAddEdge {s : State} (h : Inv1 s) (a b w : Nat) : Inv1 (tryAddEdge s a b w).1 :=
  ⟨inv_tryAddEdge h.1 a b w, desc_tryAddEdge h.1 h.2 a b w⟩

theorem inv1_empty (endv : Nat) (d : Bool) : Inv1 (empty endv d) := ⟨inv_empty _ _, desc_empty _ _⟩

theorem inv1_growTo (nx : Nat) : ∀ (f : Nat) (s : State), Inv1 s → Inv1 (growTo nx f s).1 := by
  intro f
  induction f with
  | zero => intro s h; exact h
  | succ f ih =>
    intro s h
    unfold growTo
    split
    · have h1 := inv1_tryAddNode h 0
      split
      · rename_i s' _ heq; rw [heq] at h1; exact ih s' h1
      · rename_i s' heq; rw [heq] at h1; exact h1
    · exact h

theorem inv1_extendWithEdges : ∀ (l : List (Nat × Nat × Nat)) (s : State), Inv1 s → Inv1 (extendWithEdges s l).1 := by
  intro l
  induction l with
  | nil => intro s h; exact h
  | cons x rest ih =>
    intro s h
    obtain ⟨a, b, w⟩ := x
    unfold extendWithEdges
    have h1 := inv1_growTo (max a b) (max a b + 2 - s.nodes.length) s h
    dsimp only
    split
    · rename_i s1 heq; rw [heq] at h1; exact h1
    · rename_i s1 heq
      rw [heq] at h1
      have h2 := inv1_tryAddEdge h1 a b w
      split
      · rename_i s2 _ heq2; rw [heq2] at h2; exact ih s2 h2
      · rename_i s2 _ heq2; rw [heq2] at h2; exact h2

theorem inv1_fromElements : ∀ (l : List Elem) (s s' : State), Inv1 s → fromElements s l = some s' → Inv1 s' := by
  intro l
  induction l with
  | nil => intro s s' h he; simp [fromElements] at he; subst he; exact h
  | cons x rest ih =>
    intro s s' h he
    cases x with
    | node w =>
      unfold fromElements at he
      have h1 := inv1_tryAddNode h w
      split at he
      · rename_i s1 _ heq; rw [heq] at h1; exact ih s1 s' h1 he
      · simp at he
    | edge a b w =>
      unfold fromElements at he
      have h1 := inv1_tryAddEdge h a b w
      split at he
      · rename_i s1 _ heq; rw [heq] at h1; exact ih s1 s' h1 he
      · simp at he

theorem inv1_fmNodes (nmask : List Bool) (dn : Nat) :
    ∀ (ns : List Node) (i : Nat) (g : State) (m : List Nat), Inv1 g → Inv1 (fmNodes nmask dn ns i g m).1 := by
  intro ns
  induction ns with
  | nil => intro i g m h; exact h
  | cons nd rest ih =>
    intro i g m h
    unfold fmNodes
    split
    · have h1 := inv1_tryAddNode h (nd.weight + dn)
      split
      · rename_i g' _ heq; rw [heq] at h1; exact ih _ g' _ h1
      · rename_i g' heq; rw [heq] at h1; exact ih _ g' _ h1
    · exact ih _ g _ h

theorem inv1_fmEdges (emask : List Bool) (de : Nat) (m : List Nat) :
    ∀ (es : List Edge) (i : Nat) (g g' : State), Inv1 g → fmEdges emask de m es i g = .ok g' → Inv1 g' := by
  intro es
  induction es with
  | nil => intro i g g' h he; simp [fmEdges] at he; subst he; exact h
  | cons ed rest ih =>
    intro i g g' h he
    unfold fmEdges at he
    split at he
    · rename_i a b _ _
      split at he
      · split at he
        · have h1 := inv1_tryAddEdge h a b (ed.weight + de)
          split at he
          · rename_i g1 _ heq; rw [heq] at h1; exact ih _ g1 g' h1 he
          · simp at he
        · exact ih _ g g' h he
      · exact ih _ g g' h he
    · simp at he

theorem inv1_filterMap {s s' : State} (nmask emask : List Bool) (dn de : Nat)
    (he : filterMap s nmask emask dn de = .ok s') : Inv1 s' := by
  unfold filterMap at he
  have h1 := inv1_fmNodes nmask dn s.nodes 0 (empty s.endv s.directed) [] (inv1_empty _ _)
  revert he h1
  rcases fmNodes nmask dn s.nodes 0 (empty s.endv s.directed) [] with ⟨g, m⟩
  intro he h1
  exact inv1_fmEdges emask de m s.edges 0 g s' h1 he

/-- every call that removes nothing preserves the stage-1 invariant -/
theorem inv1_step {s : State} (h : Inv1 s) (op : Op) (hop : isRemoval op = false) : Inv1 (step s op).1 := by
  refine ⟨inv_step_stage1 h.1 op hop, ?_⟩
  have hd := h.2
  cases op <;> simp only [step, liftF_query] <;> try exact hd
  case new d => exact desc_empty _ _
  case fromEdges l =>
    have := (inv1_extendWithEdges l (empty s.endv s.directed) (inv1_empty _ _)).2
    split
    · rename_i g heq; rw [heq] at this; exact this
    · exact hd
  case fromElements l =>
    split
    · rename_i g heq; exact (inv1_fromElements l _ g (inv1_empty _ _) heq).2
    · exact hd
  case addNode w =>
    have := desc_tryAddNode hd w
    split <;> (rename_i heq; rw [heq] at this; exact this)
  case tryAddNode w =>
    have := desc_tryAddNode hd w
    split <;> (rename_i heq; rw [heq] at this; exact this)
  case addEdge a b w =>
    have := desc_tryAddEdge h.1 hd a b w
    split <;> (rename_i heq; rw [heq] at this; exact this)
  case tryAddEdge a b w => exact desc_tryAddEdge h.1 hd a b w
  case updateEdge a b w =>
    unfold liftF
    split
    · rename_i v hv
      obtain ⟨s', r⟩ := v
      have : Desc s' := by
        unfold tryUpdateEdge at hv
        split at hv
        · simp at hv
        · split at hv
          · rename_i ed hed
            simp at hv; rw [← hv.1]
            exact desc_of_sameLinks hd (sameLinks_setEdgeWeight hed w)
          · simp at hv
            have := desc_tryAddEdge h.1 hd a b w
            rw [hv] at this; exact this
        · simp at hv
          have := desc_tryAddEdge h.1 hd a b w
          rw [hv] at this; exact this
      cases r <;> exact this
    · exact hd
  case tryUpdateEdge a b w =>
    unfold liftF
    split
    · rename_i v hv
      obtain ⟨s', r⟩ := v
      unfold tryUpdateEdge at hv
      split at hv
      · simp at hv
      · split at hv
        · rename_i ed hed
          simp at hv; rw [← hv.1]
          exact desc_of_sameLinks hd (sameLinks_setEdgeWeight hed w)
        · simp at hv
          have := desc_tryAddEdge h.1 hd a b w
          rw [hv] at this; exact this
      · simp at hv
        have := desc_tryAddEdge h.1 hd a b w
        rw [hv] at this; exact this
    · exact hd
  case removeNode a => simp [isRemoval] at hop
  case removeEdge e => simp [isRemoval] at hop
  case retainNodes m b => simp [isRemoval] at hop
  case retainEdges m b => simp [isRemoval] at hop
  case nodeWeightMut a w =>
    split
    · rename_i s' old heq
      unfold setNodeWeight at heq
      split at heq
      · rename_i nd hnd; simp at heq; rw [← heq.1]; exact desc_of_sameLinks hd (sameLinks_setNodeWeight hnd w)
      · simp at heq
    · exact hd
  case edgeWeightMut e w =>
    split
    · rename_i s' old heq
      unfold setEdgeWeight at heq
      split at heq
      · rename_i ed hed; simp at heq; rw [← heq.1]; exact desc_of_sameLinks hd (sameLinks_setEdgeWeight hed w)
      · simp at heq
    · exact hd
  case indexMutNode a w =>
    split
    · rename_i s' old heq
      unfold setNodeWeight at heq
      split at heq
      · rename_i nd hnd; simp at heq; rw [← heq.1]; exact desc_of_sameLinks hd (sameLinks_setNodeWeight hnd w)
      · simp at heq
    · exact hd
  case indexMutEdge e w =>
    split
    · rename_i s' old heq
      unfold setEdgeWeight at heq
      split at heq
      · rename_i ed hed; simp at heq; rw [← heq.1]; exact desc_of_sameLinks hd (sameLinks_setEdgeWeight hed w)
      · simp at heq
    · exact hd
  case indexTwiceMut ki kj i j wi wj =>
    have put : ∀ (t : State) (k : Bool) (x w : Nat), Desc t → Desc (putWeight t k x w) := by
      intro t k x w ht
      unfold putWeight
      split
      · split
        · rename_i ed hed; exact desc_of_sameLinks ht (sameLinks_setEdgeWeight hed w)
        · exact ht
      · split
        · rename_i nd hnd; exact desc_of_sameLinks ht (sameLinks_setNodeWeight hnd w)
        · exact ht
    split
    · rename_i s' heq
      unfold indexTwiceMut at heq
      split at heq
      · simp at heq
      · split at heq
        · simp at heq
        · simp only [Option.some.injEq] at heq
          rw [← heq]
          exact put _ kj j wj (put s ki i wi hd)
    · exact hd
  case bumpEdges d => exact desc_of_sameLinks hd (sameLinks_bumpEdges s d)
  case reverse => exact desc_reverse hd
  case clear => exact desc_empty _ _
  case clearEdges => exact desc_clearEdges s
  case extendWithEdges l =>
    have := (inv1_extendWithEdges l s h).2
    split <;> (rename_i heq; rw [heq] at this; exact this)
  case map dn de => exact desc_of_sameLinks hd (sameLinks_mapWeights s dn de)
  case filterMap nm em dn de =>
    unfold liftF
    split
    · rename_i v hv; exact (inv1_filterMap nm em dn de hv).2
    · exact hd
  case rebuild =>
    unfold liftF
    split
    · rename_i v hv; exact (inv1_filterMap [] [] 0 0 hv).2
    · exact hd
  case walk a mode bump =>
    unfold liftF
    split
    · rename_i v hv
      obtain ⟨s', l⟩ := v
      exact desc_of_sameLinks hd (sameLinks_walkAll bump _ _ _ _ _ hv)
    · exact hd
  case indexNode a => split <;> exact hd
  case indexEdge e => split <;> exact hd

/-! ### queries: the iterators are the specification's filters -/

theorem Inv.src_ne_end {s : State} (h : Inv s) {e : Nat} {ed : Edge} (he : s.edges[e]? = some ed) :
    ed.src ≠ s.endv ∧ ed.tgt ≠ s.endv := by
  have := h.ends e ed he
  have := h.szN
  constructor <;> omega

/-- out- and in-chains of a live node, in the specification's vocabulary -/
theorem Inv1.chains {s : State} (h : Inv1 s) {a : Nat} {nd : Node} (hnd : s.nodes[a]? = some nd) :
    ∃ c0 c1, chain s.edges false s.fuel nd.next0 = .ok c0 ∧ chain s.edges true s.fuel nd.next1 = .ok c1 ∧
      c0.map Prod.fst = CGS.outEdges (abs s) a ∧ c1.map Prod.fst = CGS.inEdges (abs s) a ∧
      (∀ p ∈ c0, s.edges[p.1]? = some p.2 ∧ p.2.src = a) ∧ (∀ p ∈ c1, s.edges[p.1]? = some p.2 ∧ p.2.tgt = a) := by
  obtain ⟨c0, hc0, hm0, hs0⟩ := h.1.chain_desc h.2 false a nd hnd
  obtain ⟨c1, hc1, hm1, hs1⟩ := h.1.chain_desc h.2 true a nd hnd
  simp only [Node.next, Bool.false_eq_true, if_false] at hc0
  simp only [Node.next, if_true] at hc1
  refine ⟨c0, c1, hc0, hc1, by rw [hm0, outEdges_abs], by rw [hm1, inEdges_abs], ?_, ?_⟩
  · intro p hp
    refine ⟨hs0 p hp, ?_⟩
    have : p.1 ∈ adj1 s false a := by rw [← hm0]; exact List.mem_map_of_mem hp
    obtain ⟨ed, hed, hk⟩ := (mem_adj1 s false a p.1).mp this
    rw [hs0 p hp] at hed; cases hed
    simpa [Edge.node] using hk
  · intro p hp
    refine ⟨hs1 p hp, ?_⟩
    have : p.1 ∈ adj1 s true a := by rw [← hm1]; exact List.mem_map_of_mem hp
    obtain ⟨ed, hed, hk⟩ := (mem_adj1 s true a p.1).mp this
    rw [hs1 p hp] at hed; cases hed
    simpa [Edge.node] using hk

theorem out_part {s : State} {c0 : List (Nat × Edge)} (hs0 : ∀ p ∈ c0, s.edges[p.1]? = some p.2) :
    c0.map (fun p => (p.1, p.2.tgt)) = (c0.map Prod.fst).map fun e => (e, (CGS.edgeAt (abs s) e).tgt) :=
  map_slots hs0 _ _ (fun e ed he => by simp [edgeAt_abs he, absEdge])

theorem in_part {s : State} {c1 : List (Nat × Edge)} (hs1 : ∀ p ∈ c1, s.edges[p.1]? = some p.2) :
    c1.map (fun p => (p.1, p.2.src)) = (c1.map Prod.fst).map fun e => (e, (CGS.edgeAt (abs s) e).src) :=
  map_slots hs1 _ _ (fun e ed he => by simp [edgeAt_abs he, absEdge])

theorem in_part_filter {s : State} {c1 : List (Nat × Edge)} (hs1 : ∀ p ∈ c1, s.edges[p.1]? = some p.2) (a : Nat) :
    (c1.filter (fun p => p.2.src != a)).map (fun p => (p.1, p.2.src)) =
      (((c1.map Prod.fst).map fun e => (e, (CGS.edgeAt (abs s) e).src)).filter fun p => p.2 != a) := by
  rw [← in_part hs1, List.filter_map]
  rfl

/-- `neighbors_directed` / `neighbors_undirected` (and the detached walkers started from them) list
exactly the specification's `nbr`, in the specification's order -/
theorem Inv1.neighborsUndirected_eq {s : State} (h : Inv1 s) (a : Nat) :
    neighborsUndirected s a = .ok (CGS.nbr (abs s) a 2) := by
  by_cases ha : s.nodes.length ≤ a
  · rw [h.1.neighborsUndirected_absent ha]
    simp [CGS.nbr, abs_nodes_length, ha]
  · have ha' : a < s.nodes.length := by omega
    have hnd := List.getElem?_eq_getElem ha'
    obtain ⟨c0, c1, hc0, hc1, hm0, hm1, hs0', hs1'⟩ := h.chains hnd
    have hs0 : ∀ p ∈ c0, s.edges[p.1]? = some p.2 := fun p hp => (hs0' p hp).1
    have hs1 : ∀ p ∈ c1, s.edges[p.1]? = some p.2 := fun p hp => (hs1' p hp).1
    have hh : heads s a = (s.nodes[a].next0, s.nodes[a].next1) := by simp [heads, hnd]
    unfold neighborsUndirected nbrIter
    simp only [hh, hc0, hc1]
    have hge : ¬ a ≥ (abs s).nodes.length := by rw [abs_nodes_length]; omega
    simp only [CGS.nbr, hge, if_false]
    rw [out_part hs0, in_part_filter hs1 a, hm0, hm1]
    split <;> simp

theorem Inv1.neighborsDirected_eq {s : State} (h : Inv1 s) (a : Nat) (k : Bool) :
    neighborsDirected s a k = .ok (CGS.nbr (abs s) a (if k then 1 else 0)) := by
  by_cases ha : s.nodes.length ≤ a
  · rw [h.1.neighborsDirected_absent k ha]
    simp [CGS.nbr, abs_nodes_length, ha]
  · have ha' : a < s.nodes.length := by omega
    have hnd := List.getElem?_eq_getElem ha'
    obtain ⟨c0, c1, hc0, hc1, hm0, hm1, hs0', hs1'⟩ := h.chains hnd
    have hs0 : ∀ p ∈ c0, s.edges[p.1]? = some p.2 := fun p hp => (hs0' p hp).1
    have hs1 : ∀ p ∈ c1, s.edges[p.1]? = some p.2 := fun p hp => (hs1' p hp).1
    have hh : heads s a = (s.nodes[a].next0, s.nodes[a].next1) := by simp [heads, hnd]
    have hge : ¬ a ≥ (abs s).nodes.length := by rw [abs_nodes_length]; omega
    have hend : ∀ k f, chain s.edges k (f + 1) s.endv = .ok [] := fun k f => h.1.chain_end k f
    unfold neighborsDirected nbrIter
    simp only [hh, State.fuel, hend] 
    simp only [State.fuel] at hc0 hc1
    simp only [hc0, hc1]
    simp only [CGS.nbr, hge, if_false]
    have hdir : (abs s).directed = s.directed := rfl
    rw [hdir]
    cases hd : s.directed with
    | false =>
      simp only [Bool.false_eq_true, if_false]
      rw [out_part hs0, in_part_filter hs1 a, hm0, hm1]
    | true =>
      simp only [if_true]
      cases k with
      | false =>
        simp only [Bool.false_eq_true, if_false, List.filter_nil, List.map_nil, List.append_nil]
        rw [out_part hs0, hm0]
        simp
      | true =>
        simp only [if_true, List.map_nil, List.nil_append]
        have hfil : c1.filter (fun p => p.2.src != s.endv) = c1 := by
          apply List.filter_eq_self.mpr
          intro p hp
          have := (h.1.src_ne_end (hs1 p hp)).1
          simpa using this
        rw [hfil, in_part hs1, hm1]
        simp


theorem refs_plain {s : State} {c : List (Nat × Edge)} (hs : ∀ p ∈ c, s.edges[p.1]? = some p.2) :
    c.map (mkRef false) = (c.map Prod.fst).map fun e =>
      toERef (let ed := CGS.edgeAt (abs s) e; ⟨e, ed.src, ed.tgt, ed.weight⟩) :=
  map_slots hs _ _ (fun e ed he => by simp [edgeAt_abs he, absEdge, mkRef, toERef])

/-- `edges_directed` lists exactly the specification's `refs` -/
theorem Inv1.edgesDirected_eq {s : State} (h : Inv1 s) (a : Nat) (dir : Bool) :
    edgesDirected s a dir = .ok ((CGS.refs (abs s) a dir).map toERef) := by
  by_cases ha : s.nodes.length ≤ a
  · rw [h.1.edgesDirected_absent dir ha]
    simp [CGS.refs, abs_nodes_length, ha]
  · have ha' : a < s.nodes.length := by omega
    have hnd := List.getElem?_eq_getElem ha'
    obtain ⟨c0, c1, hc0, hc1, hm0, hm1, hs0', hs1'⟩ := h.chains hnd
    have hs0 : ∀ p ∈ c0, s.edges[p.1]? = some p.2 := fun p hp => (hs0' p hp).1
    have hs1 : ∀ p ∈ c1, s.edges[p.1]? = some p.2 := fun p hp => (hs1' p hp).1
    have hh : heads s a = (s.nodes[a].next0, s.nodes[a].next1) := by simp [heads, hnd]
    have hge : ¬ a ≥ (abs s).nodes.length := by rw [abs_nodes_length]; omega
    have hdir : (abs s).directed = s.directed := rfl
    unfold edgesDirected
    simp only [hh, hc0, hc1]
    simp only [CGS.refs, hge, if_false, hdir]
    cases hd : s.directed with
    | true =>
      simp only [if_true]
      cases dir with
      | false =>
        simp only [Bool.false_eq_true, if_false]
        rw [refs_plain hs0, hm0, List.map_map]; rfl
      | true =>
        simp only [if_true]
        rw [refs_plain hs1, hm1, List.map_map]; rfl
    | false =>
      simp only [Bool.false_eq_true, if_false]
      have hnbr : CGS.nbr (abs s) a 2 =
          c0.map (fun p => (p.1, p.2.tgt)) ++ (c1.filter (fun p => p.2.src != a)).map (fun p => (p.1, p.2.src)) := by
        simp only [CGS.nbr, hge, if_false, hdir, hd]
        rw [out_part hs0, in_part_filter hs1 a, hm0, hm1]
        simp
      rw [hnbr]
      simp only [List.map_append, List.map_map]
      congr 2
      · apply List.map_congr_left
        intro p hp
        have he := hs0 p hp
        have ha0 := (hs0' p hp).2
        cases dir <;> simp [mkRef, toERef, edgeAt_abs he, absEdge, ha0]
      · apply List.map_congr_left
        intro p hp
        have hp' := List.mem_of_mem_filter hp
        have he := hs1 p hp'
        have ha1 := (hs1' p hp').2
        cases dir <;> simp [mkRef, toERef, edgeAt_abs he, absEdge, ha1]

theorem Inv1.edgesConnecting_eq {s : State} (h : Inv1 s) (a b : Nat) :
    edgesConnecting s a b = .ok ((CGS.connecting (abs s) a b).map toERef) := by
  unfold edgesConnecting CGS.connecting
  rw [h.edgesDirected_eq a false]
  simp only [List.filter_map]
  rfl

theorem abs_edges_all (s : State) (p : CGS.SEdge → Bool) :
    (abs s).edges.all p = true ↔ ∀ (e : Nat) (ed : Edge), s.edges[e]? = some ed → p (absEdge e ed) = true := by
  rw [List.all_eq_true]
  constructor
  · intro hall e ed hed
    apply hall
    apply List.mem_iff_getElem?.mpr
    exact ⟨e, by rw [abs_edges_get, hed]; rfl⟩
  · intro hall x hx
    obtain ⟨e, he⟩ := List.mem_iff_getElem?.mp hx
    rw [abs_edges_get] at he
    cases hed : s.edges[e]? with
    | none => rw [hed] at he; cases he
    | some ed =>
      rw [hed] at he
      simp at he
      rw [← he]
      exact hall e ed hed

theorem abs_edges_any (s : State) (p : CGS.SEdge → Bool) :
    (abs s).edges.any p = true ↔ ∃ (e : Nat) (ed : Edge), s.edges[e]? = some ed ∧ p (absEdge e ed) = true := by
  rw [List.any_eq_true]
  constructor
  · rintro ⟨x, hx, hp⟩
    obtain ⟨e, he⟩ := List.mem_iff_getElem?.mp hx
    rw [abs_edges_get] at he
    cases hed : s.edges[e]? with
    | none => rw [hed] at he; cases he
    | some ed =>
      rw [hed] at he
      simp at he
      exact ⟨e, ed, hed, by rw [he]; exact hp⟩
  · rintro ⟨e, ed, hed, hp⟩
    exact ⟨absEdge e ed, List.mem_iff_getElem?.mpr ⟨e, by rw [abs_edges_get, hed]; rfl⟩, hp⟩

/-- `externals(dir)` is the specification's list of nodes without out- / in- / any edges -/
theorem Inv.externals_eq {s : State} (h : Inv s) (k : Bool) : externals s k = CGS.externals (abs s) k := by
  unfold externals CGS.externals
  rw [abs_nodes_length]
  apply List.filter_congr
  intro i hi
  have hi' : i < s.nodes.length := List.mem_range.mp hi
  have hnd := List.getElem?_eq_getElem hi'
  rw [hnd]
  have hk := h.head_end_iff k hnd
  have hnk := h.head_end_iff (!k) hnd
  have hdir : (abs s).directed = s.directed := rfl
  rw [Bool.eq_iff_iff]
  simp only [Bool.and_eq_true, Bool.or_eq_true, beq_iff_eq, hk, hnk, abs_edges_all, hdir]
  cases hd : s.directed with
  | true =>
    simp only [true_or, and_true, if_true]
    constructor
    · intro hno e ed hed
      have := hno e ed hed
      cases k <;> simpa [absEdge, Edge.node] using this
    · intro hno e ed hed
      have := hno e ed hed
      cases k <;> simpa [absEdge, Edge.node] using this
  | false =>
    simp only [Bool.false_eq_true, false_or, if_false]
    constructor
    · rintro ⟨h1, h2⟩ e ed hed
      have a1 := h1 e ed hed
      have a2 := h2 e ed hed
      cases k <;> simp [absEdge, Edge.node] at a1 a2 ⊢ <;> exact ⟨by assumption, by assumption⟩
    · intro hno
      constructor
      · intro e ed hed
        have := hno e ed hed
        cases k <;> simp [absEdge, Edge.node] at this ⊢ <;> simp [this]
      · intro e ed hed
        have := hno e ed hed
        cases k <;> simp [absEdge, Edge.node] at this ⊢ <;> simp [this]

theorem hasEdge_abs (s : State) (a b : Nat) : CGS.hasEdge (abs s) a b = true ↔ ∃ e, Connects s a b e := by
  unfold CGS.hasEdge
  rw [abs_edges_any]
  have hdir : (abs s).directed = s.directed := rfl
  constructor
  · rintro ⟨e, ed, hed, hp⟩
    refine ⟨e, ed, hed, ?_⟩
    simp only [CGS.connects, absEdge, hdir, Bool.or_eq_true, Bool.and_eq_true, beq_iff_eq, Bool.not_eq_true'] at hp
    rcases hp with hp | hp
    · exact Or.inl hp
    · exact Or.inr ⟨hp.1.1, hp.1.2, hp.2⟩
  · rintro ⟨e, ed, hed, hc⟩
    refine ⟨e, ed, hed, ?_⟩
    simp only [CGS.connects, absEdge, hdir, Bool.or_eq_true, Bool.and_eq_true, beq_iff_eq, Bool.not_eq_true']
    rcases hc with hc | ⟨h1, h2, h3⟩
    · exact Or.inl hc
    · exact Or.inr ⟨⟨h1, h2⟩, h3⟩

/-! ### mutators commute with the abstraction -/

theorem eq_abs_of {sp : CGS.Spec} {s : State} (hc : sp.cap = s.endv) (hd : sp.directed = s.directed)
    (hn : sp.nodes = s.nodes.map (·.weight))
    (he : ∀ i, sp.edges[i]? = (s.edges[i]?).map (absEdge i)) (hk : sp.clock = s.edges.length) : sp = abs s := by
  have hedges : sp.edges = (abs s).edges := by
    apply List.ext_getElem?
    intro i; rw [he, abs_edges_get]
  cases sp
  simp only [abs] at *
  subst hc hd hn hk
  simp [hedges]

theorem abs_tryAddNode {s : State} (h : Inv s) (w : Nat) :
    match CGS.addNode (abs s) w with
    | some sp' => ∃ s', tryAddNode s w = (s', some s.nodes.length) ∧ abs s' = sp'
    | none => tryAddNode s w = (s, none) := by
  unfold CGS.addNode CGS.full
  have hcap : (abs s).cap = s.endv := rfl
  rw [abs_nodes_length, hcap]
  by_cases hf : s.nodes.length = s.endv
  · have : s.nodes.length ≥ s.endv := by omega
    simp only [this, decide_true, if_true]
    exact tryAddNode_full w hf
  · have : ¬ s.nodes.length ≥ s.endv := by have := h.szN; omega
    simp only [this, decide_false, Bool.false_eq_true, if_false]
    refine ⟨_, tryAddNode_room w hf, ?_⟩
    symm
    apply eq_abs_of rfl rfl
    · simp [abs]
    · intro i; exact abs_edges_get s i
    · rfl

theorem abs_tryAddEdge {s : State} (h : Inv s) (a b w : Nat) :
    match CGS.addEdge (abs s) a b w with
    | .ok sp' => ∃ s', tryAddEdge s a b w = (s', .ok s.edges.length) ∧ abs s' = sp'
    | .error .limit => tryAddEdge s a b w = (s, .error .edgeIxLimit)
    | .error .absent => tryAddEdge s a b w = (s, .error .nodeOutBounds)
    | .error .both => tryAddEdge s a b w = (s, .error .edgeIxLimit) := by
  unfold CGS.addEdge CGS.full
  have hcap : (abs s).cap = s.endv := rfl
  simp only [abs_nodes_length, abs_edges_length, hcap]
  by_cases hf : s.edges.length = s.endv
  · have h1 : s.edges.length ≥ s.endv := by omega
    simp only [h1, decide_true, Bool.true_and, if_true]
    cases hab : (!(decide (a < s.nodes.length) && decide (b < s.nodes.length))) with
    | true => simp only [if_true]; exact tryAddEdge_full a b w hf
    | false => simp only [Bool.false_eq_true, if_false]; exact tryAddEdge_full a b w hf
  · have h1 : ¬ s.edges.length ≥ s.endv := by have := h.szE; omega
    simp only [h1, decide_false, Bool.false_and, Bool.false_eq_true, if_false]
    by_cases hab : a < s.nodes.length ∧ b < s.nodes.length
    · have : (!(decide (a < s.nodes.length) && decide (b < s.nodes.length))) = false := by simp [hab.1, hab.2]
      simp only [this, Bool.false_eq_true, if_false]
      obtain ⟨s', hs'⟩ := tryAddEdge_room a b w hf hab.1 hab.2
      refine ⟨s', hs', ?_⟩
      obtain ⟨an, bn, _, _, _, _, hend, hdir, hedges, hnl, hnodes⟩ := tryAddEdge_ok hs'
      symm
      apply eq_abs_of
      · simp [abs, hend]
      · simp [abs, hdir]
      · simp only [abs]
        apply List.ext_getElem?
        intro i
        simp only [List.getElem?_map]
        cases hi : s'.nodes[i]? with
        | none =>
          have : s.nodes[i]? = none := by
            apply List.getElem?_eq_none
            have := List.getElem?_eq_none_iff.mp hi
            omega
          simp [this]
        | some nd' =>
          obtain ⟨nd, hnd, hw, _⟩ := hnodes i nd' hi
          simp [hnd, hw]
      · intro i
        simp only [abs, hedges]
        by_cases hi : i < s.edges.length
        · rw [List.getElem?_append_left hi]
          have := abs_edges_get s i
          simp only [abs] at this
          rw [List.getElem?_append_left (by simpa using hi)]
          exact this
        · by_cases hi2 : i = s.edges.length
          · subst hi2; simp [absEdge]
          · have h3 : (s.edges ++ [(⟨w, an.next0, bn.next1, a, b⟩ : Edge)])[i]? = none :=
              List.getElem?_eq_none (by simp; omega)
            rw [h3]
            simp only [Option.map_none]
            apply List.getElem?_eq_none
            simp; omega
      · simp [abs, hedges]
    · have : (!(decide (a < s.nodes.length) && decide (b < s.nodes.length))) = true := by
        simp only [Bool.not_eq_true', Bool.and_eq_false_iff, decide_eq_false_iff_not]
        by_cases ha : a < s.nodes.length
        · right; exact fun hb => hab ⟨ha, hb⟩
        · left; exact ha
      simp only [this, if_true]
      exact tryAddEdge_absent a b w hf hab

theorem abs_growTo (nx : Nat) : ∀ (f : Nat) (s : State), Inv s →
    abs (growTo nx f s).1 = (CGS.growTo nx f (abs s)).1 ∧ (growTo nx f s).2 = (CGS.growTo nx f (abs s)).2 := by
  intro f
  induction f with
  | zero => intro s _; exact ⟨rfl, rfl⟩
  | succ f ih =>
    intro s h
    unfold growTo CGS.growTo
    rw [abs_nodes_length]
    by_cases hge : nx ≥ s.nodes.length
    · simp only [hge, if_true]
      have h1 := abs_tryAddNode h 0
      cases hsp : CGS.addNode (abs s) 0 with
      | none =>
        rw [hsp] at h1
        simp only [h1]
        constructor <;> first | rfl | trivial
      | some sp' =>
        rw [hsp] at h1
        obtain ⟨s', hs', habs⟩ := h1
        simp only [hs']
        have hi : Inv s' := by have := inv_tryAddNode h 0; rw [hs'] at this; exact this
        rw [← habs]
        exact ih s' hi
    · simp only [hge, if_false]
      constructor <;> first | rfl | trivial

theorem abs_extendWithEdges : ∀ (l : List (Nat × Nat × Nat)) (s : State), Inv s →
    abs (extendWithEdges s l).1 = (CGS.extendWithEdges (abs s) l).1 ∧
    (extendWithEdges s l).2 = (CGS.extendWithEdges (abs s) l).2 := by
  intro l
  induction l with
  | nil => intro s _; exact ⟨rfl, rfl⟩
  | cons x rest ih =>
    intro s h
    obtain ⟨a, b, w⟩ := x
    unfold extendWithEdges CGS.extendWithEdges
    dsimp only
    rw [abs_nodes_length]
    obtain ⟨hg1, hg2⟩ := abs_growTo (max a b) (max a b + 2 - s.nodes.length) s h
    have hi1 := inv_growTo (max a b) (max a b + 2 - s.nodes.length) s h
    rcases hgm : growTo (max a b) (max a b + 2 - s.nodes.length) s with ⟨s1, ok1⟩
    rcases hgs : CGS.growTo (max a b) (max a b + 2 - s.nodes.length) (abs s) with ⟨sp1, oks⟩
    rw [hgm] at hg1 hg2 hi1
    rw [hgs] at hg1 hg2
    simp only at hg1 hg2
    subst hg2
    cases ok1 with
    | false => exact ⟨hg1, rfl⟩
    | true =>
      simp only
      rw [← hg1]
      have h2 := abs_tryAddEdge hi1 a b w
      cases hsp : CGS.addEdge (abs s1) a b w with
      | ok sp2 =>
        rw [hsp] at h2
        obtain ⟨s2, hs2, habs⟩ := h2
        simp only [hs2]
        have hi2 : Inv s2 := by have := inv_tryAddEdge hi1 a b w; rw [hs2] at this; exact this
        rw [← habs]
        exact ih s2 hi2
      | error e =>
        rw [hsp] at h2
        cases e <;> simp only at h2 <;> simp only [h2] <;> (constructor <;> first | rfl | trivial)


theorem abs_fromElements : ∀ (l : List Elem) (s : State), Inv s →
    (fromElements s l).map abs = specFromElements (abs s) l := by
  intro l
  induction l with
  | nil => intro s _; rfl
  | cons x rest ih =>
    intro s h
    cases x with
    | node w =>
      unfold fromElements specFromElements
      have h1 := abs_tryAddNode h w
      cases hsp : CGS.addNode (abs s) w with
      | none => rw [hsp] at h1; simp only [h1]; rfl
      | some sp' =>
        rw [hsp] at h1
        obtain ⟨s', hs', habs⟩ := h1
        simp only [hs']
        have hi : Inv s' := by have := inv_tryAddNode h w; rw [hs'] at this; exact this
        rw [← habs]; exact ih s' hi
    | edge a b w =>
      unfold fromElements specFromElements
      have h1 := abs_tryAddEdge h a b w
      cases hsp : CGS.addEdge (abs s) a b w with
      | ok sp' =>
        rw [hsp] at h1
        obtain ⟨s', hs', habs⟩ := h1
        simp only [hs']
        have hi : Inv s' := by have := inv_tryAddEdge h a b w; rw [hs'] at this; exact this
        rw [← habs]; exact ih s' hi
      | error e =>
        rw [hsp] at h1
        cases e <;> simp only at h1 <;> simp only [h1] <;> rfl


theorem abs_setNodeWeight {s : State} {a : Nat} {nd : Node} (hnd : s.nodes[a]? = some nd) (w : Nat) :
    abs { s with nodes := s.nodes.set a { nd with weight := w } } = spSetNode (abs s) a w := by
  symm
  apply eq_abs_of rfl rfl
  · simp [spSetNode, abs, List.map_set]
  · intro i; exact abs_edges_get s i
  · rfl

theorem abs_setEdgeWeight {s : State} {e : Nat} {ed : Edge} (hed : s.edges[e]? = some ed) (w : Nat) :
    abs { s with edges := s.edges.set e { ed with weight := w } } = spSetEdge (abs s) e w := by
  symm
  apply eq_abs_of rfl rfl rfl
  · intro i
    simp only [spSetEdge, List.getElem?_set, abs_edges_length]
    have hlt := lt_of_getElem? hed
    by_cases hie : e = i
    · subst hie
      simp [hlt, edgeAt_abs hed, absEdge]
    · simp [hie, abs_edges_get]
  · simp [spSetEdge, abs]

theorem abs_putWeight (s : State) (k : Bool) (x w : Nat) (hb : inBounds s k x = true) :
    abs (putWeight s k x w) = spPut (abs s) k x w := by
  unfold putWeight spPut
  cases k with
  | true =>
    simp only [if_true]
    simp [inBounds] at hb
    rw [List.getElem?_eq_getElem hb]
    exact abs_setEdgeWeight (List.getElem?_eq_getElem hb) w
  | false =>
    simp only [Bool.false_eq_true, if_false]
    simp [inBounds] at hb
    rw [List.getElem?_eq_getElem hb]
    exact abs_setNodeWeight (List.getElem?_eq_getElem hb) w

theorem inBounds_putWeight (s : State) (k : Bool) (x w : Nat) (k' : Bool) (y : Nat) :
    inBounds (putWeight s k x w) k' y = inBounds s k' y := by
  unfold putWeight inBounds
  cases k <;> simp <;> split <;> (split <;> simp)

theorem abs_reverse (s : State) : abs (reverse s) = CGS.reverse (abs s) := by
  symm
  apply eq_abs_of rfl rfl
  · simp [CGS.reverse, abs, reverse, List.map_map, Function.comp_def]
  · intro i
    simp only [CGS.reverse, List.getElem?_map, abs_edges_get, reverse, Option.map_map]
    cases s.edges[i]? <;> simp [absEdge]
  · simp [CGS.reverse, abs, reverse]

theorem abs_clear (s : State) : abs (clear s) = CGS.clear (abs s) := by
  simp [abs, clear, CGS.clear]

theorem abs_clearEdges (s : State) : abs (clearEdges s) = CGS.clearEdges (abs s) := by
  simp [abs, clearEdges, CGS.clearEdges, List.map_map, Function.comp_def]

theorem zipWith_range_getElem? {α β : Type} (f : Nat → α → β) (l : List α) (i : Nat) :
    (List.zipWith f (List.range l.length) l)[i]? = (l[i]?).map (f i) := by
  simp only [List.getElem?_zipWith]
  by_cases hi : i < l.length
  · simp [List.getElem?_eq_getElem hi, List.getElem?_range hi]
  · have : l[i]? = none := List.getElem?_eq_none (by omega)
    simp [this]

theorem abs_mapWeights (s : State) (dn de : Nat) : abs (mapWeights s dn de) = CGS.mapWeights (abs s) dn de := by
  symm
  apply eq_abs_of rfl rfl
  · apply List.ext_getElem?
    intro i
    simp only [CGS.mapWeights, abs_nodes_length, mapWeights, List.getElem?_map]
    have h1 := zipWith_range_getElem? (fun i (w : Nat) => w + dn + i) (abs s).nodes i
    rw [abs_nodes_length] at h1
    rw [h1]
    have h2 := zipWith_range_getElem? (fun i (n : Node) => ({ n with weight := n.weight + dn + i } : Node)) s.nodes i
    rw [h2]
    simp only [abs, List.getElem?_map, Option.map_map]
    cases s.nodes[i]? <;> simp
  · intro i
    simp only [CGS.mapWeights, abs_edges_length, mapWeights]
    have h1 := zipWith_range_getElem? (fun i (ed : CGS.SEdge) => ({ ed with weight := ed.weight + de + i } : CGS.SEdge)) (abs s).edges i
    rw [abs_edges_length] at h1
    rw [h1]
    have h2 := zipWith_range_getElem? (fun i (e : Edge) => ({ e with weight := e.weight + de + i } : Edge)) s.edges i
    rw [h2, abs_edges_get]
    cases s.edges[i]? <;> simp [absEdge]
  · simp [CGS.mapWeights, abs, mapWeights]

theorem abs_bumpNodes (s : State) (d : Nat) :
    abs { s with nodes := s.nodes.map fun n => { n with weight := n.weight + d } } =
      { abs s with nodes := (abs s).nodes.map (· + d) } := by
  simp [abs, List.map_map, Function.comp_def]

theorem abs_bumpEdges (s : State) (d : Nat) :
    abs { s with edges := s.edges.map fun e => { e with weight := e.weight + d } } =
      { abs s with edges := (abs s).edges.map fun ed => { ed with weight := ed.weight + d } } := by
  symm
  apply eq_abs_of rfl rfl rfl
  · intro i
    simp only [List.getElem?_map, abs_edges_get, Option.map_map]
    cases s.edges[i]? <;> simp [absEdge]
  · simp [abs]

/-! ### the abstract transition relation and the refinement step -/


theorem ListAcc.of_eq {α : Type} (ordered : Bool) {l want : List α} (h : l = want) : ListAcc ordered l want := by
  unfold ListAcc; split
  · exact h
  · rw [h]





/-- the answer of the `try_` (`isTry`) / panicking variant of an edge insertion -/
def resOut (isTry : Bool) (r : Except GErr Nat) : Out :=
  if isTry then .res r else match r with | .ok e => .nat e | .error _ => .panic

macro "close_acc" : tactic => `(tactic| (first | trivial | (refine ⟨?_, ?_⟩ <;> first | rfl | trivial | assumption)))
macro "acc_r " t:term : tactic =>
  `(tactic| first | exact ⟨rfl, $t⟩ | exact ⟨trivial, $t⟩ | exact $t)
macro "acc_l " t:term : tactic =>
  `(tactic| first | exact ⟨$t, rfl⟩ | exact ⟨$t, trivial⟩ | exact $t)

theorem addEdgeAcc_abs {s : State} (h : Inv s) (isTry : Bool) (a b w : Nat) :
    AddEdgeAcc (abs s) isTry a b w (resOut isTry (tryAddEdge s a b w).2) (abs (tryAddEdge s a b w).1) := by
  unfold AddEdgeAcc resOut
  have h1 := abs_tryAddEdge h a b w
  rw [abs_edges_length]
  cases hsp : CGS.addEdge (abs s) a b w with
  | ok g =>
    rw [hsp] at h1
    obtain ⟨s', hs', habs⟩ := h1
    simp only [hs']
    refine ⟨?_, habs⟩
    cases isTry <;> simp
  | error e =>
    rw [hsp] at h1
    cases e <;> simp only at h1 <;> simp only [h1] <;> cases isTry <;> simp

theorem connects_abs {s : State} {a b e : Nat} (hc : Connects s a b e) :
    e < (abs s).edges.length ∧ CGS.connects (abs s) a b (CGS.edgeAt (abs s) e) = true := by
  obtain ⟨ed, hed, hj⟩ := hc
  refine ⟨by rw [abs_edges_length]; exact lt_of_getElem? hed, ?_⟩
  rw [edgeAt_abs hed]
  have hdir : (abs s).directed = s.directed := rfl
  simp only [CGS.connects, absEdge, hdir, Bool.or_eq_true, Bool.and_eq_true, beq_iff_eq, Bool.not_eq_true']
  rcases hj with hj | ⟨h1, h2, h3⟩
  · exact Or.inl hj
  · exact Or.inr ⟨⟨h1, h2⟩, h3⟩

theorem updateEdgeAcc_abs {s s' : State} {r : Except GErr Nat} (h : Inv s) (isTry : Bool) (a b w : Nat)
    (he : tryUpdateEdge s a b w = .ok (s', r)) :
    UpdateEdgeAcc (abs s) isTry a b w (resOut isTry r) (abs s') := by
  obtain ⟨fr, hfr, hf1, hf2⟩ := h.findEdge_spec a b
  unfold tryUpdateEdge at he
  rw [hfr] at he
  unfold UpdateEdgeAcc
  cases fr with
  | some ix =>
    have hc := hf1 ix rfl
    have hhas : CGS.hasEdge (abs s) a b = true := (hasEdge_abs s a b).mpr ⟨ix, hc⟩
    obtain ⟨hlt, hcon⟩ := connects_abs hc
    obtain ⟨ed, hed, _⟩ := hc
    simp only [hed] at he
    simp only [Except.ok.injEq, Prod.mk.injEq] at he
    obtain ⟨rfl, rfl⟩ := he
    simp only [hhas, if_true]
    refine ⟨ix, ?_, hlt, hcon, abs_setEdgeWeight hed w⟩
    cases isTry <;> simp [resOut]
  | none =>
    have hhas : ¬ CGS.hasEdge (abs s) a b = true := by
      intro hh
      obtain ⟨e, hc⟩ := (hasEdge_abs s a b).mp hh
      exact hf2 rfl e hc
    have he' : tryAddEdge s a b w = (s', r) := by simpa using he
    simp only [hhas, Bool.false_eq_true, if_false]
    have := addEdgeAcc_abs h isTry a b w
    simp only [he'] at this
    exact this

theorem abs_nodes_get (s : State) (i : Nat) : (abs s).nodes[i]? = (s.nodes[i]?).map (·.weight) := by
  simp [abs]

theorem spInBounds_abs (s : State) (k : Bool) (x : Nat) : spInBounds (abs s) k x = inBounds s k x := by
  unfold spInBounds inBounds
  rw [abs_edges_length, abs_nodes_length]

theorem spAllRefs_abs (s : State) : spAllRefs (abs s) = allERefs s := by
  apply List.ext_getElem?
  intro i
  unfold spAllRefs allERefs
  rw [zipWith_range_getElem?, zipWith_range_getElem?, abs_edges_get]
  cases s.edges[i]? <;> simp [absEdge]

/-- **refinement step** (stage 1): on a state satisfying the stage-1 invariant every core call
answers what the plain multigraph allows and leads to the abstraction of the multigraph's successor -/
theorem refines_step {s : State} (h : Inv1 s) (op : Op) (hc : isCore op = true) :
    SpecAccepts (abs s) op (step s op).2 (abs (step s op).1) := by
  have hi := h.1
  cases op <;> simp only [isCore] at hc <;> (try cases hc) <;> simp only [step, SpecAccepts]
  case new d => close_acc
  case fromEdges l =>
    obtain ⟨h1, h2⟩ := abs_extendWithEdges l (empty s.endv s.directed) (inv_empty _ _)
    have he : abs (empty s.endv s.directed) = CGS.empty (abs s).cap (abs s).directed := rfl
    rw [he] at h1 h2
    rcases hm : extendWithEdges (empty s.endv s.directed) l with ⟨g, ok⟩
    rw [hm] at h1 h2
    simp only at h1 h2
    rw [← h2]
    cases ok with
    | true => simp only [if_true]; acc_r (h1)
    | false => simp only [Bool.false_eq_true, if_false]; close_acc
  case fromElements l =>
    have h1 := abs_fromElements l (empty s.endv s.directed) (inv_empty _ _)
    have he : abs (empty s.endv s.directed) = CGS.empty (abs s).cap (abs s).directed := rfl
    rw [he] at h1
    rw [← h1]
    cases fromElements (empty s.endv s.directed) l with
    | none => close_acc
    | some g => close_acc
  case addNode w =>
    have h1 := abs_tryAddNode hi w
    rw [abs_nodes_length]
    cases hsp : CGS.addNode (abs s) w with
    | none => rw [hsp] at h1; simp only [h1]; close_acc
    | some g =>
      rw [hsp] at h1
      obtain ⟨s', hs', habs⟩ := h1
      simp only [hs']; acc_r (habs)
  case tryAddNode w =>
    have h1 := abs_tryAddNode hi w
    rw [abs_nodes_length]
    cases hsp : CGS.addNode (abs s) w with
    | none => rw [hsp] at h1; simp only [h1]; close_acc
    | some g =>
      rw [hsp] at h1
      obtain ⟨s', hs', habs⟩ := h1
      simp only [hs']; acc_r (habs)
  case addEdge a b w =>
    have := addEdgeAcc_abs hi false a b w
    rcases hr : tryAddEdge s a b w with ⟨s', r⟩
    simp only [hr, resOut, Bool.false_eq_true, if_false] at this
    cases r <;> exact this
  case tryAddEdge a b w =>
    have := addEdgeAcc_abs hi true a b w
    simpa [resOut] using this
  case updateEdge a b w =>
    cases hu : tryUpdateEdge s a b w with
    | error f =>
      exfalso
      obtain ⟨fr, hfr, _, _⟩ := hi.findEdge_spec a b
      unfold tryUpdateEdge at hu
      rw [hfr] at hu
      cases fr with
      | none => simp at hu
      | some ix => simp only at hu; split at hu <;> simp at hu
    | ok v =>
      obtain ⟨s', r⟩ := v
      have := updateEdgeAcc_abs hi false a b w hu
      simp only [resOut, Bool.false_eq_true, if_false] at this
      simp only [liftF]
      cases r <;> exact this
  case tryUpdateEdge a b w =>
    cases hu : tryUpdateEdge s a b w with
    | error f =>
      exfalso
      obtain ⟨fr, hfr, _, _⟩ := hi.findEdge_spec a b
      unfold tryUpdateEdge at hu
      rw [hfr] at hu
      cases fr with
      | none => simp at hu
      | some ix => simp only at hu; split at hu <;> simp at hu
    | ok v =>
      obtain ⟨s', r⟩ := v
      have := updateEdgeAcc_abs hi true a b w hu
      simpa [liftF, resOut] using this
  case nodeWeightMut a w =>
    rw [abs_nodes_get]
    unfold setNodeWeight
    cases hnd : s.nodes[a]? with
    | none => close_acc
    | some nd => acc_r (abs_setNodeWeight hnd w)
  case edgeWeightMut e w =>
    rw [abs_edges_get]
    unfold setEdgeWeight
    cases hed : s.edges[e]? with
    | none => close_acc
    | some ed => acc_r (abs_setEdgeWeight hed w)
  case indexMutNode a w =>
    rw [abs_nodes_length]
    unfold setNodeWeight
    by_cases ha : a < s.nodes.length
    · rw [List.getElem?_eq_getElem ha]
      simp only [ha, if_true]
      acc_r (abs_setNodeWeight (List.getElem?_eq_getElem ha) w)
    · rw [List.getElem?_eq_none (by omega)]
      simp only [ha, if_false]
      close_acc
  case indexMutEdge e w =>
    rw [abs_edges_length]
    unfold setEdgeWeight
    by_cases he : e < s.edges.length
    · rw [List.getElem?_eq_getElem he]
      simp only [he, if_true]
      acc_r (abs_setEdgeWeight (List.getElem?_eq_getElem he) w)
    · rw [List.getElem?_eq_none (by omega)]
      simp only [he, if_false]
      close_acc
  case indexTwiceMut ki kj i j wi wj =>
    simp only [spInBounds_abs]
    by_cases hok : (ki ≠ kj ∨ i ≠ j) ∧ inBounds s ki i = true ∧ inBounds s kj j = true
    · have hv : indexTwiceMut s ki kj i j wi wj = some (putWeight (putWeight s ki i wi) kj j wj) := by
        unfold indexTwiceMut
        have hc1 : (!(ki != kj || i != j)) = false := by
          rcases hok.1 with h1 | h1 <;> simp [h1]
        have hc2 : (!(inBounds s ki i) || !(inBounds s kj j)) = false := by simp [hok.2.1, hok.2.2]
        simp only [hc1, hc2, Bool.false_eq_true, if_false]
      rw [hv, if_pos hok]
      refine ⟨by first | rfl | trivial, ?_⟩
      rw [abs_putWeight _ kj j wj (by rw [inBounds_putWeight]; exact hok.2.2), abs_putWeight s ki i wi hok.2.1]
    · have hv : indexTwiceMut s ki kj i j wi wj = none := by
        unfold indexTwiceMut
        by_cases h1 : ki ≠ kj ∨ i ≠ j
        · have hc1 : (!(ki != kj || i != j)) = false := by
            rcases h1 with h1 | h1 <;> simp [h1]
          have hc2 : (!(inBounds s ki i) || !(inBounds s kj j)) = true := by
            by_cases hx : inBounds s ki i = true
            · have : inBounds s kj j = false := by
                cases hy : inBounds s kj j with
                | true => exact absurd ⟨h1, hx, hy⟩ hok
                | false => rfl
              simp [this]
            · simp [hx]
          simp only [hc1, hc2, Bool.false_eq_true, if_false, if_true]
        · have hc1 : (!(ki != kj || i != j)) = true := by
            have hk : ki = kj := by by_contra hk; exact h1 (Or.inl hk)
            have hij : i = j := by by_contra hij; exact h1 (Or.inr hij)
            simp [hk, hij]
          simp only [hc1, if_true]
      rw [hv, if_neg hok]
      close_acc
  case bumpNodes d => acc_r (abs_bumpNodes s d)
  case bumpEdges d => acc_r (abs_bumpEdges s d)
  case reverse => acc_r (abs_reverse s)
  case clear => acc_r (abs_clear s)
  case clearEdges => acc_r (abs_clearEdges s)
  case extendWithEdges l =>
    obtain ⟨h1, h2⟩ := abs_extendWithEdges l s hi
    rcases hm : extendWithEdges s l with ⟨g, ok⟩
    rw [hm] at h1 h2
    simp only at h1 h2
    rw [← h2]
    cases ok <;> acc_l (h1)
  case map dn de => acc_r (abs_mapWeights s dn de)
  case intoEdgeType d => close_acc
  case clone => close_acc
  case capacityOp => close_acc
  case nodeCount => acc_l (by rw [abs_nodes_length])
  case edgeCount => acc_l (by rw [abs_edges_length])
  case isDirected => close_acc
  case nodeWeight a => acc_l (by rw [abs_nodes_get])
  case edgeWeight e => acc_l (by rw [abs_edges_get]; cases s.edges[e]? <;> rfl)
  case indexNode a =>
    rw [abs_nodes_get]
    cases s.nodes[a]? <;> close_acc
  case indexEdge e =>
    rw [abs_edges_get]
    cases s.edges[e]? <;> close_acc
  case edgeEndpoints e =>
    rw [abs_edges_get]
    cases s.edges[e]? <;> close_acc
  case findEdge a b =>
    obtain ⟨fr, hfr, hf1, hf2⟩ := hi.findEdge_spec a b
    simp only [hfr, liftF]
    refine ⟨by first | rfl | trivial, ?_⟩
    cases fr with
    | none =>
      left
      refine ⟨by first | rfl | trivial, ?_⟩
      cases hh : CGS.hasEdge (abs s) a b with
      | false => rfl
      | true =>
        obtain ⟨e, hc⟩ := (hasEdge_abs s a b).mp hh
        exact absurd hc (hf2 rfl e)
    | some e =>
      right
      obtain ⟨hlt, hcon⟩ := connects_abs (hf1 e rfl)
      exact ⟨e, rfl, hlt, hcon⟩
  case containsEdge a b =>
    obtain ⟨fr, hfr, hf1, hf2⟩ := hi.findEdge_spec a b
    simp only [hfr, liftF]
    refine ⟨?_, by first | rfl | trivial⟩
    cases fr with
    | none =>
      cases hh : CGS.hasEdge (abs s) a b with
      | false => rfl
      | true =>
        obtain ⟨e, hc⟩ := (hasEdge_abs s a b).mp hh
        exact absurd hc (hf2 rfl e)
    | some e =>
      have : CGS.hasEdge (abs s) a b = true := (hasEdge_abs s a b).mpr ⟨e, hf1 e rfl⟩
      simp [this]
  case findEdgeUndirected a b =>
    obtain ⟨fr, hfr, hf1, hf2⟩ := hi.findEdgeUndirected_spec a b
    simp only [hfr, liftF]
    refine ⟨by first | rfl | trivial, ?_⟩
    cases fr with
    | none =>
      left
      refine ⟨by first | rfl | trivial, ?_⟩
      intro ed hed hj
      obtain ⟨e, he⟩ := List.mem_iff_getElem?.mp hed
      rw [abs_edges_get] at he
      cases hx : s.edges[e]? with
      | none => rw [hx] at he; cases he
      | some x =>
        rw [hx] at he
        simp at he
        subst he
        rcases hj with hj | hj
        · exact hf2 rfl e false ⟨x, hx, by simpa [absEdge] using hj⟩
        · exact hf2 rfl e true ⟨x, hx, by simpa [absEdge] using hj⟩
    | some p =>
      right
      obtain ⟨e, k⟩ := p
      obtain ⟨ed, hed, hj⟩ := hf1 e k rfl
      refine ⟨e, k, rfl, by rw [abs_edges_length]; exact lt_of_getElem? hed, ?_⟩
      rw [edgeAt_abs hed]
      cases k <;> simpa [absEdge] using hj
  case neighbors a =>
    have := h.neighborsDirected_eq a false
    simp only [this, liftF, Bool.false_eq_true, if_false]
    acc_r ⟨_, rfl, ListAcc.of_eq _ rfl⟩
  case neighborsDirected a k =>
    have := h.neighborsDirected_eq a k
    simp only [this, liftF]
    acc_r ⟨_, rfl, ListAcc.of_eq _ rfl⟩
  case neighborsUndirected a =>
    have := h.neighborsUndirected_eq a
    simp only [this, liftF]
    acc_r ⟨_, rfl, ListAcc.of_eq _ rfl⟩
  case edges a =>
    have := h.edgesDirected_eq a false
    simp only [this, liftF]
    acc_r ⟨_, rfl, ListAcc.of_eq _ rfl⟩
  case edgesDirected a k =>
    have := h.edgesDirected_eq a k
    simp only [this, liftF]
    acc_r ⟨_, rfl, ListAcc.of_eq _ rfl⟩
  case edgesConnecting a b =>
    have := h.edgesConnecting_eq a b
    simp only [this, liftF]
    acc_r ⟨_, rfl, ListAcc.of_eq _ rfl⟩
  case externals k => acc_l (by rw [hi.externals_eq k])
  case nodeWeights => close_acc
  case edgeRefs => acc_l (by rw [spAllRefs_abs])

theorem isRemoval_of_core {op : Op} (h : isCore op = true) : isRemoval op = false := by
  cases op <;> simp [isCore] at h <;> rfl

/-- the specification never answers with a fault -/
theorem specAccepts_no_fault {sp sp' : CGS.Spec} {op : Op} {f : Fault} : ¬ SpecAccepts sp op (.fault f) sp' := by
  intro h
  cases op <;> simp only [SpecAccepts, AddEdgeAcc, UpdateEdgeAcc] at h
  case fromEdges l => split at h <;> simp at h
  case fromElements l => split at h <;> simp at h
  case addNode w => split at h <;> simp at h
  case tryAddNode w => split at h <;> simp at h
  case addEdge a b w => split at h <;> simp at h
  case tryAddEdge a b w =>
    split at h
    · simp at h
    · rename_i e _; cases e <;> simp at h
  case updateEdge a b w =>
    split at h
    · obtain ⟨e, h1, _⟩ := h; simp at h1
    · split at h <;> simp at h
  case tryUpdateEdge a b w =>
    split at h
    · obtain ⟨e, h1, _⟩ := h; simp at h1
    · split at h
      · simp at h
      · rename_i e _; cases e <;> simp at h
  case nodeWeightMut a w => split at h <;> simp at h
  case edgeWeightMut e w => split at h <;> simp at h
  case indexMutNode a w => split at h <;> simp at h
  case indexMutEdge e w => split at h <;> simp at h
  case indexTwiceMut ki kj i j wi wj => split at h <;> simp at h
  case extendWithEdges l => obtain ⟨_, h2⟩ := h; split at h2 <;> simp at h2
  case indexNode a => obtain ⟨h1, _⟩ := h; split at h1 <;> simp at h1
  case indexEdge e => obtain ⟨h1, _⟩ := h; split at h1 <;> simp at h1
  case findEdge a b =>
    obtain ⟨_, h2⟩ := h
    rcases h2 with ⟨h2, _⟩ | ⟨e, h2, _⟩ <;> simp at h2
  case findEdgeUndirected a b =>
    obtain ⟨_, h2⟩ := h
    rcases h2 with ⟨h2, _⟩ | ⟨e, k, h2, _⟩ <;> simp at h2
  all_goals (first | (obtain ⟨h1, _⟩ := h; simp at h1; done) | (obtain ⟨_, l, h1, _⟩ := h; simp at h1; done) | simp at h)


theorem refines_run : ∀ (ops : List Op) (s : State), Inv1 s → (∀ op ∈ ops, isCore op = true) →
    Inv1 (run s ops).1 ∧ SpecRun (abs s) ops (run s ops).2 (abs (run s ops).1) := by
  intro ops
  induction ops with
  | nil => intro s h _; exact ⟨h, SpecRun.nil _⟩
  | cons op rest ih =>
    intro s h hall
    have hc : isCore op = true := hall op (List.mem_cons_self ..)
    have h1 := inv1_step h op (isRemoval_of_core hc)
    have hacc := refines_step h op hc
    obtain ⟨h2, hrun⟩ := ih (step s op).1 h1 (fun o ho => hall o (List.mem_cons_of_mem _ ho))
    simp only [run]
    exact ⟨h2, SpecRun.cons hacc hrun⟩

end PetgraphModel.GProofs
