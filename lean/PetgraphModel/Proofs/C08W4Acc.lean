import PetgraphModel.Proofs.C08W2Edges
import PetgraphModel.Proofs.C08W2Nest
/-
C08 (wave 4): the clause lemmas of `C08W2Dfsv` / `C08W2Edges` / `C08W2Nest`, restated for ANY event
list the reference machine accepts (`Accepts`), not only for the histories of the model
`dfsSearch`.  The proofs are the wave-2 proofs verbatim: they only ever used the accepted run that
`dfsv_final` provides.  `Proofs/C08W4Judge.lean` shows that every stream the executable judge
`C08.judgeEvents` accepts is `Accepts`-ed on some neighbour order of the abstract graph, so all
clauses hold of every judged implementation answer.
-/
namespace PetgraphModel.TravProofs
open PetgraphModel PetgraphModel.Trav

/-- the reference machine accepts the forward event list `L` (the visitor answering the `k`-th event
with `ctlAt script k`) and ends in a state that matches the result `r` -/
def Accepts (v : View) (starts : List Nat) (script : List Ctl) (L : List Ev) (r : Res) : Prop :=
  ∃ m, run v starts script MS.init 0 L = some m ∧ ResMode r m

/-- every history of the model is accepted (`C08_dfsv_simulation`) -/
theorem accepts_of_dfsSearch {v : View} {script : List Ctl} {fuel : Nat} {starts : List Nat} {s' : VS} {r : Res}
    (h : dfsSearch v script fuel starts {} = (s', r)) : Accepts v starts script s'.evs.reverse r := by
  obtain ⟨m, hrun, _, _, _, hres⟩ := dfsv_final h
  exact ⟨m, hrun, hres⟩

theorem acc_final {v : View} {script : List Ctl} {starts : List Nat} {L : List Ev} {r : Res}
    (h : Accepts v starts script L r) :
    ∃ m, run v starts script MS.init 0 L = some m ∧ True ∧ True ∧ True ∧ ResMode r m := by
  obtain ⟨m, h1, h2⟩ := h
  exact ⟨m, h1, trivial, trivial, trivial, h2⟩

theorem acc_at {v : View} {script : List Ctl} {starts : List Nat} {L : List Ev} {r : Res}
    (h : Accepts v starts script L r) {pre post : List Ev} {e : Ev}
    (hL : L = pre ++ e :: post) :
    ∃ m1 m2 m, run v starts script MS.init 0 pre = some m1 ∧ Inv v m1 pre ∧
      step v starts (ctlAt script pre.length) m1 e = some m2 ∧
      run v starts script m2 (pre.length + 1) post = some m ∧ ResMode r m := by
  obtain ⟨m, hrun, hres⟩ := h
  rw [hL] at hrun
  obtain ⟨m1, m2, h1, h2, h3⟩ := run_split hrun
  exact ⟨m1, m2, m, h1, inv_of_run h1, h2, h3, hres⟩

/-- no node is discovered twice or finished twice; only discovered nodes are finished -/
theorem acc_once {v : View} {script : List Ctl} {starts : List Nat} {L : List Ev} {r : Res}
    (h : Accepts v starts script L r) :
    (discOf L).Nodup ∧ (finOf L).Nodup ∧ (∀ n, n ∈ finOf L → n ∈ discOf L) := by
  obtain ⟨m, hrun, _⟩ := h
  have inv := inv_of_run hrun
  refine ⟨?_, ?_, ?_⟩
  · have := inv.discNodup; rw [inv.discEq] at this; exact nodup_of_reverse this
  · have := inv.finNodup; rw [inv.finEq] at this; exact nodup_of_reverse this
  · intro n hn
    exact (mem_rev_iff inv.discEq).mp (inv.finDisc n ((mem_rev_iff inv.finEq).mpr hn))

/-! ### the clause theorems -/

section
variable {v : View} {script : List Ctl} {starts : List Nat} {L : List Ev} {r : Res}

/-- well-nestedness: the Discover/Finish events match like brackets (every `Finish n` closes the
innermost open `Discover n`); on `Continue` nothing stays open, so every discovered node is finished -/
theorem acc_nested (h : Accepts v starts script L r) :
    nestRun [] L = some (openOf L) ∧
    (r = .cont → openOf L = []) ∧
    (r = .cont → ∀ n, n ∈ discOf L → n ∈ finOf L) := by
  obtain ⟨m, hrun, _, _, _, hres⟩ := acc_final h
  have inv := inv_of_run hrun
  refine ⟨inv.nest, ?_, ?_⟩
  · intro hr; subst hr
    rw [← inv.openEq, hres.2]; rfl
  · intro hr n hn
    subst hr
    apply Classical.byContradiction
    intro hnf
    have : n ∈ m.stack.map Prod.fst :=
      (inv.stackOpen n).mpr ⟨(mem_rev_iff inv.discEq).mpr hn, fun hf => hnf ((mem_rev_iff inv.finEq).mp hf)⟩
    rw [hres.2] at this
    cases this

/-- `Discover(n)`: `n` was undiscovered; it is either a root (no call open, `n` a start node) or
immediately preceded by `TreeEdge(u, n)` answered `Continue`, `u` being the innermost open call -/
theorem acc_discover (h : Accepts v starts script L r) {pre post : List Ev} {n t : Nat}
    (hL : L = pre ++ .discover n t :: post) :
    n ∉ discOf pre ∧
    ((openOf pre = [] ∧ n ∈ starts) ∨
     (∃ u pre', pre = pre' ++ [.tree u n] ∧ ctlAt script pre'.length = .cont)) := by
  obtain ⟨m1, m2, m, h1, inv, h2, _, _⟩ := acc_at h hL
  obtain ⟨_, hn, hmd, _⟩ := step_discover h2
  refine ⟨fun hd => hn ((mem_rev_iff inv.discEq).mpr hd), ?_⟩
  rcases hmd with hmd | ⟨_, hst, hs⟩
  · refine Or.inr ?_
    rcases List.eq_nil_or_concat pre with hp | ⟨pre', e', hp⟩
    · subst hp
      have := run_nil_eq h1
      subst this
      cases hmd
    · rw [List.concat_eq_append] at hp
      subst hp
      obtain ⟨m0, m1', h3, h4, h5⟩ := run_split h1
      have := run_nil_eq h5
      subst this
      have hm := step_mode h4
      rw [hmd] at hm
      obtain ⟨hc, u, he⟩ := modeAfter_expectDisc.mp hm.symm
      exact ⟨u, pre', by rw [he], hc⟩
  · refine Or.inl ⟨?_, hs⟩
    rw [← inv.openEq, hst]; rfl

/-- `Finish(n)` closes the innermost open call, which is `n` -/
theorem acc_finish (h : Accepts v starts script L r) {pre post : List Ev} {n t : Nat}
    (hL : L = pre ++ .finish n t :: post) :
    (∃ rest, openOf pre = n :: rest) ∧ n ∈ discOf pre ∧ n ∉ finOf pre := by
  obtain ⟨m1, m2, m, _, inv, h2, _, _⟩ := acc_at h hL
  obtain ⟨ws, rest, hst, _⟩ := step_finish h2
  have hmap : m1.stack.map Prod.fst = n :: rest.map Prod.fst := by rw [hst]; rfl
  have hn := (inv.stackOpen n).mp (by rw [hmap]; exact List.mem_cons_self ..)
  exact ⟨⟨_, by rw [← inv.openEq, hmap]⟩, (mem_rev_iff inv.discEq).mp hn.1,
    fun hf => hn.2 ((mem_rev_iff inv.finEq).mpr hf)⟩

/-- `TreeEdge(u, w)`: `u` is the innermost open call, `w` a successor of `u` that is undiscovered at
that moment; if the visitor answers `Continue`, `Discover(w)` follows immediately (the stream can
only end there when the model ran out of fuel) -/
theorem acc_tree (h : Accepts v starts script L r) {pre post : List Ev} {u w : Nat}
    (hL : L = pre ++ .tree u w :: post) :
    w ∉ discOf pre ∧ (∃ rest, openOf pre = u :: rest) ∧ w ∈ v.succ u ∧
    (ctlAt script pre.length = .cont →
      (∃ t post', post = .discover w t :: post') ∨ (post = [] ∧ r = .fuel)) := by
  obtain ⟨m1, m2, m, _, inv, h2, h3, hres⟩ := acc_at h hL
  obtain ⟨ws, rest, hst, _, hw, hm2⟩ := step_tree h2
  have hmap : m1.stack.map Prod.fst = u :: rest.map Prod.fst := by rw [hst]; rfl
  refine ⟨fun hd => hw ((mem_rev_iff inv.discEq).mpr hd), ⟨_, by rw [← inv.openEq, hmap]⟩, ?_, ?_⟩
  · obtain ⟨done, hdone⟩ := inv.succOk u (w :: ws) (by rw [hst]; exact List.mem_cons_self ..)
    rw [hdone]; simp
  · intro hc
    have hmode : m2.mode = .expectDisc w := by rw [hm2, hc]; rfl
    rcases run_expectDisc hmode h3 with hp | ⟨post', hp⟩
    · refine Or.inr ⟨hp, ?_⟩
      subst hp
      have := run_nil_eq h3
      subst this
      cases r with
      | fuel => rfl
      | cont => rw [ResMode, hmode] at hres; cases hres.1
      | brk => rw [ResMode, hmode] at hres; cases hres
      | panicPruneFinish => rw [ResMode, hmode] at hres; cases hres
    · exact Or.inl ⟨_, post', hp⟩

/-- `BackEdge(u, w)`: `w` is discovered and not finished — it is an open call at or around the
current one (`u` itself for a self-loop, else a proper ancestor on the recursion stack) -/
theorem acc_back (h : Accepts v starts script L r) {pre post : List Ev} {u w : Nat}
    (hL : L = pre ++ .back u w :: post) :
    w ∈ discOf pre ∧ w ∉ finOf pre ∧ (∃ rest, openOf pre = u :: rest ∧ w ∈ u :: rest) ∧
    w ∈ v.succ u := by
  obtain ⟨m1, m2, m, _, inv, h2, _, _⟩ := acc_at h hL
  obtain ⟨ws, rest, hst, _, hwd, hwf, _⟩ := step_back h2
  have hmap : m1.stack.map Prod.fst = u :: rest.map Prod.fst := by rw [hst]; rfl
  refine ⟨(mem_rev_iff inv.discEq).mp hwd, fun hf => hwf ((mem_rev_iff inv.finEq).mpr hf),
    ⟨_, by rw [← inv.openEq, hmap], ?_⟩, ?_⟩
  · rw [← hmap]; exact (inv.stackOpen w).mpr ⟨hwd, hwf⟩
  · obtain ⟨done, hdone⟩ := inv.succOk u (w :: ws) (by rw [hst]; exact List.mem_cons_self ..)
    rw [hdone]; simp

/-- `CrossForwardEdge(u, w)`: `w` is finished (hence not open) -/
theorem acc_cross (h : Accepts v starts script L r) {pre post : List Ev} {u w : Nat}
    (hL : L = pre ++ .cross u w :: post) :
    w ∈ finOf pre ∧ (∃ rest, openOf pre = u :: rest ∧ w ∉ u :: rest) ∧ w ∈ v.succ u := by
  obtain ⟨m1, m2, m, _, inv, h2, _, _⟩ := acc_at h hL
  obtain ⟨ws, rest, hst, _, hwd, hwf, _⟩ := step_cross h2
  have hmap : m1.stack.map Prod.fst = u :: rest.map Prod.fst := by rw [hst]; rfl
  refine ⟨(mem_rev_iff inv.finEq).mp hwf, ⟨_, by rw [← inv.openEq, hmap], ?_⟩, ?_⟩
  · rw [← hmap]; exact fun hm => ((inv.stackOpen w).mp hm).2 hwf
  · obtain ⟨done, hdone⟩ := inv.succOk u (w :: ws) (by rw [hst]; exact List.mem_cons_self ..)
    rw [hdone]; simp

/-- the class of every edge event is determined by the state of its target at that moment:
tree iff undiscovered, back iff discovered and unfinished, cross/forward iff finished -/
theorem acc_classify (h : Accepts v starts script L r) {pre post : List Ev} {e : Ev}
    {u w : Nat} (hL : L = pre ++ e :: post) (he : edgeOf e = some (u, w)) :
    e = if w ∉ discOf pre then .tree u w else if w ∉ finOf pre then .back u w else .cross u w := by
  have hfd : ∀ x, x ∈ finOf pre → x ∈ discOf pre := by
    intro x hx
    obtain ⟨m1, m2, m, _, inv, _, _, _⟩ := acc_at h hL
    exact (mem_rev_iff inv.discEq).mp (inv.finDisc x ((mem_rev_iff inv.finEq).mpr hx))
  cases e with
  | discover n t => cases he
  | finish n t => cases he
  | tree a x =>
    simp only [edgeOf, Option.some.injEq, Prod.mk.injEq] at he
    obtain ⟨rfl, rfl⟩ := he
    rw [if_pos (acc_tree h hL).1]
  | back a x =>
    simp only [edgeOf, Option.some.injEq, Prod.mk.injEq] at he
    obtain ⟨rfl, rfl⟩ := he
    have := acc_back h hL
    rw [if_neg (fun hn => hn this.1), if_pos this.2.1]
  | cross a x =>
    simp only [edgeOf, Option.some.injEq, Prod.mk.injEq] at he
    obtain ⟨rfl, rfl⟩ := he
    have := acc_cross h hL
    rw [if_neg (fun hn => hn (hfd _ this.1)), if_neg (fun hn => hn this.1)]

/-- `Break` stops immediately: the event answered `Break` is the last one and the result is `Break` -/
theorem acc_break (h : Accepts v starts script L r) {pre post : List Ev} {e : Ev}
    (hL : L = pre ++ e :: post) (hc : ctlAt script pre.length = .brk) :
    post = [] ∧ r = .brk := by
  obtain ⟨m1, m2, m, _, _, h2, h3, hres⟩ := acc_at h hL
  have hmode : m2.mode = .dead := by rw [step_mode h2]; exact modeAfter_dead.mpr hc
  have hp := run_dead (Or.inl hmode) h3
  subst hp
  have := run_nil_eq h3
  subst this
  refine ⟨rfl, ?_⟩
  cases r with
  | brk => rfl
  | cont => rw [ResMode, hmode] at hres; cases hres.1
  | panicPruneFinish => rw [ResMode, hmode] at hres; cases hres
  | fuel =>
    rw [ResMode, hmode] at hres
    rcases hres with h1 | ⟨_, h1⟩ <;> cases h1

/-- `Prune` on a `Finish` event is the documented panic: nothing follows -/
theorem acc_prune_finish (h : Accepts v starts script L r) {pre post : List Ev}
    {n t : Nat} (hL : L = pre ++ .finish n t :: post)
    (hc : ctlAt script pre.length = .prune) : post = [] ∧ r = .panicPruneFinish := by
  obtain ⟨m1, m2, m, _, _, h2, h3, hres⟩ := acc_at h hL
  have hmode : m2.mode = .panic := by
    rw [step_mode h2]; exact modeAfter_panic.mpr ⟨hc, n, t, rfl⟩
  have hp := run_dead (Or.inr hmode) h3
  subst hp
  have := run_nil_eq h3
  subst this
  refine ⟨rfl, ?_⟩
  cases r with
  | panicPruneFinish => rfl
  | cont => rw [ResMode, hmode] at hres; cases hres.1
  | brk => rw [ResMode, hmode] at hres; cases hres
  | fuel =>
    rw [ResMode, hmode] at hres
    rcases hres with h1 | ⟨_, h1⟩ <;> cases h1

/-- the result is `Break` exactly when the visitor answered `Break` to the last event -/
theorem acc_result_brk (h : Accepts v starts script L r) :
    r = .brk ↔ ∃ pre e, L = pre ++ [e] ∧ ctlAt script pre.length = .brk := by
  constructor
  · intro hr
    subst hr
    obtain ⟨m, hrun, _, _, _, hres⟩ := acc_final h
    have hres : m.mode = .dead := hres
    obtain ⟨pre, e, hL, hm⟩ := last_step hrun (by rw [hres]; simp)
    rw [hres] at hm
    exact ⟨pre, e, hL, modeAfter_dead.mp hm.symm⟩
  · rintro ⟨pre, e, hL, hc⟩
    exact (acc_break h hL hc).2

/-- the result is the panic exactly when the visitor answered `Prune` to a final `Finish` -/
theorem acc_result_panic (h : Accepts v starts script L r) :
    r = .panicPruneFinish ↔
      ∃ pre n t, L = pre ++ [.finish n t] ∧ ctlAt script pre.length = .prune := by
  constructor
  · intro hr
    subst hr
    obtain ⟨m, hrun, _, _, _, hres⟩ := acc_final h
    have hres : m.mode = .panic := hres
    obtain ⟨pre, e, hL, hm⟩ := last_step hrun (by rw [hres]; simp)
    rw [hres] at hm
    obtain ⟨hc, n, t, he⟩ := modeAfter_panic.mp hm.symm
    exact ⟨pre, n, t, by rw [hL, he], hc⟩
  · rintro ⟨pre, n, t, hL, hc⟩
    exact (acc_prune_finish h hL hc).2

/-- `Prune` on `Discover(u)` goes straight to `Finish(u)` -/
theorem acc_prune_discover (h : Accepts v starts script L r) {pre post : List Ev}
    {u t : Nat} (hL : L = pre ++ .discover u t :: post)
    (hc : ctlAt script pre.length = .prune) : ∃ post', post = .finish u (t + 1) :: post' := by
  obtain ⟨m1, m2, m, _, _, h2, h3, hres⟩ := acc_at h hL
  obtain ⟨ht, _, _, hm2⟩ := step_discover h2
  have hmode : m2.mode = .expectFin := by rw [hm2, hc]; rfl
  have hst : m2.stack = (u, v.succ u) :: m1.stack := by rw [hm2]
  have htime : m2.time = t + 1 := by rw [hm2, ht]
  rcases run_expectFin hmode hst h3 with hp | ⟨post', hp⟩
  · exfalso
    subst hp
    have := run_nil_eq h3
    subst this
    cases r with
    | cont => rw [ResMode, hmode] at hres; cases hres.1
    | brk => rw [ResMode, hmode] at hres; cases hres
    | panicPruneFinish => rw [ResMode, hmode] at hres; cases hres
    | fuel =>
      rw [ResMode, hmode] at hres
      rcases hres with h1 | ⟨_, h1⟩ <;> cases h1
  · exact ⟨post', by rw [hp, htime]⟩

/-- `Prune` on `TreeEdge(u, w)` skips the subtree: `w` is not entered, the loop over `u`'s
neighbours goes on -/
theorem acc_prune_tree (h : Accepts v starts script L r) {pre post : List Ev}
    {u w : Nat} (hL : L = pre ++ .tree u w :: post)
    (hc : ctlAt script pre.length = .prune) :
    (post = [] ∧ r = .fuel) ∨ ∃ e post', post = e :: post' ∧ fromNode u e := by
  obtain ⟨m1, m2, m, _, _, h2, h3, hres⟩ := acc_at h hL
  obtain ⟨ws, rest, _, _, _, hm2⟩ := step_tree h2
  exact dfsv_goes_on (u := u) (ws := ws) (rest := rest) (by rw [hm2, hc]; rfl) (by rw [hm2]) h3 hres

/-- `Continue` and `Prune` are the same on back and cross/forward edges: the loop over `u`'s
neighbours goes on -/
theorem acc_nontree_next (h : Accepts v starts script L r) {pre post : List Ev}
    {e : Ev} {u w : Nat} (hL : L = pre ++ e :: post)
    (he : e = .back u w ∨ e = .cross u w) (hc : ctlAt script pre.length ≠ .brk) :
    (post = [] ∧ r = .fuel) ∨ ∃ e' post', post = e' :: post' ∧ fromNode u e' := by
  obtain ⟨m1, m2, m, _, _, h2, h3, hres⟩ := acc_at h hL
  have hae : afterEdge (ctlAt script pre.length) = .run := by
    cases hcc : ctlAt script pre.length <;> simp_all [afterEdge]
  rcases he with he | he <;> subst he
  · obtain ⟨ws, rest, _, _, _, _, hm2⟩ := step_back h2
    exact dfsv_goes_on (u := u) (ws := ws) (rest := rest) (by rw [hm2, hae]) (by rw [hm2]) h3 hres
  · obtain ⟨ws, rest, _, _, _, _, hm2⟩ := step_cross h2
    exact dfsv_goes_on (u := u) (ws := ws) (rest := rest) (by rw [hm2, hae]) (by rw [hm2]) h3 hres

end


/-- between `Discover(u)` — not answered `Prune` — and `Finish(u)`, the edge events with source `u`
report exactly the successors of `u`, each once, in neighbour order -/
theorem acc_edges_complete {v : View} {script : List Ctl} {starts : List Nat} {L : List Ev}
    {r : Res} (h : Accepts v starts script L r) {pre mid post : List Ev} {u t t' : Nat}
    (hL : L = pre ++ .discover u t :: (mid ++ .finish u t' :: post))
    (hc : ctlAt script pre.length ≠ .prune) : uEdges u mid = v.succ u := by
  have hL2 : L = (pre ++ .discover u t :: mid) ++ .finish u t' :: post := by
    rw [hL]; simp
  obtain ⟨m3, m4, m, h3, inv3, hs3, _, _⟩ := acc_at h hL2
  have hfin := (acc_finish h hL2).2.2
  obtain ⟨ws, rest, hst3, _, hmd3, _⟩ := step_finish hs3
  -- split the run to the state right after `Discover(u)`
  have hsplit : pre ++ .discover u t :: mid = (pre ++ [.discover u t]) ++ mid := by simp
  obtain ⟨m1, m2, h1, hs1, h2⟩ := run_split h3
  obtain ⟨_, hund, _, hm2⟩ := step_discover hs1
  have h12 := run_snoc h1 hs1
  have hlen : (pre ++ [Ev.discover u t]).length = pre.length + 1 := by simp
  have hdu : u ∈ discOf (pre ++ [Ev.discover u t]) := by
    simp [discOf, List.filterMap_append]
  have hrem := rem_run (u := u) mid (pre ++ [.discover u t]) m2 m3 h12 (by rw [hlen]; exact h2) hdu
    (by rw [← hsplit]; exact hfin)
  have hrem2 : remOf u m2.stack = v.succ u := by rw [hm2]; simp [remOf]
  have hrem3 : remOf u m3.stack = ws := by rw [hst3]; simp [remOf]
  rw [hrem2, hrem3] at hrem
  have hws : ws = [] := by
    rcases hmd3 with hmd3 | hmd3
    · exact hmd3.2
    · exfalso
      obtain ⟨pre', e', hpe, hm⟩ := last_step h3 (by rw [hmd3]; simp)
      rw [hmd3] at hm
      obtain ⟨hcp, n, tn, he'⟩ := modeAfter_expectFin.mp hm.symm
      subst he'
      rcases List.eq_nil_or_concat mid with hmid | ⟨mid', e2, hmid⟩
      · subst hmid
        have : pre ++ [Ev.discover u t] = pre' ++ [Ev.discover n tn] := by simpa using hpe
        have hpp := List.append_inj' this rfl
        rw [← hpp.1] at hcp
        exact hc hcp
      · rw [List.concat_eq_append] at hmid
        subst hmid
        have : (pre ++ Ev.discover u t :: mid') ++ [e2] = pre' ++ [Ev.discover n tn] := by
          rw [← hpe]; simp
        have hpp := List.append_inj' this rfl
        have he2 : e2 = Ev.discover n tn := by simpa using hpp.2
        subst he2
        -- the state before this last `Discover(n)` already has `u` discovered, and `n = u`
        have h3' : run v starts script MS.init 0 ((pre ++ Ev.discover u t :: mid') ++ Ev.discover n tn :: []) = some m3 := by
          rw [← h3]; simp
        obtain ⟨m5, m6, h5, hs5, h6⟩ := run_split h3'
        have := run_nil_eq h6
        subst this
        obtain ⟨_, hnd5, _, hm6⟩ := step_discover hs5
        have inv5 := inv_of_run h5
        rw [hm6] at hst3
        simp only [List.cons.injEq, Prod.mk.injEq] at hst3
        have hnu : n = u := hst3.1.1
        subst hnu
        apply hnd5
        rw [inv5.discEq, List.mem_reverse]
        simp [discOf, List.filterMap_append]
  rw [hws, List.append_nil] at hrem
  exact hrem.symm


/-- the machine's clock: the Discover/Finish times of an accepted run are consecutive -/
theorem run_times {v : View} {starts : List Nat} {script : List Ctl} :
    ∀ (l : List Ev) (m : MS) (k : Nat) (m' : MS), run v starts script m k l = some m' →
      l.filterMap evTime = List.range' m.time (m'.time - m.time) ∧ m.time ≤ m'.time := by
  intro l
  induction l with
  | nil =>
    intro m k m' h
    have := run_nil_eq h
    subst this
    simp
  | cons e l ih =>
    intro m k m' h
    obtain ⟨m2, h2, h3⟩ := run_cons h
    obtain ⟨ih1, ih2⟩ := ih m2 (k + 1) m' h3
    cases e with
    | discover n t =>
      obtain ⟨ht, _, _, hm2⟩ := step_discover h2
      have htm : m2.time = m.time + 1 := by rw [hm2]
      rw [htm] at ih1 ih2
      refine ⟨?_, by omega⟩
      simp only [List.filterMap_cons, evTime, ih1, ht]
      have : m'.time - m.time = (m'.time - (m.time + 1)) + 1 := by omega
      rw [this, List.range'_succ]
    | finish n t =>
      obtain ⟨_, _, _, ht, _, hm2⟩ := step_finish h2
      have htm : m2.time = m.time + 1 := by rw [hm2]
      rw [htm] at ih1 ih2
      refine ⟨?_, by omega⟩
      simp only [List.filterMap_cons, evTime, ih1, ht]
      have : m'.time - m.time = (m'.time - (m.time + 1)) + 1 := by omega
      rw [this, List.range'_succ]
    | tree a w =>
      obtain ⟨_, _, _, _, _, hm2⟩ := step_tree h2
      have htm : m2.time = m.time := by rw [hm2]
      rw [htm] at ih1 ih2
      exact ⟨by simp only [List.filterMap_cons, evTime, ih1], ih2⟩
    | back a w =>
      obtain ⟨_, _, _, _, _, _, hm2⟩ := step_back h2
      have htm : m2.time = m.time := by rw [hm2]
      rw [htm] at ih1 ih2
      exact ⟨by simp only [List.filterMap_cons, evTime, ih1], ih2⟩
    | cross a w =>
      obtain ⟨_, _, _, _, _, _, hm2⟩ := step_cross h2
      have htm : m2.time = m.time := by rw [hm2]
      rw [htm] at ih1 ih2
      exact ⟨by simp only [List.filterMap_cons, evTime, ih1], ih2⟩

/-- event times of an accepted stream are `0, 1, 2, …` in order of the Discover/Finish events -/
theorem acc_times {v : View} {script : List Ctl} {starts : List Nat} {L : List Ev} {r : Res}
    (h : Accepts v starts script L r) :
    L.filterMap evTime = List.range (L.filterMap evTime).length := by
  obtain ⟨m, hrun, _⟩ := h
  have := (run_times L MS.init 0 m hrun).1
  simp only [MS.init, Nat.sub_zero] at this
  rw [this, List.length_range', List.range_eq_range']

/-- on `Continue` the whole event stream is a well-parenthesised word -/
theorem acc_balanced {v : View} {script : List Ctl} {starts : List Nat} {L : List Ev}
    (h : Accepts v starts script L .cont) : Balanced L := by
  have hn := acc_nested h
  rw [hn.2.1 rfl] at hn
  exact (balanced_iff_nest _).mpr hn.1

end PetgraphModel.TravProofs
