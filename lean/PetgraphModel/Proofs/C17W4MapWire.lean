import PetgraphModel.Proofs.C17W4Wire
import PetgraphModel.Proofs.C17W2Map
/-
C17 wave 4 — `absWire` is sound for `GraphMap` too: `from_graph` of a consistent `Graph` builds exactly the simple graph
`mapOfGraph` describes (node values in first-occurrence order, one edge per canonical key in first-occurrence order with
the LAST weight), so a valid stream below the capacity of `u32` is loaded by the mirror model as the map `absWire` says.
-/
namespace PetgraphModel.SerdeProofs
open PetgraphModel.Serde PetgraphModel.SerdeSpec PetgraphModel.SerdeCheck

/-! ### node keys -/

def keysStep (acc : List Int) (w : Int) : List Int := if acc.contains w then acc else acc ++ [w]

theorem assocUpsert_keys_mem {ν : Type} (l : List (Int × ν)) (k : Int) (d : ν) (f : ν → ν) (h : k ∈ l.map (·.1)) :
    (assocUpsert l k d f).map (·.1) = l.map (·.1) := by
  induction l with
  | nil => simp at h
  | cons x t ih =>
    obtain ⟨k', v⟩ := x
    rw [assocUpsert_cons]
    by_cases hk : k' = k
    · rw [if_pos hk]; rfl
    · rw [if_neg hk]
      simp only [List.map_cons, List.mem_cons] at h
      rcases h with h | h
      · exact absurd h.symm hk
      · simp only [List.map_cons, ih h]

theorem addNode_keys (m : GMap) (w : Int) : (m.addNode w).nodes.map (·.1) = keysStep (m.nodes.map (·.1)) w := by
  unfold GMap.addNode keysStep
  by_cases h : w ∈ m.nodes.map (·.1)
  · rw [if_pos (by simpa using h)]
    exact assocUpsert_keys_mem m.nodes w [] id h
  · rw [if_neg (by simpa using h)]
    simp only [assocUpsert_of_not_mem m.nodes w [] id h, List.map_append, List.map_cons, List.map_nil]

theorem fgNode_fold_keys : ∀ (nds : List NodeSlot) (acc : GMap),
    (nds.foldl fgNode acc).nodes.map (·.1) = (nds.filterMap (fun (n : NodeSlot) => n.w)).foldl keysStep (acc.nodes.map (·.1)) ∧
    (nds.foldl fgNode acc).edges = acc.edges ∧ (nds.foldl fgNode acc).directed = acc.directed := by
  intro nds
  induction nds with
  | nil => intro acc; exact ⟨rfl, rfl, rfl⟩
  | cons nd t ih =>
    intro acc
    rw [List.foldl_cons]
    cases hw : nd.w with
    | none =>
      have : fgNode acc nd = acc := by simp [fgNode, hw]
      rw [this]
      simp only [List.filterMap_cons, hw]
      exact ih acc
    | some w =>
      have : fgNode acc nd = acc.addNode w := by simp [fgNode, hw]
      rw [this]
      obtain ⟨h1, h2, h3⟩ := ih (acc.addNode w)
      simp only [List.filterMap_cons, hw, List.foldl_cons]
      rw [← addNode_keys]
      exact ⟨h1, h2, h3⟩

theorem keysStep_fold_mono (ws : List Int) : ∀ (acc : List Int) (x : Int), x ∈ acc → x ∈ ws.foldl keysStep acc := by
  induction ws with
  | nil => intro acc x h; exact h
  | cons w t ih =>
    intro acc x h
    rw [List.foldl_cons]
    apply ih
    unfold keysStep
    split
    · exact h
    · exact List.mem_append_left _ h

theorem keysStep_fold_mem (ws : List Int) : ∀ (acc : List Int) (x : Int), x ∈ ws → x ∈ ws.foldl keysStep acc := by
  induction ws with
  | nil => intro acc x h; simp at h
  | cons w t ih =>
    intro acc x h
    rw [List.foldl_cons]
    rcases List.mem_cons.1 h with rfl | h
    · apply keysStep_fold_mono
      unfold keysStep
      split
      · rename_i hc; simpa using hc
      · simp
    · exact ih _ x h

/-! ### the edge map -/

def ekey (d : Bool) (wa wb : Int) : Int × Int := if d || wa ≤ wb then (wa, wb) else (wb, wa)

def edgeStep (key : Int × Int) (w : Int) (acc : List ((Int × Int) × Int)) : List ((Int × Int) × Int) :=
  if acc.any (·.1 == key) then acc.map fun (k, v) => if k == key then (k, w) else (k, v) else acc ++ [(key, w)]

theorem assocIdx_none_iff {ν : Type} (l : List ((Int × Int) × ν)) (k : Int × Int) :
    assocIdx l k = none ↔ k ∉ l.map (·.1) := by
  constructor
  · intro h hm
    obtain ⟨i, hi, _⟩ := assocIdx_some_of_mem l k hm
    rw [h] at hi; cases hi
  · exact assocIdx_none_of_not_mem l k

theorem modify_eq_map_of_nodup (l : List ((Int × Int) × Int)) (key : Int × Int) (w : Int) (hn : (l.map (·.1)).Nodup) :
    ∀ i, assocIdx l key = some i →
      l.modify i (fun (k, _) => (k, w)) = l.map fun (k, v) => if k == key then (k, w) else (k, v) := by
  induction l with
  | nil => intro i h; simp [assocIdx] at h
  | cons x t ih =>
    intro i h
    obtain ⟨k', v⟩ := x
    obtain ⟨hx, ht⟩ := List.nodup_cons.1 hn
    rw [assocIdx_cons] at h
    by_cases hk : k' = key
    · rw [if_pos hk] at h
      cases h
      subst hk
      simp only [List.modify_zero_cons, List.map_cons, beq_self_eq_true, if_true, List.cons.injEq, true_and]
      symm
      conv => rhs; rw [← List.map_id t]
      apply List.map_congr_left
      rintro ⟨k, v'⟩ hm
      have : k ≠ k' := by
        rintro rfl
        exact hx (List.mem_map.2 ⟨(k, v'), hm, rfl⟩)
      have hb : (k == k') = false := by simpa using this
      simp [hb]
    · rw [if_neg hk] at h
      cases hi : assocIdx t key with
      | none => simp [hi] at h
      | some j =>
        simp only [hi, Option.map_some, Option.some.injEq] at h
        subst h
        have hb : (k' == key) = false := by simpa using hk
        simp only [List.modify_succ_cons, List.map_cons, hb, Bool.false_eq_true, if_false, List.cons.injEq, true_and]
        exact ih ht j hi

theorem addEdge_spec (m : GMap) (a b w : Int) (hn : (m.edges.map (·.1)).Nodup)
    (ha : a ∈ m.nodes.map (·.1)) (hb : b ∈ m.nodes.map (·.1)) :
    (m.addEdge a b w).1.edges = edgeStep (ekey m.directed a b) w m.edges ∧
    (m.addEdge a b w).1.nodes.map (·.1) = m.nodes.map (·.1) ∧ (m.addEdge a b w).1.directed = m.directed ∧
    ((m.addEdge a b w).1.edges.map (·.1)).Nodup := by
  have hkey : m.edgeKey a b = ekey m.directed a b := rfl
  unfold GMap.addEdge
  simp only [hkey]
  cases hi : assocIdx m.edges (ekey m.directed a b) with
  | some i =>
    simp only []
    have hmem : (ekey m.directed a b) ∈ m.edges.map (·.1) := by
      by_cases hc : (ekey m.directed a b) ∈ m.edges.map (·.1)
      · exact hc
      · rw [(assocIdx_none_iff m.edges _).2 hc] at hi; cases hi
    have hany : m.edges.any (·.1 == ekey m.directed a b) = true := by
      obtain ⟨x, hx, hx'⟩ := List.mem_map.1 hmem
      exact List.any_eq_true.2 ⟨x, hx, by simp [hx']⟩
    have hmod := modify_eq_map_of_nodup m.edges (ekey m.directed a b) w hn i hi
    refine ⟨?_, trivial, trivial, ?_⟩
    · simp only [edgeStep, hany, if_true]
      exact hmod
    · show ((m.edges.modify i fun (k, _) => (k, w)).map (·.1)).Nodup
      have : (m.edges.modify i fun (k, _) => (k, w)).map (·.1) = m.edges.map (·.1) := by
        rw [hmod, List.map_map]
        apply List.map_congr_left
        rintro ⟨k, v⟩ _
        simp only [Function.comp]
        split <;> rfl
      rw [this]; exact hn
  | none =>
    simp only []
    have hnm := (assocIdx_none_iff m.edges _).1 hi
    have hany : m.edges.any (·.1 == ekey m.directed a b) = false := by
      rw [Bool.eq_false_iff]
      intro h
      obtain ⟨x, hx, hx'⟩ := List.any_eq_true.1 h
      exact hnm (List.mem_map.2 ⟨x, hx, by simpa using hx'⟩)
    refine ⟨?_, ?_, trivial, ?_⟩
    · simp only [edgeStep, hany, Bool.false_eq_true, if_false]
    · show (if a ≠ b then assocUpsert (assocUpsert m.nodes a [] _) b [] _ else assocUpsert m.nodes a [] _).map (·.1) = _
      have h1 := assocUpsert_keys_mem m.nodes a [] (· ++ [(b, true)]) ha
      split
      · rw [assocUpsert_keys_mem _ b [] _ (by rw [h1]; exact hb), h1]
      · exact h1
    · show ((m.edges ++ [(ekey m.directed a b, w)]).map (·.1)).Nodup
      rw [List.map_append, List.nodup_append]
      refine ⟨hn, by simp, ?_⟩
      intro x hx y hy
      simp only [List.map_cons, List.map_nil, List.mem_singleton] at hy
      subst hy
      rintro rfl
      exact hnm hx

/-- the fold of `from_graph` over the edges, against the fold of `mapOfGraph` -/
theorem fgEdge_fold_spec (d : Bool) (gnodes : List NodeSlot)
    (hall : ∀ (i : Nat) (nd : NodeSlot), gnodes[i]? = some nd → nd.w.isSome = true) :
    ∀ (es : List EdgeSlot) (m : GMap), m.directed = d → (m.edges.map (·.1)).Nodup →
      (∀ x, x ∈ gnodes.filterMap (fun (n : NodeSlot) => n.w) → x ∈ m.nodes.map (·.1)) →
      (∀ e, e ∈ es → e.w.isSome = true ∧ e.src < gnodes.length ∧ e.tgt < gnodes.length) →
      ∃ m', es.foldl (fgEdge gnodes) (some m) = some m' ∧ m'.directed = d ∧
        m'.nodes.map (·.1) = m.nodes.map (·.1) ∧
        m'.edges = (es.filterMap liveSkel).foldl (fun acc (t : Nat × Nat × Int) =>
          match (gnodes[t.1]?).bind (fun (n : NodeSlot) => n.w), (gnodes[t.2.1]?).bind (fun (n : NodeSlot) => n.w) with
          | some wa, some wb => edgeStep (ekey d wa wb) t.2.2 acc
          | _, _ => acc) m.edges := by
  intro es
  induction es with
  | nil => intro m hd _ _ _; exact ⟨m, rfl, hd, rfl, rfl⟩
  | cons e t ih =>
    intro m hd hn hkeys hgood
    obtain ⟨hw, hs, ht⟩ := hgood e (List.mem_cons_self ..)
    obtain ⟨x, hx⟩ := Option.isSome_iff_exists.1 hw
    have hget : ∀ i, i < gnodes.length → ∃ wi, (gnodes[i]?).bind (fun (n : NodeSlot) => n.w) = some wi ∧
        wi ∈ gnodes.filterMap (fun (n : NodeSlot) => n.w) := by
      intro i hi
      have hnd : gnodes[i]? = some gnodes[i] := List.getElem?_eq_getElem hi
      obtain ⟨wi, hwi⟩ := Option.isSome_iff_exists.1 (hall i _ hnd)
      exact ⟨wi, by simp [hnd, hwi], List.mem_filterMap.2 ⟨gnodes[i], List.getElem_mem hi, hwi⟩⟩
    obtain ⟨wa, hwa, hwa'⟩ := hget e.src hs
    obtain ⟨wb, hwb, hwb'⟩ := hget e.tgt ht
    obtain ⟨h1, h2, h3, h4⟩ := addEdge_spec m wa wb x hn (hkeys wa hwa') (hkeys wb hwb')
    have hstep : fgEdge gnodes (some m) e = some (m.addEdge wa wb x).1 := by
      simp only [fgEdge, hwa, hwb, hx]
    obtain ⟨m', hm', hd', hk', he'⟩ := ih (m.addEdge wa wb x).1 (by rw [h3]; exact hd) h4
      (by rw [h2]; exact hkeys) (fun e' he' => hgood e' (List.mem_cons_of_mem _ he'))
    refine ⟨m', by rw [List.foldl_cons, hstep]; exact hm', hd', by rw [hk', h2], ?_⟩
    rw [he']
    have hsk : liveSkel e = some (e.src, e.tgt, x) := by simp [liveSkel, hx]
    simp only [List.filterMap_cons, hsk, List.foldl_cons, hwa, hwb, h1, hd]

/-! ### `mapOfGraph` over the live lists of a graph -/

theorem lookup_enum (l : List NodeSlot) : ∀ (j a : Nat),
    ((enumFrom j l).filterMap (fun (x : Nat × NodeSlot) => x.2.w.map fun w => (x.1, w))).lookup a =
      if j ≤ a then (l[a - j]?).bind (fun (n : NodeSlot) => n.w) else none := by
  induction l with
  | nil => intro j a; simp [enumFrom]
  | cons n t ih =>
    intro j a
    simp only [enumFrom, List.filterMap_cons]
    cases hw : n.w with
    | none =>
      simp only [Option.map_none]
      rw [ih (j + 1) a]
      by_cases h1 : j + 1 ≤ a
      · have : a - j = (a - (j + 1)) + 1 := by omega
        rw [if_pos h1, if_pos (by omega), this, List.getElem?_cons_succ]
      · rw [if_neg h1]
        by_cases h2 : j ≤ a
        · have : a - j = 0 := by omega
          rw [if_pos h2, this]; simp [hw]
        · rw [if_neg h2]
    | some w =>
      simp only [Option.map_some, List.lookup_cons]
      by_cases hja : a = j
      · subst hja
        simp [hw]
      · have hb : (a == j) = false := by simpa using hja
        rw [hb, ih (j + 1) a]
        by_cases h1 : j + 1 ≤ a
        · have : a - j = (a - (j + 1)) + 1 := by omega
          rw [if_pos h1, if_pos (by omega), this, List.getElem?_cons_succ]
        · rw [if_neg h1, if_neg (by omega)]

theorem lookup_liveNodes (g : Raw) (a : Nat) :
    (liveNodes g).lookup a = (g.nodes[a]?).bind (fun (n : NodeSlot) => n.w) := by
  have := lookup_enum g.nodes 0 a
  simpa [liveNodes] using this

theorem liveNodes_map_snd (l : List NodeSlot) : ∀ j,
    ((enumFrom j l).filterMap (fun (x : Nat × NodeSlot) => x.2.w.map fun w => (x.1, w))).map (·.2) =
      l.filterMap (fun (n : NodeSlot) => n.w) := by
  induction l with
  | nil => intro j; rfl
  | cons n t ih =>
    intro j
    cases hw : n.w <;> simp [enumFrom, hw, ih (j + 1)]

theorem liveEdges_map_skel (l : List EdgeSlot) : ∀ j,
    ((enumFrom j l).filterMap (fun (x : Nat × EdgeSlot) => x.2.w.map fun w => (x.1, x.2.src, x.2.tgt, w))).map
        (fun (t : Nat × Nat × Nat × Int) => (t.2.1, t.2.2.1, t.2.2.2)) =
      l.filterMap liveSkel := by
  induction l with
  | nil => intro j; rfl
  | cons e t ih =>
    intro j
    cases hw : e.w <;> simp [enumFrom, hw, liveSkel, ih (j + 1)]

/-- **`from_graph` builds what `mapOfGraph` says** -/
theorem fromGraph_spec (g : Raw) (hI : GraphInv g) :
    ∃ m, GMap.fromGraph g = some m ∧ m.directed = g.directed ∧
      m.nodes.map (·.1) = (mapOfGraph g.directed (liveNodes g) (liveEdges g)).1 ∧
      m.edges = (mapOfGraph g.directed (liveNodes g) (liveEdges g)).2 := by
  rw [fromGraph_eq]
  obtain ⟨k1, k2, k3⟩ := fgNode_fold_keys g.nodes (GMap.empty g.directed)
  obtain ⟨m', hm', hd', hk', he'⟩ := fgEdge_fold_spec g.directed g.nodes hI.allNodes g.edges
    (g.nodes.foldl fgNode (GMap.empty g.directed)) (by rw [k3]; rfl) (by rw [k2]; simp [GMap.empty])
    (by
      intro x hx
      rw [k1]
      exact keysStep_fold_mem _ _ x hx)
    (by
      intro e he
      obtain ⟨i, hi⟩ := List.getElem?_of_mem he
      have hw := hI.allEdges i e hi
      obtain ⟨⟨a, ha, _⟩, ⟨b, hb, _⟩⟩ := hI.endpoints i e hi hw
      exact ⟨hw, (List.getElem?_eq_some_iff.1 ha).1, (List.getElem?_eq_some_iff.1 hb).1⟩)
  refine ⟨m', hm', hd', ?_, ?_⟩
  · rw [hk', k1]
    simp only [mapOfGraph, GMap.empty, List.map_nil]
    have : (liveNodes g).foldl (fun acc (x : Nat × Int) => if acc.contains x.2 then acc else acc ++ [x.2]) ([] : List Int) =
        ((liveNodes g).map (·.2)).foldl keysStep [] := by
      rw [List.foldl_map]; rfl
    rw [this]
    have := liveNodes_map_snd g.nodes 0
    unfold liveNodes
    rw [this]
  · rw [he', k2]
    simp only [mapOfGraph, GMap.empty]
    have hsk := liveEdges_map_skel g.edges 0
    have : liveEdges g = (enumFrom 0 g.edges).filterMap
        (fun (x : Nat × EdgeSlot) => x.2.w.map fun w => (x.1, x.2.src, x.2.tgt, w)) := rfl
    rw [← hsk, ← this, List.foldl_map]
    congr 1
    funext acc t
    obtain ⟨i, a, b, w⟩ := t
    simp only [lookup_liveNodes]
    cases (g.nodes[a]?).bind (fun (n : NodeSlot) => n.w) <;> cases (g.nodes[b]?).bind (fun (n : NodeSlot) => n.w) <;>
      rfl

/-- **`wireValid` / `absWire` are sound, `GraphMap`**: a valid stream below the capacity of `u32` is loaded by the mirror
model as exactly the map `absWire` says — the node values in first-occurrence order, one edge per canonical key with the
last weight. -/
theorem wireValid_loads_map (directed : Bool) (order : List Field) (w : Wire)
    (hv : wireValid .map 4294967295 directed order w = true)
    (hcapN : w.nodes.length < 4294967295) (hcapE : w.edges.length < 4294967295) :
    ∃ m, deMap directed order w = .ok m ∧ m.directed = directed ∧
      m.nodes.map (·.1) = (absWire .map 4294967295 directed order w).mnodes ∧
      m.edges = (absWire .map 4294967295 directed order w).medges := by
  have hv' : wireValid .graph 4294967295 directed order w = true := hv
  obtain ⟨g, hg, hI, hN, hE⟩ := wireValid_loads_graph 4294967295 directed order w hv' hcapN hcapE
  obtain ⟨h1, h2⟩ := absWire_nodes .graph (by decide) 4294967295 directed order w
  rw [h1] at hN
  rw [h2] at hE
  have hd : g.directed = directed := (deGraph_de hg).hdir
  obtain ⟨m, hm, hmd, hmn, hme⟩ := fromGraph_spec g hI
  refine ⟨m, ?_, by rw [hmd, hd], ?_, ?_⟩
  · unfold deMap
    rw [hg]
    simp only [hm]
  · rw [hmn, hN, hE, hd]
    simp only [absWire]
  · rw [hme, hN, hE, hd]
    simp only [absWire]

end PetgraphModel.SerdeProofs
