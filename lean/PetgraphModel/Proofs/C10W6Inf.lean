import PetgraphModel.Proofs.C10Judge
import PetgraphModel.Proofs.C10KWalks
import PetgraphModel.Driver.C10
/-
Wave 6 — corners of C10.

* `+∞` costs (`f64inf` requests): the sentinel judges `okDijInf`, `okKspInfF`, `okAstarInf` accept an answer only if
  it is the `canonInf S`-image of an answer the ordinary (proved) judge accepts; what an accepted answer says about
  the abstract graph follows from the ordinary soundness theorems.
* the two view classifiers of the driver (`d23Shape`, `d6Shape`) are consulted only for a view that FAILED the side
  condition, and each shape pins the rows completely (they are functions of the declared graph).
-/
namespace PetgraphModel.C10P
open PetgraphModel PetgraphModel.MGraph PetgraphModel.Oracle PetgraphModel.C10

/-! ### canonical form -/

theorem canonInf_of_lt {S c : Int} (h : c < S) : canonInf S c = c := by
  unfold canonInf; split <;> omega

theorem canonInf_of_le {S c : Int} (h : S ≤ c) : canonInf S c = S := by
  unfold canonInf; split <;> omega

theorem canonInf_le (S c : Int) : canonInf S c ≤ S := by
  unfold canonInf; split <;> omega

theorem canonInf_mono {S a b : Int} (h : a ≤ b) : canonInf S a ≤ canonInf S b := by
  unfold canonInf; split <;> split <;> omega

theorem canonInf_idem (S c : Int) : canonInf S (canonInf S c) = canonInf S c := by
  by_cases h : S ≤ c
  · rw [canonInf_of_le h, canonInf_of_le (Int.le_refl S)]
  · have hc : c < S := by omega
    rw [canonInf_of_lt hc, canonInf_of_lt hc]

theorem liftVal_ge (S : Int) (r : Option Int) : S ≤ liftVal S r := by
  unfold liftVal
  split
  · split <;> omega
  · omega

/-- the canonical image of a map -/
def canonPairs (S : Int) (m : List (Nat × Int)) : List (Nat × Int) := m.map fun vc => (vc.1, canonInf S vc.2)

/-- lifting is a right inverse of canonicalisation on answers that stay `≤ S` -/
theorem canon_liftInf (S : Int) (ref : Nat → Option Int) :
    ∀ (m : List (Nat × Int)), belowInf S m = true → canonPairs S (liftInf S ref m) = m := by
  intro m
  induction m with
  | nil => intro _; rfl
  | cons x r ih =>
    intro h
    unfold belowInf at h
    simp only [List.all_cons, Bool.and_eq_true, decide_eq_true_eq] at h
    have ihr := ih (by unfold belowInf; exact h.2)
    unfold canonPairs liftInf at ihr ⊢
    simp only [List.map_cons, List.map_map] at ihr ⊢
    congr 1
    · by_cases hx : x.2 = S
      · have hb : (x.2 == S) = true := by simp [hx]
        simp only [hb, if_true]
        rw [canonInf_of_le (liftVal_ge S _)]
        cases x; simp_all
      · have hb : (x.2 == S) = false := by simp [hx]
        simp only [hb, Bool.false_eq_true, if_false]
        rw [canonInf_of_lt (by omega)]

theorem liftInf_keys (S : Int) (ref : Nat → Option Int) (m : List (Nat × Int)) :
    (liftInf S ref m).map (·.1) = m.map (·.1) := by
  unfold liftInf
  simp only [List.map_map]
  apply List.map_congr_left
  intro x _
  simp only [Function.comp]
  split <;> rfl

theorem mem_canonPairs {S : Int} {m : List (Nat × Int)} {v : Nat} {c : Int} :
    (v, c) ∈ canonPairs S m ↔ ∃ y, (v, y) ∈ m ∧ c = canonInf S y := by
  unfold canonPairs
  simp only [List.mem_map, Prod.mk.injEq, Prod.exists]
  constructor
  · rintro ⟨a, b, hab, rfl, rfl⟩; exact ⟨b, hab, rfl⟩
  · rintro ⟨y, hy, rfl⟩; exact ⟨v, y, hy, rfl, rfl⟩

/-! ### dijkstra with `+∞` -/

/-- an accepted `f64inf` dijkstra map is the canonical image (`≥ S` ↦ `S`) of the exact distance map -/
theorem dijInf_sound (S : Int) (g : MGraph) (s : Nat) (m : List (Nat × Int)) (h : okDijInf S g s m = true) :
    (m.map (·.1)).Nodup ∧
    (∀ v c, (v, c) ∈ m ↔ ∃ y, IsShortest g s v y ∧ c = canonInf S y) ∧
    (∀ v, (∃ c, (v, c) ∈ m) ↔ Reach g s v) := by
  unfold okDijInf at h
  simp only [Bool.and_eq_true] at h
  obtain ⟨hb, h⟩ := h
  split at h
  · cases h
  · rename_i d hd
    have hs := dijAll_sound g s _ h
    have hcan := canon_liftInf S (labelOf d) m hb
    refine ⟨?_, ?_, ?_⟩
    · rw [← liftInf_keys S (labelOf d) m]; exact hs.1
    · intro v c
      conv => lhs; rw [← hcan]
      rw [mem_canonPairs]
      constructor
      · rintro ⟨y, hy, rfl⟩; exact ⟨y, (hs.2.1 v y).mp hy, rfl⟩
      · rintro ⟨y, hy, rfl⟩; exact ⟨y, (hs.2.1 v y).mpr hy, rfl⟩
    · intro v
      rw [← hs.2.2 v]
      constructor
      · rintro ⟨c, hc⟩
        rw [← hcan, mem_canonPairs] at hc
        obtain ⟨y, hy, _⟩ := hc
        exact ⟨y, hy⟩
      · rintro ⟨y, hy⟩
        refine ⟨canonInf S y, ?_⟩
        rw [← hcan, mem_canonPairs]
        exact ⟨y, hy, rfl⟩

/-! ### k_shortest_path with `+∞` -/

theorem kspInf_sound (S : Int) (fuel : Nat) (g : MGraph) (s k : Nat) (m : List (Nat × Int))
    (h : okKspInfF S fuel g s k m = true) :
    1 ≤ k ∧ (m.map (·.1)).Nodup ∧
    (∀ v c, (v, c) ∈ m ↔ ∃ y, KthCost g s v k y ∧ c = canonInf S y) := by
  unfold okKspInfF at h
  simp only [Bool.and_eq_true] at h
  obtain ⟨hb, h⟩ := h
  split at h
  · cases h
  · rename_i T hT
    have hs := okKspF_sound fuel g s none k _ h
    have hcan := canon_liftInf S (fun v => (kRow T v)[k - 1]?) m hb
    refine ⟨hs.1, ?_, ?_⟩
    · rw [← liftInf_keys S (fun v => (kRow T v)[k - 1]?) m]; exact hs.2.1
    · intro v c
      conv => lhs; rw [← hcan]
      rw [mem_canonPairs]
      constructor
      · rintro ⟨y, hy, rfl⟩; exact ⟨y, hs.2.2.1 v y hy, rfl⟩
      · rintro ⟨y, hy, rfl⟩; exact ⟨y, hs.2.2.2.1 rfl v y hy, rfl⟩

/-! ### astar with `+∞` -/

theorem astarInf_none_sound (S : Int) (g : MGraph) (s : Nat) (goals : List Nat) (h : okAstarInf S g s goals none = true) :
    ∀ t ∈ goals, ¬ Reach g s t :=
  astar_none_sound g s goals (by simpa [okAstarInf] using h)

/-- an accepted `f64inf` astar answer `(c, p)`: `p` is a real path from `s` to a goal whose arc costs sum to some `pc`
with `c = canonInf S pc`, and no walk to any goal is cheaper after collapsing at the sentinel (a finite `c` is the exact
nearest-goal distance; `c = S` says that every walk to every goal costs at least `S`) -/
theorem astarInf_some_sound (S : Int) (g : MGraph) (s : Nat) (goals : List Nat) (c : Int) (p : List Nat)
    (h : okAstarInf S g s goals (some (c, p)) = true) :
    ∃ pc, c = canonInf S pc ∧ p.head? = some s ∧ PathCost g p pc ∧
      (∃ t, p.getLast? = some t ∧ t ∈ goals ∧ WalkCost g s t pc) ∧
      (∀ t' ∈ goals, ∀ c', WalkCost g s t' c' → c ≤ canonInf S c') ∧
      (c < S → ∀ t' ∈ goals, ∀ c', WalkCost g s t' c' → c ≤ c') := by
  unfold okAstarInf at h
  simp only at h
  split at h
  · rename_i hc
    have hc : c = S := by simpa using hc
    split at h
    · cases h
    · rename_i d hd
      have e := exact_of_check (certDist_ok hd)
      simp only [Bool.and_eq_true, List.all_eq_true] at h
      obtain ⟨⟨⟨hhead, hlast⟩, hcost⟩, hmin⟩ := h
      have hhead : p.head? = some s := by simpa using hhead
      split at hcost
      · rename_i pc hpc
        have hge : S ≤ pc := by simpa using hcost
        have hpath : PathCost g p pc := pathCost_sound p pc hpc
        refine ⟨pc, by rw [canonInf_of_le hge]; exact hc, hhead, hpath, ?_, ?_, ?_⟩
        · split at hlast
          · rename_i t ht
            exact ⟨t, ht, by simpa using hlast, hpath.walk s t hhead ht⟩
          · cases hlast
        · intro t' ht' c' hw
          have := hmin t' ht'
          split at this
          · rename_i hl
            exact absurd ((DistProofs.walk_iff_reach g s t').mp ⟨c', hw⟩) ((e.none_iff t').mp hl)
          · rename_i y hl
            have hy : S ≤ y := by simpa using this
            have hc' : S ≤ c' := Int.le_trans hy ((e.exact t' y hl).2 c' hw)
            rw [canonInf_of_le hc', hc]; exact Int.le_refl S
        · intro hlt; omega
      · cases hcost
  · simp only [Bool.and_eq_true, decide_eq_true_eq] at h
    have hs := astar_some_sound g s goals c p h.2
    refine ⟨c, (canonInf_of_lt h.1).symm, hs.1, hs.2.1, hs.2.2.1, ?_, fun _ => hs.2.2.2⟩
    intro t' ht' c' hw
    have := canonInf_mono (S := S) (hs.2.2.2 t' ht' c' hw)
    rwa [canonInf_of_lt h.1] at this

/-! ### the classifiers of the two open findings are functions of the declared graph -/

theorem sameBag_length {a b : List (Nat × Nat)} (h : sameBag a b = true) : a.length = b.length := by
  unfold sameBag at h
  simp only [Bool.and_eq_true, beq_iff_eq] at h
  exact h.1

/-- a view of shape D23 over a graph with at least one edge is NOT a view of the undirected graph: some row lists
its own node as a target although ... — stated as: the total number of row entries is twice the number of edges,
loops included, whereas the undirected graph has one arc per loop.  (The driver consults the classifier only after
`viewOkB`/`viewOkMB` failed; this lemma records that the shape determines the row lengths.) -/
theorem d23Shape_row_length (g : MGraph) (rows : List (Nat × List (Nat × Nat))) (h : d23Shape g rows = true)
    (a : Nat) (ha : a ∈ g.nodes) :
    ∃ r, rows.lookup a = some r ∧
      r.length = (g.edges.filter (·.src == a)).length + (g.edges.filter (·.tgt == a)).length := by
  unfold d23Shape rowsAre at h
  simp only [Bool.and_eq_true, List.all_eq_true] at h
  have := h.2.2 a ha
  split at this
  · rename_i r hr
    refine ⟨r, hr, ?_⟩
    have hl := sameBag_length this
    simpa using hl
  · cases this

theorem d6Shape_rows_self (g : MGraph) (rows : List (Nat × List (Nat × Nat))) (h : d6Shape g rows = true)
    (a : Nat) (ha : a ∈ g.nodes) :
    ∃ r, rows.lookup a = some r ∧ r.length = (g.edges.filter (·.src == a)).length ∧ ∀ x ∈ r, x.1 = a := by
  unfold d6Shape rowsAre at h
  simp only [Bool.and_eq_true, List.all_eq_true] at h
  have := h.2.2 a ha
  split at this
  · rename_i r hr
    refine ⟨r, hr, by simpa using sameBag_length this, ?_⟩
    intro x hx
    unfold sameBag at this
    simp only [Bool.and_eq_true, beq_iff_eq, List.all_eq_true] at this
    have hc := this.2 x hx
    have hpos : 0 < List.count x r := List.count_pos_iff.mpr hx
    rw [hc] at hpos
    have hm := List.count_pos_iff.mp hpos
    simp only [List.mem_map, List.mem_filter] at hm
    obtain ⟨e, _, rfl⟩ := hm
    rfl
  · cases this

end PetgraphModel.C10P
