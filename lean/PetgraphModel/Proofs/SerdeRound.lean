import PetgraphModel.Proofs.SerdeDe
/-
Helper lemmas for C17 (part 5): completeness of deserialization on well-formed wire values, and the wire value that
serialization produces — together the round-trip theorems.
-/
namespace PetgraphModel.SerdeProofs
open PetgraphModel.Serde

/-! ### the node sequence a wire value denotes -/

/-- `Somes`: the present weights of a sequence of optional weights -/
def somesW (ws : List (Option Int)) : List Int := ws.filterMap id

/-- `Holes`: the positions (counted from `j`) of the absent ones -/
def holesW : Nat → List (Option Int) → List Nat
  | _, [] => []
  | j, none :: ws => j :: holesW (j + 1) ws
  | j, some _ :: ws => holesW (j + 1) ws

/-- the node slots `from_deserialized` must rebuild -/
def slotsW (END : Nat) (ws : List (Option Int)) : List NodeSlot :=
  ws.map fun o => match o with
    | some w => liveSlot END w
    | none => vacantSlot END

theorem slotsW_map_w (END : Nat) (ws : List (Option Int)) : (slotsW END ws).map (fun (n : NodeSlot) => n.w) = ws := by
  induction ws with
  | nil => rfl
  | cons o ws ih =>
    cases o <;> simp [slotsW, liveSlot, vacantSlot] at ih ⊢ <;> exact ih

theorem holesW_lt (ws : List (Option Int)) : ∀ j h, h ∈ holesW j ws → h < j + ws.length := by
  induction ws with
  | nil => intro j h hh; simp [holesW] at hh
  | cons o ws ih =>
    intro j h hh
    cases o with
    | none =>
      simp only [holesW, List.mem_cons] at hh
      rcases hh with rfl | hh
      · simp
      · have := ih (j + 1) h hh; simp; omega
    | some x =>
      simp only [holesW] at hh
      have := ih (j + 1) h hh; simp; omega

/-- the hole-interleaving loop rebuilds exactly the sequence whose `Somes`/`Holes` it is given
    (`pre` = weights already passed but not yet taken) -/
theorem interleave_complete (END total : Nat) (ws : List (Option Int)) :
    ∀ (acc : List NodeSlot) (pre : List Int), acc.length + pre.length + ws.length ≤ total →
      interleave END total (holesW (acc.length + pre.length) ws) (pre ++ somesW ws) acc acc.length
        = .ok (acc ++ pre.map (liveSlot END) ++ slotsW END ws) := by
  induction ws with
  | nil =>
    intro acc pre _
    simp [holesW, somesW, interleave, slotsW]
  | cons o ws ih =>
    intro acc pre hlen
    simp only [List.length_cons] at hlen
    cases o with
    | some x =>
      have := ih acc (pre ++ [x]) (by simp; omega)
      simp only [List.length_append, List.length_singleton] at this
      simp only [holesW, somesW, List.filterMap_cons, id]
      rw [show acc.length + pre.length + 1 = acc.length + (pre.length + 1) by omega]
      rw [show pre ++ x :: List.filterMap id ws = (pre ++ [x]) ++ somesW ws by simp [somesW]]
      rw [this]
      simp [slotsW]
    | none =>
      simp only [holesW, somesW, List.filterMap_cons, id]
      unfold interleave
      have h1 : (!(decide (acc.length ≤ acc.length + pre.length) && decide (acc.length + pre.length < total))) = false := by
        simp; omega
      rw [h1]
      simp only [Bool.false_eq_true, if_false]
      have htake : (pre ++ List.filterMap id ws).take (acc.length + pre.length - acc.length) = pre := by
        rw [show acc.length + pre.length - acc.length = pre.length by omega]
        simp
      have hdrop : (pre ++ List.filterMap id ws).drop (acc.length + pre.length - acc.length) = somesW ws := by
        rw [show acc.length + pre.length - acc.length = pre.length by omega]
        simp [somesW]
      rw [htake, hdrop]
      have hl1 : (acc ++ pre.map (liveSlot END)).length = acc.length + pre.length := by simp
      rw [if_neg (by rw [hl1]; simp)]
      have hl2 : (acc ++ pre.map (liveSlot END) ++ [vacantSlot END]).length = acc.length + pre.length + 1 := by simp; omega
      rw [if_neg (by rw [hl2]; simp)]
      have := ih (acc ++ pre.map (liveSlot END) ++ [vacantSlot END]) [] (by simp; omega)
      simp only [List.length_nil, Nat.add_zero, List.nil_append, List.map_nil, List.append_nil] at this
      rw [hl2] at this
      rw [this]
      simp [slotsW]


theorem somes_holes_length (ws : List (Option Int)) : ∀ j, (somesW ws).length + (holesW j ws).length = ws.length := by
  induction ws with
  | nil => intro j; rfl
  | cons o ws ih =>
    intro j
    cases o with
    | none => simp only [somesW, holesW, List.filterMap_cons, id, List.length_cons]; have := ih (j + 1); simp only [somesW] at this; omega
    | some x => simp only [somesW, holesW, List.filterMap_cons, id, List.length_cons]; have := ih (j + 1); simp only [somesW] at this; omega

theorem slotsW_fresh (END : Nat) (ws : List (Option Int)) : ∀ nd, nd ∈ slotsW END ws → freshNode END nd := by
  intro nd h
  obtain ⟨o, _, rfl⟩ := List.mem_map.1 h
  cases o <;> exact ⟨rfl, rfl⟩

/-! ### link loops succeed when every endpoint is a live node -/

def LiveAt (nodes : List NodeSlot) (i : Nat) : Prop := ∃ a : NodeSlot, nodes[i]? = some a ∧ a.w.isSome = true

theorem NodesKept.liveAt {a b : List NodeSlot} (K : NodesKept a b) {i : Nat} (h : LiveAt a i) : LiveAt b i := by
  obtain ⟨x, hx, hl⟩ := h
  have := K.w i
  rw [hx] at this
  cases hb : b[i]? with
  | none => simp [hb] at this
  | some y =>
    simp [hb] at this
    exact ⟨y, hb, by rw [this]; exact hl⟩

theorem linkNodes_isSome {nodes : List NodeSlot} {a b : Nat} (e : Nat) (ha : a < nodes.length) (hb : b < nodes.length) :
    ∃ r, linkNodes nodes a b e = some r := by
  unfold linkNodes
  have : ¬ Nat.max a b ≥ nodes.length := by
    have : Nat.max a b < nodes.length := Nat.max_lt.2 ⟨ha, hb⟩
    omega
  rw [if_neg this]
  rw [List.getElem?_eq_getElem ha, List.getElem?_eq_getElem hb]
  simp only []
  split <;> exact ⟨_, rfl⟩

theorem linkEdgesStable_ok (END : Nat) (rest : List EdgeSlot) :
    ∀ st : LinkSt, (∀ e, e ∈ rest → e.w.isSome = true → LiveAt st.nodes e.src ∧ LiveAt st.nodes e.tgt) →
      ∃ st', linkEdgesStable END rest st = .ok st' := by
  induction rest with
  | nil => intro st _; exact ⟨st, rfl⟩
  | cons e rest ih =>
    intro st H
    unfold linkEdgesStable
    by_cases hv : e.w.isNone = true
    · rw [if_pos hv]
      exact ih _ (fun x hx => H x (List.mem_cons_of_mem _ hx))
    · rw [if_neg hv]
      have hw : e.w.isSome = true := by cases hh : e.w <;> simp_all
      obtain ⟨⟨an, han, hal⟩, ⟨bn, hbn, hbl⟩⟩ := H e (List.mem_cons_self ..) hw
      have ha : e.src < st.nodes.length := (List.getElem?_eq_some_iff.1 han).1
      have hb : e.tgt < st.nodes.length := (List.getElem?_eq_some_iff.1 hbn).1
      have hmax : ¬ Nat.max e.src e.tgt ≥ st.nodes.length := by
        have : Nat.max e.src e.tgt < st.nodes.length := Nat.max_lt.2 ⟨ha, hb⟩
        omega
      simp only [hmax, if_false, han, hbn]
      have h1 : an.w.isNone = false := by cases hh : an.w <;> simp_all
      have h2 : bn.w.isNone = false := by cases hh : bn.w <;> simp_all
      simp only [h1, h2, Bool.false_eq_true, if_false]
      obtain ⟨r, hr⟩ := linkNodes_isSome st.done.length ha hb
      obtain ⟨ns, x0, x1⟩ := r
      simp only [hr]
      have K := NodesKept.of_link hr
        (fun an' h' => by rw [han] at h'; cases Option.some.inj h'; exact hal)
        (fun bn' h' => by rw [hbn] at h'; cases Option.some.inj h'; exact hbl)
      exact ih _ (fun x hx hxw =>
        let ⟨p, q⟩ := H x (List.mem_cons_of_mem _ hx) hxw
        ⟨K.liveAt p, K.liveAt q⟩)

theorem linkEdgesGraph_ok (rest : List EdgeSlot) :
    ∀ (nodes : List NodeSlot) (done : List EdgeSlot),
      (∀ e, e ∈ rest → e.src < nodes.length ∧ e.tgt < nodes.length) →
      ∃ r, linkEdgesGraph nodes done rest = .ok r := by
  induction rest with
  | nil => intro nodes done _; exact ⟨_, rfl⟩
  | cons e rest ih =>
    intro nodes done H
    unfold linkEdgesGraph
    obtain ⟨ha, hb⟩ := H e (List.mem_cons_self ..)
    obtain ⟨r, hr⟩ := linkNodes_isSome done.length ha hb
    obtain ⟨ns, x0, x1⟩ := r
    simp only [hr]
    obtain ⟨_, _, _, _, _, _, hlen, _⟩ := linkNodes_some hr
    exact ih _ _ (fun x hx => by rw [hlen]; exact H x (List.mem_cons_of_mem _ hx))

/-! ### completeness of `de` on well-formed wire values -/

/-- what serialization keeps of an edge slot: `None` for a vacancy -/
def liveSkel (e : EdgeSlot) : Option (Nat × Nat × Int) := e.w.map fun w => (e.src, e.tgt, w)

theorem liveSkel_wireEdge (END : Nat) (x : Option (Nat × Nat × Int)) : liveSkel (wireEdge END x) = x := by
  cases x with
  | none => rfl
  | some t => obtain ⟨a, b, c⟩ := t; rfl

theorem liveSkel_of_skel {a b : EdgeSlot} (h : skel a = skel b) : liveSkel a = liveSkel b := by
  simp only [skel, Prod.mk.injEq] at h
  obtain ⟨h1, h2, h3⟩ := h
  simp [liveSkel, h1, h2, h3]

theorem map_liveSkel_of_map_skel {a b : List EdgeSlot} (h : a.map skel = b.map skel) :
    a.map liveSkel = b.map liveSkel := by
  apply List.ext_getElem?
  intro i
  have := congrArg (fun l => l[i]?) h
  simp only [List.getElem?_map] at this ⊢
  cases ha : a[i]? <;> cases hb : b[i]? <;> simp_all
  exact liveSkel_of_skel this

/-- all four fields present (in any order, unknown fields in between are not part of `order`) -/
def FullOrder (order : List Field) : Prop := Field.n ∈ order ∧ Field.h ∈ order ∧ Field.p ∈ order ∧ Field.e ∈ order

theorem parseHoles_stable_none (m : Nat) (l : List Nat) (h : ∀ x, x ∈ l → x < m) : parseHoles true m l = none := by
  induction l with
  | nil => rfl
  | cons x xs ih =>
    unfold parseHoles
    have := h x (List.mem_cons_self ..)
    rw [if_neg (by omega)]
    simp only [if_true]
    exact ih (fun y hy => h y (List.mem_cons_of_mem _ hy))

theorem parseEdges_none (stable : Bool) (m : Nat) (l : List (Option (Nat × Nat × Int)))
    (h : ∀ a b x, some (a, b, x) ∈ l → a < m ∧ b < m) (hs : stable = true ∨ ∀ e, e ∈ l → e.isSome = true) :
    parseEdges stable m l = none := by
  induction l with
  | nil => rfl
  | cons e es ih =>
    have hs' : stable = true ∨ ∀ e, e ∈ es → e.isSome = true := by
      rcases hs with h1 | h1
      · exact Or.inl h1
      · exact Or.inr (fun x hx => h1 x (List.mem_cons_of_mem _ hx))
    have ih' := ih (fun a b x hx => h a b x (List.mem_cons_of_mem _ hx)) hs'
    cases e with
    | none =>
      unfold parseEdges
      rcases hs with h1 | h1
      · simp [h1]; subst h1; exact ih'
      · have := h1 none (List.mem_cons_self ..); simp at this
    | some t =>
      obtain ⟨a, b, x⟩ := t
      unfold parseEdges
      have := h a b x (List.mem_cons_self ..)
      rw [if_neg (by omega)]
      exact ih'

theorem parseStage_none_of (stable : Bool) (m : Nat) (w : Wire) (order : List Field)
    (ho : Field.n ∈ order ∧ Field.p ∈ order ∧ Field.e ∈ order)
    (hh : parseHoles stable m w.holes = none) (hp : w.prop.isSome = true) (he : parseEdges stable m w.edges = none) :
    parseStage stable m w order = none := by
  unfold parseStage
  have : order.findSome? (parseField stable m w) = none := by
    rw [List.findSome?_eq_none_iff]
    intro f _
    cases f
    · rfl
    · exact hh
    · simp [parseField]; cases hw : w.prop <;> simp_all
    · exact he
  rw [this]
  simp only []
  obtain ⟨h1, h3, h4⟩ := ho
  simp [h1, h3, h4]

/-- **completeness, `StableGraph`**: a stream that lists the `Somes` and `Holes` of any node sequence `ws` within
    the index type, with edges between present nodes, loads — and loads as exactly that graph -/
theorem deStable_complete (END : Nat) (directed : Bool) (order : List Field) (ws : List (Option Int))
    (es : List (Option (Nat × Nat × Int))) (ho : FullOrder order) (hn : ws.length < END) (he : es.length < END)
    (hend : ∀ a b x, some (a, b, x) ∈ es → (∃ wa, ws[a]? = some (some wa)) ∧ (∃ wb, ws[b]? = some (some wb))) :
    ∃ s', deStable END directed order { nodes := somesW ws, holes := holesW 0 ws, prop := some directed, edges := es } = .ok s' ∧
      s'.g.nodes.map (fun (n : NodeSlot) => n.w) = ws ∧ s'.g.edges.map liveSkel = es := by
  have hlt : ∀ a b x, some (a, b, x) ∈ es → a < ws.length ∧ b < ws.length := by
    intro a b x hx
    obtain ⟨⟨wa, h1⟩, ⟨wb, h2⟩⟩ := hend a b x hx
    exact ⟨(List.getElem?_eq_some_iff.1 h1).1, (List.getElem?_eq_some_iff.1 h2).1⟩
  have hps : parseStage true (END + 1) { nodes := somesW ws, holes := holesW 0 ws, prop := some directed, edges := es } order = none := by
    apply parseStage_none_of _ _ _ _ ⟨ho.1, ho.2.2.1, ho.2.2.2⟩
    · apply parseHoles_stable_none
      intro x hx
      have := holesW_lt ws 0 x hx
      omega
    · rfl
    · apply parseEdges_none
      · intro a b x hx
        have := hlt a b x hx
        omega
      · exact Or.inl rfl
  have hc : order.contains Field.h = true := by simpa using ho.2.1
  -- stage by stage
  have hil := interleave_complete END ((somesW ws).length + (holesW 0 ws).length) ws [] []
    (by have := somes_holes_length ws 0; simp; omega)
  simp only [List.length_nil, Nat.add_zero, List.nil_append, List.map_nil] at hil
  obtain ⟨fs, hfs, FI, hfw⟩ := linkFreeNodes_inv END (slotsW END ws) { done := [], free := END, count := 0 }
    ⟨by simpa [vacantN, idxDesc] using DChain.nil (nodes := []) (END := END) END, by simp, by simp⟩
    (slotsW_fresh END ws) (by simp [slotsW]; omega)
  have hfw' : fs.done.map (fun (n : NodeSlot) => n.w) = ws := by
    rw [hfw, slotsW_map_w]; rfl
  obtain ⟨ls, hls⟩ := linkEdgesStable_ok END (es.map (wireEdge END)) { nodes := fs.done, done := [], free := END, count := 0 } (by
    intro e he' hw
    obtain ⟨x, hx, rfl⟩ := List.mem_map.1 he'
    cases x with
    | none => simp [wireEdge] at hw
    | some t =>
      obtain ⟨a, b, c⟩ := t
      obtain ⟨⟨wa, h1⟩, ⟨wb, h2⟩⟩ := hend a b c hx
      have live : ∀ i wi, ws[i]? = some (some wi) → LiveAt fs.done i := by
        intro i wi hi
        have := congrArg (fun l => l[i]?) hfw'
        simp only [List.getElem?_map, hi] at this
        cases hd : fs.done[i]? with
        | none => simp [hd] at this
        | some y => simp [hd] at this; exact ⟨y, hd, by simp [this]⟩
      exact ⟨live a wa h1, live b wb h2⟩)
  have hfd : fromDeserializedStable END directed { nodes := somesW ws, holes := holesW 0 ws, prop := some directed, edges := es }
      = .ok { g := { END, directed, nodes := ls.nodes, edges := ls.done },
              nodeCount := fs.count, edgeCount := ls.count, freeNode := fs.free, freeEdge := ls.free } := by
    unfold fromDeserializedStable
    simp only [ne_eq, not_true_eq_false, if_false]
    rw [if_neg (by simp; omega)]
    simp only [hil]
    rw [if_neg (by simp [slotsW]; omega)]
    simp only [hfs, hls]
  obtain ⟨s', hfd⟩ : ∃ s', fromDeserializedStable END directed
      { nodes := somesW ws, holes := holesW 0 ws, prop := some directed, edges := es } = .ok s' := ⟨_, hfd⟩
  refine ⟨s', ?_, ?_, ?_⟩
  · unfold deStable
    rw [hps]
    simp only [hc, if_true]
    exact hfd
  · obtain ⟨_, nodes, hi, hw, _⟩ := fromDeserializedStable_de hfd
    rw [hil] at hi
    cases hi
    rw [hw, slotsW_map_w]
  · obtain ⟨_, _, _, _, hS⟩ := fromDeserializedStable_de hfd
    have := map_liveSkel_of_map_skel hS
    rw [this, List.map_map]
    conv => rhs; rw [← List.map_id es]
    apply List.map_congr_left
    intro x _
    exact liveSkel_wireEdge END x


/-- **completeness, `Graph`**: a hole-free stream within the index type whose edges join existing nodes loads as
    exactly that graph (`node_holes` may be present and empty, or absent) -/
theorem deGraph_complete (END : Nat) (directed : Bool) (order : List Field) (ns : List Int)
    (es : List (Nat × Nat × Int)) (ho : Field.n ∈ order ∧ Field.p ∈ order ∧ Field.e ∈ order)
    (hn : ns.length < END) (he : es.length < END)
    (hend : ∀ a b x, (a, b, x) ∈ es → a < ns.length ∧ b < ns.length) :
    ∃ g', deGraph END directed order { nodes := ns, holes := [], prop := some directed, edges := es.map some } = .ok g' ∧
      g'.nodes.map (fun (n : NodeSlot) => n.w) = ns.map some ∧ g'.edges.map liveSkel = es.map some := by
  have hps : parseStage false (END + 1) { nodes := ns, holes := [], prop := some directed, edges := es.map some } order = none := by
    apply parseStage_none_of _ _ _ _ ho
    · rfl
    · rfl
    · apply parseEdges_none
      · intro a b x hx
        simp only [List.mem_map, Option.some.injEq] at hx
        obtain ⟨t, ht, rfl⟩ := hx
        have := hend _ _ _ ht
        omega
      · right
        intro e he'
        obtain ⟨t, _, rfl⟩ := List.mem_map.1 he'
        rfl
  obtain ⟨r, hr⟩ := linkEdgesGraph_ok ((es.map some).map (wireEdge END)) (ns.map (liveSlot END)) [] (by
    intro e he'
    simp only [List.map_map, List.mem_map, Function.comp] at he'
    obtain ⟨t, ht, rfl⟩ := he'
    obtain ⟨a, b, x⟩ := t
    have := hend a b x ht
    simpa [wireEdge] using this)
  obtain ⟨ns', es'⟩ := r
  have hfd : fromDeserializedGraph END directed { nodes := ns, holes := [], prop := some directed, edges := es.map some }
      = .ok { END, directed, nodes := ns', edges := es' } := by
    unfold fromDeserializedGraph
    simp only [ne_eq, not_true_eq_false, if_false]
    rw [if_neg (by simp; omega), if_neg (by simp; omega)]
    simp only [hr]
  have hde : deGraph END directed order { nodes := ns, holes := [], prop := some directed, edges := es.map some }
      = .ok { END, directed, nodes := ns', edges := es' } := by
    unfold deGraph
    rw [hps]
    simp only []
    split <;> exact hfd
  obtain ⟨_, hw, hS⟩ := fromDeserializedGraph_de hfd (by
    intro e he'
    obtain ⟨t, _, rfl⟩ := List.mem_map.1 he'
    rfl)
  refine ⟨_, hde, hw, ?_⟩
  have := map_liveSkel_of_map_skel hS
  rw [this, List.map_map]
  conv => rhs; rw [← List.map_id (es.map some)]
  apply List.map_congr_left
  intro x _
  exact liveSkel_wireEdge END x

/-! ### bounds -/

theorem boundOf_le {α} (live : α → Bool) (l : List α) : boundOf live l ≤ l.length := by
  induction l with
  | nil => simp [boundOf]
  | cons x xs ih =>
    simp only [boundOf, List.length_cons]
    split
    · omega
    · split <;> omega

theorem boundOf_zero {α} (live : α → Bool) (l : List α) (h : boundOf live l = 0) : ∀ x, x ∈ l → live x = false := by
  induction l with
  | nil => simp
  | cons x xs ih =>
    simp only [boundOf] at h
    split at h
    · omega
    · rename_i hr
      split at h
      · omega
      · rename_i hx
        intro y hy
        rcases List.mem_cons.1 hy with rfl | hy'
        · simpa using hx
        · exact ih (by omega) y hy'

theorem lt_boundOf {α} (live : α → Bool) (l : List α) : ∀ (i : Nat) (x : α), l[i]? = some x → live x = true →
    i < boundOf live l := by
  induction l with
  | nil => intro i x h; simp at h
  | cons y ys ih =>
    intro i x h hl
    simp only [boundOf]
    cases i with
    | zero =>
      simp at h; subst h
      split
      · omega
      · simp [hl]
    | succ i =>
      simp at h
      have := ih i x h hl
      rw [if_pos (by omega)]
      omega

/-- a filter that ignores vacant slots sees the same elements below the bound as in the whole array -/
theorem filterMap_take_bound {α β} (live : α → Bool) (f : Nat × α → Option β)
    (hf : ∀ i x, live x = false → f (i, x) = none) (l : List α) :
    ∀ j, (enumFrom j (l.take (boundOf live l))).filterMap f = (enumFrom j l).filterMap f := by
  have hz : ∀ (l : List α), (∀ x, x ∈ l → live x = false) → ∀ j, (enumFrom j l).filterMap f = [] := by
    intro l
    induction l with
    | nil => intro _ j; rfl
    | cons x xs ih =>
      intro h j
      simp only [enumFrom, List.filterMap_cons, hf j x (h x (List.mem_cons_self ..))]
      exact ih (fun y hy => h y (List.mem_cons_of_mem _ hy)) (j + 1)
  induction l with
  | nil => intro j; simp [boundOf]
  | cons x xs ih =>
    intro j
    simp only [boundOf]
    split
    · rename_i hr
      simp only [List.take_succ_cons, enumFrom, List.filterMap_cons]
      rw [ih (j + 1)]
    · rename_i hr
      have hr0 : boundOf live xs = 0 := by omega
      have hxs := hz xs (boundOf_zero live xs hr0) (j + 1)
      split
      · simp only [List.take_succ_cons, List.take_zero, enumFrom, List.filterMap_cons, hxs]
        cases f (j, x) <;> simp
      · rename_i hx
        have : live x = false := by simpa using hx
        simp only [List.take_zero, enumFrom, List.filterMap_cons, hf j x this, hxs]
        rfl

theorem filter_take_bound {α} (live : α → Bool) (l : List α) :
    (l.take (boundOf live l)).filter live = l.filter live := by
  induction l with
  | nil => simp [boundOf]
  | cons x xs ih =>
    simp only [boundOf]
    split
    · simp only [List.take_succ_cons, List.filter_cons, ih]
    · rename_i hr
      have hr0 : boundOf live xs = 0 := by omega
      have hxs : xs.filter live = [] := by
        rw [List.filter_eq_nil_iff]
        intro y hy
        simp [boundOf_zero live xs hr0 y hy]
      split
      · rename_i hx
        simp [List.filter_cons, hx, hxs]
      · rename_i hx
        simp [List.filter_cons, hx, hxs]

theorem boundOf_take_bound {α} (live : α → Bool) (l : List α) :
    boundOf live (l.take (boundOf live l)) = boundOf live l := by
  induction l with
  | nil => simp [boundOf]
  | cons x xs ih =>
    simp only [boundOf]
    split
    · rename_i hr
      simp only [List.take_succ_cons, boundOf, ih]
      rw [if_pos hr]
    · split
      · rename_i hx
        simp [boundOf, hx]
      · simp [boundOf]

theorem boundOf_map {α β} (f : α → β) (liveA : α → Bool) (liveB : β → Bool) (h : ∀ x, liveB (f x) = liveA x)
    (l : List α) : boundOf liveB (l.map f) = boundOf liveA l := by
  induction l with
  | nil => rfl
  | cons x xs ih => simp only [List.map_cons, boundOf, ih, h]

end PetgraphModel.SerdeProofs
