import PetgraphModel.Proofs.CsrReaders
/-
The iterators of `Csr`: `edges(a)` and `edge_references()`.
-/
set_option linter.style.nameCheck false
namespace PetgraphModel.CsrProofs
open PetgraphModel.CsrM PetgraphModel.AppendSpec

theorem zipRefs_rows (a i : Nat) (r : Row) :
    (zipRefs a i (r.map (·.1)) (r.map (·.2))).map (fun e => (e.2.1, e.2.2.1, e.2.2.2)) = r.map (fun x => (a, x.1, x.2)) ∧
    (zipRefs a i (r.map (·.1)) (r.map (·.2))).map (·.1) = (List.range r.length).map (· + i) := by
  induction r generalizing i with
  | nil => simp [zipRefs]
  | cons x xs ih =>
    have := ih (i + 1)
    simp only [List.map_cons, zipRefs, List.length_cons, List.range_succ_eq_map, List.map_map]
    refine ⟨by rw [this.1], ?_⟩
    rw [this.2]
    simp [Function.comp_def, Nat.add_comm, Nat.add_left_comm]

/-- `edges(a)`: the outgoing edge references of an existing node are `(a, target, weight)` for the specified
successors, in ascending order of the target, with the consecutive ids `row[a] ..`; for a node that does not
exist (`a ≥ node_count`) the call panics (since /repo commit aadb875, the repair of D32). -/
theorem edgesOf_spec {s : State} {R : List Row} {g : SG} (good : Good s R) (abs : Abs s R g) (a : Nat) :
    (a < g.n → ∃ refs, edgesOf s a = some refs ∧
      refs.map (fun e => (e.2.1, e.2.2.1, e.2.2.2)) = (g.succ a).map (fun x => (a, x.1, x.2)) ∧
      refs.map (·.1) = (List.range (g.succ a).length).map (· + start R a)) ∧
    (g.n ≤ a → edgesOf s a = none) := by
  have hn := Abs.n good abs
  refine ⟨?_, ?_⟩
  · intro ha
    rw [hn] at ha
    have hrow := Abs.row_eq_succ good abs a ha
    refine ⟨zipRefs a (start R a) (R[a].map (·.1)) (R[a].map (·.2)), ?_, ?_, ?_⟩
    · simp only [edgesOf, good.rep.range_lt a ha, good.rep.col, good.rep.wts, slice_map_rows R _ a ha]
    · rw [(zipRefs_rows a _ R[a]).1, hrow]
    · rw [(zipRefs_rows a _ R[a]).2, hrow]
  · intro ha
    rw [hn] at ha
    simp [edgesOf, good.rep.range_ge a ha]

theorem zipRefs_length (a i : Nat) (r : Row) : (zipRefs a i (r.map (·.1)) (r.map (·.2))).length = r.length := by
  induction r generalizing i with
  | nil => simp [zipRefs]
  | cons x xs ih => simp [zipRefs, ih]

/-- what `edge_references()` yields: row by row, a running edge id -/
def allRefs (m : Nat) : Nat → Nat → List Row → List ERef
  | _, _, [] => []
  | i, idx, r :: rs => zipRefs (mkIx m i) idx (r.map (·.1)) (r.map (·.2)) ++ allRefs m (i + 1) (idx + r.length) rs

/-- `(source, target, weight)` of every stored entry, row by row -/
def allTriples (m : Nat) : Nat → List Row → List (Nat × Nat × Int)
  | _, [] => []
  | i, r :: rs => r.map (fun x => (mkIx m i, x.1, x.2)) ++ allTriples m (i + 1) rs

theorem zipRefs_proj (a i : Nat) (r : Row) :
    (zipRefs a i (r.map (·.1)) (r.map (·.2))).map (fun e => (e.2.1, e.2.2.1, e.2.2.2)) = r.map (fun x => (a, x.1, x.2)) ∧
    (zipRefs a i (r.map (·.1)) (r.map (·.2))).map (·.1) = List.range' i r.length := by
  induction r generalizing i with
  | nil => simp [zipRefs]
  | cons x xs ih =>
    have := ih (i + 1)
    simp only [List.map_cons, zipRefs, List.length_cons, List.range'_succ]
    exact ⟨by rw [this.1], by rw [this.2]⟩

theorem allRefs_proj (m i idx : Nat) (R : List Row) :
    (allRefs m i idx R).map (fun e => (e.2.1, e.2.2.1, e.2.2.2)) = allTriples m i R ∧
    (allRefs m i idx R).map (·.1) = List.range' idx R.flatten.length := by
  induction R generalizing i idx with
  | nil => simp [allRefs, allTriples]
  | cons r rs ih =>
    have h1 := ih (i + 1) (idx + r.length)
    have h2 := zipRefs_proj (mkIx m i) idx r
    simp only [allRefs, allTriples, List.map_append, List.flatten_cons, List.length_append]
    refine ⟨by rw [h1.1, h2.1], ?_⟩
    rw [h1.2, h2.2, List.range'_append_1]

theorem Rep.edgeRefsLoop {s : State} {R : List Row} (h : Rep s R) (k i idx : Nat) (hk : i + k = R.length) :
    edgeRefsLoop s i idx ((offsets 0 R).drop i) = some (allRefs s.modulus i idx (R.drop i)) := by
  induction k generalizing i idx with
  | zero =>
    have hi : i = R.length := by omega
    subst hi
    have : (offsets 0 R).drop R.length = [R.flatten.length] := by
      apply List.ext_getElem?
      intro j
      rw [List.getElem?_drop]
      cases j with
      | zero => simp [offsets_getElem? 0 R R.length (Nat.le_refl _), start_length]
      | succ j => simp [offsets_getElem?_none 0 R (R.length + (j + 1)) (by omega)]
    rw [this]
    simp [CsrM.edgeRefsLoop, allRefs]
  | succ k ih =>
    have hi : i < R.length := by omega
    have hd : (offsets 0 R).drop i = start R i :: start R (i + 1) :: (offsets 0 R).drop (i + 2) := by
      apply List.ext_getElem?
      intro j
      rw [List.getElem?_drop]
      cases j with
      | zero => simp [offsets_getElem? 0 R i (by omega)]
      | succ j =>
        cases j with
        | zero => simp [offsets_getElem? 0 R (i + 1) (by omega)]
        | succ j => simp [List.getElem?_drop]; congr 1; omega
    have hd1 : (offsets 0 R).drop (i + 1) = start R (i + 1) :: (offsets 0 R).drop (i + 2) := by
      have : (offsets 0 R).drop (i + 1) = ((offsets 0 R).drop i).drop 1 := by simp [List.drop_drop]
      rw [this, hd]; rfl
    have hR : R.drop i = R[i] :: R.drop (i + 1) := (List.drop_eq_getElem_cons hi)
    rw [hd, hR]
    unfold CsrM.edgeRefsLoop
    rw [h.col, h.wts]
    simp only [slice_map_rows R _ i hi]
    rw [← hd1, ih (i + 1) (idx + (zipRefs (mkIx s.modulus i) idx (R[i].map (·.1)) (R[i].map (·.2))).length) (by omega)]
    simp [allRefs, zipRefs_length]

/-- `edge_references()` run to completion -/
theorem Rep.edgeReferences {s : State} {R : List Row} (h : Rep s R) :
    edgeReferences s = some (allRefs s.modulus 0 0 R) := by
  unfold CsrM.edgeReferences
  have := h.edgeRefsLoop R.length 0 0 (by omega)
  rw [h.row]
  simpa using this

end PetgraphModel.CsrProofs
