import PetgraphModel.Proofs.C01W2Base
/-
C01, wave 2 — the calls of stage 1's core (`isCore`), now under the stamp-carrying refinement
invariant `RInv` (so also in states that have removals in their past): every core call answers what
`SpecAccepts` allows on `absG s st ck` and re-establishes `RInv`.
-/
namespace PetgraphModel.GProofs
open PetgraphModel PetgraphModel.G

/-! ### links under `Inv` point to live edges or to `END` -/

theorem IsList.suffix_of_mem {edges : List Edge} {k endv h l} (hl : IsList edges k endv h l) {x : Nat} (hx : x ∈ l) :
    ∃ l', IsList edges k endv x l' := by
  induction hl with
  | nil => cases hx
  | @cons e t ed he htl ih =>
    rcases List.mem_cons.mp hx with rfl | hx'
    · exact ⟨_, IsList.cons ed he htl⟩
    · exact ih hx'

theorem Inv.next_live_or_end {s : State} (h : Inv s) {x : Nat} {xd : Edge} (hx : s.edges[x]? = some xd) (k : Bool) :
    xd.next k = s.endv ∨ xd.next k < s.edges.length := by
  obtain ⟨adj, hl, _, hm⟩ := h.lists
  have hu : xd.node k < s.nodes.length := by
    have := h.ends x xd hx; cases k <;> simp [Edge.node] <;> omega
  have hmem : x ∈ adj k (xd.node k) := (hm k _ x).mpr ⟨xd, hx, rfl⟩
  obtain ⟨l', hl'⟩ := (hl k _ _ (List.getElem?_eq_getElem hu)).suffix_of_mem hmem
  cases hl' with
  | nil => have := lt_of_getElem? hx; have := h.szE; omega
  | cons ed' he' htl =>
    rw [hx] at he'; cases he'
    exact htl.head_lt_or_end

/-- a node head under `Inv` is a live edge or `END` -/
theorem Inv.head_live_or_end {s : State} (h : Inv s) {i : Nat} {nd : Node} (hnd : s.nodes[i]? = some nd) (k : Bool) :
    nd.next k = s.endv ∨ nd.next k < s.edges.length := by
  obtain ⟨adj, hl, _, _⟩ := h.lists
  exact (hl k i nd hnd).head_lt_or_end

/-! ### stamps of future edges -/

/-- the stamps beyond the live range are already the ones `add_edge` will hand out -/
def Ext (s : State) (st : Nat → Nat) (ck : Nat) : Prop :=
  ∀ i, s.edges.length ≤ i → st i = ck + (i - s.edges.length)

def extSt (st : Nat → Nat) (n ck : Nat) : Nat → Nat := fun i => if i < n then st i else ck + (i - n)

theorem ext_extSt (s : State) (st : Nat → Nat) (ck : Nat) : Ext s (extSt st s.edges.length ck) ck := by
  intro i hi
  simp [extSt, Nat.not_lt.mpr hi]

theorem extSt_agree (st : Nat → Nat) (n ck : Nat) : ∀ i, i < n → st i = extSt st n ck i := by
  intro i hi; simp [extSt, hi]

/-- the clock after growing from `n` to `n'` edges -/
def ckAfter (ck n n' : Nat) : Nat := ck + (n' - n)

theorem rinv_tryAddNode {s : State} {st : Nat → Nat} {ck : Nat} (h : RInv s st ck) (w : Nat) :
    RInv (tryAddNode s w).1 st ck ∧ (tryAddNode s w).1.edges = s.edges := by
  have hi := inv_tryAddNode h.inv w
  have he : (tryAddNode s w).1.edges = s.edges := by
    unfold tryAddNode; dsimp only; split <;> rfl
  refine ⟨⟨hi, by rw [he]; exact h.sd, by rw [he]; exact h.lt⟩, he⟩

theorem rinv_tryAddEdge {s : State} {st : Nat → Nat} {ck : Nat} (h : RInv s st ck) (hx : Ext s st ck) (a b w : Nat) :
    RInv (tryAddEdge s a b w).1 st (ckAfter ck s.edges.length (tryAddEdge s a b w).1.edges.length) ∧
    Ext (tryAddEdge s a b w).1 st (ckAfter ck s.edges.length (tryAddEdge s a b w).1.edges.length) ∧
    s.edges.length ≤ (tryAddEdge s a b w).1.edges.length := by
  have hinv := inv_tryAddEdge h.inv a b w
  rcases hr : tryAddEdge s a b w with ⟨s', r⟩
  rw [hr] at hinv
  cases r with
  | error e =>
    have := tryAddEdge_err hr; subst this
    simp only [ckAfter, Nat.sub_self, Nat.add_zero]
    exact ⟨h, hx, Nat.le_refl _⟩
  | ok e =>
    obtain ⟨an, bn, han, hbn, _, hne, hend, _, hedges, _, _⟩ := tryAddEdge_ok hr
    have hlen : s'.edges.length = s.edges.length + 1 := by rw [hedges]; simp
    have hck : ckAfter ck s.edges.length s'.edges.length = ck + 1 := by simp [ckAfter, hlen]
    simp only [hck]
    have hstm : st s.edges.length = ck := by have := hx _ (Nat.le_refl _); simpa using this
    refine ⟨⟨hinv, ?_, ?_⟩, ?_, by omega⟩
    · intro x xd k hxd hlt
      by_cases hxm : x < s.edges.length
      · rw [hedges, List.getElem?_append_left hxm] at hxd
        rcases h.inv.next_live_or_end hxd k with h1 | h1
        · rw [h1, hlen] at hlt; have := h.inv.szE; omega
        · exact h.sd x xd k hxd h1
      · have hxm' : x = s.edges.length := by
          have := lt_of_getElem? hxd; omega
        subst hxm'
        rw [hedges] at hxd
        simp at hxd
        subst hxd
        rw [hstm]
        have hhead : (if k then bn.next1 else an.next0) = s.endv ∨ (if k then bn.next1 else an.next0) < s.edges.length := by
          cases k with
          | false => simpa [Node.next] using h.inv.head_live_or_end han false
          | true => simpa [Node.next] using h.inv.head_live_or_end hbn true
        have hnx : (⟨w, an.next0, bn.next1, a, b⟩ : Edge).next k = (if k then bn.next1 else an.next0) := by
          cases k <;> simp [Edge.next]
        rw [hnx] at hlt ⊢
        rcases hhead with h1 | h1
        · rw [h1, hlen] at hlt; have := h.inv.szE; omega
        · exact h.lt _ h1
    · intro i hi
      by_cases him : i < s.edges.length
      · have := h.lt i him; omega
      · have := hx i (by omega); omega
    · intro i hi
      have := hx i (by omega); omega

/-! ### mutators commute with the abstraction -/

theorem absG_tryAddNode {s : State} (h : Inv s) (st : Nat → Nat) (ck : Nat) (w : Nat) :
    match CGS.addNode (absG s st ck) w with
    | some sp' => ∃ s', tryAddNode s w = (s', some s.nodes.length) ∧ absG s' st ck = sp'
    | none => tryAddNode s w = (s, none) := by
  unfold CGS.addNode CGS.full
  have hcap : (absG s st ck).cap = s.endv := rfl
  rw [absG_nodes_length, hcap]
  by_cases hf : s.nodes.length = s.endv
  · have : s.nodes.length ≥ s.endv := by omega
    simp only [this, decide_true, if_true]
    exact tryAddNode_full w hf
  · have : ¬ s.nodes.length ≥ s.endv := by have := h.szN; omega
    simp only [this, decide_false, Bool.false_eq_true, if_false]
    refine ⟨_, tryAddNode_room w hf, ?_⟩
    symm
    apply eq_absG_of rfl rfl
    · simp [absG]
    · intro i; exact absG_edges_get s st ck i
    · rfl

theorem absG_tryAddEdge {s : State} (h : Inv s) {st : Nat → Nat} {ck : Nat} (hx : Ext s st ck) (a b w : Nat) :
    match CGS.addEdge (absG s st ck) a b w with
    | .ok sp' => ∃ s', tryAddEdge s a b w = (s', .ok s.edges.length) ∧ absG s' st (ck + 1) = sp'
    | .error .limit => tryAddEdge s a b w = (s, .error .edgeIxLimit)
    | .error .absent => tryAddEdge s a b w = (s, .error .nodeOutBounds)
    | .error .both => tryAddEdge s a b w = (s, .error .edgeIxLimit) := by
  unfold CGS.addEdge CGS.full
  have hcap : (absG s st ck).cap = s.endv := rfl
  simp only [absG_nodes_length, absG_edges_length, hcap]
  by_cases hf : s.edges.length = s.endv
  · have h1 : s.edges.length ≥ s.endv := by omega
    simp only [h1, decide_true, Bool.true_and, if_true]
    cases hab : (!(decide (a < s.nodes.length) && decide (b < s.nodes.length))) with
    | true => simp only [if_true]; exact tryAddEdge_full a b w hf
    | false => simp only [Bool.false_eq_true, if_false]; exact tryAddEdge_full a b w hf
  · have h1 : ¬ s.edges.length ≥ s.endv := by have := h.szE; omega
    simp only [h1, decide_false, Bool.false_and, Bool.false_eq_true, if_false]
    by_cases hab : a < s.nodes.length ∧ b < s.nodes.length
    · have : (!(decide (a < s.nodes.length) && decide (b < s.nodes.length))) = false := by simp [hab.1, hab.2]
      simp only [this, Bool.false_eq_true, if_false]
      obtain ⟨s', hs'⟩ := tryAddEdge_room a b w hf hab.1 hab.2
      refine ⟨s', hs', ?_⟩
      obtain ⟨an, bn, _, _, _, _, hend, hdir, hedges, hnl, hnodes⟩ := tryAddEdge_ok hs'
      have hstm : st s.edges.length = ck := by have := hx _ (Nat.le_refl _); simpa using this
      symm
      apply eq_absG_of
      · simp [hend]
      · simp [hdir]; rfl
      · simp only [absG]
        apply List.ext_getElem?
        intro i
        simp only [List.getElem?_map]
        cases hi : s'.nodes[i]? with
        | none =>
          have : s.nodes[i]? = none := by
            apply List.getElem?_eq_none
            have := List.getElem?_eq_none_iff.mp hi
            omega
          simp [this]
        | some nd' =>
          obtain ⟨nd, hnd, hw, _⟩ := hnodes i nd' hi
          simp [hnd, hw]
      · intro i
        simp only [hedges]
        by_cases hi : i < s.edges.length
        · rw [List.getElem?_append_left hi]
          have := absG_edges_get s st ck i
          simp only [absG] at this ⊢
          rw [List.getElem?_append_left (by simpa using hi)]
          exact this
        · by_cases hi2 : i = s.edges.length
          · subst hi2
            have hl : (absG s st ck).edges.length = s.edges.length := absG_edges_length s st ck
            rw [← hl]
            simp only [List.getElem?_concat_length]
            rw [hl]
            simp [absEdgeG, hstm]
            rfl
          · have h3 : (s.edges ++ [(⟨w, an.next0, bn.next1, a, b⟩ : Edge)])[i]? = none :=
              List.getElem?_eq_none (by simp; omega)
            rw [h3]
            simp only [Option.map_none]
            apply List.getElem?_eq_none
            simp [absG]; omega
      · rfl
    · have : (!(decide (a < s.nodes.length) && decide (b < s.nodes.length))) = true := by
        simp only [Bool.not_eq_true', Bool.and_eq_false_iff, decide_eq_false_iff_not]
        by_cases ha : a < s.nodes.length
        · right; exact fun hb => hab ⟨ha, hb⟩
        · left; exact ha
      simp only [this, if_true]
      exact tryAddEdge_absent a b w hf hab


/-- `RInv` together with `Ext` -/
structure RX (s : State) (st : Nat → Nat) (ck : Nat) : Prop where
  rinv : RInv s st ck
  ext : Ext s st ck

theorem rx_tryAddNode {s : State} {st : Nat → Nat} {ck : Nat} (h : RX s st ck) (w : Nat) :
    RX (tryAddNode s w).1 st ck := by
  obtain ⟨h1, h2⟩ := rinv_tryAddNode h.rinv w
  refine ⟨h1, ?_⟩
  intro i hi
  rw [h2] at hi ⊢
  exact h.ext i hi

theorem rx_tryAddEdge {s : State} {st : Nat → Nat} {ck : Nat} (h : RX s st ck) (a b w : Nat) :
    RX (tryAddEdge s a b w).1 st (ckAfter ck s.edges.length (tryAddEdge s a b w).1.edges.length) ∧
    s.edges.length ≤ (tryAddEdge s a b w).1.edges.length := by
  obtain ⟨h1, h2, h3⟩ := rinv_tryAddEdge h.rinv h.ext a b w
  exact ⟨⟨h1, h2⟩, h3⟩

theorem ckAfter_self (ck n : Nat) : ckAfter ck n n = ck := by simp [ckAfter]

theorem ckAfter_trans (ck : Nat) {n n1 n2 : Nat} (h1 : n ≤ n1) (h2 : n1 ≤ n2) :
    ckAfter (ckAfter ck n n1) n1 n2 = ckAfter ck n n2 := by
  simp only [ckAfter]; omega

theorem absG_growTo (nx : Nat) (st : Nat → Nat) (ck : Nat) : ∀ (f : Nat) (s : State), RX s st ck →
    absG (growTo nx f s).1 st ck = (CGS.growTo nx f (absG s st ck)).1 ∧
    (growTo nx f s).2 = (CGS.growTo nx f (absG s st ck)).2 ∧
    RX (growTo nx f s).1 st ck ∧ (growTo nx f s).1.edges.length = s.edges.length := by
  intro f
  induction f with
  | zero => intro s h; exact ⟨rfl, rfl, h, rfl⟩
  | succ f ih =>
    intro s h
    unfold growTo CGS.growTo
    rw [absG_nodes_length]
    by_cases hge : nx ≥ s.nodes.length
    · simp only [hge, if_true]
      have h1 := absG_tryAddNode h.rinv.inv st ck 0
      have hrx := rx_tryAddNode h 0
      have hed := (rinv_tryAddNode h.rinv 0).2
      cases hsp : CGS.addNode (absG s st ck) 0 with
      | none =>
        rw [hsp] at h1
        simp only [h1]
        refine ⟨?_, ?_, h, ?_⟩ <;> first | rfl | trivial
      | some sp' =>
        rw [hsp] at h1
        obtain ⟨s', hs', habs⟩ := h1
        rw [hs'] at hrx hed
        simp only [hs']
        rw [← habs]
        obtain ⟨i1, i2, i3, i4⟩ := ih s' hrx
        exact ⟨i1, i2, i3, by rw [i4]; exact congrArg List.length hed⟩
    · simp only [hge, if_false]
      refine ⟨?_, ?_, h, ?_⟩ <;> first | rfl | trivial

theorem absG_extendWithEdges (st : Nat → Nat) : ∀ (l : List (Nat × Nat × Nat)) (s : State) (ck : Nat), RX s st ck →
    absG (extendWithEdges s l).1 st (ckAfter ck s.edges.length (extendWithEdges s l).1.edges.length) =
      (CGS.extendWithEdges (absG s st ck) l).1 ∧
    (extendWithEdges s l).2 = (CGS.extendWithEdges (absG s st ck) l).2 ∧
    RX (extendWithEdges s l).1 st (ckAfter ck s.edges.length (extendWithEdges s l).1.edges.length) ∧
    s.edges.length ≤ (extendWithEdges s l).1.edges.length := by
  intro l
  induction l with
  | nil =>
    intro s ck h
    simp only [extendWithEdges, CGS.extendWithEdges, ckAfter_self]
    refine ⟨?_, ?_, h, ?_⟩ <;> first | rfl | trivial | exact Nat.le_refl _
  | cons x rest ih =>
    intro s ck h
    obtain ⟨a, b, w⟩ := x
    unfold extendWithEdges CGS.extendWithEdges
    dsimp only
    rw [absG_nodes_length]
    obtain ⟨hg1, hg2, hg3, hg4⟩ := absG_growTo (max a b) st ck (max a b + 2 - s.nodes.length) s h
    rcases hgm : growTo (max a b) (max a b + 2 - s.nodes.length) s with ⟨s1, ok1⟩
    rcases hgs : CGS.growTo (max a b) (max a b + 2 - s.nodes.length) (absG s st ck) with ⟨sp1, oks⟩
    rw [hgm] at hg1 hg2 hg3 hg4
    rw [hgs] at hg1 hg2
    simp only at hg1 hg2 hg3 hg4
    subst hg2
    cases ok1 with
    | false =>
      simp only [hg4, ckAfter_self]
      refine ⟨hg1, ?_, hg3, ?_⟩ <;> first | rfl | trivial | exact Nat.le_refl _
    | true =>
      simp only
      rw [← hg1]
      have h2 := absG_tryAddEdge hg3.rinv.inv hg3.ext a b w
      obtain ⟨hrx, hle⟩ := rx_tryAddEdge hg3 a b w
      cases hsp : CGS.addEdge (absG s1 st ck) a b w with
      | ok sp2 =>
        rw [hsp] at h2
        obtain ⟨s2, hs2, habs⟩ := h2
        rw [hs2] at hrx hle
        simp only [hs2]
        have hlen2 : s2.edges.length = s1.edges.length + 1 := by
          obtain ⟨_, _, _, _, _, _, _, _, hedges, _, _⟩ := tryAddEdge_ok hs2
          rw [hedges]; simp
        have hck2 : ckAfter ck s1.edges.length s2.edges.length = ck + 1 := by simp [ckAfter, hlen2]
        rw [hck2] at hrx
        rw [← habs]
        obtain ⟨i1, i2, i3, i4⟩ := ih s2 (ck + 1) hrx
        have hck3 : ckAfter (ck + 1) s2.edges.length (extendWithEdges s2 rest).1.edges.length =
            ckAfter ck s.edges.length (extendWithEdges s2 rest).1.edges.length := by
          simp only [ckAfter]; omega
        rw [hck3] at i1 i3
        exact ⟨i1, i2, i3, by omega⟩
      | error e =>
        rw [hsp] at h2
        cases e <;> simp only at h2 <;> simp only [h2, hg4, ckAfter_self] <;>
          (refine ⟨?_, ?_, hg3, ?_⟩ <;> first | rfl | trivial | exact Nat.le_refl _)


theorem absG_setNodeWeight {s : State} (st : Nat → Nat) (ck : Nat) {a : Nat} {nd : Node} (_hnd : s.nodes[a]? = some nd) (w : Nat) :
    absG { s with nodes := s.nodes.set a { nd with weight := w } } st ck = spSetNode (absG s st ck) a w := by
  symm
  apply eq_absG_of rfl rfl
  · simp [spSetNode, absG, List.map_set]
  · intro i; exact absG_edges_get s st ck i
  · rfl

theorem absG_setEdgeWeight {s : State} (st : Nat → Nat) (ck : Nat) {e : Nat} {ed : Edge} (hed : s.edges[e]? = some ed) (w : Nat) :
    absG { s with edges := s.edges.set e { ed with weight := w } } st ck = spSetEdge (absG s st ck) e w := by
  symm
  apply eq_absG_of rfl rfl rfl
  · intro i
    simp only [spSetEdge, List.getElem?_set, absG_edges_length]
    have hlt := lt_of_getElem? hed
    by_cases hie : e = i
    · subst hie
      simp [hlt, edgeAt_absG hed, absEdgeG]
    · simp [hie, absG_edges_get]
  · rfl

theorem absG_putWeight (s : State) (st : Nat → Nat) (ck : Nat) (k : Bool) (x w : Nat) (hb : inBounds s k x = true) :
    absG (putWeight s k x w) st ck = spPut (absG s st ck) k x w := by
  unfold putWeight spPut
  cases k with
  | true =>
    simp only [if_true]
    simp [inBounds] at hb
    rw [List.getElem?_eq_getElem hb]
    exact absG_setEdgeWeight st ck (List.getElem?_eq_getElem hb) w
  | false =>
    simp only [Bool.false_eq_true, if_false]
    simp [inBounds] at hb
    rw [List.getElem?_eq_getElem hb]
    exact absG_setNodeWeight st ck (List.getElem?_eq_getElem hb) w

theorem sameLinks_putWeight (s : State) (k : Bool) (x w : Nat) : SameLinks s (putWeight s k x w) := by
  unfold putWeight
  split
  · split
    · rename_i ed hed; exact sameLinks_setEdgeWeight hed w
    · exact SameLinks.refl s
  · split
    · rename_i nd hnd; exact sameLinks_setNodeWeight hnd w
    · exact SameLinks.refl s

theorem absG_reverse (s : State) (st : Nat → Nat) (ck : Nat) : absG (reverse s) st ck = CGS.reverse (absG s st ck) := by
  symm
  apply eq_absG_of rfl rfl
  · simp [CGS.reverse, absG, reverse, List.map_map, Function.comp_def]
  · intro i
    simp only [CGS.reverse, List.getElem?_map, absG_edges_get, reverse, Option.map_map]
    cases s.edges[i]? <;> simp [absEdgeG]
  · rfl

theorem rinv_reverse {s : State} {st : Nat → Nat} {ck : Nat} (h : RInv s st ck) : RInv (reverse s) st ck := by
  refine ⟨inv_reverse h.inv, ?_, by simpa [reverse] using h.lt⟩
  intro x xd k hx hlt
  simp only [reverse, List.getElem?_map, Option.map_eq_some_iff] at hx
  obtain ⟨y, hy, rfl⟩ := hx
  have hk : (⟨y.weight, y.next1, y.next0, y.tgt, y.src⟩ : Edge).next k = y.next (!k) := by
    cases k <;> simp [Edge.next]
  rw [hk] at hlt ⊢
  exact h.sd x y (!k) hy (by simpa [reverse] using hlt)

theorem absG_clear (s : State) (st : Nat → Nat) (ck : Nat) : absG (clear s) st 0 = CGS.clear (absG s st ck) := by
  simp [absG, clear, CGS.clear]

theorem absG_clearEdges (s : State) (st : Nat → Nat) (ck : Nat) : absG (clearEdges s) st 0 = CGS.clearEdges (absG s st ck) := by
  simp [absG, clearEdges, CGS.clearEdges, List.map_map, Function.comp_def]

theorem rinv_of_no_edges {s : State} (h : Inv s) (he : s.edges = []) (st : Nat → Nat) (ck : Nat) : RInv s st ck := by
  refine ⟨h, ?_, ?_⟩
  · intro x xd k hx; rw [he] at hx; simp at hx
  · intro i hi; rw [he] at hi; simp at hi

theorem absG_mapWeights (s : State) (st : Nat → Nat) (ck : Nat) (dn de : Nat) :
    absG (mapWeights s dn de) st ck = CGS.mapWeights (absG s st ck) dn de := by
  symm
  apply eq_absG_of rfl rfl
  · apply List.ext_getElem?
    intro i
    simp only [CGS.mapWeights, absG_nodes_length, mapWeights, List.getElem?_map]
    have h1 := zipWith_range_getElem? (fun i (w : Nat) => w + dn + i) (absG s st ck).nodes i
    rw [absG_nodes_length] at h1
    rw [h1]
    have h2 := zipWith_range_getElem? (fun i (n : Node) => ({ n with weight := n.weight + dn + i } : Node)) s.nodes i
    rw [h2]
    simp only [absG, List.getElem?_map, Option.map_map]
    cases s.nodes[i]? <;> simp
  · intro i
    simp only [CGS.mapWeights, absG_edges_length, mapWeights]
    have h1 := zipWith_range_getElem? (fun i (ed : CGS.SEdge) => ({ ed with weight := ed.weight + de + i } : CGS.SEdge)) (absG s st ck).edges i
    rw [absG_edges_length] at h1
    rw [h1]
    have h2 := zipWith_range_getElem? (fun i (e : Edge) => ({ e with weight := e.weight + de + i } : Edge)) s.edges i
    rw [h2, absG_edges_get]
    cases s.edges[i]? <;> simp [absEdgeG]
  · rfl

theorem absG_bumpNodes (s : State) (st : Nat → Nat) (ck : Nat) (d : Nat) :
    absG { s with nodes := s.nodes.map fun n => { n with weight := n.weight + d } } st ck =
      { absG s st ck with nodes := (absG s st ck).nodes.map (· + d) } := by
  simp [absG, List.map_map, Function.comp_def]

theorem absG_bumpEdges (s : State) (st : Nat → Nat) (ck : Nat) (d : Nat) :
    absG { s with edges := s.edges.map fun e => { e with weight := e.weight + d } } st ck =
      { absG s st ck with edges := (absG s st ck).edges.map fun ed => { ed with weight := ed.weight + d } } := by
  symm
  apply eq_absG_of rfl rfl rfl
  · intro i
    simp only [List.getElem?_map, absG_edges_get, Option.map_map]
    cases s.edges[i]? <;> simp [absEdgeG]
  · rfl

theorem addEdgeAcc_absG {s : State} (h : Inv s) {st : Nat → Nat} {ck : Nat} (hx : Ext s st ck) (isTry : Bool) (a b w : Nat) :
    AddEdgeAcc (absG s st ck) isTry a b w (resOut isTry (tryAddEdge s a b w).2)
      (absG (tryAddEdge s a b w).1 st (ckAfter ck s.edges.length (tryAddEdge s a b w).1.edges.length)) := by
  unfold AddEdgeAcc resOut
  have h1 := absG_tryAddEdge h hx a b w
  rw [absG_edges_length]
  cases hsp : CGS.addEdge (absG s st ck) a b w with
  | ok g =>
    rw [hsp] at h1
    obtain ⟨s', hs', habs⟩ := h1
    simp only [hs']
    have hlen2 : s'.edges.length = s.edges.length + 1 := by
      obtain ⟨_, _, _, _, _, _, _, _, hedges, _, _⟩ := tryAddEdge_ok hs'
      rw [hedges]; simp
    have hck2 : ckAfter ck s.edges.length s'.edges.length = ck + 1 := by simp [ckAfter, hlen2]
    rw [hck2]
    refine ⟨?_, habs⟩
    cases isTry <;> simp
  | error e =>
    rw [hsp] at h1
    cases e <;> simp only at h1 <;> simp only [h1, ckAfter_self] <;> cases isTry <;> simp

theorem connects_absG {s : State} (st : Nat → Nat) (ck : Nat) {a b e : Nat} (hc : Connects s a b e) :
    e < (absG s st ck).edges.length ∧ CGS.connects (absG s st ck) a b (CGS.edgeAt (absG s st ck) e) = true := by
  obtain ⟨ed, hed, hj⟩ := hc
  refine ⟨by rw [absG_edges_length]; exact lt_of_getElem? hed, ?_⟩
  rw [edgeAt_absG hed]
  have hdir : (absG s st ck).directed = s.directed := rfl
  simp only [CGS.connects, absEdgeG, hdir, Bool.or_eq_true, Bool.and_eq_true, beq_iff_eq, Bool.not_eq_true']
  rcases hj with hj | ⟨h1, h2, h3⟩
  · exact Or.inl hj
  · exact Or.inr ⟨⟨h1, h2⟩, h3⟩


theorem updateEdgeAcc_absG {s s' : State} {r : Except GErr Nat} (h : Inv s) {st : Nat → Nat} {ck : Nat} (hx : Ext s st ck)
    (isTry : Bool) (a b w : Nat) (he : tryUpdateEdge s a b w = .ok (s', r)) :
    UpdateEdgeAcc (absG s st ck) isTry a b w (resOut isTry r) (absG s' st (ckAfter ck s.edges.length s'.edges.length)) := by
  obtain ⟨fr, hfr, hf1, hf2⟩ := h.findEdge_spec a b
  unfold tryUpdateEdge at he
  rw [hfr] at he
  unfold UpdateEdgeAcc
  cases fr with
  | some ix =>
    have hc := hf1 ix rfl
    have hhas : CGS.hasEdge (absG s st ck) a b = true := (hasEdge_absG s st ck a b).mpr ⟨ix, hc⟩
    obtain ⟨hlt, hcon⟩ := connects_absG st ck hc
    obtain ⟨ed, hed, _⟩ := hc
    simp only [hed] at he
    simp only [Except.ok.injEq, Prod.mk.injEq] at he
    obtain ⟨rfl, rfl⟩ := he
    simp only [hhas, if_true]
    have hck : ckAfter ck s.edges.length (s.edges.set ix { ed with weight := w }).length = ck := by simp [ckAfter]
    simp only [hck]
    refine ⟨ix, ?_, hlt, hcon, absG_setEdgeWeight st ck hed w⟩
    cases isTry <;> simp [resOut]
  | none =>
    have hhas : ¬ CGS.hasEdge (absG s st ck) a b = true := by
      intro hh
      obtain ⟨e, hc⟩ := (hasEdge_absG s st ck a b).mp hh
      exact hf2 rfl e hc
    have he' : tryAddEdge s a b w = (s', r) := by simpa using he
    simp only [hhas, Bool.false_eq_true, if_false]
    have := addEdgeAcc_absG h hx isTry a b w
    simp only [he'] at this
    exact this

theorem rinv_tryUpdateEdge {s s' : State} {r : Except GErr Nat} {st : Nat → Nat} {ck : Nat} (h : RX s st ck)
    (a b w : Nat) (he : tryUpdateEdge s a b w = .ok (s', r)) :
    RInv s' st (ckAfter ck s.edges.length s'.edges.length) := by
  unfold tryUpdateEdge at he
  have hadd : ∀ {t : State} {q : Except GErr Nat}, tryAddEdge s a b w = (t, q) →
      RInv t st (ckAfter ck s.edges.length t.edges.length) := by
    intro t q ht
    have := (rx_tryAddEdge h a b w).1.rinv
    rw [ht] at this; exact this
  split at he
  · simp at he
  · split at he
    · rename_i ed hed
      simp only [Except.ok.injEq, Prod.mk.injEq] at he
      obtain ⟨rfl, _⟩ := he
      have hck : ∀ ix, ckAfter ck s.edges.length (s.edges.set ix { ed with weight := w }).length = ck := by
        intro ix; simp [ckAfter]
      simp only [hck]
      exact rinv_of_sameLinks h.rinv (sameLinks_setEdgeWeight hed w)
    · simp only [Except.ok.injEq] at he
      exact hadd he
  · simp only [Except.ok.injEq] at he
    exact hadd he

theorem tryUpdateEdge_ok {s : State} (h : Inv s) (a b w : Nat) : ∃ v, tryUpdateEdge s a b w = .ok v := by
  obtain ⟨fr, hfr, _, _⟩ := h.findEdge_spec a b
  unfold tryUpdateEdge
  rw [hfr]
  cases fr with
  | none => exact ⟨_, rfl⟩
  | some ix => simp only; split <;> exact ⟨_, rfl⟩

theorem spInBounds_absG (s : State) (st : Nat → Nat) (ck : Nat) (k : Bool) (x : Nat) :
    spInBounds (absG s st ck) k x = inBounds s k x := by
  unfold spInBounds inBounds
  rw [absG_edges_length, absG_nodes_length]

theorem spAllRefs_absG (s : State) (st : Nat → Nat) (ck : Nat) : spAllRefs (absG s st ck) = allERefs s := by
  apply List.ext_getElem?
  intro i
  unfold spAllRefs allERefs
  have h1 := zipWith_range_getElem? (fun i (ed : CGS.SEdge) => (⟨i, ed.src, ed.tgt, ed.weight⟩ : ERef)) (absG s st ck).edges i
  rw [h1, zipWith_range_getElem?, absG_edges_get]
  cases s.edges[i]? <;> simp [absEdgeG]

/-- what a core call has to establish (on `SpecAccepts`) -/
def CoreOK (s : State) (st : Nat → Nat) (ck : Nat) (op : Op) : Prop :=
  ∃ st' ck', SpecAccepts (absG s st ck) op (step s op).2 (absG (step s op).1 st' ck') ∧ RInv (step s op).1 st' ck'

theorem coreOK_same {s : State} {st : Nat → Nat} {ck : Nat} {op : Op}
    (h1 : SpecAccepts (absG s st ck) op (step s op).2 (absG (step s op).1 st ck)) (h2 : RInv (step s op).1 st ck) :
    CoreOK s st ck op := ⟨st, ck, h1, h2⟩


/-- **refinement step for the core calls, in any reachable state** (removals may have happened):
answers as the plain multigraph allows — in particular directed adjacency most recently added
first — and the successor state again abstracts to the multigraph's successor -/
theorem coreOK_of_rx {s : State} {st : Nat → Nat} {ck : Nat} (h : RX s st ck) (op : Op) (hc : isCore op = true) :
    CoreOK s st ck op := by
  have hr := h.rinv
  have hi := h.rinv.inv
  have hx := h.ext
  unfold CoreOK
  cases op <;> simp only [isCore] at hc <;> (try cases hc) <;> simp only [step, SpecAccepts]
  case new d =>
    exact ⟨id, 0, by close_acc, rinv_of_inv1 (inv1_empty _ _)⟩
  case fromEdges l =>
    obtain ⟨h1, h2⟩ := abs_extendWithEdges l (empty s.endv s.directed) (inv_empty _ _)
    have hinv1 := inv1_extendWithEdges l (empty s.endv s.directed) (inv1_empty _ _)
    have he : abs (empty s.endv s.directed) = CGS.empty (absG s st ck).cap (absG s st ck).directed := rfl
    rw [he] at h1 h2
    rcases hm : extendWithEdges (empty s.endv s.directed) l with ⟨g, ok⟩
    rw [hm] at h1 h2 hinv1
    simp only at h1 h2 hinv1
    rw [← h2]
    cases ok with
    | true =>
      simp only [if_true]
      exact ⟨id, g.edges.length, by acc_r (h1), rinv_of_inv1 hinv1⟩
    | false =>
      simp only [Bool.false_eq_true, if_false]
      exact ⟨st, ck, by close_acc, hr⟩
  case fromElements l =>
    have h1 := abs_fromElements l (empty s.endv s.directed) (inv_empty _ _)
    have he : abs (empty s.endv s.directed) = CGS.empty (absG s st ck).cap (absG s st ck).directed := rfl
    rw [he] at h1
    rw [← h1]
    cases hfe : fromElements (empty s.endv s.directed) l with
    | none => exact ⟨st, ck, by close_acc, hr⟩
    | some g =>
      have hinv1 := inv1_fromElements l _ g (inv1_empty _ _) hfe
      exact ⟨id, g.edges.length, by close_acc, rinv_of_inv1 hinv1⟩
  case addNode w =>
    have h1 := absG_tryAddNode hi st ck w
    have h2 := (rinv_tryAddNode hr w).1
    rw [absG_nodes_length]
    cases hsp : CGS.addNode (absG s st ck) w with
    | none => rw [hsp] at h1; simp only [h1]; exact ⟨st, ck, by close_acc, hr⟩
    | some g =>
      rw [hsp] at h1
      obtain ⟨s', hs', habs⟩ := h1
      rw [hs'] at h2
      simp only [hs']; exact ⟨st, ck, by acc_r (habs), h2⟩
  case tryAddNode w =>
    have h1 := absG_tryAddNode hi st ck w
    have h2 := (rinv_tryAddNode hr w).1
    rw [absG_nodes_length]
    cases hsp : CGS.addNode (absG s st ck) w with
    | none => rw [hsp] at h1; simp only [h1]; exact ⟨st, ck, by close_acc, hr⟩
    | some g =>
      rw [hsp] at h1
      obtain ⟨s', hs', habs⟩ := h1
      rw [hs'] at h2
      simp only [hs']; exact ⟨st, ck, by acc_r (habs), h2⟩
  case addEdge a b w =>
    have := addEdgeAcc_absG hi hx false a b w
    have h2 := (rx_tryAddEdge h a b w).1.rinv
    rcases hrr : tryAddEdge s a b w with ⟨s', r⟩
    simp only [hrr, resOut, Bool.false_eq_true, if_false] at this h2
    refine ⟨st, ckAfter ck s.edges.length s'.edges.length, ?_, ?_⟩
    · cases r <;> exact this
    · cases r <;> exact h2
  case tryAddEdge a b w =>
    have := addEdgeAcc_absG hi hx true a b w
    have h2 := (rx_tryAddEdge h a b w).1.rinv
    exact ⟨st, _, by simpa [resOut] using this, h2⟩
  case updateEdge a b w =>
    obtain ⟨v, hu⟩ := tryUpdateEdge_ok hi a b w
    obtain ⟨s', r⟩ := v
    have := updateEdgeAcc_absG hi hx false a b w hu
    have h2 := rinv_tryUpdateEdge h a b w hu
    simp only [resOut, Bool.false_eq_true, if_false] at this
    simp only [hu, liftF]
    refine ⟨st, ckAfter ck s.edges.length s'.edges.length, ?_, ?_⟩
    · cases r <;> exact this
    · cases r <;> exact h2
  case tryUpdateEdge a b w =>
    obtain ⟨v, hu⟩ := tryUpdateEdge_ok hi a b w
    obtain ⟨s', r⟩ := v
    have := updateEdgeAcc_absG hi hx true a b w hu
    have h2 := rinv_tryUpdateEdge h a b w hu
    simp only [hu, liftF]
    exact ⟨st, _, by simpa [resOut] using this, h2⟩
  case nodeWeightMut a w =>
    rw [absG_nodes_get]
    unfold setNodeWeight
    cases hnd : s.nodes[a]? with
    | none => exact ⟨st, ck, by close_acc, hr⟩
    | some nd => exact ⟨st, ck, by acc_r (absG_setNodeWeight st ck hnd w), rinv_of_sameLinks hr (sameLinks_setNodeWeight hnd w)⟩
  case edgeWeightMut e w =>
    rw [absG_edges_get]
    unfold setEdgeWeight
    cases hed : s.edges[e]? with
    | none => exact ⟨st, ck, by close_acc, hr⟩
    | some ed => exact ⟨st, ck, by acc_r (absG_setEdgeWeight st ck hed w), rinv_of_sameLinks hr (sameLinks_setEdgeWeight hed w)⟩
  case indexMutNode a w =>
    rw [absG_nodes_length]
    unfold setNodeWeight
    by_cases ha : a < s.nodes.length
    · rw [List.getElem?_eq_getElem ha]
      simp only [ha, if_true]
      exact ⟨st, ck, by acc_r (absG_setNodeWeight st ck (List.getElem?_eq_getElem ha) w),
        rinv_of_sameLinks hr (sameLinks_setNodeWeight (List.getElem?_eq_getElem ha) w)⟩
    · rw [List.getElem?_eq_none (by omega)]
      simp only [ha, if_false]
      exact ⟨st, ck, by close_acc, hr⟩
  case indexMutEdge e w =>
    rw [absG_edges_length]
    unfold setEdgeWeight
    by_cases he : e < s.edges.length
    · rw [List.getElem?_eq_getElem he]
      simp only [he, if_true]
      exact ⟨st, ck, by acc_r (absG_setEdgeWeight st ck (List.getElem?_eq_getElem he) w),
        rinv_of_sameLinks hr (sameLinks_setEdgeWeight (List.getElem?_eq_getElem he) w)⟩
    · rw [List.getElem?_eq_none (by omega)]
      simp only [he, if_false]
      exact ⟨st, ck, by close_acc, hr⟩
  case indexTwiceMut ki kj i j wi wj =>
    simp only [spInBounds_absG]
    by_cases hok : (ki ≠ kj ∨ i ≠ j) ∧ inBounds s ki i = true ∧ inBounds s kj j = true
    · have hv : indexTwiceMut s ki kj i j wi wj = some (putWeight (putWeight s ki i wi) kj j wj) := by
        unfold indexTwiceMut
        have hc1 : (!(ki != kj || i != j)) = false := by
          rcases hok.1 with h1 | h1 <;> simp [h1]
        have hc2 : (!(inBounds s ki i) || !(inBounds s kj j)) = false := by simp [hok.2.1, hok.2.2]
        simp only [hc1, hc2, Bool.false_eq_true, if_false]
      rw [hv]
      refine ⟨st, ck, ?_, ?_⟩
      · rw [if_pos hok]
        refine ⟨rfl, ?_⟩
        rw [absG_putWeight _ st ck kj j wj (by rw [inBounds_putWeight]; exact hok.2.2), absG_putWeight s st ck ki i wi hok.2.1]
      · exact rinv_of_sameLinks hr ((sameLinks_putWeight s ki i wi).trans (sameLinks_putWeight _ kj j wj))
    · have hv : indexTwiceMut s ki kj i j wi wj = none := by
        unfold indexTwiceMut
        by_cases h1 : ki ≠ kj ∨ i ≠ j
        · have hc1 : (!(ki != kj || i != j)) = false := by
            rcases h1 with h1 | h1 <;> simp [h1]
          have hc2 : (!(inBounds s ki i) || !(inBounds s kj j)) = true := by
            by_cases hxx : inBounds s ki i = true
            · have : inBounds s kj j = false := by
                cases hy : inBounds s kj j with
                | true => exact absurd ⟨h1, hxx, hy⟩ hok
                | false => rfl
              simp [this]
            · simp [hxx]
          simp only [hc1, hc2, Bool.false_eq_true, if_false, if_true]
        · have hc1 : (!(ki != kj || i != j)) = true := by
            have hk : ki = kj := by by_contra hk; exact h1 (Or.inl hk)
            have hij : i = j := by by_contra hij; exact h1 (Or.inr hij)
            simp [hk, hij]
          simp only [hc1, if_true]
      rw [hv]
      refine ⟨st, ck, ?_, hr⟩
      rw [if_neg hok]
      close_acc
  case bumpNodes d => exact ⟨st, ck, by acc_r (absG_bumpNodes s st ck d), rinv_of_sameLinks hr (sameLinks_bumpNodes s d)⟩
  case bumpEdges d => exact ⟨st, ck, by acc_r (absG_bumpEdges s st ck d), rinv_of_sameLinks hr (sameLinks_bumpEdges s d)⟩
  case reverse => exact ⟨st, ck, by acc_r (absG_reverse s st ck), rinv_reverse hr⟩
  case clear => exact ⟨st, 0, by acc_r (absG_clear s st ck), rinv_of_no_edges (inv_clear hi) rfl st 0⟩
  case clearEdges => exact ⟨st, 0, by acc_r (absG_clearEdges s st ck), rinv_of_no_edges (inv_clearEdges hi) rfl st 0⟩
  case extendWithEdges l =>
    obtain ⟨h1, h2, h3, _⟩ := absG_extendWithEdges st l s ck h
    rcases hm : extendWithEdges s l with ⟨g, ok⟩
    rw [hm] at h1 h2 h3
    simp only at h1 h2 h3
    rw [← h2]
    refine ⟨st, ckAfter ck s.edges.length g.edges.length, ?_, ?_⟩
    · cases ok <;> acc_l (h1)
    · cases ok <;> exact h3.rinv
  case map dn de => exact ⟨st, ck, by acc_r (absG_mapWeights s st ck dn de), rinv_of_sameLinks hr (sameLinks_mapWeights s dn de)⟩
  case intoEdgeType d => exact ⟨st, ck, by close_acc, rinv_setDirected hr d⟩
  case clone => exact ⟨st, ck, by close_acc, hr⟩
  case capacityOp => exact ⟨st, ck, by close_acc, hr⟩
  case nodeCount => exact ⟨st, ck, by acc_l (by rw [absG_nodes_length]), hr⟩
  case edgeCount => exact ⟨st, ck, by acc_l (by rw [absG_edges_length]), hr⟩
  case isDirected => exact ⟨st, ck, by close_acc, hr⟩
  case nodeWeight a => exact ⟨st, ck, by acc_l (by rw [absG_nodes_get]), hr⟩
  case edgeWeight e => exact ⟨st, ck, by acc_l (by rw [absG_edges_get]; cases s.edges[e]? <;> rfl), hr⟩
  case indexNode a =>
    rw [absG_nodes_get]
    cases s.nodes[a]? <;> exact ⟨st, ck, by close_acc, hr⟩
  case indexEdge e =>
    rw [absG_edges_get]
    cases s.edges[e]? <;> exact ⟨st, ck, by close_acc, hr⟩
  case edgeEndpoints e =>
    rw [absG_edges_get]
    cases s.edges[e]? <;> exact ⟨st, ck, by close_acc, hr⟩
  case findEdge a b =>
    obtain ⟨fr, hfr, hf1, hf2⟩ := hi.findEdge_spec a b
    simp only [hfr, liftF]
    refine ⟨st, ck, ⟨rfl, ?_⟩, hr⟩
    cases fr with
    | none =>
      left
      refine ⟨rfl, ?_⟩
      cases hh : CGS.hasEdge (absG s st ck) a b with
      | false => rfl
      | true =>
        obtain ⟨e, hc⟩ := (hasEdge_absG s st ck a b).mp hh
        exact absurd hc (hf2 rfl e)
    | some e =>
      right
      obtain ⟨hlt, hcon⟩ := connects_absG st ck (hf1 e rfl)
      exact ⟨e, rfl, hlt, hcon⟩
  case containsEdge a b =>
    obtain ⟨fr, hfr, hf1, hf2⟩ := hi.findEdge_spec a b
    simp only [hfr, liftF]
    refine ⟨st, ck, ⟨?_, rfl⟩, hr⟩
    cases fr with
    | none =>
      cases hh : CGS.hasEdge (absG s st ck) a b with
      | false => rfl
      | true =>
        obtain ⟨e, hc⟩ := (hasEdge_absG s st ck a b).mp hh
        exact absurd hc (hf2 rfl e)
    | some e =>
      have : CGS.hasEdge (absG s st ck) a b = true := (hasEdge_absG s st ck a b).mpr ⟨e, hf1 e rfl⟩
      simp [this]
  case findEdgeUndirected a b =>
    obtain ⟨fr, hfr, hf1, hf2⟩ := hi.findEdgeUndirected_spec a b
    simp only [hfr, liftF]
    refine ⟨st, ck, ⟨rfl, ?_⟩, hr⟩
    cases fr with
    | none =>
      left
      refine ⟨rfl, ?_⟩
      intro ed hed hj
      obtain ⟨e, he⟩ := List.mem_iff_getElem?.mp hed
      rw [absG_edges_get] at he
      cases hxx : s.edges[e]? with
      | none => rw [hxx] at he; cases he
      | some x =>
        rw [hxx] at he
        simp at he
        subst he
        rcases hj with hj | hj
        · exact hf2 rfl e false ⟨x, hxx, by simpa [absEdgeG] using hj⟩
        · exact hf2 rfl e true ⟨x, hxx, by simpa [absEdgeG] using hj⟩
    | some p =>
      right
      obtain ⟨e, k⟩ := p
      obtain ⟨ed, hed, hj⟩ := hf1 e k rfl
      refine ⟨e, k, rfl, by rw [absG_edges_length]; exact lt_of_getElem? hed, ?_⟩
      rw [edgeAt_absG hed]
      cases k <;> simpa [absEdgeG] using hj
  case neighbors a =>
    have := hr.neighborsDirected_eq a false
    simp only [this, liftF, Bool.false_eq_true, if_false]
    exact ⟨st, ck, by acc_r ⟨_, rfl, ListAcc.of_eq _ rfl⟩, hr⟩
  case neighborsDirected a k =>
    have := hr.neighborsDirected_eq a k
    simp only [this, liftF]
    exact ⟨st, ck, by acc_r ⟨_, rfl, ListAcc.of_eq _ rfl⟩, hr⟩
  case neighborsUndirected a =>
    have := hr.neighborsUndirected_eq a
    simp only [this, liftF]
    exact ⟨st, ck, by acc_r ⟨_, rfl, ListAcc.of_eq _ rfl⟩, hr⟩
  case edges a =>
    have := hr.edgesDirected_eq a false
    simp only [this, liftF]
    exact ⟨st, ck, by acc_r ⟨_, rfl, ListAcc.of_eq _ rfl⟩, hr⟩
  case edgesDirected a k =>
    have := hr.edgesDirected_eq a k
    simp only [this, liftF]
    exact ⟨st, ck, by acc_r ⟨_, rfl, ListAcc.of_eq _ rfl⟩, hr⟩
  case edgesConnecting a b =>
    have := hr.edgesConnecting_eq a b
    simp only [this, liftF]
    exact ⟨st, ck, by acc_r ⟨_, rfl, ListAcc.of_eq _ rfl⟩, hr⟩
  case externals k => exact ⟨st, ck, by acc_l (by rw [hi.externals_eqG st ck k]), hr⟩
  case nodeWeights => exact ⟨st, ck, by close_acc, hr⟩
  case edgeRefs => exact ⟨st, ck, by acc_l (by rw [spAllRefs_absG]), hr⟩

/-- the same from `RInv` alone (the stamps beyond the live range are irrelevant) -/
theorem coreOK {s : State} {st : Nat → Nat} {ck : Nat} (h : RInv s st ck) (op : Op) (hc : isCore op = true) :
    CoreOK s st ck op := by
  have hag := extSt_agree st s.edges.length ck
  have hrx : RX s (extSt st s.edges.length ck) ck := ⟨h.congr hag, ext_extSt s st ck⟩
  have := coreOK_of_rx hrx op hc
  unfold CoreOK at this ⊢
  rw [← absG_congr s ck hag] at this
  exact this

theorem stepOK_core {s : State} {st : Nat → Nat} {ck : Nat} (h : RInv s st ck) (op : Op) (hc : isCore op = true) :
    StepOK s st ck op := by
  obtain ⟨st', ck', h1, h2⟩ := coreOK h op hc
  exact ⟨st', ck', specAccepts2_of_core hc h1, h2⟩


end PetgraphModel.GProofs
