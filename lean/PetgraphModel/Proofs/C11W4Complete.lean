import PetgraphModel.Proofs.C11Models
import PetgraphModel.Proofs.ReachTotal
/-
COMPLETENESS of the C11 spec-level judges on the "no negative cycle reachable" side.

`Proofs/C11.lean` shows that whatever the (untrusted) reference search does, an accepted answer is
right.  This file shows the converse on the side where the search has to *converge*:

* `checkDist_complete`: the certificate checker accepts every labelling with duplicate-free keys that
  is realizable, feasible and has a source label `≤ 0` (in particular: the exact distances);
  `checkDist_iff` characterises acceptance completely;
* `refCert_complete`: on a well-formed graph without a negative cycle reachable from the source the
  reference search stops with `upd = false` within its `|V| + 2` passes and what it returns is accepted
  by `checkDist`; hence `negReachable g s = some false`, `negAnywhere g = some false`;
* the judges are therefore never "inconclusive" on that side (`judgeErr_conclusive`, …), and
  `judgeOk` accepts every exact answer with a shortest-path tree (`judgeOk_complete`).
-/
namespace PetgraphModel.C11W4C
open PetgraphModel PetgraphModel.MGraph PetgraphModel.Oracle PetgraphModel.C11J
  PetgraphModel.DistProofs PetgraphModel.C11P PetgraphModel.C11MP

/-! ### `List.eraseDups` on a list of keys -/

theorem eraseDups_length_le : ∀ (n : Nat) (l : List Nat), l.length ≤ n → l.eraseDups.length ≤ l.length := by
  intro n
  induction n with
  | zero =>
    intro l hl
    have : l = [] := by cases l with | nil => rfl | cons _ _ => simp at hl
    subst this; simp
  | succ n ih =>
    intro l hl
    cases l with
    | nil => simp
    | cons a as =>
      rw [List.eraseDups_cons]
      have h1 := List.length_filter_le (fun b => !b == a) as
      have h2 := ih (as.filter fun b => !b == a) (by simp at hl; omega)
      simp only [List.length_cons]
      omega

theorem eraseDups_of_nodup : ∀ (l : List Nat), l.Nodup → l.eraseDups = l := by
  intro l
  induction l with
  | nil => intro _; rfl
  | cons a as ih =>
    intro h
    obtain ⟨ha, has⟩ := List.nodup_cons.mp h
    rw [List.eraseDups_cons]
    have : as.filter (fun b => !b == a) = as := by
      rw [List.filter_eq_self]
      intro b hb
      have : b ≠ a := fun hba => ha (hba ▸ hb)
      simpa using this
    rw [this, ih has]

theorem nodup_of_eraseDups_length : ∀ (l : List Nat), l.eraseDups.length = l.length → l.Nodup := by
  intro l
  induction l with
  | nil => intro _; exact List.nodup_nil
  | cons a as ih =>
    intro h
    rw [List.eraseDups_cons] at h
    simp only [List.length_cons] at h
    have h1 := List.length_filter_le (fun b => !b == a) as
    have h2 := eraseDups_length_le _ (as.filter fun b => !b == a) (Nat.le_refl _)
    have hlen : (as.filter fun b => !b == a).length = as.length := by omega
    have hall := List.length_filter_eq_length_iff.mp hlen
    have hfil : as.filter (fun b => !b == a) = as := List.filter_eq_self.mpr hall
    rw [hfil] at h
    refine List.nodup_cons.mpr ⟨?_, ih (by omega)⟩
    intro ha
    have := hall a ha
    simp at this

/-! ### completeness of the certificate checker -/

theorem lookup_isSome_of_mem {d : List (Nat × Int)} {v : Nat} {y : Int} (h : (v, y) ∈ d) :
    ∃ y', labelOf d v = some y' := by
  unfold labelOf
  induction d with
  | nil => cases h
  | cons p d ih =>
    obtain ⟨a, b⟩ := p
    rw [List.lookup_cons]
    by_cases hva : v = a
    · subst hva; exact ⟨b, by simp⟩
    · have hne : (v == a) = false := by simpa using hva
      rw [hne]
      rcases List.mem_cons.mp h with h | h
      · cases h; exact absurd rfl hva
      · exact ih h

/-- a tight arc is a step of the tight graph -/
theorem adj_tight {g : MGraph} {d : List (Nat × Int)} {u v : Nat} {w x : Int}
    (harc : (u, v, w) ∈ g.arcs) (hu : labelOf d u = some x) (hv : labelOf d v = some (x + w)) :
    Adj (tightGraph g d) u v := by
  refine ⟨⟨0, u, v, w⟩, ?_, Or.inl ⟨rfl, rfl⟩⟩
  simp only [tightGraph, List.mem_filterMap]
  exact ⟨(u, v, w), harc, by simp [hu, hv]⟩

/-- under a feasible labelling a walk whose cost equals the label of its end runs along tight arcs -/
theorem tight_reach {g : MGraph} {s : Nat} {d : List (Nat × Int)}
    (hs0 : labelOf d s = some 0) (hf : Feasible g (labelOf d)) {v : Nat} {c : Int}
    (hw : WalkCost g s v c) : labelOf d v = some c → Reach (tightGraph g d) s v := by
  induction hw with
  | nil => intro _; exact Reach.refl _
  | snoc hw' harc ih =>
    rename_i b x c' w
    intro hx
    obtain ⟨yb, hyb, hle⟩ := feasible_walk hf hw' 0 hs0
    obtain ⟨yx, hyx, hle'⟩ := hf _ _ _ harc yb hyb
    rw [hx] at hyx; cases hyx
    have hyb' : yb = c' := by omega
    subst hyb'
    exact Reach.step (ih hyb) (adj_tight harc hyb hx)

/-- **Completeness of `checkDist`.**  A labelling with duplicate-free keys that is realizable (every
label is the cost of some walk from `s`), has a source label `≤ 0` and is feasible is accepted. -/
theorem checkDist_complete (g : MGraph) (s : Nat) (d : List (Nat × Int))
    (hnd : (d.map (·.1)).Nodup)
    (hreal : ∀ x y, labelOf d x = some y → WalkCost g s x y)
    (hsrc : ∃ y, labelOf d s = some y ∧ y ≤ 0)
    (hf : Feasible g (labelOf d)) : checkDist g s d = true := by
  obtain ⟨hs0, _, _, _⟩ := exact_of_feasible hreal hsrc hf
  obtain ⟨r, hr⟩ := reachFrom_total (tightGraph g d) s
  unfold checkDist
  simp only [Bool.and_eq_true, List.all_eq_true]
  refine ⟨⟨⟨by simp [hs0], ?_⟩, ?_⟩, ?_⟩
  · rw [eraseDups_of_nodup _ hnd]; simp
  · rintro ⟨u, v, w⟩ harc
    simp only
    cases hu : labelOf d u with
    | none => rfl
    | some x =>
      obtain ⟨y, hy, hle⟩ := hf u v w harc x hu
      simp only [hy]
      simpa using hle
  · rw [hr]
    simp only [List.all_eq_true]
    rintro ⟨v, y⟩ hmem
    obtain ⟨y', hy'⟩ := lookup_isSome_of_mem hmem
    have hreach := tight_reach hs0 hf (hreal v y' hy') hy'
    have := ((reachFrom_spec _ _ _ hr).2 v).2 hreach
    simpa using this

/-- without a reachable negative cycle, exact labels on exactly the reachable nodes are feasible -/
theorem feasible_of_exact {g : MGraph} {s : Nat} {d : Nat → Option Int}
    (hex : ∀ x y, d x = some y → IsShortest g s x y)
    (hall : ∀ x, (∃ c, WalkCost g s x c) → ∃ y, d x = some y) : Feasible g d := by
  intro a b w harc x hx
  have hwa := (hex a x hx).1
  have hwb : WalkCost g s b (x + w) := WalkCost.snoc hwa harc
  obtain ⟨y, hy⟩ := hall b ⟨_, hwb⟩
  exact ⟨y, hy, (hex b y hy).2 _ hwb⟩

/-- completeness in "exact distances" form (`_hno` is implied by `hex` and `hall`; it is kept so that
the statement reads as the converse of the soundness theorems) -/
theorem checkDist_complete_exact (g : MGraph) (s : Nat) (d : List (Nat × Int))
    (hnd : (d.map (·.1)).Nodup) (_hno : ¬ NegCycleReachable g s)
    (hex : ∀ x y, labelOf d x = some y → IsShortest g s x y)
    (hall : ∀ x, (∃ c, WalkCost g s x c) → ∃ y, labelOf d x = some y) : checkDist g s d = true := by
  apply checkDist_complete g s d hnd (fun x y h => (hex x y h).1) ?_ (feasible_of_exact hex hall)
  obtain ⟨y, hy⟩ := hall s ⟨0, WalkCost.nil _⟩
  refine ⟨y, hy, ?_⟩
  exact (hex s y hy).2 0 (WalkCost.nil _)

/-- **`checkDist` accepts exactly the exact-distance tables** (of graphs without a negative cycle
reachable from the source) -/
theorem checkDist_iff (g : MGraph) (s : Nat) (d : List (Nat × Int)) :
    checkDist g s d = true ↔
      ((d.map (·.1)).Nodup ∧ ¬ NegCycleReachable g s ∧
        (∀ x y, labelOf d x = some y → IsShortest g s x y) ∧
        (∀ x, (∃ c, WalkCost g s x c) → ∃ y, labelOf d x = some y)) := by
  constructor
  · intro h
    refine ⟨?_, ?_, checkDist_exact g s d h, ?_⟩
    · have h' := h
      unfold checkDist at h'
      simp only [Bool.and_eq_true] at h'
      have hlen := h'.1.1.2
      have hlen : (d.map (·.1)).eraseDups.length = (d.map (·.1)).length := by
        simpa using hlen
      exact nodup_of_eraseDups_length _ hlen
    · rintro ⟨u, c0, c, h0, hc, hneg⟩
      have := checkDist_no_neg_cycle g s d h u c0 c h0 hc
      omega
    · intro x hx
      cases hl : labelOf d x with
      | none => exact absurd hx ((checkDist_unreachable g s d h x).1 hl)
      | some y => exact ⟨y, rfl⟩
  · rintro ⟨hnd, hno, hex, hall⟩
    exact checkDist_complete_exact g s d hnd hno hex hall

/-! ### the reference search: one relaxation, one pass -/

theorem rget_rset {α : Type} (t : List (Nat × α)) (k k' : Nat) (x : α) :
    rget (rset t k x) k' = if k' = k then some x else rget t k' :=
  tget_tset t k k' x

/-- `d'` is pointwise at most `d` -/
def RBelow (d d' : List (Nat × Int)) : Prop := ∀ a x, rget d a = some x → ∃ y, rget d' a = some y ∧ y ≤ x

theorem RBelow.refl (d : List (Nat × Int)) : RBelow d d := fun _ x h => ⟨x, h, Int.le_refl _⟩

theorem RBelow.trans {d1 d2 d3 : List (Nat × Int)} (h1 : RBelow d1 d2) (h2 : RBelow d2 d3) : RBelow d1 d3 := by
  intro a x hx
  obtain ⟨y, hy, hle⟩ := h1 a x hx
  obtain ⟨z, hz, hle'⟩ := h2 a y hy
  exact ⟨z, hz, by omega⟩

/-- the condition under which `refRelax` updates -/
theorem refRelax_eq (st : RS) (a : Nat × Nat × Int) :
    (∃ x, rget st.d a.1 = some x ∧ (∀ y, rget st.d a.2.1 = some y → x + a.2.2 < y) ∧
      refRelax st a = { d := rset st.d a.2.1 (x + a.2.2), p := rset st.p a.2.1 a.1, upd := true }) ∨
    (refRelax st a = st ∧ ∀ x, rget st.d a.1 = some x → ∃ y, rget st.d a.2.1 = some y ∧ y ≤ x + a.2.2) := by
  unfold refRelax
  cases hx : rget st.d a.1 with
  | none => right; exact ⟨rfl, by intro x h; cases h⟩
  | some x =>
    cases hy : rget st.d a.2.1 with
    | none => left; exact ⟨x, rfl, (by intro y h; cases h), by simp⟩
    | some y =>
      by_cases hlt : x + a.2.2 < y
      · left
        refine ⟨x, rfl, ?_, by simp [hlt]⟩
        intro y' h; cases h; exact hlt
      · right
        refine ⟨by simp [hlt], ?_⟩
        intro x' h; cases h
        exact ⟨y, rfl, by omega⟩

theorem refRelax_below (st : RS) (a : Nat × Nat × Int) : RBelow st.d (refRelax st a).d := by
  rcases refRelax_eq st a with ⟨x, hx, hlt, he⟩ | ⟨he, _⟩
  · rw [he]
    intro b y hy
    simp only [rget_rset]
    split
    · rename_i hb
      exact ⟨_, rfl, by have := hlt y (hb ▸ hy); omega⟩
    · exact ⟨y, hy, Int.le_refl _⟩
  · rw [he]; exact RBelow.refl _

theorem foldl_below : ∀ (l : List (Nat × Nat × Int)) (st : RS), RBelow st.d (l.foldl refRelax st).d := by
  intro l
  induction l with
  | nil => intro st; exact RBelow.refl _
  | cons a l ih => intro st; simp only [List.foldl_cons]; exact (refRelax_below st a).trans (ih _)

/-- right after the arc is processed it is relaxed w.r.t. the label its tail had -/
theorem refRelax_relaxes (st : RS) (a : Nat × Nat × Int) (x : Int) (hx : rget st.d a.1 = some x) :
    ∃ y, rget (refRelax st a).d a.2.1 = some y ∧ y ≤ x + a.2.2 := by
  rcases refRelax_eq st a with ⟨x', hx', _, he⟩ | ⟨he, h⟩
  · rw [hx] at hx'; cases hx'
    rw [he]
    exact ⟨_, by simp [rget_rset], Int.le_refl _⟩
  · rw [he]; exact h x hx

/-- one pass relaxes every arc w.r.t. the labels at the start of the pass -/
theorem pass_relaxes (arcs : List (Nat × Nat × Int)) (st : RS) (a : Nat × Nat × Int) (ha : a ∈ arcs)
    (X : Int) (hX : rget st.d a.1 = some X) :
    ∃ y, rget (arcs.foldl refRelax st).d a.2.1 = some y ∧ y ≤ X + a.2.2 := by
  obtain ⟨l1, l2, hl⟩ := List.append_of_mem ha
  rw [hl, List.foldl_append, List.foldl_cons]
  obtain ⟨x1, hx1, hle1⟩ := foldl_below l1 st a.1 X hX
  obtain ⟨y, hy, hle2⟩ := refRelax_relaxes (l1.foldl refRelax st) a x1 hx1
  obtain ⟨y2, hy2, hle3⟩ := foldl_below l2 (refRelax (l1.foldl refRelax st) a) a.2.1 y hy
  exact ⟨y2, hy2, by omega⟩

/-- no arc of the list can be relaxed -/
def NoRelax (arcs : List (Nat × Nat × Int)) (d : List (Nat × Int)) : Prop :=
  ∀ a ∈ arcs, ∀ x, rget d a.1 = some x → ∃ y, rget d a.2.1 = some y ∧ y ≤ x + a.2.2

theorem refRelax_noupd (st : RS) (a : Nat × Nat × Int) (h : (refRelax st a).upd = false) :
    refRelax st a = st ∧ ∀ x, rget st.d a.1 = some x → ∃ y, rget st.d a.2.1 = some y ∧ y ≤ x + a.2.2 := by
  rcases refRelax_eq st a with ⟨x, _, _, he⟩ | he
  · rw [he] at h; cases h
  · exact he

/-- a pass that leaves the flag down changed nothing, and nothing can be relaxed -/
theorem foldl_noupd : ∀ (l : List (Nat × Nat × Int)) (st : RS), (l.foldl refRelax st).upd = false →
    l.foldl refRelax st = st ∧ NoRelax l st.d := by
  intro l
  induction l with
  | nil => intro st _; exact ⟨rfl, by intro a ha; cases ha⟩
  | cons a l ih =>
    intro st h
    simp only [List.foldl_cons] at h ⊢
    obtain ⟨h1, h2⟩ := ih _ h
    rw [h1] at h
    obtain ⟨h3, h4⟩ := refRelax_noupd st a h
    refine ⟨h1.trans h3, ?_⟩
    intro b hb
    rcases List.mem_cons.mp hb with rfl | hb
    · exact h4
    · have := h2 b hb; rw [h3] at this; exact this

/-- conversely: when nothing can be relaxed a pass is the identity -/
theorem foldl_of_noRelax : ∀ (l : List (Nat × Nat × Int)) (st : RS), NoRelax l st.d →
    l.foldl refRelax st = st := by
  intro l
  induction l with
  | nil => intro st _; rfl
  | cons a l ih =>
    intro st h
    simp only [List.foldl_cons]
    have ha : refRelax st a = st := by
      rcases refRelax_eq st a with ⟨x, hx, hlt, _⟩ | ⟨he, _⟩
      · obtain ⟨y, hy, hle⟩ := h a (List.mem_cons_self ..) x hx
        have := hlt y hy
        omega
      · exact he
    rw [ha]
    exact ih st (fun b hb => h b (List.mem_cons_of_mem _ hb))

/-! ### invariants of the reference search -/

/-- what every state of the reference search satisfies -/
structure RInv (g : MGraph) (s : Nat) (d : List (Nat × Int)) : Prop where
  real : ∀ x y, rget d x = some y → WalkCost g s x y
  src : ∃ y, rget d s = some y ∧ y ≤ 0
  nodup : (d.map (·.1)).Nodup

theorem rset_keys_nodup (t : List (Nat × Int)) (k : Nat) (x : Int) (h : (t.map (·.1)).Nodup) :
    ((rset t k x).map (·.1)).Nodup := by
  unfold rset
  simp only [List.map_cons]
  refine List.nodup_cons.mpr ⟨?_, ?_⟩
  · intro hk
    obtain ⟨e, he, hek⟩ := List.mem_map.mp hk
    have := (List.mem_filter.mp he).2
    simp [hek] at this
  · exact List.Nodup.sublist (List.Sublist.map _ List.filter_sublist) h

theorem refRelax_inv {g : MGraph} {s : Nat} (st : RS) (a : Nat × Nat × Int) (ha : a ∈ g.arcs)
    (h : RInv g s st.d) : RInv g s (refRelax st a).d := by
  rcases refRelax_eq st a with ⟨x, hx, hlt, he⟩ | ⟨he, _⟩
  · rw [he]
    obtain ⟨y0, hy0, hy0le⟩ := h.src
    refine ⟨?_, ?_, rset_keys_nodup _ _ _ h.nodup⟩
    · intro z y hz
      simp only [rget_rset] at hz
      split at hz
      · rename_i hzj; cases hz; subst hzj
        exact WalkCost.snoc (h.real a.1 x hx) ha
      · exact h.real z y hz
    · simp only [rget_rset]
      split
      · rename_i hsj
        exact ⟨_, rfl, by have := hlt y0 (hsj ▸ hy0); omega⟩
      · exact ⟨y0, hy0, hy0le⟩
  · rw [he]; exact h

theorem foldl_inv {g : MGraph} {s : Nat} : ∀ (l : List (Nat × Nat × Int)) (st : RS),
    (∀ a ∈ l, a ∈ g.arcs) → RInv g s st.d → RInv g s (l.foldl refRelax st).d := by
  intro l
  induction l with
  | nil => intro st _ h; exact h
  | cons a l ih =>
    intro st hl h
    simp only [List.foldl_cons]
    exact ih _ (fun b hb => hl b (List.mem_cons_of_mem _ hb))
      (refRelax_inv st a (hl a (List.mem_cons_self ..)) h)

/-- `k` full passes (no early exit) -/
def rpassK (arcs : List (Nat × Nat × Int)) : Nat → RS → RS
  | 0, st => st
  | k+1, st => rpassK arcs k (arcs.foldl refRelax { st with upd := false })

theorem rpassK_succ' (arcs : List (Nat × Nat × Int)) : ∀ (k : Nat) (st : RS),
    rpassK arcs (k+1) st = arcs.foldl refRelax { (rpassK arcs k st) with upd := false } := by
  intro k
  induction k with
  | zero => intro st; rfl
  | succ k ih => intro st; rw [rpassK, ih]; rfl

theorem rpassK_inv {g : MGraph} {s : Nat} : ∀ (k : Nat) (st : RS), RInv g s st.d →
    RInv g s (rpassK g.arcs k st).d := by
  intro k
  induction k with
  | zero => intro st h; exact h
  | succ k ih =>
    intro st h
    simp only [rpassK]
    exact ih _ (foldl_inv g.arcs _ (fun _ h => h) h)

theorem refPasses_inv {g : MGraph} {s : Nat} : ∀ (k : Nat) (st : RS), RInv g s st.d →
    RInv g s (refPasses g.arcs k st).d := by
  intro k
  induction k with
  | zero => intro st h; exact h
  | succ k ih =>
    intro st h
    have h' : RInv g s (g.arcs.foldl refRelax { st with upd := false }).d :=
      foldl_inv g.arcs _ (fun _ h => h) h
    simp only [refPasses]
    split
    · exact ih _ h'
    · exact h'

/-- the early exit is only taken at a fixed point -/
theorem refPasses_cases (arcs : List (Nat × Nat × Int)) : ∀ (k : Nat) (st : RS),
    ((refPasses arcs k st).upd = false ∧ NoRelax arcs (refPasses arcs k st).d) ∨
      refPasses arcs k st = rpassK arcs k st := by
  intro k
  induction k with
  | zero => intro st; exact Or.inr rfl
  | succ k ih =>
    intro st
    simp only [refPasses, rpassK]
    split
    · exact ih _
    · rename_i hupd
      left
      have hupd : (arcs.foldl refRelax { st with upd := false }).upd = false := by simpa using hupd
      obtain ⟨h1, h2⟩ := foldl_noupd arcs _ hupd
      rw [h1]
      exact ⟨rfl, h2⟩

theorem rpassK_below (arcs : List (Nat × Nat × Int)) : ∀ (k : Nat) (st : RS),
    RBelow st.d (rpassK arcs k st).d := by
  intro k
  induction k with
  | zero => intro st; exact RBelow.refl _
  | succ k ih =>
    intro st
    simp only [rpassK]
    exact (foldl_below arcs { st with upd := false }).trans (ih _)

/-- after `k` passes every walk of at most `k` arcs from the source is accounted for -/
theorem rpassK_lower (g : MGraph) (s : Nat) (st : RS) (hsrc : ∃ y, rget st.d s = some y ∧ y ≤ 0) :
    ∀ (k : Nat) (x : Nat) (c : Int) (j : Nat), j ≤ k → WalkN g s x c j →
      ∃ y, rget (rpassK g.arcs k st).d x = some y ∧ y ≤ c := by
  intro k
  induction k with
  | zero =>
    intro x c j hj hw
    cases hw with
    | nil => exact hsrc
    | snoc _ _ => omega
  | succ k ih =>
    intro x c j hj hw
    cases hw with
    | nil =>
      obtain ⟨y, hy, hle⟩ := hsrc
      obtain ⟨z, hz, hle'⟩ := rpassK_below g.arcs (k+1) st s y hy
      exact ⟨z, hz, by omega⟩
    | snoc hw' harc =>
      rename_i a c' w j'
      obtain ⟨ya, hya, hle⟩ := ih a c' j' (by omega) hw'
      rw [rpassK_succ']
      obtain ⟨y, hy, hle'⟩ := pass_relaxes g.arcs { (rpassK g.arcs k st) with upd := false } (a, x, w) harc ya hya
      have hle'' : y ≤ ya + w := hle'
      exact ⟨y, hy, by omega⟩

/-- without a reachable negative cycle, `|V| - 1` (or more) full passes reach a fixed point -/
theorem rpassK_noRelax (g : MGraph) (hwf : g.WellFormed) (s : Nat) (hs : s ∈ g.nodes)
    (hno : ¬ NegCycleReachable g s) (st : RS) (hinv : RInv g s st.d)
    (k : Nat) (hk : g.nodes.length ≤ k + 1) : NoRelax g.arcs (rpassK g.arcs k st).d := by
  rintro ⟨u, v, w⟩ harc x hx
  have inv := rpassK_inv (g := g) (s := s) k st hinv
  have hw : WalkCost g s v (x + w) := WalkCost.snoc (inv.real u x hx) harc
  obtain ⟨vs, hvs⟩ := walkL_of_walk hw
  obtain ⟨vs', c', hvs', hle, hnd⟩ := shorten hno vs.length vs v _ (Nat.le_refl _) hvs
  have hsub : (s :: vs') ⊆ g.nodes := by
    intro z hz
    rcases List.mem_cons.mp hz with rfl | hz
    · exact hs
    · exact hvs'.mem_nodes hwf z hz
  have hlen := List.Nodup.length_le_of_subset hnd hsub
  simp only [List.length_cons] at hlen
  obtain ⟨y, hy, hyle⟩ := rpassK_lower g s st hinv.src k v c' vs'.length (by omega) (walkN_of_walkL hvs')
  exact ⟨y, hy, by simp only; omega⟩

theorem rinit_inv (g : MGraph) (s : Nat) : RInv g s [(s, 0)] := by
  refine ⟨?_, ⟨0, by simp [rget], Int.le_refl _⟩, by simp⟩
  intro x y h
  obtain ⟨rfl, rfl⟩ := tget_single h
  exact WalkCost.nil _

/-- **The reference search converges**: without a reachable negative cycle `refPasses` stops with
the flag down within `|V| + 2` passes, at a feasible, realizable, duplicate-free labelling. -/
theorem refPasses_converges (g : MGraph) (hwf : g.WellFormed) (s : Nat) (hs : s ∈ g.nodes)
    (hno : ¬ NegCycleReachable g s) (k : Nat) (hk : g.nodes.length ≤ k) :
    (refPasses g.arcs (k + 1) { d := [(s, 0)] }).upd = false ∧
    NoRelax g.arcs (refPasses g.arcs (k + 1) { d := [(s, 0)] }).d ∧
    RInv g s (refPasses g.arcs (k + 1) { d := [(s, 0)] }).d := by
  have hinv0 : RInv g s ({ d := [(s, 0)] } : RS).d := rinit_inv g s
  have hinv := refPasses_inv (g := g) (s := s) (k + 1) { d := [(s, 0)] } hinv0
  rcases refPasses_cases g.arcs (k + 1) { d := [(s, 0)] } with ⟨h1, h2⟩ | h
  · exact ⟨h1, h2, hinv⟩
  · have hfix := rpassK_noRelax g hwf s hs hno { d := [(s, 0)] } hinv0 k (by omega)
    have hstep : rpassK g.arcs (k + 1) { d := [(s, 0)] }
        = { (rpassK g.arcs k { d := [(s, 0)] }) with upd := false } := by
      rw [rpassK_succ']
      exact foldl_of_noRelax g.arcs _ hfix
    rw [h, hstep] at hinv ⊢
    exact ⟨rfl, hfix, hinv⟩

/-! ### the checked answers -/

theorem refCert_complete (g : MGraph) (hwf : g.WellFormed) (s : Nat) (hs : s ∈ g.nodes)
    (hno : ¬ NegCycleReachable g s) : ∃ d, refCert g s = .dist d ∧ checkDist g s d = true := by
  obtain ⟨hupd, hfix, hinv⟩ := refPasses_converges g hwf s hs hno (g.nodes.length + 1) (by omega)
  refine ⟨(refPasses g.arcs (g.nodes.length + 1 + 1) { d := [(s, 0)] }).d, ?_, ?_⟩
  · unfold refCert
    simp only [hupd]
    rfl
  · apply checkDist_complete g s _ hinv.nodup hinv.real hinv.src
    intro a b w harc x hx
    exact hfix (a, b, w) harc x hx

theorem negReachable_complete (g : MGraph) (hwf : g.WellFormed) (s : Nat) (hs : s ∈ g.nodes)
    (hno : ¬ NegCycleReachable g s) : negReachable g s = some false := by
  obtain ⟨d, h1, h2⟩ := refCert_complete g hwf s hs hno
  unfold negReachable
  rw [h1]
  simp [h2]

/-- non-vacuity: a well-formed graph with a negative arc and a zero-cost cycle `1 → 3 → 2 → 1`, but no
negative cycle; the checked answer is computed by the kernel -/
def exG : MGraph :=
  { directed := true, nodes := [0, 1, 2, 3],
    edges := [⟨0, 0, 1, 4⟩, ⟨1, 0, 2, 1⟩, ⟨2, 2, 1, -3⟩, ⟨3, 1, 3, 2⟩, ⟨4, 3, 2, 1⟩] }

set_option maxRecDepth 100000 in
example : negReachable exG 0 = some false := by decide

example : exG.WellFormed ∧ 0 ∈ exG.nodes := by
  unfold MGraph.WellFormed; decide

theorem negCycleReachable_negCycle {g : MGraph} {s : Nat} (h : NegCycleReachable g s) : NegCycle g := by
  obtain ⟨u, _, c, _, hc, hneg⟩ := h
  exact ⟨u, c, hc, hneg⟩

theorem negAnywhere_fold_complete (g : MGraph) (hwf : g.WellFormed) (hno : ¬ NegCycle g) :
    ∀ (l : List Nat), (∀ u ∈ l, u ∈ g.nodes) →
      l.foldl (fun acc u => match acc with
        | some false => negReachable g u
        | other => other) (some false) = some false := by
  intro l
  induction l with
  | nil => intro _; rfl
  | cons u l ih =>
    intro hl
    simp only [List.foldl_cons]
    rw [negReachable_complete g hwf u (hl u (List.mem_cons_self ..))
      (fun h => hno (negCycleReachable_negCycle h))]
    exact ih (fun x hx => hl x (List.mem_cons_of_mem _ hx))

theorem negAnywhere_complete (g : MGraph) (hwf : g.WellFormed) (hno : ¬ NegCycle g) :
    negAnywhere g = some false :=
  negAnywhere_fold_complete g hwf hno g.nodes (fun _ h => h)

/-- and exactly then: on well-formed graphs the checked answers decide the two questions on the
"no" side -/
theorem negReachable_false_iff (g : MGraph) (hwf : g.WellFormed) (s : Nat) (hs : s ∈ g.nodes) :
    negReachable g s = some false ↔ ¬ NegCycleReachable g s :=
  ⟨negReachable_false, negReachable_complete g hwf s hs⟩

/-! ### consequences for the judges: never "inconclusive" on this side -/

theorem judgeErr_conclusive (g : MGraph) (hwf : g.WellFormed) (s : Nat) (hs : s ∈ g.nodes)
    (hno : ¬ NegCycleReachable g s) :
    judgeErr g s = some "NegativeCycle reported but no negative cycle is reachable from the source" := by
  unfold judgeErr
  rw [negReachable_complete g hwf s hs hno]

theorem judgeFwErr_conclusive (g : MGraph) (hwf : g.WellFormed) (hno : ¬ NegCycle g) :
    judgeFwErr g = some "NegativeCycle reported but the graph has no negative cycle" := by
  unfold judgeFwErr
  rw [negAnywhere_complete g hwf hno]

theorem judgeFnc_none_complete (g : MGraph) (hwf : g.WellFormed) (s : Nat) (hs : s ∈ g.nodes)
    (hno : ¬ NegCycleReachable g s) : judgeFnc g s none false = .ok := by
  unfold judgeFnc
  rw [negReachable_complete g hwf s hs hno]
  rfl

theorem judgeFnc_some_conclusive (g : MGraph) (hwf : g.WellFormed) (s : Nat) (hs : s ∈ g.nodes)
    (hno : ¬ NegCycleReachable g s) (seq : List Nat) (bfErr : Bool) :
    judgeFnc g s (some seq) bfErr = .fail "Some although no negative cycle is reachable from the source" := by
  unfold judgeFnc
  rw [negReachable_complete g hwf s hs hno]
  rfl

/-! ### completeness of `judgeOk`: an exact answer with a shortest-path tree is accepted -/

/-- tree walks with their number of steps -/
inductive TreeWalkN (g : MGraph) (pred : Nat → Option Nat) (s : Nat) : Nat → Int → Nat → Prop
  | root : TreeWalkN g pred s s 0 0
  | step {u v : Nat} {c w : Int} {n : Nat} : TreeWalkN g pred s u c n → pred v = some u →
      (u, v, w) ∈ g.arcs → TreeWalkN g pred s v (c + w) (n + 1)

theorem treeWalkN_of_treeWalk {g : MGraph} {pred : Nat → Option Nat} {s v : Nat} {c : Int}
    (h : TreeWalk g pred s v c) : ∃ n, TreeWalkN g pred s v c n := by
  induction h with
  | root => exact ⟨0, TreeWalkN.root⟩
  | step _ hp harc ih =>
    obtain ⟨n, hn⟩ := ih
    exact ⟨n + 1, TreeWalkN.step hn hp harc⟩

theorem TreeWalkN.treeWalk {g : MGraph} {pred : Nat → Option Nat} {s v : Nat} {c : Int} {n : Nat}
    (h : TreeWalkN g pred s v c n) : TreeWalk g pred s v c := by
  induction h with
  | root => exact TreeWalk.root
  | step _ hp harc ih => exact TreeWalk.step ih hp harc

/-- following `pred` is deterministic: the number of steps back to `s` is determined by the node -/
theorem TreeWalkN.depth_unique {g : MGraph} {pred : Nat → Option Nat} {s : Nat} (hps : pred s = none)
    {v : Nat} {c : Int} {n : Nat} (h : TreeWalkN g pred s v c n) :
    ∀ c' m, TreeWalkN g pred s v c' m → n = m := by
  induction h with
  | root =>
    intro c' m h2
    cases h2 with
    | root => rfl
    | step _ hp _ => rw [hps] at hp; cases hp
  | step _ hp _ ih =>
    intro c' m h2
    cases h2 with
    | root => rw [hps] at hp; cases hp
    | step h' hp' _ =>
      rw [hp] at hp'; cases hp'
      have := ih _ _ h'
      omega

/-- the nodes on a tree walk are pairwise distinct nodes of the graph -/
theorem TreeWalkN.chain {g : MGraph} (hwf : g.WellFormed) {pred : Nat → Option Nat} {s : Nat}
    (hs : s ∈ g.nodes) (hps : pred s = none) {v : Nat} {c : Int} {n : Nat} (h : TreeWalkN g pred s v c n) :
    ∃ l : List Nat, l.length = n + 1 ∧ l.Nodup ∧ (∀ x ∈ l, x ∈ g.nodes) ∧
      (∀ x ∈ l, ∃ c' m, m ≤ n ∧ TreeWalkN g pred s x c' m) := by
  induction h with
  | root =>
    refine ⟨[s], rfl, by simp, ?_, ?_⟩
    · intro x hx; simp at hx; subst hx; exact hs
    · intro x hx; simp at hx; subst hx; exact ⟨0, 0, Nat.le_refl _, TreeWalkN.root⟩
  | step h' hp harc ih =>
    rename_i u v c w n
    obtain ⟨l, hlen, hnd, hnodes, hdepth⟩ := ih
    refine ⟨v :: l, by simp [hlen], List.nodup_cons.mpr ⟨?_, hnd⟩, ?_, ?_⟩
    · intro hv
      obtain ⟨c', m, hm, hw⟩ := hdepth v hv
      have := (TreeWalkN.step h' hp harc).depth_unique hps c' m hw
      omega
    · intro x hx
      rcases List.mem_cons.mp hx with rfl | hx
      · obtain ⟨e, he, _, hor⟩ := mem_arcs.mp harc
        rcases hor with ⟨_, h2⟩ | ⟨_, h1, _⟩
        · exact h2 ▸ (hwf.2 e he).2
        · exact h1 ▸ (hwf.2 e he).1
      · exact hnodes x hx
    · intro x hx
      rcases List.mem_cons.mp hx with rfl | hx
      · exact ⟨_, _, Nat.le_refl _, TreeWalkN.step h' hp harc⟩
      · obtain ⟨c', m, hm, hw⟩ := hdepth x hx
        exact ⟨c', m, by omega, hw⟩

theorem TreeWalkN.steps_lt {g : MGraph} (hwf : g.WellFormed) {pred : Nat → Option Nat} {s : Nat}
    (hs : s ∈ g.nodes) (hps : pred s = none) {v : Nat} {c : Int} {n : Nat} (h : TreeWalkN g pred s v c n) :
    n + 1 ≤ g.nodes.length := by
  obtain ⟨l, hlen, hnd, hnodes, _⟩ := h.chain hwf hs hps
  have := List.Nodup.length_le_of_subset hnd (fun x hx => hnodes x hx)
  omega

/-- along a tree walk whose cost is the (accepted) label of its end every arc is tight, so `chainB`
succeeds with any fuel that covers the number of steps -/
theorem chainB_complete {g : MGraph} {s : Nat} {d : List (Nat × Int)} {pred : Nat → Option Nat}
    (hc : checkDist g s d = true) {v : Nat} {c : Int} {n : Nat} (h : TreeWalkN g pred s v c n) :
    labelOf d v = some c → ∀ f, n ≤ f → chainB g d pred s f v = true := by
  have C := cert_of_check hc
  induction h with
  | root => intro _ f _; cases f <;> simp [chainB]
  | step h' hp harc ih =>
    rename_i u v c w n
    intro hv f hf
    cases f with
    | zero => omega
    | succ f =>
      obtain ⟨yu, hyu, hle⟩ := lower C h'.treeWalk.walk
      obtain ⟨y, hy, hle'⟩ := C.relax u v w harc yu hyu
      rw [hv] at hy; cases hy
      have hyc : yu = c := by omega
      subst hyc
      simp only [chainB]
      split
      · rfl
      · rw [hp]
        simp only [Bool.and_eq_true]
        refine ⟨?_, ih hyu f (by omega)⟩
        unfold tightArcB
        simp only [hyu, hv, List.any_eq_true]
        exact ⟨(u, v, w), harc, by simp⟩

theorem predTreeB_complete (g : MGraph) (hwf : g.WellFormed) (s : Nat) (hs : s ∈ g.nodes)
    (d : List (Nat × Int)) (pred : Nat → Option Nat) (hc : checkDist g s d = true)
    (hpn : ∀ v ∈ g.nodes, (pred v = none ↔ (v = s ∨ labelOf d v = none)))
    (hpt : ∀ v ∈ g.nodes, ∀ y, labelOf d v = some y → TreeWalk g pred s v y) :
    predTreeB g s d pred = true := by
  have hps : pred s = none := (hpn s hs).2 (Or.inl rfl)
  unfold predTreeB
  simp only [List.all_eq_true]
  intro v hv
  split
  · rename_i hcnd
    simp only [Bool.or_eq_true, beq_iff_eq, Option.isNone_iff_eq_none] at hcnd
    simp [(hpn v hv).2 hcnd]
  · rename_i hcnd
    simp only [Bool.or_eq_true, beq_iff_eq, Option.isNone_iff_eq_none] at hcnd
    have hpv : pred v ≠ none := fun h => hcnd ((hpn v hv).1 h)
    simp only [Bool.and_eq_true]
    refine ⟨?_, ?_⟩
    · cases hp : pred v with
      | none => exact absurd hp hpv
      | some _ => rfl
    · cases hl : labelOf d v with
      | none => exact absurd (Or.inr hl) hcnd
      | some y =>
        obtain ⟨n, hn⟩ := treeWalkN_of_treeWalk (hpt v hv y hl)
        have hlen := hn.steps_lt hwf hs hps
        exact chainB_complete hc hn hl _ (by omega)

/-- **Completeness of `judgeOk`**: exact distances (duplicate-free keys, a label exactly for the
reachable nodes) together with a predecessor function that spells out a shortest-path tree are
accepted. -/
theorem judgeOk_complete (g : MGraph) (hwf : g.WellFormed) (s : Nat) (hs : s ∈ g.nodes)
    (d : List (Nat × Int)) (pred : Nat → Option Nat)
    (hnd : (d.map (·.1)).Nodup) (hno : ¬ NegCycleReachable g s)
    (hex : ∀ x y, labelOf d x = some y → IsShortest g s x y)
    (hall : ∀ x, (∃ c, WalkCost g s x c) → ∃ y, labelOf d x = some y)
    (hpn : ∀ v ∈ g.nodes, (pred v = none ↔ (v = s ∨ labelOf d v = none)))
    (hpt : ∀ v ∈ g.nodes, ∀ y, labelOf d v = some y → TreeWalk g pred s v y) :
    judgeOk g s d pred = none := by
  have hc := checkDist_complete_exact g s d hnd hno hex hall
  have hp := predTreeB_complete g hwf s hs d pred hc hpn hpt
  unfold judgeOk
  simp [hc, hp]

/-- `judgeOk` accepts exactly the answers that satisfy the `Ok` clauses (and list no node twice) -/
theorem judgeOk_iff (g : MGraph) (hwf : g.WellFormed) (s : Nat) (hs : s ∈ g.nodes)
    (d : List (Nat × Int)) (pred : Nat → Option Nat) :
    judgeOk g s d pred = none ↔ ((d.map (·.1)).Nodup ∧ OkSpec g s d pred) := by
  constructor
  · intro h
    refine ⟨?_, judgeOk_sound g s d pred h⟩
    unfold judgeOk at h
    split at h
    · simp at h
    · rename_i hc
      have hc : checkDist g s d = true := by simpa using hc
      exact ((checkDist_iff g s d).1 hc).1
  · rintro ⟨hnd, hok⟩
    apply judgeOk_complete g hwf s hs d pred hnd hok.noNegCycle hok.exact ?_ hok.predNone hok.predTree
    intro x hx
    cases hl : labelOf d x with
    | none => exact absurd hx ((hok.infinite x).1 hl)
    | some y => exact ⟨y, rfl⟩

/-! ### completeness of `judgeFwOk`: an exact matrix is accepted -/

theorem arc_head_mem {g : MGraph} (hwf : g.WellFormed) {a b : Nat} {w : Int} (harc : (a, b, w) ∈ g.arcs) :
    b ∈ g.nodes := by
  obtain ⟨e, he, _, hor⟩ := mem_arcs.mp harc
  rcases hor with ⟨_, h2⟩ | ⟨_, h1, _⟩
  · exact h2 ▸ (hwf.2 e he).2
  · exact h1 ▸ (hwf.2 e he).1

theorem walk_end_mem {g : MGraph} (hwf : g.WellFormed) {a b : Nat} {c : Int} (hw : WalkCost g a b c)
    (ha : a ∈ g.nodes) : b ∈ g.nodes := by
  cases hw with
  | nil => exact ha
  | snoc _ harc => exact arc_head_mem hwf harc

theorem rowKeys_sublist (f : Nat → Option Int) : ∀ (l : List Nat),
    List.Sublist ((l.filterMap fun v => (f v).map fun y => (v, y)).map (·.1)) l := by
  intro l
  induction l with
  | nil => exact List.Sublist.slnil
  | cons a l ih =>
    simp only [List.filterMap_cons]
    cases hf : f a with
    | none => simp only [Option.map_none]; exact List.Sublist.cons _ ih
    | some y => simp only [Option.map_some, List.map_cons]; exact List.Sublist.cons_cons _ ih

theorem rowOf_keys_nodup (g : MGraph) (hwf : g.WellFormed) (entry : Nat → Nat → Option Int) (u : Nat) :
    ((rowOf g entry u).map (·.1)).Nodup :=
  List.Nodup.sublist (rowKeys_sublist (entry u) g.nodes) hwf.1

/-- **Completeness of `judgeFwOk`**: a matrix that satisfies the `Ok` clauses is accepted -/
theorem judgeFwOk_complete (g : MGraph) (hwf : g.WellFormed) (entry : Nat → Nat → Option Int)
    (h : FwSpec g entry) : judgeFwOk g entry = none := by
  have hrows : ∀ u ∈ g.nodes, checkDist g u (rowOf g entry u) = true := by
    intro u hu
    apply checkDist_complete_exact g u _ (rowOf_keys_nodup g hwf entry u)
    · rintro ⟨x, c0, c, h0, hc, hneg⟩
      have := h.noNegCycle x (walk_end_mem hwf h0 hu) c hc
      omega
    · intro x y hl
      rw [labelOf_rowOf] at hl
      split at hl
      · rename_i hx; exact h.exact u hu x hx y hl
      · cases hl
    · rintro x ⟨c, hc⟩
      have hx := walk_end_mem hwf hc hu
      rw [labelOf_rowOf]
      simp only [hx, if_true]
      cases he : entry u x with
      | none => exact absurd ⟨c, hc⟩ ((h.infinite u hu x hx).1 he)
      | some y => exact ⟨y, rfl⟩
  unfold judgeFwOk
  have : g.nodes.find? (fun u => !checkDist g u (rowOf g entry u)) = none := by
    apply List.find?_eq_none.mpr
    intro u hu
    simp [hrows u hu]
  rw [this]

theorem judgeFwOk_iff (g : MGraph) (hwf : g.WellFormed) (entry : Nat → Nat → Option Int) :
    judgeFwOk g entry = none ↔ FwSpec g entry :=
  ⟨judgeFwOk_sound g entry, judgeFwOk_complete g hwf entry⟩

end PetgraphModel.C11W4C
