import PetgraphModel.Oracle.C10Judge
import PetgraphModel.Proofs.C10Judge
import Mathlib.Data.List.Nodup
/-
Soundness of the k-th-cheapest-walk oracle `C10.kWalks` (the dynamic programme the `k_shortest_path`
judge uses), against walks as mathematical objects.

A walk from `s` is a list of arc indices (positions in `g.arcs`, so parallel arcs are different
walks), listed from the LAST arc to the first (`RWalk`); the empty list is the empty walk.
`KthCost g s v k c`: there are `k` distinct walks from `s` to `v` of cost `≤ c` but there are not `k`
distinct walks of cost `< c` — `c` is the cost of the k-th cheapest walk (walks with repeated
vertices and the empty walk count).

Method: everything is phrased through the counting function `cnt c l = #{x ∈ l | x ≤ c}`: two
ascending lists with the same counts for every threshold are equal, `cnt c (kSmallest k l) =
min k (cnt c l)`, and the recurrence of the number of walks with at most `i` arcs is linear, so the
truncated programme computes the truncation of the true counts.
-/
namespace PetgraphModel.C10P
open PetgraphModel PetgraphModel.MGraph PetgraphModel.Oracle PetgraphModel.C10

/-! ### walks as index lists -/

def arcAt (g : MGraph) (j : Nat) : Option (Nat × Nat × Int) := g.arcs[j]?

/-- `p` lists the arc indices of a walk from `s` to `v`, last arc first -/
def RWalk (g : MGraph) (s : Nat) : Nat → List Nat → Prop
  | v, [] => v = s
  | v, j :: rest => ∃ a, arcAt g j = some a ∧ a.2.1 = v ∧ RWalk g s a.1 rest

def arcW (g : MGraph) (j : Nat) : Int := ((arcAt g j).map (·.2.2)).getD 0

/-- cost of a walk -/
def rcost (g : MGraph) (p : List Nat) : Int := (p.map (arcW g)).sum

/-- there are `n` distinct walks from `s` to `v` whose cost satisfies `P` -/
def AtLeast (g : MGraph) (s v : Nat) (n : Nat) (P : Int → Prop) : Prop :=
  ∃ ws : List (List Nat), ws.Nodup ∧ ws.length = n ∧ ∀ p ∈ ws, RWalk g s v p ∧ P (rcost g p)

/-- `c` is the cost of the k-th cheapest walk from `s` to `v` -/
def KthCost (g : MGraph) (s v : Nat) (k : Nat) (c : Int) : Prop :=
  AtLeast g s v k (· ≤ c) ∧ ¬ AtLeast g s v k (· < c)

/-! ### counting -/

def cnt (c : Int) (l : List Int) : Nat := l.countP (fun x => decide (x ≤ c))

theorem cnt_nil (c : Int) : cnt c [] = 0 := rfl

theorem cnt_cons (c x : Int) (l : List Int) : cnt c (x :: l) = cnt c l + if x ≤ c then 1 else 0 := by
  simp [cnt, List.countP_cons]

theorem cnt_append (c : Int) (a b : List Int) : cnt c (a ++ b) = cnt c a + cnt c b := by
  simp [cnt, List.countP_append]

theorem cnt_le_length (c : Int) (l : List Int) : cnt c l ≤ l.length := List.countP_le_length

theorem cnt_map_add (c w : Int) (l : List Int) : cnt c (l.map (· + w)) = cnt (c - w) l := by
  induction l with
  | nil => rfl
  | cons x r ih =>
    simp only [List.map_cons, cnt_cons, ih]
    by_cases h : x + w ≤ c
    · have : x ≤ c - w := by omega
      simp [h, this]
    · have : ¬ x ≤ c - w := by omega
      simp [h, this]

theorem cnt_insSorted (c x : Int) (l : List Int) : cnt c (insSorted x l) = cnt c (x :: l) := by
  induction l with
  | nil => rfl
  | cons y r ih =>
    simp only [insSorted]
    split
    · rfl
    · simp only [cnt_cons] at ih ⊢
      omega

theorem cnt_sortInts (c : Int) (l : List Int) : cnt c (sortInts l) = cnt c l := by
  induction l with
  | nil => rfl
  | cons x r ih =>
    have : sortInts (x :: r) = insSorted x (sortInts r) := rfl
    rw [this, cnt_insSorted, cnt_cons, cnt_cons, ih]

/-- ascending -/
def Asc (l : List Int) : Prop := l.Pairwise (· ≤ ·)

theorem asc_insSorted (x : Int) (l : List Int) (h : Asc l) : Asc (insSorted x l) := by
  induction l with
  | nil => simp [insSorted, Asc]
  | cons y r ih =>
    simp only [insSorted]
    have hy : ∀ z ∈ r, y ≤ z := (List.pairwise_cons.mp h).1
    have hr : Asc r := (List.pairwise_cons.mp h).2
    split
    · rename_i hxy
      refine List.pairwise_cons.mpr ⟨?_, h⟩
      intro z hz
      cases List.mem_cons.mp hz with
      | inl e => subst e; exact hxy
      | inr e => have := hy z e; omega
    · rename_i hxy
      refine List.pairwise_cons.mpr ⟨?_, ih hr⟩
      intro z hz
      -- members of insSorted x r are x or members of r
      have hm : ∀ (l : List Int) z, z ∈ insSorted x l → z = x ∨ z ∈ l := by
        intro l
        induction l with
        | nil => intro z hz; simp [insSorted] at hz; exact Or.inl hz
        | cons a b ihb =>
          intro z hz
          simp only [insSorted] at hz
          split at hz
          · cases List.mem_cons.mp hz with
            | inl e => exact Or.inl e
            | inr e => exact Or.inr e
          · cases List.mem_cons.mp hz with
            | inl e => exact Or.inr (e ▸ List.mem_cons_self ..)
            | inr e =>
              cases ihb z e with
              | inl e' => exact Or.inl e'
              | inr e' => exact Or.inr (List.mem_cons_of_mem _ e')
      cases hm r z hz with
      | inl e => subst e; omega
      | inr e => exact hy z e

theorem asc_sortInts (l : List Int) : Asc (sortInts l) := by
  induction l with
  | nil => simp [sortInts, Asc]
  | cons x r ih => exact asc_insSorted x _ ih

theorem asc_take (k : Nat) (l : List Int) (h : Asc l) : Asc (l.take k) :=
  List.Pairwise.sublist (List.take_sublist k l) h

/-- in an ascending list whose head exceeds `c` nothing is `≤ c` -/
theorem cnt_zero_of_head {c x : Int} {l : List Int} (h : Asc (x :: l)) (hx : ¬ x ≤ c) : cnt c (x :: l) = 0 := by
  have hy : ∀ z ∈ l, x ≤ z := (List.pairwise_cons.mp h).1
  have : ∀ z ∈ x :: l, ¬ z ≤ c := by
    intro z hz
    cases List.mem_cons.mp hz with
    | inl e => subst e; exact hx
    | inr e => have := hy z e; omega
  simp only [cnt]
  apply List.countP_eq_zero.mpr
  intro z hz
  simpa using this z hz

/-- two ascending lists with the same counts for every threshold are equal -/
theorem asc_ext : ∀ (a b : List Int), Asc a → Asc b → (∀ c, cnt c a = cnt c b) → a = b := by
  intro a
  induction a with
  | nil =>
    intro b _ _ h
    cases b with
    | nil => rfl
    | cons y r => have := h y; simp [cnt_cons, cnt_nil] at this
  | cons x a' ih =>
    intro b ha hb h
    cases b with
    | nil => have := h x; simp [cnt_cons, cnt_nil] at this
    | cons y b' =>
      have hxy : x = y := by
        by_cases h1 : x < y
        · have e1 := h x
          rw [cnt_zero_of_head hb (by omega)] at e1
          simp [cnt_cons] at e1
        · by_cases h2 : y < x
          · have e1 := h y
            rw [cnt_zero_of_head ha (by omega)] at e1
            simp [cnt_cons] at e1
          · omega
      subst hxy
      congr 1
      apply ih b' (List.pairwise_cons.mp ha).2 (List.pairwise_cons.mp hb).2
      intro c
      have := h c
      simp only [cnt_cons] at this
      omega

theorem cnt_take_asc (c : Int) : ∀ (l : List Int) (k : Nat), Asc l → cnt c (l.take k) = min k (cnt c l) := by
  intro l
  induction l with
  | nil => intro k _; simp [cnt_nil]
  | cons x r ih =>
    intro k h
    cases k with
    | zero => simp [cnt_nil]
    | succ k =>
      simp only [List.take_succ_cons]
      by_cases hx : x ≤ c
      · rw [cnt_cons, cnt_cons, ih k (List.pairwise_cons.mp h).2]
        simp [hx]
      · rw [cnt_zero_of_head h hx, cnt_zero_of_head (asc_take (k + 1) (x :: r) h) hx]
        simp

theorem cnt_kSmallest (c : Int) (k : Nat) (l : List Int) : cnt c (kSmallest k l) = min k (cnt c l) := by
  unfold kSmallest
  rw [cnt_take_asc c _ k (asc_sortInts l), cnt_sortInts]

theorem asc_kSmallest (k : Nat) (l : List Int) : Asc (kSmallest k l) := asc_take k _ (asc_sortInts l)

theorem length_kSmallest_le (k : Nat) (l : List Int) : (kSmallest k l).length ≤ k := by
  unfold kSmallest; simp [List.length_take]; omega

/-- an ascending list has at least `n` entries `≤ c` iff its entry number `n` is `≤ c` -/
theorem cnt_ge_iff_asc {l : List Int} (h : Asc l) (c : Int) (n : Nat) :
    n + 1 ≤ cnt c l ↔ ∃ x, l[n]? = some x ∧ x ≤ c := by
  induction l generalizing n with
  | nil => simp [cnt_nil]
  | cons y r ih =>
    have hr : Asc r := (List.pairwise_cons.mp h).2
    have hy : ∀ z ∈ r, y ≤ z := (List.pairwise_cons.mp h).1
    by_cases hyc : y ≤ c
    · cases n with
      | zero => simp [cnt_cons, hyc]
      | succ n =>
        simp only [cnt_cons, hyc, if_true, List.getElem?_cons_succ]
        rw [← ih hr n]
        omega
    · rw [cnt_zero_of_head h hyc]
      constructor
      · intro hh; omega
      · rintro ⟨x, hx, hxc⟩
        exfalso
        cases n with
        | zero => simp at hx; omega
        | succ n =>
          simp only [List.getElem?_cons_succ] at hx
          have := hy x (List.mem_of_getElem? hx)
          omega


/-! ### enumeration of the walks with at most `i` arcs -/

def walksTo (g : MGraph) (s : Nat) : Nat → Nat → List (List Nat)
  | 0, v => if v = s then [[]] else []
  | i+1, v => (if v = s then [[]] else []) ++
      g.arcs.zipIdx.flatMap fun aj => if aj.1.2.1 = v then (walksTo g s i aj.1.1).map (aj.2 :: ·) else []

theorem zipIdx_arcAt {g : MGraph} {aj : (Nat × Nat × Int) × Nat} (h : aj ∈ g.arcs.zipIdx) :
    arcAt g aj.2 = some aj.1 := List.mem_zipIdx_iff_getElem?.mp h

theorem walksTo_sound (g : MGraph) (s : Nat) : ∀ (i v : Nat) (p : List Nat), p ∈ walksTo g s i v →
    RWalk g s v p ∧ p.length ≤ i := by
  intro i
  induction i with
  | zero =>
    intro v p h
    simp only [walksTo] at h
    split at h
    · simp at h; subst h; rename_i hv; exact ⟨hv, Nat.le_refl _⟩
    · cases h
  | succ i ih =>
    intro v p h
    simp only [walksTo, List.mem_append, List.mem_flatMap] at h
    rcases h with h | ⟨aj, haj, h⟩
    · split at h
      · simp at h; subst h; rename_i hv; exact ⟨hv, Nat.zero_le _⟩
      · cases h
    · split at h
      · rename_i htgt
        obtain ⟨q, hq, rfl⟩ := List.mem_map.mp h
        obtain ⟨hw, hl⟩ := ih _ q hq
        exact ⟨⟨aj.1, zipIdx_arcAt haj, htgt, hw⟩, by simp; omega⟩
      · cases h

theorem walksTo_complete (g : MGraph) (s : Nat) : ∀ (i v : Nat) (p : List Nat), RWalk g s v p →
    p.length ≤ i → p ∈ walksTo g s i v := by
  intro i
  induction i with
  | zero =>
    intro v p hw hl
    cases p with
    | nil => simp only [RWalk] at hw; simp [walksTo, hw]
    | cons j r => simp at hl
  | succ i ih =>
    intro v p hw hl
    cases p with
    | nil => simp only [RWalk] at hw; simp [walksTo, hw]
    | cons j r =>
      obtain ⟨a, ha, htgt, hr⟩ := hw
      simp only [walksTo, List.mem_append, List.mem_flatMap]
      right
      refine ⟨(a, j), List.mem_zipIdx_iff_getElem?.mpr ha, ?_⟩
      simp only [htgt, if_true]
      exact List.mem_map.mpr ⟨r, ih _ r hr (by simp at hl; omega), rfl⟩

theorem walksTo_nodup (g : MGraph) (s : Nat) : ∀ (i v : Nat), (walksTo g s i v).Nodup := by
  intro i
  induction i with
  | zero => intro v; simp only [walksTo]; split <;> simp
  | succ i ih =>
    intro v
    simp only [walksTo]
    apply List.Nodup.append
    · split <;> simp
    · rw [List.nodup_flatMap]
      constructor
      · intro aj _
        split
        · exact (ih _).map (fun a b h => by simpa using h)
        · exact List.nodup_nil
      · have hidx : (g.arcs.zipIdx).Pairwise (fun a b => a.2 ≠ b.2) := by
          have : (g.arcs.zipIdx.map Prod.snd).Nodup := by
            rw [List.zipIdx_map_snd]; exact List.nodup_range' ..
          exact List.pairwise_map.mp this
        refine hidx.imp ?_
        intro a b hab
        simp only [Function.onFun]
        intro x hx hx'
        split at hx
        · split at hx'
          · obtain ⟨q, _, rfl⟩ := List.mem_map.mp hx
            obtain ⟨q', _, h'⟩ := List.mem_map.mp hx'
            simp at h'
            exact hab h'.1.symm
          · cases hx'
        · cases hx
    · intro p hp hp'
      have : p = [] := by
        split at hp
        · simpa using hp
        · cases hp
      subst this
      simp only [List.mem_flatMap] at hp'
      obtain ⟨aj, _, h⟩ := hp'
      split at h
      · obtain ⟨q, _, hq⟩ := List.mem_map.mp h; cases hq
      · cases h

def wcosts (g : MGraph) (s i v : Nat) : List Int := (walksTo g s i v).map (rcost g)

theorem cnt_wcosts (g : MGraph) (s i v : Nat) (c : Int) :
    cnt c (wcosts g s i v) = ((walksTo g s i v).filter fun p => decide (rcost g p ≤ c)).length := by
  simp [cnt, wcosts, List.countP_eq_length_filter, List.filter_map, Function.comp_def]

theorem rcost_cons (g : MGraph) (j : Nat) (p : List Nat) : rcost g (j :: p) = arcW g j + rcost g p := by
  simp [rcost]

theorem cnt_wcosts_zero (g : MGraph) (s v : Nat) (c : Int) :
    cnt c (wcosts g s 0 v) = if v = s then (if 0 ≤ c then 1 else 0) else 0 := by
  by_cases hv : v = s
  · simp [wcosts, walksTo, hv, cnt_cons, cnt_nil, rcost]
  · simp [wcosts, walksTo, hv, cnt_nil]

theorem cnt_flatMap {α : Type} (c : Int) (l : List α) (f : α → List Int) :
    cnt c (l.flatMap f) = (l.map fun a => cnt c (f a)).sum := by
  simp only [cnt, List.countP_flatMap]; rfl

theorem sum_map_zipIdx {α : Type} (l : List α) (F : α → Nat) :
    (l.zipIdx.map fun aj => F aj.1).sum = (l.map F).sum := by
  have : (l.zipIdx.map fun aj => F aj.1) = (l.zipIdx.map Prod.fst).map F := by
    rw [List.map_map]; rfl
  rw [this, List.zipIdx_map_fst]

/-- the linear recurrence of the number of walks with at most `i+1` arcs and cost at most `c` -/
theorem cnt_wcosts_succ (g : MGraph) (s i v : Nat) (c : Int) :
    cnt c (wcosts g s (i + 1) v) =
      (if v = s then (if 0 ≤ c then 1 else 0) else 0) +
      (g.arcs.map fun a => if a.2.1 = v then cnt (c - a.2.2) (wcosts g s i a.1) else 0).sum := by
  have h1 : wcosts g s (i + 1) v = (if v = s then [0] else []) ++
      g.arcs.zipIdx.flatMap (fun aj => if aj.1.2.1 = v then (wcosts g s i aj.1.1).map (· + arcW g aj.2) else []) := by
    simp only [wcosts, walksTo, List.map_append, List.map_flatMap]
    congr 1
    · split <;> simp [rcost]
    · apply List.flatMap_congr
      intro aj _
      split
      · simp only [List.map_map]
        apply List.map_congr_left
        intro p _
        simp [rcost_cons, Int.add_comm]
      · rfl
  rw [h1, cnt_append]
  congr 1
  · by_cases hv : v = s <;> simp [hv, cnt_cons, cnt_nil]
  · rw [cnt_flatMap]
    rw [← sum_map_zipIdx g.arcs (fun a => if a.2.1 = v then cnt (c - a.2.2) (wcosts g s i a.1) else 0)]
    congr 1
    apply List.map_congr_left
    intro aj haj
    have hw : arcW g aj.2 = aj.1.2.2 := by simp [arcW, zipIdx_arcAt haj]
    split
    · rw [cnt_map_add, hw]
    · rfl


/-! ### the dynamic programme computes the truncated counts -/

def rowSem (g : MGraph) (s k i v : Nat) : List Int := kSmallest k (wcosts g s i v)

def tab (g : MGraph) (s k : Nat) (dom : List Nat) (i : Nat) : KTable := dom.map fun v => (v, rowSem g s k i v)

theorem lookup_map_self {β : Type} (f : Nat → β) : ∀ (dom : List Nat) (u : Nat),
    (dom.map fun v => (v, f v)).lookup u = if u ∈ dom then some (f u) else none := by
  intro dom
  induction dom with
  | nil => intro u; simp
  | cons a r ih =>
    intro u
    simp only [List.map_cons, List.lookup]
    by_cases h : u = a
    · subst h; simp
    · have : (u == a) = false := by simpa using h
      simp only [this, ih u, List.mem_cons, h, false_or]

theorem mem_kDom (g : MGraph) (s u : Nat) : u ∈ kDom g s ↔ u = s ∨ ∃ a ∈ g.arcs, a.2.1 = u := by
  simp only [kDom, List.mem_eraseDups, List.mem_cons, List.mem_map]

theorem walksTo_nil_of_not_dom (g : MGraph) (s u : Nat) (h : u ∉ kDom g s) : ∀ i, walksTo g s i u = [] := by
  have hs : ¬ u = s := fun e => h ((mem_kDom g s u).mpr (Or.inl e))
  have ha : ∀ a ∈ g.arcs, ¬ a.2.1 = u := fun a ha e => h ((mem_kDom g s u).mpr (Or.inr ⟨a, ha, e⟩))
  intro i
  cases i with
  | zero => simp [walksTo, hs]
  | succ i =>
    simp only [walksTo, hs, if_false, List.nil_append]
    apply List.flatMap_eq_nil_iff.mpr
    intro aj haj
    have : aj.1 ∈ g.arcs := List.mem_of_getElem? (zipIdx_arcAt haj)
    simp [ha aj.1 this]

theorem kRow_tab (g : MGraph) (s k i u : Nat) : kRow (tab g s k (kDom g s) i) u = rowSem g s k i u := by
  simp only [kRow, tab, lookup_map_self]
  by_cases h : u ∈ kDom g s
  · simp [h]
  · simp [h, rowSem, wcosts, walksTo_nil_of_not_dom g s u h i, kSmallest, sortInts]

theorem min_sum_min (k : Nat) {α : Type} (f : α → Nat) : ∀ (l : List α) (A : Nat),
    min k (A + (l.map fun a => min k (f a)).sum) = min k (A + (l.map f).sum) := by
  intro l
  induction l with
  | nil => intro A; rfl
  | cons a r ih =>
    intro A
    simp only [List.map_cons, List.sum_cons]
    have e1 : A + (min k (f a) + (r.map fun a => min k (f a)).sum) =
        (A + min k (f a)) + (r.map fun a => min k (f a)).sum := by omega
    have e2 : A + (f a + (r.map f).sum) = (A + f a) + (r.map f).sum := by omega
    rw [e1, ih, e2]
    generalize (r.map f).sum = S
    omega

theorem cnt_kCands (g : MGraph) (s : Nat) (T : KTable) (v : Nat) (c : Int) :
    cnt c (kCands g s T v) =
      (if v = s then (if 0 ≤ c then 1 else 0) else 0) +
      (g.arcs.map fun a => if a.2.1 = v then cnt (c - a.2.2) (kRow T a.1) else 0).sum := by
  unfold kCands
  rw [cnt_append, cnt_flatMap]
  congr 1
  · by_cases hv : v = s <;> simp [hv, cnt_cons, cnt_nil]
  · congr 1
    apply List.map_congr_left
    intro a _
    split
    · rw [cnt_map_add]
    · rfl

theorem kStep_tab (g : MGraph) (s k i : Nat) :
    kStep g s k (kDom g s) (tab g s k (kDom g s) i) = tab g s k (kDom g s) (i + 1) := by
  unfold kStep tab
  apply List.map_congr_left
  intro v _
  congr 1
  apply asc_ext _ _ (asc_kSmallest _ _) (asc_kSmallest _ _)
  intro c
  show cnt c (kSmallest k _) = cnt c (kSmallest k (wcosts g s (i + 1) v))
  rw [cnt_kSmallest, cnt_kSmallest, cnt_kCands, cnt_wcosts_succ]
  have hrow : ∀ a : Nat × Nat × Int, (if a.2.1 = v then cnt (c - a.2.2) (kRow (tab g s k (kDom g s) i) a.1) else 0) =
      min k (if a.2.1 = v then cnt (c - a.2.2) (wcosts g s i a.1) else 0) := by
    intro a
    split
    · rw [kRow_tab, rowSem, cnt_kSmallest]
    · simp
  have : (fun a : Nat × Nat × Int => if a.2.1 = v then cnt (c - a.2.2) (kRow (tab g s k (kDom g s) i) a.1) else 0) =
      fun a => min k (if a.2.1 = v then cnt (c - a.2.2) (wcosts g s i a.1) else 0) := funext hrow
  rw [show (List.map (fun a : Nat × Nat × Int => if a.2.1 = v then cnt (c - a.2.2) (kRow (List.map (fun v => (v, rowSem g s k i v)) (kDom g s)) a.1) else 0) g.arcs) =
      List.map (fun a => min k (if a.2.1 = v then cnt (c - a.2.2) (wcosts g s i a.1) else 0)) g.arcs from by
        have := this; unfold tab at this; rw [this]]
  exact min_sum_min k _ g.arcs _

theorem kInit_tab (g : MGraph) (s k : Nat) : kInit s k (kDom g s) = tab g s k (kDom g s) 0 := by
  unfold kInit tab
  apply List.map_congr_left
  intro v _
  simp only [rowSem, wcosts, walksTo]
  split <;> simp [rcost]

theorem kIter_spec (g : MGraph) (s k : Nat) : ∀ (fuel n : Nat) (T : KTable),
    kIter g s k (kDom g s) fuel (tab g s k (kDom g s) n) = some T →
    ∃ m, T = tab g s k (kDom g s) m ∧ tab g s k (kDom g s) (m + 1) = tab g s k (kDom g s) m := by
  intro fuel
  induction fuel with
  | zero => intro n T h; simp [kIter] at h
  | succ f ih =>
    intro n T h
    simp only [kIter, kStep_tab] at h
    split at h
    · rename_i heq
      simp at h
      exact ⟨n, h.symm, by simpa using heq⟩
    · exact ih (n + 1) T h

theorem tab_stable (g : MGraph) (s k m : Nat)
    (h : tab g s k (kDom g s) (m + 1) = tab g s k (kDom g s) m) :
    ∀ j, tab g s k (kDom g s) (m + j) = tab g s k (kDom g s) m := by
  intro j
  induction j with
  | zero => rfl
  | succ j ih =>
    rw [show m + (j + 1) = (m + j) + 1 by omega, ← kStep_tab, ih, kStep_tab, h]

/-- the table returned by `kWalks`: every row is the truncation of the costs of ALL sufficiently long
bounded enumerations -/
theorem kWalksF_rows {fuel : Nat} {g : MGraph} {s k : Nat} {T : KTable} (h : kWalksF fuel g s k = some T) :
    ∃ m, ∀ i, m ≤ i → ∀ v, kRow T v = rowSem g s k i v := by
  unfold kWalksF at h
  simp only at h
  rw [kInit_tab] at h
  obtain ⟨m, hT, hst⟩ := kIter_spec g s k _ 0 T h
  refine ⟨m, ?_⟩
  intro i hi v
  have := tab_stable g s k m hst (i - m)
  rw [show m + (i - m) = i by omega] at this
  rw [hT, ← this, kRow_tab]


/-! ### from counts to walks -/

theorem AtLeast.mono {g : MGraph} {s v n : Nat} {P Q : Int → Prop} (h : AtLeast g s v n P)
    (hpq : ∀ x, P x → Q x) : AtLeast g s v n Q := by
  obtain ⟨ws, h1, h2, h3⟩ := h
  exact ⟨ws, h1, h2, fun p hp => ⟨(h3 p hp).1, hpq _ (h3 p hp).2⟩⟩

theorem le_sum_of_mem : ∀ (l : List Nat) (x : Nat), x ∈ l → x ≤ l.sum := by
  intro l
  induction l with
  | nil => intro x h; cases h
  | cons a r ih =>
    intro x h
    simp only [List.sum_cons]
    cases List.mem_cons.mp h with
    | inl e => omega
    | inr e => have := ih x e; omega

/-- `n` distinct walks of cost `≤ c` exist iff some bounded enumeration contains `n` of them -/
theorem atLeast_iff_cnt (g : MGraph) (s v n : Nat) (c : Int) :
    AtLeast g s v n (· ≤ c) ↔ ∃ i, n ≤ cnt c (wcosts g s i v) := by
  constructor
  · rintro ⟨ws, hnd, hlen, hws⟩
    refine ⟨(ws.map List.length).sum, ?_⟩
    rw [cnt_wcosts, ← hlen]
    apply List.Nodup.length_le_of_subset hnd
    intro p hp
    have hl : p.length ≤ (ws.map List.length).sum := le_sum_of_mem _ _ (List.mem_map.mpr ⟨p, hp, rfl⟩)
    exact List.mem_filter.mpr ⟨walksTo_complete g s _ v p (hws p hp).1 hl, by simpa using (hws p hp).2⟩
  · rintro ⟨i, hi⟩
    rw [cnt_wcosts] at hi
    refine ⟨((walksTo g s i v).filter fun p => decide (rcost g p ≤ c)).take n, ?_, ?_, ?_⟩
    · exact List.Nodup.sublist ((List.take_sublist _ _).trans List.filter_sublist) (walksTo_nodup g s i v)
    · rw [List.length_take]; omega
    · intro p hp
      have := List.mem_filter.mp (List.mem_of_mem_take hp)
      exact ⟨(walksTo_sound g s i v p this.1).1, by simpa using this.2⟩

theorem cnt_wcosts_mono (g : MGraph) (s v : Nat) (c : Int) {i j : Nat} (h : i ≤ j) :
    cnt c (wcosts g s i v) ≤ cnt c (wcosts g s j v) := by
  rw [cnt_wcosts, cnt_wcosts]
  apply List.Nodup.length_le_of_subset
  · exact List.Nodup.sublist List.filter_sublist (walksTo_nodup g s i v)
  · intro p hp
    have := List.mem_filter.mp hp
    obtain ⟨hw, hl⟩ := walksTo_sound g s i v p this.1
    exact List.mem_filter.mpr ⟨walksTo_complete g s j v p hw (by omega), this.2⟩

/-- an ascending list whose counts decide `AtLeast` holds the k-th cheapest walk cost at index `k-1` -/
theorem kth_of_counts {g : MGraph} {s v k : Nat} (hk : 1 ≤ k) {L : List Int} (hasc : Asc L)
    (hat : ∀ c', AtLeast g s v k (· ≤ c') ↔ k ≤ cnt c' L) (c : Int) :
    L[k - 1]? = some c ↔ KthCost g s v k c := by
  have hidx : ∀ c', k ≤ cnt c' L ↔ ∃ x, L[k - 1]? = some x ∧ x ≤ c' := by
    intro c'
    have := cnt_ge_iff_asc hasc c' (k - 1)
    rw [show k - 1 + 1 = k by omega] at this
    exact this
  have hlt : ∀ c', AtLeast g s v k (· < c') ↔ AtLeast g s v k (· ≤ c' - 1) := by
    intro c'
    constructor <;> intro hh <;> exact hh.mono (fun x hx => by omega)
  unfold KthCost
  rw [hat, hlt, hat, hidx, hidx]
  constructor
  · intro hc
    refine ⟨⟨c, hc, Int.le_refl _⟩, ?_⟩
    rintro ⟨x, hx, hle⟩
    rw [hc] at hx; cases hx; omega
  · rintro ⟨⟨x, hx, hle⟩, hno⟩
    have : ¬ x ≤ c - 1 := fun hh => hno ⟨x, hx, hh⟩
    have : x = c := by omega
    rw [hx, this]

/-- **the oracle's table holds the k cheapest walk costs**: its entry number `k` (index `k-1`) is the
cost of the k-th cheapest walk, and is absent iff there are fewer than `k` walks. -/
theorem kWalksF_kth {fuel : Nat} {g : MGraph} {s k : Nat} {T : KTable} (h : kWalksF fuel g s k = some T) (hk : 1 ≤ k)
    (v : Nat) (c : Int) : (kRow T v)[k - 1]? = some c ↔ KthCost g s v k c := by
  obtain ⟨m, hm⟩ := kWalksF_rows h
  have hasc : Asc (kRow T v) := by rw [hm m (Nat.le_refl _) v]; exact asc_kSmallest _ _
  -- the count of the row is the truncated count of every long enough enumeration
  have hcnt : ∀ i, m ≤ i → ∀ c', cnt c' (kRow T v) = min k (cnt c' (wcosts g s i v)) := by
    intro i hi c'
    rw [hm i hi v, rowSem, cnt_kSmallest]
  -- `AtLeast k (≤ c')` ↔ the row has `k` entries `≤ c'`
  have hat : ∀ c', AtLeast g s v k (· ≤ c') ↔ k ≤ cnt c' (kRow T v) := by
    intro c'
    rw [atLeast_iff_cnt]
    constructor
    · rintro ⟨i, hi⟩
      have := cnt_wcosts_mono g s v c' (Nat.le_max_left i m)
      rw [hcnt (max i m) (Nat.le_max_right i m) c']
      omega
    · intro hh
      rw [hcnt m (Nat.le_refl _) c'] at hh
      exact ⟨m, by omega⟩
  exact kth_of_counts hk hasc hat c

theorem kWalks_rows {g : MGraph} {s k : Nat} {T : KTable} (h : kWalks g s k = some T) :
    ∃ m, ∀ i, m ≤ i → ∀ v, kRow T v = rowSem g s k i v := kWalksF_rows h

theorem kWalks_kth {g : MGraph} {s k : Nat} {T : KTable} (h : kWalks g s k = some T) (hk : 1 ≤ k)
    (v : Nat) (c : Int) : (kRow T v)[k - 1]? = some c ↔ KthCost g s v k c := kWalksF_kth h hk v c

theorem kthCost_unique {g : MGraph} {s v k : Nat} {c c' : Int} (h : KthCost g s v k c) (h' : KthCost g s v k c') :
    c = c' := by
  by_cases h1 : c < c'
  · exact absurd (h.1.mono (fun x hx => by omega)) h'.2
  · by_cases h2 : c' < c
    · exact absurd (h'.1.mono (fun x hx => by omega)) h.2
    · omega

/-! ### walks by index and `WalkCost` -/

theorem rwalk_walkCost {g : MGraph} {s : Nat} : ∀ (p : List Nat) (v : Nat), RWalk g s v p →
    WalkCost g s v (rcost g p) := by
  intro p
  induction p with
  | nil => intro v h; simp only [RWalk] at h; subst h; exact WalkCost.nil _
  | cons j r ih =>
    intro v h
    obtain ⟨a, ha, htgt, hr⟩ := h
    have hmem : (a.1, v, a.2.2) ∈ g.arcs := by
      have := List.mem_of_getElem? ha
      rw [← htgt]; exact this
    have hw : arcW g j = a.2.2 := by simp [arcW, ha]
    rw [rcost_cons, hw, Int.add_comm]
    exact WalkCost.snoc (ih a.1 hr) hmem

theorem walkCost_rwalk {g : MGraph} {s v : Nat} {c : Int} (h : WalkCost g s v c) :
    ∃ p, RWalk g s v p ∧ rcost g p = c := by
  induction h with
  | nil => exact ⟨[], rfl, rfl⟩
  | @snoc b x c1 w _ harc ih =>
    obtain ⟨p, hp, hc⟩ := ih
    obtain ⟨j, hj⟩ := List.mem_iff_getElem?.mp harc
    refine ⟨j :: p, ⟨_, hj, rfl, hp⟩, ?_⟩
    have hw : arcW g j = w := by simp [arcW, arcAt, hj]
    rw [rcost_cons, hw, hc, Int.add_comm]

/-- `k = 1`: the cheapest walk cost is the shortest-walk cost of dijkstra's specification -/
theorem kthCost_one_iff (g : MGraph) (s v : Nat) (c : Int) : KthCost g s v 1 c ↔ IsShortest g s v c := by
  constructor
  · rintro ⟨⟨ws, _, hlen, hws⟩, hno⟩
    match ws, hlen with
    | [p], _ =>
      obtain ⟨hw, hle⟩ := hws p (List.mem_cons_self ..)
      have hmin : ∀ c', WalkCost g s v c' → c ≤ c' := by
        intro c' hc'
        obtain ⟨q, hq, hqc⟩ := walkCost_rwalk hc'
        by_cases hlt : c' < c
        · exact absurd ⟨[q], by simp, rfl, fun r hr => by
            have : r = q := by simpa using hr
            subst this; exact ⟨hq, by omega⟩⟩ hno
        · omega
      have hwc := rwalk_walkCost p v hw
      have : rcost g p = c := Int.le_antisymm hle (hmin _ hwc)
      rw [this] at hwc
      exact ⟨hwc, hmin⟩
  · rintro ⟨hw, hmin⟩
    obtain ⟨p, hp, hc⟩ := walkCost_rwalk hw
    refine ⟨⟨[p], by simp, rfl, fun r hr => ?_⟩, ?_⟩
    · have : r = p := by simpa using hr
      subst this; exact ⟨hp, by omega⟩
    · rintro ⟨ws, _, hlen, hws⟩
      match ws, hlen with
      | [q], _ =>
        obtain ⟨hq, hlt⟩ := hws q (List.mem_cons_self ..)
        have := hmin _ (rwalk_walkCost q v hq)
        omega

/-! ### the judge -/

theorem okKspF_sound (fuel : Nat) (g : MGraph) (s : Nat) (goal : Option Nat) (k : Nat) (m : List (Nat × Int))
    (h : okKspF fuel g s goal k m = true) :
    1 ≤ k ∧ (m.map (·.1)).Nodup ∧
    (∀ v c, (v, c) ∈ m → KthCost g s v k c) ∧
    (goal = none → ∀ v c, KthCost g s v k c → (v, c) ∈ m) ∧
    (∀ t, goal = some t → ((∃ c, (t, c) ∈ m) ↔ ∃ c, KthCost g s t k c)) ∧
    (k = 1 → goal = none → ∀ v c, (v, c) ∈ m ↔ IsShortest g s v c) := by
  unfold okKspF at h
  split at h
  · cases h
  · rename_i T hT
    simp only [Bool.and_eq_true, List.all_eq_true, decide_eq_true_eq] at h
    obtain ⟨⟨⟨⟨hk, hnd⟩, hent⟩, hpres⟩, hone⟩ := h
    have hnd := keysNodup_spec m hnd
    have kth := kWalksF_kth hT hk
    have hsound : ∀ v c, (v, c) ∈ m → KthCost g s v k c := by
      intro v c hvc
      have := hent (v, c) hvc
      exact (kth v c).mp (by simpa using this)
    refine ⟨hk, hnd, hsound, ?_, ?_, ?_⟩
    · intro hg v c hkc
      subst hg
      simp only [List.all_eq_true] at hpres
      have hrow := (kth v c).mpr hkc
      have hlen : k ≤ (kRow T v).length := by
        have := (List.getElem?_eq_some_iff.mp hrow).1
        omega
      have hin : (v, kRow T v) ∈ T := by
        unfold kRow at hlen ⊢
        cases hl : T.lookup v with
        | none => rw [hl] at hlen; simp at hlen; omega
        | some row => simp only [Option.getD_some]; exact mem_of_lookup T v row hl
      have := hpres (v, kRow T v) hin
      simp only [hlen, if_true] at this
      cases hl : labelOf m v with
      | none => rw [hl] at this; cases this
      | some c' =>
        have hmem := mem_of_lookup m v c' hl
        have := kthCost_unique (hsound v c' hmem) hkc
        subst this
        exact hmem
    · intro t hg
      subst hg
      simp only at hpres
      have hp : ((kRow T t)[k - 1]?).isSome = (labelOf m t).isSome := by simpa using hpres
      constructor
      · rintro ⟨c, hc⟩; exact ⟨c, hsound t c hc⟩
      · rintro ⟨c, hc⟩
        have hrow := (kth t c).mpr hc
        rw [hrow] at hp
        cases hl : labelOf m t with
        | none => rw [hl] at hp; cases hp
        | some c' => exact ⟨c', mem_of_lookup m t c' hl⟩
    · intro h1 hg
      have : checkDist g s m = true := by
        simp only [h1, hg, and_self, if_true] at hone
        exact hone
      exact (exact_of_check this).mem_iff

theorem okKsp_sound (g : MGraph) (s : Nat) (goal : Option Nat) (k : Nat) (m : List (Nat × Int))
    (h : okKsp g s goal k m = true) :
    1 ≤ k ∧ (m.map (·.1)).Nodup ∧
    (∀ v c, (v, c) ∈ m → KthCost g s v k c) ∧
    (goal = none → ∀ v c, KthCost g s v k c → (v, c) ∈ m) ∧
    (∀ t, goal = some t → ((∃ c, (t, c) ∈ m) ↔ ∃ c, KthCost g s t k c)) ∧
    (k = 1 → goal = none → ∀ v c, (v, c) ∈ m ↔ IsShortest g s v c) :=
  okKspF_sound _ g s goal k m h

end PetgraphModel.C10P
