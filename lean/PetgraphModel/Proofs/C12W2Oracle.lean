import PetgraphModel.Proofs.C12Min
import PetgraphModel.Proofs.ReachTotal
/-
C12, wave 2 — completeness of the executable checkers of `Oracle/C12Forest.lean`.

With the totality of the reachability oracle (`Proofs/ReachTotal.lean`) `connQ` *decides* `Conn`, so
every "must" check accepts whenever the clause it checks holds, and every "may" check accepts only
then.
-/
namespace PetgraphModel.MST
open PetgraphModel MGraph Oracle

/-! ### the oracle decides connectivity -/

theorem connQ_true_iff {F : List Edge} {a b : Nat} : connQ F a b = some true ↔ Conn F a b :=
  reachB_iff (ug F) a b

theorem connQ_false_iff {F : List Edge} {a b : Nat} : connQ F a b = some false ↔ ¬ Conn F a b :=
  reachB_false_iff (ug F) a b

theorem connQ_ne_true_iff {F : List Edge} {a b : Nat} : connQ F a b ≠ some true ↔ ¬ Conn F a b := by
  rw [← connQ_true_iff]

theorem connQ_ne_false_iff {F : List Edge} {a b : Nat} : connQ F a b ≠ some false ↔ Conn F a b := by
  rw [Ne, connQ_false_iff, Classical.not_not]

/-! ### acyclicity: `forestMust` is complete, `forestMay` is sound -/

theorem forestMust_complete : ∀ (F acc : List Edge), Acyclic (acc.reverse ++ F) → forestMust acc F = true
  | [], _, _ => rfl
  | e :: rest, acc, h => by
    simp only [forestMust, Bool.and_eq_true, beq_iff_eq]
    constructor
    · rw [connQ_false_iff]
      intro hc
      refine h acc.reverse e rest rfl (hc.mono ?_)
      intro y hy; simp only [List.mem_append, List.mem_reverse]; exact Or.inl hy
    · apply forestMust_complete rest (e :: acc)
      simpa using h

theorem forestMust_of_acyclic {F : List Edge} (h : Acyclic F) : forestMust [] F = true :=
  forestMust_complete F [] (by simpa using h)

theorem forestMay_eq_forestMust : ∀ (F acc : List Edge), forestMay acc F = forestMust acc F
  | [], _ => rfl
  | e :: rest, acc => by
    simp only [forestMay, forestMust, forestMay_eq_forestMust rest (e :: acc)]
    congr 1
    by_cases hc : Conn acc e.src e.tgt
    · rw [connQ_true_iff.mpr hc]; rfl
    · rw [connQ_false_iff.mpr hc]; rfl

theorem forestMay_acyclic {F : List Edge} (h : forestMay [] F = true) : Acyclic F :=
  forestMust_acyclic (by rw [← forestMay_eq_forestMust]; exact h)

/-! ### spanning -/

theorem spanMust_complete {E F : List Edge} (h : Spanning E F) : spanMust E F = true := by
  simp only [spanMust, List.all_eq_true, beq_iff_eq]
  intro e he
  exact connQ_true_iff.mpr (h _ _ (Conn.edge he))

theorem spanMay_sound {E F : List Edge} (h : spanMay E F = true) : Spanning E F := by
  intro a b hc
  refine hc.of_edges ?_
  intro e he
  simp only [spanMay, List.all_eq_true, bne_iff_ne, ne_eq] at h
  exact connQ_ne_false_iff.mp (h e he)

/-! ### components: `compReps` never runs out of fuel -/

theorem connAny_total (E : List Edge) (reps : List Nat) (x : Nat) : ∃ r, connAny E reps x = some r := by
  obtain ⟨l, hl⟩ := reachFrom_total (ug E) x
  exact ⟨reps.any fun y => l.contains y, by simp only [connAny, hl, Option.map_some]⟩

theorem compReps_total (E : List Edge) : ∀ (V reps : List Nat), ∃ out, compReps E reps V = some out
  | [], reps => ⟨reps, rfl⟩
  | x :: xs, reps => by
    obtain ⟨r, hr⟩ := connAny_total E reps x
    cases r with
    | true => simp only [compReps, hr]; exact compReps_total E xs reps
    | false => simp only [compReps, hr]; exact compReps_total E xs (reps ++ [x])

/-! ### the cycle certificate -/

theorem splits_mem {α : Type} : ∀ {l l1 l2 : List α} {f : α}, (l1, f, l2) ∈ splits l → l = l1 ++ f :: l2
  | [], _, _, _, h => by simp [splits] at h
  | x :: xs, l1, l2, f, h => by
    simp only [splits, List.mem_cons, List.mem_map] at h
    rcases h with h | ⟨⟨m1, g, m2⟩, hm, h⟩
    · simp only [Prod.mk.injEq] at h
      obtain ⟨rfl, rfl, rfl⟩ := h
      rfl
    · simp only [Prod.mk.injEq] at h
      obtain ⟨rfl, rfl, rfl⟩ := h
      rw [splits_mem hm]; rfl

theorem cycleCert_complete {M R : List Edge} (h : CycleProperty M R) : cycleCert M R = true := by
  simp only [cycleCert, List.all_eq_true, Bool.or_eq_true, beq_iff_eq, decide_eq_true_eq]
  intro e he
  by_cases hl : e.src = e.tgt
  · exact Or.inl hl
  · refine Or.inr ?_
    rintro ⟨l1, f, l2⟩ hs
    by_cases hc : Conn (l1 ++ l2) e.src e.tgt
    · exact Or.inr (connQ_true_iff.mpr hc)
    · exact Or.inl (h e he hl l1 f l2 (splits_mem hs) hc)

/-! ### brute force -/

theorem minOpt_mem : ∀ {l : List Int} {m : Int}, minOpt l = some m → m ∈ l
  | [], _, h => by simp [minOpt] at h
  | y :: ys, m, h => by
    simp only [minOpt] at h
    split at h
    · simp only [Option.some.injEq] at h
      subst h; exact List.mem_cons_self ..
    · rename_i m' hsome
      simp only [Option.some.injEq] at h
      have := minOpt_mem hsome
      split at h
      · subst h; exact List.mem_cons_self ..
      · subst h; exact List.mem_cons_of_mem _ this

theorem minOpt_isSome : ∀ {l : List Int}, l ≠ [] → ∃ m, minOpt l = some m
  | [], h => absurd rfl h
  | y :: ys, _ => by
    simp only [minOpt]
    split
    · exact ⟨_, rfl⟩
    · exact ⟨_, rfl⟩

theorem sublist_perm_append {α : Type} : ∀ {F E : List α}, F.Sublist E → ∃ R, (F ++ R).Perm E
  | _, _, .slnil => ⟨[], List.Perm.refl _⟩
  | _, _, .cons a h => by
    obtain ⟨R, hR⟩ := sublist_perm_append h
    exact ⟨a :: R, List.perm_middle.trans (hR.cons a)⟩
  | _, _, .cons_cons a h => by
    obtain ⟨R, hR⟩ := sublist_perm_append h
    exact ⟨R, hR.cons a⟩

/-- with a total oracle the brute-force minimum is attained by a genuine spanning forest -/
theorem bruteMin_attained {E : List Edge} {m : Int} (hm : bruteMin E = some m) :
    ∃ F, SpanningForest E F ∧ weight F = m := by
  have := minOpt_mem hm
  simp only [List.mem_map, List.mem_filter, Bool.and_eq_true] at this
  obtain ⟨F, ⟨hsub, hfor, hspan⟩, hw⟩ := this
  have hsl : F.Sublist E := sublist_of_mem_subs hsub
  obtain ⟨R, hR⟩ := sublist_perm_append hsl
  exact ⟨F, ⟨⟨R, hR⟩, forestMay_acyclic hfor, spanMay_sound hspan⟩, hw⟩

/-- … and it exists as soon as there is a spanning forest at all -/
theorem bruteMin_isSome {E F : List Edge} (hF : SpanningForest E F) : ∃ m, bruteMin E = some m := by
  obtain ⟨R, hR⟩ := hF.sub
  obtain ⟨L, hLp, hLs⟩ := List.exists_perm_sublist (List.sublist_append_left F R) hR
  have hac : Acyclic L := hF.acyclic.perm hLp.symm
  have hsp : Spanning E L := spanning_perm hLp.symm hF.spanning
  apply minOpt_isSome
  intro hnil
  have hmem : weight L ∈ ((subs E).filter fun F => forestMay [] F && spanMay E F).map weight := by
    simp only [List.mem_map, List.mem_filter, Bool.and_eq_true]
    exact ⟨L, ⟨mem_subs hLs, forestMay_complete L [] (by simpa using hac), spanMay_complete hsp⟩, rfl⟩
  rw [hnil] at hmem
  cases hmem

end PetgraphModel.MST
