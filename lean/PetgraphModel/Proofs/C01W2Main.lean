import PetgraphModel.Proofs.C01W2Core
import PetgraphModel.Proofs.C01W2Remove
import PetgraphModel.Proofs.C01W2Walk
import PetgraphModel.Proofs.C01W2FilterMap
/-
C01, wave 2 — assembly: every public call, in every reachable state, is a step of the extended
specification relation `SpecAccepts2`, and hence every history is a run of the specification.
-/
namespace PetgraphModel.GProofs
open PetgraphModel PetgraphModel.G

theorem stepOK_removeEdge {s : State} {st : Nat → Nat} {ck : Nat} (h : RInv s st ck) (e : Nat) :
    StepOK s st ck (.removeEdge e) := by
  unfold StepOK
  simp only [step, SpecAccepts2]
  by_cases he : e < s.edges.length
  · obtain ⟨s', hs', hr', habs', _⟩ := removeEdge_refines h (List.getElem?_eq_getElem he)
    rw [hs']
    refine ⟨_, ck, ⟨?_, habs'⟩, hr'⟩
    simp [liftF, absG_edges_get, List.getElem?_eq_getElem he, absEdgeG]
  · obtain ⟨h1, h2⟩ := removeEdge_refines_absent (s := s) st ck (Nat.le_of_not_lt he)
    rw [h1]
    refine ⟨st, ck, ⟨?_, h2.symm⟩, h⟩
    simp [liftF, absG_edges_get, List.getElem?_eq_none (Nat.le_of_not_lt he)]

theorem stepOK_removeNode {s : State} {st : Nat → Nat} {ck : Nat} (h : RInv s st ck) (a : Nat) :
    StepOK s st ck (.removeNode a) := by
  unfold StepOK
  simp only [step, SpecAccepts2]
  by_cases ha : a < s.nodes.length
  · obtain ⟨s', st', hs', hr', habs', _⟩ := removeNode_refines h (List.getElem?_eq_getElem ha)
    rw [hs']
    refine ⟨st', ck, ⟨?_, habs'⟩, hr'⟩
    simp [liftF, absG_nodes_get, List.getElem?_eq_getElem ha]
  · obtain ⟨h1, h2⟩ := removeNode_refines_absent (s := s) st ck (Nat.le_of_not_lt ha)
    rw [h1]
    refine ⟨st, ck, ⟨?_, h2.symm⟩, h⟩
    simp [liftF, absG_nodes_get, List.getElem?_eq_none (Nat.le_of_not_lt ha)]

theorem stepOK_retainEdges {s : State} {st : Nat → Nat} {ck : Nat} (h : RInv s st ck) (mask bump : List Bool) :
    StepOK s st ck (.retainEdges mask bump) := by
  unfold StepOK
  simp only [step, SpecAccepts2]
  obtain ⟨s', st', hs', hr', habs'⟩ := retainEdges_refines mask bump ck s.edges.length s st h (Nat.le_refl _)
  rw [hs', absG_edges_length]
  exact ⟨st', ck, ⟨rfl, habs'⟩, hr'⟩

theorem stepOK_retainNodes {s : State} {st : Nat → Nat} {ck : Nat} (h : RInv s st ck) (mask bump : List Bool) :
    StepOK s st ck (.retainNodes mask bump) := by
  unfold StepOK
  simp only [step, SpecAccepts2]
  obtain ⟨s', st', hs', hr', habs'⟩ := retainNodes_refines mask bump ck s.nodes.length s st h (Nat.le_refl _)
  rw [hs', absG_nodes_length]
  exact ⟨st', ck, ⟨rfl, habs'⟩, hr'⟩

theorem stepOK_filterMap {s : State} {st : Nat → Nat} {ck : Nat} (h : RInv s st ck) (nm em : List Bool) (dn de : Nat) :
    StepOK s st ck (.filterMap nm em dn de) := by
  unfold StepOK
  simp only [step, SpecAccepts2]
  obtain ⟨s', hs', hinv1, habs⟩ := filterMap_refines h.inv st ck nm em dn de
  rw [hs']
  exact ⟨id, s'.edges.length, ⟨rfl, habs⟩, rinv_of_inv1 hinv1⟩

theorem stepOK_rebuild {s : State} {st : Nat → Nat} {ck : Nat} (h : RInv s st ck) :
    StepOK s st ck .rebuild := by
  unfold StepOK
  simp only [step, SpecAccepts2, rebuild]
  obtain ⟨s', hs', hinv1, habs⟩ := filterMap_refines h.inv st ck [] [] 0 0
  rw [hs']
  exact ⟨id, s'.edges.length, ⟨rfl, habs⟩, rinv_of_inv1 hinv1⟩

/-- **refinement step, all calls**: in every state satisfying the refinement invariant, every public
call — `remove_*`, `retain_*`, `filter_map`, conversion, walkers, `first_edge` / `next_edge` included —
answers what the plain multigraph allows, and the successor again satisfies the invariant and
abstracts to the multigraph's successor -/
theorem stepOK_all {s : State} {st : Nat → Nat} {ck : Nat} (h : RInv s st ck) (op : Op) : StepOK s st ck op := by
  by_cases hc : isCore op = true
  · exact stepOK_core h op hc
  · cases op <;> simp [isCore] at hc
    case removeNode a => exact stepOK_removeNode h a
    case removeEdge e => exact stepOK_removeEdge h e
    case retainNodes m b => exact stepOK_retainNodes h m b
    case retainEdges m b => exact stepOK_retainEdges h m b
    case filterMap nm em dn de => exact stepOK_filterMap h nm em dn de
    case rebuild => exact stepOK_rebuild h
    case walk a mode bump => exact stepOK_walk h a mode bump
    case firstEdge a k => exact stepOK_firstEdge h a k
    case nextEdge e k => exact stepOK_nextEdge h e k

/-- all histories from any state satisfying the refinement invariant -/
theorem refines_run2 : ∀ (ops : List Op) (s : State) (st : Nat → Nat) (ck : Nat), RInv s st ck →
    ∃ st' ck', SpecRun2 (absG s st ck) ops (run s ops).2 (absG (run s ops).1 st' ck') ∧ RInv (run s ops).1 st' ck' := by
  intro ops
  induction ops with
  | nil => intro s st ck h; exact ⟨st, ck, SpecRun2.nil _, h⟩
  | cons op rest ih =>
    intro s st ck h
    obtain ⟨st1, ck1, hacc, h1⟩ := stepOK_all h op
    obtain ⟨st2, ck2, hrun, h2⟩ := ih (step s op).1 st1 ck1 h1
    simp only [run]
    exact ⟨st2, ck2, SpecRun2.cons hacc hrun, h2⟩

theorem rinv_empty (endv : Nat) (d : Bool) : RInv (G.empty endv d) id 0 := rinv_of_inv1 (inv1_empty endv d)

theorem absG_empty (endv : Nat) (d : Bool) : absG (G.empty endv d) id 0 = CGS.empty endv d := rfl

/-- the extended relation never answers with a fault -/
theorem specAccepts2_no_fault {sp sp' : CGS.Spec} {op : Op} {f : Fault} : ¬ SpecAccepts2 sp op (.fault f) sp' := by
  intro h
  by_cases hc : isCore op = true
  · have : SpecAccepts sp op (.fault f) sp' := by
      cases op <;> simp only [isCore] at hc <;> first | exact h | cases hc
    exact specAccepts_no_fault this
  · cases op <;> simp [isCore] at hc <;> simp only [SpecAccepts2] at h
    case removeNode a => simp at h
    case removeEdge e => simp at h
    case retainNodes m b => simp at h
    case retainEdges m b => simp at h
    case filterMap nm em dn de => simp at h
    case rebuild => simp at h
    case walk a mode bump => obtain ⟨l, h1, _⟩ := h; simp at h1
    case firstEdge a k => simp at h
    case nextEdge e k => simp at h

end PetgraphModel.GProofs
