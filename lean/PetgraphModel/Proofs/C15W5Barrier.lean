import PetgraphModel.Oracle.C15Barrier
import PetgraphModel.Proofs.C15Matching
import PetgraphModel.Proofs.C15W5Defs
/-
C15 wave 5 — the easy direction of the Tutte–Berge formula, and the soundness of the maximality
certificate checker `checkBarrier` of `Oracle/C15Barrier.lean`.

* `blocks_count`: the counting core.  `S` is split into blocks by `β`, every neighbour of a node of
  `S` is in the same block or in `T`; then the number of listed odd blocks is at most `|T|` plus the
  number of nodes of `S` that the matching `N` leaves uncovered.
* `odd_blocks_miss`: the local form used by the algorithm proof.
* `tutte_berge_easy`: `2|N| + #odd classes ≤ |V| + |A|`.
* `isMatchingB_iff`, `checkBarrierWith_sound`, `checkBarrier_sound`.
-/
namespace PetgraphModel.C15W5
open PetgraphModel PetgraphModel.C15

/-! ### the partner of a node in a matching, as a function -/

/-- the other end of the first pair of `N` that contains `a`; `a` itself when there is none -/
def mateOf : List (Nat × Nat) → Nat → Nat
  | [], a => a
  | p :: r, a => if a = p.1 then p.2 else if a = p.2 then p.1 else mateOf r a

theorem InM.symm {N : List (Nat × Nat)} {a b : Nat} (h : InM N a b) : InM N b a := Or.symm h

theorem InM.cons {N : List (Nat × Nat)} {a b : Nat} (p : Nat × Nat) (h : InM N a b) :
    InM (p :: N) a b :=
  h.elim (fun h => Or.inl (List.mem_cons_of_mem _ h)) (fun h => Or.inr (List.mem_cons_of_mem _ h))

/-- a node that `mateOf` moves is moved to its partner -/
theorem inM_of_mateOf_ne : ∀ (N : List (Nat × Nat)) (a : Nat), mateOf N a ≠ a → InM N a (mateOf N a)
  | [], a, h => absurd rfl h
  | p :: r, a, h => by
    simp only [mateOf] at h ⊢
    by_cases h1 : a = p.1
    · rw [if_pos h1]
      exact Or.inl (by rw [h1]; exact List.mem_cons_self ..)
    · rw [if_neg h1] at h ⊢
      by_cases h2 : a = p.2
      · rw [if_pos h2]
        exact Or.inr (by rw [h2]; exact List.mem_cons_self ..)
      · rw [if_neg h2] at h ⊢
        exact (inM_of_mateOf_ne r a h).cons p

/-- in a matching, `mateOf` finds the partner -/
theorem mateOf_of_inM : ∀ (N : List (Nat × Nat)), (∀ p ∈ N, p.1 ≠ p.2) → N.Pairwise Disjoint2 →
    ∀ a b, InM N a b → mateOf N a = b
  | [], _, _, a, b, h => by rcases h with h | h <;> cases h
  | p :: r, hne, hd, a, b, h => by
    obtain ⟨hd1, hd2⟩ := List.pairwise_cons.mp hd
    have hne' : ∀ q ∈ r, q.1 ≠ q.2 := fun q hq => hne q (List.mem_cons_of_mem _ hq)
    have hp : p.1 ≠ p.2 := hne p (List.mem_cons_self ..)
    simp only [mateOf]
    rcases h with h | h
    · rcases List.mem_cons.mp h with h | h
      · have h1 : a = p.1 := by rw [← h]
        have h2 : b = p.2 := by rw [← h]
        rw [if_pos h1, h2]
      · have hdis := hd1 (a, b) h
        rw [if_neg (fun e => hdis.1 e.symm), if_neg (fun e => hdis.2.2.1 e.symm)]
        exact mateOf_of_inM r hne' hd2 a b (Or.inl h)
    · rcases List.mem_cons.mp h with h | h
      · have h1 : b = p.1 := by rw [← h]
        have h2 : a = p.2 := by rw [← h]
        rw [if_neg (fun e => hp (e.symm.trans h2)), if_pos h2, h1]
      · have hdis := hd1 (b, a) h
        rw [if_neg (fun e => hdis.2.1 e.symm), if_neg (fun e => hdis.2.2.2 e.symm)]
        exact mateOf_of_inM r hne' hd2 a b (Or.inr h)

theorem joined_symm {g : MGraph} {a b : Nat} (h : Joined g a b) : Joined g b a := by
  obtain ⟨hne, e, he, hh⟩ := h
  exact ⟨fun x => hne x.symm, e, he, hh.symm⟩

/-- what the proofs below use of a matching -/
structure Mat (g : MGraph) (N : List (Nat × Nat)) : Prop where
  ne : ∀ p ∈ N, p.1 ≠ p.2
  dis : N.Pairwise Disjoint2
  joined : ∀ a b, InM N a b → Joined g a b

theorem mat_of_isMatching {g : MGraph} {N : List (Nat × Nat)} (hN : IsMatching g N) : Mat g N where
  ne := fun p hp => (hN.1 p hp).1
  dis := hN.2
  joined := by
    intro a b h
    rcases h with h | h
    · exact hN.1 (a, b) h
    · exact joined_symm (hN.1 (b, a) h)

theorem Mat.mateOf_eq {g : MGraph} {N : List (Nat × Nat)} (h : Mat g N) {a b : Nat} (hab : InM N a b) :
    mateOf N a = b := mateOf_of_inM N h.ne h.dis a b hab

theorem Mat.ne_of_inM {g : MGraph} {N : List (Nat × Nat)} (h : Mat g N) {a b : Nat} (hab : InM N a b) :
    a ≠ b := (h.joined a b hab).1

/-- covered nodes are exactly the nodes that `mateOf` moves -/
theorem Mat.covered_iff {g : MGraph} {N : List (Nat × Nat)} (h : Mat g N) (a : Nat) :
    Covered N a ↔ mateOf N a ≠ a := by
  constructor
  · rintro ⟨b, hb⟩
    rw [h.mateOf_eq hb]
    exact fun e => h.ne_of_inM hb e.symm
  · intro hne
    exact ⟨_, inM_of_mateOf_ne N a hne⟩

/-- `mateOf` is an involution -/
theorem Mat.mateOf_mateOf {g : MGraph} {N : List (Nat × Nat)} (h : Mat g N) (a : Nat) :
    mateOf N (mateOf N a) = a := by
  by_cases hne : mateOf N a = a
  · rw [hne, hne]
  · exact h.mateOf_eq (inM_of_mateOf_ne N a hne).symm

/-! ### a duplicate-free list closed under a fixed-point-free involution has even length -/

theorem even_of_involution (f : Nat → Nat) : ∀ (n : Nat) (l : List Nat), l.length = n → l.Nodup →
    (∀ a ∈ l, f a ∈ l ∧ f a ≠ a ∧ f (f a) = a) → n % 2 = 0 := by
  intro n
  induction n using Nat.strongRecOn with
  | _ n ih =>
    intro l hlen hnd hcl
    cases l with
    | nil => simp at hlen; omega
    | cons a r =>
      obtain ⟨har, hr⟩ := List.nodup_cons.mp hnd
      obtain ⟨hfa, hfne, hffa⟩ := hcl a (List.mem_cons_self ..)
      have hfar : f a ∈ r := by
        rcases List.mem_cons.mp hfa with h | h
        · exact absurd h hfne
        · exact h
      have hlen' : (r.erase (f a)).length = r.length - 1 := List.length_erase_of_mem hfar
      have hrpos : 0 < r.length := List.length_pos_of_mem hfar
      simp only [List.length_cons] at hlen
      have := ih (r.erase (f a)).length (by omega) (r.erase (f a)) rfl (hr.erase _) (by
        intro x hx
        obtain ⟨hxne, hxr⟩ := (hr.mem_erase_iff).mp hx
        obtain ⟨h1, h2, h3⟩ := hcl x (List.mem_cons_of_mem _ hxr)
        refine ⟨?_, h2, h3⟩
        rw [hr.mem_erase_iff]
        have hxa : x ≠ a := fun e => har (e ▸ hxr)
        refine ⟨?_, ?_⟩
        · intro e
          -- f x = f a, so x = f (f x) = f (f a) = a
          apply hxa
          rw [← h3, e, hffa]
        · rcases List.mem_cons.mp h1 with h | h
          · -- f x = a, so x = f (f x) = f a
            exact absurd (by rw [← h3, h]) hxne
          · exact h)
      omega

/-! ### the counting core -/

/-- **blocks count**: `S` is split into blocks by `β`, every neighbour of a node of `S` is in the same
block or in `T`; then the number of listed odd blocks is at most `|T|` plus the number of nodes of `S`
that `N` leaves uncovered (`mateOf N a = a`) -/
theorem blocks_count (g : MGraph) (N : List (Nat × Nat)) (hN : IsMatching g N)
    (S T : List Nat) (hS : S.Nodup) (β : Nat → Nat)
    (hcl : ∀ a ∈ S, ∀ b, Joined g a b → (b ∈ S ∧ β b = β a) ∨ b ∈ T)
    (ids : List Nat) (hids : ids.Nodup)
    (hodd : ∀ i ∈ ids, (S.filter fun x => β x == i).length % 2 = 1) :
    ids.length ≤ T.length + (S.filter fun a => mateOf N a == a).length := by
  have hM := mat_of_isMatching hN
  have hsub : ids ⊆ (T ++ S.filter fun a => mateOf N a == a).map (fun x => β (mateOf N x)) := by
    intro i hi
    apply Classical.byContradiction
    intro hnot
    have hnot' : ∀ x, (x ∈ T ∨ (x ∈ S ∧ mateOf N x = x)) → β (mateOf N x) ≠ i := by
      intro x hx e
      apply hnot
      refine List.mem_map.mpr ⟨x, ?_, e⟩
      rcases hx with hx | hx
      · exact List.mem_append.mpr (Or.inl hx)
      · exact List.mem_append.mpr (Or.inr (List.mem_filter.mpr ⟨hx.1, by simpa using hx.2⟩))
    have hev := even_of_involution (mateOf N) _ (S.filter fun x => β x == i) rfl
      (hS.sublist List.filter_sublist) (by
        intro a ha
        obtain ⟨haS, hai⟩ := List.mem_filter.mp ha
        have hai : β a = i := by simpa using hai
        have hmv : mateOf N a ≠ a := by
          intro e
          exact hnot' a (Or.inr ⟨haS, e⟩) (by rw [e]; exact hai)
        have hj : Joined g a (mateOf N a) := hM.joined _ _ (inM_of_mateOf_ne N a hmv)
        refine ⟨?_, hmv, hM.mateOf_mateOf a⟩
        rcases hcl a haS _ hj with ⟨h1, h2⟩ | h
        · exact List.mem_filter.mpr ⟨h1, by simpa using h2.trans hai⟩
        · exact absurd (by rw [hM.mateOf_mateOf a]; exact hai) (hnot' _ (Or.inl h)))
    have := hodd i hi
    omega
  have := hids.length_le_of_subset hsub
  simpa using this

/-- if `S` is split into blocks by `β`, neighbours of `S` are in the same block or in `T`, and more than `|T|` of the
listed blocks are odd, then every matching misses a node of `S` -/
theorem odd_blocks_miss (g : MGraph) (N : List (Nat × Nat)) (hN : IsMatching g N)
    (S T : List Nat) (hS : S.Nodup) (hT : T.Nodup) (β : Nat → Nat)
    (hcl : ∀ a ∈ S, ∀ b, Joined g a b → (b ∈ S ∧ β b = β a) ∨ b ∈ T)
    (ids : List Nat) (hids : ids.Nodup)
    (hodd : ∀ i ∈ ids, (S.filter fun x => β x == i).length % 2 = 1)
    (hlt : T.length < ids.length) : ∃ a ∈ S, ¬ Covered N a := by
  have _ := hT  -- not needed (the statement is fixed by its users); `S ∩ T` may be non-empty as well
  have hM := mat_of_isMatching hN
  have hc := blocks_count g N hN S T hS β hcl ids hids hodd
  have hpos : 0 < (S.filter fun a => mateOf N a == a).length := by omega
  obtain ⟨a, ha⟩ := List.exists_mem_of_length_pos hpos
  obtain ⟨haS, hfix⟩ := List.mem_filter.mp ha
  have hfix : mateOf N a = a := by simpa using hfix
  exact ⟨a, haS, fun hcov => (hM.covered_iff a).mp hcov hfix⟩

/-! ### the end nodes of a matching -/

def endpoints : List (Nat × Nat) → List Nat
  | [] => []
  | p :: r => p.1 :: p.2 :: endpoints r

theorem endpoints_length : ∀ N : List (Nat × Nat), (endpoints N).length = 2 * N.length
  | [] => rfl
  | p :: r => by simp only [endpoints, List.length_cons, endpoints_length r]; omega

theorem mem_endpoints : ∀ (N : List (Nat × Nat)) (x : Nat),
    x ∈ endpoints N ↔ ∃ p ∈ N, x = p.1 ∨ x = p.2
  | [], x => by simp [endpoints]
  | p :: r, x => by
    simp only [endpoints, List.mem_cons, mem_endpoints r x]
    constructor
    · rintro (h | h | ⟨q, hq, h⟩)
      · exact ⟨p, Or.inl rfl, Or.inl h⟩
      · exact ⟨p, Or.inl rfl, Or.inr h⟩
      · exact ⟨q, Or.inr hq, h⟩
    · rintro ⟨q, hq | hq, h⟩
      · subst hq
        rcases h with h | h
        · exact Or.inl h
        · exact Or.inr (Or.inl h)
      · exact Or.inr (Or.inr ⟨q, hq, h⟩)

theorem endpoints_nodup : ∀ N : List (Nat × Nat), (∀ p ∈ N, p.1 ≠ p.2) → N.Pairwise Disjoint2 →
    (endpoints N).Nodup
  | [], _, _ => List.nodup_nil
  | p :: r, hne, hd => by
    obtain ⟨hd1, hd2⟩ := List.pairwise_cons.mp hd
    have ih := endpoints_nodup r (fun q hq => hne q (List.mem_cons_of_mem _ hq)) hd2
    have hp : p.1 ≠ p.2 := hne p (List.mem_cons_self ..)
    simp only [endpoints, List.nodup_cons, List.mem_cons, not_or]
    refine ⟨⟨hp, ?_⟩, ?_, ih⟩
    · intro hx
      obtain ⟨q, hq, h⟩ := (mem_endpoints r _).mp hx
      have := hd1 q hq
      rcases h with h | h
      · exact this.1 h
      · exact this.2.1 h
    · intro hx
      obtain ⟨q, hq, h⟩ := (mem_endpoints r _).mp hx
      have := hd1 q hq
      rcases h with h | h
      · exact this.2.2.1 h
      · exact this.2.2.2 h

theorem covered_of_mem_endpoints {N : List (Nat × Nat)} {x : Nat} (h : x ∈ endpoints N) :
    Covered N x := by
  obtain ⟨p, hp, h⟩ := (mem_endpoints N x).mp h
  rcases h with h | h
  · exact ⟨p.2, Or.inl (by rw [h]; exact hp)⟩
  · exact ⟨p.1, Or.inr (by rw [h]; exact hp)⟩

/-- the nodes that a matching leaves uncovered: `2|N| + #uncovered ≤ |V|`, for any duplicate-free list
`U` of uncovered nodes -/
theorem uncovered_count (g : MGraph) (hwf : g.WellFormed) (N : List (Nat × Nat)) (hN : IsMatching g N)
    (U : List Nat) (hU : U.Nodup) (hUsub : ∀ a ∈ U, a ∈ g.nodes) (hUfix : ∀ a ∈ U, mateOf N a = a) :
    2 * N.length + U.length ≤ g.nodes.length := by
  have hM := mat_of_isMatching hN
  have hnd : (endpoints N ++ U).Nodup := by
    rw [List.nodup_append]
    refine ⟨endpoints_nodup N hM.ne hM.dis, hU, ?_⟩
    intro a ha b hb e
    have h1 := (hM.covered_iff a).mp (covered_of_mem_endpoints ha)
    exact h1 (e ▸ hUfix b hb)
  have hsub : endpoints N ++ U ⊆ g.nodes := by
    intro x hx
    rcases List.mem_append.mp hx with hx | hx
    · obtain ⟨p, hp, h⟩ := (mem_endpoints N x).mp hx
      obtain ⟨_, e, he, hh⟩ := hN.1 p hp
      have := hwf.2 e he
      rcases h with h | h <;> rcases hh with ⟨h1, h2⟩ | ⟨h1, h2⟩
      · rw [h, ← h1]; exact this.1
      · rw [h, ← h2]; exact this.2
      · rw [h, ← h2]; exact this.2
      · rw [h, ← h1]; exact this.1
    · exact hUsub x hx
  have := hnd.length_le_of_subset hsub
  rw [List.length_append, endpoints_length] at this
  exact this

/-! ### Tutte–Berge, easy direction -/

/-- Tutte–Berge, easy direction, in "blocks" form: let the nodes outside `A` be labelled so that no non-loop edge joins
two nodes outside `A` with different labels (e.g. by connected component of G − A); then every matching `N` leaves at
least `odd − |A|` nodes uncovered, i.e. 2|N| + odd ≤ |V| + |A| -/
theorem tutte_berge_easy (g : MGraph) (hwf : g.WellFormed) (N : List (Nat × Nat)) (hN : IsMatching g N)
    (A : List Nat) (hA : A.Nodup) (hAsub : ∀ a ∈ A, a ∈ g.nodes) (lab : Nat → Nat)
    (hlab : ∀ a b, Joined g a b → a ∉ A → b ∉ A → lab a = lab b)
    (labels : List Nat) (hlabels : labels.Nodup)
    (hodd : ∀ ℓ ∈ labels, (g.nodes.filter fun x => decide (x ∉ A) && lab x == ℓ).length % 2 = 1) :
    2 * N.length + labels.length ≤ g.nodes.length + A.length := by
  have _ := hA     -- neither hypothesis on `A` is needed for the inequality (the statement is fixed)
  have _ := hAsub
  let S := g.nodes.filter fun x => decide (x ∉ A)
  have hS : S.Nodup := hwf.1.sublist List.filter_sublist
  have hmemS : ∀ x, x ∈ S ↔ x ∈ g.nodes ∧ x ∉ A := by
    intro x
    simp only [S, List.mem_filter, decide_eq_true_eq]
  have hcl : ∀ a ∈ S, ∀ b, Joined g a b → (b ∈ S ∧ lab b = lab a) ∨ b ∈ A := by
    intro a ha b hj
    by_cases hb : b ∈ A
    · exact Or.inr hb
    · left
      have hbn : b ∈ g.nodes := by
        obtain ⟨_, e, he, hh⟩ := hj
        have := hwf.2 e he
        rcases hh with ⟨_, h2⟩ | ⟨h1, _⟩
        · rw [← h2]; exact this.2
        · rw [← h1]; exact this.1
      exact ⟨(hmemS b).mpr ⟨hbn, hb⟩, (hlab a b hj ((hmemS a).mp ha).2 hb).symm⟩
  have hodd' : ∀ ℓ ∈ labels, (S.filter fun x => lab x == ℓ).length % 2 = 1 := by
    intro ℓ hℓ
    have h := hodd ℓ hℓ
    have e : (S.filter fun x => lab x == ℓ) = g.nodes.filter fun x => decide (x ∉ A) && lab x == ℓ := by
      simp only [S, List.filter_filter]
      apply List.filter_congr
      intro x _
      exact Bool.and_comm _ _
    rw [e]; exact h
  have h1 := blocks_count g N hN S A hS lab hcl labels hlabels hodd'
  have h2 := uncovered_count g hwf N hN (S.filter fun a => mateOf N a == a)
    (hS.sublist List.filter_sublist)
    (fun a ha => ((hmemS a).mp (List.mem_filter.mp ha).1).1)
    (fun a ha => by simpa using (List.mem_filter.mp ha).2)
  omega

/-! ### soundness of the executable checks -/

theorem disjoint2B_iff (p q : Nat × Nat) : disjoint2B p q = true ↔ Disjoint2 p q := by
  simp only [disjoint2B, Disjoint2, Bool.and_eq_true, bne_iff_ne, ne_eq, and_assoc]

theorem pairwiseDisjointB_iff : ∀ M : List (Nat × Nat),
    pairwiseDisjointB M = true ↔ M.Pairwise Disjoint2
  | [] => by simp [pairwiseDisjointB]
  | p :: r => by
    simp only [pairwiseDisjointB, Bool.and_eq_true, List.all_eq_true, List.pairwise_cons,
      pairwiseDisjointB_iff r, disjoint2B_iff]

/-- `isMatchingB` decides `IsMatching` -/
theorem isMatchingB_iff (g : MGraph) (M : List (Nat × Nat)) : isMatchingB g M = true ↔ IsMatching g M := by
  simp only [isMatchingB, IsMatching, Joined, Bool.and_eq_true, List.all_eq_true,
    C15P.joinedInB_iff, pairwiseDisjointB_iff]

theorem wfGraphB_sound (g : MGraph) (h : wfGraphB g = true) : g.WellFormed := by
  simp only [wfGraphB, Bool.and_eq_true, List.all_eq_true, List.contains_eq_mem,
    decide_eq_true_eq] at h
  exact ⟨C15P.nodupB_nodup _ h.1, h.2⟩

theorem mem_dedupNat : ∀ (l : List Nat) (x : Nat), x ∈ dedupNat l ↔ x ∈ l
  | [], x => by simp [dedupNat]
  | y :: ys, x => by
    simp only [dedupNat]
    split
    · rename_i h
      have hy : y ∈ ys := (mem_dedupNat ys y).mp (by simpa using h)
      rw [mem_dedupNat ys x, List.mem_cons]
      constructor
      · exact Or.inr
      · rintro (h | h)
        · exact h ▸ hy
        · exact h
    · simp only [List.mem_cons, mem_dedupNat ys x]

theorem dedupNat_nodup : ∀ l : List Nat, (dedupNat l).Nodup
  | [] => List.nodup_nil
  | y :: ys => by
    simp only [dedupNat]
    split
    · exact dedupNat_nodup ys
    · rename_i h
      exact List.nodup_cons.mpr ⟨by simpa using h, dedupNat_nodup ys⟩

theorem oddLabels_nodup (g : MGraph) (A : List Nat) (lab : Nat → Nat) : (oddLabels g A lab).Nodup :=
  (dedupNat_nodup _).sublist List.filter_sublist

theorem oddLabels_odd (g : MGraph) (A : List Nat) (lab : Nat → Nat) :
    ∀ ℓ ∈ oddLabels g A lab,
      (g.nodes.filter fun x => decide (x ∉ A) && lab x == ℓ).length % 2 = 1 := by
  intro ℓ hℓ
  have h := (List.mem_filter.mp hℓ).2
  simp only [beq_iff_eq] at h
  have e : ((outside g A).filter fun x => lab x == ℓ) =
      g.nodes.filter fun x => decide (x ∉ A) && lab x == ℓ := by
    simp only [outside, List.filter_filter]
    apply List.filter_congr
    intro x _
    rw [Bool.and_comm]
    simp
  rw [← e]; exact h

theorem labelsClosedB_sound (g : MGraph) (A : List Nat) (lab : Nat → Nat)
    (h : labelsClosedB g A lab = true) :
    ∀ a b, Joined g a b → a ∉ A → b ∉ A → lab a = lab b := by
  intro a b hj ha hb
  obtain ⟨hne, e, he, hh⟩ := hj
  have := List.all_eq_true.mp h e he
  simp only [Bool.or_eq_true, beq_iff_eq, List.contains_eq_mem, decide_eq_true_eq] at this
  rcases hh with ⟨h1, h2⟩ | ⟨h1, h2⟩
  · rw [h1, h2] at this
    rcases this with ((h | h) | h) | h
    · exact absurd h hne
    · exact absurd h ha
    · exact absurd h hb
    · exact h
  · rw [h1, h2] at this
    rcases this with ((h | h) | h) | h
    · exact absurd h.symm hne
    · exact absurd h hb
    · exact absurd h ha
    · exact h.symm

/-- **the certificate checker accepts only maximum matchings** (for every labelling `lab`) -/
theorem checkBarrierWith_sound (g : MGraph) (M : List (Nat × Nat)) (A : List Nat) (lab : Nat → Nat)
    (h : checkBarrierWith g M A lab = true) : IsMaximumMatching g M := by
  simp only [checkBarrierWith, Bool.and_eq_true, decide_eq_true_eq] at h
  obtain ⟨⟨⟨⟨⟨hwf, hM⟩, hA⟩, hAsub⟩, hcl⟩, hle⟩ := h
  have hwf := wfGraphB_sound g hwf
  refine ⟨(isMatchingB_iff g M).mp hM, ?_⟩
  intro M' hM'
  have hAsub' : ∀ a ∈ A, a ∈ g.nodes := by
    intro a ha
    have := List.all_eq_true.mp hAsub a ha
    simpa using this
  have := tutte_berge_easy g hwf M' hM' A (C15P.nodupB_nodup _ hA) hAsub' lab
    (labelsClosedB_sound g A lab hcl) (oddLabels g A lab) (oddLabels_nodup g A lab)
    (oddLabels_odd g A lab)
  omega

theorem checkBarrier_sound (g : MGraph) (M : List (Nat × Nat)) (A : List Nat)
    (h : checkBarrier g M A = true) : IsMaximumMatching g M :=
  checkBarrierWith_sound g M A _ h

/-- an accepted `findBarrier` answer certifies a maximum matching -/
theorem findBarrier_sound (g : MGraph) (M : List (Nat × Nat)) (A : List Nat)
    (h : findBarrier g M = some A) : IsMaximumMatching g M := by
  unfold findBarrier at h
  exact checkBarrier_sound g M A (List.find?_some h)

/-- an accepted certificate pins the size: `|M|` is the exhaustive-search number `maxMatchingSize g` -/
theorem checkBarrier_size (g : MGraph) (M : List (Nat × Nat)) (A : List Nat)
    (h : checkBarrier g M A = true) : M.length = maxMatchingSize g := by
  obtain ⟨hM, hmax⟩ := checkBarrier_sound g M A h
  obtain ⟨M0, hM0, hlen⟩ := C15P.maxMatchingSize_attained g
  have h1 := C15P.maxMatchingSize_upper g M hM
  have h2 := hmax M0 hM0
  omega

/-! ### non-vacuity: the checker accepts and rejects -/

/-- test graph on nodes `0..n-1` -/
def tg (n : Nat) (es : List (Nat × Nat)) : MGraph :=
  { directed := false, nodes := List.range n, edges := es.map fun p => ⟨0, p.1, p.2, 1⟩ }

-- triangle, one pair, empty barrier (one odd component)
example : checkBarrier (tg 3 [(0, 1), (1, 2), (2, 0)]) [(0, 1)] [] = true := by decide
-- star K_{1,3}: barrier = the centre (three odd components)
example : checkBarrier (tg 4 [(0, 1), (0, 2), (0, 3)]) [(0, 1)] [0] = true := by decide
-- … the empty barrier does not certify it
example : checkBarrier (tg 4 [(0, 1), (0, 2), (0, 3)]) [(0, 1)] [] = false := by decide
-- path on 4 nodes, perfect matching, empty barrier
example : checkBarrier (tg 4 [(0, 1), (1, 2), (2, 3)]) [(0, 1), (2, 3)] [] = true := by decide
-- a maximal but not maximum matching of the path is rejected, for every barrier
example : checkBarrier (tg 4 [(0, 1), (1, 2), (2, 3)]) [(1, 2)] [] = false := by decide
example : findBarrier (tg 4 [(0, 1), (1, 2), (2, 3)]) [(1, 2)] = none := by decide
-- a non-matching is rejected
example : checkBarrier (tg 3 [(0, 1), (1, 2), (2, 0)]) [(0, 1), (1, 2)] [] = false := by decide
-- loops and parallel edges; two triangles sharing node 2 (barrier [2] leaves two even components: empty barrier works)
example : checkBarrier (tg 5 [(0, 1), (1, 2), (2, 0), (2, 3), (3, 4), (4, 2), (1, 1), (0, 1)])
    [(0, 1), (3, 4)] [] = true := by decide
-- node 9 joined to three triangles: the barrier [9] leaves three odd components, [] does not certify
example : checkBarrier (tg 10 [(0, 1), (1, 2), (2, 0), (3, 4), (4, 5), (5, 3), (6, 7), (7, 8), (8, 6),
    (9, 0), (9, 3), (9, 6)]) [(1, 2), (3, 4), (7, 8), (9, 0)] [9] = true := by decide
example : checkBarrier (tg 10 [(0, 1), (1, 2), (2, 0), (3, 4), (4, 5), (5, 3), (6, 7), (7, 8), (8, 6),
    (9, 0), (9, 3), (9, 6)]) [(1, 2), (3, 4), (7, 8), (9, 0)] [] = false := by decide
example : IsMaximumMatching (tg 3 [(0, 1), (1, 2), (2, 0)]) [(0, 1)] :=
  checkBarrier_sound _ _ [] (by decide)

/-
Sanity sweep (run by hand with `lake env lean`, not part of the build).  Tutte–Berge (the hard direction,
not proved here) says that a barrier exists for every maximum matching, so `findBarrier` must succeed
on every maximum matching; by `checkBarrier_sound` it can never succeed on another one.

```
def mkG (n : Nat) (es : List (Nat × Nat)) : MGraph :=
  { directed := false, nodes := List.range n, edges := es.zipIdx.map fun (p, i) => ⟨i, p.1, p.2, 1⟩ }
def allPairs (n : Nat) : List (Nat × Nat) :=          -- `i ≤ j`: with loops
  (List.range n).flatMap fun i => (List.range n).filterMap fun j => if i ≤ j then some (i, j) else none
def subsets {α} : List α → List (List α)
  | [] => [[]]
  | x :: xs => let r := subsets xs; r ++ r.map (x :: ·)
def allMatchings (g : MGraph) : List (List (Nat × Nat)) :=
  (subsets (g.edges.map fun e => (e.src, e.tgt))).filter fun M => isMatchingB g M
-- (graphs, maximum matchings certified, maximum matchings without barrier, non-maximum accepted)
def sweep (n : Nat) (withLoops : Bool) : Nat × Nat × Nat × Nat := Id.run do
  let mut graphs := 0; let mut maxOk := 0; let mut maxFail := 0; let mut nonMaxAccepted := 0
  for es in subsets ((allPairs n).filter fun p => withLoops || p.1 != p.2) do
    let g := mkG n es
    graphs := graphs + 1
    let ms := allMatchings g
    let best := ms.foldl (fun b M => max b M.length) 0
    if best != maxMatchingSize g then maxFail := maxFail + 1000000
    for M in ms do
      match findBarrier g M, M.length == best with
      | some _, true => maxOk := maxOk + 1
      | none, true => maxFail := maxFail + 1
      | some _, false => nonMaxAccepted := nonMaxAccepted + 1
      | none, false => pure ()
  return (graphs, maxOk, maxFail, nonMaxAccepted)
#eval sweep 1 true    -- (2, 2, 0, 0)
#eval sweep 2 true    -- (8, 8, 0, 0)
#eval sweep 3 true    -- (64, 104, 0, 0)
#eval sweep 4 true    -- (1024, 1648, 0, 0)        all graphs on 4 nodes with loops
#eval sweep 5 false   -- (1024, 4021, 0, 0)        all loop-free graphs on 5 nodes; 7 s in total
```
With one maximum matching per graph (exhaustive search) instead of all of them:
all 32768 loop-free graphs on 6 nodes: 32768 certified, 0 without barrier (6 s);
all 2097152 loop-free graphs on 7 nodes: 2097152 certified, 0 without barrier (9 min, interpreter).
(the one-per-graph sweep: `bestMatching` = the matching found by the recursion of `maxMatch`; `findBarrier g M`
must be `some _` for every edge subset of `allPairs n` with `i < j`)
-/

end PetgraphModel.C15W5

section Axioms
open PetgraphModel.C15W5
#print axioms blocks_count
#print axioms odd_blocks_miss
#print axioms tutte_berge_easy
#print axioms isMatchingB_iff
#print axioms checkBarrierWith_sound
#print axioms checkBarrier_sound
#print axioms findBarrier_sound
#print axioms checkBarrier_size
end Axioms
