import PetgraphModel.Proofs.C20W2Tred
import PetgraphModel.Proofs.C20TredModel
/-
C20 (wave 3) — `dag_to_toposorted_adjacency_list`: the `revmap` clause (the returned map is the
inverse of the toposort), and the END-TO-END corollary: for a DAG view,
`dag_to_toposorted_adjacency_list` followed by `dag_transitive_reduction_closure`, mapped back through
`revmap` (equivalently: through the toposort), is exactly `Reach1` (closure) and the covering
relation (reduction) of the abstract graph.
-/
namespace PetgraphModel.C20.Tred
open PetgraphModel PetgraphModel.MGraph

/-! ### the `revmap` clause -/

/-- for ANY predecessor function whose values come earlier in the toposort: `revmap` has `bound`
entries and sends the `j`-th node of the toposort to `j` -/
theorem toposorted_revmap_rows (pred : Nat → List Nat) (bound : Nat) (topo : List Nat) (hnd : topo.Nodup)
    (hb : ∀ x ∈ topo, x < bound)
    (hp : ∀ old ∈ topo, ∀ p ∈ pred old, topo.idxOf p < topo.idxOf old) :
    (toposorted pred id bound topo).2.length = bound ∧
    ∀ j (h : j < topo.length), (toposorted pred id bound topo).2.getD topo[j] 0 = j := by
  have := tinv_prefix pred bound topo hnd hb hp topo.length (Nat.le_refl _)
  rw [List.take_length] at this
  rw [toposorted_eq]
  exact ⟨this.rlen, fun j h => this.rev j h h⟩

theorem unrank_idxOf {topo : List Nat} {x : Nat} (hx : x ∈ topo) : unrank topo (topo.idxOf x) = x := by
  have hl : topo.idxOf x < topo.length := List.idxOf_lt_length_iff.mpr hx
  unfold unrank
  rw [List.getD_eq_getElem?_getD, List.getElem?_eq_getElem hl]
  exact List.getElem_idxOf hl

theorem idxOf_unrank {topo : List Nat} (hnd : topo.Nodup) {i : Nat} (hi : i < topo.length) :
    topo.idxOf (unrank topo i) = i := by
  unfold unrank
  rw [List.getD_eq_getElem?_getD, List.getElem?_eq_getElem hi]
  exact hnd.idxOf_getElem i hi

theorem unrank_mem {topo : List Nat} {i : Nat} (hi : i < topo.length) : unrank topo i ∈ topo := by
  unfold unrank
  rw [List.getD_eq_getElem?_getD, List.getElem?_eq_getElem hi]
  exact List.getElem_mem hi

/-- the hypotheses under which `dag_to_toposorted_adjacency_list` is called: a directed view whose
`Incoming` neighbour iteration describes the abstract graph, handed a toposort of its nodes; node ids
are below `node_bound()` -/
structure DagInput (v : View) (topo : List Nat) : Prop where
  directed : v.g.directed = true
  nodup : topo.Nodup
  mem : ∀ x, x ∈ topo ↔ x ∈ v.g.nodes
  pred : ∀ a, sameSet (v.pred a) (v.g.pred a) = true
  fwd : ∀ e ∈ v.g.edges, topo.idxOf e.src < topo.idxOf e.tgt
  small : ∀ x ∈ v.g.nodes, x < v.g.nodes.length
  endpoints : EndpointsOk v.g

theorem DagInput.hp {v : View} {topo : List Nat} (h : DagInput v topo) :
    ∀ old ∈ topo, ∀ p ∈ v.pred old, topo.idxOf p < topo.idxOf old := by
  intro old _ p hpm
  obtain ⟨e, he, h1, h2⟩ := mem_pred_directed h.directed ((sameSet_perm (h.pred old)).subset hpm)
  rw [← h1, ← h2]
  exact h.fwd e he

/-- **the `revmap` clause of `dag_to_toposorted_adjacency_list`**: the returned `revmap` has
`node_bound()` entries, sends every node to its rank in the toposort, and is inverted by the toposort
(`unrank`): `topo[revmap[x]] = x` for every node, `revmap[topo[i]] = i` for every rank. -/
theorem toposorted_revmap (v : View) (topo : List Nat) (h : DagInput v topo) :
    let revmap := (toposorted v.pred id v.g.nodes.length topo).2
    revmap.length = v.g.nodes.length ∧
    (∀ x ∈ v.g.nodes, revmap.getD x 0 = topo.idxOf x ∧ unrank topo (revmap.getD x 0) = x) ∧
    (∀ i, i < topo.length → revmap.getD (unrank topo i) 0 = i) := by
  have hr := toposorted_revmap_rows v.pred v.g.nodes.length topo h.nodup
    (fun x hx => h.small x ((h.mem x).mp hx)) h.hp
  intro revmap
  have hidx : ∀ x ∈ v.g.nodes, revmap.getD x 0 = topo.idxOf x := by
    intro x hx
    have hxt : x ∈ topo := (h.mem x).mpr hx
    have hl : topo.idxOf x < topo.length := List.idxOf_lt_length_iff.mpr hxt
    have := hr.2 (topo.idxOf x) hl
    rw [List.getElem_idxOf hl] at this
    exact this
  refine ⟨hr.1, fun x hx => ⟨hidx x hx, ?_⟩, fun i hi => ?_⟩
  · rw [hidx x hx]
    exact unrank_idxOf ((h.mem x).mpr hx)
  · rw [hidx _ ((h.mem _).mp (unrank_mem hi))]
    exact idxOf_unrank h.nodup hi

/-! ### the renumbered rows are the abstract graph, renumbered -/

theorem adj_directed {g : MGraph} (hd : g.directed = true) {u w : Nat} :
    g.Adj u w ↔ ∃ e ∈ g.edges, e.src = u ∧ e.tgt = w := by
  unfold MGraph.Adj
  constructor
  · rintro ⟨e, he, h | ⟨h0, _⟩⟩
    · exact ⟨e, he, h⟩
    · rw [hd] at h0; cases h0
  · rintro ⟨e, he, h⟩
    exact ⟨e, he, Or.inl h⟩

/-- membership in a row of the renumbered adjacency list -/
theorem mem_rows (v : View) (topo : List Nat) (h : DagInput v topo) (i x : Nat) :
    x ∈ (toposorted v.pred id v.g.nodes.length topo).1.getD i [] ↔
      ∃ e ∈ v.g.edges, topo.idxOf e.src = i ∧ topo.idxOf e.tgt = x := by
  have hc := (toposorted_correct v topo h.directed h.nodup h.mem h.pred h.fwd h.small
    (fun e he => (h.endpoints e he).2)).2.2 i x
  rw [← List.count_pos_iff, hc, List.length_pos_iff_exists_mem]
  constructor
  · rintro ⟨e, he⟩
    obtain ⟨h1, h2⟩ := List.mem_filter.mp he
    exact ⟨e, h1, by simpa using h2⟩
  · rintro ⟨e, h1, h2⟩
    exact ⟨e, List.mem_filter.mpr ⟨h1, by simpa using h2⟩⟩

theorem rows_spec (v : View) (topo : List Nat) (h : DagInput v topo) :
    let rows := (toposorted v.pred id v.g.nodes.length topo).1
    rows.length = topo.length ∧ (∀ i x, x ∈ rows.getD i [] → i < x) ∧
    (∀ i, ascending (rows.getD i []) = true) := by
  have hc := toposorted_correct v topo h.directed h.nodup h.mem h.pred h.fwd h.small
    (fun e he => (h.endpoints e he).2)
  intro rows
  refine ⟨hc.1, fun i x hx => ?_, hc.2.1⟩
  obtain ⟨e, he, h1, h2⟩ := (mem_rows v topo h i x).mp hx
  rw [← h1, ← h2]
  exact h.fwd e he

/-- an edge of the renumbered graph is an edge of the abstract graph between the nodes of those ranks -/
theorem rows_adj (v : View) (topo : List Nat) (h : DagInput v topo) (i x : Nat) :
    (rowsGraph (toposorted v.pred id v.g.nodes.length topo).1).Adj i x ↔
      i < topo.length ∧ x < topo.length ∧ v.g.Adj (unrank topo i) (unrank topo x) := by
  rw [rowsGraph_adj, mem_rows v topo h, adj_directed h.directed]
  constructor
  · rintro ⟨e, he, h1, h2⟩
    have hs : e.src ∈ topo := (h.mem _).mpr (h.endpoints e he).1
    have ht : e.tgt ∈ topo := (h.mem _).mpr (h.endpoints e he).2
    refine ⟨h1 ▸ List.idxOf_lt_length_iff.mpr hs, h2 ▸ List.idxOf_lt_length_iff.mpr ht, e, he, ?_, ?_⟩
    · rw [← h1]; exact (unrank_idxOf hs).symm
    · rw [← h2]; exact (unrank_idxOf ht).symm
  · rintro ⟨hi, hx, e, he, h1, h2⟩
    refine ⟨e, he, ?_, ?_⟩
    · rw [h1]; exact idxOf_unrank h.nodup hi
    · rw [h2]; exact idxOf_unrank h.nodup hx

theorem adj_rows (v : View) (topo : List Nat) (h : DagInput v topo) {u w : Nat} (hadj : v.g.Adj u w) :
    (rowsGraph (toposorted v.pred id v.g.nodes.length topo).1).Adj (topo.idxOf u) (topo.idxOf w) := by
  rw [rowsGraph_adj, mem_rows v topo h]
  obtain ⟨e, he, h1, h2⟩ := (adj_directed h.directed).mp hadj
  exact ⟨e, he, by rw [h1], by rw [h2]⟩

theorem reach1_rows_to_g (v : View) (topo : List Nat) (h : DagInput v topo) {i x : Nat}
    (hr : Reach1 (rowsGraph (toposorted v.pred id v.g.nodes.length topo).1) i x) :
    i < topo.length ∧ x < topo.length ∧ Reach1 v.g (unrank topo i) (unrank topo x) := by
  induction hr with
  | single hadj =>
    obtain ⟨h1, h2, h3⟩ := (rows_adj v topo h _ _).mp hadj
    exact ⟨h1, h2, Reach1.single h3⟩
  | step _ hadj ih =>
    obtain ⟨_, h2, h3⟩ := (rows_adj v topo h _ _).mp hadj
    exact ⟨ih.1, h2, Reach1.step ih.2.2 h3⟩

theorem reach1_g_to_rows (v : View) (topo : List Nat) (h : DagInput v topo) {u w : Nat}
    (hr : Reach1 v.g u w) :
    Reach1 (rowsGraph (toposorted v.pred id v.g.nodes.length topo).1) (topo.idxOf u) (topo.idxOf w) := by
  induction hr with
  | single hadj => exact Reach1.single (adj_rows v topo h hadj)
  | step _ hadj ih => exact Reach1.step ih (adj_rows v topo h hadj)

/-- reachability by ≥ 1 edge, renumbered -/
theorem reach1_rows_iff (v : View) (topo : List Nat) (h : DagInput v topo) (i x : Nat) :
    Reach1 (rowsGraph (toposorted v.pred id v.g.nodes.length topo).1) i x ↔
      i < topo.length ∧ x < topo.length ∧ Reach1 v.g (unrank topo i) (unrank topo x) := by
  constructor
  · exact reach1_rows_to_g v topo h
  · rintro ⟨hi, hx, hr⟩
    have := reach1_g_to_rows v topo h hr
    rwa [idxOf_unrank h.nodup hi, idxOf_unrank h.nodup hx] at this

/-- the covering relation, renumbered -/
theorem covers_rows_iff (v : View) (topo : List Nat) (h : DagInput v topo) (i x : Nat) :
    Covers (rowsGraph (toposorted v.pred id v.g.nodes.length topo).1) i x ↔
      i < topo.length ∧ x < topo.length ∧ Covers v.g (unrank topo i) (unrank topo x) := by
  unfold Covers
  constructor
  · rintro ⟨hr, hno⟩
    obtain ⟨hi, hx, hg⟩ := (reach1_rows_iff v topo h i x).mp hr
    refine ⟨hi, hx, hg, ?_⟩
    rintro ⟨w, h1, h2⟩
    apply hno
    refine ⟨topo.idxOf w, ?_, ?_⟩
    · have := reach1_g_to_rows v topo h h1
      rwa [idxOf_unrank h.nodup hi] at this
    · have := reach1_g_to_rows v topo h h2
      rwa [idxOf_unrank h.nodup hx] at this
  · rintro ⟨hi, hx, hg, hno⟩
    refine ⟨(reach1_rows_iff v topo h i x).mpr ⟨hi, hx, hg⟩, ?_⟩
    rintro ⟨w, h1, h2⟩
    apply hno
    exact ⟨unrank topo w, ((reach1_rows_iff v topo h _ _).mp h1).2.2, ((reach1_rows_iff v topo h _ _).mp h2).2.2⟩

/-! ### end to end -/

/-- rows with their indices, the format of the judge (`TredAnswer`) -/
def indexed (rows : List (List Nat)) : List (Nat × List Nat) :=
  (List.range rows.length).map fun i => (i, rows.getD i [])

/-- the answer of the two mirrored functions run one after the other, in the judge's format -/
def modelAnswer (v : View) (topo : List Nat) : TredAnswer :=
  let tr := toposorted v.pred id v.g.nodes.length topo
  let rc := reductionClosure tr.1
  { revmap := v.g.nodes.map fun x => (x, tr.2.getD x 0), res := indexed tr.1, red := indexed rc.1, clo := indexed rc.2 }

theorem rcFrom_length : ∀ (rest : List (List Nat)) (i : Nat),
    (rcFrom i rest).1.length = rest.length ∧ (rcFrom i rest).2.length = rest.length := by
  intro rest
  induction rest with
  | nil => intro i; simp [rcFrom]
  | cons row t ih => intro i; simp [rcFrom, ih (i + 1)]

theorem mem_rowPairs_indexed (f : Nat → Nat) (rows : List (List Nat)) (u w : Nat) :
    (u, w) ∈ rowPairs f (indexed rows) ↔ ∃ i x, i < rows.length ∧ x ∈ rows.getD i [] ∧ f i = u ∧ f x = w := by
  unfold rowPairs indexed
  simp only [List.mem_flatMap, List.mem_map, List.mem_range, Prod.mk.injEq]
  constructor
  · rintro ⟨r, ⟨i, hi, rfl⟩, x, hx, h1, h2⟩
    exact ⟨i, x, hi, hx, h1, h2⟩
  · rintro ⟨i, x, hi, hx, h1, h2⟩
    exact ⟨(i, rows.getD i []), ⟨i, hi, rfl⟩, x, hx, h1, h2⟩

/-- the rows of the composed run, read through the toposort -/
theorem composed_rows (v : View) (topo : List Nat) (h : DagInput v topo) :
    let tr := toposorted v.pred id v.g.nodes.length topo
    let rc := reductionClosure tr.1
    rc.1.length = topo.length ∧ rc.2.length = topo.length ∧
    (∀ i x, x ∈ rc.2.getD i [] ↔ i < topo.length ∧ x < topo.length ∧ Reach1 v.g (unrank topo i) (unrank topo x)) ∧
    (∀ i x, x ∈ rc.1.getD i [] ↔ i < topo.length ∧ x < topo.length ∧ Covers v.g (unrank topo i) (unrank topo x)) := by
  intro tr rc
  have hrows := rows_spec v topo h
  have hlen := rcFrom_length tr.1 0
  have hl1 : rc.1.length = topo.length := hlen.1.trans hrows.1
  have hl2 : rc.2.length = topo.length := hlen.2.trans hrows.1
  refine ⟨hl1, hl2, fun i x => ?_, fun i x => ?_⟩
  · by_cases hi : i < topo.length
    · have := (reductionClosure_correct tr.1 hrows.2.1 hrows.2.2 i (by rw [hrows.1]; exact hi)).1 x
      rw [this]
      exact reach1_rows_iff v topo h i x
    · have : rc.2.getD i [] = [] := by
        simp [List.getD_eq_getElem?_getD, List.getElem?_eq_none (by omega : rc.2.length ≤ i)]
      rw [this]
      simp [hi]
  · by_cases hi : i < topo.length
    · have := (reductionClosure_correct tr.1 hrows.2.1 hrows.2.2 i (by rw [hrows.1]; exact hi)).2 x
      rw [this]
      exact covers_rows_iff v topo h i x
    · have : rc.1.getD i [] = [] := by
        simp [List.getD_eq_getElem?_getD, List.getElem?_eq_none (by omega : rc.1.length ≤ i)]
      rw [this]
      simp [hi]

/-- **end to end, mapped back through `revmap`**: for a DAG view, a node `w` is in the closure row of
`u` — both looked up through the `revmap` that `dag_to_toposorted_adjacency_list` returned — exactly
when `w` is reachable from `u` by ≥ 1 edge in the abstract graph; it is in the reduction row exactly
when `u → w` is a covering pair. -/
theorem end_to_end_revmap (v : View) (topo : List Nat) (h : DagInput v topo) :
    let tr := toposorted v.pred id v.g.nodes.length topo
    let rc := reductionClosure tr.1
    (∀ u w, Reach1 v.g u w ↔
      u ∈ v.g.nodes ∧ w ∈ v.g.nodes ∧ tr.2.getD w 0 ∈ rc.2.getD (tr.2.getD u 0) []) ∧
    (∀ u w, Covers v.g u w ↔
      u ∈ v.g.nodes ∧ w ∈ v.g.nodes ∧ tr.2.getD w 0 ∈ rc.1.getD (tr.2.getD u 0) []) := by
  intro tr rc
  have hrev := (toposorted_revmap v topo h).2.1
  have hcomp := composed_rows v topo h
  have key : ∀ u w, u ∈ v.g.nodes → w ∈ v.g.nodes →
      (tr.2.getD u 0 < topo.length ∧ tr.2.getD w 0 < topo.length) ∧
      unrank topo (tr.2.getD u 0) = u ∧ unrank topo (tr.2.getD w 0) = w := by
    intro u w hu hw
    refine ⟨⟨?_, ?_⟩, (hrev u hu).2, (hrev w hw).2⟩
    · rw [(hrev u hu).1]; exact List.idxOf_lt_length_iff.mpr ((h.mem u).mpr hu)
    · rw [(hrev w hw).1]; exact List.idxOf_lt_length_iff.mpr ((h.mem w).mpr hw)
  refine ⟨fun u w => ?_, fun u w => ?_⟩
  · constructor
    · intro hr
      obtain ⟨hu, hw⟩ := reach1_nodes h.endpoints hr
      obtain ⟨⟨h1, h2⟩, h3, h4⟩ := key u w hu hw
      refine ⟨hu, hw, (hcomp.2.2.1 _ _).mpr ⟨h1, h2, ?_⟩⟩
      rw [h3, h4]; exact hr
    · rintro ⟨hu, hw, hm⟩
      obtain ⟨_, h3, h4⟩ := key u w hu hw
      have := ((hcomp.2.2.1 _ _).mp hm).2.2
      rwa [h3, h4] at this
  · constructor
    · intro hr
      obtain ⟨hu, hw⟩ := reach1_nodes h.endpoints hr.1
      obtain ⟨⟨h1, h2⟩, h3, h4⟩ := key u w hu hw
      refine ⟨hu, hw, (hcomp.2.2.2 _ _).mpr ⟨h1, h2, ?_⟩⟩
      rw [h3, h4]; exact hr
    · rintro ⟨hu, hw, hm⟩
      obtain ⟨_, h3, h4⟩ := key u w hu hw
      have := ((hcomp.2.2.2 _ _).mp hm).2.2
      rwa [h3, h4] at this

/-- **end to end, in the judge's vocabulary**: the answer of the two mirrored functions run one after
the other satisfies the clauses `judgeTred` checks on the implementation's answer — `revmap` is the
inverse of the toposort, and read back through the toposort the closure pairs are exactly `Reach1`, the
reduction pairs exactly the covering relation of the abstract graph. -/
theorem end_to_end_pairs (v : View) (topo : List Nat) (h : DagInput v topo) :
    (∀ x ∈ v.g.nodes, colourOf (modelAnswer v topo).revmap x = some (topo.idxOf x)) ∧
    (∀ u w, (u, w) ∈ cloPairs topo (modelAnswer v topo) ↔ Reach1 v.g u w) ∧
    (∀ u w, (u, w) ∈ redPairs topo (modelAnswer v topo) ↔ Covers v.g u w) := by
  have hrev := (toposorted_revmap v topo h).2.1
  have hcomp := composed_rows v topo h
  have back : ∀ {u w : Nat}, Reach1 v.g u w →
      topo.idxOf u < topo.length ∧ topo.idxOf w < topo.length ∧
      unrank topo (topo.idxOf u) = u ∧ unrank topo (topo.idxOf w) = w := by
    intro u w hr
    obtain ⟨hu, hw⟩ := reach1_nodes h.endpoints hr
    have hu' := (h.mem u).mpr hu
    have hw' := (h.mem w).mpr hw
    exact ⟨List.idxOf_lt_length_iff.mpr hu', List.idxOf_lt_length_iff.mpr hw', unrank_idxOf hu', unrank_idxOf hw'⟩
  refine ⟨fun x hx => ?_, fun u w => ?_, fun u w => ?_⟩
  · unfold colourOf modelAnswer
    simp only
    have : ∀ (l : List Nat) (f : Nat → Nat), x ∈ l → (l.map fun y => (y, f y)).lookup x = some (f x) := by
      intro l f
      induction l with
      | nil => intro hm; cases hm
      | cons y t ih =>
        intro hm
        simp only [List.map_cons, List.lookup_cons]
        by_cases hxy : x = y
        · subst hxy; simp
        · have : (x == y) = false := by simpa using hxy
          rw [this]
          exact ih (by cases List.mem_cons.mp hm with | inl e => exact absurd e hxy | inr e => exact e)
    rw [this _ _ hx, (hrev x hx).1]
  · unfold cloPairs modelAnswer
    simp only
    rw [mem_rowPairs_indexed]
    constructor
    · rintro ⟨i, x, _, hx, h1, h2⟩
      have := ((hcomp.2.2.1 i x).mp hx).2.2
      rwa [h1, h2] at this
    · intro hr
      obtain ⟨h1, h2, h3, h4⟩ := back hr
      refine ⟨topo.idxOf u, topo.idxOf w, by rw [hcomp.2.1]; exact h1, ?_, h3, h4⟩
      refine (hcomp.2.2.1 _ _).mpr ⟨h1, h2, ?_⟩
      rw [h3, h4]; exact hr
  · unfold redPairs modelAnswer
    simp only
    rw [mem_rowPairs_indexed]
    constructor
    · rintro ⟨i, x, _, hx, h1, h2⟩
      have := ((hcomp.2.2.2 i x).mp hx).2.2
      rwa [h1, h2] at this
    · intro hr
      obtain ⟨h1, h2, h3, h4⟩ := back hr.1
      refine ⟨topo.idxOf u, topo.idxOf w, by rw [hcomp.1]; exact h1, ?_, h3, h4⟩
      refine (hcomp.2.2.2 _ _).mpr ⟨h1, h2, ?_⟩
      rw [h3, h4]; exact hr

end PetgraphModel.C20.Tred
