import PetgraphModel.Proofs.C20Dsatur
/-
C20 (wave 2) — DSatur is exact on bipartite graphs, for ANY tie-breaking of the saturation heap:
if every node is picked while no other not-yet-coloured node of the order has more distinct neighbour
colours, the greedy colouring of a bipartite graph uses at most two colours.

Invariant (`Cons`): there is a "swap bit" `s`, constant along the edges between nodes of the order,
such that every coloured node `u` has the colour `f u xor s u` (`f` = the side of the bipartition).
A node picked with a coloured neighbour sees one colour only (all its neighbours are on the other
side and share its swap bit); a node picked with saturation 0 starts a fresh component — the
saturation rule says no uncoloured node of the order touches a coloured one, so its component (within
the order) is uncoloured and the swap bit can be re-chosen there.
-/
namespace PetgraphModel.C20.Dsatur
open PetgraphModel PetgraphModel.MGraph

/-- the graph restricted to the edges joining members of `O` -/
def restrict (g : MGraph) (O : List Nat) : MGraph :=
  { g with edges := g.edges.filter fun e => O.contains e.src && O.contains e.tgt }

theorem restrict_adj {g : MGraph} {O : List Nat} {u w : Nat} :
    (restrict g O).Adj u w ↔ g.Adj u w ∧ u ∈ O ∧ w ∈ O := by
  constructor
  · rintro ⟨e, he, h⟩
    simp only [restrict, List.mem_filter, Bool.and_eq_true, List.contains_eq_mem, decide_eq_true_eq] at he
    rcases h with ⟨h1, h2⟩ | ⟨h0, h1, h2⟩
    · exact ⟨⟨e, he.1, Or.inl ⟨h1, h2⟩⟩, h1 ▸ he.2.1, h2 ▸ he.2.2⟩
    · exact ⟨⟨e, he.1, Or.inr ⟨h0, h1, h2⟩⟩, h2 ▸ he.2.2, h1 ▸ he.2.1⟩
  · rintro ⟨⟨e, he, h⟩, hu, hw⟩
    rcases h with ⟨h1, h2⟩ | ⟨h0, h1, h2⟩
    · refine ⟨e, ?_, Or.inl ⟨h1, h2⟩⟩
      simp only [restrict, List.mem_filter, Bool.and_eq_true, List.contains_eq_mem, decide_eq_true_eq]
      exact ⟨he, h1 ▸ hu, h2 ▸ hw⟩
    · refine ⟨e, ?_, Or.inr ⟨h0, h1, h2⟩⟩
      simp only [restrict, List.mem_filter, Bool.and_eq_true, List.contains_eq_mem, decide_eq_true_eq]
      exact ⟨he, h1 ▸ hw, h2 ▸ hu⟩

def bit (b : Bool) : Nat := if b then 1 else 0

/-- the colouring agrees with the bipartition `f` up to a swap bit that is constant along the edges
inside `O` -/
def Cons (g : MGraph) (O : List Nat) (f : Nat → Bool) (col : List (Nat × Nat)) : Prop :=
  ∃ s : Nat → Bool, (∀ u w, g.Adj u w → u ∈ O → w ∈ O → s u = s w) ∧
    ∀ p ∈ col, p.2 = bit (f p.1 != s p.1)

theorem bipartite_adj {g : MGraph} {f : Nat → Bool} (hf : ∀ e ∈ g.edges, f e.src ≠ f e.tgt) {u w : Nat}
    (h : g.Adj u w) : f w = !f u := by
  obtain ⟨e, he, h⟩ := h
  have := hf e he
  rcases h with ⟨h1, h2⟩ | ⟨_, h1, h2⟩
  · rw [h1, h2] at this
    cases hu : f u <;> cases hw : f w <;> simp_all
  · rw [h1, h2] at this
    cases hu : f u <;> cases hw : f w <;> simp_all

theorem leastFree_nil : leastFree [] = 0 := by
  have := (leastFree_spec []).2
  cases h : leastFree [] with
  | zero => rfl
  | succ n => exact absurd (this 0 (by omega)) (by simp)

/-- a non-empty set of used colours that are all `bit b` leaves `bit (!b)` as the least free one -/
theorem leastFree_const (used : List Nat) (b : Bool) (hne : used ≠ []) (hall : ∀ c ∈ used, c = bit b) :
    leastFree used = bit (!b) := by
  have hspec := leastFree_spec used
  have hmem : bit b ∈ used := by
    cases used with
    | nil => exact absurd rfl hne
    | cons c t => rw [← hall c (by simp)]; simp
  cases b with
  | false =>
    simp only [bit] at hall hmem ⊢
    simp only [Bool.false_eq_true, if_false, Bool.not_false, if_true] at hall hmem ⊢
    cases h : leastFree used with
    | zero => rw [h] at hspec; exact absurd hmem hspec.1
    | succ n =>
      cases n with
      | zero => rfl
      | succ m =>
        have := hall 1 (hspec.2 1 (by omega))
        omega
  | true =>
    simp only [bit] at hall hmem ⊢
    simp only [if_true, Bool.not_true, Bool.false_eq_true, if_false] at hall hmem ⊢
    cases h : leastFree used with
    | zero => rfl
    | succ n =>
      have := hall 0 (hspec.2 0 (by omega))
      omega

theorem mem_adjColours {g : MGraph} {col : List (Nat × Nat)} {v c : Nat} :
    c ∈ adjColours g col v ↔ ∃ u, g.Adj v u ∧ col.lookup u = some c := by
  unfold adjColours
  rw [List.mem_filterMap]
  constructor
  · rintro ⟨u, hu, hl⟩; exact ⟨u, MGraph.mem_succ.mp hu, hl⟩
  · rintro ⟨u, hu, hl⟩; exact ⟨u, MGraph.mem_succ.mpr hu, hl⟩

open Classical in
/-- one colouring step keeps the invariant, provided the saturation rule holds when the picked node
has no coloured neighbour -/
theorem cons_step (g : MGraph) (hd : g.directed = false) (O : List Nat) (f : Nat → Bool)
    (hf : ∀ e ∈ g.edges, f e.src ≠ f e.tgt) (col : List (Nat × Nat)) (x : Nat)
    (hx : x ∈ O) (hxn : x ∉ col.map (·.1)) (hkeys : ∀ u ∈ col.map (·.1), u ∈ O)
    (hsat : adjColours g col x = [] → ∀ y ∈ O, y ∉ col.map (·.1) → adjColours g col y = [])
    (h : Cons g O f col) : Cons g O f (colourNode g col x) := by
  obtain ⟨s, hs, hcol⟩ := h
  by_cases hA : adjColours g col x = []
  · -- a fresh component: re-choose the swap bit on it
    have hsat' := hsat hA
    have hd' : (restrict g O).directed = false := hd
    have hunc : ∀ u, Reach (restrict g O) x u → u ∉ col.map (·.1) := by
      intro u hr
      induction hr with
      | refl => exact hxn
      | @step b c0 _ hadj ih =>
        obtain ⟨hadjg, hb, hc0⟩ := restrict_adj.mp hadj
        intro hmem
        have hsome := lookup_isSome_of_key hmem
        obtain ⟨cc, hcc⟩ := Option.isSome_iff_exists.mp hsome
        have : cc ∈ adjColours g col b := mem_adjColours.mpr ⟨c0, hadjg, hcc⟩
        rw [hsat' b hb ih] at this
        simp at this
    refine ⟨fun u => if Reach (restrict g O) x u then f x else s u, ?_, ?_⟩
    · intro u w hadj hu hw
      have h1 : (restrict g O).Adj u w := restrict_adj.mpr ⟨hadj, hu, hw⟩
      have h2 : (restrict g O).Adj w u := adj_symm_undirected hd' h1
      by_cases hru : Reach (restrict g O) x u
      · have hrw : Reach (restrict g O) x w := Reach.step hru h1
        simp [hru, hrw]
      · have hrw : ¬ Reach (restrict g O) x w := fun hr => hru (Reach.step hr h2)
        simp only [hru, hrw, if_false]
        exact hs u w hadj hu hw
    · intro p hp
      simp only [colourNode, List.mem_cons] at hp
      cases hp with
      | inl e =>
        subst e
        simp only [hA, leastFree_nil, Reach.refl, if_true, bne_self_eq_false, bit]
        rfl
      | inr e =>
        have hnr : ¬ Reach (restrict g O) x p.1 := fun hr => hunc p.1 hr (List.mem_map.mpr ⟨p, e, rfl⟩)
        simp only [hnr, if_false]
        exact hcol p e
  · -- every coloured neighbour has the colour of the other side
    refine ⟨s, hs, ?_⟩
    have hall : ∀ c ∈ adjColours g col x, c = bit (!(f x != s x)) := by
      intro c hc
      obtain ⟨u, hadj, hl⟩ := mem_adjColours.mp hc
      have hmem := lookup_some_mem hl
      have huO : u ∈ O := hkeys u (List.mem_map.mpr ⟨(u, c), hmem, rfl⟩)
      have h1 := hcol (u, c) hmem
      simp only at h1
      rw [h1, bipartite_adj hf hadj, ← hs x u hadj hx huO]
      cases f x <;> cases s x <;> rfl
    intro p hp
    simp only [colourNode, List.mem_cons] at hp
    cases hp with
    | inl e =>
      subst e
      simp only
      rw [leastFree_const _ _ hA hall]
      simp
    | inr e => exact hcol p e

theorem greedy_take_succ (g : MGraph) (order : List Nat) (i : Nat) (hi : i < order.length) :
    greedy g (order.take (i + 1)) = colourNode g (greedy g (order.take i)) order[i] := by
  unfold greedy
  rw [List.take_succ_eq_append_getElem hi, List.foldl_append]
  rfl

theorem eraseDups_length_zero {l : List Nat} (h : l.eraseDups.length = 0) : l = [] := by
  cases l with
  | nil => rfl
  | cons a t => rw [List.eraseDups_cons] at h; simp at h

theorem greedy_keys (g : MGraph) (hd : g.directed = false) (order : List Nat) (hnd : order.Nodup) (i : Nat) :
    (greedy g (order.take i)).map (·.1) = (order.take i).reverse :=
  (greedy_spec g hd (order.take i) (List.Nodup.sublist (List.take_sublist i order) hnd)).1

/-- the invariant holds after every prefix of a saturation-respecting order -/
theorem cons_prefix (g : MGraph) (hd : g.directed = false) (f : Nat → Bool)
    (hf : ∀ e ∈ g.edges, f e.src ≠ f e.tgt) (order : List Nat) (hnd : order.Nodup)
    (hsat : ∀ i (_ : i < order.length), ∀ j (_ : j < order.length), i ≤ j →
      ((adjColours g (greedy g (order.take i)) order[j]).eraseDups.length ≤
       (adjColours g (greedy g (order.take i)) order[i]).eraseDups.length)) :
    ∀ i, i ≤ order.length → Cons g order f (greedy g (order.take i)) := by
  intro i
  induction i with
  | zero => intro _; exact ⟨fun _ => false, fun _ _ _ _ _ => rfl, by simp [greedy]⟩
  | succ i ih =>
    intro hi
    have hi' : i < order.length := by omega
    rw [greedy_take_succ g order i hi']
    have hkeys := greedy_keys g hd order hnd i
    have hsplit : order.take i ++ order.drop i = order := List.take_append_drop i order
    have hdisj : ∀ y, y ∈ order.take i → y ∈ order.drop i → False := by
      intro y h1 h2
      have : (order.take i ++ order.drop i).Nodup := by rw [hsplit]; exact hnd
      exact (List.nodup_append.mp this).2.2 y h1 y h2 rfl
    apply cons_step g hd order f hf _ _ (List.getElem_mem hi') _ _ _ (ih (by omega))
    · rw [hkeys, List.mem_reverse]
      intro hm
      exact hdisj _ hm (List.mem_drop_iff_getElem.mpr ⟨0, by simpa using hi', by simp⟩)
    · intro u hu
      rw [hkeys, List.mem_reverse] at hu
      exact (List.take_sublist i order).subset hu
    · intro h0 y hy hyn
      rw [hkeys, List.mem_reverse] at hyn
      have hyd : y ∈ order.drop i := by
        rw [← hsplit] at hy
        cases List.mem_append.mp hy with
        | inl e => exact absurd e hyn
        | inr e => exact e
      obtain ⟨j, hj, hje⟩ := List.mem_drop_iff_getElem.mp hyd
      have := hsat i hi' (i + j) (by omega) (by omega)
      rw [h0, hje] at this
      exact eraseDups_length_zero (by simpa using this)

/-- **DSatur uses at most two colours on a bipartite graph, whatever the tie-breaking** -/
theorem greedy_bipartite (g : MGraph) (order : List Nat) (hd : g.directed = false)
    (hb : ∃ f : Nat → Bool, ∀ e ∈ g.edges, f e.src ≠ f e.tgt) (hnd : order.Nodup)
    (hsat : ∀ i (_ : i < order.length), ∀ j (_ : j < order.length), i ≤ j →
      ((adjColours g (greedy g (order.take i)) order[j]).eraseDups.length ≤
       (adjColours g (greedy g (order.take i)) order[i]).eraseDups.length)) :
    count (greedy g order) ≤ 2 := by
  obtain ⟨f, hf⟩ := hb
  have := cons_prefix g hd f hf order hnd hsat order.length (Nat.le_refl _)
  rw [List.take_length] at this
  obtain ⟨s, _, hcol⟩ := this
  unfold count
  cases foldl_max_attained ((greedy g order).map (·.2)) 0 with
  | inl e => unfold maxOf; omega
  | inr e =>
    obtain ⟨p, hp, hpe⟩ := List.mem_map.mp e
    have := hcol p hp
    unfold maxOf
    rw [← hpe, this]
    unfold bit
    split <;> omega

end PetgraphModel.C20.Dsatur
