import PetgraphModel.Proofs.C17W2MapC03
/-
Helper lemmas for C17, wave 3 (part 4): whatever `Deserialize for GraphMap` accepts is a `GraphMap` satisfying the
C03 invariant.

The C03 model (`GM.State`) has node values and weights in `Nat`, the serde model (`Serde.GMap`) in `Int` (the harness
uses `i64`), and `GraphMap` depends on the ORDER of node values (`edge_key`).  `ofGMS c` is the embedding `ofGM` of wave 2
composed with the order isomorphism `n ↦ n - c` of the values (`ofGMS 0 = ofGM`): every finite set of `Int`s is the image
of a set of `Nat`s under a suitable shift, so EVERY loaded map is `ofGMS c s` for a C03 state `s` satisfying `GMProofs.Inv`
(`from_graph` is a fold of `add_node` / `add_edge` from the empty map; both commute with the embedding, without any
hypothesis, and C03 proves they keep the invariant).
-/
namespace PetgraphModel.SerdeProofs
open PetgraphModel.Serde PetgraphModel

/-! ### the shifted embedding -/

def ofEntryS (c : Int) (e : Nat × GM.Dir) : Int × Bool := ((e.1 : Int) - c, dirB e.2)
def ofAdjS (c : Int) (l : GM.Adj) : List (Int × Bool) := l.map (ofEntryS c)
def ofNodeS (c : Int) (p : Nat × GM.Adj) : Int × List (Int × Bool) := ((p.1 : Int) - c, ofAdjS c p.2)
def ofKeyS (c : Int) (k : GM.EKey) : Int × Int := ((k.1 : Int) - c, (k.2 : Int) - c)
def ofEdgeS (c : Int) (e : GM.EKey × Nat) : (Int × Int) × Int := (ofKeyS c e.1, (e.2 : Int) - c)

/-- a C03 `GraphMap` state as a `GraphMap` of the serde model, values and weights renamed by `n ↦ n - c` -/
def ofGMS (c : Int) (s : GM.State) : GMap :=
  { directed := s.directed, nodes := s.nodes.map (ofNodeS c), edges := s.edges.map (ofEdgeS c) }

theorem ofGMS_zero (s : GM.State) : ofGMS 0 s = ofGM s := by
  have h0 : ofEntryS 0 = ofEntry := by
    funext e
    simp [ofEntryS, ofEntry]
  have h1 : ofNodeS 0 = ofNode := by
    funext p
    simp [ofNodeS, ofNode, ofAdjS, ofAdj, h0]
  have h2 : ofEdgeS 0 = ofEdge := by
    funext e
    simp [ofEdgeS, ofEdge, ofKeyS, ofKey]
  simp [ofGMS, ofGM, h1, h2]

theorem ofKeyS_inj {c : Int} {k k' : GM.EKey} : ofKeyS c k = ofKeyS c k' ↔ k = k' := by
  obtain ⟨a, b⟩ := k
  obtain ⟨x, y⟩ := k'
  simp only [ofKeyS, Prod.mk.injEq]
  omega

theorem ofGMS_empty (c : Int) (d : Bool) : ofGMS c (GM.State.empty d) = GMap.empty d := rfl

/-! ### `add_node` -/

theorem ofGMS_addNode_nodes (c : Int) (nodes : GM.IMap Nat GM.Adj) (n : Nat) (d : Bool) :
    (GM.addNode ⟨d, nodes, []⟩ n).nodes.map (ofNodeS c) = assocUpsert (nodes.map (ofNodeS c)) ((n : Int) - c) [] id := by
  induction nodes with
  | nil => rfl
  | cons p t ih =>
    obtain ⟨k', v⟩ := p
    rw [addNode_nodes_cons, List.map_cons]
    show _ = assocUpsert (((k' : Int) - c, ofAdjS c v) :: t.map (ofNodeS c)) ((n : Int) - c) [] id
    rw [assocUpsert_cons]
    by_cases h : k' = n
    · rw [if_pos h, if_pos (by omega)]; rfl
    · rw [if_neg h, if_neg (by omega), List.map_cons, ih]; rfl

theorem ofGMS_addNode (c : Int) (s : GM.State) (n : Nat) :
    ofGMS c (GM.addNode s n) = (ofGMS c s).addNode ((n : Int) - c) := by
  obtain ⟨h1, h2, h3⟩ := addNode_nodes_indep s n
  unfold ofGMS GMap.addNode
  simp only [h1, h2, h3, ofGMS_addNode_nodes]

/-! ### `add_edge` -/

theorem ofGMS_pushAdj (c : Int) (nodes : GM.IMap Nat GM.Adj) (a : Nat) (e : Nat × GM.Dir) :
    (GM.pushAdj nodes a e).map (ofNodeS c) =
      assocUpsert (nodes.map (ofNodeS c)) ((a : Int) - c) [] (· ++ [ofEntryS c e]) := by
  induction nodes with
  | nil => rfl
  | cons p t ih =>
    obtain ⟨k', v⟩ := p
    rw [pushAdj_cons, List.map_cons]
    show _ = assocUpsert (((k' : Int) - c, ofAdjS c v) :: t.map (ofNodeS c)) ((a : Int) - c) [] (· ++ [ofEntryS c e])
    rw [assocUpsert_cons]
    by_cases h : k' = a
    · rw [if_pos h, if_pos (by omega)]
      simp [ofNodeS, ofAdjS]
    · rw [if_neg h, if_neg (by omega), List.map_cons, ih]; rfl

theorem ofGMS_insert (c : Int) (edges : GM.IMap GM.EKey Nat) (k : GM.EKey) (w : Nat) :
    match GM.IMap.get? edges k with
    | some _ => ∃ i, assocIdx (edges.map (ofEdgeS c)) (ofKeyS c k) = some i ∧
        (edges.map (ofEdgeS c)).modify i (fun x => (x.1, (w : Int) - c)) = (GM.IMap.set edges k w).map (ofEdgeS c)
    | none => assocIdx (edges.map (ofEdgeS c)) (ofKeyS c k) = none := by
  induction edges with
  | nil => rfl
  | cons p t ih =>
    obtain ⟨k', v⟩ := p
    simp only [GM.IMap.get?, List.map_cons]
    show match (if k' = k then some v else GM.IMap.get? t k) with
      | some _ => ∃ i, assocIdx ((ofKeyS c k', (v : Int) - c) :: t.map (ofEdgeS c)) (ofKeyS c k) = some i ∧
          ((ofKeyS c k', (v : Int) - c) :: t.map (ofEdgeS c)).modify i (fun x => (x.1, (w : Int) - c)) =
            (GM.IMap.set ((k', v) :: t) k w).map (ofEdgeS c)
      | none => assocIdx ((ofKeyS c k', (v : Int) - c) :: t.map (ofEdgeS c)) (ofKeyS c k) = none
    rw [assocIdx_cons]
    by_cases h : k' = k
    · rw [if_pos h, if_pos (ofKeyS_inj.2 h)]
      exact ⟨0, rfl, by simp [GM.IMap.set, h, ofEdgeS]⟩
    · rw [if_neg h, if_neg (fun e => h (ofKeyS_inj.1 e))]
      cases hg : GM.IMap.get? t k with
      | none =>
        rw [hg] at ih
        simp only at ih ⊢
        rw [ih]; rfl
      | some old =>
        rw [hg] at ih
        simp only at ih ⊢
        obtain ⟨i, h1, h2⟩ := ih
        refine ⟨i + 1, by rw [h1]; rfl, ?_⟩
        simp only [GM.IMap.set, h, if_false, List.map_cons, List.modify_succ_cons, h2]
        rfl

theorem ofGMS_edgeKey (c : Int) (s : GM.State) (a b : Nat) :
    (ofGMS c s).edgeKey ((a : Int) - c) ((b : Int) - c) = ofKeyS c (GM.edgeKey s.directed a b) := by
  unfold GMap.edgeKey GM.edgeKey ofKeyS
  show (if (s.directed || decide ((a : Int) - c ≤ (b : Int) - c)) = true then _ else _) = _
  have : decide ((a : Int) - c ≤ (b : Int) - c) = decide (a ≤ b) := by
    by_cases h : a ≤ b
    · simp only [h, decide_true, decide_eq_true_eq]; omega
    · simp only [h, decide_false, decide_eq_false_iff_not]; omega
  rw [this]
  split <;> rfl

theorem ofGMS_addEdge (c : Int) (s : GM.State) (a b w : Nat) :
    ofGMS c (GM.addEdge s a b w).1 = ((ofGMS c s).addEdge ((a : Int) - c) ((b : Int) - c) ((w : Int) - c)).1 := by
  have hins := ofGMS_insert c s.edges (GM.edgeKey s.directed a b) w
  unfold GMap.addEdge GM.addEdge GM.IMap.insert
  simp only [ofGMS_edgeKey]
  cases hg : GM.IMap.get? s.edges (GM.edgeKey s.directed a b) with
  | some old =>
    rw [hg] at hins
    obtain ⟨i, h1, h2⟩ := hins
    simp only [show (ofGMS c s).edges = s.edges.map (ofEdgeS c) from rfl, h1]
    show ofGMS c { s with edges := GM.IMap.set s.edges (GM.edgeKey s.directed a b) w } = _
    unfold ofGMS
    simp only [← h2]
  | none =>
    rw [hg] at hins
    simp only at hins
    simp only [show (ofGMS c s).edges = s.edges.map (ofEdgeS c) from rfl, hins]
    show ofGMS c { s with nodes := (if a ≠ b then GM.pushAdj (GM.pushAdj s.nodes a (b, .out)) b (a, .inc)
        else GM.pushAdj s.nodes a (b, .out)), edges := s.edges ++ [(GM.edgeKey s.directed a b, w)] } = _
    unfold ofGMS
    simp only [List.map_append, List.map_cons, List.map_nil]
    by_cases hab : a = b
    · have : ¬ ((a : Int) - c ≠ (b : Int) - c) := by omega
      simp only [hab, ne_eq, not_true_eq_false, if_false, ofGMS_pushAdj]
      rfl
    · have : (a : Int) - c ≠ (b : Int) - c := by omega
      simp only [ne_eq, hab, not_false_eq_true, if_true, this, ofGMS_pushAdj]
      rfl

/-! ### `from_graph` -/

/-- "is the embedding of a C03 state satisfying the C03 invariant" -/
def IsGM (c : Int) (m : GMap) : Prop := ∃ s, m = ofGMS c s ∧ GMProofs.Inv s

theorem isGM_empty (c : Int) (d : Bool) : IsGM c (GMap.empty d) :=
  ⟨GM.State.empty d, (ofGMS_empty c d).symm, GMProofs.inv_empty d⟩

theorem isGM_addNode {c : Int} {m : GMap} (h : IsGM c m) (k : Int) (hk : 0 ≤ k + c) : IsGM c (m.addNode k) := by
  obtain ⟨s, rfl, hI⟩ := h
  refine ⟨GM.addNode s (k + c).toNat, ?_, GMProofs.addNode_inv s _ hI⟩
  rw [ofGMS_addNode]
  congr 1
  omega

theorem isGM_addEdge {c : Int} {m : GMap} (h : IsGM c m) (a b w : Int) (ha : 0 ≤ a + c) (hb : 0 ≤ b + c)
    (hw : 0 ≤ w + c) : IsGM c (m.addEdge a b w).1 := by
  obtain ⟨s, rfl, hI⟩ := h
  refine ⟨(GM.addEdge s (a + c).toNat (b + c).toNat (w + c).toNat).1, ?_, GMProofs.addEdge_inv s _ _ _ hI⟩
  rw [ofGMS_addEdge]
  have e1 : ((a + c).toNat : Int) - c = a := by omega
  have e2 : ((b + c).toNat : Int) - c = b := by omega
  have e3 : ((w + c).toNat : Int) - c = w := by omega
  rw [e1, e2, e3]

theorem fgNode_fold_isGM (c : Int) : ∀ (nds : List NodeSlot) (acc : GMap), IsGM c acc →
    (∀ nd, nd ∈ nds → ∀ k, nd.w = some k → 0 ≤ k + c) → IsGM c (nds.foldl fgNode acc) := by
  intro nds
  induction nds with
  | nil => intro acc h _; exact h
  | cons nd t ih =>
    intro acc h hb
    rw [List.foldl_cons]
    refine ih _ ?_ (fun x hx => hb x (List.mem_cons_of_mem _ hx))
    unfold fgNode
    cases hw : nd.w with
    | none => exact h
    | some k => exact isGM_addNode h k (hb nd List.mem_cons_self k hw)

theorem fgEdge_fold_none (nodes : List NodeSlot) (es : List EdgeSlot) : es.foldl (fgEdge nodes) none = none := by
  induction es with
  | nil => rfl
  | cons e t ih => rw [List.foldl_cons]; exact ih

theorem fgEdge_fold_isGM (c : Int) (nodes : List NodeSlot)
    (hn : ∀ nd, nd ∈ nodes → ∀ k, nd.w = some k → 0 ≤ k + c) :
    ∀ (es : List EdgeSlot) (acc m : GMap), IsGM c acc →
      (∀ e, e ∈ es → ∀ x, e.w = some x → 0 ≤ x + c) →
      es.foldl (fgEdge nodes) (some acc) = some m → IsGM c m := by
  have hget : ∀ (i : Nat) (wa : Int), (nodes[i]?).bind (fun (n : NodeSlot) => n.w) = some wa → 0 ≤ wa + c := by
    intro i wa h
    cases hi : nodes[i]? with
    | none => simp [hi] at h
    | some nd =>
      simp [hi] at h
      exact hn nd (List.mem_of_getElem? hi) wa h
  intro es
  induction es with
  | nil =>
    intro acc m h _ hm
    simp only [List.foldl_nil, Option.some.injEq] at hm
    exact hm ▸ h
  | cons e t ih =>
    intro acc m h hb hm
    rw [List.foldl_cons] at hm
    cases h1 : (nodes[e.src]?).bind (fun (n : NodeSlot) => n.w) with
    | none =>
      have : fgEdge nodes (some acc) e = none := by simp only [fgEdge, h1]
      rw [this, fgEdge_fold_none] at hm; cases hm
    | some wa =>
      cases h2 : (nodes[e.tgt]?).bind (fun (n : NodeSlot) => n.w) with
      | none =>
        have : fgEdge nodes (some acc) e = none := by simp only [fgEdge, h1, h2]
        rw [this, fgEdge_fold_none] at hm; cases hm
      | some wb =>
        cases h3 : e.w with
        | none =>
          have : fgEdge nodes (some acc) e = none := by simp only [fgEdge, h1, h2, h3]
          rw [this, fgEdge_fold_none] at hm; cases hm
        | some x =>
          have : fgEdge nodes (some acc) e = some (acc.addEdge wa wb x).1 := by simp only [fgEdge, h1, h2, h3]
          rw [this] at hm
          exact ih _ m (isGM_addEdge h wa wb x (hget _ wa h1) (hget _ wb h2) (hb e List.mem_cons_self x h3))
            (fun e' he' => hb e' (List.mem_cons_of_mem _ he')) hm

/-- `from_graph`, any graph, any shift that makes all values non-negative -/
theorem fromGraph_isGM (c : Int) (g : Raw) (m : GMap) (h : GMap.fromGraph g = some m)
    (hn : ∀ nd, nd ∈ g.nodes → ∀ k, nd.w = some k → 0 ≤ k + c)
    (he : ∀ e, e ∈ g.edges → ∀ x, e.w = some x → 0 ≤ x + c) : IsGM c m := by
  rw [fromGraph_eq] at h
  exact fgEdge_fold_isGM c g.nodes hn g.edges _ m (fgNode_fold_isGM c g.nodes _ (isGM_empty c g.directed) hn) he h

/-! ### a shift that works -/

def absSum (l : List Int) : Nat := (l.map Int.natAbs).sum

theorem le_absSum {l : List Int} {x : Int} (h : x ∈ l) : x.natAbs ≤ absSum l := by
  induction l with
  | nil => simp at h
  | cons y t ih =>
    simp only [absSum, List.map_cons, List.sum_cons]
    rcases List.mem_cons.1 h with rfl | h'
    · omega
    · have := ih h'
      simp only [absSum] at this
      omega

/-- the shift chosen for a graph: the sum of the absolute values of all its node and edge weights -/
def shiftOf (g : Raw) : Int :=
  ((absSum (g.nodes.filterMap (fun (n : NodeSlot) => n.w)) + absSum (g.edges.filterMap (fun (e : EdgeSlot) => e.w)) : Nat) : Int)

theorem fromGraph_isGM_shift (g : Raw) (m : GMap) (h : GMap.fromGraph g = some m) : IsGM (shiftOf g) m := by
  refine fromGraph_isGM _ g m h ?_ ?_
  · intro nd hnd k hk
    have := le_absSum (l := g.nodes.filterMap (fun (n : NodeSlot) => n.w)) (x := k) (List.mem_filterMap.2 ⟨nd, hnd, hk⟩)
    unfold shiftOf
    omega
  · intro e hmem x hx
    have := le_absSum (l := g.edges.filterMap (fun (e : EdgeSlot) => e.w)) (x := x) (List.mem_filterMap.2 ⟨e, hmem, hx⟩)
    unfold shiftOf
    omega

/-- **`de w = ok m → Inv m`, `GraphMap`**, for every wire value -/
theorem deMap_isGM {directed : Bool} {order : List Field} {w : Wire} {m : GMap}
    (h : deMap directed order w = .ok m) : ∃ c, IsGM c m := by
  unfold deMap at h
  cases hg : deGraph 4294967295 directed order w with
  | error e => simp [hg] at h
  | ok g =>
    simp only [hg] at h
    cases hm : GMap.fromGraph g with
    | none => simp [hm] at h
    | some m' =>
      simp only [hm, Except.ok.injEq] at h
      subst h
      exact ⟨shiftOf g, fromGraph_isGM_shift g m' hm⟩

/-- the weights of a loaded graph are the weights of the stream -/
theorem deGraph_weights {END : Nat} {directed : Bool} {order : List Field} {w : Wire} {g : Raw}
    (h : deGraph END directed order w = .ok g) :
    g.nodes.map (fun (n : NodeSlot) => n.w) = w.nodes.map some ∧
    g.edges.map skel = (w.edges.map (wireEdge END)).map skel := by
  unfold deGraph at h
  split at h
  · simp at h
  · rename_i hps
    have hall := parseEdges_graph_none (parseStage_none_edges hps)
    split at h
    · exact (fromDeserializedGraph_de h hall).2
    · exact (fromDeserializedGraph_de h hall).2

/-- a stream without negative node values and weights is loaded as the embedding `ofGM` (no renaming) of a C03 state -/
theorem deMap_isGM_nonneg {directed : Bool} {order : List Field} {w : Wire} {m : GMap}
    (h : deMap directed order w = .ok m) (hn : ∀ x, x ∈ w.nodes → 0 ≤ x)
    (he : ∀ a b x, some (a, b, x) ∈ w.edges → 0 ≤ x) : ∃ s, m = ofGM s ∧ GMProofs.Inv s := by
  unfold deMap at h
  cases hg : deGraph 4294967295 directed order w with
  | error e => simp [hg] at h
  | ok g =>
    simp only [hg] at h
    cases hm : GMap.fromGraph g with
    | none => simp [hm] at h
    | some m' =>
      simp only [hm, Except.ok.injEq] at h
      subst h
      obtain ⟨h1, h2⟩ := deGraph_weights hg
      obtain ⟨s, hs, hI⟩ := fromGraph_isGM 0 g m' hm (by
        intro nd hnd k hk
        have : some k ∈ g.nodes.map (fun (n : NodeSlot) => n.w) := List.mem_map.2 ⟨nd, hnd, hk⟩
        rw [h1] at this
        obtain ⟨x, hx, hxk⟩ := List.mem_map.1 this
        cases hxk
        have := hn k hx
        omega) (by
        intro e hmem x hx
        have : skel e ∈ g.edges.map skel := List.mem_map.2 ⟨e, hmem, rfl⟩
        rw [h2, List.map_map] at this
        obtain ⟨y, hy, hyk⟩ := List.mem_map.1 this
        cases y with
        | none => simp [skel, wireEdge, hx] at hyk
        | some t =>
          obtain ⟨a, b, z⟩ := t
          simp only [Function.comp, skel, wireEdge, hx, Prod.mk.injEq, Option.some.injEq] at hyk
          have := he a b z hy
          omega)
      exact ⟨s, by rw [hs, ofGMS_zero], hI⟩

/-! ### the embedded state is well formed (the hypotheses of the round trip) -/

theorem ofGMS_wf (c : Int) (s : GM.State) (h : GMProofs.Inv s) :
    ((ofGMS c s).nodes.map (·.1)).Nodup ∧ ((ofGMS c s).edges.map (·.1)).Nodup ∧
    (∀ a b w, ((a, b), w) ∈ (ofGMS c s).edges →
      a ∈ (ofGMS c s).nodes.map (·.1) ∧ b ∈ (ofGMS c s).nodes.map (·.1) ∧ ((ofGMS c s).directed = true ∨ a ≤ b)) := by
  have hkn : (ofGMS c s).nodes.map (·.1) = (GM.IMap.keys s.nodes).map (fun (n : Nat) => (n : Int) - c) := by
    simp [ofGMS, GM.IMap.keys, ofNodeS, List.map_map, Function.comp_def]
  have hke : (ofGMS c s).edges.map (·.1) = (GM.IMap.keys s.edges).map (ofKeyS c) := by
    simp [ofGMS, GM.IMap.keys, ofEdgeS, List.map_map, Function.comp_def]
  refine ⟨?_, ?_, ?_⟩
  · rw [hkn]
    exact List.Pairwise.map _ (fun a b (hab : a ≠ b) e => hab (by omega)) h.nodesNodup
  · rw [hke]
    exact List.Pairwise.map _ (fun a b (hab : a ≠ b) e => hab (ofKeyS_inj.1 e)) h.edgesNodup
  · intro a b w hm
    obtain ⟨e, he, heq⟩ := List.mem_map.1 hm
    obtain ⟨⟨x, y⟩, z⟩ := e
    simp only [ofEdgeS, ofKeyS, Prod.mk.injEq] at heq
    obtain ⟨⟨rfl, rfl⟩, rfl⟩ := heq
    have hg : (GM.IMap.get? s.edges (x, y)).isSome = true := by
      rw [GMProofs.get?_of_mem _ h.edgesNodup _ _ he]; rfl
    obtain ⟨hx, hy⟩ := h.good.ends x y hg
    have hc := h.good.canon x y hg
    rw [GMProofs.contains_eq, GMProofs.get?_isSome_iff] at hx hy
    rw [hkn]
    refine ⟨List.mem_map.2 ⟨x, hx, rfl⟩, List.mem_map.2 ⟨y, hy, rfl⟩, ?_⟩
    rcases hc with hc | hc
    · exact Or.inl hc
    · exact Or.inr (by omega)

end PetgraphModel.SerdeProofs
