import PetgraphModel.Driver.C06
/-
C06 (wave 6) — the `law` lines: laws the harness checks against the implementation itself (the iterator laws of
`harness/src/iterlaws.rs` on every trait-level iterator of every view and on the inherent iterators of the base types,
fresh and mid-iteration; `clone_from` / `clone` / `Default` / `Debug` laws of the base types).  The driver's judge of such
a line accepts the answer `ok` and nothing else, in every driver state and for every law name: no classifier, no
known-finding branch can turn a `VIOLATED …` answer into anything but a SPECFAIL.
-/
namespace PetgraphModel.C06W6
open PetgraphModel.C06

theorem specfail_ne_ok (x : String) : "SPECFAIL " ++ x ≠ "ok" := by
  intro h
  have := congrArg String.toList h
  simp [String.toList_append] at this

theorem stepLaw_ok_iff (d : DState) (what : List String) (impl : String) :
    stepLaw d what impl = "ok" ↔ impl = "ok" := by
  unfold stepLaw
  by_cases h : impl = "ok"
  · simp [h]
  · have h' : (impl == "ok") = false := by simpa using h
    simp only [h', Bool.false_eq_true, if_false, h, iff_false]
    exact specfail_ne_ok _

end PetgraphModel.C06W6
