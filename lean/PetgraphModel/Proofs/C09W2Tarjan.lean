import PetgraphModel.Proofs.C09W2TjSteps
/-
`TarjanScc` (Pearce's variant), part 3: the contracts of `visit` and of its neighbour loop (mutual
induction on the fuel), and `TarjanScc::run` / `node_component_index`.  Core Lean only.
-/
namespace PetgraphModel.C09P
open PetgraphModel PetgraphModel.MGraph PetgraphModel.C09J PetgraphModel.C09M PetgraphModel.Trav

/-! ### the model, in pieces -/

/-- `rootindex[x] := index; index += 1` -/
def tjEnter (v : View) (t : TJ) (x : Nat) : TJ := ({ t with index := t.index + 1 } : TJ).set v x (some t.index)

/-- the end of `visit`: pop a component or push `x` -/
def tjFinish (v : View) (x : Nat) (t : TJ) (localRoot : Bool) : TJ :=
  if localRoot then
    let comp := t.stack.takeWhile fun w => !(optLt (t.get v w) (t.get v x))
    let t' := (comp ++ [x]).foldl (fun (t : TJ) w => t.set v w (some t.cc)) t
    { t' with stack := t.stack.drop comp.length, out := t'.out ++ [comp.reverse ++ [x]],
              index := t'.index - (comp.length + 1), cc := t'.cc - 1 }
  else { t with stack := x :: t.stack }

theorem tjVisit_succ (v : View) (f x : Nat) (t : TJ) :
    tjVisit v (f + 1) x t =
      (tjNeigh v f x (v.succ x) (tjEnter v t x) true).bind fun p => some (tjFinish v x p.1 p.2) := by
  simp only [tjVisit, tjEnter]
  cases tjNeigh v f x (v.succ x) (TJ.set { t with index := t.index + 1 } v x (some t.index)) true with
  | none => rfl
  | some p =>
    obtain ⟨t1, lr⟩ := p
    cases lr <;> simp [tjFinish]

theorem tjNeigh_cons (v : View) (f x w : Nat) (ws : List Nat) (t : TJ) (lr : Bool) :
    tjNeigh v (f + 1) x (w :: ws) t lr =
      (if (t.get v w).isNone then tjVisit v f w t else some t).bind fun t1 =>
        if optLt (t1.get v w) (t1.get v x) then tjNeigh v f x ws (t1.set v x (t1.get v w)) false
        else tjNeigh v f x ws t1 lr := by
  simp only [tjNeigh]
  cases (if (t.get v w).isNone then tjVisit v f w t else some t) <;> rfl

theorem tjNeigh_nil (v : View) (f x : Nat) (t : TJ) (lr : Bool) : tjNeigh v (f + 1) x [] t lr = some (t, lr) := by
  simp only [tjNeigh]

theorem tjEnter_facts {v : View} (hinj : IxInj v) {x : Nat} (hx : x ∈ v.g.nodes) (t : TJ) :
    (tjEnter v t x).index = t.index + 1 ∧ (tjEnter v t x).cc = t.cc ∧ (tjEnter v t x).stack = t.stack ∧
    (tjEnter v t x).out = t.out ∧
    ∀ y ∈ v.g.nodes, (tjEnter v t x).get v y = if y = x then some t.index else t.get v y := by
  refine ⟨by simp [tjEnter], by simp [tjEnter], by simp [tjEnter], by simp [tjEnter], ?_⟩
  intro y hy
  unfold tjEnter
  rw [TJ.get_set hinj hx hy]
  rfl

theorem tjFinish_push (v : View) (x : Nat) (t : TJ) :
    (tjFinish v x t false).index = t.index ∧ (tjFinish v x t false).cc = t.cc ∧
    (tjFinish v x t false).stack = x :: t.stack ∧ (tjFinish v x t false).out = t.out ∧
    ∀ y, (tjFinish v x t false).get v y = t.get v y := by
  simp [tjFinish, TJ.get]

theorem tjFinish_pop {v : View} (hinj : IxInj v) {x : Nat} {t : TJ} {new stack0 : List Nat}
    (hnew : ∀ a ∈ new ++ [x], a ∈ v.g.nodes)
    (h1 : t.stack.takeWhile (fun w => !(optLt (t.get v w) (t.get v x))) = new)
    (h2 : t.stack.drop new.length = stack0) :
    (tjFinish v x t true).index = t.index - (new.length + 1) ∧ (tjFinish v x t true).cc = t.cc - 1 ∧
    (tjFinish v x t true).stack = stack0 ∧ (tjFinish v x t true).out = t.out ++ [new.reverse ++ [x]] ∧
    ∀ y ∈ v.g.nodes, (tjFinish v x t true).get v y = if y ∈ new ++ [x] then some t.cc else t.get v y := by
  obtain ⟨f1, f2, f3, f4, f5⟩ := foldl_setcc hinj (new ++ [x]) t hnew
  simp only [tjFinish, if_true, h1, h2]
  refine ⟨by rw [f1], by rw [f2], trivial, by rw [f4], ?_⟩
  intro y hy
  exact f5 y hy

/-! ### the contracts -/

/-- what `visit(x)` guarantees when started in `t` with `x` unvisited -/
def VisitPost (v : View) (i0 c0 : Nat) (num : Nat → Nat) (G : List Nat) (x : Nat) (t t' : TJ) : Prop :=
  ∃ (num' : Nat → Nat) (new : List Nat), TjInv v i0 c0 num' G t' ∧ t'.stack = new ++ t.stack ∧
    (∀ y ∈ v.g.nodes, (t.get v y).isSome → t'.get v y = t.get v y) ∧
    (∀ y ∈ G ++ t.stack, num' y = num y) ∧
    (∀ y ∈ t.out.flatten, y ∈ t'.out.flatten) ∧
    (∀ s ∈ new, Reach v.g x s) ∧
    ((new = [] ∧ x ∈ t'.out.flatten) ∨
      (x ∈ new ∧ ∃ rx, t'.get v x = some rx ∧ ∀ s ∈ new, ∃ r, t'.get v s = some r ∧ rx ≤ r))

/-- what the neighbour loop of `x` guarantees -/
def NeighPost (v : View) (i0 c0 : Nat) (num : Nat → Nat) (G : List Nat) (x : Nat) (stack0 pre ws : List Nat)
    (t t' : TJ) (lr' : Bool) : Prop :=
  ∃ (num' : Nat → Nat) (new' : List Nat) (rx' : Nat), TjInv v i0 c0 num' (x :: G) t' ∧
    TjLoop v num' x G stack0 new' lr' (pre ++ ws) t' rx' ∧
    (∀ y ∈ v.g.nodes, y ≠ x → (t.get v y).isSome → t'.get v y = t.get v y) ∧
    (∀ y ∈ (x :: G) ++ t.stack, num' y = num y) ∧
    (∀ y ∈ t.out.flatten, y ∈ t'.out.flatten)

def VisitContract (v : View) (i0 c0 f : Nat) : Prop :=
  ∀ (x : Nat) (t t' : TJ) (num : Nat → Nat) (G : List Nat), x ∈ v.g.nodes → t.get v x = none →
    TjInv v i0 c0 num G t → tjVisit v f x t = some t' → VisitPost v i0 c0 num G x t t'

def NeighContract (v : View) (i0 c0 f : Nat) : Prop :=
  ∀ (x : Nat) (ws : List Nat) (t : TJ) (lr : Bool) (t' : TJ) (lr' : Bool) (num : Nat → Nat)
    (G stack0 new pre : List Nat) (rx : Nat), (∀ w ∈ ws, v.g.Adj x w) →
    TjInv v i0 c0 num (x :: G) t → TjLoop v num x G stack0 new lr pre t rx →
    tjNeigh v f x ws t lr = some (t', lr') → NeighPost v i0 c0 num G x stack0 pre ws t t' lr'

section
variable {v : View} {i0 c0 : Nat}

/-- `visit`, from the contract of the neighbour loop -/
theorem visit_step (hv : ViewOk v) (hinj : IxInj v) (hB : i0 + v.g.nodes.length ≤ c0) {f : Nat}
    (ihN : NeighContract v i0 c0 f) : VisitContract v i0 c0 (f + 1) := by
  intro x t t' num G hx hfresh inv h
  rw [tjVisit_succ] at h
  cases hn : tjNeigh v f x (v.succ x) (tjEnter v t x) true with
  | none => rw [hn] at h; cases h
  | some p =>
    obtain ⟨t1, lr⟩ := p
    rw [hn] at h
    have h' : tjFinish v x t1 lr = t' := by simpa using h
    obtain ⟨e1, e2, e3, e4, e5⟩ := tjEnter_facts hinj hx t
    have invE := inv.enter hx hfresh e1 e2 e3 e4 e5
    have lpE := TjLoop.enter (num := num) (G := G) (t := t) hx e3 e5
    have hws : ∀ w ∈ v.succ x, v.g.Adj x w := fun w hw => (hv x w).mp hw
    obtain ⟨num1, new, rx, inv1, lp1, fr1, fn1, fo1⟩ := ihN x (v.succ x) _ true t1 lr _ G t.stack [] [] t.index
      hws invE lpE hn
    have hall : ∀ w, v.g.Adj x w → w ∈ [] ++ v.succ x := fun w hw => by simpa using (hv x w).mpr hw
    have hnx := inv.fresh hfresh
    -- frames from `t` to `t1`
    have hfrA : ∀ y ∈ G ++ t.stack, t1.get v y = t.get v y ∧ num1 y = num y := by
      intro y hy
      have hyx : y ≠ x := fun h => hnx (List.mem_append_left _ (h ▸ hy))
      have hyN : y ∈ v.g.nodes := inv.sub y (List.mem_append_left _ hy)
      have hsome : ((tjEnter v t x).get v y).isSome := by
        rw [e5 y hyN, if_neg hyx]
        exact inv.get_isSome (List.mem_append_left _ hy)
      refine ⟨?_, ?_⟩
      · rw [fr1 y hyN hyx hsome, e5 y hyN, if_neg hyx]
      · have : y ∈ (x :: G) ++ (tjEnter v t x).stack := by
          rw [e3]; simp only [List.cons_append]; exact List.mem_cons_of_mem _ hy
        rw [fn1 y this]
        simp [hyx]
    have hnumx : num1 x = t.index := by
      rw [fn1 x (by simp)]; simp
    have hout : ∀ y ∈ t.out.flatten, y ∈ t1.out.flatten := fun y hy => fo1 y (by rw [e4]; exact hy)
    have hfrV : ∀ y ∈ v.g.nodes, (t.get v y).isSome → t1.get v y = t.get v y := by
      intro y hyN hsome
      have hyx : y ≠ x := by
        intro h; rw [h, hfresh] at hsome; cases hsome
      rw [fr1 y hyN hyx (by rw [e5 y hyN, if_neg hyx]; exact hsome), e5 y hyN, if_neg hyx]
    cases lr with
    | false =>
      obtain ⟨p1, p2, p3, p4, p5⟩ := tjFinish_push v x t1
      rw [h'] at p1 p2 p3 p4 p5
      have inv' := push_step inv1 lp1 hall p1 p2 p3 p4 (fun y _ => p5 y)
      refine ⟨num1, x :: new, inv', by rw [p3, lp1.stk]; rfl, ?_, fun y hy => (hfrA y hy).2, ?_, ?_, Or.inr ⟨by simp, rx, ?_, ?_⟩⟩
      · intro y hyN hsome
        rw [p5 y, hfrV y hyN hsome]
      · intro y hy; rw [p4]; exact hout y hy
      · intro s hs
        cases List.mem_cons.mp hs with
        | inl h => exact h ▸ Reach.refl _
        | inr h => exact lp1.reach s h
      · rw [p5 x]; exact lp1.rootx
      · intro s hs
        rw [p5 s]
        cases List.mem_cons.mp hs with
        | inl h => exact ⟨rx, by rw [h]; exact lp1.rootx, Nat.le_refl _⟩
        | inr h => exact lp1.low s h
    | true =>
      obtain ⟨s1, s2⟩ := pop_shape inv inv1 lp1 hnumx hfrA
      have hnewN : ∀ a ∈ new ++ [x], a ∈ v.g.nodes := by
        intro a ha
        cases List.mem_append.mp ha with
        | inl h =>
          exact inv1.sub a (List.mem_append_left _ (List.mem_append_right _ (by rw [lp1.stk]; exact List.mem_append_left _ h)))
        | inr h =>
          have : a = x := by simpa using h
          exact this ▸ hx
      obtain ⟨p1, p2, p3, p4, p5⟩ := tjFinish_pop hinj hnewN s1 s2
      rw [h'] at p1 p2 p3 p4 p5
      have inv' := pop_step hB inv inv1 lp1 hall hnumx hfrA hout p1 p2 p3 p4 p5
      have hdisj : ∀ y ∈ v.g.nodes, (t.get v y).isSome → y ∉ new ++ [x] := by
        intro y hyN hsome hyc
        have hy0 := inv.vis y hyN hsome
        have hnd := inv1.nd
        rw [lp1.stk] at hnd
        have hperm : ((x :: G) ++ (new ++ t.stack) ++ t1.out.flatten).Perm
            ((new ++ [x]) ++ (G ++ t.stack ++ t1.out.flatten)) := by
          apply List.perm_iff_count.mpr
          intro a
          simp only [List.count_append, List.count_cons, List.count_nil]
          omega
        have hnd' := hnd.perm hperm
        have hy1 : y ∈ G ++ t.stack ++ t1.out.flatten := by
          cases List.mem_append.mp hy0 with
          | inl h => exact List.mem_append_left _ h
          | inr h => exact List.mem_append_right _ (hout y h)
        exact (List.nodup_append.mp hnd').2.2 y hyc y hy1 rfl
      refine ⟨num1, [], inv', by rw [p3]; rfl, ?_, fun y hy => (hfrA y hy).2, ?_, by simp, Or.inl ⟨rfl, ?_⟩⟩
      · intro y hyN hsome
        rw [p5 y hyN, if_neg (hdisj y hyN hsome), hfrV y hyN hsome]
      · intro y hy
        rw [p4]; simp only [List.flatten_append, List.mem_append]
        exact Or.inl (hout y hy)
      · rw [p4]; simp

/-- the neighbour loop, from the contract of `visit` and of the rest of the loop -/
theorem neigh_step (hwf : v.g.WellFormed) (hinj : IxInj v) (hB : i0 + v.g.nodes.length ≤ c0) {f : Nat}
    (ihV : VisitContract v i0 c0 f) (ihN : NeighContract v i0 c0 f) : NeighContract v i0 c0 (f + 1) := by
  intro x ws t lr t' lr' num G stack0 new pre rx hws inv lp h
  cases ws with
  | nil =>
    rw [tjNeigh_nil] at h
    cases h
    exact ⟨num, new, rx, inv, by simpa using lp, fun _ _ _ _ => rfl, fun _ _ => rfl, fun _ h => h⟩
  | cons w ws =>
    rw [tjNeigh_cons] at h
    have hadj : v.g.Adj x w := hws w (List.mem_cons_self ..)
    have hwN : w ∈ v.g.nodes := (adj_mem_nodes hwf hadj).2
    have hxN : x ∈ v.g.nodes := (adj_mem_nodes hwf hadj).1
    have hxA : x ∈ (x :: G) ++ t.stack := by simp
    -- the state after the optional recursive call
    have mid : ∃ (tm : TJ) (num1 : Nat → Nat) (newW : List Nat) (rw : Nat),
        (if (t.get v w).isNone then tjVisit v f w t else some t) = some tm ∧
        TjInv v i0 c0 num1 (x :: G) tm ∧ tm.stack = (newW ++ new) ++ stack0 ∧
        (∀ s ∈ newW ++ new, Reach v.g x s) ∧ tm.get v x = some rx ∧ tm.get v w = some rw ∧
        (∀ s ∈ new, ∃ r, tm.get v s = some r ∧ rx ≤ r) ∧ (∀ s ∈ newW, ∃ r, tm.get v s = some r ∧ rw ≤ r) ∧
        (lr = true → rx = num1 x) ∧ (lr = false → rx < num1 x) ∧
        (∀ w' ∈ pre, w' ∈ tm.out.flatten ∨ (w' ∈ (x :: G) ++ tm.stack ∧ rx ≤ num1 w')) ∧
        (w ∈ tm.out.flatten ∨ w ∈ (x :: G) ++ tm.stack) ∧
        (∀ y ∈ v.g.nodes, (t.get v y).isSome → tm.get v y = t.get v y) ∧
        (∀ y ∈ (x :: G) ++ t.stack, num1 y = num y) ∧
        (∀ y ∈ t.out.flatten, y ∈ tm.out.flatten) ∧
        (∀ y ∈ (x :: G) ++ t.stack, y ∈ (x :: G) ++ tm.stack) := by
      by_cases hw : (t.get v w).isNone = true
      · rw [if_pos hw]
        have hwf' : t.get v w = none := by simpa using hw
        cases hvis : tjVisit v f w t with
        | none => rw [if_pos hw, hvis] at h; cases h
        | some tm =>
          obtain ⟨num1, newW, inv1, hstk1, hfr1, hnum1, hout1, hreach1, halt⟩ :=
            ihV w t tm num (x :: G) hwN hwf' inv hvis
          have hgrow : ∀ y ∈ (x :: G) ++ t.stack, y ∈ (x :: G) ++ tm.stack := by
            intro y hy
            rw [hstk1]
            cases List.mem_append.mp hy with
            | inl h => exact List.mem_append_left _ h
            | inr h => exact List.mem_append_right _ (List.mem_append_right _ h)
          have hrw : ∃ rw, tm.get v w = some rw ∧ (∀ s ∈ newW, ∃ r, tm.get v s = some r ∧ rw ≤ r) ∧
              (w ∈ tm.out.flatten ∨ w ∈ (x :: G) ++ tm.stack) := by
            cases halt with
            | inl h1 =>
              obtain ⟨j, _, hj⟩ := inv1.get_done h1.2
              exact ⟨_, hj, by rw [h1.1]; simp, Or.inl h1.2⟩
            | inr h1 =>
              obtain ⟨hwn, rw, h2, h3⟩ := h1
              refine ⟨rw, h2, h3, Or.inr ?_⟩
              rw [hstk1]
              exact List.mem_append_right _ (List.mem_append_left _ hwn)
          obtain ⟨rw, hrw1, hrw2, hrw3⟩ := hrw
          have hsomeA : ∀ y ∈ (x :: G) ++ t.stack, tm.get v y = t.get v y := fun y hy =>
            hfr1 y (inv.sub y (List.mem_append_left _ hy)) (inv.get_isSome (List.mem_append_left _ hy))
          refine ⟨tm, num1, newW, rw, rfl, inv1, ?_, ?_, ?_, hrw1, ?_, hrw2, ?_, ?_, ?_, hrw3, hfr1, hnum1, hout1, hgrow⟩
          · rw [hstk1, lp.stk, List.append_assoc]
          · intro s hs
            cases List.mem_append.mp hs with
            | inl h => exact reach_trans (reach_of_adj hadj) (hreach1 s h)
            | inr h => exact lp.reach s h
          · rw [hsomeA x hxA]; exact lp.rootx
          · intro s hs
            have hsA : s ∈ (x :: G) ++ t.stack := by
              rw [lp.stk]; exact List.mem_append_right _ (List.mem_append_left _ hs)
            rw [hsomeA s hsA]
            exact lp.low s hs
          · intro hl; rw [hnum1 x hxA]; exact lp.lrT hl
          · intro hl; rw [hnum1 x hxA]; exact lp.lrF hl
          · intro w' hw'
            cases lp.edges w' hw' with
            | inl h => exact Or.inl (hout1 w' h)
            | inr h => exact Or.inr ⟨hgrow w' h.1, by rw [hnum1 w' h.1]; exact h.2⟩
      · rw [if_neg hw]
        have hsome : (t.get v w).isSome = true := by
          cases hg : t.get v w with
          | none => rw [hg] at hw; exact absurd rfl hw
          | some r => rfl
        obtain ⟨rw, hrw⟩ := Option.isSome_iff_exists.mp hsome
        have hstat : w ∈ t.out.flatten ∨ w ∈ (x :: G) ++ t.stack := by
          cases List.mem_append.mp (inv.vis w hwN hsome) with
          | inl h => exact Or.inr h
          | inr h => exact Or.inl h
        exact ⟨t, num, [], rw, rfl, inv, by simpa using lp.stk, by simpa using lp.reach, lp.rootx, hrw, lp.low,
          by simp, lp.lrT, lp.lrF, lp.edges, hstat, fun _ _ _ => rfl, fun _ _ => rfl, fun _ h => h, fun _ h => h⟩
    obtain ⟨tm, num1, newW, rw, hmid, inv1, hstk1, hreach1, hrootx, hrootw, hlowA, hlowW, hlrT, hlrF, hedges,
      hstat, hfr1, hnum1, hout1, hgrow⟩ := mid
    rw [hmid] at h
    simp only [Option.bind_some] at h
    rw [hrootw, hrootx] at h
    have hws' : ∀ w' ∈ ws, v.g.Adj x w' := fun w' hw' => hws w' (List.mem_cons_of_mem _ hw')
    by_cases hcond : optLt (some rw) (some rx) = true
    · rw [if_pos hcond] at h
      have hlt : rw < rx := by simpa [optLt] using hcond
      have hg : ∀ y ∈ v.g.nodes, (tm.set v x (some rw)).get v y = if y = x then some rw else tm.get v y :=
        fun y hy => TJ.get_set hinj hxN hy tm rw
      obtain ⟨inv2, lp2⟩ := compare_lt hB inv1 hadj hstk1 hreach1 hrootx hrootw hlowA hlowW hedges hstat hlt
        (TJ.set_index ..) (TJ.set_cc ..) (TJ.set_stack ..) (TJ.set_out' ..) hg
      obtain ⟨num2, new2, rx2, inv3, lp3, fr3, fn3, fo3⟩ := ihN x ws _ false t' lr' num1 G stack0 _ _ rw hws' inv2 lp2 h
      refine ⟨num2, new2, rx2, inv3, by simpa using lp3, ?_, ?_, ?_⟩
      · intro y hyN hyx hsome
        have h1 := hfr1 y hyN hsome
        rw [fr3 y hyN hyx (by rw [hg y hyN, if_neg hyx, h1]; exact hsome), hg y hyN, if_neg hyx, h1]
      · intro y hy
        rw [fn3 y (by rw [TJ.set_stack]; exact hgrow y hy), hnum1 y hy]
      · intro y hy
        exact fo3 y (by rw [TJ.set_out']; exact hout1 y hy)
    · rw [if_neg hcond] at h
      have hge : ¬ rw < rx := by simpa [optLt] using hcond
      have lp2 := compare_ge inv1 hstk1 hreach1 hrootx hrootw hlowA hlowW hlrT hlrF hedges hstat hge
      obtain ⟨num2, new2, rx2, inv3, lp3, fr3, fn3, fo3⟩ := ihN x ws _ lr t' lr' num1 G stack0 _ _ rx hws' inv1 lp2 h
      refine ⟨num2, new2, rx2, inv3, by simpa using lp3, ?_, ?_, ?_⟩
      · intro y hyN hyx hsome
        have h1 := hfr1 y hyN hsome
        rw [fr3 y hyN hyx (by rw [h1]; exact hsome), h1]
      · intro y hy
        rw [fn3 y (hgrow y hy), hnum1 y hy]
      · intro y hy
        exact fo3 y (hout1 y hy)

/-- **the contracts hold for every fuel** -/
theorem tarjan_contracts (hv : ViewOk v) (hwf : v.g.WellFormed) (hinj : IxInj v)
    (hB : i0 + v.g.nodes.length ≤ c0) : ∀ f, VisitContract v i0 c0 f ∧ NeighContract v i0 c0 f := by
  intro f
  induction f with
  | zero =>
    refine ⟨?_, ?_⟩
    · intro x t t' num G _ _ _ h; simp [tjVisit] at h
    · intro x ws t lr t' lr' num G stack0 new pre rx _ _ _ h; simp [tjNeigh] at h
  | succ f ih =>
    exact ⟨visit_step hv hinj hB ih.2, neigh_step hwf hinj hB ih.1 ih.2⟩

/-! ### `TarjanScc::run` -/

theorem tjRun_fold (hv : ViewOk v) (hwf : v.g.WellFormed) (hinj : IxInj v) (hB : i0 + v.g.nodes.length ≤ c0) :
    ∀ (l : List Nat) (s s' : TJ) (num : Nat → Nat), (∀ n ∈ l, n ∈ v.g.nodes) → TjInv v i0 c0 num [] s →
      l.foldlM (tjRunStep v) s = some s' →
      (∃ num', TjInv v i0 c0 num' [] s') ∧ (∀ y ∈ v.g.nodes, (s.get v y).isSome → (s'.get v y).isSome) ∧
        ∀ y ∈ l, (s'.get v y).isSome := by
  intro l
  induction l with
  | nil =>
    intro s s' num _ inv h
    simp at h; subst h
    exact ⟨⟨num, inv⟩, fun _ _ h => h, by simp⟩
  | cons n l ih =>
    intro s s' num hl inv h
    rw [List.foldlM_cons] at h
    cases hstep : tjRunStep v s n with
    | none => rw [hstep] at h; cases h
    | some s1 =>
      rw [hstep] at h
      have h' : l.foldlM (tjRunStep v) s1 = some s' := h
      have hnN : n ∈ v.g.nodes := hl n (List.mem_cons_self ..)
      have hl' : ∀ n ∈ l, n ∈ v.g.nodes := fun m hm => hl m (List.mem_cons_of_mem _ hm)
      have key : ∃ num1, TjInv v i0 c0 num1 [] s1 ∧
          (∀ y ∈ v.g.nodes, (s.get v y).isSome → (s1.get v y).isSome) ∧ (s1.get v n).isSome := by
        unfold tjRunStep at hstep
        by_cases hn : (s.get v n).isNone = true
        · rw [if_pos hn] at hstep
          have hfresh : s.get v n = none := by simpa using hn
          obtain ⟨num1, new, inv1, hstk, hfr, _, _, _, halt⟩ :=
            (tarjan_contracts hv hwf hinj hB _).1 n s s1 num [] hnN hfresh inv hstep
          refine ⟨num1, inv1, fun y hy hs => by rw [hfr y hy hs]; exact hs, ?_⟩
          cases halt with
          | inl h1 => exact inv1.get_isSome (List.mem_append_right _ h1.2)
          | inr h1 =>
            refine inv1.get_isSome (List.mem_append_left _ ?_)
            rw [hstk]
            exact List.mem_append_right _ (List.mem_append_left _ h1.1)
        · rw [if_neg hn] at hstep
          cases hstep
          refine ⟨num, inv, fun _ _ h => h, ?_⟩
          cases hg : s.get v n with
          | none => rw [hg] at hn; exact absurd rfl hn
          | some r => rfl
      obtain ⟨num1, inv1, hmono1, hn1⟩ := key
      obtain ⟨hinv', hmono', hall'⟩ := ih s1 s' num1 hl' inv1 h'
      refine ⟨hinv', fun y hy hs => hmono' y hy (hmono1 y hy hs), ?_⟩
      intro y hy
      cases List.mem_cons.mp hy with
      | inl h => exact h ▸ hmono' n hnN hn1
      | inr h => exact hall' y h

end

/-- what a run of `TarjanScc` leaves behind: the components (exact, in reverse topological order), a
clean workspace (`index` restored, stack empty) and `rootindex = componentcount` per component -/
structure TjRunSpec (v : View) (t t' : TJ) : Prop where
  scc : SccSpec v.g t'.out
  stack : t'.stack = []
  index : t'.index = t.index
  cc : t'.cc + t'.out.length = t.cc
  len : t'.out.length ≤ v.g.nodes.length
  root : ∀ j c, t'.out[j]? = some c → ∀ y ∈ c, t'.get v y = some (t.cc - j)

/-- **`TarjanScc::run` is exact** on a clean value (stack empty, `index + |nodes| ≤ componentcount`), for
every view over a well-formed graph with an injective `to_index`. -/
theorem tjRun_spec (v : View) (hv : ViewOk v) (hwf : v.g.WellFormed) (hinj : IxInj v) (t t' : TJ)
    (hst : t.stack = []) (hB : t.index + v.g.nodes.length ≤ t.cc) (h : tjRun v t = some t') :
    TjRunSpec v t t' := by
  unfold tjRun at h
  have inv0 : TjInv v t.index t.cc (fun _ => 0) [] { t with root := [], out := [] } := by
    refine ⟨by simp [hst], by simp [hst], ?_, by simp [hst], by simp, by simp, by simp, by simp [hst],
      by simp [hst], by simp [hst], by simp, by simp [hst], by simp, by simp⟩
    intro y _ hs
    simp [TJ.get] at hs
  obtain ⟨⟨num', inv⟩, _, hall⟩ := tjRun_fold hv hwf hinj hB v.g.nodes _ t' _ (fun _ h => h) inv0 h
  have hstk := inv.stack_nil
  have hmem : ∀ y, y ∈ [] ++ t'.stack ++ t'.out.flatten ↔ y ∈ t'.out.flatten := by
    intro y; rw [hstk]; simp
  have hcover : ∀ x, x ∈ t'.out.flatten ↔ x ∈ v.g.nodes :=
    fun x => ⟨fun hx => inv.sub x ((hmem x).mpr hx), fun hx => (hmem x).mp (inv.vis x hx (hall x hx))⟩
  have hnd : t'.out.flatten.Nodup := by
    have := inv.nd
    rw [hstk] at this
    simpa using this
  refine ⟨⟨inv.ne, hnd, hcover, inv.classes, inv.order⟩, hstk, ?_, inv.ccv, ?_, inv.doneRoot⟩
  · have := inv.idx
    rw [hstk] at this
    simpa using this
  · have h1 := length_le_flatten t'.out inv.ne
    have h2 := List.Nodup.length_le_of_subset hnd (fun a ha => (hcover a).mp ha)
    omega

/-- `node_component_index` is consistent with the components of a run -/
theorem tjIndex_spec {v : View} {t t' : TJ} (hr : TjRunSpec v t t') (hcc : t.cc ≤ usizeMax) :
    IndexSpec t'.out (v.g.nodes.map fun x => (x, tjIndex v t' x)) := by
  have hlen : t'.out.length ≤ t.cc := by have := hr.cc; omega
  have hidx : ∀ x, x ∈ v.g.nodes → ∃ (a : Nat) (ca : List Nat), t'.out[a]? = some ca ∧ x ∈ ca ∧ a < t'.out.length ∧
      tjIndex v t' x = usizeMax - (t.cc - a) := by
    intro x hx
    obtain ⟨a, ca, ha, hxa⟩ := exists_getElem?_of_mem_flatten ((hr.scc.cover x).mpr hx)
    refine ⟨a, ca, ha, hxa, (List.getElem?_eq_some_iff.mp ha).1, ?_⟩
    unfold tjIndex
    rw [hr.root a ca ha x hxa]
    rfl
  refine ⟨?_, ?_⟩
  · intro c hc x hx
    have hxN : x ∈ v.g.nodes := (hr.scc.cover x).mp (List.mem_flatten.mpr ⟨c, hc, hx⟩)
    exact ⟨tjIndex v t' x, List.mem_map.mpr ⟨x, hxN, rfl⟩⟩
  · intro x i y j hxi hyj
    obtain ⟨x', hx', hxe⟩ := List.mem_map.mp hxi
    obtain ⟨y', hy', hye⟩ := List.mem_map.mp hyj
    cases hxe; cases hye
    obtain ⟨a, ca, ha, hxa, hal, hia⟩ := hidx x hx'
    obtain ⟨b, cb, hb, hyb, hbl, hib⟩ := hidx y hy'
    rw [hia, hib]
    constructor
    · intro heq
      have hab : a = b := by omega
      subst hab
      rw [ha] at hb
      cases hb
      exact ⟨ca, List.mem_of_getElem? ha, hxa, hyb⟩
    · rintro ⟨c, hc, hxc, hyc⟩
      obtain ⟨k, hk⟩ := List.getElem?_of_mem hc
      have hkl := (List.getElem?_eq_some_iff.mp hk).1
      have h1 := hr.root k c hk x hxc
      have h2 := hr.root a ca ha x hxa
      have h3 := hr.root k c hk y hyc
      have h4 := hr.root b cb hb y hyb
      rw [h1] at h2; rw [h3] at h4
      have e1 : t.cc - k = t.cc - a := Option.some.inj h2
      have e2 : t.cc - k = t.cc - b := Option.some.inj h4
      omega

/-- **`TarjanScc::run`, fresh and again on the used value** (the size hypothesis is what keeps `index`
below `componentcount`, which counts down from `usize::MAX`) -/
theorem tarjan_spec (v : View) (hv : ViewOk v) (hinj : IxInj v) (hwf : v.g.WellFormed)
    (hsize : 2 * v.g.nodes.length + 1 ≤ usizeMax) (t1 : TJ) (h1 : tjRun v {} = some t1) :
    (SccSpec v.g t1.out ∧ IndexSpec t1.out (v.g.nodes.map fun x => (x, tjIndex v t1 x))) ∧
    ∀ t2, tjRun v t1 = some t2 →
      SccSpec v.g t2.out ∧ IndexSpec t2.out (v.g.nodes.map fun x => (x, tjIndex v t2 x)) := by
  have r1 := tjRun_spec v hv hwf hinj {} t1 rfl (by show 1 + _ ≤ usizeMax; omega) h1
  refine ⟨⟨r1.scc, tjIndex_spec r1 (Nat.le_refl _)⟩, ?_⟩
  intro t2 h2
  have hi1 : t1.index = 1 := r1.index
  have hc1 : t1.cc + t1.out.length = usizeMax := r1.cc
  have hl1 := r1.len
  have r2 := tjRun_spec v hv hwf hinj t1 t2 r1.stack (by omega) h2
  exact ⟨r2.scc, tjIndex_spec r2 (by omega)⟩

end PetgraphModel.C09P
