import PetgraphModel.Proofs.C15Greedy
import PetgraphModel.Proofs.C15W2Loops
/-
C15 wave 2 — basics for the proof that the Gabow mirror model returns a valid matching:
array accessors, hypotheses on the view, the invariant of the `mate` array between searches, and the
counting lemma "`edges()` has half as many entries as there are matched nodes".
-/
namespace PetgraphModel.C15W2
open PetgraphModel PetgraphModel.C15 PetgraphModel.C15M PetgraphModel.C15P

/-! ### reading the arrays -/

/-- `label[i]` (`None` outside) -/
def labI (lab : List Label) (i : Nat) : Label := (lab[i]?).getD .none
/-- `first_inner[i]` -/
def fiI (fi : List Nat) (i : Nat) : Nat := (fi[i]?).getD usizeMax

theorem labI_set (lab : List Label) (i j : Nat) (x : Label) (hi : i < lab.length) :
    labI (lab.set i x) j = if i = j then x else labI lab j := by
  unfold labI
  rw [List.getElem?_set]
  by_cases hij : i = j
  · subst hij; simp [hi]
  · simp [hij]

theorem fiI_set (fi : List Nat) (i j : Nat) (x : Nat) (hi : i < fi.length) :
    fiI (fi.set i x) j = if i = j then x else fiI fi j := by
  unfold fiI
  rw [List.getElem?_set]
  by_cases hij : i = j
  · subst hij; simp [hi]
  · simp [hij]

theorem labI_of_ge (lab : List Label) (i : Nat) (h : lab.length ≤ i) : labI lab i = .none := by
  unfold labI; rw [List.getElem?_eq_none h]; rfl

theorem labI_outer_lt (lab : List Label) (i : Nat) (h : (labI lab i).isOuter = true) : i < lab.length := by
  by_cases hi : i < lab.length
  · exact hi
  · rw [labI_of_ge lab i (by omega)] at h; cases h

theorem getLabel_eq (s : GS) (i : Nat) (h : i < s.label.length) : s.getLabel i = (labI s.label i, false) := by
  unfold GS.getLabel labI
  rw [List.getElem?_eq_getElem h]; rfl

theorem getLabel_fst (s : GS) (i : Nat) : (s.getLabel i).1 = labI s.label i := by
  unfold GS.getLabel labI
  cases s.label[i]? <;> rfl

theorem getFi_eq (s : GS) (i : Nat) (h : i < s.fi.length) : s.getFi i = (fiI s.fi i, false) := by
  unfold GS.getFi fiI
  rw [List.getElem?_eq_getElem h]; rfl

theorem getMate_eq (s : GS) (i : Nat) (h : i < s.mate.length) : s.getMate i = (getM s.mate i, false) := by
  unfold GS.getMate getM
  rw [List.getElem?_eq_getElem h]

theorem getMate_fst (s : GS) (i : Nat) : (s.getMate i).1 = getM s.mate i := by
  unfold GS.getMate getM
  cases s.mate[i]? <;> rfl

theorem flt_false (s : GS) : s.flt false = s := rfl

/-- function update -/
def upd {β : Type} (f : Nat → β) (a : Nat) (x : β) : Nat → β := fun b => if b = a then x else f b

@[simp] theorem upd_same {β : Type} (f : Nat → β) (a : Nat) (x : β) : upd f a x a = x := by simp [upd]
theorem upd_other {β : Type} (f : Nat → β) (a b : Nat) (x : β) (h : b ≠ a) : upd f a x b = f b := by
  simp [upd, h]

/-! ### list helpers -/

theorem nodup_map_of_inj_on {α β : Type} (f : α → β) : ∀ (l : List α), l.Nodup →
    (∀ x ∈ l, ∀ y ∈ l, f x = f y → x = y) → (l.map f).Nodup
  | [], _, _ => by simp
  | a :: l, hn, hinj => by
    rw [List.map_cons, List.nodup_cons]
    refine ⟨?_, nodup_map_of_inj_on f l (List.nodup_cons.mp hn).2
      (fun x hx y hy => hinj x (List.mem_cons_of_mem _ hx) y (List.mem_cons_of_mem _ hy))⟩
    intro hmem
    obtain ⟨b, hb, hfb⟩ := List.mem_map.mp hmem
    have := hinj b (List.mem_cons_of_mem _ hb) a (List.mem_cons_self ..) hfb
    subst this
    exact (List.nodup_cons.mp hn).1 hb

/-! ### hypotheses on the view -/

/-- what the proof needs from the view (all of it follows from `IxOk`, well-formedness, the exactness
of the neighbour rows, and the vacancy condition) -/
structure VHyp (v : View) (mode : Nat) : Prop where
  ix : IxOk v
  nodup : v.g.nodes.Nodup
  /-- every row entry is an edge of the graph between live nodes -/
  out : ∀ a b eid, (b, eid) ∈ v.outOf a → a ∈ v.g.nodes ∧ b ∈ v.g.nodes ∧ (a ≠ b → Joined v.g a b)
  /-- an edge key determines the endpoint pair -/
  key : ∀ a b eid a' b' eid', (b, eid) ∈ v.outOf a → (b', eid') ∈ v.outOf a' →
    edgeKey mode eid a b = edgeKey mode eid' a' b' → (a = a' ∧ b = b') ∨ (a = b' ∧ b = a')
  /-- `from_index` of a vacant index is not a live node -/
  vac : ∀ i, i < v.nb → (∀ a ∈ v.g.nodes, v.toIndex a ≠ i) → fromIndex v i ∉ v.g.nodes

theorem VHyp.idx_ne_nb {v : View} {mode : Nat} (h : VHyp v mode) {a : Nat} (ha : a ∈ v.g.nodes) :
    v.toIndex a ≠ v.nb := by
  have := h.ix.lt a ha; omega

theorem VHyp.nodes_le {v : View} {mode : Nat} (h : VHyp v mode) : v.g.nodes.length ≤ v.nb := by
  have h1 : (v.g.nodes.map v.toIndex).Nodup :=
    nodup_map_of_inj_on _ _ h.nodup (fun a ha b hb hab => h.ix.inj a ha b hb hab)
  have h2 : v.g.nodes.map v.toIndex ⊆ List.range v.nb := by
    intro i hi
    obtain ⟨a, ha, rfl⟩ := List.mem_map.mp hi
    exact List.mem_range.mpr (h.ix.lt a ha)
  have := List.Nodup.length_le_of_subset h1 h2
  simpa using this

/-! ### the `mate` array (with the dummy slot) between two searches -/

structure MateInv (v : View) (mate : List (Option Nat)) (n : Nat) : Prop where
  len : mate.length = v.nb + 1
  live : ∀ i x, mate[i]? = some (some x) → x ∈ v.g.nodes ∧ ∃ a ∈ v.g.nodes, v.toIndex a = i
  symm : ∀ a ∈ v.g.nodes, ∀ b, getM mate (v.toIndex a) = some b → getM mate (v.toIndex b) = some a
  joined : ∀ a ∈ v.g.nodes, ∀ b, getM mate (v.toIndex a) = some b → Joined v.g a b
  cnt : 2 * n = (v.g.nodes.filter fun a => (getM mate (v.toIndex a)).isSome).length

theorem MateInv.mate_mem {v : View} {mate : List (Option Nat)} {n : Nat} (h : MateInv v mate n)
    {i b : Nat} (hb : getM mate i = some b) : b ∈ v.g.nodes :=
  (h.live _ _ ((getM_some_iff _ _ _).mp hb)).1

theorem MateInv.dummy {v : View} {mode : Nat} {mate : List (Option Nat)} {n : Nat} (hv : VHyp v mode)
    (h : MateInv v mate n) : getM mate v.nb = none := by
  cases hg : getM mate v.nb with
  | none => rfl
  | some x =>
    obtain ⟨_, a, ha, hia⟩ := h.live _ _ ((getM_some_iff _ _ _).mp hg)
    exact absurd hia (hv.idx_ne_nb ha)

/-! ### counting -/

theorem countP_eq_of_same_support {α : Type} [DecidableEq α] (q : α → Bool) (l1 l2 : List α)
    (h1 : l1.Nodup) (h2 : l2.Nodup) (hs : ∀ x, q x = true → (x ∈ l1 ↔ x ∈ l2)) :
    l1.countP q = l2.countP q := by
  rw [List.countP_eq_length_filter, List.countP_eq_length_filter]
  have a1 : (l1.filter q).Nodup := h1.filter _
  have a2 : (l2.filter q).Nodup := h2.filter _
  have s1 : l1.filter q ⊆ l2.filter q := by
    intro x hx
    have := List.mem_filter.mp hx
    exact List.mem_filter.mpr ⟨(hs x this.2).mp this.1, this.2⟩
  have s2 : l2.filter q ⊆ l1.filter q := by
    intro x hx
    have := List.mem_filter.mp hx
    exact List.mem_filter.mpr ⟨(hs x this.2).mpr this.1, this.2⟩
  have := List.Nodup.length_le_of_subset a1 s1
  have := List.Nodup.length_le_of_subset a2 s2
  omega

theorem countP_split {α : Type} (p a b : α → Bool) :
    ∀ (l : List α), (∀ x ∈ l, (p x).toNat = (a x).toNat + (b x).toNat) →
      l.countP p = l.countP a + l.countP b
  | [], _ => by simp
  | x :: l, h => by
    have ih := countP_split p a b l (fun y hy => h y (List.mem_cons_of_mem _ hy))
    have hx := h x (List.mem_cons_self ..)
    rw [List.countP_cons, List.countP_cons, List.countP_cons, ih]
    cases hp : p x <;> cases ha : a x <;> cases hb : b x <;> simp [hp, ha, hb] at hx ⊢ <;> omega

theorem countP_le_of_inj {α : Type} [DecidableEq α] (a b : α → Bool) (f : α → α) (l : List α) (hl : l.Nodup)
    (hmap : ∀ x ∈ l, a x = true → f x ∈ l ∧ b (f x) = true)
    (hinj : ∀ x ∈ l, ∀ y ∈ l, a x = true → a y = true → f x = f y → x = y) :
    l.countP a ≤ l.countP b := by
  rw [List.countP_eq_length_filter, List.countP_eq_length_filter]
  have hn : ((l.filter a).map f).Nodup := by
    apply nodup_map_of_inj_on _ _ (hl.filter _)
    intro x hx y hy hxy
    have hx' := List.mem_filter.mp hx
    have hy' := List.mem_filter.mp hy
    exact hinj x hx'.1 y hy'.1 hx'.2 hy'.2 hxy
  have hs : (l.filter a).map f ⊆ l.filter b := by
    intro y hy
    obtain ⟨x, hx, rfl⟩ := List.mem_map.mp hy
    have hx' := List.mem_filter.mp hx
    have := hmap x hx'.1 hx'.2
    exact List.mem_filter.mpr this
  have := List.Nodup.length_le_of_subset hn hs
  simpa using this

/-- `edges()` of a symmetric, irreflexive `mate` vector with live entries has half as many entries as
there are matched nodes -/
theorem edges_length (v : View) (hix : IxOk v) (hnd : v.g.nodes.Nodup) (m : Matching)
    (hlen : m.mate.length = v.nb)
    (hlive : ∀ i x, m.mate[i]? = some (some x) → x ∈ v.g.nodes ∧ ∃ a ∈ v.g.nodes, v.toIndex a = i)
    (hsymm : ∀ a ∈ v.g.nodes, ∀ b, m.mateOf v a = some b → m.mateOf v b = some a)
    (hirr : ∀ a ∈ v.g.nodes, m.mateOf v a ≠ some a) :
    2 * (m.edges v).length = (v.g.nodes.filter fun a => (m.mateOf v a).isSome).length := by
  rw [edges_eq, length_filterMap_eq_countP]
  -- move the count from indices to nodes
  have hidxN : (v.g.nodes.map v.toIndex).Nodup :=
    nodup_map_of_inj_on _ _ hnd (fun a ha b hb hab => hix.inj a ha b hb hab)
  have h1 : (List.range m.mate.length).countP (fun i => (edgeAt v m.mate i).isSome) =
      (v.g.nodes.map v.toIndex).countP (fun i => (edgeAt v m.mate i).isSome) := by
    apply countP_eq_of_same_support _ _ _ List.nodup_range hidxN
    intro i hq
    unfold edgeAt at hq
    split at hq
    · rename_i x hx
      obtain ⟨_, a, ha, hia⟩ := hlive i x hx
      constructor
      · intro _; exact List.mem_map.mpr ⟨a, ha, hia⟩
      · intro _
        rw [List.mem_range]
        by_cases hc : i < m.mate.length
        · exact hc
        · rw [List.getElem?_eq_none (by omega)] at hx; cases hx
    · cases hq
  rw [h1, List.countP_map]
  -- the two orientations
  let A : Nat → Bool := fun a => match m.mateOf v a with
    | some b => decide (v.toIndex a < v.toIndex b) | none => false
  let B : Nat → Bool := fun a => match m.mateOf v a with
    | some b => decide (v.toIndex b < v.toIndex a) | none => false
  have hA : v.g.nodes.countP ((fun i => (edgeAt v m.mate i).isSome) ∘ v.toIndex) = v.g.nodes.countP A := by
    apply List.countP_congr
    intro a _
    simp only [Function.comp, A, edgeAt, mateOf_eq, getM]
    cases h : m.mate[v.toIndex a]? with
    | none => simp
    | some o =>
      cases o with
      | none => simp
      | some b =>
        by_cases hlt : v.toIndex a < v.toIndex b <;> simp [hlt]
  rw [hA, ← List.countP_eq_length_filter]
  have hsplit : v.g.nodes.countP (fun a => (m.mateOf v a).isSome) = v.g.nodes.countP A + v.g.nodes.countP B := by
    apply countP_split
    intro a ha
    simp only [A, B]
    cases h : m.mateOf v a with
    | none => simp
    | some b =>
      have hb : b ∈ v.g.nodes := (hlive _ _ ((getM_some_iff _ _ _).mp h)).1
      have hne : a ≠ b := fun e => hirr a ha (e ▸ h)
      have hi : v.toIndex a ≠ v.toIndex b := fun e => hne (hix.inj a ha b hb e)
      by_cases hlt : v.toIndex a < v.toIndex b
      · have : ¬ v.toIndex b < v.toIndex a := by omega
        simp [hlt, this]
      · have : v.toIndex b < v.toIndex a := by omega
        simp [hlt, this]
  let f : Nat → Nat := fun a => (m.mateOf v a).getD 0
  have hAB : v.g.nodes.countP A ≤ v.g.nodes.countP B := by
    apply countP_le_of_inj A B f _ hnd
    · intro a ha hAa
      simp only [A] at hAa
      cases h : m.mateOf v a with
      | none => rw [h] at hAa; cases hAa
      | some b =>
        rw [h] at hAa
        have hb : b ∈ v.g.nodes := (hlive _ _ ((getM_some_iff _ _ _).mp h)).1
        have hba := hsymm a ha b h
        simp only [f, h, Option.getD_some, B, hba]
        exact ⟨hb, hAa⟩
    · intro a ha b hb hAa hAb hf
      simp only [A] at hAa hAb
      cases h1 : m.mateOf v a with
      | none => rw [h1] at hAa; cases hAa
      | some x =>
        cases h2 : m.mateOf v b with
        | none => rw [h2] at hAb; cases hAb
        | some y =>
          simp only [f, h1, h2, Option.getD_some] at hf
          subst hf
          have e1 := hsymm a ha x h1
          have e2 := hsymm b hb x h2
          rw [e1] at e2
          exact Option.some.inj e2
  have hBA : v.g.nodes.countP B ≤ v.g.nodes.countP A := by
    apply countP_le_of_inj B A f _ hnd
    · intro a ha hBa
      simp only [B] at hBa
      cases h : m.mateOf v a with
      | none => rw [h] at hBa; cases hBa
      | some b =>
        rw [h] at hBa
        have hb : b ∈ v.g.nodes := (hlive _ _ ((getM_some_iff _ _ _).mp h)).1
        have hba := hsymm a ha b h
        simp only [f, h, Option.getD_some, A, hba]
        exact ⟨hb, hBa⟩
    · intro a ha b hb hBa hBb hf
      simp only [B] at hBa hBb
      cases h1 : m.mateOf v a with
      | none => rw [h1] at hBa; cases hBa
      | some x =>
        cases h2 : m.mateOf v b with
        | none => rw [h2] at hBb; cases hBb
        | some y =>
          simp only [f, h1, h2, Option.getD_some] at hf
          subst hf
          have e1 := hsymm a ha x h1
          have e2 := hsymm b hb x h2
          rw [e1] at e2
          exact Option.some.inj e2
  omega

/-- the final `Matching` (dummy slot dropped) of a good `mate` array is well formed and valid -/
theorem MateInv.final {v : View} {mode : Nat} (hv : VHyp v mode) {mate : List (Option Nat)} {n : Nat}
    (h : MateInv v mate n) :
    MWF v { mate := mate.take v.nb, nEdges := n, fault := false } ∧
    MateValid v.g (mateTable v { mate := mate.take v.nb, nEdges := n, fault := false }) := by
  have hget : ∀ i, i < v.nb → (mate.take v.nb)[i]? = mate[i]? := by
    intro i hi
    rw [List.getElem?_take]; simp [hi]
  have hmo : ∀ a ∈ v.g.nodes,
      ({ mate := mate.take v.nb, nEdges := n, fault := false } : Matching).mateOf v a = getM mate (v.toIndex a) := by
    intro a ha
    rw [mateOf_eq]
    unfold getM
    rw [hget _ (hv.ix.lt a ha)]
  have hlive : ∀ i x, (mate.take v.nb)[i]? = some (some x) → x ∈ v.g.nodes ∧ ∃ a ∈ v.g.nodes, v.toIndex a = i := by
    intro i x hx
    rw [List.getElem?_take] at hx
    split at hx
    · exact h.live i x hx
    · cases hx
  have hsymm : ∀ a ∈ v.g.nodes, ∀ b,
      ({ mate := mate.take v.nb, nEdges := n, fault := false } : Matching).mateOf v a = some b →
      ({ mate := mate.take v.nb, nEdges := n, fault := false } : Matching).mateOf v b = some a := by
    intro a ha b hab
    rw [hmo a ha] at hab
    rw [hmo b (h.mate_mem hab)]
    exact h.symm a ha b hab
  have hirr : ∀ a ∈ v.g.nodes,
      ({ mate := mate.take v.nb, nEdges := n, fault := false } : Matching).mateOf v a ≠ some a := by
    intro a ha hab
    rw [hmo a ha] at hab
    exact (h.joined a ha a hab).1 rfl
  have hlen : (mate.take v.nb).length = v.nb := by
    rw [List.length_take, h.len]; omega
  have hcnt : (v.g.nodes.filter fun a =>
      (({ mate := mate.take v.nb, nEdges := n, fault := false } : Matching).mateOf v a).isSome) =
      (v.g.nodes.filter fun a => (getM mate (v.toIndex a)).isSome) := by
    apply List.filter_congr
    intro a ha
    rw [hmo a ha]
  have hE := edges_length v hv.ix hv.nodup { mate := mate.take v.nb, nEdges := n, fault := false }
    hlen hlive hsymm hirr
  have hwf : MWF v { mate := mate.take v.nb, nEdges := n, fault := false } := by
    refine ⟨hlen, rfl, hlive, hsymm, hirr, ?_, ?_⟩
    · have := h.cnt
      rw [hcnt] at hE
      show n = _
      omega
    · rw [hcnt]; exact h.cnt
  refine ⟨hwf, mateValid_of_MWF v hv.nodup _ hwf ?_⟩
  intro a ha b hab
  rw [hmo a ha] at hab
  exact h.joined a ha b hab

end PetgraphModel.C15W2
