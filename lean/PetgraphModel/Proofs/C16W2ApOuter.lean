import PetgraphModel.Proofs.C16W2ApLoop
/-
C16, second wave — articulation points, Part I (j): the outer loop over the roots.  Between two
trees the invariant holds with an empty gray path; at the end every node is visited.
-/
namespace PetgraphModel.C16P.W2Ap
open PetgraphModel MGraph C16M

section
variable {v : View} {st : AP}

theorem finished_nil_iff (x : Nat) : Finished [] st x ↔ x ∈ st.visited := by
  simp [Finished]

theorem folded_nil_iff (x : Nat) : Folded [] st x ↔ x ∈ st.visited := by
  simp [Folded]

/-- starting the tree of an unvisited root -/
theorem inv_start {i : Nat} (I : Inv v [] st) (hv : Valid v i) (hi : i ∉ st.visited) :
    Inv v [(i, .pend)] st := by
  have hfin : ∀ x, Finished [(i, FS.pend)] st x → Finished [] st x := fun x h => ⟨h.1, by simp⟩
  have hfold : ∀ x, Folded [(i, FS.pend)] st x → Folded [] st x := fun x h => ⟨h.1, by simp⟩
  have hfold' : ∀ x, Folded [] st x → Folded [(i, FS.pend)] st x := by
    intro x h
    refine ⟨h.1, fun s hs => ?_⟩
    simp only [List.mem_singleton, Prod.mk.injEq] at hs
    exact hi (hs.1 ▸ h.1)
  have C := I.core
  have L := I.low
  have A := I.aps
  refine ⟨?_, ?_, ?_⟩
  · refine
      { tab := C.tab, gvalid := ?_, gnodup := by simp, disc_vis := C.disc_vis,
        disc_lt := C.disc_lt, disc_inj := C.disc_inj, par_vis := C.par_vis, par_lt := C.par_lt,
        par_unvis := ?_, chain := ?_,
        pend_unvis := ?_, nonpend_vis := ?_, run_split := ?_, proc_vis := ?_,
        done_vis := fun x w hf => C.done_vis x w (hfin x hf),
        desc := ?_, done_desc := fun x w hf => C.done_desc x w (hfin x hf) }
    · intro u s hm
      simp only [List.mem_singleton, Prod.mk.injEq] at hm
      rw [hm.1]; exact hv
    · intro j p hp hj
      obtain ⟨r', hr'⟩ := C.par_unvis j p hp hj
      cases hr'
    · show pO st i = none
      cases hp : pO st i with
      | none => rfl
      | some p =>
        obtain ⟨r', hr'⟩ := C.par_unvis i p hp hi
        cases hr'
    · intro u hm
      simp only [List.mem_singleton, Prod.mk.injEq] at hm
      rw [hm.1]; exact hi
    · intro u s hm hs
      simp only [List.mem_singleton, Prod.mk.injEq] at hm
      exact (hs hm.2).elim
    · intro u P R hm
      simp only [List.mem_singleton, Prod.mk.injEq] at hm
      cases hm.2
    · intro u P R w hm
      simp only [List.mem_singleton, Prod.mk.injEq] at hm
      cases hm.2
    · intro x u s hx hm hu
      simp only [List.mem_singleton, Prod.mk.injEq] at hm
      exact (hi (hm.1 ▸ hu)).elim
  · refine { low_le := L.low_le, proc_low := ?_,
             done_low := fun x w hf => L.done_low x w (hfin x hf),
             low_fold := fun c u hp hf => L.low_fold c u hp (hfold c hf), low_att := ?_ }
    · intro u P R w hm
      simp only [List.mem_singleton, Prod.mk.injEq] at hm
      cases hm.2
    · intro x hxv
      rcases L.low_att x hxv with h1 | ⟨w, hw, hwv, h1⟩ | ⟨c', hc', hf, h1⟩
      · exact Or.inl h1
      · exact Or.inr (Or.inl ⟨w, hw, hwv, h1⟩)
      · exact Or.inr (Or.inr ⟨c', hc', hfold' c' hf, h1⟩)
  · refine { aps_vis := A.aps_vis, aps_sound := ?_,
             aps_nonroot := fun u q c h1 h2 hf => A.aps_nonroot u q c h1 h2 (hfold c hf),
             aps_root := fun r c1 c2 h0 hf => A.aps_root r c1 c2 h0 (hfin r hf) }
    intro j hj
    rcases A.aps_sound j hj with ⟨q, c', h1, h2, h3, h4⟩ | h
    · exact Or.inl ⟨q, c', h1, h2, hfold' c' h3, h4⟩
    · exact Or.inr h

/-- the tree of the root `r` is complete -/
theorem inv_end {r : Nat} (I : Inv v [(r, .fin)] st) : Inv v [] st := by
  have C := I.core
  have L := I.low
  have A := I.aps
  have hpr : pO st r = none := C.chain
  have hfin : ∀ x, Finished [] st x → Finished [(r, FS.fin)] st x := by
    intro x h
    refine ⟨h.1, fun s hs => ?_⟩
    simp only [List.mem_singleton, Prod.mk.injEq] at hs
    exact hs.2
  have hfold : ∀ x, Folded [(r, FS.fin)] st x → Folded [] st x := fun x h => ⟨h.1, by simp⟩
  have hfold' : ∀ c u, pO st c = some u → Folded [] st c → Folded [(r, FS.fin)] st c := by
    intro c u hp h
    refine ⟨h.1, fun s hs => ?_⟩
    simp only [List.mem_singleton, Prod.mk.injEq] at hs
    rw [hs.1, hpr] at hp; cases hp
  refine ⟨?_, ?_, ?_⟩
  · refine
      { tab := C.tab, gvalid := by simp, gnodup := by simp, disc_vis := C.disc_vis,
        disc_lt := C.disc_lt, disc_inj := C.disc_inj, par_vis := C.par_vis, par_lt := C.par_lt,
        par_unvis := ?_, chain := trivial,
        pend_unvis := by simp, nonpend_vis := by simp, run_split := by simp, proc_vis := by simp,
        done_vis := fun x w hf => C.done_vis x w (hfin x hf),
        desc := by simp, done_desc := fun x w hf => C.done_desc x w (hfin x hf) }
    intro j p hp hj
    obtain ⟨r', hr'⟩ := C.par_unvis j p hp hj
    cases hr'
  · refine { low_le := L.low_le, proc_low := by simp,
             done_low := fun x w hf => L.done_low x w (hfin x hf),
             low_fold := fun c u hp hf => L.low_fold c u hp (hfold' c u hp hf), low_att := ?_ }
    intro x hxv
    rcases L.low_att x hxv with h1 | ⟨w, hw, hwv, h1⟩ | ⟨c', hc', hf, h1⟩
    · exact Or.inl h1
    · exact Or.inr (Or.inl ⟨w, hw, hwv, h1⟩)
    · exact Or.inr (Or.inr ⟨c', hc', hfold c' hf, h1⟩)
  · refine { aps_vis := A.aps_vis, aps_sound := ?_,
             aps_nonroot := fun u q c h1 h2 hf => A.aps_nonroot u q c h1 h2 (hfold' c u h2 hf),
             aps_root := fun r' c1 c2 h0 hf => A.aps_root r' c1 c2 h0 (hfin r' hf) }
    intro j hj
    rcases A.aps_sound j hj with ⟨q, c', h1, h2, h3, h4⟩ | h
    · exact Or.inl ⟨q, c', h1, h2, hfold c' h3, h4⟩
    · exact Or.inr h

theorem getD_replicate_none (n i : Nat) : (List.replicate n (none : Option Nat)).getD i none = none := by
  simp only [List.getD_eq_getElem?_getD, List.getElem?_replicate]
  split <;> rfl

/-- the initial tracker -/
theorem inv_init (v : View) : Inv v [] (AP.new v.nb) := by
  have hd : ∀ i, dO (AP.new v.nb) i = none := fun i => getD_replicate_none _ _
  have hp : ∀ i, pO (AP.new v.nb) i = none := fun i => getD_replicate_none _ _
  have hvis : (AP.new v.nb).visited = [] := rfl
  have hfin : ∀ x, ¬ Finished [] (AP.new v.nb) x := fun x h => by have := h.1; rw [hvis] at this; cases this
  have hfold : ∀ x, ¬ Folded [] (AP.new v.nb) x := fun x h => by have := h.1; rw [hvis] at this; cases this
  refine ⟨?_, ?_, ?_⟩
  · refine
      { tab := tabOk_new v, gvalid := by simp, gnodup := by simp, disc_vis := ?_,
        disc_lt := ?_, disc_inj := ?_, par_vis := ?_, par_lt := ?_,
        par_unvis := ?_, chain := trivial,
        pend_unvis := by simp, nonpend_vis := by simp, run_split := by simp, proc_vis := by simp,
        done_vis := fun x w hf => (hfin x hf).elim,
        desc := by simp, done_desc := fun x w hf => (hfin x hf).elim }
    · intro i; rw [hvis, hd]; simp
    · intro i d h; rw [hd] at h; cases h
    · intro i j d h; rw [hd] at h; cases h
    · intro i p h; rw [hp] at h; cases h
    · intro i p h; rw [hp] at h; cases h
    · intro i p h; rw [hp] at h; cases h
  · refine { low_le := ?_, proc_low := by simp, done_low := fun x w hf => (hfin x hf).elim,
             low_fold := fun c u _ hf => (hfold c hf).elim, low_att := ?_ }
    · intro i h; rw [hvis] at h; cases h
    · intro i h; rw [hvis] at h; cases h
  · refine { aps_vis := ?_, aps_sound := ?_, aps_nonroot := fun u q c _ _ hf => (hfold c hf).elim,
             aps_root := fun r c1 c2 _ hf => (hfin r hf).elim }
    · intro i h; cases h
    · intro i h; cases h

theorem stackOf_single_pend (i : Nat) : stackOf [(i, .pend)] = [.base i] := rfl

/-- **the outer loop** terminates without fault, keeps the invariant and visits every node -/
theorem outer_run (hwf : v.g.WellFormed) (hi : IndexOk v) (hb : SuccBounded v) :
    ∀ (nodes : List Nat) (st : AP), (∀ a, a ∈ nodes → a ∈ v.g.nodes) → Inv v [] st →
      ∃ st', outer v nodes st = .ok st' ∧ Inv v [] st' ∧
        (∀ i, i ∈ st.visited → i ∈ st'.visited) ∧ ∀ a, a ∈ nodes → v.toIndex a ∈ st'.visited := by
  intro nodes
  induction nodes with
  | nil => intro st _ I; exact ⟨st, rfl, I, fun i h => h, by simp⟩
  | cons a rest ih =>
    intro st hn I
    have ha : a ∈ v.g.nodes := hn a (List.mem_cons_self ..)
    have hrest : ∀ b, b ∈ rest → b ∈ v.g.nodes := fun b hb => hn b (List.mem_cons_of_mem _ hb)
    simp only [outer]
    by_cases hvis : v.toIndex a ∈ st.visited
    · have : (!st.visited.contains (v.toIndex a)) = false := by simp [hvis]
      simp only [this, Bool.false_eq_true, if_false]
      obtain ⟨st', h1, h2, h3, h4⟩ := ih st hrest I
      refine ⟨st', h1, h2, h3, ?_⟩
      intro b hb
      cases List.mem_cons.mp hb with
      | inl h => subst h; exact h3 _ hvis
      | inr h => exact h4 b h
    · have : (!st.visited.contains (v.toIndex a)) = true := by simp [hvis]
      simp only [this, if_true]
      have I0 := inv_start I ⟨a, ha, rfl⟩ hvis
      have K : CcOk st (v.toIndex a) ((([] : List (Nat × Nat)).lookup (v.toIndex a)).getD 0) := by
        refine ⟨fun _ c hc => hvis (I.core.par_vis c _ hc).1, fun h => ?_, fun h => ?_⟩
        · simp at h
        · simp at h
      have hfuel : pot v (stackOf [(v.toIndex a, FS.pend)]) st < apFuel v := by
        have := unv_le v hwf hb st
        simp only [stackOf_single_pend, pot, List.map_cons, List.map_nil, List.sum_cons, List.sum_nil, wt,
          apFuel]
        omega
      obtain ⟨st1, hd, I1, hm1⟩ := dfsLoop_run hwf hi (v.toIndex a) (apFuel v) _ [] st I0 rfl K hfuel
      rw [stackOf_single_pend] at hd
      simp only [hd]
      have hav : v.toIndex a ∈ st1.visited := I1.core.nonpend_vis _ _ (List.mem_cons_self ..) (by intro h; cases h)
      obtain ⟨st', h1, h2, h3, h4⟩ := ih st1 hrest (inv_end I1)
      refine ⟨st', h1, h2, fun i h => h3 i (hm1 i h), ?_⟩
      intro b hb
      cases List.mem_cons.mp hb with
      | inl h => subst h; exact h3 _ hav
      | inr h => exact h4 b h

end
end PetgraphModel.C16P.W2Ap
