import PetgraphModel.Driver.C13
import PetgraphModel.Proofs.C13W4Link
/-
C13, wave 4 — what the driver's own bundle of run-time checks (`queryFail`, evaluated before every query is
judged) establishes about the two objects it builds from one request: the abstract problem `problem d nm em`
(given to the oracle) and the concrete instance `mkInst d nm em semantic` (given to the mirror model).
-/
namespace PetgraphModel.C13
open PetgraphModel PetgraphModel.C13.Vf2

/-- the predicates of a request as the driver passes them on: the `_matching` requests carry the parsed
predicates (matchers enabled), the plain requests carry the constant `true` (matchers disabled) -/
def PredsOk (nm em : Int → Int → Bool) (semantic : Bool) : Prop :=
  semantic = false → nm = (fun _ _ => true) ∧ em = (fun _ _ => true)

/-- the predicates `step` passes on satisfy `PredsOk` with the `semantic` flag it computes (`!rest.isEmpty`) -/
theorem parsePreds_ok {rest : List String} {nm em : Int → Int → Bool} (h : parsePreds rest = some (nm, em)) :
    PredsOk nm em (!rest.isEmpty) := by
  intro hs
  cases rest with
  | nil =>
    simp only [parsePreds, Option.some.injEq, Prod.mk.injEq] at h
    exact ⟨h.1.symm, h.2.symm⟩
  | cons a t => simp at hs

theorem queryFail_none {d : DState} {nm em : Int → Int → Bool} {semantic : Bool}
    (h : queryFail d nm em semantic = none) (hp : PredsOk nm em semantic) :
    (problem d nm em).Ok ∧ sideFail (mkInst d nm em semantic) = none ∧
    Link (mkInst d nm em semantic) (problem d nm em) := by
  unfold queryFail at h
  split at h
  · cases h
  · split at h
    · cases h
    · rename_i hpo
      have hpo : problemOkB (problem d nm em) = true := by simpa using hpo
      have pok : (problem d nm em).Ok := by
        simp only [problemOkB, wfB, simpleB, Bool.and_eq_true, decide_eq_true_eq, beq_iff_eq] at hpo
        obtain ⟨⟨⟨⟨a, b⟩, c⟩, e⟩, f⟩ := hpo
        exact ⟨a, b, c, e, f⟩
      cases hs : sideFail (mkInst d nm em semantic) with
      | some w => rw [hs] at h; cases h
      | none =>
        rw [hs] at h
        cases hl : linkFail (mkInst d nm em semantic) (problem d nm em) with
        | some w => rw [hl] at h; cases h
        | none =>
          obtain ⟨ok, p0, p1⟩ := sideFail_none hs
          have lk := linkFail_none hl
          simp only [linkOkB, Bool.and_eq_true] at lk
          refine ⟨pok, rfl, ⟨cgOkB_sound ok.h0, cgOkB_sound ok.h1, ok.hd, p0, p1, linkGraphB_sound lk.1,
            linkGraphB_sound lk.2, pok.wf0, pok.wf1, ?_, ?_⟩⟩
          · intro x y
            show (!semantic || nm x y) = nm x y
            cases hsem : semantic with
            | true => simp
            | false => rw [(hp hsem).1]; rfl
          · intro x y
            show (!semantic || em x y) = em x y
            cases hsem : semantic with
            | true => simp
            | false => rw [(hp hsem).2]; rfl

end PetgraphModel.C13
