import PetgraphModel.Proofs.C15W2BlossomNew
/-
C15 wave 2 — blossom step, part 4: the path of a newly labelled vertex is good.
-/
namespace PetgraphModel.C15W2
open PetgraphModel PetgraphModel.C15 PetgraphModel.C15M PetgraphModel.C15P

section
variable {c : Ctx} {A A' : AS} {a b : Nat} {preA sufA preB sufB : PL} {join : Nat} {N : Nat → Prop}

theorem BS.pathOK_new (hv : VHyp c.v c.mode) (hA : AInv c A) (D : BD c A a b preA sufA preB sufB join)
    (S : BS c A A' N preA preB join)
    (x z0 : Nat) (pre post : PL) (hpre : preA = pre ++ (z0, x) :: post) (hox : A.out x = false)
    (hP'x : A'.P x = (x, z0) :: revswap pre ++ A.P b) (k : Key) (s t : Nat)
    (hLx : A'.L x = .edge k s t) (hor : (a = s ∧ b = t) ∨ (a = t ∧ b = s))
    (htau : ∀ w ∈ innerNodes A pre, A'.tau w < A'.tau x) : PathOK c A' x := by
  have hpa := hA.path a D.ha D.hoa
  have hpb := hA.path b D.hb D.hob
  have hpb' := S.pathOK_old hv hA D b D.hb D.hob
  have hJs : ∀ u w, c.J u w → c.J w u := fun u w h => joined_symm h
  have hPa : A.P a = pre ++ (z0, x) :: (post ++ sufA) := by rw [D.hPa, hpre]; simp
  have hxNA : x ∈ innerNodes A preA :=
    (mem_innerNodes A preA x).mpr ⟨⟨z0, by rw [hpre]; simp⟩, hox⟩
  have hxN : N x := (S.hN x).mpr (Or.inl hxNA)
  have hxn : x ∈ c.v.g.nodes := (D.newA_node hA hxNA).1
  have hP'b : A'.P b = A.P b := S.Pold b (S.old_not_new hA D D.hob)
  have hP'a : A'.P a = A.P a := S.Pold a (S.old_not_new hA D D.hoa)
  have hout'old : ∀ y ∈ c.v.g.nodes, A.out y = true → A'.out y = true :=
    fun y hy h => (S.out' y hy).mpr (Or.inl h)
  -- the vertices of the first part
  have hFPmem : ∀ w, w ∈ verts ((x, z0) :: revswap pre) ↔ w ∈ verts (pre ++ [(z0, x)]) := by
    intro w
    simp only [verts_cons, List.mem_cons, verts_append, List.mem_append, mem_verts_revswap, verts_nil,
      List.not_mem_nil, or_false]
    constructor
    · rintro (h | h | h)
      · exact Or.inr (Or.inr h)
      · exact Or.inr (Or.inl h)
      · exact Or.inl h
    · rintro (h | h | h)
      · exact Or.inr (Or.inr h)
      · exact Or.inr (Or.inl h)
      · exact Or.inl h
  have hbefore_a : ∀ w ∈ verts (pre ++ [(z0, x)]), w ∈ verts (A.P a) := by
    intro w hw
    rw [hPa]
    have : pre ++ (z0, x) :: (post ++ sufA) = (pre ++ [(z0, x)]) ++ (post ++ sufA) := by simp
    rw [this, verts_append]
    exact List.mem_append_left _ hw
  have hbefore_n : ∀ w ∈ verts (pre ++ [(z0, x)]), w ∈ c.v.g.nodes := fun w hw => hpa.mem w (hbefore_a w hw)
  have hdis := fun w hw => D.before_disjoint hv hA hpre hox (w := w) hw
  -- alternation of `P a` around `x`
  have haltA := hpa.alt
  rw [hPa, Alt_append] at haltA
  obtain ⟨haltpre, haltx⟩ := haltA
  simp only [fstOr_cons] at haltpre
  have hza : fstOr pre z0 = a := by
    have := hpa.hd; rw [hPa, fstOr_append] at this; exact this
  have hfb : fstOr (A.P b) c.sv = b := hpb.hd
  -- outer-ness of the second components of the first part
  have hz0n : z0 ∈ c.v.g.nodes := hbefore_n z0 (by simp [verts_append])
  have hoz0 : A.out z0 = true := hpa.fstOuter z0 x (by rw [hPa]; simp)
  have hFPsnd : ∀ p u, (p, u) ∈ (x, z0) :: revswap pre → A'.out u = true := by
    intro p u hm
    cases List.mem_cons.mp hm with
    | inl e => obtain ⟨_, rfl⟩ := Prod.mk.inj e; exact hout'old u hz0n hoz0
    | inr e =>
      have hup : (u, p) ∈ pre := (mem_revswap pre p u).mp e
      have hupa : (u, p) ∈ A.P a := by rw [hPa]; exact List.mem_append_left _ hup
      exact hout'old u (hpa.mem u (mem_verts_of_mem hupa).1) (hpa.fstOuter u p hupa)
  have hFPfst : ∀ p u, (p, u) ∈ (x, z0) :: revswap pre → A'.out p = true := by
    intro p u hm
    cases List.mem_cons.mp hm with
    | inl e => obtain ⟨rfl, _⟩ := Prod.mk.inj e; exact (S.out' p hxn).mpr (Or.inr hxN)
    | inr e =>
      have hup : (u, p) ∈ pre := (mem_revswap pre p u).mp e
      exact S.preA_out' hA D (by rw [hpre]; exact List.mem_append_left _ hup)
  -- first inner vertices of the pieces of the new path
  have hfin'b : A'.fin c (A.P b) = join := by
    have := S.swap.fin'_join hv hA D.swap [] preB rfl
    rw [← D.hPb] at this; exact this
  have hfin'FP : ∀ l1 l2, (x, z0) :: revswap pre = l1 ++ l2 → A'.fin c (l2 ++ A.P b) = join := by
    intro l1 l2 h
    unfold AS.fin
    rw [firstInner_append_outer]
    · exact hfin'b
    · intro p u hm
      exact hFPsnd p u (by rw [h]; exact List.mem_append_right _ hm)
  have hF'FP : ∀ w ∈ verts ((x, z0) :: revswap pre), A'.out w = true → A'.F w = join := by
    intro w hw how'
    have hw' := (hFPmem w).mp hw
    exact S.F'_before hA D hpre hox hw' (hbefore_n w hw') how'
  obtain ⟨ext, hext⟩ := S.ordExt
  have hxord : x ∉ A.ord := fun h => by
    have := ((hA.ordMem x).mp h).2; rw [hox] at this; cases this
  refine ⟨hpa.svMem, by rw [hP'x]; rfl, ?_, ?_, ?_, ?_, ?_, ?_, ?_, ?_, ?_, ?_⟩
  · -- alternation
    rw [hP'x, List.cons_append]
    refine ⟨haltx.2.1, haltx.1, ?_, ?_⟩
    · rw [fstOr_append, fstOr_revswap, hfb]
      by_cases hpe : pre = []
      · subst hpe
        simp only [lastSnd_nil, fstOr_nil] at hza ⊢
        rw [hza]; exact D.hJ
      · exact hJs _ _ (Alt_lastSnd _ _ pre z0 b haltpre hpe)
    · rw [Alt_append, hfb]
      exact ⟨Alt_revswap _ _ hJs pre z0 b haltpre (fun _ => by rw [hza]; exact D.hJ), hpb.alt⟩
  · -- no vertex twice
    rw [hP'x]
    have h1 : (verts ((x, z0) :: revswap pre)).Nodup := by
      have hn : (verts (pre ++ [(z0, x)])).Nodup := by
        have := hpa.nodup
        rw [hPa] at this
        have e : pre ++ (z0, x) :: (post ++ sufA) = (pre ++ [(z0, x)]) ++ (post ++ sufA) := by simp
        rw [e, verts_append] at this
        exact (List.nodup_append.mp (List.nodup_append.mp this).1).1
      rw [verts_append] at hn
      have hn' := List.nodup_append.mp hn
      simp only [verts_cons, verts_nil, List.nodup_cons, List.mem_cons, List.not_mem_nil, or_false,
        not_false_eq_true, List.nodup_nil, and_true] at hn'
      simp only [verts_cons, List.nodup_cons, List.mem_cons, mem_verts_revswap, not_or]
      refine ⟨⟨fun e => hn'.2.1 e.symm, fun h => hn'.2.2 x h x (by simp) rfl⟩,
        fun h => hn'.2.2 z0 h z0 (by simp) rfl, nodup_verts_revswap pre hn'.1⟩
    have e : (x, z0) :: revswap pre ++ A.P b = ((x, z0) :: revswap pre) ++ A.P b := rfl
    rw [e, verts_append, List.append_assoc]
    refine List.nodup_append.mpr ⟨h1, hpb.nodup, ?_⟩
    intro w hw w' hw' e
    subst e
    have := hdis w ((hFPmem w).mp hw)
    cases List.mem_append.mp hw' with
    | inl h => exact this.1 h
    | inr h => simp at h; exact this.2 h
  · rw [hP'x]
    have e : (x, z0) :: revswap pre ++ A.P b = ((x, z0) :: revswap pre) ++ A.P b := rfl
    rw [e, verts_append]
    intro w hw
    cases List.mem_append.mp hw with
    | inl h => exact hbefore_n w ((hFPmem w).mp h)
    | inr h => exact hpb.mem w h
  · rw [hP'x]
    have e : (x, z0) :: revswap pre ++ A.P b = ((x, z0) :: revswap pre) ++ A.P b := rfl
    rw [e]
    intro p u hm
    cases List.mem_append.mp hm with
    | inl h => exact hFPfst p u h
    | inr h => exact hpb'.fstOuter p u (by rw [hP'b]; exact h)
  · -- inner vertices
    rw [hP'x]
    intro pre' p u rest hdec hu
    have e : (x, z0) :: revswap pre ++ A.P b = ((x, z0) :: revswap pre) ++ A.P b := rfl
    rw [e] at hdec
    rcases List.append_eq_append_iff.mp hdec with ⟨a', h1, h2⟩ | ⟨c', h1, h2⟩
    · -- `h1 : pre' = FP ++ a'`, `h2 : P b = a' ++ (p,u)::rest`
      exact hpb'.inner a' p u rest (by rw [hP'b]; exact h2) hu
    · cases c' with
      | nil =>
        simp only [List.nil_append] at h2
        exact hpb'.inner [] p u rest (by rw [hP'b, List.nil_append]; exact h2.symm) hu
      | cons d c'' =>
        simp only [List.cons_append, List.cons.injEq] at h2
        exfalso
        have : A'.out u = true := hFPsnd p u (by rw [h1, ← h2.1]; simp)
        rw [this] at hu; cases hu
  · rw [S.Fnew x hxN, hP'x]
    exact (hfin'FP [] _ rfl).symm
  · -- first inner vertices along the new path
    rw [hP'x]
    intro pre' p u rest hdec
    have e : (x, z0) :: revswap pre ++ A.P b = ((x, z0) :: revswap pre) ++ A.P b := rfl
    rw [e] at hdec
    rcases List.append_eq_append_iff.mp hdec with ⟨a', h1, h2⟩ | ⟨c', h1, h2⟩
    · exact hpb'.fi a' p u rest (by rw [hP'b]; exact h2)
    · cases c' with
      | nil =>
        simp only [List.nil_append] at h2
        exact hpb'.fi [] p u rest (by rw [hP'b, List.nil_append]; exact h2.symm)
      | cons d c'' =>
        simp only [List.cons_append, List.cons.injEq] at h2
        obtain ⟨hd, hrest⟩ := h2
        subst hd
        have hmem : (p, u) ∈ (x, z0) :: revswap pre := by rw [h1]; simp
        have hv' := mem_verts_of_mem hmem
        have hsplit : (x, z0) :: revswap pre = pre' ++ ((p, u) :: c'') := h1
        have hsplit2 : (x, z0) :: revswap pre = (pre' ++ [(p, u)]) ++ c'' := by rw [h1]; simp
        constructor
        · rw [hF'FP p hv'.1 (hFPfst p u hmem)]
          have := hfin'FP pre' ((p, u) :: c'') hsplit
          rw [hrest]
          simpa using this.symm
        · intro hu
          rw [hF'FP u hv'.2 hu, hrest]
          exact (hfin'FP _ c'' hsplit2).symm
  · intro h; rw [hLx] at h; cases h
  · intro y h; rw [hLx] at h; cases h
  · intro k' s' t' h
    rw [hLx] at h
    have hs : s = s' := by cases h; rfl
    have ht : t = t' := by cases h; rfl
    subst hs ht
    have hao : a ∈ A.ord := (hA.ordMem a).mpr ⟨D.ha, D.hoa⟩
    have hbo : b ∈ A.ord := (hA.ordMem b).mpr ⟨D.hb, D.hob⟩
    refine ⟨a, b, hor, D.ha, D.hb, hout'old a D.ha D.hoa, hout'old b D.hb D.hob, D.hJ,
      tau_old_lt_new hext hao hxord, tau_old_lt_new hext hbo hxord, pre, z0, post ++ sufA,
      by rw [hP'a]; exact hPa, by rw [hP'x, hP'b], ?_⟩
    intro w hw
    have hwb : w ∈ verts (pre ++ [(z0, x)]) := by
      simp only [List.mem_cons] at hw
      simp only [verts_append, verts_cons, verts_nil, List.mem_append, List.mem_cons, List.not_mem_nil,
        or_false]
      rcases hw with h | h
      · exact Or.inr (Or.inl h)
      · exact Or.inl h
    have hwn := hbefore_n w hwb
    cases how : A.out w with
    | true => exact tau_old_lt_new hext ((hA.ordMem w).mpr ⟨hwn, how⟩) hxord
    | false =>
      apply htau
      simp only [List.mem_cons] at hw
      rcases hw with h | h
      · rw [h, hoz0] at how; cases how
      · obtain ⟨p, q, hm, hwe⟩ := mem_verts_iff.mp h
        cases hwe with
        | inl e =>
          exfalso
          have := hpa.fstOuter p q (by rw [hPa]; exact List.mem_append_left _ hm)
          rw [← e, how] at this; cases this
        | inr e => exact (mem_innerNodes A pre w).mpr ⟨⟨p, e ▸ hm⟩, how⟩

end

end PetgraphModel.C15W2
