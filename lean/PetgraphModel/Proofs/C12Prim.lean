import PetgraphModel.Proofs.C12Kruskal
/-
Correctness of the Prim mirror model (`MstModel.prim`): it terminates without fault or panic, lists
the nodes in order and then the edges of a MINIMUM spanning tree of the first node's component (edges
of the graph, acyclic, reaching everything the first node reaches, one edge less than nodes reached,
weight minimal among all spanning forests of the component).

Minimality is proved through the loop invariant `light`: at every threshold `t`, two taken nodes that
are connected by graph edges of weight ≤ t are connected by tree edges of weight ≤ t (the tree realises
all bottleneck connections — the cut property: the popped edge is a lightest edge leaving the taken
set, because the queue is a heap that holds every edge leaving it).  The threshold counting argument
of `Proofs/C12Min.lean` turns this into minimum total weight.
-/
namespace PetgraphModel.MstModel
open PetgraphModel PetgraphModel.MST

/-- the heap item pushed for the entry `oe` of `g.edges(a)` -/
def outItem (v : View) (a : Nat) (oe : Nat × Nat) : Item := ⟨v.weight oe.2, a, oe.1⟩

/-- `it` is (the item of) an entry of `g.edges(it.a)` -/
def IsOut (v : View) (it : Item) : Prop := ∃ oe ∈ v.outOf it.a, outItem v it.a oe = it

/-- what the model needs from the view of an undirected graph -/
structure PView (v : View) : Prop where
  nodup : v.g.nodes.Nodup
  ixInj : ∀ a ∈ v.g.nodes, ∀ b ∈ v.g.nodes, v.toIndex a = v.toIndex b → a = b
  ends : ∀ e ∈ v.g.edges, e.src ∈ v.g.nodes ∧ e.tgt ∈ v.g.nodes
  /-- every entry of `g.edges(a)` is an edge of the graph at `a`, with that weight -/
  outSound : ∀ a ∈ v.g.nodes, ∀ oe ∈ v.outOf a, ∃ e ∈ v.g.edges, e.w = v.weight oe.2 ∧
    ((e.src = a ∧ e.tgt = oe.1) ∨ (e.src = oe.1 ∧ e.tgt = a))
  /-- every edge is listed at both endpoints (undirected) -/
  outComplete : ∀ e ∈ v.g.edges,
    (∃ oe ∈ v.outOf e.src, oe.1 = e.tgt ∧ v.weight oe.2 = e.w) ∧
    (∃ oe ∈ v.outOf e.tgt, oe.1 = e.src ∧ v.weight oe.2 = e.w)

theorem pushEdges_perm (v : View) (h : Heap) (a : Nat) :
    (pushEdges v h a).Perm ((v.outOf a).reverse.map (outItem v a) ++ h) :=
  foldl_push_perm (outItem v a) (v.outOf a) h

theorem mem_pushEdges {v : View} {h : Heap} {a : Nat} {it : Item} :
    it ∈ pushEdges v h a ↔ (∃ oe ∈ v.outOf a, outItem v a oe = it) ∨ it ∈ h := by
  rw [(pushEdges_perm v h a).mem_iff]
  simp [List.mem_append, List.mem_map]

/-- a connection cannot leave a set that contains all endpoints -/
theorem conn_stays {F : List Edge} {S : List Nat} (hF : ∀ e ∈ F, e.src ∈ S ∧ e.tgt ∈ S) {a b : Nat}
    (hc : Conn F a b) (ha : a ∈ S) : b ∈ S := by
  unfold Conn at hc
  induction hc with
  | refl => exact ha
  | step _ hadj ih =>
    rw [adj_ug] at hadj
    obtain ⟨e, he, h'⟩ := hadj
    rcases h' with ⟨_, h2⟩ | ⟨h1, _⟩
    · rw [← h2]; exact (hF e he).2
    · rw [← h1]; exact (hF e he).1

/-- a connection cannot cross a cut that no edge crosses -/
theorem conn_stays' {F : List Edge} {S : List Nat} (hF : ∀ e ∈ F, (e.src ∈ S ↔ e.tgt ∈ S)) {a b : Nat}
    (hc : Conn F a b) (ha : a ∈ S) : b ∈ S := by
  unfold Conn at hc
  induction hc with
  | refl => exact ha
  | step _ hadj ih =>
    rw [adj_ug] at hadj
    obtain ⟨e, he, h'⟩ := hadj
    rcases h' with ⟨h1, h2⟩ | ⟨h1, h2⟩
    · rw [← h2]; exact (hF e he).mp (h1 ▸ ih)
    · rw [← h1]; exact (hF e he).mpr (h2 ▸ ih)

/-- the edges of weight at most `t` -/
def light (t : Int) (F : List Edge) : List Edge := F.filter fun x => decide (x.w ≤ t)

/-- invariant of Prim's loop: `Tn` = nodes taken (newest first), `A` = accepted items (newest first) -/
structure PInv (v : View) (s : Nat) (h : Heap) (Tn : List Nat) (A : List Item) : Prop where
  tsub : ∀ x ∈ Tn, x ∈ v.g.nodes
  tnodup : Tn.Nodup
  sIn : s ∈ Tn
  acyclic : Acyclic (A.map Item.toEdge)
  ain : ∀ it ∈ A, it.a ∈ Tn ∧ it.b ∈ Tn
  aout : ∀ it ∈ A, IsOut v it
  reach : ∀ x ∈ Tn, Conn (A.map Item.toEdge) s x
  hin : ∀ it ∈ h, it.a ∈ Tn ∧ IsOut v it
  /-- every edge leaving the taken set is in the queue -/
  closed : ∀ a ∈ Tn, ∀ oe ∈ v.outOf a, oe.1 ∈ Tn ∨ outItem v a oe ∈ h
  cnt : A.length + 1 = Tn.length
  heap : IsHeap h
  /-- the tree realises every bottleneck connection between taken nodes -/
  light : ∀ t : Int, ∀ a ∈ Tn, ∀ x ∈ Tn, Conn (light t v.g.edges) a x →
    Conn (light t (A.map Item.toEdge)) a x

/-- what holds when the loop stops -/
structure PFinal (v : View) (s : Nat) (Tn : List Nat) (A : List Item) : Prop where
  tsub : ∀ x ∈ Tn, x ∈ v.g.nodes
  tnodup : Tn.Nodup
  acyclic : Acyclic (A.map Item.toEdge)
  ain : ∀ it ∈ A, it.a ∈ Tn ∧ it.b ∈ Tn
  aout : ∀ it ∈ A, IsOut v it
  reach : ∀ x ∈ Tn, Conn (A.map Item.toEdge) s x
  sIn : s ∈ Tn
  cnt : A.length + 1 = Tn.length
  /-- nothing leads out of `Tn` -/
  closed : (∀ x ∈ v.g.nodes, x ∈ Tn) ∨ (∀ a ∈ Tn, ∀ oe ∈ v.outOf a, oe.1 ∈ Tn)
  light : ∀ t : Int, ∀ a ∈ Tn, ∀ x ∈ Tn, Conn (light t v.g.edges) a x →
    Conn (light t (A.map Item.toEdge)) a x

theorem contains_map_ix {v : View} (hv : PView v) {Tn : List Nat} (hT : ∀ x ∈ Tn, x ∈ v.g.nodes)
    {b : Nat} (hb : b ∈ v.g.nodes) : (Tn.map v.toIndex).contains (v.toIndex b) = true ↔ b ∈ Tn := by
  simp only [List.contains_iff_mem, List.mem_map]
  constructor
  · rintro ⟨x, hx, heq⟩
    rw [← hv.ixInj x (hT x hx) b hb heq]; exact hx
  · intro h; exact ⟨b, h, rfl⟩

theorem full_of_length {nodes Tn : List Nat} (hn : Tn.Nodup) (hsub : ∀ x ∈ Tn, x ∈ nodes)
    (hlen : Tn.length = nodes.length) : ∀ x ∈ nodes, x ∈ Tn := by
  intro x hx
  refine Classical.byContradiction fun hnx => ?_
  have hnd : (x :: Tn).Nodup := List.nodup_cons.mpr ⟨hnx, hn⟩
  have := hnd.length_le_of_subset (l₂ := nodes) (by
    intro y hy
    rcases List.mem_cons.mp hy with rfl | hy
    · exact hx
    · exact hsub y hy)
  simp at this; omega

theorem isOut_edge {v : View} (hv : PView v) {it : Item} (ha : it.a ∈ v.g.nodes) (h : IsOut v it) :
    ∃ e ∈ v.g.edges, e.w = it.w ∧ ((e.src = it.a ∧ e.tgt = it.b) ∨ (e.src = it.b ∧ e.tgt = it.a)) := by
  obtain ⟨oe, hoe, heq⟩ := h
  obtain ⟨e, he, hw, hends⟩ := hv.outSound it.a ha oe hoe
  have hb : oe.1 = it.b := by rw [← heq]; rfl
  have hw' : v.weight oe.2 = it.w := by rw [← heq]; rfl
  exact ⟨e, he, by rw [hw, hw'], by rw [← hb]; exact hends⟩

/-- queue entries still to come: the `g.edges(x)` of the nodes not yet taken -/
def pending (v : View) (Tn : List Nat) : Nat :=
  ((v.g.nodes.filter fun x => !Tn.contains x).map fun x => (v.outOf x).length).sum

theorem sum_filter_remove (g : Nat → Nat) : ∀ (l Tn : List Nat) (b : Nat), l.Nodup → b ∈ l → b ∉ Tn →
    ((l.filter fun x => !(b :: Tn).contains x).map g).sum + g b =
      ((l.filter fun x => !Tn.contains x).map g).sum
  | [], _, _, _, hb, _ => by cases hb
  | x :: l, Tn, b, hnd, hb, hbT => by
    obtain ⟨hxl, hndl⟩ := List.nodup_cons.mp hnd
    by_cases hxb : x = b
    · subst hxb
      have hsame : (l.filter fun y => !(x :: Tn).contains y) = l.filter fun y => !Tn.contains y := by
        apply List.filter_congr
        intro y hy
        have : y ≠ x := fun h => hxl (h ▸ hy)
        simp [this]
      simp only [List.filter_cons, hsame]
      simp [hbT]
      omega
    · have hbl : b ∈ l := by
        rcases List.mem_cons.mp hb with h | h
        · exact absurd h.symm hxb
        · exact h
      have ih := sum_filter_remove g l Tn b hndl hbl hbT
      simp only [List.filter_cons]
      by_cases hxT : x ∈ Tn
      · simp [hxT]; simpa using ih
      · simp [hxT, hxb]; simp at ih; omega

theorem pending_cons {v : View} (hv : PView v) {Tn : List Nat} {b : Nat} (hb : b ∈ v.g.nodes)
    (hbT : b ∉ Tn) : pending v (b :: Tn) + (v.outOf b).length = pending v Tn :=
  sum_filter_remove (fun x => (v.outOf x).length) v.g.nodes Tn b hv.nodup hb hbT

theorem pushEdges_length (v : View) (h : Heap) (a : Nat) :
    (pushEdges v h a).length = h.length + (v.outOf a).length := by
  have := (pushEdges_perm v h a).length_eq
  simp at this; omega

theorem primLoop_spec (v : View) (hv : PView v) (s : Nat) : ∀ (f : Nat) (h : Heap) (Tn : List Nat)
    (A : List Item) (acc : List EdgeEl) (r : Res),
    PInv v s h Tn A → h.length + pending v Tn < f → primLoop v f h (Tn.map v.toIndex) acc = r →
    ∃ (B : List Item) (Tn' : List Nat),
      r = .ok v.g.nodes (acc.reverse ++ B.map (toEl v.g.nodes)) ∧ PFinal v s Tn' (B.reverse ++ A)
  | 0, _, _, _, _, _, _, hfuel, _ => by omega
  | f+1, h, Tn, A, acc, r, inv, hfuel, hrun => by
    simp only [primLoop, List.length_map] at hrun
    have fin : ∀ (hc : (∀ x ∈ v.g.nodes, x ∈ Tn) ∨ (∀ a ∈ Tn, ∀ oe ∈ v.outOf a, oe.1 ∈ Tn)),
        Res.ok v.g.nodes acc.reverse = r →
        ∃ (B : List Item) (Tn' : List Nat),
          r = .ok v.g.nodes (acc.reverse ++ B.map (toEl v.g.nodes)) ∧ PFinal v s Tn' (B.reverse ++ A) := by
      intro hc heq
      subst heq
      exact ⟨[], Tn, by simp, ⟨inv.tsub, inv.tnodup, by simpa using inv.acyclic,
        by simpa using inv.ain, by simpa using inv.aout, by simpa using inv.reach, inv.sIn,
        by simpa using inv.cnt, hc, by simpa using inv.light⟩⟩
    split at hrun
    · rename_i hfull
      exact fin (Or.inl (full_of_length inv.tnodup inv.tsub hfull)) hrun
    · split at hrun
      · rename_i hp
        have hnil : h = [] := pop_none.mp hp
        refine fin (Or.inr ?_) hrun
        intro a ha oe hoe
        rcases inv.closed a ha oe hoe with h1 | hit
        · exact h1
        · rw [hnil] at hit; cases hit
      · rename_i it h' hp
        have hperm := pop_perm hp
        have hit : it ∈ h := hperm.mem_iff.mpr (List.mem_cons_self ..)
        have hh' : ∀ x ∈ h', x ∈ h := fun x hx => hperm.mem_iff.mpr (List.mem_cons_of_mem _ hx)
        obtain ⟨hita, oe0, hoe0, hoeq⟩ := inv.hin it hit
        have hitaN : it.a ∈ v.g.nodes := inv.tsub _ hita
        have hitbN : it.b ∈ v.g.nodes := by
          obtain ⟨e, he, _, hends⟩ := hv.outSound it.a hitaN oe0 hoe0
          have hb : oe0.1 = it.b := by rw [← hoeq]; rfl
          rcases hends with ⟨_, h2⟩ | ⟨h1, _⟩
          · rw [← hb, ← h2]; exact (hv.ends e he).2
          · rw [← hb, ← h1]; exact (hv.ends e he).1
        split at hrun
        · -- target already taken: skip
          rename_i hcont
          have hbT : it.b ∈ Tn := (contains_map_ix hv inv.tsub hitbN).mp hcont
          have hlen : h.length = h'.length + 1 := by have := hperm.length_eq; simpa using this
          refine primLoop_spec v hv s f h' Tn A acc r ?_ (by omega) hrun
          refine { inv with hin := fun x hx => inv.hin x (hh' x hx), closed := ?_,
                            heap := (pop_heap inv.heap hp).1 }
          intro a ha oe hoe
          rcases inv.closed a ha oe hoe with h1 | hx
          · exact Or.inl h1
          · rcases List.mem_cons.mp (hperm.mem_iff.mp hx) with heq | hx'
            · refine Or.inl ?_
              have : oe.1 = it.b := by rw [← heq]; rfl
              rw [this]; exact hbT
            · exact Or.inr hx'
        · -- a new node: accept the edge, push the node's edges
          rename_i hcont
          have hbT : it.b ∉ Tn := fun hmem => hcont ((contains_map_ix hv inv.tsub hitbN).mpr hmem)
          rw [posOf_mem hitaN, posOf_mem hitbN] at hrun
          have hAends : ∀ e ∈ A.map Item.toEdge, e.src ∈ Tn ∧ e.tgt ∈ Tn := by
            intro e he
            obtain ⟨x, hx, rfl⟩ := List.mem_map.mp he
            exact inv.ain x hx
          have hnc : ¬ Conn (A.map Item.toEdge) it.a it.b := fun hc => hbT (conn_stays hAends hc hita)
          -- cut property: the popped item is a lightest edge leaving the taken set
          have hmin := (pop_heap inv.heap hp).2
          have hK : ∀ e ∈ v.g.edges, (e.src ∈ Tn ∧ e.tgt ∉ Tn) ∨ (e.tgt ∈ Tn ∧ e.src ∉ Tn) →
              it.w ≤ e.w := by
            intro e he hcross
            obtain ⟨⟨oe1, hoe1, ht1, hw1⟩, ⟨oe2, hoe2, ht2, hw2⟩⟩ := hv.outComplete e he
            rcases hcross with ⟨h1, h2⟩ | ⟨h1, h2⟩
            · rcases inv.closed e.src h1 oe1 hoe1 with h3 | h3
              · exact absurd (ht1 ▸ h3) h2
              · have := hmin _ h3; simp only [outItem] at this; omega
            · rcases inv.closed e.tgt h1 oe2 hoe2 with h3 | h3
              · exact absurd (ht2 ▸ h3) h2
              · have := hmin _ h3; simp only [outItem] at this; omega
          have inv' : PInv v s (pushEdges v h' it.b) (it.b :: Tn) (it :: A) := by
            refine ⟨?_, List.nodup_cons.mpr ⟨hbT, inv.tnodup⟩, List.mem_cons_of_mem _ inv.sIn,
              acyclic_cons inv.acyclic hnc, ?_, ?_, ?_, ?_, ?_, by simp [inv.cnt],
              foldl_push_heap (outItem v it.b) (v.outOf it.b) h' (pop_heap inv.heap hp).1, ?_⟩
            · intro x hx
              rcases List.mem_cons.mp hx with rfl | hx
              · exact hitbN
              · exact inv.tsub x hx
            · intro x hx
              rcases List.mem_cons.mp hx with rfl | hx
              · exact ⟨List.mem_cons_of_mem _ hita, List.mem_cons_self ..⟩
              · exact ⟨List.mem_cons_of_mem _ (inv.ain x hx).1, List.mem_cons_of_mem _ (inv.ain x hx).2⟩
            · intro x hx
              rcases List.mem_cons.mp hx with rfl | hx
              · exact ⟨oe0, hoe0, hoeq⟩
              · exact inv.aout x hx
            · intro x hx
              have hmono : ∀ {a b}, Conn (A.map Item.toEdge) a b → Conn ((it :: A).map Item.toEdge) a b :=
                fun hc => hc.mono fun e he => by simp only [List.map_cons, List.mem_cons]; exact Or.inr he
              rcases List.mem_cons.mp hx with rfl | hx
              · exact (hmono (inv.reach _ hita)).trans
                  (Conn.edge (e := it.toEdge) (by simp))
              · exact hmono (inv.reach x hx)
            · intro x hx
              rcases mem_pushEdges.mp hx with ⟨oe, hoe, rfl⟩ | hx'
              · exact ⟨List.mem_cons_self .., oe, hoe, rfl⟩
              · obtain ⟨h1, h2⟩ := inv.hin x (hh' x hx')
                exact ⟨List.mem_cons_of_mem _ h1, h2⟩
            · intro a ha oe hoe
              rcases List.mem_cons.mp ha with rfl | ha
              · exact Or.inr (mem_pushEdges.mpr (Or.inl ⟨oe, hoe, rfl⟩))
              · rcases inv.closed a ha oe hoe with h1 | hx
                · exact Or.inl (List.mem_cons_of_mem _ h1)
                · rcases List.mem_cons.mp (hperm.mem_iff.mp hx) with heq | hx'
                  · refine Or.inl ?_
                    have : oe.1 = it.b := by rw [← heq]; rfl
                    rw [this]; exact List.mem_cons_self ..
                  · exact Or.inr (mem_pushEdges.mpr (Or.inr hx'))
            · -- light: bottleneck connections among taken nodes are realised by the tree
              intro t a ha x hx hc
              have hmonoL : ∀ {p q}, Conn (light t (A.map Item.toEdge)) p q →
                  Conn (light t ((it :: A).map Item.toEdge)) p q :=
                fun hc => hc.mono fun e he => by
                  simp only [light, List.map_cons, List.mem_filter, List.mem_cons] at he ⊢
                  exact ⟨Or.inr he.1, he.2⟩
              -- reaching the new node from a taken one
              have hS : ∀ p ∈ Tn, Conn (light t v.g.edges) p it.b →
                  Conn (light t ((it :: A).map Item.toEdge)) p it.b := by
                intro p hp hcp
                have hwt : it.w ≤ t := by
                  refine Classical.byContradiction fun hnt => ?_
                  -- otherwise no light edge crosses the cut
                  have hcl : ∀ e ∈ light t v.g.edges, (e.src ∈ Tn ↔ e.tgt ∈ Tn) := by
                    intro e he
                    obtain ⟨heE, hew⟩ := List.mem_filter.mp he
                    have hew' : e.w ≤ t := by simpa using hew
                    constructor
                    · intro h1
                      refine Classical.byContradiction fun h2 => ?_
                      have := hK e heE (Or.inl ⟨h1, h2⟩); omega
                    · intro h1
                      refine Classical.byContradiction fun h2 => ?_
                      have := hK e heE (Or.inr ⟨h1, h2⟩); omega
                  exact hbT (conn_stays' hcl hcp hp)
                obtain ⟨e0, he0, hw0, hends0⟩ := isOut_edge hv hitaN ⟨oe0, hoe0, hoeq⟩
                have he0L : e0 ∈ light t v.g.edges :=
                  List.mem_filter.mpr ⟨he0, by simp only [decide_eq_true_eq]; omega⟩
                have hba : Conn (light t v.g.edges) it.b it.a := by
                  rcases hends0 with ⟨h1, h2⟩ | ⟨h1, h2⟩
                  · rw [← h1, ← h2]; exact (Conn.edge he0L).symm
                  · rw [← h1, ← h2]; exact Conn.edge he0L
                have h1 := inv.light t p hp it.a hita (hcp.trans hba)
                have hitL : it.toEdge ∈ light t ((it :: A).map Item.toEdge) :=
                  List.mem_filter.mpr ⟨by simp, decide_eq_true hwt⟩
                exact (hmonoL h1).trans (Conn.edge hitL)
              rcases List.mem_cons.mp ha with ha0 | ha' <;> rcases List.mem_cons.mp hx with hx0 | hx'
              · rw [ha0, hx0]; exact Conn.refl _ _
              · rw [ha0] at hc ⊢; exact (hS x hx' hc.symm).symm
              · rw [hx0] at hc ⊢; exact hS a ha' hc
              · exact hmonoL (inv.light t a ha' x hx' hc)
          have hrun' : primLoop v f (pushEdges v h' it.b) ((it.b :: Tn).map v.toIndex)
              (toEl v.g.nodes it :: acc) = r := by simpa [toEl] using hrun
          have hlen : h.length = h'.length + 1 := by have := hperm.length_eq; simpa using this
          have hfuel' : (pushEdges v h' it.b).length + pending v (it.b :: Tn) < f := by
            rw [pushEdges_length]
            have := pending_cons hv hitbN hbT
            omega
          obtain ⟨B, Tn', hes, hfin⟩ := primLoop_spec v hv s f _ _ _ _ r inv' hfuel' hrun'
          refine ⟨it :: B, Tn', ?_, by simpa using hfin⟩
          rw [hes]; simp

/-- a tree on the component `Tn` of `s` that realises all bottleneck connections has minimum weight
among the spanning forests of the component's edges -/
theorem tree_minimal_of_light {E M : List Edge} {Tn : List Nat} {s : Nat}
    (hnd : Tn.Nodup) (hTn : ∀ x, x ∈ Tn ↔ Conn E s x)
    (hMV : ∀ e ∈ M, e.src ∈ Tn ∧ e.tgt ∈ Tn) (hac : Acyclic M) (hcnt : M.length + 1 = Tn.length)
    (hlight : ∀ t : Int, ∀ a ∈ Tn, ∀ x ∈ Tn, Conn (light t E) a x → Conn (light t M) a x)
    (comp : List Nat) (hcomp : ∀ x, x ∈ comp ↔ Conn E s x) (F' : List Edge)
    (hF' : SpanningForest (edgesWithin comp E) F') : weight M ≤ weight F' := by
  have hcT : ∀ x, x ∈ comp ↔ x ∈ Tn := fun x => (hcomp x).trans (hTn x).symm
  have hends : ∀ e ∈ edgesWithin comp E, e.src ∈ Tn ∧ e.tgt ∈ Tn := by
    intro e he
    obtain ⟨_, h1, h2⟩ := mem_edgesWithin.mp he
    exact ⟨(hcT _).mp h1, (hcT _).mp h2⟩
  have hreps : IsRepSystem (edgesWithin comp E) Tn [s] := by
    refine ⟨?_, by simp, ?_, ?_⟩
    · intro r hr; simp at hr; subst hr; exact (hTn r).mpr (Conn.refl _ _)
    · intro x hx
      exact ⟨s, by simp, ((conn_within hcomp).mp ((hTn x).mp hx)).symm⟩
    · intro r hr r' hr' _; simp at hr hr'; rw [hr, hr']
  have n2 := spanningForest_count hnd hends hF' hreps
  have hlen : M.length = F'.length := by simp at n2; omega
  rw [weight_eq_sum, weight_eq_sum]
  refine sum_le_of_dominated M.length _ _ (by simp) (by simp [hlen]) ?_
  intro t
  rw [countP_weights, countP_weights]
  refine light_count_le hnd hends hMV (fun e he => hF'.sub.mem he) hac hF'.acyclic t ?_
  intro e he het
  have hmem := mem_edgesWithin.mp he
  refine hlight t e.src (hends e he).1 e.tgt (hends e he).2 (Conn.edge ?_)
  exact List.mem_filter.mpr ⟨hmem.1, decide_eq_true het⟩

/-- the result of Prim's model on a non-empty graph: a spanning tree of the first node's component -/
structure PrimTree (v : View) (s : Nat) (A : List Item) : Prop where
  /-- every tree edge is an edge of the graph (either orientation) with that weight -/
  edges : ∀ it ∈ A, ∃ e ∈ v.g.edges, e.w = it.w ∧
    ((e.src = it.a ∧ e.tgt = it.b) ∨ (e.src = it.b ∧ e.tgt = it.a))
  acyclic : Acyclic (A.map Item.toEdge)
  /-- it reaches everything the first node reaches … -/
  spans : ∀ x, Conn v.g.edges s x → Conn (A.map Item.toEdge) s x
  /-- … and nothing else -/
  within : ∀ it ∈ A, Conn v.g.edges s it.a ∧ Conn v.g.edges s it.b
  /-- one edge less than nodes reached -/
  count : ∃ comp : List Nat, comp.Nodup ∧ (∀ x, x ∈ comp ↔ Conn v.g.edges s x) ∧ A.length + 1 = comp.length
  /-- minimum total weight among all spanning forests of the component's edges -/
  minimal : ∀ comp : List Nat, (∀ x, x ∈ comp ↔ Conn v.g.edges s x) →
    ∀ F', SpanningForest (edgesWithin comp v.g.edges) F' → weight (A.map Item.toEdge) ≤ weight F'

/-- **Prim model: it terminates without fault or panic, emits the nodes in order and then a spanning
tree of the first node's component.** -/
theorem prim_correct (v : View) (hv : PView v) :
    (v.g.nodes = [] → prim v = .ok [] []) ∧
    ∀ s rest, v.g.nodes = s :: rest →
      ∃ A : List Item, prim v = .ok v.g.nodes (A.map (toEl v.g.nodes)) ∧ PrimTree v s A := by
  unfold prim
  cases hnodes : v.g.nodes with
  | nil => exact ⟨fun _ => rfl, fun _ _ h => (nomatch h)⟩
  | cons s rest =>
    simp only
    have hs : s ∈ v.g.nodes := by rw [hnodes]; exact List.mem_cons_self ..
    have inv0 : PInv v s (pushEdges v [] s) [s] [] := by
      refine ⟨fun x hx => by simp at hx; subst hx; exact hs, by simp, by simp, acyclic_nil,
        fun _ h => (nomatch h), fun _ h => (nomatch h), ?_, ?_, ?_, rfl,
        foldl_push_heap (outItem v s) (v.outOf s) [] isHeap_nil, ?_⟩
      · intro x hx; simp at hx; subst hx; exact Conn.refl _ _
      · intro x hx
        rcases mem_pushEdges.mp hx with ⟨oe, hoe, rfl⟩ | hx'
        · exact ⟨by simp [outItem], oe, hoe, rfl⟩
        · cases hx'
      · intro a ha oe hoe
        simp at ha; subst ha
        exact Or.inr (mem_pushEdges.mpr (Or.inl ⟨oe, hoe, rfl⟩))
      · intro t a ha x hx _
        simp at ha hx; subst ha; subst hx; exact Conn.refl _ _
    have hfuel0 : (pushEdges v [] s).length + pending v [s] < primFuel v := by
      rw [pushEdges_length]
      have h1 := pending_cons hv (Tn := []) hs (by simp)
      have h2 : pending v [] = (v.g.nodes.map fun x => (v.outOf x).length).sum := by
        have : (v.g.nodes.filter fun _ => true) = v.g.nodes := List.filter_eq_self.mpr (fun _ _ => rfl)
        simp [pending, this]
      unfold primFuel
      simp only [List.length_nil] at *
      omega
    obtain ⟨B, Tn, hes, fin⟩ := primLoop_spec v hv s (primFuel v) _ [s] [] [] _ inv0 hfuel0 rfl
    simp only [List.append_nil, List.reverse_nil, List.nil_append, List.map_cons, List.map_nil] at hes fin
    suffices hmain : PrimTree v s B by
      refine ⟨fun h => (nomatch h), ?_⟩
      intro s' rest' heq
      simp only [List.cons.injEq] at heq
      obtain ⟨rfl, rfl⟩ := heq
      exact ⟨B, by rw [← hnodes]; exact hes, hmain⟩
    have hperm : (B.reverse.map Item.toEdge).Perm (B.map Item.toEdge) := (List.reverse_perm B).map _
    have hmemB : ∀ it, it ∈ B ↔ it ∈ B.reverse := fun it => by simp
    have hsubG : ∀ e ∈ B.reverse.map Item.toEdge, Conn v.g.edges e.src e.tgt := by
      intro e he
      obtain ⟨it, hit, rfl⟩ := List.mem_map.mp he
      obtain ⟨e', he', _, hends⟩ := isOut_edge hv (fin.tsub _ (fin.ain it hit).1) (fin.aout it hit)
      rcases hends with ⟨h1, h2⟩ | ⟨h1, h2⟩
      · show Conn v.g.edges it.a it.b
        rw [← h1, ← h2]; exact Conn.edge he'
      · show Conn v.g.edges it.a it.b
        rw [← h1, ← h2]; exact (Conn.edge he').symm
    -- Tn is exactly the component of s
    have hTn : ∀ x, x ∈ Tn ↔ Conn v.g.edges s x := by
      intro x
      constructor
      · intro hx
        exact (fin.reach x hx).of_edges hsubG
      · intro hc
        unfold Conn at hc
        induction hc with
        | refl => exact fin.sIn
        | @step b c _ hadj ih =>
          rw [adj_ug] at hadj
          obtain ⟨e, he, h'⟩ := hadj
          rcases fin.closed with hall | hcl
          · rcases h' with ⟨_, h2⟩ | ⟨h1, _⟩
            · rw [← h2]; exact hall _ (hv.ends e he).2
            · rw [← h1]; exact hall _ (hv.ends e he).1
          · obtain ⟨⟨oe1, hoe1, ht1, _⟩, ⟨oe2, hoe2, ht2, _⟩⟩ := hv.outComplete e he
            rcases h' with ⟨h1, h2⟩ | ⟨h1, h2⟩
            · rw [← h2, ← ht1]; exact hcl e.src (h1 ▸ ih) oe1 hoe1
            · rw [← h1, ← ht2]; exact hcl e.tgt (h2 ▸ ih) oe2 hoe2
    refine ⟨?_, fin.acyclic.perm hperm, ?_, ?_, ⟨Tn, fin.tnodup, hTn, by simpa using fin.cnt⟩, ?_⟩
    · intro it hit
      have hit' := (hmemB it).mp hit
      exact isOut_edge hv (fin.tsub _ (fin.ain it hit').1) (fin.aout it hit')
    · intro x hx
      exact (conn_perm hperm).mp (fin.reach x ((hTn x).mpr hx))
    · intro it hit
      have hit' := (hmemB it).mp hit
      exact ⟨(hTn _).mp (fin.ain it hit').1, (hTn _).mp (fin.ain it hit').2⟩
    · intro comp hcomp F' hF'
      refine tree_minimal_of_light fin.tnodup hTn ?_ (fin.acyclic.perm hperm) (by simpa using fin.cnt) ?_
        comp hcomp F' hF'
      · intro e he
        obtain ⟨it, hit, rfl⟩ := List.mem_map.mp he
        exact fin.ain it ((hmemB it).mp hit)
      · intro t a ha x hx hc
        have hp : (light t (B.reverse.map Item.toEdge)).Perm (light t (B.map Item.toEdge)) :=
          hperm.filter _
        exact (conn_perm hp).mp (fin.light t a ha x hx hc)

end PetgraphModel.MstModel
