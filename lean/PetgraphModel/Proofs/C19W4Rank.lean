import PetgraphModel.Proofs.UnionFind
/-
C19, wave 4 — the rank bound.

`rank` is a `Vec<u8>` in `/repo/src/unionfind.rs`; the model keeps it as an unbounded `Nat`.  The
invariant that makes `self.rank[xrepu] += 1` safe is the classical one of union by rank:

    a ROOT of rank `k` has at least `2^k` elements in its class,

and ranks strictly increase along parent links (already part of `Inv`), so every element `x`
satisfies `2 ^ rank[x] ≤ len`.  Path halving only re-hangs non-roots, whose rank is never read again,
which is why the invariant is stated on roots (sub-tree sizes of non-roots shrink under compression).
-/
namespace PetgraphModel.UFProofs
open PetgraphModel PetgraphModel.UF PetgraphModel.PartitionSpec
open PetgraphModel.UFBase PetgraphModel.UFSpec

/-- number of elements whose representative is `r` -/
def classSize (s : State) (r : Nat) : Nat :=
  (List.range s.len).countP (fun z => rootOf s z == r)

/-- union-by-rank invariant: a root of rank `k` represents at least `2^k` elements -/
def RankInv (s : State) : Prop :=
  ∀ r, s.parent[r]? = some r → 2 ^ rk s r ≤ classSize s r

/-! ### counting lemmas -/

theorem countP_add_le {α} {p q t : α → Bool} : ∀ (l : List α),
    (∀ a ∈ l, p a = true → t a = true) → (∀ a ∈ l, q a = true → t a = true) →
    (∀ a ∈ l, p a = true → q a = true → False) →
    l.countP p + l.countP q ≤ l.countP t
  | [], _, _, _ => by simp
  | a :: l, hp, hq, hd => by
    have ih := countP_add_le l (fun b hb => hp b (List.mem_cons_of_mem _ hb))
      (fun b hb => hq b (List.mem_cons_of_mem _ hb))
      (fun b hb => hd b (List.mem_cons_of_mem _ hb))
    have hp' := hp a List.mem_cons_self
    have hq' := hq a List.mem_cons_self
    have hd' := hd a List.mem_cons_self
    simp only [List.countP_cons]
    cases hpa : p a <;> cases hqa : q a <;> cases hta : t a <;> simp_all <;> omega

theorem countP_le_of_imp {α} {p t : α → Bool} (l : List α)
    (h : ∀ a ∈ l, p a = true → t a = true) : l.countP p ≤ l.countP t := by
  have := countP_add_le (p := p) (q := fun _ => false) (t := t) l h (by simp) (by simp)
  simpa using this

theorem classSize_le (s : State) (r : Nat) : classSize s r ≤ s.len := by
  have := List.countP_le_length (p := fun z => rootOf s z == r) (l := List.range s.len)
  simpa [classSize] using this

theorem classSize_pos {s : State} {x : Nat} (hx : x < s.len) : 1 ≤ classSize s (rootOf s x) := by
  have : 0 < classSize s (rootOf s x) := by
    unfold classSize
    rw [List.countP_pos_iff]
    exact ⟨x, List.mem_range.mpr hx, by simp⟩
  omega

/-! ### the bound follows from the invariant -/

theorem rank_log {s : State} (h : Inv s) (hr : RankInv s) (x : Nat) (hx : x < s.len) :
    2 ^ rk s x ≤ s.len := by
  have hroot := isRoot_rootOf h hx
  have h1 : rk s x ≤ rk s (rootOf s x) := hroot.rank_le h.wf
  have h2 := hr _ hroot.self
  have h3 := classSize_le s (rootOf s x)
  have h4 : 2 ^ rk s x ≤ 2 ^ rk s (rootOf s x) := Nat.pow_le_pow_right (by omega) h1
  omega

/-! ### `new` -/

theorem rootOf_new {m n : Nat} (hm : m = 0 ∨ n ≤ m) {z : Nat} (hz : z < n) :
    rootOf (UF.new m n) z = z := by
  apply rootOf_eq (inv_new m n hm)
  refine .root ?_
  simp only [UF.new, List.getElem?_map, List.getElem?_range hz, Option.map_some]
  rw [mkIx_eq (by omega)]

theorem rankInv_new (m n : Nat) (hm : m = 0 ∨ n ≤ m) : RankInv (UF.new m n) := by
  intro r hr
  have hl0 : (UF.new m n).len = n := by simp [UF.new, State.len]
  have hrl : r < n := by
    have := lt_of_getElem?_eq_some hr
    simpa [UF.new] using this
  have h0 : rk (UF.new m n) r = 0 := by
    simp [rk, UF.new, hrl]
  have := classSize_pos (s := UF.new m n) (x := r) (by omega)
  rw [rootOf_new hm hrl] at this
  rw [h0]; simpa using this

/-! ### calls that do not merge: same roots, same ranks -/

theorem findMutRec_rank {s s' : State} {x r : Nat} (h : findMutRec s x = .ok (s', r)) :
    s'.rank = s.rank := by
  unfold findMutRec at h
  split at h
  · cases h
  · split at h
    · cases h; rfl
    · cases h

theorem tryFindMut_rank {s s' : State} {x : Nat} {o : Option Nat}
    (h : tryFindMut s x = .ok (s', o)) : s'.rank = s.rank := by
  unfold tryFindMut at h
  split at h
  · cases h; rfl
  · split at h
    · rename_i h1; cases h; exact findMutRec_rank h1
    · cases h

/-- a compressed version with the same ranks -/
theorem rankInv_of_pres {s s' : State} (h : Inv s) (hr : RankInv s) (p : Pres s s')
    (hrank : s'.rank = s.rank) : RankInv s' := by
  intro r hroot
  have hlen : s'.len = s.len := p.len
  have hrl : r < s.len := by
    have := lt_of_getElem?_eq_some hroot; have := p.len; unfold State.len; omega
  -- `r` was a root before
  have h0 := p.roots _ _ (isRoot_rootOf h hrl)
  have e : rootOf s r = r := (h0.functional (.root hroot))
  have hroot0 : s.parent[r]? = some r := by
    have := (isRoot_rootOf h hrl).self; rwa [e] at this
  have hk : rk s' r = rk s r := by simp only [rk, hrank]
  have hc : classSize s' r = classSize s r := by
    simp only [classSize, hlen]
    apply List.countP_congr
    intro z _
    rw [p.rootOf h]
  rw [hk, hc]; exact hr r hroot0

/-! ### `new_set` -/

theorem rankInv_newSet {s : State} (h : Inv s) (hr : RankInv s)
    (hfit : s.modulus = 0 ∨ s.len < s.modulus) : RankInv (newSet s).1 := by
  obtain ⟨_, inv', hlen, _, hroots, hlast⟩ := newSet_spec h hfit
  have hm : mkIx s.modulus s.parent.length = s.parent.length := mkIx_eq hfit
  intro r hroot
  have hrl : r < s.len + 1 := by
    have := lt_of_getElem?_eq_some hroot
    have e : (newSet s).1.parent.length = s.len + 1 := hlen
    omega
  have hcs : classSize (newSet s).1 r =
      (List.range s.len).countP (fun z => rootOf (newSet s).1 z == r) +
        (if rootOf (newSet s).1 s.len == r then 1 else 0) := by
    simp only [classSize, hlen, List.range_succ, List.countP_append, List.countP_cons,
      List.countP_nil]
    simp
  by_cases hrn : r = s.len
  · subst hrn
    have h0 : rk (newSet s).1 s.len = 0 := by
      have : s.rank.length = s.len := h.lenEq
      simp [rk, newSet, ← this]
    rw [h0, hcs, hlast]; simp
  · have hr2 : r < s.len := by omega
    have hroot0 : s.parent[r]? = some r := by
      have hr2' : r < s.parent.length := hr2
      simp only [newSet, hm, List.getElem?_append] at hroot
      rw [if_pos hr2'] at hroot; exact hroot
    have hk : rk (newSet s).1 r = rk s r := by
      simp only [rk, newSet, List.getElem?_append]
      rw [if_pos (by have := h.lenEq; unfold State.len at hr2; omega)]
    have hc : (List.range s.len).countP (fun z => rootOf (newSet s).1 z == r) = classSize s r := by
      simp only [classSize]
      apply List.countP_congr
      intro z hz
      rw [hroots z (List.mem_range.mp hz)]
    have := hr r hroot0
    rw [hk, hcs, hc]; omega

/-! ### a merging union: `tryUnion_good` with what it does to the ranks -/

theorem tryUnion_good_rank {s : State} (h : Inv s) {x y : Nat} (hxy : x ≠ y) (hx : x < s.len)
    (hy : y < s.len) :
    ∃ s', tryUnion s x y = .ok (s', .ok (!(rootOf s x == rootOf s y))) ∧ Inv s' ∧
      s'.parent.length = s.parent.length ∧
      ∃ a b, ((a = rootOf s x ∧ b = rootOf s y) ∨ (a = rootOf s y ∧ b = rootOf s x)) ∧
        (∀ z r, IsRoot s.parent z r → IsRoot s'.parent z (if r = a then b else r)) ∧
        (s'.rank = s.rank ∨
          (a ≠ b ∧ rk s a = rk s b ∧ s'.rank = s.rank.set b (rk s b + 1))) := by
  obtain ⟨s1, h1, p1, hk1⟩ := tryFindMut_lt h hx
  have hy1 : y < s1.len := by have := p1.len; unfold State.len at *; omega
  obtain ⟨s2, h2, p2, hk2⟩ := tryFindMut_lt p1.inv hy1
  rw [p1.rootOf h] at h2
  have hk : s2.rank = s.rank := hk2.trans hk1
  have p := p1.trans p2
  have hra := (p.roots _ _ (isRoot_rootOf h hx)).self
  have hrb := (p.roots _ _ (isRoot_rootOf h hy)).self
  generalize rootOf s x = ra at *
  generalize rootOf s y = rb at *
  by_cases hab : ra = rb
  · subst hab
    refine ⟨s2, ?_, p.inv, p.len, ra, ra, .inl ⟨rfl, rfl⟩, ?_, .inl hk⟩
    · simp [tryUnion, hxy, h1, h2]
    · intro z r hr
      have : (if r = ra then ra else r) = r := by split <;> simp_all
      rw [this]; exact p.roots _ _ hr
  · have hal := lt_of_getElem?_eq_some hra
    have hbl := lt_of_getElem?_eq_some hrb
    have hl2 := p.inv.lenEq
    have hxr : s2.rank[ra]? = some s2.rank[ra] := List.getElem?_eq_getElem (by omega)
    have hyr : s2.rank[rb]? = some s2.rank[rb] := List.getElem?_eq_getElem (by omega)
    have ea : rk s2 ra = s2.rank[ra] := by simp [rk, hxr]
    have eb : rk s2 rb = s2.rank[rb] := by simp [rk, hyr]
    have ea0 : rk s ra = s2.rank[ra] := by rw [← ea]; simp only [rk, hk]
    have eb0 : rk s rb = s2.rank[rb] := by rw [← eb]; simp only [rk, hk]
    have hne : (ra == rb) = false := by simp [hab]
    rw [hne]
    rcases Nat.lt_trichotomy s2.rank[ra] s2.rank[rb] with hlt | heq | hgt
    · -- ra below rb
      refine ⟨{ s2 with parent := s2.parent.set ra rb }, ?_, ?_, ?_, ra, rb,
        .inl ⟨rfl, rfl⟩, ?_, .inl hk⟩
      · simp [tryUnion, hxy, h1, h2, hab, hxr, hyr, hlt]
      · apply Inv.of_wf
        · exact link_wf (ρ := rk s2) p.inv.wf hra hrb hab
            (by show rk s2 ra < rk s2 rb; rw [ea, eb]; exact hlt)
            (fun _ _ => rfl) (Nat.le_refl _)
        · simp only [List.length_set]; exact hl2
        · simp only [List.length_set]; exact p.inv.fits
      · simp only [List.length_set]; exact p.len
      · intro z r hr
        exact link_roots hra hrb hab (p.roots _ _ hr)
    · -- equal ranks: rb below ra, rank of ra incremented
      have hba : rb ≠ ra := Ne.symm hab
      refine ⟨{ s2 with parent := s2.parent.set rb ra,
                        rank := s2.rank.set ra (s2.rank[ra] + 1) }, ?_, ?_, ?_, rb, ra,
        .inr ⟨rfl, rfl⟩, ?_, .inr ⟨hba, ?_, ?_⟩⟩
      · have h3 : ¬ s2.rank[ra] < s2.rank[rb] := by omega
        have h4 : ¬ s2.rank[ra] > s2.rank[rb] := by omega
        simp [tryUnion, hxy, h1, h2, hab, hxr, hyr, h3, h4]
      · apply Inv.of_wf
        · refine link_wf (ρ := rk s2) p.inv.wf hrb hra hba ?_ ?_ ?_
          · simp only [rk, List.getElem?_set_ne hab, hyr]
            rw [List.getElem?_set_self (by omega)]
            simp; omega
          · intro z hz
            simp only [rk, List.getElem?_set_ne (Ne.symm hz)]
          · simp only [rk]
            rw [List.getElem?_set_self (by omega), hxr]
            simp
        · simp only [List.length_set]; exact hl2
        · simp only [List.length_set]; exact p.inv.fits
      · simp only [List.length_set]; exact p.len
      · intro z r hr
        exact link_roots hrb hra hba (p.roots _ _ hr)
      · rw [ea0, eb0]; exact heq.symm
      · show s2.rank.set ra (s2.rank[ra] + 1) = s.rank.set ra (rk s ra + 1)
        rw [ea0]
        exact congrArg (fun l => l.set ra (s2.rank[ra] + 1)) hk
    · -- rb below ra
      have hba : rb ≠ ra := Ne.symm hab
      refine ⟨{ s2 with parent := s2.parent.set rb ra }, ?_, ?_, ?_, rb, ra,
        .inr ⟨rfl, rfl⟩, ?_, .inl hk⟩
      · have h3 : ¬ s2.rank[ra] < s2.rank[rb] := by omega
        simp [tryUnion, hxy, h1, h2, hab, hxr, hyr, h3, hgt]
      · apply Inv.of_wf
        · exact link_wf (ρ := rk s2) p.inv.wf hrb hra hba
            (by show rk s2 rb < rk s2 ra; rw [ea, eb]; exact hgt)
            (fun _ _ => rfl) (Nat.le_refl _)
        · simp only [List.length_set]; exact hl2
        · simp only [List.length_set]; exact p.inv.fits
      · simp only [List.length_set]; exact p.len
      · intro z r hr
        exact link_roots hrb hra hba (p.roots _ _ hr)

theorem rankInv_union {s : State} (h : Inv s) (hr : RankInv s) {x y : Nat} (hxy : x ≠ y)
    (hx : x < s.len) (hy : y < s.len) :
    ∃ s' r, tryUnion s x y = .ok (s', r) ∧ RankInv s' := by
  obtain ⟨s', h1, inv', hlen, a, b, hab, hroots, hrank⟩ := tryUnion_good_rank h hxy hx hy
  refine ⟨s', _, h1, ?_⟩
  have hlen' : s'.len = s.len := hlen
  -- `a`, `b` are roots of `s`
  have haroot : s.parent[a]? = some a := by
    rcases hab with ⟨rfl, _⟩ | ⟨rfl, _⟩
    · exact (isRoot_rootOf h hx).self
    · exact (isRoot_rootOf h hy).self
  have hbroot : s.parent[b]? = some b := by
    rcases hab with ⟨_, rfl⟩ | ⟨_, rfl⟩
    · exact (isRoot_rootOf h hy).self
    · exact (isRoot_rootOf h hx).self
  have hbl : b < s.rank.length := by
    have := lt_of_getElem?_eq_some hbroot; have := h.lenEq; omega
  have hg : ∀ z, z < s.len → rootOf s' z = if rootOf s z = a then b else rootOf s z :=
    fun z hz => rootOf_eq inv' (hroots _ _ (isRoot_rootOf h hz))
  intro r hroot
  have hrl : r < s.len := by have := lt_of_getElem?_eq_some hroot; unfold State.len; omega
  -- `r` was a root of `s`, and `r = b` or `r ≠ a`
  have hr0 := hroots _ _ (isRoot_rootOf h hrl)
  have e := hr0.functional (.root hroot)
  have hcase : s.parent[r]? = some r ∧ (r = b ∨ r ≠ a) := by
    by_cases hc : rootOf s r = a
    · rw [if_pos hc] at e
      subst e; exact ⟨hbroot, .inl rfl⟩
    · rw [if_neg hc] at e
      have := (isRoot_rootOf h hrl).self
      rw [e] at this hc
      exact ⟨this, .inr hc⟩
  obtain ⟨hroot0, hrab⟩ := hcase
  have hcs : ∀ t, classSize s' t = (List.range s.len).countP
      (fun z => (if rootOf s z = a then b else rootOf s z) == t) := by
    intro t
    simp only [classSize, hlen']
    apply List.countP_congr
    intro z hz
    rw [hg z (List.mem_range.mp hz)]
  by_cases hrb : r = b
  · subst hrb
    -- the class of `r = b` absorbs the class of `a`
    have hmono : classSize s r ≤ classSize s' r := by
      rw [hcs]
      apply countP_le_of_imp
      intro z _ hz
      simp only [beq_iff_eq] at hz ⊢
      split
      · rfl
      · exact hz
    rcases hrank with hk | ⟨hne, hkeq, hk⟩
    · have : rk s' r = rk s r := by simp only [rk, hk]
      rw [this]; exact Nat.le_trans (hr r hroot0) hmono
    · have hk' : rk s' r = rk s r + 1 := by
        simp only [rk, hk]
        rw [List.getElem?_set_self hbl]; rfl
      have hsum : classSize s a + classSize s r ≤ classSize s' r := by
        rw [hcs]
        apply countP_add_le
        · intro z _ hz
          simp only [beq_iff_eq] at hz ⊢
          rw [if_pos hz]
        · intro z _ hz
          simp only [beq_iff_eq] at hz ⊢
          split
          · rfl
          · exact hz
        · intro z _ h1 h2
          simp only [beq_iff_eq] at h1 h2
          exact hne (h1.symm.trans h2)
      have h1 := hr a haroot
      have h2 := hr r hroot0
      rw [hk', Nat.pow_succ]
      rw [hkeq] at h1
      omega
  · have hra : r ≠ a := by
      rcases hrab with h' | h'
      · exact absurd h' hrb
      · exact h'
    have hk' : rk s' r = rk s r := by
      rcases hrank with hk | ⟨_, _, hk⟩
      · simp only [rk, hk]
      · simp only [rk, hk]
        rw [List.getElem?_set_ne (Ne.symm hrb)]
    have hc : classSize s' r = classSize s r := by
      rw [hcs]
      simp only [classSize]
      apply List.countP_congr
      intro z _
      by_cases hz : rootOf s z = a
      · rw [if_pos hz, hz]
        simp [Ne.symm hrb, Ne.symm hra]
      · rw [if_neg hz]
    rw [hk', hc]; exact hr r hroot0

/-! ### every call preserves the rank invariant -/

theorem step_rank_of_pres {s : State} (h : Inv s) (op : Op) (hns : op ≠ .newSet)
    (hu : ∀ x y, (op = .union x y ∨ op = .tryUnion x y) → ¬ (x ≠ y ∧ x < s.len ∧ y < s.len)) :
    (step s op).1.rank = s.rank := by
  have tu : ∀ x y, ¬ (x ≠ y ∧ x < s.len ∧ y < s.len) →
      ∃ s' r, tryUnion s x y = .ok (s', r) ∧ s'.rank = s.rank := by
    intro x y hbad
    by_cases hxy : x = y
    · subst hxy; exact ⟨s, _, tryUnion_same s x, rfl⟩
    · by_cases hx : x < s.len
      · have hy : s.len ≤ y := by omega
        obtain ⟨s1, h1, p, hk⟩ := tryFindMut_lt h hx
        have hy1 : s1.len ≤ y := by have := p.len; unfold State.len at *; omega
        exact ⟨s1, .error y, by simp [tryUnion, hxy, h1, tryFindMut_ge hy1], hk⟩
      · exact ⟨s, _, tryUnion_bad1 hxy (by omega), rfl⟩
  cases op with
  | newSet => exact absurd rfl hns
  | find x => simp only [step]; split <;> rfl
  | tryFind x => simp only [step]; split <;> rfl
  | findMut x =>
    by_cases hx : x < s.len
    · obtain ⟨s', h1, _, hk, _⟩ := findMutRec_spec h hx
      simp only [step, hx, if_true, h1]; exact hk
    · simp only [step, hx, if_false]
  | tryFindMut x =>
    by_cases hx : x < s.len
    · obtain ⟨s', h1, _, hk⟩ := tryFindMut_lt h hx
      simp only [step, h1]; exact hk
    · simp only [step, tryFindMut_ge (Nat.le_of_not_lt hx)]
  | equiv x y => simp only [step]; split <;> rfl
  | tryEquiv x y => simp only [step]; split <;> rfl
  | union x y =>
    obtain ⟨s', r, h1, hk⟩ := tu x y (hu x y (.inl rfl))
    rw [(step_union_fst h1).1]; exact hk
  | tryUnion x y =>
    obtain ⟨s', r, h1, hk⟩ := tu x y (hu x y (.inr rfl))
    rw [(step_union_fst h1).2]; exact hk
  | labeling => simp only [step]; split <;> rfl
  | len => rfl
  | capacityOp => rfl

theorem rankInv_step (s : State) (op : Op) (h : Inv s) (hr : RankInv s)
    (hfit : op = .newSet → s.modulus = 0 ∨ s.len < s.modulus) : RankInv (step s op).1 := by
  rcases op_cases s.len op with rfl | ⟨x, y, hop, hxy, hx, hy⟩ | ⟨hns, hu⟩
  · exact rankInv_newSet h hr (hfit rfl)
  · obtain ⟨s', r, h1, hr'⟩ := rankInv_union h hr hxy hx hy
    rcases hop with rfl | rfl
    · rw [(step_union_fst h1).1]; exact hr'
    · rw [(step_union_fst h1).2]; exact hr'
  · exact rankInv_of_pres h hr (step_pres h op hns hu) (step_rank_of_pres h op hns hu)

theorem canonQ_ok {s : State} (h : Inv s) : Ok (canonQ s) := by
  intro x c hc
  have hx : x < s.len := by
    have := lt_of_getElem?_eq_some hc
    simpa [canonQ] using this
  simp only [canonQ, List.getElem?_map, List.getElem?_range hx, Option.map_some] at hc
  cases hc
  simpa [canonQ] using rootOf_lt h hx

/-- only `new_set` changes the element count, nothing changes the index type -/
theorem step_len_mod {s : State} (op : Op) (h : Inv s)
    (hfit : op = .newSet → s.modulus = 0 ∨ s.len < s.modulus) :
    (step s op).1.len = (if op = .newSet then s.len + 1 else s.len) ∧
    (step s op).1.modulus = s.modulus := by
  obtain ⟨_, _, hl', hm', _⟩ := step_rel (q := canonQ s) op h (canonQ_ok h) (canonQ_len s).symm
    ((rel_iff h (canonQ_len s).symm).mp (canonQ_rel h)) hfit
  refine ⟨?_, hm'⟩
  rw [hl', specStep_len, canonQ_len]

/-- all histories within capacity keep both invariants -/
theorem run_rankInv (m : Nat) : ∀ (ops : List Op) (s : State), Inv s → RankInv s → s.modulus = m →
    Fits m s.len ops = true → Inv (run s ops).1 ∧ RankInv (run s ops).1
  | [], _, h, hr, _, _ => ⟨h, hr⟩
  | op :: ops, s, h, hr, hm, hf => by
    obtain ⟨hfit, hf'⟩ := fits_cons hf
    have hfit' : op = .newSet → s.modulus = 0 ∨ s.len < s.modulus := fun e => by
      rw [hm]; exact hfit e
    have inv' := inv_step s op h hfit'
    have hr' := rankInv_step s op h hr hfit'
    obtain ⟨hl', hm'⟩ := step_len_mod op h hfit'
    rw [run_cons_fst]
    refine run_rankInv m ops _ inv' hr' (hm'.trans hm) ?_
    rw [hl']
    exact hf'

theorem rank_all_histories (m n : Nat) (ops : List Op) (hm : m = 0 ∨ n ≤ m) (hf : Fits m n ops) :
    let s := (run (UF.new m n) ops).1
    RankInv s ∧ s.rank.length = s.len ∧ ∀ x, x < s.len → 2 ^ (s.rank[x]?.getD 0) ≤ s.len := by
  intro s
  have hl0 : (UF.new m n).len = n := by simp [UF.new, State.len]
  obtain ⟨h, hr⟩ := run_rankInv m ops (UF.new m n) (inv_new m n hm) (rankInv_new m n hm) rfl
    (by rw [hl0]; exact hf)
  exact ⟨hr, h.lenEq, fun x hx => rank_log h hr x hx⟩

theorem rank_u8 (m n : Nat) (ops : List Op) (hm : m = 0 ∨ n ≤ m) (hf : Fits m n ops)
    (hw : (run (UF.new m n) ops).1.len < 2 ^ 256) :
    ∀ r, r ∈ (run (UF.new m n) ops).1.rank → r < 256 := by
  obtain ⟨_, hlen, hlog⟩ := rank_all_histories m n ops hm hf
  intro r hr
  obtain ⟨i, hi, e⟩ := List.getElem_of_mem hr
  have hi' : i < (run (UF.new m n) ops).1.len := by omega
  have := hlog i hi'
  rw [List.getElem?_eq_getElem hi, e] at this
  simp only [Option.getD_some] at this
  have h2 : 2 ^ r < 2 ^ 256 := Nat.lt_of_le_of_lt this hw
  exact (Nat.pow_lt_pow_iff_right (by omega)).mp h2

end PetgraphModel.UFProofs
