import PetgraphModel.Driver.C19
import PetgraphModel.Spec.C19Slots
/-
C19, wave 6 — the driver's two-structure bookkeeping (`C19.MState`, `C19.step`) IS the machine of
`Spec/C19Slots.lean`: for the copying requests the pair of mirror states follows `sstep` and the pair of
abstract partitions follows `sspecStep`, whatever the implementation answered.
-/
namespace PetgraphModel.UFProofs
open PetgraphModel PetgraphModel.UF PetgraphModel.PartitionSpec PetgraphModel.C19Slots

def slotsOf (m : C19.MState) : Slots := { a := m.a.uf, b := m.b.uf }
def qslotsOf (m : C19.MState) : QSlots := { a := m.a.qf, b := m.b.qf }

/-- the request words of the copying requests -/
def sopOf : List String → Option SOp
  | ["newb", n] => some (.newB (n.toNat?.getD 0))
  | ["clone"] => some .clone
  | ["clone_from"] => some .cloneFrom
  | ["swap"] => some .swap
  | _ => none

theorem driver_slots (m : C19.MState) (req : List String) (impl : String) (op : SOp)
    (h : sopOf req = some op) :
    slotsOf (C19.step m req impl).1 = (sstep (slotsOf m) op).1 ∧
    qslotsOf (C19.step m req impl).1 = sspecStep (qslotsOf m) op := by
  unfold sopOf at h
  split at h <;> simp only [Option.some.injEq, reduceCtorEq] at h <;> subst h <;>
    exact ⟨rfl, rfl⟩

/-- every other request (except the `case` line, which resets both) goes to the current structure only -/
theorem driver_other (m : C19.MState) (req : List String) (impl : String)
    (h : sopOf req = none) (hc : ∀ k w, req ≠ ["case", k, w]) :
    (C19.step m req impl).1.b = m.b ∧ (C19.step m req impl).1.a = (C19.stepSlot m.a req impl).1 := by
  unfold sopOf at h
  unfold C19.step
  split
  · exact absurd rfl (hc _ _)
  · simp at h
  · simp at h
  · simp at h
  · simp at h
  · exact ⟨rfl, rfl⟩

end PetgraphModel.UFProofs
