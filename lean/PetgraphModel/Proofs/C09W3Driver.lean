import PetgraphModel.Proofs.C09W3Tarjan
import PetgraphModel.Driver.C09
/-
C09 (wave 3): what the driver's view check (`Driver/C09.lean`, `viewOkB`) gives — on every node the
successor / predecessor iteration of the view is a permutation of the abstract graph's — and that it
implies the hypotheses of the totality theorems (`SuccLe`, `PredLe`, hence `walkFuel v ≤ fuel v` and
`walkFuel (rev v) ≤ fuel v`); together with "nothing is enumerated for a non-node" it gives `ViewOk`
and `PredOk` in full.
-/
namespace PetgraphModel.C09P
open PetgraphModel PetgraphModel.MGraph PetgraphModel.C09M PetgraphModel.Trav

theorem viewOkB_perm (v : View) (h : C09.viewOkB v = true) (a : Nat) (ha : a ∈ v.g.nodes) :
    (v.succ a).Perm (v.g.succ a) ∧ (v.pred a).Perm (v.g.pred a) := by
  unfold C09.viewOkB at h
  have := (List.all_eq_true.mp h) a ha
  simp only [Bool.and_eq_true] at this
  exact ⟨TravProofs.sameSet_perm this.1, TravProofs.sameSet_perm this.2⟩

theorem viewOkB_succLe (v : View) (h : C09.viewOkB v = true) : TravProofs.SuccLe v :=
  fun a ha => Nat.le_of_eq (viewOkB_perm v h a ha).1.length_eq

theorem viewOkB_predLe (v : View) (h : C09.viewOkB v = true) : TravProofs.PredLe v :=
  fun a ha => Nat.le_of_eq (viewOkB_perm v h a ha).2.length_eq

theorem viewOkB_succ_iff (v : View) (h : C09.viewOkB v = true) (a : Nat) (ha : a ∈ v.g.nodes) (b : Nat) :
    b ∈ v.succ a ↔ v.g.Adj a b :=
  ((viewOkB_perm v h a ha).1.mem_iff).trans TravProofs.mem_gsucc

theorem viewOkB_pred_iff (v : View) (h : C09.viewOkB v = true) (a : Nat) (ha : a ∈ v.g.nodes) (b : Nat) :
    b ∈ v.pred a ↔ v.g.Adj b a :=
  ((viewOkB_perm v h a ha).2.mem_iff).trans TravProofs.mem_gpred

/-- an accepted view of a well-formed graph that enumerates nothing for a non-node is consistent -/
theorem viewOkB_viewOk (v : View) (h : C09.viewOkB v = true) (hwf : v.g.WellFormed)
    (hout : ∀ a, a ∉ v.g.nodes → v.succ a = [] ∧ v.pred a = []) :
    ViewOk v ∧ ∀ a b, b ∈ v.pred a ↔ v.g.Adj b a := by
  constructor
  · intro a b
    by_cases ha : a ∈ v.g.nodes
    · exact viewOkB_succ_iff v h a ha b
    · rw [(hout a ha).1]
      constructor
      · intro hb; cases hb
      · intro hadj; exact absurd (TravProofs.adj_mem_nodes hwf hadj).1 ha
  · intro a b
    by_cases ha : a ∈ v.g.nodes
    · exact viewOkB_pred_iff v h a ha b
    · rw [(hout a ha).2]
      constructor
      · intro hb; cases hb
      · intro hadj; exact absurd (TravProofs.adj_mem_nodes hwf hadj).2 ha

end PetgraphModel.C09P
