import PetgraphModel.Proofs.C13W2Cand
/-
C13, wave 2 — completeness of the pruning: if the current partial mapping is the restriction of a valid
complete mapping `mp`, then the pair `(a, mp a)` passes `is_feasible`, the frontier-cardinality test holds
after pushing it, and `mp a` is a member of the same open list of g1 as `a` is of g0.
-/
namespace PetgraphModel.C13.Vf2
open PetgraphModel

/-- value of a complete mapping vector at `a` -/
def fval (mp : List (Option Nat)) (a : Nat) : Nat := ((mp[a]?).getD none).getD 0

theorem fval_of {mp : List (Option Nat)} {a b : Nat} (h : mp[a]? = some (some b)) : fval mp a = b := by
  simp [fval, h]

theorem Final.get {I : Inst} {mp : List (Option Nat)} (f : Final I mp) {a : Nat} (ha : a < I.g0.n) :
    mp[a]? = some (some (fval mp a)) ∧ fval mp a < I.g1.n := by
  obtain ⟨j, hj, hlt⟩ := f.total a ha
  rw [fval_of hj]; exact ⟨hj, hlt⟩

theorem Final.lt_of_get {I : Inst} {mp : List (Option Nat)} (f : Final I mp) {a b : Nat}
    (h : mp[a]? = some (some b)) : a < I.g0.n := by
  rw [← f.len]
  by_contra hn
  rw [List.getElem?_eq_none (Nat.le_of_not_lt hn)] at h
  cases h

theorem Final.fval_inj {I : Inst} {mp : List (Option Nat)} (f : Final I mp) {a a' : Nat} (ha : a < I.g0.n)
    (ha' : a' < I.g0.n) (h : fval mp a = fval mp a') : a = a' := by
  have h1 := (f.get ha).1
  have h2 := (f.get ha').1
  rw [h] at h1
  exact f.inj a a' _ h1 h2

theorem Final.adj' {I : Inst} {mp : List (Option Nat)} (f : Final I mp) {i j i' j' : Nat}
    (h1 : mp[i]? = some (some j)) (h2 : mp[i']? = some (some j')) : I.g0.adj i i' = I.g1.adj j j' :=
  f.ok.adj i j i' j' (by simp [h1]) (by simp [h2])

theorem Final.node' {I : Inst} {mp : List (Option Nat)} (f : Final I mp) (hs : I.semantic = true) {i j : Nat}
    (h1 : mp[i]? = some (some j)) : I.nm ((I.g0.nw[i]?).getD 0) ((I.g1.nw[j]?).getD 0) = true :=
  f.ok.node hs i j (by simp [h1])

theorem Final.edge' {I : Inst} {mp : List (Option Nat)} (f : Final I mp) (hs : I.semantic = true)
    {i j i' j' : Nat} (h1 : mp[i]? = some (some j)) (h2 : mp[i']? = some (some j'))
    (ha : I.g0.adj i i' = true) : edgeEq I i i' j j' = true :=
  f.ok.edge hs i j i' j' (by simp [h1]) (by simp [h2]) ha

theorem length_le_of_inj {L L' : List Nat} {φ : Nat → Nat} (nd : L.Nodup)
    (inj : ∀ x ∈ L, ∀ y ∈ L, φ x = φ y → x = y) (sub : ∀ x ∈ L, φ x ∈ L') : L.length ≤ L'.length := by
  have h1 : (L.map φ).Nodup := List.Nodup.map_on inj nd
  have h2 : L.map φ ⊆ L' := by
    intro y hy
    obtain ⟨x, hx, rfl⟩ := List.mem_map.mp hy
    exact sub x hx
  have := (List.subperm_of_subset h1 h2).length_le
  simpa using this

/-- the machine state is a restriction of the valid complete mapping `mp` -/
structure Ext (I : Inst) (mp : List (Option Nat)) (m : M) : Prop where
  fin : Final I mp
  core : Core I m.s0 m.s1
  ext : ∀ i j, m.s0.map i = some j → mp[i]? = some (some j)

theorem Ext.ext1 {I : Inst} {mp : List (Option Nat)} {m : M} (e : Ext I mp m) {i j : Nat}
    (h : m.s1.map j = some i) : mp[i]? = some (some j) :=
  e.ext i j ((e.core.inv i j).mpr h)

/-- the image of an unmapped node is unmapped -/
theorem Ext.image_unmapped {I : Inst} {mp : List (Option Nat)} {m : M} (e : Ext I mp m) {a b : Nat}
    (ha : m.s0.map a = none) (hab : mp[a]? = some (some b)) : m.s1.map b = none := by
  cases h : m.s1.map b with
  | none => rfl
  | some i =>
    have h1 := e.ext1 h
    have : a = i := e.fin.inj a i b hab h1
    subst this
    have := (e.core.inv a b).mpr h
    rw [ha] at this; cases this

section feasible
variable {I : Inst} {mp : List (Option Nat)} {m : M} {a b : Nat}

theorem Ext.succ0 (e : Ext I mp m) (hab : mp[a]? = some (some b)) : succOk I.g0 I.g1 m.s0 a b = true := by
  unfold succOk
  rw [List.all_eq_true]
  intro nb hnb
  have hadj : I.g0.adj a nb = true := (adj_iff _ _ _).mpr hnb
  split
  · rfl
  · rename_i x heq
    by_cases h : a = nb
    · subst h
      simp only [bne_self_eq_false, Bool.false_eq_true, if_false, Option.some.injEq] at heq
      subst heq
      rw [← e.fin.adj' hab hab]; exact hadj
    · have hne : (a != nb) = true := by simpa using h
      simp only [hne, if_true] at heq
      rw [← e.fin.adj' hab (e.ext _ _ heq)]; exact hadj

theorem Ext.succ1 (e : Ext I mp m) (hab : mp[a]? = some (some b)) : succOk I.g1 I.g0 m.s1 b a = true := by
  unfold succOk
  rw [List.all_eq_true]
  intro nb hnb
  have hadj : I.g1.adj b nb = true := (adj_iff _ _ _).mpr hnb
  split
  · rfl
  · rename_i x heq
    by_cases h : b = nb
    · subst h
      simp only [bne_self_eq_false, Bool.false_eq_true, if_false, Option.some.injEq] at heq
      subst heq
      rw [e.fin.adj' hab hab]; exact hadj
    · have hne : (b != nb) = true := by simpa using h
      simp only [hne, if_true] at heq
      rw [e.fin.adj' hab (e.ext1 heq)]; exact hadj

theorem Ext.pred0 (ok0 : CGOk I.g0) (hdir : I.g0.directed = true) (e : Ext I mp m)
    (hab : mp[a]? = some (some b)) : predOk I.g0 I.g1 m.s0 a b = true := by
  unfold predOk
  rw [List.all_eq_true]
  intro nb hnb
  have hadj : I.g0.adj nb a = true := (adj_iff _ _ _).mpr ((ok0.dirIn hdir nb a).mp hnb)
  split
  · rfl
  · rename_i x heq
    rw [← e.fin.adj' (e.ext _ _ heq) hab]; exact hadj

theorem Ext.pred1 (ok1 : CGOk I.g1) (hdir : I.g1.directed = true) (e : Ext I mp m)
    (hab : mp[a]? = some (some b)) : predOk I.g1 I.g0 m.s1 b a = true := by
  unfold predOk
  rw [List.all_eq_true]
  intro nb hnb
  have hadj : I.g1.adj nb b = true := (adj_iff _ _ _).mpr ((ok1.dirIn hdir nb b).mp hnb)
  split
  · rfl
  · rename_i x heq
    rw [e.fin.adj' (e.ext1 heq) hab]; exact hadj

theorem Ext.outdeg (ok0 : CGOk I.g0) (e : Ext I mp m) (hab : mp[a]? = some (some b)) :
    (I.g0.outN a).length ≤ (I.g1.outN b).length := by
  apply length_le_of_inj (φ := fval mp) (ok0.simple a)
  · intro x hx y hy hxy
    exact e.fin.fval_inj (ok0.outLt a x hx).2 (ok0.outLt a y hy).2 hxy
  · intro x hx
    have hx' := (e.fin.get (ok0.outLt a x hx).2).1
    rw [← adj_iff, ← e.fin.adj' hab hx']
    exact (adj_iff _ _ _).mpr hx

theorem Ext.indeg (ok0 : CGOk I.g0) (ok1 : CGOk I.g1) (hdir : I.g0.directed = true)
    (hdir1 : I.g1.directed = true) (hnd : (I.g0.inNb a).Nodup)
    (e : Ext I mp m) (hab : mp[a]? = some (some b)) :
    (I.g0.inNb a).length ≤ (I.g1.inNb b).length := by
  apply length_le_of_inj (φ := fval mp) hnd
  · intro x hx y hy hxy
    exact e.fin.fval_inj (ok0.inLt hdir a x hx).2 (ok0.inLt hdir a y hy).2 hxy
  · intro x hx
    have hx' := (e.fin.get (ok0.inLt hdir a x hx).2).1
    rw [ok1.dirIn hdir1, ← adj_iff, ← e.fin.adj' hx' hab]
    exact (adj_iff _ _ _).mpr ((ok0.dirIn hdir x a).mp hx)

theorem Ext.edge0 (ok0 : CGOk I.g0) (hs : I.semantic = true) (e : Ext I mp m) (hab : mp[a]? = some (some b)) :
    edgeFeas I false I.g0 m.s0 a b = true := by
  unfold edgeFeas
  simp only [Bool.false_eq_true, if_false, Bool.and_eq_true, Bool.or_eq_true, Bool.not_eq_true',
    List.all_eq_true]
  constructor
  · intro nb hnb
    have hadj : I.g0.adj a nb = true := (adj_iff _ _ _).mpr hnb
    split
    · rfl
    · rename_i x heq
      by_cases h : a = nb
      · subst h
        simp only [bne_self_eq_false, Bool.false_eq_true, if_false, Option.some.injEq] at heq
        subst heq
        exact e.fin.edge' hs hab hab hadj
      · have hne : (a != nb) = true := by simpa using h
        simp only [hne, if_true] at heq
        exact e.fin.edge' hs hab (e.ext _ _ heq) hadj
  · cases hdir : I.g0.directed with
    | false => exact Or.inl rfl
    | true =>
      refine Or.inr ?_
      intro nb hnb
      have hadj : I.g0.adj nb a = true := (adj_iff _ _ _).mpr ((ok0.dirIn hdir nb a).mp hnb)
      split
      · rfl
      · rename_i x heq
        exact e.fin.edge' hs (e.ext _ _ heq) hab hadj

theorem Ext.edge1 (ok1 : CGOk I.g1) (hs : I.semantic = true) (e : Ext I mp m) (hab : mp[a]? = some (some b)) :
    edgeFeas I true I.g1 m.s1 b a = true := by
  unfold edgeFeas
  simp only [if_true, Bool.and_eq_true, Bool.or_eq_true, Bool.not_eq_true', List.all_eq_true]
  constructor
  · intro nb hnb
    have hadj : I.g1.adj b nb = true := (adj_iff _ _ _).mpr hnb
    split
    · rfl
    · rename_i x heq
      by_cases h : b = nb
      · subst h
        simp only [bne_self_eq_false, Bool.false_eq_true, if_false, Option.some.injEq] at heq
        subst heq
        exact e.fin.edge' hs hab hab (by rw [e.fin.adj' hab hab]; exact hadj)
      · have hne : (b != nb) = true := by simpa using h
        simp only [hne, if_true] at heq
        have hx := e.ext1 heq
        exact e.fin.edge' hs hab hx (by rw [e.fin.adj' hab hx]; exact hadj)
  · cases hdir : I.g1.directed with
    | false => exact Or.inl rfl
    | true =>
      refine Or.inr ?_
      intro nb hnb
      have hadj : I.g1.adj nb b = true := (adj_iff _ _ _).mpr ((ok1.dirIn hdir nb b).mp hnb)
      split
      · rfl
      · rename_i x heq
        have hx := e.ext1 heq
        exact e.fin.edge' hs hx hab (by rw [e.fin.adj' hx hab]; exact hadj)

/-- completeness of `is_feasible`: the pair `(a, mp a)` of a valid complete mapping extending the current
state is never rejected -/
theorem Ext.feasible (ok0 : CGOk I.g0) (ok1 : CGOk I.g1) (hd : I.g0.directed = I.g1.directed)
    (hin : I.g0.directed = true → ∀ i, (I.g0.inNb i).Nodup)
    (e : Ext I mp m) (hab : mp[a]? = some (some b)) : isFeasible I m a b = true := by
  unfold isFeasible
  simp only [Bool.and_eq_true, Bool.or_eq_true, Bool.not_eq_true', decide_eq_false_iff_not, Nat.not_lt]
  refine ⟨⟨⟨⟨⟨e.succ0 hab, e.succ1 hab⟩, e.outdeg ok0 hab⟩, ?_⟩, ?_⟩, ?_⟩
  · cases hdir : I.g0.directed with
    | false => exact Or.inl rfl
    | true =>
      exact Or.inr ⟨⟨e.pred0 ok0 hdir hab, e.pred1 ok1 (hd ▸ hdir) hab⟩,
        e.indeg ok0 ok1 hdir (hd ▸ hdir) (hin hdir a) hab⟩
  · cases hs : I.semantic with
    | false => exact Or.inl rfl
    | true => exact Or.inr (e.fin.node' hs hab)
  · cases hs : I.semantic with
    | false => exact Or.inl rfl
    | true => exact Or.inr ⟨e.edge0 ok0 hs hab, e.edge1 ok1 hs hab⟩

end feasible

/-! ### the frontier-cardinality test -/

theorem vec_eq_map_stamp (vec : List Nat) : vec = (List.range vec.length).map (stamp vec) := by
  apply List.ext_getElem
  · simp
  · intro i h1 h2
    simp [stamp, h1]

theorem cnt_eq (vec : List Nat) :
    cnt vec = ((List.range vec.length).filter fun v => decide (0 < stamp vec v)).length := by
  unfold cnt
  conv => lhs; rw [vec_eq_map_stamp vec]
  rw [List.countP_map, List.countP_eq_length_filter]
  rfl

theorem cnt_le_of_inj {v0 v1 : List Nat} {φ : Nat → Nat}
    (inj : ∀ x, x < v0.length → ∀ y, y < v0.length → φ x = φ y → x = y)
    (h : ∀ x, 0 < stamp v0 x → 0 < stamp v1 (φ x)) : cnt v0 ≤ cnt v1 := by
  rw [cnt_eq, cnt_eq]
  apply length_le_of_inj (φ := φ) (List.nodup_range.filter _)
  · intro x hx y hy hxy
    simp only [List.mem_filter, List.mem_range] at hx hy
    exact inj x hx.1 y hy.1 hxy
  · intro x hx
    simp only [List.mem_filter, List.mem_range, decide_eq_true_eq] at hx ⊢
    have := h x hx.2
    exact ⟨stamp_pos_lt this, this⟩

/-- the trail is part of the complete mapping `mp` -/
def ExtT (mp : List (Option Nat)) (tr : List (Nat × Nat)) : Prop := ∀ p ∈ tr, mp[p.1]? = some (some p.2)

theorem SG_ins_undirected (g : CG) (hd : g.directed = false) (tr : List (Nat × Nat)) :
    (SG g tr).ins = [] ∧ (SG g tr).insSize = 0 := by
  induction tr with
  | nil => simp [SG, St.new, hd]
  | cons p tr ih =>
    simp only [SG]
    rw [pushMapping_ins_eq, pushMapping_insSize_eq, hd]
    simpa using ih

section sizes
variable {I : Inst} {mp : List (Option Nat)}

theorem ExtT.out_transfer (ok0 : CGOk I.g0) (ok1 : CGOk I.g1) (f : Final I mp) {tr : List (Nat × Nat)}
    (e : ExtT mp tr) {x : Nat} (h : 0 < stamp (SG I.g0 tr).out x) :
    0 < stamp (SG I.g1 (tr.map Prod.swap)).out (fval mp x) := by
  rw [SG_out_pos ok0] at h
  rw [SG_out_pos ok1]
  obtain ⟨p, hp, hx⟩ := h
  refine ⟨p.swap, List.mem_map.mpr ⟨p, hp, rfl⟩, ?_⟩
  have hx' := (f.get (ok0.outLt p.1 x hx).2).1
  show fval mp x ∈ I.g1.outN p.2
  rw [← adj_iff, ← f.adj' (e p hp) hx']
  exact (adj_iff _ _ _).mpr hx

theorem ExtT.ins_transfer (ok0 : CGOk I.g0) (ok1 : CGOk I.g1) (hdir : I.g0.directed = true)
    (hdir1 : I.g1.directed = true) (f : Final I mp) {tr : List (Nat × Nat)}
    (e : ExtT mp tr) {x : Nat} (h : 0 < stamp (SG I.g0 tr).ins x) :
    0 < stamp (SG I.g1 (tr.map Prod.swap)).ins (fval mp x) := by
  rw [SG_ins_pos ok0 hdir] at h
  rw [SG_ins_pos ok1 hdir1]
  obtain ⟨p, hp, hx⟩ := h
  refine ⟨p.swap, List.mem_map.mpr ⟨p, hp, rfl⟩, ?_⟩
  have hx' := (f.get (ok0.inLt hdir p.1 x hx).2).1
  show fval mp x ∈ I.g1.inNb p.2
  rw [ok1.dirIn hdir1, ← adj_iff, ← f.adj' hx' (e p hp)]
  exact (adj_iff _ _ _).mpr ((ok0.dirIn hdir x p.1).mp hx)

/-- completeness of the frontier-size pruning (subgraph mode) -/
theorem ExtT.sizes (ok0 : CGOk I.g0) (ok1 : CGOk I.g1) (hd : I.g0.directed = I.g1.directed)
    (f : Final I mp) {tr : List (Nat × Nat)} (e : ExtT mp tr) :
    (SG I.g0 tr).outSize ≤ (SG I.g1 (tr.map Prod.swap)).outSize ∧
    (SG I.g0 tr).insSize ≤ (SG I.g1 (tr.map Prod.swap)).insSize := by
  have s0 := SG_ok ok0 tr
  have s1 := SG_ok ok1 (tr.map Prod.swap)
  constructor
  · rw [s0.szO, s1.szO]
    apply cnt_le_of_inj (φ := fval mp)
    · intro x hx y hy hxy
      rw [s0.lenO] at hx hy
      exact f.fval_inj hx hy hxy
    · intro x hx; exact e.out_transfer ok0 ok1 f hx
  · cases hdir : I.g0.directed with
    | false =>
      rw [(SG_ins_undirected I.g0 hdir tr).2]; exact Nat.zero_le _
    | true =>
      rw [s0.szI, s1.szI]
      apply cnt_le_of_inj (φ := fval mp)
      · intro x hx y hy hxy
        rw [s0.lenI hdir] at hx hy
        exact f.fval_inj hx hy hxy
      · intro x hx; exact e.ins_transfer ok0 ok1 hdir (hd ▸ hdir) f hx

/-- `sizesOk` only looks at the two states -/
def sizesOkS (sub : Bool) (s0 s1 : St) : Bool :=
  (!sub && s0.outSize == s1.outSize && s0.insSize == s1.insSize)
  || (sub && s0.outSize ≤ s1.outSize && s0.insSize ≤ s1.insSize)

theorem sizesOk_eq (sub : Bool) (m : M) : sizesOk sub m = sizesOkS sub m.s0 m.s1 := rfl

theorem ExtT.sizesOkS_sub (ok0 : CGOk I.g0) (ok1 : CGOk I.g1) (hd : I.g0.directed = I.g1.directed)
    (tr : List (Nat × Nat)) (mp : List (Option Nat)) (f : Final I mp) (e : ExtT mp tr) :
    sizesOkS true (SG I.g0 tr) (SG I.g1 (tr.map Prod.swap)) = true := by
  have := e.sizes ok0 ok1 hd f
  unfold sizesOkS
  simp
  exact this

/-- `mp a` is in the same open list of g1 as `a` is of g0 -/
theorem ExtT.inList_transfer (ok0 : CGOk I.g0) (ok1 : CGOk I.g1) (hd : I.g0.directed = I.g1.directed)
    {m : M} {tr : List (Nat × Nat)} (h0 : m.s0 = SG I.g0 tr) (h1 : m.s1 = SG I.g1 (tr.map Prod.swap))
    (e : Ext I mp m) (et : ExtT mp tr) {a : Nat} {ol : OpenList} (ha : a < I.g0.n)
    (h : inList I.g0 m.s0 ol a = true) : inList I.g1 m.s1 ol (fval mp a) = true := by
  have hab := (e.fin.get ha)
  have hun := e.image_unmapped (inList_unmapped h) hab.1
  cases ol with
  | out =>
    simp only [inList, Bool.and_eq_true, decide_eq_true_eq, Option.isNone_iff_eq_none] at h ⊢
    refine ⟨?_, hun⟩
    rw [h1]; rw [h0] at h
    exact et.out_transfer ok0 ok1 e.fin h.1
  | inn =>
    simp only [inList, Bool.and_eq_true, decide_eq_true_eq, Option.isNone_iff_eq_none] at h ⊢
    refine ⟨hd ▸ h.1, ?_, hun⟩
    rw [h1]; rw [h0] at h
    exact et.ins_transfer ok0 ok1 h.1 (hd ▸ h.1) e.fin h.2.1
  | other =>
    simp only [inList, Bool.and_eq_true, decide_eq_true_eq, Option.isNone_iff_eq_none] at h ⊢
    refine ⟨?_, hun⟩
    rw [e.core.len1]; exact hab.2

end sizes

end PetgraphModel.C13.Vf2
