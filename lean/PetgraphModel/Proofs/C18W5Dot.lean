import PetgraphModel.Spec.C18DotAttrs
import PetgraphModel.Proofs.Dot
/-
C18 (wave 5) — `Dot` with arbitrary attribute-getter strings.

The getter strings are written verbatim (`graphFmt_lines`).  If each of them is an `a_list` fragment (`attrFrag`,
Spec/C18DotAttrs.lean) the text parses to exactly the expected statements, each with its label followed by the getter's
pairs (`dot_parse_getters`); `NoAttrs` is the special case of empty strings.
-/
namespace PetgraphModel.DotP
open PetgraphModel.Dot PetgraphModel.Spec.Dot

/-! ### the lexer only appends to the tokens it was given -/

theorem lexTop_pre (pre : List Tok) (c : Char) :
    lexTop pre c = ⟨pre ++ (lexTop [] c).toks, (lexTop [] c).mode⟩ := by
  unfold lexTop
  by_cases h1 : isSpace c = true
  · simp [h1]
  · simp only [h1, Bool.false_eq_true, if_false]
    by_cases h2 : c = '"'
    · simp [h2]
    · simp only [h2, if_false]
      by_cases h3 : c = '-'
      · simp [h3]
      · simp only [h3, if_false]
        cases punct c with
        | some t => simp
        | none => by_cases h4 : isIdChar c = true <;> simp [h4]

theorem lexStep_pre (pre : List Tok) (m : LexMode) (c : Char) :
    lexStep ⟨pre, m⟩ c = ⟨pre ++ (lexStep ⟨[], m⟩ c).toks, (lexStep ⟨[], m⟩ c).mode⟩ := by
  cases m with
  | top => simp only [lexStep]; exact lexTop_pre pre c
  | ident acc =>
    simp only [lexStep]
    by_cases h : isIdChar c = true
    · simp [h]
    · simp only [h, if_false, Bool.false_eq_true]
      rw [lexTop_pre (pre ++ [Tok.id acc]), lexTop_pre ([] ++ [Tok.id acc])]
      simp
  | str acc =>
    simp only [lexStep]
    by_cases h1 : c = '"'
    · simp [h1]
    · by_cases h2 : c = '\\' <;> simp [h1, h2]
  | strEsc acc => simp [lexStep]
  | dash =>
    simp only [lexStep]
    by_cases h1 : c = '>'
    · simp [h1]
    · by_cases h2 : c = '-' <;> simp [h1, h2]
  | bad => simp [lexStep]

theorem lexRun_pre (pre : List Tok) (m : LexMode) (cs : List Char) :
    lexRun ⟨pre, m⟩ cs = ⟨pre ++ (lexRun ⟨[], m⟩ cs).toks, (lexRun ⟨[], m⟩ cs).mode⟩ := by
  induction cs generalizing pre m with
  | nil => simp [lexRun]
  | cons c cs ih =>
    have e1 : lexRun ⟨pre, m⟩ (c :: cs) = lexRun (lexStep ⟨pre, m⟩ c) cs := rfl
    have e2 : lexRun ⟨[], m⟩ (c :: cs) = lexRun (lexStep ⟨[], m⟩ c) cs := rfl
    rw [e1, e2, lexStep_pre pre m c, ih]
    rw [show lexStep ⟨[], m⟩ c = ⟨(lexStep ⟨[], m⟩ c).toks, (lexStep ⟨[], m⟩ c).mode⟩ from rfl,
      ih (lexStep ⟨[], m⟩ c).toks]
    simp [List.append_assoc]

/-- a getter string that lexes on its own, followed by the closing bracket `Dot` writes -/
theorem lexOK_attr_close (a : List Char) (toks : List Tok) (h : lex a = some toks) :
    LexOK (a ++ [']', '\n']) (toks ++ [.rbrack]) := by
  intro pre
  rw [lexRun_append, lexRun_pre pre .top a]
  unfold Spec.Dot.lex lexEnd at h
  have hrun : lexRun {} a = lexRun ⟨[], .top⟩ a := rfl
  rw [hrun] at h
  generalize lexRun ⟨[], .top⟩ a = r at h ⊢
  obtain ⟨rt, rm⟩ := r
  cases rm with
  | top =>
    simp only [Option.some.injEq] at h
    subst h
    simp [lexRun, lexStep, lexTop, isSpace, punct]
  | ident acc =>
    simp only [Option.some.injEq] at h
    subst h
    simp [lexRun, lexStep, lexTop, isSpace, punct, isIdChar]
  | str acc => simp at h
  | strEsc acc => simp at h
  | dash => simp at h
  | bad => simp at h

/-! ### the statement parser on an `a_list` -/

theorem pRun_attrPairs (ts : List Tok) (ps : Attrs) (h : attrPairs ts = some ps)
    (kind : Option Bool) (pre : List Stmt) (sj : Subj) (acc : Attrs) :
    pRun ⟨kind, false, pre, .attrs sj acc⟩ ts = ⟨kind, false, pre, .attrs sj (acc ++ ps)⟩ := by
  fun_induction attrPairs ts generalizing ps acc with
  | case1 =>
    simp only [Option.some.injEq] at h
    subst h
    simp [pRun]
  | case2 r ih =>
    have : pRun ⟨kind, false, pre, .attrs sj acc⟩ (Tok.comma :: r) = pRun ⟨kind, false, pre, .attrs sj acc⟩ r := by
      simp [pRun, pStep]
    rw [this]; exact ih ps h acc
  | case3 r ih =>
    have : pRun ⟨kind, false, pre, .attrs sj acc⟩ (Tok.semi :: r) = pRun ⟨kind, false, pre, .attrs sj acc⟩ r := by
      simp [pRun, pStep]
    rw [this]; exact ih ps h acc
  | case4 k v r ih =>
    cases hr : attrPairs r with
    | none => rw [hr] at h; simp at h
    | some ps' =>
      rw [hr] at h
      simp only [Option.map_some, Option.some.injEq] at h
      subst h
      have : pRun ⟨kind, false, pre, .attrs sj acc⟩ (Tok.id k :: Tok.eq :: Tok.id v :: r) =
          pRun ⟨kind, false, pre, .attrs sj (acc ++ [(k, Tok.id v)])⟩ r := by
        simp [pRun, pStep]
      rw [this, ih ps' hr]
      simp
  | case5 k v r ih =>
    cases hr : attrPairs r with
    | none => rw [hr] at h; simp at h
    | some ps' =>
      rw [hr] at h
      simp only [Option.map_some, Option.some.injEq] at h
      subst h
      have : pRun ⟨kind, false, pre, .attrs sj acc⟩ (Tok.id k :: Tok.eq :: Tok.str v :: r) =
          pRun ⟨kind, false, pre, .attrs sj (acc ++ [(k, Tok.str v)])⟩ r := by
        simp [pRun, pStep]
      rw [this, ih ps' hr]
      simp
  | case6 ts h1 h2 h3 h4 h5 => simp at h

theorem attrPairs_labelToks (l : Option (List Char)) : attrPairs (labelToks l) = some (labelAttrs l) := by
  cases l <;> rfl

/-! ### statements with getter output -/

/-- the expected node statement: the label, then the getter's pairs -/
def nodeStmtOfG (c : Configs) (f : Fmt) (n : NodeRef) : Stmt :=
  .node (decimal n.index) (labelAttrs (nodeLabel c f n) ++ (attrFrag n.attr).getD [])

def edgeStmtOfG (c : Configs) (f : Fmt) (d : Bool) (p : Nat × EdgeRef) : Stmt :=
  .edge (decimal p.2.source) d (decimal p.2.target)
    (labelAttrs (edgeLabel c f p.1 p.2) ++ (attrFrag p.2.attr).getD [])

/-- every getter string of the view is an `a_list` fragment -/
def GetterOK (g : GraphView) : Prop :=
  (∀ n ∈ g.nodes, (attrFrag n.attr).isSome = true) ∧ (∀ e ∈ g.edges, (attrFrag e.attr).isSome = true)

def nodeToksG (c : Configs) (f : Fmt) (n : NodeRef) : List Tok :=
  [.id (decimal n.index), .lbrack] ++ labelToks (nodeLabel c f n) ++ (lex n.attr).getD [] ++ [.rbrack]

def edgeToksG (c : Configs) (f : Fmt) (d : Bool) (i : Nat) (e : EdgeRef) : List Tok :=
  [.id (decimal e.source), .edgeop d, .id (decimal e.target), .lbrack] ++ labelToks (edgeLabel c f i e) ++
    (lex e.attr).getD [] ++ [.rbrack]

theorem attrFrag_some (a : List Char) (h : (attrFrag a).isSome = true) :
    ∃ toks ps, lex a = some toks ∧ attrPairs toks = some ps ∧ attrFrag a = some ps := by
  unfold attrFrag at h ⊢
  cases hl : lex a with
  | none => rw [hl] at h; simp at h
  | some toks =>
    rw [hl] at h
    simp only [Option.bind_some] at h ⊢
    cases hp : attrPairs toks with
    | none => rw [hp] at h; simp at h
    | some ps => exact ⟨toks, ps, rfl, hp, rfl⟩

theorem lexOK_nodeStmtG (c : Configs) (f : Fmt) (n : NodeRef) (h : (attrFrag n.attr).isSome = true) :
    LexOK (nodeStmt c f n) (nodeToksG c f n) := by
  obtain ⟨toks, ps, hl, _, _⟩ := attrFrag_some _ h
  rw [nodeStmt_eq]
  have := (((lexOK_indent.append (lexOK_decimal n.index)).append lexOK_open).append
    (lexOK_labelText _ (nodeLabel_safe c f n))).append (lexOK_attr_close n.attr toks hl)
  simpa [nodeToksG, hl, List.append_assoc] using this

theorem lexOK_edgeStmtG (c : Configs) (f : Fmt) (d : Bool) (i : Nat) (e : EdgeRef)
    (h : (attrFrag e.attr).isSome = true) : LexOK (edgeStmt c f d i e) (edgeToksG c f d i e) := by
  obtain ⟨toks, ps, hl, _, _⟩ := attrFrag_some _ h
  rw [edgeStmt_eq]
  have := (((((lexOK_indent.append (lexOK_decimal e.source)).append (lexOK_edge d)).append
    (lexOK_decimal e.target)).append lexOK_open).append
    (lexOK_labelText _ (edgeLabel_safe c f i e))).append (lexOK_attr_close e.attr toks hl)
  simpa [edgeToksG, hl, List.append_assoc] using this

theorem parseOK_nodeG (c : Configs) (f : Fmt) (n : NodeRef) (h : (attrFrag n.attr).isSome = true) :
    ParseOK (nodeToksG c f n) [nodeStmtOfG c f n] := by
  obtain ⟨toks, ps, hl, hp, hf⟩ := attrFrag_some _ h
  intro k p
  unfold nodeToksG nodeStmtOfG
  rw [hl, hf]
  simp only [Option.getD_some]
  rw [pRun_append, pRun_append, pRun_append]
  have h0 : pRun ⟨k, false, p, .start⟩ [Tok.id (decimal n.index), Tok.lbrack] =
      ⟨k, false, p, .attrs (.node (decimal n.index)) []⟩ := by
    simp [pRun, pStep, pStart]
  rw [h0, pRun_attrPairs _ _ (attrPairs_labelToks _), pRun_attrPairs _ _ hp]
  simp [pRun, pStep, PSt.emit, Subj.close]

theorem parseOK_edgeG (c : Configs) (f : Fmt) (d : Bool) (i : Nat) (e : EdgeRef)
    (h : (attrFrag e.attr).isSome = true) : ParseOK (edgeToksG c f d i e) [edgeStmtOfG c f d (i, e)] := by
  obtain ⟨toks, ps, hl, hp, hf⟩ := attrFrag_some _ h
  intro k p
  unfold edgeToksG edgeStmtOfG
  rw [hl, hf]
  simp only [Option.getD_some]
  rw [pRun_append, pRun_append, pRun_append]
  have h0 : pRun ⟨k, false, p, .start⟩
      [Tok.id (decimal e.source), Tok.edgeop d, Tok.id (decimal e.target), Tok.lbrack] =
      ⟨k, false, p, .attrs (.edge (decimal e.source) d (decimal e.target)) []⟩ := by
    simp [pRun, pStep, pStart]
  rw [h0, pRun_attrPairs _ _ (attrPairs_labelToks _), pRun_attrPairs _ _ hp]
  simp [pRun, pStep, PSt.emit, Subj.close]

def bodyToksG (c : Configs) (f : Fmt) (g : GraphView) : List Tok :=
  rankToks c ++ g.nodes.flatMap (nodeToksG c f) ++
    (enumFrom 0 g.edges).flatMap fun p => edgeToksG c f g.directed p.1 p.2

/-- the statements the printed text must consist of, getter pairs included -/
def bodyStmtsG (c : Configs) (f : Fmt) (g : GraphView) : List Stmt :=
  rankStmts c ++ g.nodes.map (nodeStmtOfG c f) ++ (enumFrom 0 g.edges).map (edgeStmtOfG c f g.directed)

theorem lexOK_bodyG (c : Configs) (f : Fmt) (g : GraphView) (h : GetterOK g) :
    LexOK (rankText c ++ g.nodes.flatMap (nodeStmt c f) ++
        (enumFrom 0 g.edges).flatMap (fun p => edgeStmt c f g.directed p.1 p.2)) (bodyToksG c f g) := by
  unfold bodyToksG
  refine ((lexOK_rank c).append ?_).append ?_
  · exact LexOK.flatMap _ _ _ fun n hn => lexOK_nodeStmtG c f n (h.1 n hn)
  · exact LexOK.flatMap _ _ _ fun p hp => lexOK_edgeStmtG c f g.directed p.1 p.2 (h.2 _ (mem_enumFrom _ _ _ hp))

theorem parseOK_bodyG (c : Configs) (f : Fmt) (g : GraphView) (h : GetterOK g) :
    ParseOK (bodyToksG c f g) (bodyStmtsG c f g) := by
  unfold bodyToksG bodyStmtsG
  refine ((parseOK_rank c).append ?_).append ?_
  · refine ParseOK.flatMap' _ _ _ fun n hn => parseOK_nodeG c f n (h.1 n hn)
  · refine ParseOK.flatMap' _ _ _ fun p hp => parseOK_edgeG c f g.directed p.1 p.2 (h.2 _ (mem_enumFrom _ _ _ hp))
where
  ParseOK.flatMap' {α : Type} (l : List α) (f : α → List Tok) (g : α → Stmt)
      (h : ∀ a ∈ l, ParseOK (f a) [g a]) : ParseOK (l.flatMap f) (l.map g) := ParseOK.flatMap l f g h

/-- assembling header, body and footer (the last step of `dot_parse`, for any token/statement description of the body) -/
theorem parse_assemble (c : Configs) (f : Fmt) (g : GraphView) (bodyT : List Tok) (bodyS : List Stmt)
    (hb : LexOK (rankText c ++ g.nodes.flatMap (nodeStmt c f) ++
        (enumFrom 0 g.edges).flatMap (fun p => edgeStmt c f g.directed p.1 p.2)) bodyT)
    (hp : ParseOK bodyT bodyS) :
    parse (graphFmt c f g) = some ⟨if c.GraphContentOnly then none else some g.directed, bodyS⟩ := by
  rw [graphFmt_lines]
  unfold headerText footerText
  cases hc : c.GraphContentOnly
  · simp only [Bool.false_eq_true, if_false]
    have hl := ((lexOK_header g.directed).append hb).append lexOK_footer
    simp only [List.append_assoc] at hl ⊢
    rw [parse, hl.lex]
    simp only [Option.bind_some, parseToks, List.cons_append, List.nil_append]
    have h1 : pRun {} (Tok.id (TYPE g.directed) :: Tok.lbrace :: (bodyT ++ [Tok.rbrace])) =
        pRun ⟨some g.directed, false, [], .start⟩ (bodyT ++ [Tok.rbrace]) := by
      cases g.directed <;> simp [pRun, pStep, pStart, TYPE, kwDigraph, kwGraph]
    rw [h1, pRun_append, hp]
    simp [pRun, pStep, pStart, pEnd]
  · simp only [if_true, List.nil_append, List.append_nil]
    rw [parse, hb.lex]
    simp only [Option.bind_some, parseToks]
    have := hp none []
    rw [show ({} : PSt) = ⟨none, false, [], .start⟩ from rfl, this]
    simp [pEnd]

/-- **`Dot` with arbitrary getter strings**: whenever every getter string is an `a_list` fragment, the text is a
well-formed DOT graph (or body) consisting of exactly the expected statements — the optional `rankdir`, one node statement
per node reference, one edge statement per edge reference — each carrying its label followed by the getter's pairs. -/
theorem dot_parse_getters (c : Configs) (f : Fmt) (g : GraphView) (h : GetterOK g) :
    parse (graphFmt c f g) =
      some ⟨if c.GraphContentOnly then none else some g.directed, bodyStmtsG c f g⟩ :=
  parse_assemble c f g _ _ (lexOK_bodyG c f g h) (parseOK_bodyG c f g h)

theorem attrFrag_nil : attrFrag [] = some [] := rfl

theorem NoAttrs.getterOK {g : GraphView} (h : NoAttrs g) : GetterOK g :=
  ⟨fun n hn => by rw [h.1 n hn]; rfl, fun e he => by rw [h.2 e he]; rfl⟩

/-- with empty getter strings the statements are those of `dot_parse` -/
theorem bodyStmtsG_noAttrs (c : Configs) (f : Fmt) (g : GraphView) (h : NoAttrs g) :
    bodyStmtsG c f g = bodyStmts c f g := by
  unfold bodyStmtsG bodyStmts
  congr 1
  · congr 1
    apply List.map_congr_left
    intro n hn
    simp [nodeStmtOfG, nodeStmtOf, h.1 n hn, attrFrag_nil]
  · apply List.map_congr_left
    intro p hp
    simp [edgeStmtOfG, edgeStmtOf, h.2 _ (mem_enumFrom _ _ _ hp), attrFrag_nil]

end PetgraphModel.DotP
