import PetgraphModel.Proofs.C06W2Base
import PetgraphModel.Proofs.GraphMap
import PetgraphModel.Proofs.GraphMapJudge
/-
C06 wave 2 — `GraphMap`: the table computed from the storage model (`graphMapTable`, Model/C06Views.lean) is
consistent in every state that satisfies the representation invariant of C03 (`GMProofs.Inv`) — no bound on the
node values (wave 5: the pair-id code `pcode a b` is injective on all pairs).
-/
namespace PetgraphModel.Visit
open PetgraphModel PetgraphModel.GM PetgraphModel.GMProofs PetgraphModel.SimpleGraphSpec
open PetgraphModel.Visit.GMView

/-- every node value is below 100 (wave 2 needed this for the old pair code `a * 100 + b`; no theorem needs it any more,
the definition is kept for the callers that still state it) -/
def GMBounded (s : State) : Prop := ∀ n ∈ nodesOf s, n < 100

/-- `edge_references` of the table -/
def gmERefs (s : State) : List ERef := (allEdges s).map fun e => eref s (e.1, e.2.1, some e.2.2)

theorem eref_some (s : State) (a b w : Nat) :
    eref s (a, b, some w) = ⟨pairCode (!s.directed) a b, a, b, (w : Int)⟩ := rfl

theorem mem_gmERefs (s : State) (h : Inv s) (e : ERef) :
    e ∈ gmERefs s ↔ ∃ a b w, IMap.get? s.edges (a, b) = some w ∧ e = ⟨pairCode (!s.directed) a b, a, b, (w : Int)⟩ := by
  unfold gmERefs
  simp only [List.mem_map]
  constructor
  · rintro ⟨⟨a, b, w⟩, hm, rfl⟩
    exact ⟨a, b, w, (mem_allEdges s h a b w).1 hm, rfl⟩
  · rintro ⟨a, b, w, hg, rfl⟩
    exact ⟨(a, b, w), (mem_allEdges s h a b w).2 hg, rfl⟩

theorem mem_nodesOf (s : State) (a : Nat) : a ∈ nodesOf s ↔ IMap.contains s.nodes a = true := by
  rw [contains_eq, get?_isSome_iff]; rfl

/-- an entry of the edge map has a canonical key between present nodes -/
theorem edge_facts (s : State) (h : Inv s) {a b w : Nat} (hg : IMap.get? s.edges (a, b) = some w) :
    (s.directed = true ∨ a ≤ b) ∧ a ∈ nodesOf s ∧ b ∈ nodesOf s := by
  have hs : (IMap.get? s.edges (a, b)).isSome = true := by simp [hg]
  have := h.good.ends a b hs
  exact ⟨h.good.canon a b hs, (mem_nodesOf s a).2 this.1, (mem_nodesOf s b).2 this.2⟩

theorem code_of_edge (s : State) (h : Inv s) {a b w : Nat} (hg : IMap.get? s.edges (a, b) = some w) :
    pairCode (!s.directed) a b = pcode a b := by
  rcases (edge_facts s h hg).1 with hd | hle
  · simp [hd, pairCode_false]
  · exact pairCode_le _ hle

/-- the id code is injective on the entries of the edge map -/
theorem code_inj_edges (s : State) (h : Inv s) {a b w a' b' w' : Nat}
    (h1 : IMap.get? s.edges (a, b) = some w) (h2 : IMap.get? s.edges (a', b') = some w')
    (hc : pairCode (!s.directed) a b = pairCode (!s.directed) a' b') : a = a' ∧ b = b' ∧ w = w' := by
  rw [code_of_edge s h h1, code_of_edge s h h2] at hc
  have f1 := edge_facts s h h1
  have f2 := edge_facts s h h2
  obtain ⟨rfl, rfl⟩ := code_inj hc
  rw [h1] at h2
  exact ⟨rfl, rfl, by simpa using h2⟩

theorem gmERefs_ids_nodup (s : State) (h : Inv s) : ((gmERefs s).map (·.id)).Nodup := by
  unfold gmERefs
  rw [List.map_map]
  apply nodup_map_of_inj_on _ _ (allEdges_ok s h).1
  rintro ⟨a, b, w⟩ hx ⟨a', b', w'⟩ hy hc
  obtain ⟨rfl, rfl, rfl⟩ := code_inj_edges s h ((mem_allEdges s h _ _ _).1 hx) ((mem_allEdges s h _ _ _).1 hy) hc
  rfl

/-! ### node clauses -/

theorem toIndex_spec (s : State) {a : Nat} (ha : a ∈ nodesOf s) :
    toIndex s a < s.nodes.length ∧ fromIndex s (toIndex s a) = a := by
  obtain ⟨h1, h2⟩ := indexOf?_of_contains s a ((mem_nodesOf s a).1 ha)
  have e : toIndex s a = idx s a := rfl
  rw [e]
  simp only [IMap.keys, List.getElem?_map] at h2
  constructor
  · cases hh : s.nodes[idx s a]? with
    | none => simp [hh] at h2
    | some x =>
      have := (List.getElem?_eq_some_iff.1 hh).1
      exact this
  · simp [fromIndex, h2]

theorem toIndex_inj (s : State) {a b : Nat} (ha : a ∈ nodesOf s) (hb : b ∈ nodesOf s)
    (e : toIndex s a = toIndex s b) : a = b := by
  rw [← (toIndex_spec s ha).2, ← (toIndex_spec s hb).2, e]

theorem gm_ids (s : State) (h : Inv s) : idsOk (nodesOf s) (graphMapTable s) := by
  simp only [idsOk, graphMapTable, whenSome_some]
  exact ⟨h.nodesNodup, fun a ha => ha, nodesOf_length s⟩

theorem gm_refs (s : State) : refsOk (graphMapTable s) := by
  simp only [refsOk, graphMapTable, whenSome_some, List.map_map, Function.comp_def, List.map_id']
  exact List.Perm.refl _

theorem gm_index (s : State) (h : Inv s) : indexOk (graphMapTable s) := by
  simp only [indexOk, graphMapTable, whenSome_some]
  refine ⟨?_, ?_, ?_⟩
  · intro a ha
    rw [lookup_map_self (toIndex s) _ a ha]
    exact (toIndex_spec s ha).1
  · have : (nodesOf s).map (fun a => ((nodesOf s).map fun q => (q, toIndex s q)).lookup a) =
        (nodesOf s).map (fun a => some (toIndex s a)) :=
      List.map_congr_left fun a ha => lookup_map_self (toIndex s) _ a ha
    rw [this]
    apply nodup_map_of_inj_on _ _ h.nodesNodup
    intro a ha b hb e
    exact toIndex_inj s ha hb (by simpa using e)
  · intro a ha
    rw [lookup_map_self (fun q => fromIndex s (toIndex s q)) _ a ha, (toIndex_spec s ha).2]

theorem gm_compact (s : State) (h : Inv s) : compactOk (graphMapTable s) := by
  intro _
  simp only [graphMapTable, whenSome_some]
  have : (nodesOf s).map (fun a => (((nodesOf s).map fun q => (q, toIndex s q)).lookup a).getD (nodeCount s)) =
      (nodesOf s).map (toIndex s) :=
    List.map_congr_left fun a ha => by rw [lookup_map_self (toIndex s) _ a ha]; rfl
  rw [this]
  apply perm_of_nodup_mem
  · exact nodup_map_of_inj_on _ _ h.nodesNodup fun a ha b hb e => toIndex_inj s ha hb e
  · exact List.nodup_range
  · intro i
    simp only [List.mem_map, List.mem_range, nodeCount]
    constructor
    · rintro ⟨a, ha, rfl⟩; exact (toIndex_spec s ha).1
    · intro hi
      have hk : (s.nodes[i]?.map (·.1)) = some (s.nodes[i]).1 := by simp [hi]
      have hidx := (indexOf?_eq_some_iff s.nodes h.nodesNodup _ i).2 hk
      refine ⟨(s.nodes[i]).1, ?_, ?_⟩
      · exact List.mem_map.2 ⟨s.nodes[i], List.getElem_mem hi, rfl⟩
      · simp [toIndex, hidx]

/-! ### edge clauses -/

theorem gm_erefs (s : State) (h : Inv s) : erefsOk (graphMapTable s) := by
  simp only [erefsOk, graphMapTable, whenSome_some]
  refine ⟨gmERefs_ids_nodup s h, ?_, ?_⟩
  · simp [edgeCount, allEdges]
  · intro e he
    obtain ⟨a, b, w, hg, rfl⟩ := (mem_gmERefs s h e).1 he
    exact (edge_facts s h hg).2

theorem gm_eix (s : State) (h : Inv s) : eixOk (graphMapTable s) := by
  simp only [eixOk, graphMapTable, whenSome_some, List.map_map, Function.comp_def]
  intro e he
  obtain ⟨⟨a, b, w⟩, hm, rfl⟩ := List.mem_map.1 he
  have hg := (mem_allEdges s h a b w).1 hm
  have hl := lookup_map_inj (fun x : Nat × Nat × Nat => pairCode (!s.directed) x.1 x.2.1)
    (fun x => (edgeToIndex s (x.1, x.2.1),
      pairCode (!s.directed) (edgeFromIndex s (edgeToIndex s (x.1, x.2.1))).1 (edgeFromIndex s (edgeToIndex s (x.1, x.2.1))).2))
    (allEdges s)
    (by
      rintro ⟨a, b, w⟩ hx ⟨a', b', w'⟩ hy hc
      obtain ⟨rfl, rfl, rfl⟩ := code_inj_edges s h ((mem_allEdges s h _ _ _).1 hx) ((mem_allEdges s h _ _ _).1 hy) hc
      rfl)
    (a, b, w) hm
  simp only [eref_some] at hl ⊢
  rw [hl]
  cases hi : IMap.indexOf? s.edges (a, b) with
  | none =>
    have := (indexOf?_none _ _).1 hi
    rw [hg] at this; cases this
  | some i =>
    obtain ⟨hlt, hk⟩ := indexOf?_some _ _ _ hi
    have e1 : edgeToIndex s (a, b) = i := by simp [edgeToIndex, hi]
    have e2 : edgeFromIndex s i = (a, b) := by simp [edgeFromIndex, hlt, hk]
    simp only [optRound, e1, e2, edgeCount]
    exact ⟨hlt, trivial⟩

/-! ### per-node iterators -/

theorem int_inj {a b : Nat} (h : (a : Int) = (b : Int)) : a = b := by omega

theorem edgesDirected_map_nodup (s : State) (h : Inv s) (a : Nat) (d : Dir) :
    ((edgesDirected s a d).map (eref s)).Nodup := by
  rw [edgesDirected_eq s h, someWeights, List.map_map]
  apply nodup_map_of_inj_on _ _ (edgeTriples_ok s h a d).1
  rintro ⟨x, y, w⟩ _ ⟨x', y', w'⟩ _ e
  simp only [Function.comp, eref_some, ERef.mk.injEq] at e
  obtain ⟨_, rfl, rfl, hw⟩ := e
  rw [int_inj hw]

theorem mem_edgesDirected_map (s : State) (h : Inv s) (a : Nat) (d : Dir) (e : ERef) :
    e ∈ (edgesDirected s a d).map (eref s) ↔
      ∃ x y w, (x, y, w) ∈ edgeTriples s a d ∧ e = ⟨pairCode (!s.directed) x y, x, y, (w : Int)⟩ := by
  rw [edgesDirected_eq s h, someWeights, List.map_map]
  simp only [List.mem_map, Function.comp]
  constructor
  · rintro ⟨⟨x, y, w⟩, hm, rfl⟩; exact ⟨x, y, w, hm, rfl⟩
  · rintro ⟨x, y, w, hm, rfl⟩; exact ⟨(x, y, w), hm, rfl⟩

theorem edgeKey_false_le {a b : Nat} (h : a ≤ b) : edgeKey false a b = (a, b) := by simp [edgeKey, h]
theorem edgeKey_false_gt {a b : Nat} (h : b < a) : edgeKey false a b = (b, a) := by
  have : ¬ a ≤ b := by omega
  simp [edgeKey, this]

theorem orientOut_eq (a : Nat) (e : ERef) (h : e.src = a) : orientOut a e = e := by simp [orientOut, h]
theorem orientOut_ne (a : Nat) (e : ERef) (h : e.src ≠ a) : orientOut a e = e.swap := by simp [orientOut, h]
theorem orientIn_eq (a : Nat) (e : ERef) (h : e.tgt = a) : orientIn a e = e := by simp [orientIn, h]
theorem orientIn_ne (a : Nat) (e : ERef) (h : e.tgt ≠ a) : orientIn a e = e.swap := by simp [orientIn, h]

/-- `edges_directed(a, Outgoing)` is, as a multiset, what the specification prescribes from `edge_references` -/
theorem gm_out_perm (s : State) (h : Inv s) (a : Nat) :
    ((edgesDirected s a .out).map (eref s)).Perm (expOut s.directed (gmERefs s) a) := by
  apply perm_of_nodup_mem (edgesDirected_map_nodup s h a .out) (expOut_nodup (gmERefs_ids_nodup s h) a)
  intro e
  rw [mem_edgesDirected_map s h]
  have ht := (edgeTriples_ok s h a .out).2
  simp only [absw] at ht
  cases hd : s.directed with
  | true =>
    simp only [expOut, if_true, List.mem_filter, mem_gmERefs s h, hd, Bool.not_true, beq_iff_eq]
    simp only [hd, edgeKey_true] at ht
    constructor
    · rintro ⟨x, y, w, hm, rfl⟩
      obtain ⟨rfl, hw⟩ := (ht x y w).1 hm
      exact ⟨⟨x, y, w, hw, rfl⟩, rfl⟩
    · rintro ⟨⟨x, y, w, hw, rfl⟩, hx⟩
      simp only at hx; subst hx
      exact ⟨x, y, w, (ht x y w).2 ⟨rfl, hw⟩, rfl⟩
  | false =>
    simp only [expOut, Bool.false_eq_true, if_false, List.mem_map, List.mem_filter, mem_gmERefs s h, hd, Bool.not_false]
    simp only [hd] at ht
    constructor
    · rintro ⟨x, y, w, hm, rfl⟩
      obtain ⟨rfl, hw⟩ := (ht x y w).1 hm
      by_cases hxy : x ≤ y
      · rw [edgeKey_false_le hxy] at hw
        exact ⟨_, ⟨⟨x, y, w, hw, rfl⟩, by simp [incident]⟩, orientOut_eq _ _ rfl⟩
      · have hlt : y < x := by omega
        rw [edgeKey_false_gt hlt] at hw
        refine ⟨_, ⟨⟨y, x, w, hw, rfl⟩, by simp [incident]⟩, ?_⟩
        rw [orientOut_ne _ _ (by simp; omega)]
        simp [ERef.swap, pairCode_comm x y]
    · rintro ⟨e', ⟨⟨x, y, w, hw, rfl⟩, hinc⟩, rfl⟩
      have hc : x ≤ y := by
        have := (edge_facts s h hw).1
        simpa [hd] using this
      by_cases hx : x = a
      · subst hx
        refine ⟨x, y, w, (ht x y w).2 ⟨rfl, by rw [edgeKey_false_le hc]; exact hw⟩, ?_⟩
        exact orientOut_eq _ _ rfl
      · have hy : y = a := by simpa [incident, hx] using hinc
        subst hy
        have hlt : x < y := by omega
        refine ⟨y, x, w, (ht y x w).2 ⟨rfl, by rw [edgeKey_false_gt hlt]; exact hw⟩, ?_⟩
        rw [orientOut_ne _ _ (by simpa using hx)]
        simp [ERef.swap, pairCode_comm x y]

/-- `edges_directed(a, Incoming)` -/
theorem gm_in_perm (s : State) (h : Inv s) (a : Nat) :
    ((edgesDirected s a .inc).map (eref s)).Perm (expIn s.directed (gmERefs s) a) := by
  apply perm_of_nodup_mem (edgesDirected_map_nodup s h a .inc) (expIn_nodup (gmERefs_ids_nodup s h) a)
  intro e
  rw [mem_edgesDirected_map s h]
  have ht := (edgeTriples_ok s h a .inc).2
  simp only [absw] at ht
  cases hd : s.directed with
  | true =>
    simp only [expIn, if_true, List.mem_filter, mem_gmERefs s h, hd, Bool.not_true, beq_iff_eq]
    simp only [hd, edgeKey_true] at ht
    constructor
    · rintro ⟨x, y, w, hm, rfl⟩
      obtain ⟨rfl, hw⟩ := (ht x y w).1 hm
      exact ⟨⟨x, y, w, hw, rfl⟩, rfl⟩
    · rintro ⟨⟨x, y, w, hw, rfl⟩, hx⟩
      simp only at hx; subst hx
      exact ⟨x, y, w, (ht x y w).2 ⟨rfl, hw⟩, rfl⟩
  | false =>
    simp only [expIn, Bool.false_eq_true, if_false, List.mem_map, List.mem_filter, mem_gmERefs s h, hd, Bool.not_false]
    simp only [hd] at ht
    constructor
    · rintro ⟨x, y, w, hm, rfl⟩
      obtain ⟨rfl, hw⟩ := (ht x y w).1 hm
      by_cases hxy : x ≤ y
      · rw [edgeKey_false_le hxy] at hw
        exact ⟨_, ⟨⟨x, y, w, hw, rfl⟩, by simp [incident]⟩, orientIn_eq _ _ rfl⟩
      · have hlt : y < x := by omega
        rw [edgeKey_false_gt hlt] at hw
        refine ⟨_, ⟨⟨y, x, w, hw, rfl⟩, by simp [incident]⟩, ?_⟩
        rw [orientIn_ne _ _ (by simp; omega)]
        simp [ERef.swap, pairCode_comm x y]
    · rintro ⟨e', ⟨⟨x, y, w, hw, rfl⟩, hinc⟩, rfl⟩
      have hc : x ≤ y := by
        have := (edge_facts s h hw).1
        simpa [hd] using this
      by_cases hy : y = a
      · subst hy
        refine ⟨x, y, w, (ht x y w).2 ⟨rfl, by rw [edgeKey_false_le hc]; exact hw⟩, ?_⟩
        exact orientIn_eq _ _ rfl
      · have hx : x = a := by simpa [incident, hy] using hinc
        subst hx
        have hlt : x < y := by omega
        refine ⟨y, x, w, (ht y x w).2 ⟨rfl, by rw [edgeKey_false_gt hlt]; exact hw⟩, ?_⟩
        rw [orientIn_ne _ _ (by simpa using hy)]
        simp [ERef.swap, pairCode_comm x y]

theorem nbrs_of_edges_out (s : State) (a : Nat) :
    neighborsDirected s a .out = ((edgesDirected s a .out).map (eref s)).map (·.tgt) := by
  simp [edgesDirected, List.map_map, Function.comp_def, eref]

theorem nbrs_of_edges_in (s : State) (a : Nat) :
    neighborsDirected s a .inc = ((edgesDirected s a .inc).map (eref s)).map (·.src) := by
  simp [edgesDirected, List.map_map, Function.comp_def, eref]

theorem gm_edgesOut (s : State) (h : Inv s) : edgesOutOk (nodesOf s) (graphMapTable s) := by
  simp only [edgesOutOk, graphMapTable, whenSome_some]
  exact rowsMatch_rowsOver fun a _ => gm_out_perm s h a

theorem gm_edges (s : State) (h : Inv s) : edgesOk (nodesOf s) (graphMapTable s) := by
  simp only [edgesOk, graphMapTable, whenSome_some]
  exact rowsMatch_rowsOver fun a _ => by rw [edgesOf_eq s h]; exact gm_out_perm s h a

theorem gm_edgesIn (s : State) (h : Inv s) : edgesInOk (nodesOf s) (graphMapTable s) := by
  simp only [edgesInOk, graphMapTable, whenSome_some]
  exact rowsMatch_rowsOver fun a _ => gm_in_perm s h a

theorem gm_nbrsOut (s : State) (h : Inv s) : nbrsOutOk (nodesOf s) (graphMapTable s) := by
  simp only [nbrsOutOk, graphMapTable, whenSome_some]
  exact rowsMatch_rowsOver fun a _ => by rw [nbrs_of_edges_out]; exact (gm_out_perm s h a).map _

theorem gm_nbrs (s : State) (h : Inv s) : nbrsOk (nodesOf s) (graphMapTable s) := by
  simp only [nbrsOk, graphMapTable, whenSome_some]
  exact rowsMatch_rowsOver fun a _ => by
    rw [neighbors_eq s h, nbrs_of_edges_out]; exact (gm_out_perm s h a).map _

theorem gm_nbrsIn (s : State) (h : Inv s) : nbrsInOk (nodesOf s) (graphMapTable s) := by
  simp only [nbrsInOk, graphMapTable, whenSome_some]
  exact rowsMatch_rowsOver fun a _ => by rw [nbrs_of_edges_in]; exact (gm_in_perm s h a).map _

/-! ### adjacency -/

theorem gm_adj (s : State) (h : Inv s) : adjOk (nodesOf s) (graphMapTable s) := by
  simp only [adjOk, graphMapTable, whenSome_some]
  refine ⟨rowsOver_keys _ _, fun a ha b hb => ?_⟩
  rw [rowOf_rowsOver _ _ a ha]
  simp only [List.mem_filter, hb, true_and, expAdj, List.any_eq_true]
  change (containsEdge s a b = true) ↔ ∃ e, e ∈ gmERefs s ∧ _
  simp only [containsEdge, IMap.contains]
  constructor
  · intro hc
    obtain ⟨w, hw⟩ := Option.isSome_iff_exists.1 hc
    cases hd : s.directed with
    | true =>
      rw [hd, edgeKey_true] at hw
      exact ⟨_, (mem_gmERefs s h _).2 ⟨a, b, w, hw, rfl⟩, by simp⟩
    | false =>
      rw [hd] at hw
      by_cases hab : a ≤ b
      · rw [edgeKey_false_le hab] at hw
        exact ⟨_, (mem_gmERefs s h _).2 ⟨a, b, w, hw, rfl⟩, by simp⟩
      · rw [edgeKey_false_gt (by omega)] at hw
        exact ⟨_, (mem_gmERefs s h _).2 ⟨b, a, w, hw, rfl⟩, by simp⟩
  · rintro ⟨e, he, hc⟩
    obtain ⟨x, y, w, hw, rfl⟩ := (mem_gmERefs s h e).1 he
    have hcan := (edge_facts s h hw).1
    cases hd : s.directed with
    | true =>
      simp only [hd, Bool.not_true, Bool.false_and, Bool.or_false, Bool.and_eq_true, beq_iff_eq] at hc
      obtain ⟨rfl, rfl⟩ := hc
      rw [edgeKey_true]; simp [hw]
    | false =>
      simp only [hd, Bool.not_false, Bool.true_and, Bool.or_eq_true, Bool.and_eq_true, beq_iff_eq] at hc
      have hxy : x ≤ y := by simpa [hd] using hcan
      rcases hc with ⟨rfl, rfl⟩ | ⟨rfl, rfl⟩
      · rw [edgeKey_false_le hxy]; simp [hw]
      · by_cases hyx : y ≤ x
        · have : x = y := by omega
          subst this
          rw [edgeKey_false_le hxy]; simp [hw]
        · rw [edgeKey_false_gt (by omega)]; simp [hw]

/-! ### the table of `GraphMap` is consistent -/

theorem graphMapTable_consistent (s : State) (h : Inv s) :
    TableConsistent (nodesOf s) (graphMapTable s) where
  ids := gm_ids s h
  refs := gm_refs s
  index := gm_index s h
  compact := gm_compact s h
  erefs := gm_erefs s h
  eix := gm_eix s h
  nbrs := gm_nbrs s h
  nbrsOut := gm_nbrsOut s h
  nbrsIn := gm_nbrsIn s h
  edges := gm_edges s h
  edgesOut := gm_edgesOut s h
  edgesIn := gm_edgesIn s h
  adj := gm_adj s h

/-- the looked-up weights the per-node edge iterators report are present (no `unreachable!()`), so the `0`
default of `GMView.eref` is never used -/
theorem graphMapTable_no_default (s : State) (h : Inv s) (a : Nat) (d : Dir) :
    (∀ e ∈ edgesOf s a, e.2.2.isSome = true) ∧ (∀ e ∈ edgesDirected s a d, e.2.2.isSome = true) := by
  rw [edgesOf_eq s h, edgesDirected_eq s h, edgesDirected_eq s h]
  constructor <;>
  · intro e he; unfold someWeights at he
    obtain ⟨t, _, rfl⟩ := List.mem_map.1 he; rfl

/-- node values below 100 are kept by every history whose calls only mention values below 100 -/
theorem gmBounded_run (directed : Bool) (ops : List GM.Op) (hops : ∀ op ∈ ops, GMJudge.OpBounded 100 op) :
    GMBounded (run (State.empty directed) ops).1 := by
  have hr := run_spec (State.empty directed) ops (inv_empty directed)
  have hbd := GMJudge.specRun_bounded (SimpleGraphSpec.SG.empty directed) 100 ops (GMJudge.bounded_empty directed 100) hops
  rw [abs_empty] at hr
  rw [← hr.2.1] at hbd
  intro n hn
  exact hbd.node_lt n ((mem_nodesOf _ n).1 hn)

end PetgraphModel.Visit
