import PetgraphModel.Model.C20Steiner
import PetgraphModel.Oracle.C20Judge
import PetgraphModel.Proofs.C20Base
/-
C20, wave 4 — the mirror model of `steiner_tree` (`Model/C20Steiner.lean`): what holds for EVERY hash
order, part 1 (no hypotheses on the graph): shape of an `ok` answer, the result lies inside the graph,
contains every terminal, and no non-terminal is left with exactly one neighbour.
-/
namespace PetgraphModel.C20.Steiner
open PetgraphModel PetgraphModel.MGraph PetgraphModel.C20

/-! ### the rounds of `non_terminal_leaves` -/

theorem mem_leafRound {nodes : List Nat} {es : List Edge} {terms removed : List Nat} {x : Nat} :
    x ∈ leafRound nodes es terms removed ↔
      x ∈ nodes ∧ x ∉ terms ∧ x ∉ removed ∧
        single ((nbrs es x).filter fun y => !removed.contains y) = true := by
  simp [leafRound, List.mem_filter, and_assoc]

/-- induction principle over the rounds: a property of the removed set that holds at the start and is
kept by every round holds at the end, and the last round found nothing -/
theorem prune_induct {nodes : List Nat} {es : List Edge} {terms : List Nat} (P : List Nat → Prop)
    (hstep : ∀ R, P R → leafRound nodes es terms R ≠ [] → P (R ++ leafRound nodes es terms R)) :
    ∀ (f : Nat) (removed R : List Nat), P removed → prune nodes es terms f removed = some R →
      P R ∧ leafRound nodes es terms R = [] := by
  intro f
  induction f with
  | zero => intro removed R _ h; simp [prune] at h
  | succ f ih =>
    intro removed R hP h
    simp only [prune] at h
    split at h
    · rename_i he
      simp at h; subst h
      exact ⟨hP, by simpa using he⟩
    · rename_i he
      exact ih _ R (hstep removed hP (by simpa using he)) h

/-- the shape of an `ok` answer -/
theorem steinerFrom_ok {B : C11M.Meas} {v : View} {terms : List Nat} {pops : List Item} {N E : List Nat}
    (h : steinerFrom B v terms pops = .ok N E) :
    ∃ fw se removed, C11M.floydWarshall B v = some fw ∧
      expand (prevOf fw) v.g.nodes.length (mstOf pops) [] = some se ∧
      prune (keptNodes v.g se terms) (baseEdges v.g se terms) terms ((keptNodes v.g se terms).length + 1) [] = some removed ∧
      N = (keptNodes v.g se terms).filter (fun x => !removed.contains x) ∧
      E = (dropNodes removed (baseEdges v.g se terms)).map (·.id) := by
  unfold steinerFrom at h
  split at h
  · cases h
  · rename_i fw hfw
    unfold steinerWith at h
    split at h
    · cases h
    · rename_i se hse
      split at h
      · cases h
      · rename_i removed hrem
        injection h with h1 h2
        exact ⟨fw, se, removed, hfw, hse, hrem, h1.symm, h2.symm⟩

/-- the edges of the answer, as edges of the graph -/
def answerEdges (g : MGraph) (se : List (Nat × Nat)) (terms removed : List Nat) : List Edge :=
  dropNodes removed (baseEdges g se terms)

theorem answerEdges_sublist (g : MGraph) (se : List (Nat × Nat)) (terms removed : List Nat) :
    (answerEdges g se terms removed).Sublist g.edges := by
  unfold answerEdges dropNodes baseEdges keptEdges
  exact (List.filter_sublist.trans List.filter_sublist).trans List.filter_sublist

theorem mem_answerEdges {g : MGraph} {se : List (Nat × Nat)} {terms removed : List Nat} {e : Edge}
    (h : e ∈ answerEdges g se terms removed) :
    e ∈ g.edges ∧ pairIn se e.src e.tgt = true ∧ e.src ∈ keptNodes g se terms ∧ e.tgt ∈ keptNodes g se terms ∧
      e.src ∉ removed ∧ e.tgt ∉ removed := by
  simp only [answerEdges, dropNodes, baseEdges, keptEdges, List.mem_filter, Bool.and_eq_true,
    Bool.not_eq_true', List.contains_eq_mem, decide_eq_false_iff_not, decide_eq_true_eq] at h
  obtain ⟨⟨⟨h1, h2⟩, h3, h4⟩, h5, h6⟩ := h
  exact ⟨h1, h2, h3, h4, h5, h6⟩

/-- **inside the graph**: the nodes are a sub-list of the graph's nodes, the edges are edges of the
graph (the `Edge` records themselves, so with their weights) in the graph's order, and every one of
them joins two nodes of the answer -/
theorem steinerFrom_inside {B : C11M.Meas} {v : View} {terms : List Nat} {pops : List Item} {N E : List Nat}
    (h : steinerFrom B v terms pops = .ok N E) :
    N.Sublist v.g.nodes ∧
    ∃ es : List Edge, es.Sublist v.g.edges ∧ E = es.map (·.id) ∧ ∀ e ∈ es, e.src ∈ N ∧ e.tgt ∈ N := by
  obtain ⟨fw, se, removed, _, _, _, hN, hE⟩ := steinerFrom_ok h
  refine ⟨?_, answerEdges v.g se terms removed, answerEdges_sublist _ _ _ _, hE, ?_⟩
  · rw [hN]; unfold keptNodes; exact List.filter_sublist.trans List.filter_sublist
  · intro e he
    obtain ⟨_, _, h3, h4, h5, h6⟩ := mem_answerEdges he
    rw [hN]
    simp only [List.mem_filter]
    exact ⟨⟨h3, by simpa using h5⟩, ⟨h4, by simpa using h6⟩⟩

/-- no round removes a terminal -/
theorem prune_avoids_terms {nodes : List Nat} {es : List Edge} {terms : List Nat} {f : Nat} {R : List Nat}
    (h : prune nodes es terms f [] = some R) : ∀ x ∈ R, x ∉ terms := by
  refine (prune_induct (nodes := nodes) (es := es) (terms := terms) (fun R => ∀ x ∈ R, x ∉ terms) ?_ f [] R (by simp) h).1
  intro R hR _ x hx
  rcases List.mem_append.mp hx with hx | hx
  · exact hR x hx
  · exact (mem_leafRound.mp hx).2.1

/-- **every terminal (that is a node of the graph) is in the answer** -/
theorem steinerFrom_terminals {B : C11M.Meas} {v : View} {terms : List Nat} {pops : List Item} {N E : List Nat}
    (h : steinerFrom B v terms pops = .ok N E) : ∀ t ∈ terms, t ∈ v.g.nodes → t ∈ N := by
  obtain ⟨fw, se, removed, _, _, hrem, hN, _⟩ := steinerFrom_ok h
  intro t ht htn
  rw [hN]
  simp only [List.mem_filter]
  refine ⟨?_, ?_⟩
  · simp [keptNodes, List.mem_filter, htn, ht]
  · have := prune_avoids_terms hrem
    have hnot : t ∉ removed := fun hc => this t hc ht
    simpa using hnot

/-- neighbours in the answer = the not yet removed neighbours of the last round -/
theorem nbrs_dropNodes {removed : List Nat} {es : List Edge} {x : Nat} (hx : x ∉ removed) :
    nbrs (dropNodes removed es) x = (nbrs es x).filter fun y => !removed.contains y := by
  induction es with
  | nil => rfl
  | cons e es ih =>
    have ih' : nbrs (dropNodes removed es) x = (nbrs es x).filter fun y => !removed.contains y := ih
    have hcons : nbrs (e :: es) x =
        (if e.src = x then [e.tgt] else if e.tgt = x then [e.src] else []) ++ nbrs es x := by
      simp only [nbrs, List.filterMap_cons]
      split <;> rename_i hm
      · split at hm
        · simp_all
        · split at hm <;> simp_all
      · split at hm
        · simp_all
        · split at hm <;> simp_all
    rw [hcons, List.filter_append, ← ih']
    by_cases h3 : e.src ∈ removed
    · have hd : dropNodes removed (e :: es) = dropNodes removed es := by
        simp [dropNodes, h3]
      have h1 : e.src ≠ x := fun h => hx (h ▸ h3)
      rw [hd]
      by_cases h2 : e.tgt = x <;> simp [h1, h2, h3]
    · by_cases h4 : e.tgt ∈ removed
      · have hd : dropNodes removed (e :: es) = dropNodes removed es := by
          simp [dropNodes, h3, h4]
        have h2 : e.tgt ≠ x := fun h => hx (h ▸ h4)
        rw [hd]
        by_cases h1 : e.src = x <;> simp [h1, h2, h4]
      · have hd : dropNodes removed (e :: es) = e :: dropNodes removed es := by
          simp [dropNodes, h3, h4]
        rw [hd]
        have hcons' : nbrs (e :: dropNodes removed es) x =
            (if e.src = x then [e.tgt] else if e.tgt = x then [e.src] else []) ++ nbrs (dropNodes removed es) x := by
          simp only [nbrs, List.filterMap_cons]
          split <;> rename_i hm
          · split at hm
            · simp_all
            · split at hm <;> simp_all
          · split at hm
            · simp_all
            · split at hm <;> simp_all
        rw [hcons']
        by_cases h1 : e.src = x
        · simp [h1, h4]
        · by_cases h2 : e.tgt = x <;> simp [h1, h2, h3]

/-- **only terminals are leaves**: no node of the answer that is not a terminal has exactly one
(distinct) neighbour in the answer -/
theorem steinerFrom_leaves {B : C11M.Meas} {v : View} {terms : List Nat} {pops : List Item} {N E : List Nat}
    (h : steinerFrom B v terms pops = .ok N E) :
    ∃ es : List Edge, es.Sublist v.g.edges ∧ E = es.map (·.id) ∧
      ∀ x ∈ N, x ∉ terms → single (nbrs es x) = false := by
  obtain ⟨fw, se, removed, _, _, hrem, hN, hE⟩ := steinerFrom_ok h
  refine ⟨answerEdges v.g se terms removed, answerEdges_sublist _ _ _ _, hE, ?_⟩
  intro x hx hxt
  rw [hN] at hx
  simp only [List.mem_filter] at hx
  have hxr : x ∉ removed := by simpa using hx.2
  have hlast := (prune_induct (nodes := keptNodes v.g se terms) (es := baseEdges v.g se terms) (terms := terms)
    (fun _ => True) (fun _ _ _ => trivial) _ [] removed trivial hrem).2
  unfold answerEdges
  rw [nbrs_dropNodes hxr]
  cases hs : single ((nbrs (baseEdges v.g se terms) x).filter fun y => !removed.contains y) with
  | false => rfl
  | true =>
    have : x ∈ leafRound (keptNodes v.g se terms) (baseEdges v.g se terms) terms removed :=
      mem_leafRound.mpr ⟨hx.1, hxt, hxr, hs⟩
    rw [hlast] at this
    cases this

end PetgraphModel.C20.Steiner
