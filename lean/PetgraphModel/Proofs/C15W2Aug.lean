import PetgraphModel.Proofs.C15W2Inv
/-
C15 wave 2 — `augment_path` re-matches the path `P x` of an outer vertex `x` (up to a vertex whose
`mate` entry was already redirected), without a fault and within its fuel.
-/
namespace PetgraphModel.C15W2
open PetgraphModel PetgraphModel.C15 PetgraphModel.C15M PetgraphModel.C15P

theorem setMate_eq (s : GS) (i : Nat) (x : Option Nat) (h : i < s.mate.length) :
    s.setMate i x = { s with mate := s.mate.set i x } := by
  unfold GS.setMate; simp [h]

/-- `tempIdx` of `augment_path` -/
def tmpIdx (v : View) (temp : Option Nat) : Nat :=
  match temp with | some t => v.toIndex t | none => v.nb

/-- what `augment_path` does after its first assignment -/
def augRest (v : View) (f x : Nat) (temp : Option Nat) (s1 : GS) : GS :=
  if getM s1.mate (tmpIdx v temp) != some x then s1 else
    match labI s1.label (v.toIndex x) with
    | .vertex y =>
      match temp with
      | some t => augmentPath v f y t { s1 with mate := s1.mate.set (tmpIdx v temp) (some y) }
      | none => { s1 with mate := s1.mate.set (tmpIdx v temp) (some y) }
    | .edge _ a b => augmentPath v f b a (augmentPath v f a b s1)
    | _ => { s1 with fault := true }

theorem aug_unfold (v : View) (f x w : Nat) (s : GS) (hxi : v.toIndex x < s.mate.length)
    (hti : tmpIdx v (getM s.mate (v.toIndex x)) < s.mate.length) :
    augmentPath v (f + 1) x w s =
      augRest v f x (getM s.mate (v.toIndex x)) { s with mate := s.mate.set (v.toIndex x) (some w) } := by
  unfold augmentPath augRest
  simp only [getMate_eq _ _ hxi, flt_false, setMate_eq _ _ _ hxi]
  cases ht : getM s.mate (v.toIndex x) with
  | none =>
    simp only [tmpIdx, ht] at hti ⊢
    have h2 : v.nb < ({ s with mate := s.mate.set (v.toIndex x) (some w) } : GS).mate.length := by simpa using hti
    simp only [getMate_eq _ _ h2, flt_false, setMate_eq _ _ _ h2, getLabel_fst]
    by_cases hc : (getM (s.mate.set (v.toIndex x) (some w)) v.nb != some x) = true
    · simp only [hc, if_true]
    · simp only [hc]
      cases labI s.label (v.toIndex x) <;> rfl
  | some t =>
    simp only [tmpIdx, ht] at hti ⊢
    have h2 : v.toIndex t < ({ s with mate := s.mate.set (v.toIndex x) (some w) } : GS).mate.length := by simpa using hti
    simp only [getMate_eq _ _ h2, flt_false, setMate_eq _ _ _ h2, getLabel_fst]
    by_cases hc : (getM (s.mate.set (v.toIndex x) (some w)) (v.toIndex t) != some x) = true
    · simp only [hc, if_true]
    · simp only [hc]
      cases labI s.label (v.toIndex x) <;> rfl

/-- the current `mate` entry of a node -/
def cur (c : Ctx) (s : GS) (a : Nat) : Option Nat := getM s.mate (c.v.toIndex a)

theorem getM_set_node {v : View} {mode : Nat} (hv : VHyp v mode) (mate : List (Option Nat)) (p a : Nat)
    (y : Option Nat) (hp : p ∈ v.g.nodes) (ha : a ∈ v.g.nodes) (hl : v.toIndex p < mate.length) :
    getM (mate.set (v.toIndex p) y) (v.toIndex a) = if a = p then y else getM mate (v.toIndex a) := by
  rw [getM_set _ _ _ _ hl]
  by_cases h : a = p
  · subst h; simp
  · have : ¬ v.toIndex p = v.toIndex a := fun e => h (hv.ix.inj a ha p hp e.symm)
    simp [h, this]

/-- what a call of `augment_path` has achieved -/
structure AugPost (c : Ctx) (s s' : GS) (w : Nat) (l1 : PL) (z : Nat) : Prop where
  label : s'.label = s.label
  fi : s'.fi = s.fi
  fault : s'.fault = false
  len : s'.mate.length = s.mate.length
  other : ∀ i, (∀ a ∈ c.v.g.nodes, c.v.toIndex a ≠ i) → s'.mate[i]? = s.mate[i]?
  core : Core (cur c s') w l1 z
  zval : cur c s' z = some (lastSnd l1 w)
  rest : ∀ a ∈ c.v.g.nodes, a ∉ verts l1 → a ≠ z → cur c s' a = cur c s a

/-- the first assignment `mate[x] = w` -/
theorem AugPost.first {c : Ctx} (hv : VHyp c.v c.mode) (s : GS) (x w : Nat) (hx : x ∈ c.v.g.nodes)
    (hxi : c.v.toIndex x < s.mate.length) (hf : s.fault = false) :
    AugPost c s { s with mate := s.mate.set (c.v.toIndex x) (some w) } w [] x := by
  refine ⟨rfl, rfl, hf, by simp, ?_, trivial, ?_, ?_⟩
  · intro i hi
    show (s.mate.set (c.v.toIndex x) (some w))[i]? = s.mate[i]?
    rw [List.getElem?_set_ne (hi x hx)]
  · show getM (s.mate.set (c.v.toIndex x) (some w)) (c.v.toIndex x) = some w
    rw [getM_set _ _ _ _ hxi]; simp
  · intro a ha _ hax
    show getM (s.mate.set (c.v.toIndex x) (some w)) (c.v.toIndex a) = getM s.mate (c.v.toIndex a)
    rw [getM_set_node hv _ _ _ _ hx ha hxi]; simp [hax]

/-- the state requirements of a call `augment_path(x, w)` that is to re-match `l1`, where
`P x = l1 ++ l2`: the pairs of `l1` are still matched, and the path is cut after `l1` -/
structure AugPre (c : Ctx) (A : AS) (s : GS) (x w : Nat) (l1 l2 : PL) : Prop where
  fault : s.fault = false
  len : s.mate.length = c.v.nb + 1
  dummy : getM s.mate c.v.nb = none
  matched : ∀ p q, (p, q) ∈ l1 → cur c s p = some q ∧ cur c s q = some p
  stopNil : l2 = [] → cur c s c.sv = none
  stopCons : ∀ p q r, l2 = (p, q) :: r → cur c s p = some q ∧ cur c s q ≠ some p ∧ A.tau x < A.tau q
  wne : ∀ p q r, l1 = (p, q) :: r → w ≠ q

theorem aug_stop_case (c : Ctx) (hv : VHyp c.v c.mode) (A : AS) (hA : AInv c A)
    (f x w : Nat) (s : GS) (l2 : PL) (hx : x ∈ c.v.g.nodes) (hox : A.out x = true)
    (hP : A.P x = l2) (hpre : AugPre c A s x w [] l2) :
    AugPost c s (augmentPath c.v (f + 1) x w s) w [] (fstOr l2 c.sv) := by
  have hpx := hA.path x hx hox
  have hxi : c.v.toIndex x < s.mate.length := by rw [hpre.len]; have := hv.ix.lt x hx; omega
  have hnd : (verts l2 ++ [c.sv]).Nodup := by rw [← hP]; exact hpx.nodup
  have hmem : ∀ y ∈ verts l2, y ∈ c.v.g.nodes := by rw [← hP]; exact hpx.mem
  have hhd : fstOr l2 c.sv = x := by rw [← hP]; exact hpx.hd
  have hstop : tmpIdx c.v (getM s.mate (c.v.toIndex x)) < s.mate.length ∧
      getM (s.mate.set (c.v.toIndex x) (some w)) (tmpIdx c.v (getM s.mate (c.v.toIndex x))) ≠ some x := by
    cases l2 with
    | nil =>
      have hxs : x = c.sv := by simpa using hhd.symm
      have h0 : getM s.mate (c.v.toIndex x) = none := by rw [hxs]; exact hpre.stopNil rfl
      rw [h0]; simp only [tmpIdx]
      refine ⟨by rw [hpre.len]; omega, ?_⟩
      rw [getM_set _ _ _ _ hxi]
      simp [hv.idx_ne_nb hx, hpre.dummy]
    | cons pq r =>
      obtain ⟨p, q⟩ := pq
      have hpx' : p = x := by simpa using hhd
      subst hpx'
      obtain ⟨h1, h2, _⟩ := hpre.stopCons p q r rfl
      have hq : q ∈ c.v.g.nodes := hmem q (by simp)
      have hqx : q ≠ p := by intro e; subst e; simp at hnd
      have h0 : getM s.mate (c.v.toIndex p) = some q := h1
      rw [h0]; simp only [tmpIdx]
      refine ⟨by rw [hpre.len]; have := hv.ix.lt q hq; omega, ?_⟩
      rw [getM_set_node hv _ _ _ _ hx hq hxi]
      simp only [hqx, if_false]; exact h2
  rw [aug_unfold _ _ _ _ _ hxi hstop.1]
  unfold augRest
  have hb : (getM ({ s with mate := s.mate.set (c.v.toIndex x) (some w) } : GS).mate
      (tmpIdx c.v (getM s.mate (c.v.toIndex x))) != some x) = true := by simpa using hstop.2
  rw [if_pos hb, hhd]
  exact AugPost.first hv s x w hx hxi hpre.fault

theorem append_split {α : Type} (r1 l2 A B : List α) (h : r1 ++ l2 = A ++ B)
    (hh : ∀ x, l2.head? = some x → x ∉ A) : ∃ r', r1 = A ++ r' ∧ B = r' ++ l2 := by
  rcases List.append_eq_append_iff.mp h with ⟨a', h1, h2⟩ | ⟨c', h1, h2⟩
  · cases a' with
    | nil => exact ⟨[], by simpa using h1.symm, by simpa using h2.symm⟩
    | cons y a'' =>
      exfalso
      have : l2.head? = some y := by rw [h2]; rfl
      exact hh y this (by rw [h1]; simp)
  · exact ⟨c', h1, h2⟩

/-- composing two posts whose re-matched parts are apart -/
theorem AugPost.frame {c : Ctx} {s s1 s2 : GS} {w1 w2 : Nat} {l1 l2 : PL} {z1 z2 : Nat}
    (h1 : AugPost c s s1 w1 l1 z1) (h2 : AugPost c s1 s2 w2 l2 z2)
    (hm : ∀ a ∈ verts l1 ++ [z1], a ∈ c.v.g.nodes)
    (hd : ∀ a ∈ verts l1 ++ [z1], a ∉ verts l2 ∧ a ≠ z2) :
    Core (cur c s2) w1 l1 z1 ∧ cur c s2 z1 = some (lastSnd l1 w1) := by
  constructor
  · apply Core_congr (cur c s1) (cur c s2) l1 w1 z1 _ h1.core
    intro a ha
    have ha' : a ∈ verts l1 ++ [z1] := List.mem_append_left _ ha
    exact h2.rest a (hm a ha') (hd a ha').1 (hd a ha').2
  · have hz : z1 ∈ verts l1 ++ [z1] := by simp
    rw [h2.rest z1 (hm z1 hz) (hd z1 hz).1 (hd z1 hz).2]
    exact h1.zval

end PetgraphModel.C15W2
