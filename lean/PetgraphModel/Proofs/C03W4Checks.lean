import PetgraphModel.Driver.C03
import PetgraphModel.Proofs.GraphMap
import PetgraphModel.Proofs.GraphMapJudge
/-
C03 (wave 4) — run-time checks of the theorems' hypotheses.

* `opBoundedB_iff`: the Boolean the driver evaluates on every call decides `OpBounded`;
* `InScope`: the driver's two machines are always the mirror state and the abstract graph reached by
  ONE history of calls that passed that check, from the empty graph — preserved by every protocol
  line (`step_inScope`), so every judged case is inside the scope of the all-histories theorems
  (`inScope_facts`: invariant, abstraction, bounded, well-formed).
-/
namespace PetgraphModel.C03W4
open PetgraphModel PetgraphModel.GM PetgraphModel.SimpleGraphSpec
open PetgraphModel.GMProofs PetgraphModel.GMJudge

theorem opBoundedB_iff (k : Nat) (op : Op) : opBoundedB k op = true ↔ OpBounded k op := by
  cases op <;> simp [opBoundedB, OpBounded]

theorem run_append (s : State) (ops1 ops2 : List Op) :
    (run s (ops1 ++ ops2)).1 = (run (run s ops1).1 ops2).1 := by
  induction ops1 generalizing s with
  | nil => rfl
  | cons op t ih => simp only [List.cons_append, run]; exact ih _

theorem specRun_append (g : SG) (ops1 ops2 : List Op) :
    specRun g (ops1 ++ ops2) = specRun (specRun g ops1) ops2 := by
  induction ops1 generalizing g with
  | nil => rfl
  | cons op t ih => simp only [List.cons_append, specRun]; exact ih _

/-- the driver state is the result of one in-range history from the empty graph -/
def InScope (d : C03.DState) : Prop :=
  ∃ (dir : Bool) (ops : List Op), (∀ op ∈ ops, OpBounded d.k op) ∧
    d.s = (run (State.empty dir) ops).1 ∧ d.g = specRun (SG.empty dir) ops

theorem inScope_default : InScope {} := ⟨true, [], by simp, rfl, rfl⟩

theorem advance_inScope (d d' : C03.DState) (ops : List Op) (h : InScope d) (ha : C03.advance d ops = some d') :
    InScope d' := by
  obtain ⟨dir, ops0, hb, hs, hg⟩ := h
  unfold C03.advance at ha
  split at ha
  · rename_i hall
    simp only [Option.some.injEq] at ha
    subst ha
    refine ⟨dir, ops0 ++ ops, ?_, ?_, ?_⟩
    · intro op hop
      rcases List.mem_append.1 hop with h1 | h1
      · exact hb op h1
      · exact (opBoundedB_iff d.k op).1 (List.all_eq_true.1 hall op h1)
    · show (run d.s ops).1 = _
      rw [run_append, ← hs]
    · show specRun d.g ops = _
      rw [specRun_append, ← hg]
  · cases ha

/-- every protocol line of waves 1–5 keeps the driver in scope -/
theorem stepCore_inScope (d : C03.DState) (req : List String) (impl : String) (h : InScope d) :
    InScope (C03.stepCore d req impl).1 := by
  unfold C03.stepCore
  split
  · exact ⟨_, [], by simp, rfl, rfl⟩
  · exact ⟨_, [], by simp, rfl, rfl⟩
  · exact h
  · exact h
  · split
    · split
      · exact h
      · split
        · rename_i d' ha; exact advance_inScope d d' _ h ha
        · exact h
    · exact h
  · dsimp only
    split
    · rename_i d' ha; exact advance_inScope d d' _ h ha
    · exact h
  · split
    · exact h
    · dsimp only
      split
      · rename_i d' ha; exact advance_inScope d d' _ h ha
      · exact h

/-- every protocol line (incl. the `law`, `instances` and `from_elems` lines of wave 6) keeps the driver in scope -/
theorem step_inScope (d : C03.DState) (req : List String) (impl : String) (h : InScope d) :
    InScope (C03.step d req impl).1 := by
  unfold C03.step
  split
  · exact h
  · exact h
  · split
    · exact h
    · split
      · exact h
      · split
        · exact h
        · split
          · rename_i d' ha; exact advance_inScope d d' _ h ha
          · exact h
  · exact stepCore_inScope d req impl h

/-- what being in scope gives: the hypotheses of the judge / dump / refinement theorems -/
theorem inScope_facts (d : C03.DState) (h : InScope d) :
    Inv d.s ∧ abs d.s = d.g ∧ d.g.Bounded d.k ∧ d.g.WF := by
  obtain ⟨dir, ops, hb, hs, hg⟩ := h
  have hr := run_spec (State.empty dir) ops (inv_empty dir)
  rw [abs_empty] at hr
  rw [hs, hg]
  refine ⟨hr.1, hr.2.1, specRun_bounded _ _ ops (bounded_empty dir d.k) hb, ?_⟩
  rw [← hr.2.1]; exact abs_wf _ hr.1

end PetgraphModel.C03W4
