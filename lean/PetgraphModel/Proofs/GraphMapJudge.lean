import PetgraphModel.Spec.SimpleGraph
import PetgraphModel.Spec.SimpleGraphJudge
import PetgraphModel.Proofs.GraphMap
/-
The executable judge `judgeB` decides exactly `OutOk` (for well-formed graphs bounded by `k`).
Core Lean only.
-/
namespace PetgraphModel.GMJudge
open PetgraphModel PetgraphModel.GM PetgraphModel.SimpleGraphSpec

theorem nodupB_iff {α : Type} [DecidableEq α] (l : List α) : nodupB l = true ↔ l.Nodup := by
  induction l with
  | nil => simp [nodupB]
  | cons x t ih => simp [nodupB, ih]

/-- pigeonhole: a duplicate-free sublist-as-set of `m` that is at least as long as `m` contains all of `m` -/
theorem mem_of_subset_length {α : Type} [DecidableEq α] : ∀ (l m : List α), l.Nodup → (∀ x ∈ l, x ∈ m) →
    m.length ≤ l.length → ∀ x ∈ m, x ∈ l
  | [], m, _, _, hlen, x, hx => by
    cases m with
    | nil => cases hx
    | cons y t => simp at hlen
  | a :: t, m, hn, hsub, hlen, x, hx => by
    rw [List.nodup_cons] at hn
    have ham : a ∈ m := hsub a (by simp)
    by_cases hxa : x = a
    · simp [hxa]
    · have hsub' : ∀ y ∈ t, y ∈ m.erase a := by
        intro y hy
        have : y ≠ a := by intro e; subst e; exact hn.1 hy
        exact (List.mem_erase_of_ne this).2 (hsub y (by simp [hy]))
      have hlen' : (m.erase a).length ≤ t.length := by
        rw [List.length_erase_of_mem ham]; simp at hlen; omega
      have := mem_of_subset_length t (m.erase a) hn.2 hsub' hlen' x ((List.mem_erase_of_ne hxa).2 hx)
      simp [this]

theorem enumOk_iff {α : Type} [DecidableEq α] (P : α → Bool) (dom l : List α) (hd : dom.Nodup)
    (hP : ∀ x, P x = true → x ∈ dom) :
    enumOk P dom l = true ↔ l.Nodup ∧ ∀ x, x ∈ l ↔ P x = true := by
  unfold enumOk
  simp only [Bool.and_eq_true, nodupB_iff, List.all_eq_true, beq_iff_eq]
  have hfn : (dom.filter P).Nodup := hd.sublist List.filter_sublist
  constructor
  · rintro ⟨⟨hn, hall⟩, hlen⟩
    refine ⟨hn, fun x => ⟨hall x, fun hx => ?_⟩⟩
    apply mem_of_subset_length l (dom.filter P) hn
    · intro y hy; exact List.mem_filter.2 ⟨hP y (hall y hy), hall y hy⟩
    · omega
    · exact List.mem_filter.2 ⟨hP x hx, hx⟩
  · rintro ⟨hn, hmem⟩
    refine ⟨⟨hn, fun x hx => (hmem x).1 hx⟩, ?_⟩
    apply List.Perm.length_eq
    rw [List.perm_ext_iff_of_nodup hn hfn]
    intro x
    rw [hmem, List.mem_filter]
    exact ⟨fun hx => ⟨hP x hx, hx⟩, fun hx => hx.2⟩

theorem nodup_univ (k : Nat) : (univ k).Nodup := List.nodup_range
theorem mem_univ (k x : Nat) : x ∈ univ k ↔ x < k := List.mem_range

theorem mem_pairs (k : Nat) (p : Nat × Nat) : p ∈ pairs k ↔ p.1 < k ∧ p.2 < k := by
  unfold pairs
  simp only [List.mem_flatMap, List.mem_map, mem_univ]
  constructor
  · rintro ⟨a, ha, b, hb, rfl⟩; exact ⟨ha, hb⟩
  · rintro ⟨h1, h2⟩; exact ⟨p.1, h1, p.2, h2, rfl⟩

theorem nodup_product (l1 l2 : List Nat) (hn1 : l1.Nodup) (hn2 : l2.Nodup) :
    (l1.flatMap fun a => l2.map fun b => (a, b)).Nodup := by
  induction l1 with
  | nil => simp
  | cons a t ih =>
    rw [List.nodup_cons] at hn1
    rw [List.flatMap_cons, List.nodup_append]
    refine ⟨?_, ih hn1.2, ?_⟩
    · exact GMProofs.nodup_map_of_inj _ _ hn2 (by intro x _ y _ h; simpa using h)
    · intro x hx y hy
      obtain ⟨b, _, rfl⟩ := List.mem_map.1 hx
      obtain ⟨a', ha', hy'⟩ := List.mem_flatMap.1 hy
      obtain ⟨b', _, rfl⟩ := List.mem_map.1 hy'
      intro e; simp at e; exact hn1.1 (e.1 ▸ ha')

theorem nodup_pairs (k : Nat) : (pairs k).Nodup := nodup_product _ _ (nodup_univ k) (nodup_univ k)

theorem nodesB_iff (g : SG) (k : Nat) (hb : g.Bounded k) (l : List Nat) : nodesB g k l = true ↔ NodesOk g l := by
  unfold nodesB NodesOk
  exact enumOk_iff g.node (univ k) l (nodup_univ k) (fun x hx => (mem_univ k x).2 (hb.node_lt x hx))

theorem hasDir_lt (g : SG) (k : Nat) (hb : g.Bounded k) (a : Nat) (d : Dir) (b : Nat) (h : hasDir g a d b = true) : b < k := by
  cases d
  · exact (hb.w_lt a b h).2
  · exact (hb.w_lt b a h).1

theorem neighborsB_iff (g : SG) (k : Nat) (hb : g.Bounded k) (a : Nat) (d : Dir) (l : List Nat) :
    neighborsB g k a d l = true ↔ NeighborsOk g a d l := by
  unfold neighborsB NeighborsOk
  rw [enumOk_iff (hasDir g a d) (univ k) l (nodup_univ k) (fun x hx => (mem_univ k x).2 (hasDir_lt g k hb a d x hx))]
  cases d <;> rfl

theorem inj_of_nodup_map {α β : Type} (f : α → β) (l : List α) (h : (l.map f).Nodup) (x y : α) (hx : x ∈ l) (hy : y ∈ l)
    (hxy : f x = f y) : x = y := by
  induction l with
  | nil => cases hx
  | cons a t ih =>
    rw [List.map_cons, List.nodup_cons] at h
    rcases List.mem_cons.1 hx with rfl | hx' <;> rcases List.mem_cons.1 hy with rfl | hy'
    · rfl
    · exact absurd (List.mem_map.2 ⟨y, hy', hxy.symm⟩) h.1
    · exact absurd (List.mem_map.2 ⟨x, hx', hxy⟩) h.1
    · exact ih h.2 hx' hy'

theorem edgesB_iff (g : SG) (k : Nat) (hb : g.Bounded k) (a : Nat) (d : Dir) (t : List (Nat × Nat × Nat)) :
    edgesB g k a d t = true ↔ EdgesOk g a d t := by
  unfold edgesB
  rw [Bool.and_eq_true, List.all_eq_true,
    enumOk_iff (hasDir g a d) (univ k) _ (nodup_univ k) (fun x hx => (mem_univ k x).2 (hasDir_lt g k hb a d x hx))]
  have hgood : ∀ e : Nat × Nat × Nat, goodEdge g a d e = true ↔
      (match d with | .out => e.1 = a ∧ g.w a e.2.1 = some e.2.2 | .inc => e.2.1 = a ∧ g.w e.1 a = some e.2.2) := by
    intro e; cases d <;> simp [goodEdge]
  have hother : ∀ e : Nat × Nat × Nat, goodEdge g a d e = true → hasDir g a d (otherEnd d e) = true := by
    intro e he; rw [hgood] at he
    cases d <;> simp only [hasDir, otherEnd, SG.hasEdge] at he ⊢ <;> simp [he.2]
  have hdet : ∀ e e' : Nat × Nat × Nat, goodEdge g a d e = true → goodEdge g a d e' = true →
      otherEnd d e = otherEnd d e' → e = e' := by
    intro e e' he he' ho
    rw [hgood] at he he'
    obtain ⟨x, y, w⟩ := e; obtain ⟨x', y', w'⟩ := e'
    cases d <;> simp only [otherEnd] at ho he he' <;> grind
  unfold EdgesOk
  constructor
  · rintro ⟨hall, hn, hmem⟩
    refine ⟨GMProofs.nodup_of_map _ _ hn, ?_⟩
    intro x y w
    constructor
    · intro hm
      have := (hgood (x, y, w)).1 (hall _ hm)
      exact this
    · intro hxy
      have hg : goodEdge g a d (x, y, w) = true := (hgood (x, y, w)).2 hxy
      have := (hmem (otherEnd d (x, y, w))).2 (hother _ hg)
      obtain ⟨e, he, heq⟩ := List.mem_map.1 this
      have := hdet e (x, y, w) (hall e he) hg heq
      rw [← this]; exact he
  · rintro ⟨hn, hmem⟩
    have hall : ∀ e ∈ t, goodEdge g a d e = true := by
      intro e he
      obtain ⟨x, y, w⟩ := e
      exact (hgood (x, y, w)).2 ((hmem x y w).1 he)
    refine ⟨hall, ?_, ?_⟩
    · exact GMProofs.nodup_map_of_inj _ _ hn (fun x hx y hy hxy => hdet x y (hall x hx) (hall y hy) hxy)
    · intro b
      constructor
      · intro hbm
        obtain ⟨e, he, rfl⟩ := List.mem_map.1 hbm
        exact hother e (hall e he)
      · intro hbd
        cases d with
        | out =>
          simp only [hasDir, SG.hasEdge] at hbd
          obtain ⟨w, hw⟩ := Option.isSome_iff_exists.1 hbd
          exact List.mem_map.2 ⟨(a, b, w), (hmem a b w).2 ⟨rfl, hw⟩, rfl⟩
        | inc =>
          simp only [hasDir, SG.hasEdge] at hbd
          obtain ⟨w, hw⟩ := Option.isSome_iff_exists.1 hbd
          exact List.mem_map.2 ⟨(b, a, w), (hmem b a w).2 ⟨rfl, hw⟩, rfl⟩

theorem canon_eq_iff (d : Bool) (p q : Nat × Nat) :
    canon d p = canon d q ↔ p = q ∨ (d = false ∧ p = (q.2, q.1)) := by
  obtain ⟨a, b⟩ := p; obtain ⟨x, y⟩ := q
  unfold canon
  cases d <;> simp <;> grind

theorem canon_self (d : Bool) (p : Nat × Nat) (h : d = true ∨ p.1 ≤ p.2) : canon d p = p := by
  unfold canon; rcases h with h | h <;> simp [h]

theorem isKey_canon (g : SG) (hw : g.WF) (a b w : Nat) (h : g.w a b = some w) :
    isKey g (canon g.directed (a, b)) = true := by
  unfold isKey canon
  cases hd : g.directed with
  | true => simp [h]
  | false =>
    by_cases hab : a ≤ b
    · simp [hab, h]
    · have := hw.symm hd a b
      simp only [Bool.false_or, decide_eq_true_eq, hab, if_false]
      rw [← this, h]; simp; omega

theorem allEdgesB_iff (g : SG) (k : Nat) (hb : g.Bounded k) (hw : g.WF) (l : List (Nat × Nat × Nat)) :
    allEdgesB g k l = true ↔ AllEdgesOk g l := by
  unfold allEdgesB
  have hP : ∀ p, isKey g p = true → p ∈ pairs k := by
    intro p hp
    unfold isKey at hp
    simp only [Bool.and_eq_true] at hp
    exact (mem_pairs k p).2 (hb.w_lt p.1 p.2 hp.2)
  rw [Bool.and_eq_true, List.all_eq_true, enumOk_iff (isKey g) (pairs k) _ (nodup_pairs k) hP]
  have hvalid : ∀ e : Nat × Nat × Nat, validEdge g e = true ↔ g.w e.1 e.2.1 = some e.2.2 := by
    intro e; simp [validEdge]
  unfold AllEdgesOk
  constructor
  · rintro ⟨hall, hn, hmem⟩
    refine ⟨GMProofs.nodup_of_map _ _ hn, ?_, ?_, ?_⟩
    · intro a b w hm; exact (hvalid (a, b, w)).1 (hall _ hm)
    · intro a b w hab
      have hk := isKey_canon g hw a b w hab
      obtain ⟨e, he, heq⟩ := List.mem_map.1 ((hmem _).2 hk)
      have hv := (hvalid e).1 (hall e he)
      obtain ⟨x, y, z⟩ := e
      simp only at heq hv
      rcases (canon_eq_iff g.directed (x, y) (a, b)).1 heq with h1 | ⟨hd, h1⟩
      · simp only [Prod.mk.injEq] at h1
        obtain ⟨rfl, rfl⟩ := h1
        rw [hab] at hv; cases hv; left; exact he
      · simp only [Prod.mk.injEq] at h1
        obtain ⟨rfl, rfl⟩ := h1
        rw [hw.symm hd, hab] at hv; cases hv; right; exact ⟨hd, he⟩
    · intro hd a b w w' hab h1 h2
      have := inj_of_nodup_map _ l hn (a, b, w) (b, a, w') h1 h2
        ((canon_eq_iff g.directed (a, b) (b, a)).2 (Or.inr ⟨hd, rfl⟩))
      simp only [Prod.mk.injEq] at this
      exact hab this.1
  · rintro ⟨hn, h2, h3, h4⟩
    have hall : ∀ e ∈ l, validEdge g e = true := by
      intro e he; obtain ⟨x, y, z⟩ := e; exact (hvalid (x, y, z)).2 (h2 x y z he)
    refine ⟨hall, ?_, ?_⟩
    · apply GMProofs.nodup_map_of_inj _ _ hn
      intro e he e' he' heq
      obtain ⟨x, y, z⟩ := e; obtain ⟨x', y', z'⟩ := e'
      have v := h2 x y z he
      have v' := h2 x' y' z' he'
      rcases (canon_eq_iff g.directed (x, y) (x', y')).1 heq with h1 | ⟨hd, h1⟩
      · simp only [Prod.mk.injEq] at h1
        obtain ⟨rfl, rfl⟩ := h1
        rw [v] at v'; cases v'; rfl
      · simp only [Prod.mk.injEq] at h1
        obtain ⟨h1a, h1b⟩ := h1
        subst h1a; subst h1b
        by_cases hxy : x = y
        · subst hxy; rw [v] at v'; cases v'; rfl
        · exact absurd he' (h4 hd x y z z' hxy he)
    · intro p
      constructor
      · intro hp
        obtain ⟨e, he, rfl⟩ := List.mem_map.1 hp
        obtain ⟨x, y, z⟩ := e
        exact isKey_canon g hw x y z (h2 x y z he)
      · intro hp
        unfold isKey at hp
        simp only [Bool.and_eq_true, Bool.or_eq_true, decide_eq_true_eq] at hp
        obtain ⟨w, hw'⟩ := Option.isSome_iff_exists.1 hp.2
        rcases h3 p.1 p.2 w hw' with hm | ⟨hd, hm⟩
        · exact List.mem_map.2 ⟨_, hm, canon_self _ _ hp.1⟩
        · refine List.mem_map.2 ⟨_, hm, ?_⟩
          simp only
          have hle : p.1 ≤ p.2 := by
            rcases hp.1 with h | h
            · rw [hd] at h; cases h
            · exact h
          unfold canon
          rw [hd]
          by_cases h' : p.2 ≤ p.1
          · have : p.1 = p.2 := Nat.le_antisymm hle h'
            simp only [Bool.false_or, decide_eq_true_eq, h', if_true]
            exact Prod.ext this.symm this
          · simp [h']

theorem nodesOk_length (g : SG) (k : Nat) (hb : g.Bounded k) (l : List Nat) (h : NodesOk g l) :
    l.length = specNodeCount g k := by
  have := (nodesB_iff g k hb l).2 h
  unfold nodesB enumOk at this
  simp only [Bool.and_eq_true, beq_iff_eq] at this
  exact this.2

theorem nodesOk_spec (g : SG) (k : Nat) (hb : g.Bounded k) : NodesOk g ((univ k).filter g.node) := by
  refine ⟨(nodup_univ k).sublist List.filter_sublist, ?_⟩
  intro n; rw [List.mem_filter, mem_univ]
  exact ⟨fun h => h.2, fun h => ⟨hb.node_lt n h, h⟩⟩

theorem allEdgesOk_length (g : SG) (k : Nat) (hb : g.Bounded k) (hw : g.WF) (l : List (Nat × Nat × Nat))
    (h : AllEdgesOk g l) : l.length = (specEdgeKeys g k).length := by
  have := (allEdgesB_iff g k hb hw l).2 h
  unfold allEdgesB enumOk at this
  simp only [Bool.and_eq_true, beq_iff_eq, List.length_map] at this
  exact this.2.2

theorem allEdgesOk_spec (g : SG) (k : Nat) (hb : g.Bounded k) (hw : g.WF) : AllEdgesOk g (specEdges g k) := by
  rw [← allEdgesB_iff g k hb hw]
  unfold allEdgesB
  have hkeys : ∀ p ∈ specEdgeKeys g k, isKey g p = true := by
    intro p hp; exact (List.mem_filter.1 hp).2
  have hmap : (specEdges g k).map (fun e => canon g.directed (e.1, e.2.1)) = specEdgeKeys g k := by
    unfold specEdges
    rw [List.map_map]
    conv => rhs; rw [← List.map_id (specEdgeKeys g k)]
    apply List.map_congr_left
    intro p hp
    have := hkeys p hp
    unfold isKey at this
    simp only [Bool.and_eq_true, Bool.or_eq_true, decide_eq_true_eq] at this
    simp only [Function.comp, id]
    exact canon_self _ _ this.1
  rw [hmap, Bool.and_eq_true]
  constructor
  · rw [List.all_eq_true]
    intro e he
    unfold specEdges at he
    obtain ⟨p, hp, rfl⟩ := List.mem_map.1 he
    have := hkeys p hp
    unfold isKey at this
    simp only [Bool.and_eq_true] at this
    obtain ⟨w, hw'⟩ := Option.isSome_iff_exists.1 this.2
    simp [validEdge, hw']
  · unfold enumOk specEdgeKeys
    simp only [Bool.and_eq_true, nodupB_iff, List.all_eq_true, beq_iff_eq]
    exact ⟨⟨(nodup_pairs k).sublist List.filter_sublist, fun p hp => (List.mem_filter.1 hp).2⟩, trivial⟩

theorem allSome_iff (l : List (Nat × Nat × Option Nat)) (t : List (Nat × Nat × Nat)) :
    allSome l = some t ↔ l = someWeights t := by
  induction l generalizing t with
  | nil => cases t <;> simp [allSome, someWeights]
  | cons e r ih =>
    obtain ⟨a, b, w⟩ := e
    cases w with
    | none => cases t <;> simp [allSome, someWeights]
    | some w =>
      simp only [allSome, Option.map_eq_some_iff]
      constructor
      · rintro ⟨t', ht', rfl⟩
        rw [(ih t').1 ht']; simp [someWeights]
      · intro h
        cases t with
        | nil => simp [someWeights] at h
        | cons e' t' =>
          simp only [someWeights, List.map_cons, List.cons.injEq, Prod.mk.injEq, Option.some.injEq] at h
          obtain ⟨⟨rfl, rfl, rfl⟩, h2⟩ := h
          exact ⟨t', (ih t').2 h2, rfl⟩

def somes (e : Nat × Nat × Nat) : Option Nat × Option Nat × Nat := (some e.1, some e.2.1, e.2.2)

theorem resolveVia_iff (ws : List Nat) (es' : List (Option Nat × Option Nat × Nat)) (t : List (Nat × Nat × Nat)) :
    resolveVia ws es' = some t ↔ ∃ es : List (Nat × Nat × Nat), es' = es.map somes ∧
      es.map (fun e => (ws[e.1]?, ws[e.2.1]?, e.2.2)) = t.map somes := by
  induction es' generalizing t with
  | nil =>
    simp only [resolveVia, Option.some.injEq]
    constructor
    · rintro rfl; exact ⟨[], rfl, rfl⟩
    · rintro ⟨es, h1, h2⟩
      cases es with
      | nil => cases t <;> simp_all
      | cons _ _ => simp at h1
  | cons e r ih =>
    obtain ⟨oi, oj, w⟩ := e
    cases oi with
    | none =>
      simp only [resolveVia]
      constructor
      · intro h; cases h
      · rintro ⟨es, h1, _⟩; cases es <;> simp [somes] at h1
    | some i =>
      cases oj with
      | none =>
        simp only [resolveVia]
        constructor
        · intro h; cases h
        · rintro ⟨es, h1, _⟩; cases es <;> simp [somes] at h1
      | some j =>
        simp only [resolveVia]
        constructor
        · intro h
          cases hi : ws[i]? <;> cases hj : ws[j]? <;> simp only [hi, hj] at h
          · cases h
          · cases h
          · cases h
          · rename_i a b
            simp only [Option.map_eq_some_iff] at h
            obtain ⟨t', ht', rfl⟩ := h
            obtain ⟨es, h1, h2⟩ := (ih t').1 ht'
            refine ⟨(i, j, w) :: es, by simp [somes, h1], ?_⟩
            simp only [List.map_cons, hi, hj, h2, somes]
        · rintro ⟨es, h1, h2⟩
          cases es with
          | nil => simp at h1
          | cons e0 es0 =>
            simp only [List.map_cons, List.cons.injEq, somes, Prod.mk.injEq, Option.some.injEq] at h1
            obtain ⟨⟨rfl, rfl, rfl⟩, h1'⟩ := h1
            cases t with
            | nil => simp at h2
            | cons t0 t' =>
              simp only [List.map_cons, List.cons.injEq, somes, Prod.mk.injEq] at h2
              obtain ⟨⟨ha, hb', hc⟩, h2'⟩ := h2
              simp only [ha, hb']
              have := (ih t').2 ⟨es0, h1', h2'⟩
              simp only [this, Option.map_some]
              obtain ⟨x, y, z⟩ := t0
              simp at hc; subst hc; rfl

theorem judgeB_iff (g : SG) (k : Nat) (hb : g.Bounded k) (hw : g.WF) (op : Op) (o : Out) :
    judgeB g k op o = true ↔ OutOk g op o := by
  have hN := nodesB_iff g k hb
  have hE := allEdgesB_iff g k hb hw
  cases op with
  | addNode n => simp [judgeB, OutOk]
  | addEdge a b w => simp [judgeB, OutOk]
  | removeNode n => simp [judgeB, OutOk]
  | removeEdge a b => simp [judgeB, OutOk]
  | setWeight a b w => simp [judgeB, OutOk]
  | indexSet a b w => simp only [judgeB, OutOk, indexOut, beq_iff_eq]; cases g.w a b <;> exact Iff.rfl
  | index a b => simp only [judgeB, OutOk, indexOut, beq_iff_eq]; cases g.w a b <;> exact Iff.rfl
  | clear => simp [judgeB, OutOk]
  | extend es => simp [judgeB, OutOk]
  | roundTrip => simp [judgeB, OutOk]
  | fromEdges es => simp [judgeB, OutOk]
  | clone => simp [judgeB, OutOk]
  | fromGraph ws es => simp [judgeB, OutOk]
  | containsNode n => simp [judgeB, OutOk]
  | containsEdge a b => simp [judgeB, OutOk]
  | isAdjacent a b => simp [judgeB, OutOk]
  | edgeWeight a b => simp [judgeB, OutOk]
  | bumpAll x => cases o <;> simp [judgeB, OutOk, hE]
  | allEdges => cases o <;> simp [judgeB, OutOk, hE]
  | nodes => cases o <;> simp [judgeB, OutOk, hN]
  | neighbors a => cases o <;> simp [judgeB, OutOk, neighborsB_iff g k hb]
  | neighborsDirected a d => cases o <;> simp [judgeB, OutOk, neighborsB_iff g k hb]
  | buildAddEdge a b w =>
    simp only [judgeB, OutOk]
    cases g.hasEdge a b
    · simp only [Bool.false_eq_true, if_false]
      cases o <;> simp
      rename_i p; cases p <;> simp
      rename_i val
      constructor
      · intro h; exact ⟨val.1, val.2, rfl, h⟩
      · rintro ⟨x, y, rfl, h⟩; exact h
    · simp
  | buildUpdateEdge a b w =>
    cases o <;> simp [judgeB, OutOk]
    rename_i x y
    constructor
    · intro h; exact ⟨x, y, ⟨rfl, rfl⟩, h⟩
    · rintro ⟨x', y', ⟨rfl, rfl⟩, h⟩; exact h
  | edges a =>
    cases o <;> simp [judgeB, OutOk]
    rename_i l
    cases hs : allSome l with
    | none =>
      simp only [Bool.false_eq_true, false_iff, not_exists, not_and]
      intro t ht; rw [← allSome_iff] at ht; rw [ht] at hs; cases hs
    | some t =>
      simp only [edgesB_iff g k hb]
      have := (allSome_iff l t).1 hs
      constructor
      · intro h; exact ⟨t, this, h⟩
      · rintro ⟨t', ht', h⟩
        have := (allSome_iff l t').2 ht'
        rw [this] at hs; cases hs; exact h
  | edgesDirected a d =>
    cases o <;> simp [judgeB, OutOk]
    rename_i l
    cases hs : allSome l with
    | none =>
      simp only [Bool.false_eq_true, false_iff, not_exists, not_and]
      intro t ht; rw [← allSome_iff] at ht; rw [ht] at hs; cases hs
    | some t =>
      simp only [edgesB_iff g k hb]
      have := (allSome_iff l t).1 hs
      constructor
      · intro h; exact ⟨t, this, h⟩
      · rintro ⟨t', ht', h⟩
        have := (allSome_iff l t').2 ht'
        rw [this] at hs; cases hs; exact h
  | nodeCount =>
    simp only [judgeB, OutOk, beq_iff_eq]
    constructor
    · rintro rfl; exact ⟨_, nodesOk_spec g k hb, rfl⟩
    · rintro ⟨l, hl, rfl⟩; rw [nodesOk_length g k hb l hl]
  | edgeCount =>
    simp only [judgeB, OutOk, beq_iff_eq]
    constructor
    · rintro rfl
      refine ⟨_, allEdgesOk_spec g k hb hw, ?_⟩
      simp [specEdges]
    · rintro ⟨l, hl, rfl⟩; rw [allEdgesOk_length g k hb hw l hl]
  | toIndex n =>
    simp only [judgeB, OutOk]
    cases g.node n
    · simp
    · simp only [if_true]
      cases o <;> simp
      rename_i i
      constructor
      · intro h; exact ⟨_, nodesOk_spec g k hb, h⟩
      · rintro ⟨l, hl, h⟩; rw [← nodesOk_length g k hb l hl]; exact h
  | fromIndex i =>
    simp only [judgeB, OutOk]
    constructor
    · intro h
      refine ⟨_, nodesOk_spec g k hb, ?_⟩
      show if i < specNodeCount g k then _ else _
      split at h
      · rename_i hlt; simp only [hlt, if_true]; cases o <;> simp_all
      · rename_i hlt; simp only [hlt, if_false]; simpa using h
    · rintro ⟨l, hl, h⟩
      rw [nodesOk_length g k hb l hl] at h
      split at h
      · rename_i hlt
        obtain ⟨n, rfl, hn⟩ := h
        simp [hlt, hn]
      · rename_i hlt; simp [hlt, h]
  | edgeToIndex a b =>
    simp only [judgeB, OutOk]
    cases g.hasEdge a b
    · simp
    · simp only [if_true]
      cases o <;> simp
      · rename_i i
        constructor
        · intro h2
          refine ⟨_, allEdgesOk_spec g k hb hw, ?_⟩
          simpa [specEdges] using h2
        · rintro ⟨l, hl, h2⟩
          rw [← allEdgesOk_length g k hb hw l hl]; exact h2
  | edgeFromIndex i =>
    simp only [judgeB, OutOk]
    constructor
    · intro h
      refine ⟨_, allEdgesOk_spec g k hb hw, ?_⟩
      have hlen : (specEdges g k).length = (specEdgeKeys g k).length := by simp [specEdges]
      rw [hlen]
      split at h
      · rename_i hlt; simp only [hlt, if_true]
        cases o <;> simp at h
        rename_i x y
        exact ⟨x, y, rfl, h⟩
      · rename_i hlt; simp only [hlt, if_false]; simpa using h
    · rintro ⟨l, hl, h⟩
      rw [allEdgesOk_length g k hb hw l hl] at h
      split at h
      · rename_i hlt
        obtain ⟨x, y, rfl, hxy⟩ := h
        simp [hlt, hxy]
      · rename_i hlt; simp [hlt, h]
  | intoGraph =>
    cases o with
    | graph ws es' =>
      simp only [judgeB, OutOk, Bool.and_eq_true, hN]
      constructor
      · rintro ⟨hn, h⟩
        cases hr : resolveVia ws es' with
        | none => simp [hr] at h
        | some t =>
          simp only [hr, hE] at h
          obtain ⟨es, h1, h2⟩ := (resolveVia_iff ws es' t).1 hr
          exact ⟨ws, es, by rw [h1]; rfl, hn, t, h, h2⟩
      · rintro ⟨ws0, es, heq, hn, t, ht, h2⟩
        simp only [Out.graph.injEq] at heq
        obtain ⟨rfl, rfl⟩ := heq
        refine ⟨hn, ?_⟩
        have := (resolveVia_iff ws _ t).2 ⟨es, rfl, h2⟩
        rw [show (fun e : Nat × Nat × Nat => (some e.1, some e.2.1, e.2.2)) = somes from rfl, this]
        exact (hE t).2 ht
    | _ => simp [judgeB, OutOk]

/-- every node value a call mentions is below `k` -/
def OpBounded (k : Nat) : Op → Prop
  | .addNode n => n < k
  | .addEdge a b _ | .buildAddEdge a b _ | .buildUpdateEdge a b _ => a < k ∧ b < k
  | .extend es | .fromEdges es => ∀ e ∈ es, e.1 < k ∧ e.2.1 < k
  | .fromGraph ws _ => ∀ n ∈ ws, n < k
  | _ => True

theorem bounded_empty (d : Bool) (k : Nat) : (SG.empty d).Bounded k := by
  constructor <;> simp [SG.empty]

theorem bounded_addNode (g : SG) (k n : Nat) (h : g.Bounded k) (hn : n < k) : (g.addNode n).Bounded k := by
  constructor
  · intro x hx
    simp only [SG.addNode, Bool.or_eq_true, beq_iff_eq] at hx
    rcases hx with rfl | hx
    · exact hn
    · exact h.node_lt x hx
  · exact h.w_lt

theorem bounded_addEdge (g : SG) (k a b w : Nat) (h : g.Bounded k) (ha : a < k) (hb : b < k) :
    (g.addEdge a b w).Bounded k := by
  constructor
  · intro x hx
    simp only [SG.addEdge, Bool.or_eq_true, beq_iff_eq] at hx
    rcases hx with (rfl | rfl) | hx
    · exact ha
    · exact hb
    · exact h.node_lt x hx
  · intro x y hxy
    simp only [SG.addEdge] at hxy
    split at hxy
    · rename_i hs
      simp only [samePair, Bool.or_eq_true, Bool.and_eq_true, beq_iff_eq] at hs
      rcases hs with ⟨rfl, rfl⟩ | ⟨⟨_, rfl⟩, rfl⟩
      · exact ⟨ha, hb⟩
      · exact ⟨hb, ha⟩
    · exact h.w_lt x y hxy

theorem bounded_sub (g g' : SG) (k : Nat) (h : g.Bounded k) (hn : ∀ x, g'.node x = true → g.node x = true)
    (hw : ∀ x y, (g'.w x y).isSome = true → (g.w x y).isSome = true) : g'.Bounded k :=
  ⟨fun x hx => h.node_lt x (hn x hx), fun x y hxy => h.w_lt x y (hw x y hxy)⟩

theorem bounded_extend (g : SG) (k : Nat) (es : List (Nat × Nat × Nat)) (h : g.Bounded k)
    (he : ∀ e ∈ es, e.1 < k ∧ e.2.1 < k) : (g.extend es).Bounded k := by
  induction es generalizing g with
  | nil => exact h
  | cons e t ih =>
    obtain ⟨a, b, w⟩ := e
    have := he (a, b, w) (by simp)
    exact ih _ (bounded_addEdge g k a b w h this.1 this.2) (fun e' he' => he e' (by simp [he']))

theorem bounded_addNodes (g : SG) (k : Nat) (ws : List Nat) (h : g.Bounded k) (hws : ∀ n ∈ ws, n < k) :
    (g.addNodes ws).Bounded k := by
  induction ws generalizing g with
  | nil => exact h
  | cons n t ih =>
    exact ih _ (bounded_addNode g k n h (hws n (by simp))) (fun m hm => hws m (by simp [hm]))

theorem bounded_fromGraphEdges (g : SG) (k : Nat) (ws : List Nat) (es : List (Nat × Nat × Nat)) (g' : SG)
    (h : g.Bounded k) (hws : ∀ n ∈ ws, n < k) (hg : SG.fromGraphEdges g ws es = some g') : g'.Bounded k := by
  induction es generalizing g with
  | nil => simp [SG.fromGraphEdges] at hg; rw [← hg]; exact h
  | cons e t ih =>
    obtain ⟨i, j, w⟩ := e
    simp only [SG.fromGraphEdges] at hg
    cases hi : ws[i]? <;> cases hj : ws[j]? <;> simp only [hi, hj] at hg
    · cases hg
    · cases hg
    · cases hg
    · rename_i a b
      exact ih _ (bounded_addEdge g k a b w h (hws a (List.mem_of_getElem? hi)) (hws b (List.mem_of_getElem? hj))) hg

theorem specStep_bounded (g : SG) (k : Nat) (op : Op) (h : g.Bounded k) (hop : OpBounded k op) :
    (specStep g op).Bounded k := by
  cases op with
  | addNode n => exact bounded_addNode g k n h hop
  | addEdge a b w => exact bounded_addEdge g k a b w h hop.1 hop.2
  | buildUpdateEdge a b w => exact bounded_addEdge g k a b w h hop.1 hop.2
  | buildAddEdge a b w =>
    simp only [specStep]; split
    · exact h
    · exact bounded_addEdge g k a b w h hop.1 hop.2
  | removeNode n =>
    refine bounded_sub g _ k h ?_ ?_
    · intro x hx; simp only [specStep, SG.removeNode, Bool.and_eq_true] at hx; exact hx.2
    · intro x y hxy; simp only [specStep, SG.removeNode] at hxy; split at hxy <;> simp_all
  | removeEdge a b =>
    refine bounded_sub g _ k h (fun _ hx => hx) ?_
    intro x y hxy; simp only [specStep, SG.removeEdge] at hxy; split at hxy <;> simp_all
  | setWeight a b w =>
    simp only [specStep, SG.setWeight]; split
    · rename_i hh
      refine ⟨h.node_lt, ?_⟩
      intro x y hxy
      simp only at hxy
      split at hxy
      · rename_i hs
        have hab := h.w_lt a b hh
        simp only [samePair, Bool.or_eq_true, Bool.and_eq_true, beq_iff_eq] at hs
        rcases hs with ⟨rfl, rfl⟩ | ⟨⟨_, rfl⟩, rfl⟩
        · exact hab
        · exact hab.symm
      · exact h.w_lt x y hxy
    · exact h
  | indexSet a b w =>
    simp only [specStep, SG.setWeight]; split
    · rename_i hh
      refine ⟨h.node_lt, ?_⟩
      intro x y hxy
      simp only at hxy
      split at hxy
      · rename_i hs
        have hab := h.w_lt a b hh
        simp only [samePair, Bool.or_eq_true, Bool.and_eq_true, beq_iff_eq] at hs
        rcases hs with ⟨rfl, rfl⟩ | ⟨⟨_, rfl⟩, rfl⟩
        · exact hab
        · exact hab.symm
      · exact h.w_lt x y hxy
    · exact h
  | bumpAll x =>
    refine bounded_sub g _ k h (fun _ hx => hx) ?_
    intro a b hab; simp only [specStep, SG.bumpAll] at hab
    cases hg : g.w a b <;> simp_all
  | clear => exact bounded_empty _ _
  | extend es => exact bounded_extend g k es h hop
  | fromEdges es => exact bounded_extend _ k es (bounded_empty _ _) hop
  | fromGraph ws es =>
    simp only [specStep]
    cases hf : SG.fromGraph g.directed ws es with
    | none => exact h
    | some g' =>
      unfold SG.fromGraph at hf
      exact bounded_fromGraphEdges _ k ws es g' (bounded_addNodes _ k ws (bounded_empty _ _) hop) hop hf
  | _ => exact h

theorem specRun_bounded (g : SG) (k : Nat) (ops : List Op) (h : g.Bounded k) (hops : ∀ op ∈ ops, OpBounded k op) :
    (specRun g ops).Bounded k := by
  induction ops generalizing g with
  | nil => exact h
  | cons op t ih =>
    exact ih _ (specStep_bounded g k op h (hops op (by simp))) (fun o ho => hops o (by simp [ho]))

end PetgraphModel.GMJudge
